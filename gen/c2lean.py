#!/usr/bin/env python3
"""Translator for the string helpers of /repo: clang's JSON AST of each listed function -> a term of
`MiniC.Stmt` (lean/Econf/MiniC.lean), written to lean/Generated/LeafFns.lean on every run.

Only the C subset of MiniC is accepted; anything else (a new construct after a change to the code) raises
`Unsupported`, which the checks report as a proof obligation that no longer holds."""
import json
import os
import subprocess
import sys

VERIF = os.path.dirname(os.path.dirname(os.path.abspath(__file__)))
REPO = os.environ.get("VERIF_REPO", "/repo")
OUT = os.environ.get("C2LEAN_OUT") or os.path.join(VERIF, "lean", "Generated", "LeafFns.lean")

# (source file, function); callees before callers
TARGETS = [
    ("lib/helpers.c", "stripbrackets"),
    ("lib/helpers.c", "addbrackets"),
    ("lib/helpers.c", "toLowerCase"),
    ("lib/helpers.c", "hashstring"),
    ("lib/libeconf_ext.c", "ltrim"),
    ("lib/libeconf_ext.c", "rtrim"),
    ("lib/libeconf_ext.c", "trim"),
    ("lib/getfilecontents.c", "check_delim"),
    ("util/econftool.c", "replace_str"),
    # functions over the entry array of an econf_file (struct members = word slots)
    ("lib/mergefiles.c", "has_group"),
    ("lib/mergefiles.c", "first_entry"),
    ("lib/mergefiles.c", "first_definition"),
    ("lib/helpers.c", "getFromGroupList"),
    ("lib/helpers.c", "find_key"),
    # the copying half of the merge: struct values, (re)allocation of word arrays
    ("lib/helpers.c", "setGroupList"),
    ("lib/helpers.c", "cpy_file_entry"),
    ("lib/mergefiles.c", "insert_nogroup"),
    ("lib/mergefiles.c", "merge_existing_groups"),
    ("lib/mergefiles.c", "add_new_groups"),
    # the caller of the three: allocation of the result and its array (calloc, malloc, the address of a local), the calls, the assignments
    ("lib/libeconf.c", "econf_mergeFiles"),
    # getters: results through out-parameters (`*length`, `*groups`, `(*groups)[*length]`)
    ("lib/libeconf.c", "econf_getGroups"),
    # calloc of an array of flags / of pointers (allocation + a loop that stores the zeros)
    ("lib/libeconf.c", "econf_getKeys"),
]

# struct types whose members become word slots (one per member, in declaration order)
RECORDS = ["file_entry", "econf_file"]

BUILTINS = {"strcmp", "strlen", "isspace", "tolower", "strchr", "strrchr", "strstr", "stpcpy", "strcpy", "memcpy", "memmove",
            "malloc", "strdup", "free"}


class Unsupported(Exception):
    pass


def ast_docs(path, fn):
    cmd = ["clang-14", "-Xclang", "-ast-dump=json", "-Xclang", "-ast-dump-filter=" + fn, "-fsyntax-only", "-w",
           "-D_GNU_SOURCE", "-D_REENTRANT", "-D__NO_CTYPE",
           "-I" + os.path.join(REPO, "include"), "-I" + os.path.join(REPO, "lib"), "-I" + os.path.join(REPO, "util"),
           os.path.join(REPO, path)]
    p = subprocess.run(cmd, stdout=subprocess.PIPE, stderr=subprocess.PIPE)
    if p.returncode != 0 or not p.stdout:
        raise Unsupported("clang failed on %s: %s" % (path, p.stderr.decode()[-300:]))
    txt = p.stdout.decode()
    dec = json.JSONDecoder()
    i = 0
    docs = []
    while i < len(txt):
        while i < len(txt) and txt[i].isspace():
            i += 1
        if i >= len(txt):
            break
        d, i = dec.raw_decode(txt, i)
        docs.append(d)
    return docs


def find_def(path, fn):
    for d in ast_docs(path, fn):
        if d.get("kind") == "FunctionDecl" and d.get("name") == fn and any(c.get("kind") == "CompoundStmt" for c in d.get("inner", [])):
            return d
    raise Unsupported("no definition of %s in %s" % (fn, path))


def clean_type(node):
    t = node.get("type", {})
    q = t.get("desugaredQualType") or t.get("qualType") or ""
    return q.replace("const ", "").replace("volatile ", "").replace(" const", "").strip()


def record_of(q):
    """name of the struct type `q` (after removing `struct`), or None"""
    q = q.replace("struct ", "").strip()
    return q if q in RECORDS else None


_layouts = {}
_field_is_ptr = {}
_field_ty = {}
_enums = {}


def enum_value(path, name):
    """value of an enumeration constant (explicit values and implicit successors)"""
    if path not in _enums:
        vals = {}
        # every enumeration constant of the translation unit that is referenced is one of econf_err
        for d in ast_docs(path, "econf_err"):
            if d.get("kind") != "EnumDecl":
                continue
            nxt = 0
            for c in d.get("inner", []):
                if c.get("kind") != "EnumConstantDecl":
                    continue
                ce = [x for x in c.get("inner", []) if x.get("kind") == "ConstantExpr"]
                if ce:
                    nxt = int(ce[0]["value"])
                vals[c["name"]] = nxt
                nxt += 1
        _enums[path] = vals
    if name not in _enums[path]:
        raise Unsupported("enumeration constant %s" % name)
    return _enums[path][name]



def layout(path, rec):
    """member names of a struct, in declaration order (one word slot each)"""
    if (path, rec) not in _layouts:
        fields = None
        for d in ast_docs(path, rec):
            if d.get("kind") == "RecordDecl" and d.get("name") == rec and d.get("completeDefinition"):
                fields = []
                for c in d.get("inner", []):
                    if c.get("kind") == "FieldDecl":
                        q = clean_type(c)
                        if not q.endswith("*") and record_of(q):
                            raise Unsupported("struct member of struct type: %s.%s" % (rec, c.get("name")))
                        if "[" in q:
                            raise Unsupported("array member: %s.%s" % (rec, c.get("name")))
                        fields.append(c.get("name"))
                        _field_is_ptr[(rec, c.get("name"))] = q.endswith("*")
                        if not q.endswith("*"):
                            try:
                                _field_ty[(rec, c.get("name"))] = ty_of(c)
                            except Unsupported:
                                pass
                break
        if fields is None:
            raise Unsupported("no definition of struct %s in %s" % (rec, path))
        _layouts[(path, rec)] = fields
    return _layouts[(path, rec)]


def vty(node):
    """type of a value as the interpreter sees it: a struct value is handled through a pointer to its words"""
    return "ptr" if record_of(clean_type(node)) else ty_of(node)


def ty_of(node):
    q = clean_type(node)
    if q.endswith("*"):
        return "ptr"
    table = {"char": "i8", "signed char": "i8", "unsigned char": "u8", "int": "i32", "unsigned int": "u32",
             "long": "i64", "unsigned long": "u64", "long long": "i64", "unsigned long long": "u64",
             "_Bool": "bool", "bool": "bool", "size_t": "u64", "ssize_t": "i64"}
    if q in table:
        return table[q]
    if q.startswith("enum "):
        return "u32"          # the enumerations of libeconf have no negative constants: compatible with unsigned int
    raise Unsupported("type %r" % q)


BINOPS = {"+": "add", "-": "sub", "*": "mul", "/": "div", "%": "mod", "<": "lt", "<=": "le", ">": "gt", ">=": "ge",
          "==": "eq", "!=": "ne", "&": "band", "|": "bor", "^": "bxor", "<<": "shl", ">>": "shr"}


class FnTr:
    def __init__(self, name, decl, done, path=None):
        self.name = name
        self.path = path
        self.done = done            # name -> translated Fn text pieces (for inlining)
        self.vars = {}              # decl id -> index
        self.byval = {}             # decl id of a parameter of struct type passed by value -> struct name
        self.structlocal = {}       # decl id of a local variable of struct type -> struct name (the variable holds a pointer to its words)
        self.nparams = 0
        for c in decl.get("inner", []):
            if c.get("kind") == "ParmVarDecl":
                self.vars[c["id"]] = len(self.vars)
                self.nparams += 1
                rec = record_of(clean_type(c))
                if rec:
                    # the callee's copy is represented by a pointer to the words of the argument: equivalent as long as the
                    # function only reads its copy (checked below) - a copy that is never written cannot be told from the original
                    self.byval[c["id"]] = rec
        self.pending = []           # hoisted calls of translated functions (statements)
        self.no_hoist = False
        self.body_node = next(c for c in decl["inner"] if c.get("kind") == "CompoundStmt")
        # local variables of scalar type whose address is taken (`&fe`): they live in a block of one word of their own, the
        # variable of the interpreter holds the pointer to it; every read and write of the C variable goes through that word
        self.celllocal = set()
        def scan(n):
            if not isinstance(n, dict):
                return
            if n.get("kind") == "UnaryOperator" and n.get("opcode") == "&":
                sub = n.get("inner", [{}])[0]
                while sub.get("kind") == "ParenExpr":
                    sub = sub.get("inner", [{}])[0]
                if sub.get("kind") == "DeclRefExpr" and sub.get("referencedDecl", {}).get("kind") == "VarDecl":
                    self.celllocal.add(sub["referencedDecl"]["id"])
            for c in n.get("inner", []) or []:
                scan(c)
        scan(self.body_node)
        self.ret_ty = None
        rt = decl.get("type", {}).get("qualType", "")
        self.ret_ty = "ptr" if (rt.split("(")[0].strip().endswith("*") or record_of(rt.split("(")[0].replace("const ", "").strip())) else None
        if self.ret_ty is None:
            base = rt.split("(")[0].strip()
            if base != "void":
                try:
                    self.ret_ty = ty_of({"type": {"qualType": base}})
                except Unsupported:
                    self.ret_ty = None

    def check_byval_readonly(self, n, written=False):
        """no assignment may reach a by-value struct parameter through member / element selection"""
        if not isinstance(n, dict):
            return
        k = n.get("kind")
        if k == "DeclRefExpr" and written and n.get("referencedDecl", {}).get("id") in self.byval:
            raise Unsupported("the function writes to its by-value struct parameter %s" % n["referencedDecl"].get("name"))
        kids = [c for c in n.get("inner", []) if c]
        if k in ("BinaryOperator", "CompoundAssignOperator") and (n.get("opcode") == "=" or k == "CompoundAssignOperator"):
            self.check_byval_readonly(kids[0], True)
            self.check_byval_readonly(kids[1], False)
            return
        if k == "UnaryOperator" and n.get("opcode") in ("++", "--", "&"):
            self.check_byval_readonly(kids[0], True)
            return
        if k in ("MemberExpr", "ParenExpr") or (k == "ArraySubscriptExpr"):
            if k == "MemberExpr" and n.get("isArrow"):
                written = False       # through a pointer: another object
            for i, c in enumerate(kids):
                self.check_byval_readonly(c, written and (k != "ArraySubscriptExpr" or i == 0) and k != "ImplicitCastExpr")
            return
        for c in kids:
            self.check_byval_readonly(c, False)

    def member_index(self, n):
        base = self.inner(n)[0]
        q = clean_type(base)
        if n.get("isArrow"):
            if not q.endswith("*"):
                raise Unsupported("-> on %s" % q)
            q = q[:-1].strip()
        rec = record_of(q)
        if rec is None:
            raise Unsupported("member of %s" % q)
        fields = layout(self.path, rec)
        if n.get("name") not in fields:
            raise Unsupported("member %s.%s" % (rec, n.get("name")))
        return fields.index(n["name"])

    def addr(self, n):
        """pointer to the words of the struct-typed lvalue `n`"""
        k = n.get("kind")
        if k == "ParenExpr":
            return self.addr(self.inner(n)[0])
        if k == "DeclRefExpr":
            d = n["referencedDecl"]
            if d.get("id") in self.byval or d.get("id") in self.structlocal:
                return "(.load (.var %d) .ptr)" % self.vars[d["id"]]
            raise Unsupported("struct variable %s" % d.get("name"))
        if k == "UnaryOperator" and n.get("opcode") == "*":
            return self.expr(self.inner(n)[0])
        if k == "ArraySubscriptExpr":
            base, idx = self.inner(n)
            rec = record_of(clean_type(n))
            if rec is None:
                raise Unsupported("address of an element of type %s" % clean_type(n))
            return "(.sidx %s %s %d)" % (self.expr(base), self.expr(idx), len(layout(self.path, rec)))
        raise Unsupported("address of %s" % k)

    def conjuncts(self, n):
        while n.get("kind") == "ParenExpr":
            n = self.inner(n)[0]
        if n.get("kind") == "BinaryOperator" and n.get("opcode") == "&&":
            a, b = self.inner(n)
            return self.conjuncts(a) + self.conjuncts(b)
        return [n]

    def has_user_call(self, n):
        if not isinstance(n, dict):
            return False
        if n.get("kind") == "CallExpr":
            try:
                if self.callee_name(n) in self.done:
                    return True
            except Unsupported:
                pass
        return any(self.has_user_call(c) for c in n.get("inner", []) if c)

    def guarded(self, n):
        """an expression that is not always evaluated exactly once: no hoisted calls inside"""
        old = self.no_hoist
        self.no_hoist = True
        try:
            return self.expr(n)
        finally:
            self.no_hoist = old

    def top(self, n):
        """-> (statements to run first, expression): an expression evaluated exactly once where it stands"""
        assert not self.pending
        e = self.expr(n)
        pre, self.pending = self.pending, []
        return pre, e

    def new_temp(self):
        i = len(self.vars)
        self.vars["tmp%d" % i] = i
        return i

    # ----- expressions
    def inner(self, n):
        return [c for c in n.get("inner", []) if c]

    def callee_name(self, n):
        f = self.inner(n)[0]
        while f.get("kind") in ("ImplicitCastExpr", "ParenExpr"):
            f = self.inner(f)[0]
        if f.get("kind") != "DeclRefExpr":
            raise Unsupported("indirect call")
        return f["referencedDecl"]["name"]

    def lval(self, n):
        k = n.get("kind")
        if k == "ParenExpr":
            return self.lval(self.inner(n)[0])
        if k == "DeclRefExpr":
            d = n["referencedDecl"]
            if d.get("id") not in self.vars:
                raise Unsupported("reference to %s (not a parameter or local variable)" % d.get("name"))
            if d.get("id") in self.celllocal:
                return "(.slot (.load (.var %d) .ptr) 0)" % self.vars[d["id"]]
            return "(.var %d)" % self.vars[d["id"]]
        if k == "UnaryOperator" and n.get("opcode") == "*":
            if ty_of(n) in ("i8", "u8", "bool"):      # one-byte objects live in character memory
                return "(.deref %s)" % self.expr(self.inner(n)[0])
            return "(.slot %s 0)" % self.expr(self.inner(n)[0])       # an object of pointer / word type
        if k == "ArraySubscriptExpr":
            base, idx = self.inner(n)
            if ty_of(n) in ("i8", "u8", "bool"):
                return "(.deref (.bin .add %s %s .ptr))" % (self.expr(base), self.expr(idx))
            return "(.slot (.sidx %s %s 1) 0)" % (self.expr(base), self.expr(idx))
        if k == "MemberExpr":
            i = self.member_index(n)
            base = self.inner(n)[0]
            if n.get("isArrow"):
                return "(.slot %s %d)" % (self.expr(base), i)
            return "(.slot %s %d)" % (self.addr(base), i)
        raise Unsupported("lvalue %s" % k)

    def expr(self, n):
        k = n.get("kind")
        if k == "ParenExpr":
            return self.expr(self.inner(n)[0])
        if k == "IntegerLiteral":
            return "(.lit %s .%s)" % (lean_int(int(n["value"])), ty_of(n))
        if k == "CharacterLiteral":
            return "(.lit %s .i32)" % lean_int(int(n["value"]))
        if k == "StringLiteral":
            return "(.strlit %s)" % lean_bytes(c_string_bytes(n["value"]))
        if k in ("ImplicitCastExpr", "CStyleCastExpr"):
            ck = n.get("castKind")
            sub = self.inner(n)[0]
            if ck == "LValueToRValue":
                if record_of(clean_type(n)):
                    return self.addr(sub)          # a struct value: the pointer to its words
                return "(.load %s .%s)" % (self.lval(sub), ty_of(n))
            if ck == "NullToPointer":
                return ".null"
            if ck in ("NoOp", "BitCast"):
                return self.expr(sub)
            if ck == "ArrayToPointerDecay" and sub.get("kind") == "StringLiteral":
                return self.expr(sub)
            if ck in ("IntegralCast", "IntegralToBoolean", "PointerToBoolean"):
                return "(.cast .%s %s)" % (ty_of(n), self.expr(sub))
            if ck == "ToVoid":
                return self.expr(sub)
            raise Unsupported("cast kind %s" % ck)
        if k == "UnaryOperator":
            op = n.get("opcode")
            sub = self.inner(n)[0]
            if op in ("++", "--"):
                return "(.incdec %s %s %s .%s)" % (self.lval(sub), lb(op == "++"), lb(bool(n.get("isPostfix"))), ty_of(n))
            if op == "&":
                t = sub
                while t.get("kind") == "ParenExpr":
                    t = self.inner(t)[0]
                if t.get("kind") == "DeclRefExpr" and t.get("referencedDecl", {}).get("id") in self.celllocal:
                    return "(.load (.var %d) .ptr)" % self.vars[t["referencedDecl"]["id"]]
                raise Unsupported("address of %s" % t.get("kind"))
            if op == "!":
                return "(.un .lnot %s .%s)" % (self.expr(sub), ty_of(n))
            if op == "-":
                return "(.un .neg %s .%s)" % (self.expr(sub), ty_of(n))
            if op == "~":
                return "(.un .bnot %s .%s)" % (self.expr(sub), ty_of(n))
            if op == "+":
                return self.expr(sub)
            raise Unsupported("unary %s in rvalue position" % op)
        if k == "BinaryOperator":
            op = n.get("opcode")
            a, b = self.inner(n)
            if op == "=":
                return "(.assign %s %s .%s)" % (self.lval(a), self.expr(b), ty_of(a))
            if op in ("&&", "||"):
                ea = self.expr(a)
                eb = self.guarded(b)
                return "(.%s %s %s)" % ("land" if op == "&&" else "lor", ea, eb)
            if op == "," :
                raise Unsupported("comma operator")
            if op in BINOPS:
                return "(.bin .%s %s %s .%s)" % (BINOPS[op], self.expr(a), self.expr(b), ty_of(n))
            raise Unsupported("binary %s" % op)
        if k == "CompoundAssignOperator":
            op = n.get("opcode")[:-1]
            a, b = self.inner(n)
            if op not in BINOPS:
                raise Unsupported("compound %s" % op)
            return "(.opassign .%s %s %s .%s)" % (BINOPS[op], self.lval(a), self.expr(b), ty_of(a))
        if k == "ConditionalOperator":
            c, a, b = self.inner(n)
            return "(.cond %s %s %s)" % (self.expr(c), self.guarded(a), self.guarded(b))
        if k == "UnaryExprOrTypeTraitExpr" and n.get("name") == "sizeof" and n.get("argType"):
            # sizes of word objects are counted in words (one per struct member, one per pointer); `char` counts bytes
            q = clean_type({"type": n["argType"]})
            rec = record_of(q)
            if rec:
                return "(.lit %d .u64)" % len(layout(self.path, rec))
            if q.endswith("*") or q in ("char", "_Bool", "bool"):
                return "(.lit 1 .u64)"
            raise Unsupported("sizeof(%s)" % q)
        if k == "CallExpr" and self.callee_name(n) == "realloc":
            a0 = self.inner(n)[1]
            src = a0
            while src.get("kind") in ("ImplicitCastExpr", "CStyleCastExpr", "ParenExpr") and src.get("castKind") in ("BitCast", "NoOp", None):
                src = self.inner(src)[0]
            q = clean_type(src)
            if not q.endswith("*") or q[:-1].strip() in ("char", "unsigned char", "void"):
                raise Unsupported("realloc of %s" % q)
            args = [self.expr(a) for a in self.inner(n)[1:]]
            return "(.call \"realloc_words\" %s)" % args_term(args)
        if k == "CallExpr":
            name = self.callee_name(n)
            if name in BUILTINS:
                args = [self.expr(a) for a in self.inner(n)[1:]]
                return "(.call \"%s\" %s)" % (name, args_term(args))
            if name in self.done:
                # a call of a translated function inside an expression: performed first, its result kept in a temporary.
                # Allowed where C leaves the order of evaluation open (operands of arithmetic / comparison operators) and the
                # operands evaluated so far have no side effects; not under && || ?: or in a loop condition.
                if self.no_hoist:
                    raise Unsupported("call of %s in a conditionally or repeatedly evaluated expression" % name)
                t = self.new_temp()
                ty = vty(n)
                self.pending += self.user_call(n, "(.var %d)" % t, ty)
                return "(.load (.var %d) .%s)" % (t, ty)
            raise Unsupported("call of %s inside an expression" % name)
        if k == "DeclRefExpr" and n.get("referencedDecl", {}).get("kind") == "EnumConstantDecl":
            return "(.lit %d .i32)" % enum_value(self.path, n["referencedDecl"]["name"])
        if k in ("DeclRefExpr", "ArraySubscriptExpr"):
            raise Unsupported("lvalue %s used without conversion" % k)
        raise Unsupported("expression %s" % k)

    def top_alloc(self, n, target_type):
        """like `top`, but `malloc(<n> * sizeof(struct T))` assigned to a `struct T *` is an array of words"""
        call = self.strip(n)
        rec = record_of(target_type.rstrip("*").strip()) if target_type.endswith("*") else None
        if rec and call.get("kind") == "CallExpr" and self.callee_name(call) == "malloc":
            pre, e = self.top(self.inner(call)[1])        # sizeof(struct T) counts words, so the argument is a number of words
            return pre, "(.call \"malloc_words\" (.cons %s .nil))" % e
        return self.top(n)

    def calloc_array(self, lv, target_type, call):
        """`lv = calloc(N, sizeof(T))` for an array of one-byte flags (`bool *lv`, `sizeof(bool)`) or of pointers (`T **lv`, `sizeof(T *)`):
        the allocation (bytes / words), then a loop over two new variables that stores the N zeros (NULL pointers); N is evaluated once.
        -> statements, or None when the call has another form"""
        def unwrap(x):
            while x.get("kind") in ("ImplicitCastExpr", "ParenExpr", "CStyleCastExpr"):
                x = self.inner(x)[0]
            return x
        args = self.inner(call)[1:]
        if len(args) != 2 or not target_type.endswith("*"):
            return None
        elem = target_type[:-1].strip()
        sz = unwrap(args[1])
        if not (sz.get("kind") == "UnaryExprOrTypeTraitExpr" and sz.get("name") == "sizeof" and sz.get("argType")):
            return None
        q = clean_type({"type": sz["argType"]})
        if elem in ("_Bool", "bool") and q in ("_Bool", "bool"):
            words = False
        elif elem.endswith("*") and q.endswith("*"):
            words = True
        else:
            return None
        if self.has_user_call(args[0]):
            return None
        tn, ti = self.new_temp(), self.new_temp()
        count = self.guarded(args[0])
        out = ["(.expr (.assign (.var %d) %s .u64))" % (tn, count)]
        size = "(.bin .mul (.load (.var %d) .u64) (.lit 1 .u64) .u64)" % tn
        out.append("(.expr (.assign %s (.call \"%s\" (.cons %s .nil)) .ptr))" % (lv, "malloc_words" if words else "malloc", size))
        if words:
            store = "(.expr (.assign (.slot (.sidx (.load %s .ptr) (.load (.var %d) .u64) 1) 0) .null .ptr))" % (lv, ti)
        else:
            store = "(.expr (.assign (.deref (.bin .add (.load %s .ptr) (.load (.var %d) .u64) .ptr)) (.cast .bool (.lit 0 .i32)) .bool))" % (lv, ti)
        out.append("(.expr (.assign (.var %d) (.cast .u64 (.lit 0 .i32)) .u64))" % ti)
        out.append("(.for (some (.bin .lt (.load (.var %d) .u64) (.load (.var %d) .u64) .i32)) (some (.incdec (.var %d) true true .u64)) %s)" % (ti, tn, ti, store))
        return out

    # ----- calls of translated functions (inlined)
    def strip(self, n):
        while n.get("kind") in ("ParenExpr",) or (n.get("kind") in ("ImplicitCastExpr", "CStyleCastExpr") and n.get("castKind") in ("NoOp", "BitCast")):
            n = self.inner(n)[0]
        return n

    def is_user_call(self, n):
        n = self.strip(n)
        return n.get("kind") == "CallExpr" and self.callee_name(n) in self.done

    def user_call(self, n, dst, dty):
        """-> list of statements; the call's result goes to lvalue `dst` (Lean text or None)"""
        n = self.strip(n)
        name = self.callee_name(n)
        callee = self.done[name]
        pre = []
        args = []
        for a in self.inner(n)[1:]:
            if self.is_user_call(a):
                t = self.new_temp()
                pre += self.user_call(a, "(.var %d)" % t, vty(a))
                args.append("(.load (.var %d) .%s)" % (t, vty(a)))
            else:
                args.append(self.expr(a))
        d = "none" if dst is None else "(some %s)" % dst
        pre.append("(.inl %s .%s %s %d %s.body)" % (d, dty or "i32", args_term(args), callee["nlocals"], name))
        return pre

    # ----- statements
    def stmts(self, n):
        """-> list of Lean Stmt terms"""
        k = n.get("kind")
        if k == "CompoundStmt":
            out = []
            for c in self.inner(n):
                out += self.stmts(c)
            return out
        if k == "NullStmt":
            return []
        if k == "DeclStmt":
            out = []
            for v in self.inner(n):
                if v.get("kind") != "VarDecl":
                    raise Unsupported("declaration %s" % v.get("kind"))
                if v.get("storageClass") == "static":
                    raise Unsupported("static local %s" % v.get("name"))
                rec = record_of(clean_type(v))
                if rec:
                    if self.inner(v):
                        raise Unsupported("initialiser of the struct variable %s" % v.get("name"))
                    self.vars[v["id"]] = len(self.vars)
                    self.structlocal[v["id"]] = rec
                    out.append("(.expr (.assign (.var %d) (.call \"alloca_words\" (.cons (.lit %d .u64) .nil)) .ptr))" % (
                        self.vars[v["id"]], len(layout(self.path, rec))))
                    continue
                ty = ty_of(v)
                self.vars[v["id"]] = len(self.vars)
                idx = self.vars[v["id"]]
                init = self.inner(v)
                target = "(.var %d)" % idx
                if v["id"] in self.celllocal:
                    out.append("(.expr (.assign (.var %d) (.call \"alloca_words\" (.cons (.lit 1 .u64) .nil)) .ptr))" % idx)
                    target = "(.slot (.load (.var %d) .ptr) 0)" % idx
                if init:
                    if self.is_user_call(init[0]):
                        out += self.user_call(init[0], target, ty)
                    else:
                        c0 = self.strip(init[0])
                        arr = self.calloc_array(target, clean_type(v), c0) if c0.get("kind") == "CallExpr" and self.callee_name(c0) == "calloc" else None
                        if arr is not None:
                            out += arr
                            continue
                        pre, e = self.top_alloc(init[0], clean_type(v))
                        out += pre
                        out.append("(.expr (.assign %s %s .%s))" % (target, e, ty))
            return out
        if k == "IfStmt":
            parts = self.inner(n)
            if len(parts) == 2 and self.has_user_call(parts[0]) and len(self.conjuncts(parts[0])) > 1:
                # if (A && f(x) && ...) S  without else  =  if (A) if (f(x)) ... S : every conjunct is evaluated at most once and
                # only when the ones before it hold, so a call of a translated function among them can be performed where it stands
                body = self.stmts(parts[1])
                for cj in reversed(self.conjuncts(parts[0])):
                    pre, c = self.top(cj)
                    body = pre + ["(.ite %s %s .skip)" % (c, seq(body))]
                return body
            pre, c = self.top(parts[0])
            a = seq(self.stmts(parts[1]))
            b = seq(self.stmts(parts[2])) if len(parts) > 2 else ".skip"
            return pre + ["(.ite %s %s %s)" % (c, a, b)]
        if k == "WhileStmt":
            c, body = self.inner(n)
            return ["(.while %s %s)" % (self.guarded(c), seq(self.stmts(body)))]
        if k == "DoStmt":
            body, c = self.inner(n)
            return ["(.dowhile %s %s)" % (seq(self.stmts(body)), self.guarded(c))]
        if k == "ForStmt":
            raw = n.get("inner", [])
            if len(raw) != 5:
                raise Unsupported("for statement shape")
            init, condvar, cond, inc, body = raw
            if condvar:
                raise Unsupported("condition variable")
            out = self.stmts(init) if init else []
            c = "(some %s)" % self.guarded(cond) if cond else "none"
            i = "(some %s)" % self.guarded(inc) if inc else "none"
            out.append("(.for %s %s %s)" % (c, i, seq(self.stmts(body))))
            return out
        if k == "BreakStmt":
            return [".brk"]
        if k == "ContinueStmt":
            return [".cont"]
        if k == "ReturnStmt":
            parts = self.inner(n)
            if not parts:
                return ["(.ret none)"]
            if self.is_user_call(parts[0]):
                t = self.new_temp()
                ty = ty_of(parts[0])
                return self.user_call(parts[0], "(.var %d)" % t, ty) + ["(.ret (some (.load (.var %d) .%s)))" % (t, ty)]
            pre, e = self.top(parts[0])
            return pre + ["(.ret (some %s))" % e]
        # assignment of a struct value: the words are copied
        if k == "BinaryOperator" and n.get("opcode") == "=" and record_of(clean_type(self.inner(n)[0])):
            a, b = self.inner(n)
            rec = record_of(clean_type(a))
            nwords = len(layout(self.path, rec))
            if self.is_user_call(b):
                t = self.new_temp()
                pre = self.user_call(b, "(.var %d)" % t, "ptr")       # the callee's struct, through a pointer to its words
                src = "(.load (.var %d) .ptr)" % t
            else:
                pre, src = self.top(b)
            pre2, dst = [], None
            assert not self.pending
            dst = self.addr(a)
            pre2, self.pending = self.pending, []
            return pre + pre2 + ["(.expr (.call \"copy_words\" (.cons %s (.cons %s (.cons (.lit %d .u64) .nil)))))" % (dst, src, nwords)]
        # X = calloc(1, sizeof(struct T)): a block of the struct's words, every member zero (NULL for the pointer members)
        if k == "BinaryOperator" and n.get("opcode") == "=":
            a, b = self.inner(n)
            call = self.strip(b)
            if call.get("kind") == "CallExpr" and self.callee_name(call) == "calloc":
                args = self.inner(call)[1:]
                rec = record_of(clean_type(a).rstrip("*").strip()) if clean_type(a).endswith("*") else None
                def unwrap(x):
                    while x.get("kind") in ("ImplicitCastExpr", "ParenExpr", "CStyleCastExpr"):
                        x = self.inner(x)[0]
                    return x
                one = unwrap(args[0])
                sz = unwrap(args[1])
                if rec is None:
                    arr = self.calloc_array(self.lval(a), clean_type(a), call)
                    if arr is not None:
                        return arr
                if rec is None or one.get("kind") != "IntegerLiteral" or one.get("value") != "1" or \
                        not (sz.get("kind") == "UnaryExprOrTypeTraitExpr" and record_of(clean_type({"type": sz.get("argType", {})})) == rec):
                    raise Unsupported("calloc other than calloc(1, sizeof(struct)) assigned to a pointer to that struct")
                fields = layout(self.path, rec)
                lv = self.lval(a)
                out = ["(.expr (.assign %s (.call \"malloc_words\" (.cons (.lit %d .u64) .nil)) .ptr))" % (lv, len(fields))]
                for i, f in enumerate(fields):
                    zero = ".null" if _field_is_ptr[(rec, f)] else "(.lit 0 .i32)"
                    fty = "ptr" if _field_is_ptr[(rec, f)] else _field_ty.get((rec, f), "i32")
                    out.append("(.expr (.assign (.slot (.load %s .ptr) %d) %s .%s))" % (lv, i, zero if fty == "ptr" else "(.cast .%s (.lit 0 .i32))" % fty, fty))
                return out
        # expression statement
        if self.is_user_call(n):
            return self.user_call(n, None, None)
        if k == "BinaryOperator" and n.get("opcode") == "=" and self.is_user_call(self.inner(n)[1]):
            a, b = self.inner(n)
            return self.user_call(b, self.lval(a), vty(a))
        pre, e = self.top(n)
        return pre + ["(.expr %s)" % e]


def c_string_bytes(lit):
    """bytes of a C string literal as clang prints it (with quotes and escapes)"""
    if not (lit.startswith('"') and lit.endswith('"')):
        raise Unsupported("string literal %r" % lit)
    body = lit[1:-1]
    out = []
    i = 0
    simple = {"n": 10, "t": 9, "r": 13, "f": 12, "v": 11, "a": 7, "b": 8, "\\": 92, '"': 34, "'": 39, "0": 0}
    while i < len(body):
        ch = body[i]
        if ch != "\\":
            out += list(ch.encode("utf-8"))
            i += 1
            continue
        nx = body[i + 1]
        if nx == "x":
            j = i + 2
            while j < len(body) and body[j] in "0123456789abcdefABCDEF":
                j += 1
            out.append(int(body[i + 2:j], 16) & 255)
            i = j
        elif nx in "01234567":
            j = i + 1
            while j < len(body) and j < i + 4 and body[j] in "01234567":
                j += 1
            out.append(int(body[i + 1:j], 8) & 255)
            i = j
        elif nx in simple:
            out.append(simple[nx])
            i += 2
        else:
            raise Unsupported("escape \\%s" % nx)
    if 0 in out:
        raise Unsupported("NUL inside a string literal")
    return out


def lean_bytes(bs):
    return "[" + ", ".join(str(b) for b in bs) + "]"


def lean_int(v):
    return str(v) if v >= 0 else "(%d)" % v


def lb(b):
    return "true" if b else "false"


def args_term(args):
    t = ".nil"
    for a in reversed(args):
        t = "(.cons %s %s)" % (a, t)
    return t


def seq(ss):
    if not ss:
        return ".skip"
    t = ss[-1]
    for s in reversed(ss[:-1]):
        t = "(.seq %s %s)" % (s, t)
    return t


def pretty(term, width=110):
    """break a long parenthesised term over lines"""
    out = []
    depth = 0
    line = ""
    for ch in term:
        if ch == "(" and len(line) > width:
            out.append(line.rstrip())
            line = "  " * min(depth, 12)
        line += ch
        if ch == "(":
            depth += 1
        elif ch == ")":
            depth -= 1
    out.append(line)
    return "\n".join(out)


def translate_all():
    done = {}
    text = ["import Econf.MiniC", "",
            "/-! GENERATED by gen/c2lean.py from /repo on every run - do not edit.",
            "    One `MiniC.Fn` per translated C function (clang JSON AST -> MiniC.Stmt). -/", "",
            "namespace LeafFns", "open MiniC", ""]
    errors = []
    for path, fn in TARGETS:
        try:
            decl = find_def(path, fn)
            tr = FnTr(fn, decl, done, path)
            tr.check_byval_readonly(tr.body_node)
            body = seq(tr.stmts(tr.body_node))
            done[fn] = {"nlocals": len(tr.vars), "nparams": tr.nparams}
            text.append("/-- `%s` (%s) -/" % (fn, path))
            text.append("def %s : Fn := { name := \"%s\", nparams := %d, nlocals := %d, body :=\n  %s }" % (
                fn, fn, tr.nparams, len(tr.vars), pretty(body).replace("\n", "\n  ")))
            text.append("")
        except Unsupported as e:
            errors.append("%s: %s" % (fn, e))
            # a placeholder that no theorem about the function can be proved of
            text.append("/-- `%s` could not be translated: %s -/" % (fn, str(e).replace("-/", "- /")))
            text.append("def %s : Fn := { name := \"%s\", nparams := 0, nlocals := 0, body := .ret none }" % (fn, fn))
            text.append("")
            done[fn] = {"nlocals": 0, "nparams": 0}
    # the struct layouts the translation used (member -> word slot), for the driver that builds the interpreter's memory
    recs = []
    for rec in RECORDS:
        try:
            fields = layout("lib/helpers.c", rec)
            recs.append("(\"%s\", [%s])" % (rec, ", ".join("(\"%s\", %s)" % (f, lb(_field_is_ptr[(rec, f)])) for f in fields)))
        except Unsupported as e:
            errors.append("struct %s: %s" % (rec, e))
    text.append("/-- members of the translated struct types in declaration order, with `true` for members of pointer type -/")
    text.append("def records : List (String × List (String × Bool)) := [%s]" % ",\n  ".join(recs))
    text.append("")
    text.append("def all : List Fn := [%s]" % ", ".join(fn for _, fn in TARGETS))
    text.append("")
    text.append("end LeafFns")
    return "\n".join(text) + "\n", errors


def generate():
    out, errors = translate_all()
    os.makedirs(os.path.dirname(OUT), exist_ok=True)
    old = open(OUT).read() if os.path.exists(OUT) else None
    if old != out:
        with open(OUT, "w") as f:
            f.write(out)
    if errors:
        raise Unsupported("; ".join(errors))


if __name__ == "__main__":
    try:
        generate()
    except Unsupported as e:
        print("untranslatable:", e)
        sys.exit(1)
    print(open(OUT).read())
