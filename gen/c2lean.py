#!/usr/bin/env python3
"""Translator for the string helpers of /repo: clang's JSON AST of each listed function -> a term of
`MiniC.Stmt` (lean/Econf/MiniC.lean), written to lean/Generated/LeafFns.lean on every run.

Only the C subset of MiniC is accepted; anything else (a new construct after a change to the code) raises
`Unsupported`, which the checks report as a proof obligation that no longer holds."""
import json
import os
import subprocess
import sys

VERIF = os.path.dirname(os.path.dirname(os.path.abspath(__file__)))
REPO = os.environ.get("VERIF_REPO", "/repo")
OUT = os.path.join(VERIF, "lean", "Generated", "LeafFns.lean")

# (source file, function); callees before callers
TARGETS = [
    ("lib/helpers.c", "stripbrackets"),
    ("lib/helpers.c", "addbrackets"),
    ("lib/helpers.c", "toLowerCase"),
    ("lib/helpers.c", "hashstring"),
    ("lib/libeconf_ext.c", "ltrim"),
    ("lib/libeconf_ext.c", "rtrim"),
    ("lib/libeconf_ext.c", "trim"),
    ("lib/getfilecontents.c", "check_delim"),
    ("util/econftool.c", "replace_str"),
]

BUILTINS = {"strlen", "isspace", "tolower", "strchr", "strrchr", "strstr", "stpcpy", "strcpy", "memcpy", "memmove",
            "malloc", "strdup", "free"}


class Unsupported(Exception):
    pass


def ast_docs(path, fn):
    cmd = ["clang-14", "-Xclang", "-ast-dump=json", "-Xclang", "-ast-dump-filter=" + fn, "-fsyntax-only", "-w",
           "-D_GNU_SOURCE", "-D_REENTRANT", "-D__NO_CTYPE",
           "-I" + os.path.join(REPO, "include"), "-I" + os.path.join(REPO, "lib"), "-I" + os.path.join(REPO, "util"),
           os.path.join(REPO, path)]
    p = subprocess.run(cmd, stdout=subprocess.PIPE, stderr=subprocess.PIPE)
    if p.returncode != 0 or not p.stdout:
        raise Unsupported("clang failed on %s: %s" % (path, p.stderr.decode()[-300:]))
    txt = p.stdout.decode()
    dec = json.JSONDecoder()
    i = 0
    docs = []
    while i < len(txt):
        while i < len(txt) and txt[i].isspace():
            i += 1
        if i >= len(txt):
            break
        d, i = dec.raw_decode(txt, i)
        docs.append(d)
    return docs


def find_def(path, fn):
    for d in ast_docs(path, fn):
        if d.get("kind") == "FunctionDecl" and d.get("name") == fn and any(c.get("kind") == "CompoundStmt" for c in d.get("inner", [])):
            return d
    raise Unsupported("no definition of %s in %s" % (fn, path))


def ty_of(node):
    t = node.get("type", {})
    q = t.get("desugaredQualType") or t.get("qualType") or ""
    q = q.replace("const ", "").replace("volatile ", "").replace(" const", "").strip()
    if q.endswith("*"):
        return "ptr"
    table = {"char": "i8", "signed char": "i8", "unsigned char": "u8", "int": "i32", "unsigned int": "u32",
             "long": "i64", "unsigned long": "u64", "long long": "i64", "unsigned long long": "u64",
             "_Bool": "bool", "bool": "bool", "size_t": "u64", "ssize_t": "i64"}
    if q in table:
        return table[q]
    raise Unsupported("type %r" % q)


BINOPS = {"+": "add", "-": "sub", "*": "mul", "/": "div", "%": "mod", "<": "lt", "<=": "le", ">": "gt", ">=": "ge",
          "==": "eq", "!=": "ne", "&": "band", "|": "bor", "^": "bxor", "<<": "shl", ">>": "shr"}


class FnTr:
    def __init__(self, name, decl, done):
        self.name = name
        self.done = done            # name -> translated Fn text pieces (for inlining)
        self.vars = {}              # decl id -> index
        self.nparams = 0
        for c in decl.get("inner", []):
            if c.get("kind") == "ParmVarDecl":
                self.vars[c["id"]] = len(self.vars)
                self.nparams += 1
        self.body_node = next(c for c in decl["inner"] if c.get("kind") == "CompoundStmt")
        self.ret_ty = None
        rt = decl.get("type", {}).get("qualType", "")
        self.ret_ty = "ptr" if rt.split("(")[0].strip().endswith("*") else None
        if self.ret_ty is None:
            base = rt.split("(")[0].strip()
            if base != "void":
                try:
                    self.ret_ty = ty_of({"type": {"qualType": base}})
                except Unsupported:
                    self.ret_ty = None

    def new_temp(self):
        i = len(self.vars)
        self.vars["tmp%d" % i] = i
        return i

    # ----- expressions
    def inner(self, n):
        return [c for c in n.get("inner", []) if c]

    def callee_name(self, n):
        f = self.inner(n)[0]
        while f.get("kind") in ("ImplicitCastExpr", "ParenExpr"):
            f = self.inner(f)[0]
        if f.get("kind") != "DeclRefExpr":
            raise Unsupported("indirect call")
        return f["referencedDecl"]["name"]

    def lval(self, n):
        k = n.get("kind")
        if k == "ParenExpr":
            return self.lval(self.inner(n)[0])
        if k == "DeclRefExpr":
            d = n["referencedDecl"]
            if d.get("id") not in self.vars:
                raise Unsupported("reference to %s (not a parameter or local variable)" % d.get("name"))
            return "(.var %d)" % self.vars[d["id"]]
        if k == "UnaryOperator" and n.get("opcode") == "*":
            return "(.deref %s)" % self.expr(self.inner(n)[0])
        if k == "ArraySubscriptExpr":
            base, idx = self.inner(n)
            return "(.deref (.bin .add %s %s .ptr))" % (self.expr(base), self.expr(idx))
        raise Unsupported("lvalue %s" % k)

    def expr(self, n):
        k = n.get("kind")
        if k == "ParenExpr":
            return self.expr(self.inner(n)[0])
        if k == "IntegerLiteral":
            return "(.lit %s .%s)" % (lean_int(int(n["value"])), ty_of(n))
        if k == "CharacterLiteral":
            return "(.lit %s .i32)" % lean_int(int(n["value"]))
        if k in ("ImplicitCastExpr", "CStyleCastExpr"):
            ck = n.get("castKind")
            sub = self.inner(n)[0]
            if ck == "LValueToRValue":
                return "(.load %s .%s)" % (self.lval(sub), ty_of(n))
            if ck == "NullToPointer":
                return ".null"
            if ck in ("NoOp", "BitCast"):
                return self.expr(sub)
            if ck in ("IntegralCast", "IntegralToBoolean", "PointerToBoolean"):
                return "(.cast .%s %s)" % (ty_of(n), self.expr(sub))
            if ck == "ToVoid":
                return self.expr(sub)
            raise Unsupported("cast kind %s" % ck)
        if k == "UnaryOperator":
            op = n.get("opcode")
            sub = self.inner(n)[0]
            if op in ("++", "--"):
                return "(.incdec %s %s %s .%s)" % (self.lval(sub), lb(op == "++"), lb(bool(n.get("isPostfix"))), ty_of(n))
            if op == "!":
                return "(.un .lnot %s .%s)" % (self.expr(sub), ty_of(n))
            if op == "-":
                return "(.un .neg %s .%s)" % (self.expr(sub), ty_of(n))
            if op == "~":
                return "(.un .bnot %s .%s)" % (self.expr(sub), ty_of(n))
            if op == "+":
                return self.expr(sub)
            raise Unsupported("unary %s in rvalue position" % op)
        if k == "BinaryOperator":
            op = n.get("opcode")
            a, b = self.inner(n)
            if op == "=":
                return "(.assign %s %s .%s)" % (self.lval(a), self.expr(b), ty_of(a))
            if op == "&&":
                return "(.land %s %s)" % (self.expr(a), self.expr(b))
            if op == "||":
                return "(.lor %s %s)" % (self.expr(a), self.expr(b))
            if op in BINOPS:
                return "(.bin .%s %s %s .%s)" % (BINOPS[op], self.expr(a), self.expr(b), ty_of(n))
            raise Unsupported("binary %s" % op)
        if k == "CompoundAssignOperator":
            op = n.get("opcode")[:-1]
            a, b = self.inner(n)
            if op not in BINOPS:
                raise Unsupported("compound %s" % op)
            return "(.opassign .%s %s %s .%s)" % (BINOPS[op], self.lval(a), self.expr(b), ty_of(a))
        if k == "ConditionalOperator":
            c, a, b = self.inner(n)
            return "(.cond %s %s %s)" % (self.expr(c), self.expr(a), self.expr(b))
        if k == "CallExpr":
            name = self.callee_name(n)
            if name in BUILTINS:
                args = [self.expr(a) for a in self.inner(n)[1:]]
                return "(.call \"%s\" %s)" % (name, args_term(args))
            raise Unsupported("call of %s inside an expression" % name)
        if k in ("DeclRefExpr", "ArraySubscriptExpr"):
            raise Unsupported("lvalue %s used without conversion" % k)
        raise Unsupported("expression %s" % k)

    # ----- calls of translated functions (inlined)
    def strip(self, n):
        while n.get("kind") in ("ParenExpr",) or (n.get("kind") in ("ImplicitCastExpr", "CStyleCastExpr") and n.get("castKind") in ("NoOp", "BitCast")):
            n = self.inner(n)[0]
        return n

    def is_user_call(self, n):
        n = self.strip(n)
        return n.get("kind") == "CallExpr" and self.callee_name(n) in self.done

    def user_call(self, n, dst, dty):
        """-> list of statements; the call's result goes to lvalue `dst` (Lean text or None)"""
        n = self.strip(n)
        name = self.callee_name(n)
        callee = self.done[name]
        pre = []
        args = []
        for a in self.inner(n)[1:]:
            if self.is_user_call(a):
                t = self.new_temp()
                pre += self.user_call(a, "(.var %d)" % t, ty_of(a))
                args.append("(.load (.var %d) .%s)" % (t, ty_of(a)))
            else:
                args.append(self.expr(a))
        d = "none" if dst is None else "(some %s)" % dst
        pre.append("(.inl %s .%s %s %d %s.body)" % (d, dty or "i32", args_term(args), callee["nlocals"], name))
        return pre

    # ----- statements
    def stmts(self, n):
        """-> list of Lean Stmt terms"""
        k = n.get("kind")
        if k == "CompoundStmt":
            out = []
            for c in self.inner(n):
                out += self.stmts(c)
            return out
        if k == "NullStmt":
            return []
        if k == "DeclStmt":
            out = []
            for v in self.inner(n):
                if v.get("kind") != "VarDecl":
                    raise Unsupported("declaration %s" % v.get("kind"))
                if v.get("storageClass") == "static":
                    raise Unsupported("static local %s" % v.get("name"))
                ty = ty_of(v)
                self.vars[v["id"]] = len(self.vars)
                idx = self.vars[v["id"]]
                init = self.inner(v)
                if init:
                    if self.is_user_call(init[0]):
                        out += self.user_call(init[0], "(.var %d)" % idx, ty)
                    else:
                        out.append("(.expr (.assign (.var %d) %s .%s))" % (idx, self.expr(init[0]), ty))
            return out
        if k == "IfStmt":
            parts = self.inner(n)
            c = self.expr(parts[0])
            a = seq(self.stmts(parts[1]))
            b = seq(self.stmts(parts[2])) if len(parts) > 2 else ".skip"
            return ["(.ite %s %s %s)" % (c, a, b)]
        if k == "WhileStmt":
            c, body = self.inner(n)
            return ["(.while %s %s)" % (self.expr(c), seq(self.stmts(body)))]
        if k == "DoStmt":
            body, c = self.inner(n)
            return ["(.dowhile %s %s)" % (seq(self.stmts(body)), self.expr(c))]
        if k == "ForStmt":
            raw = n.get("inner", [])
            if len(raw) != 5:
                raise Unsupported("for statement shape")
            init, condvar, cond, inc, body = raw
            if condvar:
                raise Unsupported("condition variable")
            out = self.stmts(init) if init else []
            c = "(some %s)" % self.expr(cond) if cond else "none"
            i = "(some %s)" % self.expr(inc) if inc else "none"
            out.append("(.for %s %s %s)" % (c, i, seq(self.stmts(body))))
            return out
        if k == "BreakStmt":
            return [".brk"]
        if k == "ContinueStmt":
            return [".cont"]
        if k == "ReturnStmt":
            parts = self.inner(n)
            if not parts:
                return ["(.ret none)"]
            if self.is_user_call(parts[0]):
                t = self.new_temp()
                ty = ty_of(parts[0])
                return self.user_call(parts[0], "(.var %d)" % t, ty) + ["(.ret (some (.load (.var %d) .%s)))" % (t, ty)]
            return ["(.ret (some %s))" % self.expr(parts[0])]
        # expression statement
        if self.is_user_call(n):
            return self.user_call(n, None, None)
        if k == "BinaryOperator" and n.get("opcode") == "=" and self.is_user_call(self.inner(n)[1]):
            a, b = self.inner(n)
            return self.user_call(b, self.lval(a), ty_of(a))
        return ["(.expr %s)" % self.expr(n)]


def lean_int(v):
    return str(v) if v >= 0 else "(%d)" % v


def lb(b):
    return "true" if b else "false"


def args_term(args):
    t = ".nil"
    for a in reversed(args):
        t = "(.cons %s %s)" % (a, t)
    return t


def seq(ss):
    if not ss:
        return ".skip"
    t = ss[-1]
    for s in reversed(ss[:-1]):
        t = "(.seq %s %s)" % (s, t)
    return t


def pretty(term, width=110):
    """break a long parenthesised term over lines"""
    out = []
    depth = 0
    line = ""
    for ch in term:
        if ch == "(" and len(line) > width:
            out.append(line.rstrip())
            line = "  " * min(depth, 12)
        line += ch
        if ch == "(":
            depth += 1
        elif ch == ")":
            depth -= 1
    out.append(line)
    return "\n".join(out)


def translate_all():
    done = {}
    text = ["import Econf.MiniC", "",
            "/-! GENERATED by gen/c2lean.py from /repo on every run - do not edit.",
            "    One `MiniC.Fn` per translated C function (clang JSON AST -> MiniC.Stmt). -/", "",
            "namespace LeafFns", "open MiniC", ""]
    errors = []
    for path, fn in TARGETS:
        try:
            decl = find_def(path, fn)
            tr = FnTr(fn, decl, done)
            body = seq(tr.stmts(tr.body_node))
            done[fn] = {"nlocals": len(tr.vars), "nparams": tr.nparams}
            text.append("/-- `%s` (%s) -/" % (fn, path))
            text.append("def %s : Fn := { name := \"%s\", nparams := %d, nlocals := %d, body :=\n  %s }" % (
                fn, fn, tr.nparams, len(tr.vars), pretty(body).replace("\n", "\n  ")))
            text.append("")
        except Unsupported as e:
            errors.append("%s: %s" % (fn, e))
            # a placeholder that no theorem about the function can be proved of
            text.append("/-- `%s` could not be translated: %s -/" % (fn, str(e).replace("-/", "- /")))
            text.append("def %s : Fn := { name := \"%s\", nparams := 0, nlocals := 0, body := .ret none }" % (fn, fn))
            text.append("")
            done[fn] = {"nlocals": 0, "nparams": 0}
    text.append("def all : List Fn := [%s]" % ", ".join(fn for _, fn in TARGETS))
    text.append("")
    text.append("end LeafFns")
    return "\n".join(text) + "\n", errors


def generate():
    out, errors = translate_all()
    os.makedirs(os.path.dirname(OUT), exist_ok=True)
    old = open(OUT).read() if os.path.exists(OUT) else None
    if old != out:
        with open(OUT, "w") as f:
            f.write(out)
    if errors:
        raise Unsupported("; ".join(errors))


if __name__ == "__main__":
    try:
        generate()
    except Unsupported as e:
        print("untranslatable:", e)
        sys.exit(1)
    print(open(OUT).read())
