#!/usr/bin/env python3
"""Translator part of the tie between the Lean theorems and /repo: re-extracts declarative facts from
the C sources with clang's JSON AST dump on every run and writes lean/Generated/Facts.lean.
Facts: objects with static storage and who writes them; the error enum and message table; the
formats/conversions of the typed setters/getters; fixed-size arrays and the calls that write them."""
import concurrent.futures as cf
import glob
import json
import os
import re
import subprocess
import sys
sys.path.insert(0, os.path.dirname(os.path.dirname(os.path.abspath(__file__))))

VERIF = os.path.dirname(os.path.dirname(os.path.abspath(__file__)))
REPO = os.environ.get("VERIF_REPO", "/repo")
OUT = os.path.join(VERIF, "lean", "Generated", "Facts.lean")

WRITERS = {"strcpy", "strncpy", "sprintf", "snprintf", "memcpy", "memmove", "strcat", "strncat", "stpcpy", "memset", "vsnprintf", "vsprintf", "realpath", "__builtin___snprintf_chk"}
BOUNDED = {"strncpy", "snprintf", "memcpy", "memmove", "strncat", "memset", "vsnprintf"}


def ast_of(path):
    cmd = ["clang-14", "-Xclang", "-ast-dump=json", "-fsyntax-only", "-w", "-D_GNU_SOURCE", "-D_REENTRANT",
           "-I" + os.path.join(REPO, "include"), "-I" + os.path.join(REPO, "lib"), path]
    p = subprocess.run(cmd, stdout=subprocess.PIPE, stderr=subprocess.PIPE)
    if p.returncode != 0 or not p.stdout:
        raise RuntimeError("clang failed on %s: %s" % (path, p.stderr.decode()[-500:]))
    return json.loads(p.stdout)


class Ctx:
    def __init__(self, src):
        self.src = os.path.realpath(src)
        self.cur_file = None

    def in_src(self, node):
        """tracks clang's 'file appears only when it changes' convention"""
        for key in ("loc", "range"):
            l = node.get(key)
            if not l:
                continue
            for sub in ([l] if key == "loc" else [l.get("begin", {}), l.get("end", {})]):
                for cand in (sub, sub.get("spellingLoc", {}), sub.get("expansionLoc", {})):
                    if "file" in cand:
                        self.cur_file = os.path.realpath(cand["file"])
        return self.cur_file is not None and (self.cur_file == self.src or self.cur_file.startswith(os.path.realpath(REPO) + os.sep))


def children(n):
    return n.get("inner", []) or []


def walk(n):
    yield n
    for c in children(n):
        yield from walk(c)


def refs(n):
    """names of referenced variables / functions below n"""
    for x in walk(n):
        if x.get("kind") == "DeclRefExpr":
            d = x.get("referencedDecl", {})
            yield d.get("kind"), d.get("name"), d.get("id")


def first_ref(n):
    for k, name, i in refs(n):
        if k in ("VarDecl", "ParmVarDecl"):
            return name, i
    return None, None


def string_literals(n):
    for x in walk(n):
        if x.get("kind") == "StringLiteral":
            yield json.loads(x["value"]) if x.get("value", "").startswith('"') else x.get("value")


def analyse(path):
    tu = ast_of(path)
    ctx = Ctx(path)
    base = os.path.basename(path)
    facts = {"statics": [], "writes": [], "calls": [], "arrays": [], "array_writes": [], "enum": [], "messages": None,
             "formats": [], "conversions": [], "enumrefs": {}, "cmpstrings": {}}
    statics = {}   # id -> name
    for top in children(tu):
        inrepo = ctx.in_src(top)
        if not inrepo:
            # still walk to keep the file tracking right
            for x in walk(top):
                ctx.in_src(x)
            continue
        kind = top.get("kind")
        if kind == "EnumDecl" and top.get("name") == "econf_err":
            val = 0
            for c in children(top):
                if c.get("kind") == "EnumConstantDecl":
                    for x in walk(c):
                        if x.get("kind") == "ConstantExpr" and "value" in x:
                            val = int(x["value"])
                    facts["enum"].append((c["name"], val))
                    val += 1
        if kind == "VarDecl" and ctx.cur_file == ctx.src:
            q = top.get("type", {}).get("qualType", "")
            is_def = top.get("storageClass") != "extern"
            if is_def:
                statics[top["id"]] = top["name"]
                facts["statics"].append({"name": top["name"], "file": base, "type": q, "const": q.startswith("const ") or " *const" in q,
                                         "tls": bool(top.get("tls")), "scope": "file"})
                if top["name"] == "messages":
                    facts["messages"] = list(string_literals(top))
            m = re.match(r"(.*)\[(\d+)\]$", q)
            if m and is_def:
                facts["arrays"].append({"func": "", "name": top["name"], "size": int(m.group(2)), "file": base})
        if kind == "FunctionDecl" and ctx.cur_file == ctx.src and any(c.get("kind") == "CompoundStmt" for c in children(top)):
            fname = top["name"]
            local_arrays = {}
            for x in walk(top):
                ctx.in_src(x)
                k = x.get("kind")
                if k == "VarDecl":
                    q = x.get("type", {}).get("qualType", "")
                    if x.get("storageClass") == "static":
                        statics[x["id"]] = fname + "." + x["name"]
                        facts["statics"].append({"name": fname + "." + x["name"], "file": base, "type": q, "const": q.startswith("const "),
                                                 "tls": bool(x.get("tls")), "scope": "function"})
                    m = re.match(r"(.*)\[(\d+)\]$", q)
                    if m:
                        local_arrays[x["id"]] = (x["name"], int(m.group(2)))
                        facts["arrays"].append({"func": fname, "name": x["name"], "size": int(m.group(2)), "file": base})
                if k == "DeclRefExpr":
                    d = x.get("referencedDecl", {})
                    if d.get("kind") == "EnumConstantDecl" and d.get("name", "").startswith("ECONF_"):
                        facts["enumrefs"].setdefault(fname, set()).add(d["name"])
                if k == "CallExpr":
                    ch = children(x)
                    callee = None
                    if ch:
                        for kk, name, _ in refs(ch[0]):
                            if kk == "FunctionDecl":
                                callee = name
                                break
                    if callee:
                        facts["calls"].append((fname, callee))
                        args = ch[1:]
                        if callee in ("strcmp", "strncmp"):
                            for lit in string_literals(x):
                                if isinstance(lit, str):
                                    facts["cmpstrings"].setdefault(fname, set()).add(lit)
                        if callee in WRITERS and args:
                            tname, tid = first_ref(args[0])
                            if tname is not None:
                                facts["array_writes"].append({"func": fname, "target": tname, "target_id": tid, "call": callee, "file": base})
                        if callee == "asprintf" and fname.startswith("set") and fname.endswith("ValueNum"):
                            lits = [s for s in string_literals(x) if isinstance(s, str)]
                            prec = None
                            if len(args) >= 4:
                                for y in walk(args[2]):
                                    if y.get("kind") == "IntegerLiteral":
                                        prec = int(y["value"])
                            facts["formats"].append({"func": fname, "format": lits[0] if lits else "", "precision": prec})
                        if callee in ("strtol", "strtoll", "strtoul", "strtoull", "strtof", "strtod") and fname.startswith("get") and fname.endswith("ValueNum"):
                            base_arg = None
                            if len(args) >= 3:
                                for y in walk(args[2]):
                                    if y.get("kind") == "IntegerLiteral":
                                        base_arg = int(y["value"])
                            facts["conversions"].append({"func": fname, "conv": callee, "base": base_arg})
                # writes to objects with static storage: assignment / compound assignment / ++ / -- with the object as target,
                # or its address / array handed to a writer function
                if k in ("BinaryOperator", "CompoundAssignOperator") and x.get("opcode", "").endswith("=") and x.get("opcode") not in ("==", "!=", "<=", ">="):
                    ch = children(x)
                    if ch:
                        for kk, name, i in refs(ch[0]):
                            if kk == "VarDecl":
                                facts["writes"].append((fname, i))
                                break
                if k == "UnaryOperator" and x.get("opcode") in ("++", "--"):
                    for kk, name, i in refs(x):
                        if kk == "VarDecl":
                            facts["writes"].append((fname, i))
                            break
            for w in facts["array_writes"]:
                if w["func"] == fname and w.get("target_id") in statics:
                    facts["writes"].append((fname, w["target_id"]))
    facts["statics_by_id"] = statics
    return base, facts


def lean_str(s):
    return '"' + s.replace("\\", "\\\\").replace('"', '\\"').replace("\n", "\\n").replace("\t", "\\t") + '"'


def generate():
    files = sorted(glob.glob(os.path.join(REPO, "lib", "*.c"))) + [os.path.join(REPO, "util", "econftool.c")]
    with cf.ThreadPoolExecutor(max_workers=12) as ex:
        results = list(ex.map(analyse, files))
    statics, written, arrays, awrites, formats, convs, enum, messages = [], set(), [], [], [], [], [], None
    id2name = {}
    for base, f in results:
        id2name.update(f["statics_by_id"])
    # a VarDecl id is only valid inside its translation unit; names are used across units (extern globals)
    names_written = set()
    for base, f in results:
        for fn, i in f["writes"]:
            nm = f["statics_by_id"].get(i)
            if nm is None:
                # extern object defined in another unit: resolve by name through the DeclRef - approximated by a second pass below
                continue
            names_written.add(nm)
        statics += f["statics"]
        arrays += f["arrays"]
        awrites += f["array_writes"]
        formats += f["formats"]
        convs += f["conversions"]
        if f["enum"]:
            enum = f["enum"]
        if f["messages"] is not None:
            messages = f["messages"]
    # writes through extern declarations: the setter functions of libeconf.c assign to objects defined in getfilecontents.c.
    # Collect them by name with a regex over assignment statements to known static names (cross-unit).
    allnames = {s["name"] for s in statics if s["scope"] == "file"}
    for path in files:
        src = open(path).read()
        for nm in allnames:
            if re.search(r"(?<![\w.>])%s\s*(\[[^\]]*\])?\s*(=[^=]|\+\+|--|\+=|-=)" % re.escape(nm), src):
                names_written.add(nm)
            if re.search(r"\b(snprintf|strcpy|strncpy|memcpy|sprintf)\s*\(\s*%s\b" % re.escape(nm), src):
                names_written.add(nm)
    os.makedirs(os.path.dirname(OUT), exist_ok=True)
    L = []
    L.append("/- GENERATED on every run by gen/extract_facts.py from %s (clang-14 JSON AST). Do not edit. -/" % REPO)
    L.append("namespace Generated\n")
    L.append("structure StaticObj where\n  name : String\n  file : String\n  isConst : Bool\n  threadLocal : Bool\n  written : Bool\n  deriving DecidableEq, Repr\n")
    L.append("def statics : List StaticObj := [")
    rows = []
    for s in sorted(statics, key=lambda x: (x["file"], x["name"])):
        if s["file"] == "econftool.c":
            continue
        rows.append("  ⟨%s, %s, %s, %s, %s⟩" % (lean_str(s["name"]), lean_str(s["file"]), str(s["const"]).lower(), str(s["tls"]).lower(),
                                               str(s["name"] in names_written).lower()))
    L.append(",\n".join(rows) + "]\n")
    L.append("def errEnum : List (String × Nat) := [" + ", ".join("(%s, %d)" % (lean_str(n), v) for n, v in enum) + "]\n")
    L.append("def errMessages : List String := [" + ", ".join(lean_str(m) for m in (messages or [])) + "]\n")
    L.append("structure SetterFmt where\n  func : String\n  format : String\n  precision : Option Nat\n  deriving DecidableEq, Repr\n")
    L.append("def setterFormats : List SetterFmt := [" + ", ".join(
        "⟨%s, %s, %s⟩" % (lean_str(f["func"]), lean_str(f["format"]), "none" if f["precision"] is None else "some %d" % f["precision"])
        for f in sorted(formats, key=lambda x: x["func"])) + "]\n")
    L.append("structure GetterConv where\n  func : String\n  conv : String\n  base : Option Nat\n  deriving DecidableEq, Repr\n")
    L.append("def getterConversions : List GetterConv := [" + ", ".join(
        "⟨%s, %s, %s⟩" % (lean_str(c["func"]), lean_str(c["conv"]), "none" if c["base"] is None else "some %d" % c["base"])
        for c in sorted(convs, key=lambda x: x["func"])) + "]\n")
    L.append("structure FixedArray where\n  file : String\n  func : String\n  name : String\n  size : Nat\n  deriving DecidableEq, Repr\n")
    L.append("def fixedArrays : List FixedArray := [" + ", ".join(
        "⟨%s, %s, %s, %d⟩" % (lean_str(a["file"]), lean_str(a["func"]), lean_str(a["name"]), a["size"])
        for a in sorted(arrays, key=lambda x: (x["file"], x["func"], x["name"]))) + "]\n")
    arrnames = {(a["file"], a["func"], a["name"]) for a in arrays} | {(a["file"], "", a["name"]) for a in arrays if a["func"] == ""}
    L.append("structure ArrayWrite where\n  file : String\n  func : String\n  target : String\n  call : String\n  bounded : Bool\n  deriving DecidableEq, Repr\n")
    aw = []
    for w in awrites:
        if (w["file"], w["func"], w["target"]) in arrnames or (w["file"], "", w["target"]) in arrnames:
            aw.append(w)
    L.append("/-- calls that write into a fixed-size array (first argument) -/")
    L.append("def arrayWrites : List ArrayWrite := [" + ", ".join(
        "⟨%s, %s, %s, %s, %s⟩" % (lean_str(w["file"]), lean_str(w["func"]), lean_str(w["target"]), lean_str(w["call"]), str(w["call"] in BOUNDED).lower())
        for w in sorted(aw, key=lambda x: (x["file"], x["func"], x["target"], x["call"]))) + "]\n")
    def lean_bytes(t):
        return "[" + ", ".join("0x%02x" % b for b in t.encode("latin-1", "replace")) + "]"
    # string macros of the library sources (#define NAME "text")
    macros = {}
    for path in sorted(glob.glob(os.path.join(REPO, "lib", "*.h")) + glob.glob(os.path.join(REPO, "lib", "*.c"))):
        for m in re.finditer(r'^[ \t]*#[ \t]*define[ \t]+([A-Z_][A-Z0-9_]*)[ \t]+"((?:[^"\\\\]|\\\\.)*)"[ \t]*$', open(path).read(), re.M):
            macros[m.group(1)] = bytes(m.group(2), "latin-1").decode("unicode_escape")
    L.append("/-- string macros (`#define NAME \"text\"`) of lib/, as bytes -/")
    L.append("def stringMacros : List (String × List UInt8) := [" + ", ".join(
        "(%s, %s)" % (lean_str(k), lean_bytes(v)) for k, v in sorted(macros.items())) + "]\n")
    enumrefs, cmpstrings = {}, {}
    for base, f in results:
        for fn, names in f["enumrefs"].items():
            enumrefs[(base, fn)] = sorted(names)
        for fn, lits in f["cmpstrings"].items():
            cmpstrings[(base, fn)] = sorted(lits)
    L.append("/-- error constants referenced per function (file, function, constants) -/")
    L.append("def errRefs : List (String × String × List String) := [" + ", ".join(
        "(%s, %s, [%s])" % (lean_str(b), lean_str(fn), ", ".join(lean_str(n) for n in names))
        for (b, fn), names in sorted(enumrefs.items()) if b != "econftool.c") + "]\n")
    L.append("/-- string literals compared with strcmp/strncmp per function, as bytes -/")
    L.append("def cmpStrings : List (String × String × List (List UInt8)) := [" + ", ".join(
        "(%s, %s, [%s])" % (lean_str(b), lean_str(fn), ", ".join(lean_bytes(n) for n in lits))
        for (b, fn), lits in sorted(cmpstrings.items()) if b != "econftool.c") + "]\n")
    # frame facts (gen/frames.py): which read-only API functions can modify the object they are given
    from gen import frames
    api, muts, writers = frames.facts()
    L.append("/-- for every exported function: the parameters (0-based) through which it can write memory of the caller\n    (gen/frames.py; a function that is not listed writes through none) -/")
    L.append("def apiWrites : List (String × List Nat) := [" + ", ".join(
        "(%s, [%s])" % (lean_str(n), ", ".join(str(i) for i in ix)) for n, ix in writers if n.startswith("econf_")) + "]\n")
    L.append("/-- the API functions that must not modify the configuration object (getters, listings, the writer) -/")
    L.append("def readonlyApi : List String := [" + ", ".join(lean_str(a) for a in api) + "]\n")
    L.append("/-- places where one of them stores into, or hands to a writing function, memory reachable from its `econf_file` argument\n    (file, function, kinds of places) -/")
    L.append("def kfMutations : List (String × String × String) := [" + ", ".join(
        "(%s, %s, %s)" % (lean_str(a), lean_str(b), lean_str(c)) for a, b, c in muts) + "]\n")
    L.append("end Generated")
    text = "\n".join(L) + "\n"
    old = open(OUT).read() if os.path.exists(OUT) else None
    if old != text:
        with open(OUT, "w") as f:
            f.write(text)
    return text


if __name__ == "__main__":
    t = generate()
    sys.stdout.write(t if "-v" in sys.argv else "written %s (%d bytes)\n" % (OUT, len(t)))
