#!/usr/bin/env python3
"""Frame facts for C10: which functions can modify the configuration object they are given.
For every function of lib/*.c and every parameter that is an `econf_file` (by value or by pointer), the
places where the object - anything reachable from the parameter through member / index / dereference
expressions, or a local pointer derived from such an expression - is (a) assigned to, (b) handed to a function
that writes through that argument (transitively, fixed point over the call graph; libc writers are listed),
(c) freed.  A call result is derived from the object only when the callee returns a pointer into its argument
(libc: strchr & co.; in-repo: computed).  Over-approximations are deliberate: the fact is used as
"the read-only API functions have no such place"."""
import json
import os
import re
import subprocess

REPO = os.environ.get("VERIF_REPO", "/repo")

# libc functions that write through argument i
LIBC_WRITES = {"strcpy": [0], "strncpy": [0], "strcat": [0], "strncat": [0], "memcpy": [0], "memmove": [0], "memset": [0], "stpcpy": [0],
               "sprintf": [0], "snprintf": [0], "strtok": [0], "strtok_r": [0], "strsep": [0], "free": [0], "realloc": [0],
               "getline": [0, 1], "qsort": [0]}
# libc functions whose result points into argument i
LIBC_RETURNS_INTO = {"strchr": [0], "strrchr": [0], "strstr": [0], "strpbrk": [0], "strtok": [0], "strtok_r": [0], "memchr": [0],
                     "stpcpy": [0], "strcpy": [0], "strncpy": [0], "strcat": [0], "strsep": [0], "index": [0], "rindex": [0]}


def ast_of(path):
    cmd = ["clang-14", "-Xclang", "-ast-dump=json", "-fsyntax-only", "-w", "-D_GNU_SOURCE", "-D_REENTRANT",
           "-I" + os.path.join(REPO, "include"), "-I" + os.path.join(REPO, "lib"), path]
    p = subprocess.run(cmd, stdout=subprocess.PIPE, stderr=subprocess.PIPE)
    if p.returncode != 0 or not p.stdout:
        raise RuntimeError("clang failed on %s" % path)
    return json.loads(p.stdout)


def kids(n):
    return n.get("inner", []) or []


def walk(n):
    yield n
    for c in kids(n):
        yield from walk(c)


def strip(n):
    """look through parentheses and casts"""
    while n.get("kind") in ("ParenExpr", "ImplicitCastExpr", "CStyleCastExpr") and kids(n):
        n = kids(n)[-1]
    return n


def callee_name(call):
    ch = kids(call)
    if not ch:
        return None
    for x in walk(ch[0]):
        if x.get("kind") == "DeclRefExpr" and x.get("referencedDecl", {}).get("kind") == "FunctionDecl":
            return x["referencedDecl"]["name"]
    return None


class Fn:
    def __init__(self, node, file):
        self.node = node
        self.name = node["name"]
        self.file = file
        self.params = [c for c in kids(node) if c.get("kind") == "ParmVarDecl"]
        self.body = next((c for c in kids(node) if c.get("kind") == "CompoundStmt"), None)


def load():
    fns = {}
    import glob
    for path in sorted(glob.glob(os.path.join(REPO, "lib", "*.c"))):
        tu = ast_of(path)
        for top in kids(tu):
            if top.get("kind") == "FunctionDecl" and any(c.get("kind") == "CompoundStmt" for c in kids(top)):
                loc = top.get("loc", {})
                f = Fn(top, os.path.basename(path))
                # functions of included headers with bodies are not expected; keep the first definition
                fns.setdefault(f.name, f)
    return fns


def derived(expr, roots, fns, returns_into):
    """does the value of `expr` point into (or is it) an object of `roots` (set of decl ids)?"""
    e = strip(expr)
    k = e.get("kind")
    if k == "DeclRefExpr":
        return e.get("referencedDecl", {}).get("id") in roots
    if k in ("MemberExpr", "ArraySubscriptExpr"):
        return derived(kids(e)[0], roots, fns, returns_into)
    if k == "UnaryOperator":
        return derived(kids(e)[0], roots, fns, returns_into)
    if k == "BinaryOperator":
        if e.get("opcode") in ("+", "-", ","):
            return any(derived(c, roots, fns, returns_into) for c in kids(e))
        if e.get("opcode") == "=":
            return derived(kids(e)[1], roots, fns, returns_into)
        return False
    if k == "ConditionalOperator":
        return any(derived(c, roots, fns, returns_into) for c in kids(e)[1:])
    if k == "CallExpr":
        name = callee_name(e)
        args = kids(e)[1:]
        idx = LIBC_RETURNS_INTO.get(name, returns_into.get(name, []))
        return any(i < len(args) and derived(args[i], roots, fns, returns_into) for i in idx)
    return False


def alias_closure(fn, start_ids, fns, returns_into):
    roots = set(start_ids)
    if fn.body is None:
        return roots
    for _ in range(4):
        before = len(roots)
        for x in walk(fn.body):
            k = x.get("kind")
            if k == "VarDecl" and kids(x):
                init = kids(x)[-1]
                if "*" in x.get("type", {}).get("qualType", "") and derived(init, roots, fns, returns_into):
                    roots.add(x["id"])
            if k == "BinaryOperator" and x.get("opcode") == "=":
                l, r = kids(x)
                ls = strip(l)
                if ls.get("kind") == "DeclRefExpr" and "*" in ls.get("type", {}).get("qualType", "") and derived(r, roots, fns, returns_into):
                    roots.add(ls["referencedDecl"]["id"])
        if len(roots) == before:
            break
    return roots


def is_store_target(lhs, roots, fns, returns_into):
    """lhs designates memory of the object (not the local pointer variable itself)"""
    e = strip(lhs)
    k = e.get("kind")
    if k in ("MemberExpr", "ArraySubscriptExpr"):
        return derived(kids(e)[0], roots, fns, returns_into)
    if k == "UnaryOperator" and e.get("opcode") == "*":
        return derived(kids(e)[0], roots, fns, returns_into)
    return False


def analyse(fns):
    # 1. returns-into (in-repo): function returns an expression derived from parameter i
    returns_into = {}
    for _ in range(4):
        changed = False
        for f in fns.values():
            if f.body is None:
                continue
            for i, p in enumerate(f.params):
                if "*" not in p.get("type", {}).get("qualType", ""):
                    continue
                roots = alias_closure(f, [p["id"]], fns, returns_into)
                for x in walk(f.body):
                    if x.get("kind") == "ReturnStmt" and kids(x) and derived(kids(x)[0], roots, fns, returns_into):
                        if i not in returns_into.get(f.name, []):
                            returns_into.setdefault(f.name, []).append(i)
                            changed = True
        if not changed:
            break
    # 2. writes-through: function writes memory reachable from parameter i (directly or through callees)
    writes = {}
    sites = {}
    for _ in range(6):
        changed = False
        for f in fns.values():
            if f.body is None:
                continue
            for i, p in enumerate(f.params):
                roots = alias_closure(f, [p["id"]], fns, returns_into)
                found = []
                for x in walk(f.body):
                    k = x.get("kind")
                    line = x.get("range", {}).get("begin", {}).get("line") or x.get("loc", {}).get("line")
                    if k in ("BinaryOperator", "CompoundAssignOperator") and x.get("opcode", "").endswith("=") and x.get("opcode") not in ("==", "!=", "<=", ">="):
                        if is_store_target(kids(x)[0], roots, fns, returns_into):
                            found.append("store")
                    if k == "UnaryOperator" and x.get("opcode") in ("++", "--") and is_store_target(kids(x)[0], roots, fns, returns_into):
                        found.append("store")
                    if k == "CallExpr":
                        name = callee_name(x)
                        args = kids(x)[1:]
                        idx = LIBC_WRITES.get(name, writes.get(name, []))
                        for j in idx:
                            if j < len(args):
                                a = strip(args[j])
                                # &local where local is a derived pointer (strsep(&p, ..)) counts as the object
                                if a.get("kind") == "UnaryOperator" and a.get("opcode") == "&" and name in ("strsep", "getline"):
                                    a = kids(a)[0]
                                if derived(a, roots, fns, returns_into):
                                    found.append("call:%s" % name)
                if found:
                    if i not in writes.get(f.name, []):
                        writes.setdefault(f.name, []).append(i)
                        changed = True
                    sites[(f.name, i)] = sorted(set(found))
        if not changed:
            break
    return returns_into, writes, sites


READONLY_API = re.compile(r"^econf_(get\w+|writeFile)$")


def facts():
    fns = load()
    returns_into, writes, sites = analyse(fns)
    out = []
    api = []
    for f in sorted(fns.values(), key=lambda f: f.name):
        if not READONLY_API.match(f.name):
            continue
        api.append(f.name)
        for i, p in enumerate(f.params):
            q = p.get("type", {}).get("qualType", "")
            if "econf_file" in q and i in writes.get(f.name, []):
                out.append((f.file, f.name, ",".join(sites.get((f.name, i), []))))
    helpers = sorted((n, sorted(ix)) for n, ix in writes.items())
    return api, out, helpers


if __name__ == "__main__":
    api, out, helpers = facts()
    print(len(api), "read-only API functions")
    print("mutations:", out)
    print("writers:", helpers)
