#!/bin/bash
# usage: seedall.sh [seed-dir...]   - for every seeded change: apply it to $VERIF_REPO (default /repo), run the quick check of its
# property, revert; one line per seed.  Meant for `vp run --with-repo -- bash -c 'VERIF_REPO=$VP_RUN_REPO ./seedall.sh'`.
REPO=${VERIF_REPO:-/repo}
cd "$(dirname "$0")"
seeds=("$@"); [ ${#seeds[@]} -eq 0 ] && seeds=(seeded/C*)
for S in "${seeds[@]}"; do
  c=$(basename $S | cut -c1-3)
  (cd $REPO && git apply $OLDPWD/$S/patch.diff) || { echo "$S does-not-apply"; continue; }
  r=$(timeout 1800 python3 check.py $c --tier quick | grep -E "^C[0-9]+ quick" | sed 's/.*obligations/obligations/')
  v=$(ls evidence/replay/$c-*.scn 2>/dev/null | grep -vc "corr\|proof\|build")
  (cd $REPO && git checkout -q -- .)
  git checkout -q -- evidence 2>/dev/null
  echo "$S $r concrete_replays=$v"
done
