import Econf
import Generated.LeafFns

/-!
  Scenario interpreter for the model: reads the same scenario text as harness/drv.c and
  prints the same result lines.  The only `partial` function is the stdin loop.
-/

open Econf

namespace Drv

def hexDigit (n : Nat) : Char := if n < 10 then Char.ofNat (48 + n) else Char.ofNat (87 + n)

def hexByte (b : Byte) : String :=
  String.ofList [hexDigit (b.toNat / 16), hexDigit (b.toNat % 16)]

def hexStr (s : Str) : String := s.foldl (fun acc b => acc ++ hexByte b) "h"

def putHex : Option Str → String
  | none => "~"
  | some s => hexStr s

def hexVal (c : Char) : Nat :=
  if c.isDigit then c.toNat - 48 else if 'a' ≤ c && c ≤ 'f' then c.toNat - 87 else c.toNat - 55

def decHexChars : List Char → Str
  | a :: b :: r => UInt8.ofNat (hexVal a * 16 + hexVal b) :: decHexChars r
  | _ => []

/-- one part: h<hex> or r<count>:<hexbyte> -/
def decPart (t : String) : Str :=
  match t.toList with
  | 'h' :: r => decHexChars r
  | 'r' :: r =>
    let s := String.ofList r
    match s.splitOn ":" with
    | [cnt, hb] => List.replicate cnt.toNat! ((decHexChars hb.toList).headD 0x61)
    | _ => []
  | _ => []

/-- token: "-" = NULL, otherwise parts joined by '+' -/
def dec (t : String) : Option Str :=
  if t == "-" then none else some ((t.splitOn "+").map decPart).flatten

def decD (t : String) : Str := (dec t).getD []

def octal (t : String) : Nat := t.toList.foldl (fun n c => n * 8 + (c.toNat - 48)) 0

def fnv (s : Str) : Nat :=
  s.foldl (fun h b => ((h ^^^ b.toNat) * 1099511628211) % 18446744073709551616) 14695981039346656037

def hex16 (n : Nat) : String :=
  let ds := (List.range 16).map (fun i => hexDigit ((n / 16 ^ (15 - i)) % 16))
  String.ofList ds

def putSum : Option Str → String
  | none => "~"
  | some s => s!"len={s.length} fnv={hex16 (fnv s)}"

inductive CbSpec where
  | all | rej (n : Nat) | suf (s : Str)

def parseCb (t : Option String) : Option CbSpec :=
  match t with
  | none => none
  | some t =>
    if t == "cb:all" then some .all
    else if t.startsWith "cb:rej:" then some (.rej (t.drop 7).toString.toNat!)
    else if t.startsWith "cb:suf:" then some (.suf (decD (t.drop 7).toString))
    else if t.startsWith "cb:nest:" then some .all    -- the callback reads another file itself and accepts
    else none

def cbFun : Option CbSpec → Callback
  | none => none
  | some .all => some (fun _ _ => true)
  | some (.rej n) => some (fun k _ => k != n)
  | some (.suf s) => some (fun _ p => !endsWith p s)

structure World where
  fs : FS := (({} : FS).add (bs "/dev") .dir).add (bs "/dev/null") (.file [] 0 0)
  g : Global := {}
  slots : Array (Option KeyFile) := Array.replicate 64 none
  logOpen : Bool := false
  -- object ids (ownership model, `OBJLOG 1`): id of the object in each slot, next id
  objLog : Bool := false
  ids : Array (Option Nat) := Array.replicate 64 none
  next : Nat := 0

def World.slot (w : World) (i : Nat) : Option KeyFile := (w.slots[i]?).join
def World.setSlot (w : World) (i : Nat) (k : Option KeyFile) : World :=
  { w with slots := w.slots.setIfInBounds i k }

def World.slotId (w : World) (i : Nat) : Option Nat := (w.ids[i]?).join
def World.setId (w : World) (i : Nat) (k : Option Nat) : World :=
  { w with ids := w.ids.setIfInBounds i k }
/-- the caller's pointer as the ownership model sees it -/
def World.own (w : World) (i : Nat) : Option (Nat × KeyFile) :=
  match w.slot i, w.slotId i with
  | some kf, some id => some (id, kf)
  | _, _ => none
def World.setOwn (w : World) (i : Nat) (k : Option (Nat × KeyFile)) : World :=
  (w.setSlot i (k.map (·.2))).setId i (k.map (·.1))

def ownLines (w : World) (log : List OEv) : List String :=
  log.filterMap (fun ev => match ev with
    | .new i => some s!"obj new {i}"
    | .merged i => some s!"obj merged {i}"
    | .free i => some s!"obj free {i}"
    | .cb p => some s!"cb {hexStr p} 1"
    | .openFile p => if w.logOpen then some s!"open {hexStr p}" else none)

def ptrState (k : Option KeyFile) : String := if k.isSome then "obj" else "null"

def E (e : Err) : String := s!"E{e.code}"

def traceLines (w : World) (t : List Event) : List String :=
  t.filterMap (fun ev => match ev with
    | .cb p => some s!"cb {hexStr p} 1"
    | .openFile p => if w.logOpen then some s!"open {hexStr p}" else none)

def extLine (kf : Option KeyFile) (g k : Option Str) : String :=
  match kf with
  | none => "ext E1"
  | some kf =>
    match getExt kf g k with
    | .error e => s!"ext {E e}"
    | .ok ev =>
      s!"ext E0 file={putHex ev.file} line={ev.line} cb={putHex ev.cb} ca={putHex ev.ca} vals" ++
        String.join (ev.values.map (fun v => " " ++ hexStr v))

def getStringE (kf : Option KeyFile) (g k : Option Str) : Except Err (Option Str) :=
  match kf with
  | none => .error .error
  | some kf => getString kf g k

def dumpView (kf : Option KeyFile) (withExt : Bool) : List String :=
  match kf with
  | none => ["view null"]
  | some kf =>
    let (ge, groups) := match getGroups kf with
      | .ok gs => (Err.success, gs)
      | .error e => (e, [])
    let head := s!"view groups {E ge}" ++ String.join (groups.map (fun g => " " ++ hexStr g))
    let perGroup := fun (g : Option Str) =>
      match getKeys kf g with
      | .error e => [s!"keys {putHex g} {E e}"]
      | .ok ks =>
        (s!"keys {putHex g} E0" ++ String.join (ks.map (fun k => " " ++ hexStr k))) ::
        (ks.map (fun k =>
          let v := match getString kf g (some k) with
            | .ok v => s!"val {hexStr k} E0 {putHex v}"
            | .error e => s!"val {hexStr k} {E e} "
          if withExt then [v, extLine (some kf) g (some k)] else [v])).flatten
    head :: ((none :: groups.map some).map perGroup).flatten

def dumpRaw (kf : Option KeyFile) : List String :=
  match kf with
  | none => ["raw null"]
  | some kf =>
    (s!"raw len={kf.entries.length} groups={kf.groups.length}" ++
      String.join (kf.groups.map (fun g => " " ++ hexStr g)) ++
      s!" path={putHex kf.path} d={hexByte kf.delim} c={hexByte kf.comment}") ::
    kf.entries.map (fun e =>
      s!"e {hexStr e.group} {hexStr e.key} {putHex e.value} {putHex e.cb} {putHex e.ca} q={if e.quotes then 1 else 0}")

def dumpRawL (kf : Option KeyFile) : List String :=
  match kf with
  | none => ["rawl null"]
  | some kf => s!"rawl len={kf.entries.length}" :: kf.entries.map (fun e => s!"l {e.line}")

def messages : List String := [
  "Success", "Unknown error", "Out of memory", "Configuration file not found", "Group not found",
  "Key not found", "Key is NULL or has empty value", "Error creating or writing to a file",
  "Parse error", "Missing bracket", "Missing delimiter", "Empty section name", "Text after section",
  "Conf file list is NULL", "Wrong boolean value (1/0 true/false yes/no)", "Given key has NULL value",
  "File has wrong owner", "File has wrong group", "File has wrong file permissions",
  "File has wrong dir permissions", "File is a sym link which is not permitted",
  "User defined parsing callback has failed", "Given argument is NULL", "Given option not found",
  "Value cannot be converted"]

def errString (n : Int) : String :=
  -- `error >= sizeof(messages)/sizeof(messages[0])` is an unsigned comparison
  if n < 0 then s!"Unknown libeconf error {n}"
  else match messages[n.toNat]? with
    | some m => m
    | none => s!"Unknown libeconf error {n}"

def showI (i : Int) : String := toString i

/-- conversion of the typed argument of a setter to the stored text -/
def setText (type val : String) : Except Err Str :=
  match type with
  | "str" => .ok (decD val)
  | "bool" => (match dec val with
      | none => setBoolText NONE
      | some v => setBoolText v)
  | "int" | "int64" => .ok (showInt val.toInt!)
  | "uint" | "uint64" => .ok (showNat val.toNat!)
  | _ => .error .error

def getLine (kf : Option KeyFile) (type : String) (g k : Option Str) (deflt : Option String) : String :=
  let isDef := deflt.isSome
  match type with
  | "str" | "sum" =>
    let r := getStringE kf g k
    let shw := if type == "sum" then putSum else putHex
    (match r with
     | .ok v => s!"get E0 {shw v}"
     | .error e =>
       if isDef && e == .nokey then s!"get {E e} {shw (dec (deflt.getD "-"))}" else s!"get {E e} ")
  | _ =>
    let num : Except Err String :=
      match kf with
      | none => .error .error
      | some kf =>
        match type with
        | "int" => (getTyped getInt32 kf g k).map showI
        | "int64" => (getTyped getInt64 kf g k).map showI
        | "uint" => (getTyped getUInt32 kf g k).map toString
        | "uint64" => (getTyped getUInt64 kf g k).map toString
        | "bool" => (getTyped getBool kf g k).map (fun b => if b then "1" else "0")
        | _ => .error .error
    match num with
    | .ok v => s!"get E0 {v}"
    | .error e =>
      if isDef && e == .nokey then
        let d := deflt.getD "0"
        let d := if type == "bool" then (if d.toInt! != 0 then "1" else "0") else d
        s!"get {E e} {d}"
      else s!"get {E e}"

def allGetters (kf : Option KeyFile) : List String :=
  match kf with
  | none => ["allget null"]
  | some kf =>
    let (ge, groups) := match getGroups kf with
      | .ok gs => (Err.success, gs)
      | .error e => (e, [])
    let num := fun {α : Type} (tag : String) (r : Except Err α) (shw : α → String) =>
      match r with
      | .ok v => s!" {tag} E0 {shw v}"
      | .error e => s!" {tag} {E e}"
    let perGroup := fun (g : Option Str) =>
      match getKeys kf g with
      | .error _ => []
      | .ok ks => ks.map (fun k =>
          s!"ag {hexStr k}" ++
            num "i" (getTyped getInt32 kf g (some k)) showI ++
            num "l" (getTyped getInt64 kf g (some k)) showI ++
            num "u" (getTyped getUInt32 kf g (some k)) toString ++
            num "w" (getTyped getUInt64 kf g (some k)) toString ++
            num "b" (getTyped getBool kf g (some k)) (fun b => if b then "1" else "0"))
    s!"allget {E ge}" :: ((none :: groups.map some).map perGroup).flatten

def slotOf (t : String) : Nat := t.toNat!

def kfArg (w : World) (t : String) : Option KeyFile := if t == "-" then none else w.slot (slotOf t)

def isDir (fs : FS) (p : Str) : Bool :=
  match fs.lstat p with
  | some .dir => true
  | _ => false

/-- one command; returns the new world and the output lines -/
def runCmd (w : World) (tok : Array String) : World × List String :=
  let t := fun (i : Nat) => tok[i]?.getD "-"
  let topt := fun (i : Nat) => tok[i]?
  match t 0 with
  | "D" => ({ w with fs := w.fs.add (decD (t 1)) .dir }, [])
  | "F" =>
    let uid := (topt 3).map String.toNat! |>.getD 0
    let gid := (topt 4).map String.toNat! |>.getD 0
    ({ w with fs := w.fs.add (decD (t 1)) (.file (decD (t 2)) uid gid) }, [])
  | "L" =>
    let uid := (topt 3).map String.toNat! |>.getD 0
    let gid := (topt 4).map String.toNat! |>.getD 0
    ({ w with fs := w.fs.add (decD (t 1)) (.link (decD (t 2)) uid gid) }, [])
  | "RM" => ({ w with fs := w.fs.remove (decD (t 1)) }, [])
  | "CD" => ({ w with fs := { w.fs with cwd := w.fs.resolve (decD (t 1)) } }, [])
  | "G" =>
    match t 1 with
    | "owner" => ({ w with g := { w.g with ownerSet := true, owner := (t 2).toNat! } }, [])
    | "group" => ({ w with g := { w.g with groupSet := true, group := (t 2).toNat! } }, [])
    | "nosymlink" => ({ w with g := { w.g with allowSymlinks := (t 2).toNat! == 0 } }, [])
    | "perms" => ({ w with g := { w.g with permsSet := true, permsFile := octal (t 2), permsDir := octal (t 3) } }, [])
    | "reset" => ({ w with g := resetSecurity w.g }, [])
    | "confdirs" => ({ w with g := { w.g with confDirs := (tok.toList.drop 2).map decD } }, ["confdirs E0"])
    | _ => (w, ["?"])
  | "LOGOPEN" => ({ w with logOpen := (t 1).toNat! != 0 }, [])
  | "OBJLOG" => ({ w with objLog := (t 1).toNat! != 0 }, [])
  | "NEW" =>
    let s := slotOf (t 1)
    let (w, pre) := if w.objLog then ({ w with next := w.next + 1 }.setId s (some w.next), [s!"obj new {w.next}"]) else (w, [])
    (fun (r : World × List String) => (r.1, pre ++ r.2)) <|
    match t 2 with
    | "key" => (w.setSlot s (some (newKeyFile ((decD (t 3)).headD 0) ((decD (t 4)).headD 0))), ["new E0 obj"])
    | "ini" => (w.setSlot s (some newIniFile), ["new E0 obj"])
    | _ =>
      let (kf, e) := newWithOptions (dec (t 3))
      (w.setSlot s (some kf), [s!"new {E e} obj"])
  | "OPTS" =>
    match w.slot (slotOf (t 1)) with
    | none => (w, ["opts null"])
    | some kf =>
      (w, [s!"opts join={if kf.join then 1 else 0} python={if kf.python then 1 else 0} root={putHex kf.rootPrefix} pdirs={kf.parseDirs.length}" ++
        String.join (kf.parseDirs.map (fun d => " " ++ hexStr d)) ++ s!" cdirs={kf.confDirs.length}" ++
        String.join (kf.confDirs.map (fun d => " " ++ hexStr d))])
  | "RF" =>
    let s := slotOf (t 1)
    let ctx : RdCtx := { fs := w.fs, cb := cbFun (parseCb (topt 5)) }
    if w.objLog then
      let (o, e, r) := ownReadFile ctx { rs := { g := w.g }, next := w.next } (dec (t 2)) (dec (t 3)) (dec (t 4))
      ({ w with g := o.rs.g, next := o.next }.setOwn s r, ownLines w o.log ++ [s!"rf {E e} {ptrState (r.map (·.2))}"])
    else
    let (rs, e, kf) := readFile ctx { g := w.g } (dec (t 2)) (dec (t 3)) (dec (t 4))
    ({ w with g := rs.g }.setSlot s kf, traceLines w rs.trace ++ [s!"rf {E e} {ptrState kf}"])
  | "RC" =>
    let s := slotOf (t 1)
    let ctx : RdCtx := { fs := w.fs, cb := cbFun (parseCb (topt 8)) }
    if w.objLog then
      let (o, e, r) := ownReadConfig ctx { rs := { g := w.g }, next := w.next } (w.own s) (dec (t 2)) (dec (t 3)) (dec (t 4)) (dec (t 5)) (dec (t 6)) (decD (t 7))
      ({ w with g := o.rs.g, next := o.next }.setOwn s r, ownLines w o.log ++ [s!"rc {E e} {ptrState (r.map (·.2))}"])
    else
    let (rs, e, kf) := readConfig ctx { g := w.g } (w.slot s) (dec (t 2)) (dec (t 3)) (dec (t 4)) (dec (t 5)) (dec (t 6)) (decD (t 7))
    ({ w with g := rs.g }.setSlot s kf, traceLines w rs.trace ++ [s!"rc {E e} {ptrState kf}"])
  | "RD" =>
    let s := slotOf (t 1)
    let ctx : RdCtx := { fs := w.fs, cb := cbFun (parseCb (topt 8)) }
    if w.objLog then
      let (o, e, r) := ownReadDirs ctx { rs := { g := w.g }, next := w.next } (dec (t 2)) (dec (t 3)) (dec (t 4)) (dec (t 5)) (dec (t 6)) (decD (t 7))
      ({ w with g := o.rs.g, next := o.next }.setOwn s r, ownLines w o.log ++ [s!"rd {E e} {ptrState (r.map (·.2))}"])
    else
    let (rs, e, kf) := readDirs ctx { g := w.g } (dec (t 2)) (dec (t 3)) (dec (t 4)) (dec (t 5)) (dec (t 6)) (decD (t 7))
    ({ w with g := rs.g }.setSlot s kf, traceLines w rs.trace ++ [s!"rd {E e} {ptrState kf}"])
  | "RH" =>
    let s := slotOf (t 1)
    let ctx : RdCtx := { fs := w.fs, cb := cbFun (parseCb (topt 8)) }
    if w.objLog then
      let (o, r) := ownReadDirsHistory ctx { rs := { g := w.g }, next := w.next } (dec (t 2)) (dec (t 3)) (dec (t 4)) (dec (t 5)) (dec (t 6)) (decD (t 7))
      let w := { w with g := o.rs.g, next := o.next }
      match r with
      | .error (e, nulled) => (w, ownLines w o.log ++ [s!"rh {E e} {if nulled then "null" else "untouched"}"])
      | .ok files =>
        let w := (files.zipIdx).foldl (fun w (f, i) => w.setOwn (s + i) (some f)) w
        (w, ownLines w o.log ++ [s!"rh E0 obj {files.length}"])
    else
    let (rs, r) := readDirsHistory ctx { g := w.g } (dec (t 2)) (dec (t 3)) (dec (t 4)) (dec (t 5)) (dec (t 6)) (decD (t 7))
    let w := { w with g := rs.g }
    match r with
    | .error (e, nulled) => (w, traceLines w rs.trace ++ [s!"rh {E e} {if nulled then "null" else "untouched"}"])
    | .ok files =>
      let w := (files.zipIdx).foldl (fun w (kf, i) => w.setSlot (s + i) (some kf)) w
      (w, traceLines w rs.trace ++ [s!"rh E0 obj {files.length}"])
  | "M" =>
    let a := kfArg w (t 2)
    let b := kfArg w (t 3)
    if t 1 == "-" then (w, ["m E1"])
    else
      let s := slotOf (t 1)
      match a, b with
      | some a, some b =>
        if w.objLog then (({ w with next := w.next + 1 }.setSlot s (some (mergeFiles a b))).setId s (some w.next), [s!"obj merged {w.next}", "m E0 obj"])
        else (w.setSlot s (some (mergeFiles a b)), ["m E0 obj"])
      | _, _ => (w.setSlot s none, ["m E1 null"])
  | "SET" =>
    match kfArg w (t 1) with
    | none => (w, [s!"set {E .fileListIsNull}"])
    | some kf =>
      let k := dec (t 4)
      -- the key check precedes the conversion
      let (kf', e) := setValue kf (dec (t 3)) k (setText (t 2) (t 5))
      (w.setSlot (slotOf (t 1)) (some kf'), [s!"set {E e}"])
  | "GET" => (w, [getLine (kfArg w (t 1)) (t 2) (dec (t 3)) (dec (t 4)) none])
  | "GETD" => (w, [getLine (kfArg w (t 1)) (t 2) (dec (t 3)) (dec (t 4)) (some (t 5))])
  | "GROUPS" =>
    match kfArg w (t 1) with
    | none => (w, ["groups E1"])
    | some kf =>
      (match getGroups kf with
       | .ok gs => (w, ["groups E0" ++ String.join (gs.map (fun g => " " ++ hexStr g))])
       | .error e => (w, [s!"groups {E e}"]))
  | "KEYS" =>
    match kfArg w (t 1) with
    | none => (w, ["keys E1"])
    | some kf =>
      (match getKeys kf (dec (t 2)) with
       | .ok ks => (w, ["keys E0" ++ String.join (ks.map (fun k => " " ++ hexStr k))])
       | .error e => (w, [s!"keys {E e}"]))
  | "TOOLSHOW" =>
    match w.slot (slotOf (t 1)) with
    | none => (w, ["toolshow null"])
    | some kf => (w, [s!"toolshow {hexStr (toolShow kf)}"])
  | "KEYSUM" =>
    match w.slot (slotOf (t 1)) with
    | none => (w, ["keysum ?"])
    | some kf =>
      let gs := getGroups kf
      let ks := getKeys kf (dec (t 2))
      let e1 := match gs with | .ok _ => Err.success | .error e => e
      let e2 := match ks with | .ok _ => Err.success | .error e => e
      (w, [s!"keysum {E e1} {E e2}" ++
        String.join ((gs.toOption.getD []).map (fun g => " g " ++ putSum (some g))) ++
        String.join ((ks.toOption.getD []).map (fun k => " k " ++ putSum (some k)))])
  | "EXT" => (w, [extLine (kfArg w (t 1)) (dec (t 2)) (dec (t 3))])
  | "EXTSUM" =>
    match kfArg w (t 1) with
    | none => (w, ["extsum E1"])
    | some kf =>
      (match getExt kf (dec (t 2)) (dec (t 3)) with
       | .error e => (w, [s!"extsum {E e}"])
       | .ok ev => (w, [s!"extsum E0 cb {putSum ev.cb} ca {putSum ev.ca}" ++
           String.join (ev.values.map (fun v => " v " ++ putSum (some v)))]))
  | "PATH" =>
    match w.slot (slotOf (t 1)) with
    | none => (w, ["path null"])
    | some kf => (w, [s!"path {hexStr (getPath kf)}"])
  | "TAGS" =>
    match kfArg w (t 1) with
    | none => (w, ["tags 00 00"])
    | some kf => (w, [s!"tags {hexByte kf.delim} {hexByte kf.comment}"])
  | "SETTAGS" =>
    match kfArg w (t 1) with
    | none => (w, [])
    | some kf =>
      (w.setSlot (slotOf (t 1)) (some { kf with delim := (decD (t 2)).headD 0, comment := (decD (t 3)).headD 0 }), [])
  | "W" | "WSUM" =>
    match kfArg w (t 1) with
    | none => (w, ["w E1"])
    | some kf =>
      let dir := decD (t 2)
      let name := decD (t 3)
      if !isDir w.fs dir then (w, [s!"w {E .nofile}"])
      else
        let full := dir ++ SLASH :: name
        let bytes := writeBytes kf
        let out := if t 0 == "W" then s!"bytes {hexStr bytes}" else s!"bytes {putSum (some bytes)}"
        ({ w with fs := w.fs.add full (.file bytes 0 0) }, ["w E0", out])
  | "ALLGET" => (w, allGetters (w.slot (slotOf (t 1))))
  | "DUMP" => (w, dumpView (w.slot (slotOf (t 1))) false)
  | "DUMPX" => (w, dumpView (w.slot (slotOf (t 1))) true)
  | "RAW" => (w, dumpRaw (w.slot (slotOf (t 1))))
  | "RAWL" => (w, dumpRawL (w.slot (slotOf (t 1))))
  | "FREE" =>
    let s := slotOf (t 1)
    let pre := match w.objLog, w.slot s, w.slotId s with
      | true, some _, some id => [s!"obj free {id}"]
      | _, _, _ => []
    ((w.setSlot s none).setId s none, pre ++ ["free null"])
  | "FREENULL" => (w, ["freenull null null"])
  | "ERRLOC" => (w, [s!"errloc {hexStr w.g.errFile} {w.g.errLine}"])
  | "ERRSTR" => (w, [s!"errstr {hexStr (errString (t 1).toInt!).toUTF8.toList}"])
  | "MARK" => (w, [])
  | "LEAK" => (w, ["leak 0"])
  | "SLOT" => (w, [s!"slot {ptrState (w.slot (slotOf (t 1)))}"])
  | c => (w, [s!"unknown command {c}"])

def splitTokens (line : String) : Array String :=
  ((line.splitOn " ").filter (fun s => !s.isEmpty)).toArray

partial def loop (h : IO.FS.Stream) (out : IO.FS.Stream) (w : Option World) (id : String) : IO Unit := do
  let line ← h.getLine
  if line.isEmpty then return ()
  let line := line.trimAsciiEnd.toString
  if line.startsWith "BEGIN " then
    let id := (line.drop 6).toString
    out.putStrLn s!"#BEGIN {id}"
    loop h out (some {}) id
  else if line.startsWith "END" then
    out.putStrLn s!"#END {id} ok"
    loop h out none ""
  else
    match w with
    | none => loop h out none id
    | some w =>
      let toks := splitTokens line
      if toks.isEmpty then loop h out (some w) id
      else
        let (w', lines) := runCmd w toks
        for l in lines do out.putStrLn l
        loop h out (some w') id

/-! ### `--docwf`: is a generated document in the domain of the C02 theorem, is `render` the file
that was fed to the implementation, and does the parser model return `expDoc`? -/

structure DocSt where
  cfg : Cfg := { delim := [], comment := [] }
  items : List Item := []      -- newest first

def byteOf (t : String) : Byte := (decHexChars t.toList).headD 0

def tcOf (t : String) : Option TrailC :=
  if t == "-" then none
  else match t.splitOn ":" with
    | [c, x] => some { c := byteOf c, text := decD x }
    | _ => none

def contsOf (t : Array String) (i : Nat) : Nat → List ContLine
  | 0 => []
  | n + 1 => { indent := decD (t.getD i ""), text := decD (t.getD (i + 1) ""), trail := decD (t.getD (i + 2) "") } :: contsOf t (i + 3) n

def itemOf (t : Array String) : Option Item :=
  let g := fun i => t.getD i ""
  match g 1 with
  | "b" => some (.blank (decD (g 2)))
  | "c" => some (.comment (decD (g 2)) (byteOf (g 3)) (decD (g 4)))
  | "s" => some (.sect (decD (g 2)) (decD (g 3)) (decD (g 4)) (tcOf (g 5)))
  | "k" => some (.keyonly (decD (g 2)) (decD (g 3)) (decD (g 4)) (tcOf (g 5)))
  | "e" =>
    some (.entry { indent := decD (g 2), key := decD (g 3), ws1 := decD (g 4), d := byteOf (g 5), ws2 := decD (g 6),
                   value := if g 7 == "q" then .quoted (decD (g 8)) else .plain (decD (g 8)),
                   tws := decD (g 9), tc := tcOf (g 10), cont := contsOf t 12 (g 11).toNat! })
  | _ => none

def effCfg (cfg : Cfg) : Cfg := { cfg with comment := if cfg.comment.isEmpty then [0x23] else cfg.comment }

def firstBad (cfg : Cfg) : List Item → Nat → Int
  | [], _ => -1
  | it :: r, i => if decide (it.WF cfg) then firstBad cfg r (i + 1) else (i : Int)

def docCheck (st : DocSt) (content : Str) (fnl : Bool) : String :=
  let doc := st.items.reverse
  let cfgE := effCfg st.cfg
  let inDom := docInDomain cfgE doc
  let bad := if decide (CfgWF cfgE) then firstBad cfgE doc 0 else (-2 : Int)
  let r := render doc
  let renderOk := if fnl then r == content else r.dropLast == content
  let parseOk := match parseBytes st.cfg content with
    | .ok s => if fnl then s == expDoc doc else s.entries == (expDoc doc).entries && s.groups == (expDoc doc).groups
    | .error _ => false
  s!"docwf in={if inDom then 1 else 0} bad={bad} render={if renderOk then 1 else 0} parse={if parseOk then 1 else 0} items={doc.length}"

partial def docLoop (h : IO.FS.Stream) (out : IO.FS.Stream) (st : DocSt) : IO Unit := do
  let line ← h.getLine
  if line.isEmpty then return ()
  let t := splitTokens line.trimAsciiEnd.toString
  match t.getD 0 "" with
  | "DOC" => docLoop h out { cfg := { delim := decD (t.getD 1 ""), comment := decD (t.getD 2 "") }, items := [] }
  | "IT" =>
    match itemOf t with
    | some it => docLoop h out { st with items := it :: st.items }
    | none => out.putStrLn "docwf bad-item"; docLoop h out st
  | "CHECK" =>
    out.putStrLn (docCheck st (decD (t.getD 1 "")) (t.getD 2 "1" == "1"))
    docLoop h out st
  | _ => docLoop h out st

/-! ### `--leaf`: the translated string helpers (Generated/LeafFns.lean) run by the MiniC interpreter on the inputs
that harness/leaf.c gives to the real C functions -/

/-! functions over an `econf_file`: the object is laid out in word slots by the member lists the translator emitted -/

open MiniC in
def recFields (r : String) : List (String × Bool) := (LeafFns.records.lookup r).getD []

open MiniC in
def recDefault (r : String) : List Val := (recFields r).map (fun (_, isPtr) => if isPtr then Val.null else Val.int 0)

open MiniC in
def recSet (r : String) (vals : List Val) (field : String) (v : Val) : List Val :=
  match (recFields r).findIdx? (fun p => p.1 == field) with
  | some i => vals.set i v
  | none => vals

def kfFunctions : List String := ["has_group", "first_entry", "first_definition", "find_key", "getFromGroupList"]

/-! the copying functions (`setGroupList`, `cpy_file_entry`, the three steps of `econf_mergeFiles`): objects with values -/

def mergeFunctions : List String := ["setGroupList", "cpy_file_entry", "merge3", "mergeFiles"]

open MiniC in
/-- append an `econf_file` described by an `e…` / `g…` token (entries may carry a third field, the value; `-` = NULL);
    returns the memory and the index of the struct block -/
def addKf (m : Mem) (spec : String) : Mem × Nat :=
  let items := if spec.length ≤ 1 then [] else (spec.drop 1).toString.splitOn ","
  let n := items.length
  let kf1 := recSet "econf_file" (recSet "econf_file" (recDefault "econf_file") "delimiter" (.int 61)) "comment" (.int 35)
  if spec.startsWith "e" then
    -- strings first, then the array, then the struct
    let step := fun (acc : Mem × List Val × Nat) (it : String) =>
      let (mem, arr, i) := acc
      let fs := it.splitOn ":"
      let g := decD (fs.getD 0 "h")
      let k := decD (fs.getD 1 "h")
      let mem1 := mem ++ [strBlock g, strBlock k]
      let gp := Val.ptr mem.length 0
      let kp := Val.ptr (mem.length + 1) 0
      let (mem2, vp) : Mem × Val := match fs[2]? with
        | some v => if v.startsWith "h" then (mem1 ++ [strBlock (decD v)], Val.ptr mem1.length 0) else (mem1, Val.null)
        | none => (mem1, Val.null)
      let e0 := recSet "file_entry" (recSet "file_entry" (recSet "file_entry" (recDefault "file_entry") "group" gp) "key" kp) "value" vp
      let e := recSet "file_entry" e0 "line_number" (.int (10 + i))
      (mem2, arr ++ e, i + 1)
    let (mem, arr, _) := items.foldl step (m, [], 0)
    let arrIdx := mem.length
    let kf := recSet "econf_file" (recSet "econf_file" (recSet "econf_file" kf1 "file_entry" (.ptr arrIdx 0)) "length" (.int n)) "alloc_length" (.int n)
    (mem ++ [{ cells := [], slots := arr }, { cells := [], slots := kf }], arrIdx + 1)
  else
    let step := fun (acc : Mem × List Val) (it : String) => (acc.1 ++ [strBlock (decD it)], acc.2 ++ [Val.ptr acc.1.length 0])
    let (mem, ptrs) := items.foldl step (m, [])
    let arrIdx := mem.length
    let kf := recSet "econf_file" (recSet "econf_file" kf1 "groups" (.ptr arrIdx 0)) "group_count" (.int n)
    (mem ++ [{ cells := [], slots := ptrs ++ [.null] }, { cells := [], slots := kf }], arrIdx + 1)

open MiniC in
def recGet (r : String) (vals : List Val) (field : String) : Val :=
  match (recFields r).findIdx? (fun p => p.1 == field) with
  | some i => vals.getD i .undef
  | none => .undef

open MiniC in
def optStr (m : Mem) (v : Val) : String :=
  match v with
  | .null => "-"
  | .ptr b o => (match m.cstr b o with | .ok s => hexStr s | .error e => s!"unreadable({repr e})")
  | v => s!"notapointer({repr v})"

open MiniC in
/-- the group list of an object: ` g<hex>,<hex>…`, and the index of a pointer in it -/
def groupsOf (m : Mem) (kfIdx : Nat) : List Val × String :=
  match m[kfIdx]? with
  | none => ([], " gNOOBJECT")
  | some blk =>
    let cnt := match recGet "econf_file" blk.slots "group_count" with | .int n => n.toNat | _ => 0
    match recGet "econf_file" blk.slots "groups" with
    | .ptr b _ =>
      let sl := (m[b]?.map (·.slots)).getD []
      let ps := sl.take cnt
      let names := ps.map (optStr m)
      let term := if sl.getD cnt .undef == .null then "" else " NOT-TERMINATED"
      (ps, " g" ++ ",".intercalate names ++ term)
    | _ => ([], " g")

def idxOf (ps : List MiniC.Val) (v : MiniC.Val) : String :=
  match ps.findIdx? (· == v) with
  | some i => toString i
  | none => "-1"

open MiniC in
def runFn (name : String) (fuel : Nat) (m : Mem) (args : List Val) : Except String (Val × Mem) :=
  match LeafFns.all.find? (fun fn => fn.name == name) with
  | none => .error "?"
  | some fn =>
    match fn.run fuel m args with
    | .error e => .error s!"fault {repr e}"
    | .ok r => .ok r

open MiniC in
def mergeLine (t : Array String) : String :=
  let f := t.getD 0 ""
  let fuel := (t.getD 1 "").length + (t.getD 2 "").length + 16
  if f == "setGroupList" then
    let (m0, kf) := addKf [] (t.getD 1 "g")
    let m1 := m0 ++ [strBlock (decD (t.getD 2 "h"))]
    match runFn f fuel m1 [.ptr kf 0, .ptr m0.length 0] with
    | .error e => s!"{f} {e}"
    | .ok (v, m) =>
      let (ps, gs) := groupsOf m kf
      s!"{f} {idxOf ps v}{gs}"
  else if f == "cpy_file_entry" then
    let (m0, dest) := addKf [] (t.getD 1 "g")
    let (m1, src) := addKf m0 (t.getD 2 "e")
    let i := ((t.getD 3 "n0").drop 1).toString.toNat?.getD 0
    let arr := src - 1
    -- the source entry has its quote flag set: the copy must not
    let m2 : Mem := match m1[arr]? with
      | some blk => m1.set arr { blk with slots := blk.slots.set (7 * i + 6) (.int 1) }
      | none => m1
    match runFn f fuel m2 [.ptr dest 0, .ptr arr (7 * i)] with
    | .error e => s!"{f} {e}"
    | .ok (v, m) =>
      match v with
      | .ptr b o =>
        let sl := ((m[b]?.map (·.slots)).getD []).drop o.toNat
        let (ps, gs) := groupsOf m dest
        let num := fun (v : Val) => match v with | .int n => toString n | v => s!"({repr v})"
        s!"{f} {idxOf ps (recGet "file_entry" sl "group")} {optStr m (recGet "file_entry" sl "key")} {optStr m (recGet "file_entry" sl "value")} {optStr m (recGet "file_entry" sl "comment_before_key")} {optStr m (recGet "file_entry" sl "comment_after_value")} {num (recGet "file_entry" sl "line_number")} {num (recGet "file_entry" sl "quotes")}{gs}"
      | v => s!"{f} unexpected result {repr v}"
  else if f == "mergeFiles" then
    -- econf_mergeFiles itself: the result object and its array are allocated by the translated function
    let (m0, uf) := addKf [] (t.getD 1 "e")
    let (m1, ef) := addKf m0 (t.getD 2 "e")
    let len := fun (m : Mem) (k : Nat) => match (m[k]?.map (fun b => recGet "econf_file" b.slots "length")) with | some (.int n) => n.toNat | _ => 0
    let total := len m1 uf + len m1 ef
    let cell := m1.length
    let m2 : Mem := m1 ++ [{ cells := [], slots := [.null] }]
    match runFn "econf_mergeFiles" (fuel + total) m2 [.ptr cell 0, .ptr uf 0, .ptr ef 0] with
    | .error e => s!"{f} {e}"
    | .ok (.int code, m5) =>
      match (m5[cell]?.map (·.slots)) with
      | some [Val.ptr dest _] =>
        let kf := (m5[dest]?.map (·.slots)).getD []
        let (ps, gs) := groupsOf m5 dest
        let num := fun (v : Val) => match v with | .int n => toString n | v => s!"({repr v})"
        let sl := match recGet "econf_file" kf "file_entry" with
          | .ptr b _ => (m5[b]?.map Block.slots).getD []
          | _ => []
        let l3 := match recGet "econf_file" kf "length" with | .int n => n.toNat | _ => 0
        let ent := fun (i : Nat) =>
          let e := (sl.drop (7 * i)).take 7
          s!"{idxOf ps (recGet "file_entry" e "group")}:{optStr m5 (recGet "file_entry" e "key")}:{optStr m5 (recGet "file_entry" e "value")}:{num (recGet "file_entry" e "line_number")}:{num (recGet "file_entry" e "quotes")}"
        let path := match recGet "econf_file" kf "path" with | .null => "-" | _ => "path"
        s!"{f} E{code} {num (recGet "econf_file" kf "length")} {num (recGet "econf_file" kf "alloc_length")} {num (recGet "econf_file" kf "delimiter")} {num (recGet "econf_file" kf "comment")} {path} e"
          ++ ",".intercalate ((List.range l3).map ent) ++ gs
      | _ => s!"{f} E{code}"
    | .ok (v, _) => s!"{f} returned {repr v}"
  else
    -- merge3: what econf_mergeFiles does with its two inputs
    let (m0, uf) := addKf [] (t.getD 1 "e")
    let (m1, ef) := addKf m0 (t.getD 2 "e")
    let len := fun (m : Mem) (k : Nat) => match (m[k]?.map (fun b => recGet "econf_file" b.slots "length")) with | some (.int n) => n.toNat | _ => 0
    let total := len m1 uf + len m1 ef
    let dest := m1.length
    let feBlk := dest + 1
    let cell := dest + 2
    let m2 : Mem := m1 ++ [{ cells := [], slots := recDefault "econf_file" }, { cells := [], slots := List.replicate (7 * total) .undef },
      { cells := [], slots := [.ptr feBlk 0] }]
    let fuel := fuel + total
    match runFn "insert_nogroup" fuel m2 [.ptr dest 0, .ptr cell 0, .ptr uf 0, .ptr ef 0] with
    | .error e => s!"{f} insert_nogroup {e}"
    | .ok (.int l1, m3) =>
      match runFn "merge_existing_groups" fuel m3 [.ptr dest 0, .ptr cell 0, .ptr uf 0, .ptr ef 0, .int l1] with
      | .error e => s!"{f} {l1} merge_existing_groups {e}"
      | .ok (.int l2, m4) =>
        match runFn "add_new_groups" fuel m4 [.ptr dest 0, .ptr cell 0, .ptr uf 0, .ptr ef 0, .int l2] with
        | .error e => s!"{f} {l1} {l2} add_new_groups {e}"
        | .ok (.int l3, m5) =>
          let (ps, gs) := groupsOf m5 dest
          let feNow := match (m5[cell]?.map (·.slots)) with | some [.ptr b _] => b | _ => feBlk
          let sl := (m5[feNow]?.map (·.slots)).getD []
          let num := fun (v : Val) => match v with | .int n => toString n | v => s!"({repr v})"
          let ent := fun (i : Nat) =>
            let e := (sl.drop (7 * i)).take 7
            s!"{idxOf ps (recGet "file_entry" e "group")}:{optStr m5 (recGet "file_entry" e "key")}:{optStr m5 (recGet "file_entry" e "value")}:{num (recGet "file_entry" e "line_number")}:{num (recGet "file_entry" e "quotes")}"
          s!"{f} {l1} {l2} {l3} e" ++ ",".intercalate ((List.range l3.toNat).map ent) ++ gs
        | .ok (v, _) => s!"{f} add_new_groups returned {repr v}"
      | .ok (v, _) => s!"{f} merge_existing_groups returned {repr v}"
    | .ok (v, _) => s!"{f} insert_nogroup returned {repr v}"

open MiniC in
def kfLine (t : Array String) : String :=
  let f := t.getD 0 ""
  let spec := t.getD 1 "e"
  let items := if spec.length ≤ 1 then [] else (spec.drop 1).toString.splitOn ","
  let n := items.length
  let isE := spec.startsWith "e"
  let kf0 := recDefault "econf_file"
  let kf1 := recSet "econf_file" (recSet "econf_file" kf0 "delimiter" (.int 61)) "comment" (.int 35)
  let kf := if isE then
      recSet "econf_file" (recSet "econf_file" (recSet "econf_file" kf1 "file_entry" (.ptr 1 0)) "length" (.int n)) "alloc_length" (.int n)
    else recSet "econf_file" (recSet "econf_file" kf1 "groups" (.ptr 1 0)) "group_count" (.int n)
  let strs : List (List UInt8) := if isE then
      items.flatMap (fun it => match it.splitOn ":" with
        | g :: k :: _ => [decD g, decD k]
        | _ => [[], []])
    else items.map (fun it => decD it)
  let arr : List Val := if isE then
      (List.range n).flatMap (fun i =>
        recSet "file_entry" (recSet "file_entry" (recDefault "file_entry") "group" (.ptr (2 + 2 * i) 0)) "key" (.ptr (3 + 2 * i) 0))
    else (List.range n).map (fun i => Val.ptr (2 + i) 0) ++ [.null]
  let mem0 : Mem := [{ cells := [], slots := kf }, { cells := [], slots := arr }] ++ strs.map strBlock
  -- further arguments
  let addArg := fun (acc : Mem × List Val) (tok : String) =>
    if tok == "-" then (acc.1, acc.2 ++ [Val.null])
    else if tok.startsWith "n" then (acc.1, acc.2 ++ [Val.int ((tok.drop 1).toString.toNat?.getD 0)])
    else (acc.1 ++ [strBlock (decD tok)], acc.2 ++ [Val.ptr acc.1.length 0])
  let (mem1, argv) := ((t.toList.drop 2).foldl addArg (mem0, []))
  let (mem, args) : Mem × List Val := if f == "find_key" then (mem1 ++ [{ cells := [], slots := [.undef] }], [.ptr 0 0] ++ argv ++ [.ptr mem1.length 0])
    else (mem1, [.ptr 0 0] ++ argv)
  let fuel := spec.length + 16
  match LeafFns.all.find? (fun fn => fn.name == f) with
  | none => s!"{f} ?"
  | some fn =>
    match fn.run fuel mem args with
    | .error e => s!"{f} fault {repr e}"
    | .ok (v, m) =>
      match f, v with
      | "find_key", .int e =>
        if e == 0 then
          match m.loadSlot mem1.length 0 with
          | .ok (.int k) => s!"{f} E0 {k}"
          | r => s!"{f} E0 unreadable({repr r})"
        else s!"{f} E{e} -"
      | "getFromGroupList", .ptr blk _ => s!"{f} {blk - 2}"
      | "getFromGroupList", .null => s!"{f} null"
      | _, .int r => s!"{f} {r}"
      | _, _ => s!"{f} unexpected result {repr v}"

/-! the getters that return arrays through out-parameters (`econf_getGroups`, `econf_getKeys`): the cells for the results are
    one-word blocks; before the call the length holds 77 and the array pointer a sentinel (a pointer to the length cell) -/

def getterFunctions : List String := ["getGroups", "getKeys"]

open MiniC in
def getterLine (t : Array String) : String :=
  let f := t.getD 0 ""
  let isG := f == "getGroups"
  let spec := t.getD 1 "-"
  let given := spec != "-"
  let (m0, kf) : Mem × Nat := if given then addKf [] spec else ([], 0)
  let kfArg : Val := if given then .ptr kf 0 else .null
  let mode := if isG then t.getD 2 "n" else t.getD 3 "n"
  let gtok := t.getD 2 "-"
  let (m1, grp) : Mem × Val := if isG || gtok == "-" then (m0, .null) else (m0 ++ [strBlock (decD gtok)], .ptr m0.length 0)
  let lenCell := m1.length
  let arrCell := m1.length + 1
  let m2 : Mem := m1 ++ [{ cells := [], slots := [.int 77] }, { cells := [], slots := [.ptr lenCell 0] }]
  let fuel := spec.length + 16
  let args : List Val := if isG then [kfArg, .ptr lenCell 0, if mode == "g" then .null else .ptr arrCell 0]
    else [kfArg, grp, if mode == "l" then .null else .ptr lenCell 0, .ptr arrCell 0]
  match runFn (if isG then "econf_getGroups" else "econf_getKeys") fuel m2 args with
  | .error e => s!"{f} {e}"
  | .ok (.int code, m) =>
    let lenV := match m.loadSlot lenCell 0 with | .ok (.int k) => toString k | r => s!"unreadable({repr r})"
    let arrV := match m.loadSlot arrCell 0 with | .ok v => v | .error _ => .undef
    let pre := s!"{f} E{code} {lenV}"
    if arrV == .ptr lenCell 0 then pre ++ " same"
    else if code != 0 then pre ++ " changed"
    else match arrV with
      | .null => pre ++ " null"
      | .ptr b 0 =>
        match m.block b with
        | .error e => pre ++ s!" unreadable({repr e})"
        | .ok blk =>
          let sl := blk.slots
          let cnt : Nat := if mode == "l" then (sl.findIdx? (· == .null)).getD sl.length
            else match m.loadSlot lenCell 0 with | .ok (.int k) => k.toNat | _ => 0
          let term := if sl.getD cnt .undef == .null then "" else " NOT-TERMINATED"
          -- the array has exactly one word more than strings: a longer one would hide an over-read of the caller
          let tight := if sl.length == cnt + 1 then "" else s!" ARRAY-OF-{sl.length}-WORDS"
          pre ++ " g" ++ ",".intercalate ((sl.take cnt).map (optStr m)) ++ term ++ tight
      | v => pre ++ s!" notanarray({repr v})"
  | .ok (v, _) => s!"{f} returned {repr v}"

open MiniC in
def leafLine (t : Array String) : String :=
  let f := t.getD 0 ""
  if kfFunctions.contains f then kfLine t else
  if mergeFunctions.contains f then mergeLine t else
  if getterFunctions.contains f then getterLine t else
  let a := decD (t.getD 1 "h")
  let b := decD (t.getD 2 "h")
  let c := decD (t.getD 3 "h")
  let fuel := a.length + b.length + c.length + 16
  let strOf := fun (m : Mem) (blk : Nat) (o : Int) => match m.cstr blk o with
    | .ok s => hexStr s
    | .error e => s!"unreadable({repr e})"
  let fn? := LeafFns.all.find? (fun fn => fn.name == f)
  match fn? with
  | none => s!"{f} ?"
  | some fn =>
    let mem : Mem := if f == "check_delim" then [strBlock a, { cells := [none] }, { cells := [none] }]
      else if f == "replace_str" then [strBlock a, strBlock b, strBlock c] else [strBlock a]
    let args : List Val := if f == "check_delim" then [.ptr 0 0, .ptr 1 0, .ptr 2 0]
      else if f == "replace_str" then [.ptr 0 0, .ptr 1 0, .ptr 2 0] else [.ptr 0 0]
    match fn.run fuel mem args with
    | .error e => s!"{f} fault {repr e}"
    | .ok (v, m) =>
      match f, v with
      | "hashstring", .int n => s!"{f} {n}"
      | "check_delim", _ =>
        let bit := fun (blk : Nat) => match m.load8 blk 0 with
          | .ok n => toString n
          | .error e => s!"unreadable({repr e})"
        s!"{f} {bit 1} {bit 2}"
      | "addbrackets", .ptr blk o => s!"{f} {strOf m blk o} {strOf m 0 0}"
      | "ltrim", .ptr _ o => s!"{f} {o} {strOf m 0 0}"
      | "rtrim", .ptr _ o => s!"{f} {o} {strOf m 0 0}"
      | _, .ptr blk o => s!"{f} {o} {strOf m blk o}"
      | _, _ => s!"{f} unexpected result {repr v}"

partial def leafLoop (h : IO.FS.Stream) (out : IO.FS.Stream) : IO Unit := do
  let line ← h.getLine
  if line.isEmpty then return ()
  let t := splitTokens line.trimAsciiEnd.toString
  if t.size ≥ 2 then out.putStrLn (leafLine t)
  leafLoop h out

end Drv

def main (args : List String) : IO Unit := do
  let stdin ← IO.getStdin
  let stdout ← IO.getStdout
  if args.contains "--leaf" then Drv.leafLoop stdin stdout
  else if args.contains "--docwf" then Drv.docLoop stdin stdout {}
  else Drv.loop stdin stdout none ""
