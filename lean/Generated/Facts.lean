/- GENERATED on every run by gen/extract_facts.py from /repo (clang-14 JSON AST). Do not edit. -/
namespace Generated

structure StaticObj where
  name : String
  file : String
  isConst : Bool
  threadLocal : Bool
  written : Bool
  deriving DecidableEq, Repr

def statics : List StaticObj := [
  ⟨"econf_errString.buffer", "econf_error.c", false, true, true⟩,
  ⟨"messages", "econf_error.c", true, false, true⟩,
  ⟨"allow_follow_symlinks", "getfilecontents.c", false, false, true⟩,
  ⟨"file_group", "getfilecontents.c", false, false, true⟩,
  ⟨"file_group_set", "getfilecontents.c", false, false, true⟩,
  ⟨"file_owner", "getfilecontents.c", false, false, true⟩,
  ⟨"file_owner_set", "getfilecontents.c", false, false, true⟩,
  ⟨"file_permissions_set", "getfilecontents.c", false, false, true⟩,
  ⟨"file_perms_dir", "getfilecontents.c", false, false, true⟩,
  ⟨"file_perms_file", "getfilecontents.c", false, false, true⟩,
  ⟨"last_scanned_filename", "getfilecontents.c", false, false, true⟩,
  ⟨"last_scanned_line_nr", "getfilecontents.c", false, false, true⟩,
  ⟨"conf_count", "libeconf.c", false, false, true⟩,
  ⟨"conf_dirs", "libeconf.c", false, false, true⟩]

def errEnum : List (String × Nat) := [("ECONF_SUCCESS", 0), ("ECONF_ERROR", 1), ("ECONF_NOMEM", 2), ("ECONF_NOFILE", 3), ("ECONF_NOGROUP", 4), ("ECONF_NOKEY", 5), ("ECONF_EMPTYKEY", 6), ("ECONF_WRITEERROR", 7), ("ECONF_PARSE_ERROR", 8), ("ECONF_MISSING_BRACKET", 9), ("ECONF_MISSING_DELIMITER", 10), ("ECONF_EMPTY_SECTION_NAME", 11), ("ECONF_TEXT_AFTER_SECTION", 12), ("ECONF_FILE_LIST_IS_NULL", 13), ("ECONF_WRONG_BOOLEAN_VALUE", 14), ("ECONF_KEY_HAS_NULL_VALUE", 15), ("ECONF_WRONG_OWNER", 16), ("ECONF_WRONG_GROUP", 17), ("ECONF_WRONG_FILE_PERMISSION", 18), ("ECONF_WRONG_DIR_PERMISSION", 19), ("ECONF_ERROR_FILE_IS_SYM_LINK", 20), ("ECONF_PARSING_CALLBACK_FAILED", 21), ("ECONF_ARGUMENT_IS_NULL_VALUE", 22), ("ECONF_OPTION_NOT_FOUND", 23), ("ECONF_VALUE_CONVERSION_ERROR", 24)]

def errMessages : List String := ["Success", "Unknown error", "Out of memory", "Configuration file not found", "Group not found", "Key not found", "Key is NULL or has empty value", "Error creating or writing to a file", "Parse error", "Missing bracket", "Missing delimiter", "Empty section name", "Text after section", "Conf file list is NULL", "Wrong boolean value (1/0 true/false yes/no)", "Given key has NULL value", "File has wrong owner", "File has wrong group", "File has wrong file permissions", "File has wrong dir permissions", "File is a sym link which is not permitted", "User defined parsing callback has failed", "Given argument is NULL", "Given option not found", "Value cannot be converted"]

structure SetterFmt where
  func : String
  format : String
  precision : Option Nat
  deriving DecidableEq, Repr

def setterFormats : List SetterFmt := [⟨"setDoubleValueNum", "%.*g", some 17⟩, ⟨"setFloatValueNum", "%.*g", some 9⟩, ⟨"setInt64ValueNum", "%ld", none⟩, ⟨"setIntValueNum", "%d", none⟩, ⟨"setUInt64ValueNum", "%lu", none⟩, ⟨"setUIntValueNum", "%u", none⟩]

structure GetterConv where
  func : String
  conv : String
  base : Option Nat
  deriving DecidableEq, Repr

def getterConversions : List GetterConv := [⟨"getDoubleValueNum", "strtod", none⟩, ⟨"getFloatValueNum", "strtof", none⟩, ⟨"getInt64ValueNum", "strtoll", some 0⟩, ⟨"getIntValueNum", "strtol", some 0⟩, ⟨"getUInt64ValueNum", "strtoull", some 0⟩, ⟨"getUIntValueNum", "strtoul", some 0⟩]

structure FixedArray where
  file : String
  func : String
  name : String
  size : Nat
  deriving DecidableEq, Repr

def fixedArrays : List FixedArray := [⟨"econf_error.c", "", "messages", 25⟩, ⟨"econf_error.c", "econf_errString", "buffer", 1024⟩, ⟨"econftool.c", "", "conf_basename", 4096⟩, ⟨"econftool.c", "", "conf_dir", 4096⟩, ⟨"econftool.c", "", "conf_filename", 4096⟩, ⟨"econftool.c", "", "conf_path", 4096⟩, ⟨"econftool.c", "", "root_dir", 4096⟩, ⟨"econftool.c", "", "usr_root_dir", 4096⟩, ⟨"econftool.c", "econf_edit", "input", 3⟩, ⟨"econftool.c", "econf_edit_editor", "path_tmpfile_edit", 4096⟩, ⟨"econftool.c", "econf_edit_editor", "tmp_name", 4096⟩, ⟨"econftool.c", "econf_edit_editor", "tmpfile_edit", 4096⟩, ⟨"econftool.c", "econf_revert", "input", 3⟩, ⟨"econftool.c", "generate_tmp_file", "tmp_filename", 22⟩, ⟨"econftool.c", "main", "home_dir", 4096⟩, ⟨"econftool.c", "main", "longopts", 7⟩, ⟨"getfilecontents.c", "", "last_scanned_filename", 4096⟩, ⟨"helpers.c", "get_absolute_path", "buffer", 4096⟩, ⟨"libeconf.c", "econf_readConfigWithCallback", "etc_dir", 4096⟩, ⟨"libeconf.c", "econf_readConfigWithCallback", "run_dir", 4096⟩, ⟨"libeconf.c", "econf_readConfigWithCallback", "usr_dir", 4096⟩]

structure ArrayWrite where
  file : String
  func : String
  target : String
  call : String
  bounded : Bool
  deriving DecidableEq, Repr

/-- calls that write into a fixed-size array (first argument) -/
def arrayWrites : List ArrayWrite := [⟨"econf_error.c", "econf_errString", "buffer", "snprintf", true⟩, ⟨"econftool.c", "econf_edit", "input", "strcpy", false⟩, ⟨"econftool.c", "econf_edit_editor", "path_tmpfile_edit", "snprintf", true⟩, ⟨"econftool.c", "econf_edit_editor", "tmpfile_edit", "snprintf", true⟩, ⟨"econftool.c", "econf_revert", "conf_path", "snprintf", true⟩, ⟨"econftool.c", "econf_revert", "conf_path", "snprintf", true⟩, ⟨"econftool.c", "econf_revert", "input", "strcpy", false⟩, ⟨"econftool.c", "main", "conf_basename", "snprintf", true⟩, ⟨"econftool.c", "main", "conf_dir", "snprintf", true⟩, ⟨"econftool.c", "main", "conf_dir", "snprintf", true⟩, ⟨"econftool.c", "main", "conf_dir", "snprintf", true⟩, ⟨"econftool.c", "main", "conf_filename", "snprintf", true⟩, ⟨"econftool.c", "main", "conf_filename", "snprintf", true⟩, ⟨"econftool.c", "main", "conf_path", "snprintf", true⟩, ⟨"econftool.c", "main", "conf_path", "snprintf", true⟩, ⟨"econftool.c", "main", "conf_path", "snprintf", true⟩, ⟨"econftool.c", "main", "home_dir", "snprintf", true⟩, ⟨"econftool.c", "main", "home_dir", "strcpy", false⟩, ⟨"getfilecontents.c", "read_file", "last_scanned_filename", "snprintf", true⟩, ⟨"libeconf.c", "econf_readConfigWithCallback", "etc_dir", "snprintf", true⟩, ⟨"libeconf.c", "econf_readConfigWithCallback", "etc_dir", "snprintf", true⟩, ⟨"libeconf.c", "econf_readConfigWithCallback", "etc_dir", "snprintf", true⟩, ⟨"libeconf.c", "econf_readConfigWithCallback", "etc_dir", "snprintf", true⟩, ⟨"libeconf.c", "econf_readConfigWithCallback", "run_dir", "snprintf", true⟩, ⟨"libeconf.c", "econf_readConfigWithCallback", "run_dir", "snprintf", true⟩, ⟨"libeconf.c", "econf_readConfigWithCallback", "run_dir", "snprintf", true⟩, ⟨"libeconf.c", "econf_readConfigWithCallback", "run_dir", "snprintf", true⟩, ⟨"libeconf.c", "econf_readConfigWithCallback", "usr_dir", "snprintf", true⟩, ⟨"libeconf.c", "econf_readConfigWithCallback", "usr_dir", "snprintf", true⟩, ⟨"libeconf.c", "econf_readConfigWithCallback", "usr_dir", "snprintf", true⟩, ⟨"libeconf.c", "econf_readConfigWithCallback", "usr_dir", "snprintf", true⟩]

/-- string macros (`#define NAME "text"`) of lib/, as bytes -/
def stringMacros : List (String × List UInt8) := [("CONFIG_DIRS", [0x43, 0x4f, 0x4e, 0x46, 0x49, 0x47, 0x5f, 0x44, 0x49, 0x52, 0x53, 0x3d]), ("DEFAULT_ETC_SUBDIR", [0x2f, 0x65, 0x74, 0x63]), ("DEFAULT_RUN_SUBDIR", [0x2f, 0x72, 0x75, 0x6e]), ("KEY_FILE_NULL_VALUE", [0x5f, 0x6e, 0x6f, 0x6e, 0x65, 0x5f]), ("PARSING_DIRS", [0x50, 0x41, 0x52, 0x53, 0x49, 0x4e, 0x47, 0x5f, 0x44, 0x49, 0x52, 0x53, 0x3d]), ("ROOT_PREFIX", [0x52, 0x4f, 0x4f, 0x54, 0x5f, 0x50, 0x52, 0x45, 0x46, 0x49, 0x58, 0x3d])]

/-- error constants referenced per function (file, function, constants) -/
def errRefs : List (String × String × List String) := [("get_value_def.c", "econf_getBoolValueDef", ["ECONF_ERROR", "ECONF_NOKEY"]), ("get_value_def.c", "econf_getDoubleValueDef", ["ECONF_ERROR", "ECONF_NOKEY"]), ("get_value_def.c", "econf_getFloatValueDef", ["ECONF_ERROR", "ECONF_NOKEY"]), ("get_value_def.c", "econf_getInt64ValueDef", ["ECONF_ERROR", "ECONF_NOKEY"]), ("get_value_def.c", "econf_getIntValueDef", ["ECONF_ERROR", "ECONF_NOKEY"]), ("get_value_def.c", "econf_getStringValueDef", ["ECONF_ERROR", "ECONF_NOKEY"]), ("get_value_def.c", "econf_getUInt64ValueDef", ["ECONF_ERROR", "ECONF_NOKEY"]), ("get_value_def.c", "econf_getUIntValueDef", ["ECONF_ERROR", "ECONF_NOKEY"]), ("getfilecontents.c", "join_same_entries", ["ECONF_NOMEM", "ECONF_SUCCESS"]), ("getfilecontents.c", "read_file", ["ECONF_EMPTY_SECTION_NAME", "ECONF_MISSING_BRACKET", "ECONF_MISSING_DELIMITER", "ECONF_NOFILE", "ECONF_NOMEM", "ECONF_SUCCESS", "ECONF_TEXT_AFTER_SECTION"]), ("getfilecontents.c", "read_file_with_callback", ["ECONF_ERROR", "ECONF_ERROR_FILE_IS_SYM_LINK", "ECONF_NOFILE", "ECONF_PARSING_CALLBACK_FAILED", "ECONF_SUCCESS", "ECONF_WRONG_DIR_PERMISSION", "ECONF_WRONG_FILE_PERMISSION", "ECONF_WRONG_GROUP", "ECONF_WRONG_OWNER"]), ("getfilecontents.c", "store", ["ECONF_MISSING_DELIMITER", "ECONF_NOMEM", "ECONF_SUCCESS"]), ("helpers.c", "find_key", ["ECONF_ERROR", "ECONF_NOKEY", "ECONF_NOMEM", "ECONF_SUCCESS"]), ("helpers.c", "get_absolute_path", ["ECONF_NOFILE", "ECONF_NOMEM"]), ("helpers.c", "new_key", ["ECONF_ERROR", "ECONF_NOMEM"]), ("helpers.c", "setKeyValue", ["ECONF_NOKEY"]), ("keyfile.c", "getBoolValueNum", ["ECONF_KEY_HAS_NULL_VALUE", "ECONF_NOMEM", "ECONF_PARSE_ERROR", "ECONF_SUCCESS"]), ("keyfile.c", "getCommentsNum", ["ECONF_SUCCESS"]), ("keyfile.c", "getDoubleValueNum", ["ECONF_KEY_HAS_NULL_VALUE", "ECONF_SUCCESS", "ECONF_VALUE_CONVERSION_ERROR"]), ("keyfile.c", "getFloatValueNum", ["ECONF_KEY_HAS_NULL_VALUE", "ECONF_SUCCESS", "ECONF_VALUE_CONVERSION_ERROR"]), ("keyfile.c", "getInt64ValueNum", ["ECONF_KEY_HAS_NULL_VALUE", "ECONF_SUCCESS", "ECONF_VALUE_CONVERSION_ERROR"]), ("keyfile.c", "getIntValueNum", ["ECONF_KEY_HAS_NULL_VALUE", "ECONF_SUCCESS", "ECONF_VALUE_CONVERSION_ERROR"]), ("keyfile.c", "getLineNrNum", ["ECONF_SUCCESS"]), ("keyfile.c", "getPath", ["ECONF_SUCCESS"]), ("keyfile.c", "getStringValueNum", ["ECONF_NOMEM", "ECONF_SUCCESS"]), ("keyfile.c", "getUInt64ValueNum", ["ECONF_KEY_HAS_NULL_VALUE", "ECONF_SUCCESS", "ECONF_VALUE_CONVERSION_ERROR"]), ("keyfile.c", "getUIntValueNum", ["ECONF_KEY_HAS_NULL_VALUE", "ECONF_SUCCESS", "ECONF_VALUE_CONVERSION_ERROR"]), ("keyfile.c", "key_file_append", ["ECONF_ERROR", "ECONF_NOMEM", "ECONF_SUCCESS"]), ("keyfile.c", "setBoolValueNum", ["ECONF_NOMEM", "ECONF_SUCCESS", "ECONF_WRONG_BOOLEAN_VALUE"]), ("keyfile.c", "setDoubleValueNum", ["ECONF_NOMEM", "ECONF_SUCCESS"]), ("keyfile.c", "setFloatValueNum", ["ECONF_NOMEM", "ECONF_SUCCESS"]), ("keyfile.c", "setGroup", ["ECONF_ERROR", "ECONF_NOMEM", "ECONF_SUCCESS"]), ("keyfile.c", "setInt64ValueNum", ["ECONF_NOMEM", "ECONF_SUCCESS"]), ("keyfile.c", "setIntValueNum", ["ECONF_NOMEM", "ECONF_SUCCESS"]), ("keyfile.c", "setKey", ["ECONF_ERROR", "ECONF_NOMEM", "ECONF_SUCCESS"]), ("keyfile.c", "setStringValueNum", ["ECONF_NOMEM", "ECONF_SUCCESS"]), ("keyfile.c", "setUInt64ValueNum", ["ECONF_NOMEM", "ECONF_SUCCESS"]), ("keyfile.c", "setUIntValueNum", ["ECONF_NOMEM", "ECONF_SUCCESS"]), ("libeconf.c", "econf_getBoolValue", ["ECONF_ARGUMENT_IS_NULL_VALUE", "ECONF_ERROR"]), ("libeconf.c", "econf_getDoubleValue", ["ECONF_ARGUMENT_IS_NULL_VALUE", "ECONF_ERROR"]), ("libeconf.c", "econf_getFloatValue", ["ECONF_ARGUMENT_IS_NULL_VALUE", "ECONF_ERROR"]), ("libeconf.c", "econf_getGroups", ["ECONF_ERROR", "ECONF_NOGROUP", "ECONF_NOMEM", "ECONF_SUCCESS"]), ("libeconf.c", "econf_getInt64Value", ["ECONF_ARGUMENT_IS_NULL_VALUE", "ECONF_ERROR"]), ("libeconf.c", "econf_getIntValue", ["ECONF_ARGUMENT_IS_NULL_VALUE", "ECONF_ERROR"]), ("libeconf.c", "econf_getKeys", ["ECONF_ERROR", "ECONF_NOKEY", "ECONF_NOMEM", "ECONF_SUCCESS"]), ("libeconf.c", "econf_getStringValue", ["ECONF_ARGUMENT_IS_NULL_VALUE", "ECONF_ERROR"]), ("libeconf.c", "econf_getUInt64Value", ["ECONF_ARGUMENT_IS_NULL_VALUE", "ECONF_ERROR"]), ("libeconf.c", "econf_getUIntValue", ["ECONF_ARGUMENT_IS_NULL_VALUE", "ECONF_ERROR"]), ("libeconf.c", "econf_mergeFiles", ["ECONF_ERROR", "ECONF_NOMEM", "ECONF_SUCCESS"]), ("libeconf.c", "econf_newKeyFile", ["ECONF_NOMEM", "ECONF_SUCCESS"]), ("libeconf.c", "econf_newKeyFile_with_options", ["ECONF_NOMEM", "ECONF_OPTION_NOT_FOUND", "ECONF_SUCCESS"]), ("libeconf.c", "econf_readConfigWithCallback", ["ECONF_SUCCESS"]), ("libeconf.c", "econf_readDirs", ["ECONF_SUCCESS"]), ("libeconf.c", "econf_readDirsWithCallback", ["ECONF_SUCCESS"]), ("libeconf.c", "econf_readFileWithCallback", ["ECONF_SUCCESS"]), ("libeconf.c", "econf_setBoolValue", ["ECONF_EMPTYKEY", "ECONF_FILE_LIST_IS_NULL"]), ("libeconf.c", "econf_setDoubleValue", ["ECONF_EMPTYKEY", "ECONF_FILE_LIST_IS_NULL"]), ("libeconf.c", "econf_setFloatValue", ["ECONF_EMPTYKEY", "ECONF_FILE_LIST_IS_NULL"]), ("libeconf.c", "econf_setInt64Value", ["ECONF_EMPTYKEY", "ECONF_FILE_LIST_IS_NULL"]), ("libeconf.c", "econf_setIntValue", ["ECONF_EMPTYKEY", "ECONF_FILE_LIST_IS_NULL"]), ("libeconf.c", "econf_setStringValue", ["ECONF_EMPTYKEY", "ECONF_FILE_LIST_IS_NULL"]), ("libeconf.c", "econf_setUInt64Value", ["ECONF_EMPTYKEY", "ECONF_FILE_LIST_IS_NULL"]), ("libeconf.c", "econf_setUIntValue", ["ECONF_EMPTYKEY", "ECONF_FILE_LIST_IS_NULL"]), ("libeconf.c", "econf_set_conf_dirs", ["ECONF_NOMEM", "ECONF_SUCCESS"]), ("libeconf.c", "econf_writeFile", ["ECONF_ERROR", "ECONF_NOFILE", "ECONF_NOMEM", "ECONF_SUCCESS", "ECONF_WRITEERROR"]), ("libeconf_ext.c", "econf_getExtValue", ["ECONF_ERROR", "ECONF_NOMEM", "ECONF_SUCCESS"]), ("mergefiles.c", "check_conf_dir", ["ECONF_SUCCESS"]), ("mergefiles.c", "merge_econf_files", ["ECONF_ERROR", "ECONF_SUCCESS"]), ("mergefiles.c", "traverse_conf_dirs", ["ECONF_NOFILE", "ECONF_NOMEM", "ECONF_SUCCESS"]), ("readconfig.c", "readConfigHistoryWithCallback", ["ECONF_ARGUMENT_IS_NULL_VALUE", "ECONF_ERROR", "ECONF_NOFILE", "ECONF_NOMEM", "ECONF_SUCCESS"]), ("readconfig.c", "readConfigWithCallback", ["ECONF_ARGUMENT_IS_NULL_VALUE", "ECONF_SUCCESS"])]

/-- string literals compared with strcmp/strncmp per function, as bytes -/
def cmpStrings : List (String × String × List (List UInt8)) := [("getfilecontents.c", "read_file", [[0x0a]]), ("keyfile.c", "getBoolValueNum", [[0x30], [0x31], [0x5f, 0x6e, 0x6f, 0x6e, 0x65, 0x5f], [0x66, 0x61, 0x6c, 0x73, 0x65], [0x6e, 0x6f], [0x74, 0x72, 0x75, 0x65], [0x79, 0x65, 0x73]]), ("keyfile.c", "setBoolValueNum", [[0x30], [0x31], [0x5f, 0x6e, 0x6f, 0x6e, 0x65, 0x5f], [0x66, 0x61, 0x6c, 0x73, 0x65], [0x6e, 0x6f], [0x74, 0x72, 0x75, 0x65], [0x79, 0x65, 0x73]]), ("libeconf.c", "econf_getGroups", [[0x5f, 0x6e, 0x6f, 0x6e, 0x65, 0x5f]]), ("libeconf.c", "econf_newKeyFile_with_options", [[0x43, 0x4f, 0x4e, 0x46, 0x49, 0x47, 0x5f, 0x44, 0x49, 0x52, 0x53, 0x3d], [0x4a, 0x4f, 0x49, 0x4e, 0x5f, 0x53, 0x41, 0x4d, 0x45, 0x5f, 0x45, 0x4e, 0x54, 0x52, 0x49, 0x45, 0x53, 0x3d, 0x31], [0x50, 0x41, 0x52, 0x53, 0x49, 0x4e, 0x47, 0x5f, 0x44, 0x49, 0x52, 0x53, 0x3d], [0x50, 0x59, 0x54, 0x48, 0x4f, 0x4e, 0x5f, 0x53, 0x54, 0x59, 0x4c, 0x45, 0x3d, 0x31], [0x52, 0x4f, 0x4f, 0x54, 0x5f, 0x50, 0x52, 0x45, 0x46, 0x49, 0x58, 0x3d]]), ("libeconf.c", "econf_writeFile", [[0x5f, 0x6e, 0x6f, 0x6e, 0x65, 0x5f]]), ("mergefiles.c", "add_new_groups", [[0x5f, 0x6e, 0x6f, 0x6e, 0x65, 0x5f]]), ("mergefiles.c", "insert_nogroup", [[0x5f, 0x6e, 0x6f, 0x6e, 0x65, 0x5f]]), ("mergefiles.c", "merge_econf_files", [[0x2e], [0x2e, 0x2e]])]

end Generated
