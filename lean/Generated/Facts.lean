/- GENERATED on every run by gen/extract_facts.py from /repo (clang-14 JSON AST). Do not edit. -/
namespace Generated

structure StaticObj where
  name : String
  file : String
  isConst : Bool
  threadLocal : Bool
  written : Bool
  deriving DecidableEq, Repr

def statics : List StaticObj := [
  ⟨"econf_errString.buffer", "econf_error.c", false, true, true⟩,
  ⟨"messages", "econf_error.c", true, false, true⟩,
  ⟨"allow_follow_symlinks", "getfilecontents.c", false, false, true⟩,
  ⟨"file_group", "getfilecontents.c", false, false, true⟩,
  ⟨"file_group_set", "getfilecontents.c", false, false, true⟩,
  ⟨"file_owner", "getfilecontents.c", false, false, true⟩,
  ⟨"file_owner_set", "getfilecontents.c", false, false, true⟩,
  ⟨"file_permissions_set", "getfilecontents.c", false, false, true⟩,
  ⟨"file_perms_dir", "getfilecontents.c", false, false, true⟩,
  ⟨"file_perms_file", "getfilecontents.c", false, false, true⟩,
  ⟨"last_scanned_filename", "getfilecontents.c", false, false, true⟩,
  ⟨"last_scanned_line_nr", "getfilecontents.c", false, false, true⟩,
  ⟨"conf_count", "libeconf.c", false, false, true⟩,
  ⟨"conf_dirs", "libeconf.c", false, false, true⟩]

def errEnum : List (String × Nat) := [("ECONF_SUCCESS", 0), ("ECONF_ERROR", 1), ("ECONF_NOMEM", 2), ("ECONF_NOFILE", 3), ("ECONF_NOGROUP", 4), ("ECONF_NOKEY", 5), ("ECONF_EMPTYKEY", 6), ("ECONF_WRITEERROR", 7), ("ECONF_PARSE_ERROR", 8), ("ECONF_MISSING_BRACKET", 9), ("ECONF_MISSING_DELIMITER", 10), ("ECONF_EMPTY_SECTION_NAME", 11), ("ECONF_TEXT_AFTER_SECTION", 12), ("ECONF_FILE_LIST_IS_NULL", 13), ("ECONF_WRONG_BOOLEAN_VALUE", 14), ("ECONF_KEY_HAS_NULL_VALUE", 15), ("ECONF_WRONG_OWNER", 16), ("ECONF_WRONG_GROUP", 17), ("ECONF_WRONG_FILE_PERMISSION", 18), ("ECONF_WRONG_DIR_PERMISSION", 19), ("ECONF_ERROR_FILE_IS_SYM_LINK", 20), ("ECONF_PARSING_CALLBACK_FAILED", 21), ("ECONF_ARGUMENT_IS_NULL_VALUE", 22), ("ECONF_OPTION_NOT_FOUND", 23), ("ECONF_VALUE_CONVERSION_ERROR", 24)]

def errMessages : List String := ["Success", "Unknown error", "Out of memory", "Configuration file not found", "Group not found", "Key not found", "Key is NULL or has empty value", "Error creating or writing to a file", "Parse error", "Missing bracket", "Missing delimiter", "Empty section name", "Text after section", "Conf file list is NULL", "Wrong boolean value (1/0 true/false yes/no)", "Given key has NULL value", "File has wrong owner", "File has wrong group", "File has wrong file permissions", "File has wrong dir permissions", "File is a sym link which is not permitted", "User defined parsing callback has failed", "Given argument is NULL", "Given option not found", "Value cannot be converted"]

structure SetterFmt where
  func : String
  format : String
  precision : Option Nat
  deriving DecidableEq, Repr

def setterFormats : List SetterFmt := [⟨"setDoubleValueNum", "%.*g", some 17⟩, ⟨"setFloatValueNum", "%.*g", some 9⟩, ⟨"setInt64ValueNum", "%ld", none⟩, ⟨"setIntValueNum", "%d", none⟩, ⟨"setUInt64ValueNum", "%lu", none⟩, ⟨"setUIntValueNum", "%u", none⟩]

structure GetterConv where
  func : String
  conv : String
  base : Option Nat
  deriving DecidableEq, Repr

def getterConversions : List GetterConv := [⟨"getDoubleValueNum", "strtod", none⟩, ⟨"getFloatValueNum", "strtof", none⟩, ⟨"getInt64ValueNum", "strtoll", some 0⟩, ⟨"getIntValueNum", "strtol", some 0⟩, ⟨"getUInt64ValueNum", "strtoull", some 0⟩, ⟨"getUIntValueNum", "strtoul", some 0⟩]

structure FixedArray where
  file : String
  func : String
  name : String
  size : Nat
  deriving DecidableEq, Repr

def fixedArrays : List FixedArray := [⟨"econf_error.c", "", "messages", 25⟩, ⟨"econf_error.c", "econf_errString", "buffer", 1024⟩, ⟨"econftool.c", "", "conf_basename", 4096⟩, ⟨"econftool.c", "", "conf_dir", 4096⟩, ⟨"econftool.c", "", "conf_filename", 4096⟩, ⟨"econftool.c", "", "conf_path", 4096⟩, ⟨"econftool.c", "", "root_dir", 4096⟩, ⟨"econftool.c", "", "usr_root_dir", 4096⟩, ⟨"econftool.c", "econf_edit", "input", 3⟩, ⟨"econftool.c", "econf_edit_editor", "path_tmpfile_edit", 4096⟩, ⟨"econftool.c", "econf_edit_editor", "tmp_name", 4096⟩, ⟨"econftool.c", "econf_edit_editor", "tmpfile_edit", 4096⟩, ⟨"econftool.c", "econf_revert", "input", 3⟩, ⟨"econftool.c", "generate_tmp_file", "tmp_filename", 22⟩, ⟨"econftool.c", "main", "home_dir", 4096⟩, ⟨"econftool.c", "main", "longopts", 7⟩, ⟨"getfilecontents.c", "", "last_scanned_filename", 4096⟩, ⟨"helpers.c", "get_absolute_path", "buffer", 4096⟩, ⟨"libeconf.c", "econf_readConfigWithCallback", "etc_dir", 4096⟩, ⟨"libeconf.c", "econf_readConfigWithCallback", "run_dir", 4096⟩, ⟨"libeconf.c", "econf_readConfigWithCallback", "usr_dir", 4096⟩]

structure ArrayWrite where
  file : String
  func : String
  target : String
  call : String
  bounded : Bool
  deriving DecidableEq, Repr

/-- calls that write into a fixed-size array (first argument) -/
def arrayWrites : List ArrayWrite := [⟨"econf_error.c", "econf_errString", "buffer", "snprintf", true⟩, ⟨"econftool.c", "econf_edit", "input", "strcpy", false⟩, ⟨"econftool.c", "econf_edit_editor", "path_tmpfile_edit", "snprintf", true⟩, ⟨"econftool.c", "econf_edit_editor", "tmpfile_edit", "snprintf", true⟩, ⟨"econftool.c", "econf_revert", "conf_path", "snprintf", true⟩, ⟨"econftool.c", "econf_revert", "conf_path", "snprintf", true⟩, ⟨"econftool.c", "econf_revert", "input", "strcpy", false⟩, ⟨"econftool.c", "main", "conf_basename", "snprintf", true⟩, ⟨"econftool.c", "main", "conf_dir", "snprintf", true⟩, ⟨"econftool.c", "main", "conf_dir", "snprintf", true⟩, ⟨"econftool.c", "main", "conf_dir", "snprintf", true⟩, ⟨"econftool.c", "main", "conf_filename", "snprintf", true⟩, ⟨"econftool.c", "main", "conf_filename", "snprintf", true⟩, ⟨"econftool.c", "main", "conf_path", "snprintf", true⟩, ⟨"econftool.c", "main", "conf_path", "snprintf", true⟩, ⟨"econftool.c", "main", "conf_path", "snprintf", true⟩, ⟨"econftool.c", "main", "home_dir", "snprintf", true⟩, ⟨"econftool.c", "main", "home_dir", "strcpy", false⟩, ⟨"getfilecontents.c", "read_file", "last_scanned_filename", "snprintf", true⟩, ⟨"libeconf.c", "econf_readConfigWithCallback", "etc_dir", "snprintf", true⟩, ⟨"libeconf.c", "econf_readConfigWithCallback", "etc_dir", "snprintf", true⟩, ⟨"libeconf.c", "econf_readConfigWithCallback", "etc_dir", "snprintf", true⟩, ⟨"libeconf.c", "econf_readConfigWithCallback", "etc_dir", "snprintf", true⟩, ⟨"libeconf.c", "econf_readConfigWithCallback", "run_dir", "snprintf", true⟩, ⟨"libeconf.c", "econf_readConfigWithCallback", "run_dir", "snprintf", true⟩, ⟨"libeconf.c", "econf_readConfigWithCallback", "run_dir", "snprintf", true⟩, ⟨"libeconf.c", "econf_readConfigWithCallback", "run_dir", "snprintf", true⟩, ⟨"libeconf.c", "econf_readConfigWithCallback", "usr_dir", "snprintf", true⟩, ⟨"libeconf.c", "econf_readConfigWithCallback", "usr_dir", "snprintf", true⟩, ⟨"libeconf.c", "econf_readConfigWithCallback", "usr_dir", "snprintf", true⟩, ⟨"libeconf.c", "econf_readConfigWithCallback", "usr_dir", "snprintf", true⟩]

end Generated
