import Econf.Types

/-!
  Abstract file system the layered-read model runs on: what `lstat`, `fopen`+`getline`,
  `scandir(…, alphasort)` and `realpath` return for the trees the scenarios build.
  Assumptions (trusted base): directory order is byte order (C collation); `fopen("r")` of a
  directory succeeds and reads as empty; one level of symbolic link to a file.
-/

namespace Econf

inductive Node where
  | file (content : Str) (uid gid : Nat)
  | dir
  | link (target : Str) (uid gid : Nat)
  deriving Repr, DecidableEq

/-- Paths are stored normalised: list of components. -/
structure FS where
  nodes : List (List Str × Node) := []
  cwd : List Str := []
  deriving Repr

def splitPath (p : Str) : List Str := (splitOn SLASH p).filter (fun c => !c.isEmpty)

/-- lexical normalisation (the scenarios never put `..` behind a symbolic link) -/
def normComps : List Str → List Str → List Str
  | acc, [] => acc
  | acc, c :: cs =>
    if c == [DOT] then normComps acc cs
    else if c == [DOT, DOT] then normComps acc.dropLast cs
    else normComps (acc ++ [c]) cs

def FS.resolve (fs : FS) (p : Str) : List Str :=
  if p.head? == some SLASH then normComps [] (splitPath p) else normComps fs.cwd (splitPath p)

def FS.lookup (fs : FS) (c : List Str) : Option Node :=
  if c.isEmpty then some .dir else (fs.nodes.find? (fun n => n.1 == c)).map (·.2)

/-- all proper ancestors are directories -/
def FS.parentsOk (fs : FS) (c : List Str) : Bool :=
  (List.range c.length).all (fun i => fs.lookup (c.take i) == some .dir)

/-- `lstat`: the node itself (a final symbolic link is not followed) -/
def FS.lstat (fs : FS) (p : Str) : Option Node :=
  if p.isEmpty then none else
  let c := fs.resolve p
  if fs.parentsOk c then fs.lookup c else none

/-- path of a component list -/
def pathOf (c : List Str) : Str := if c.isEmpty then [SLASH] else (c.map (fun x => SLASH :: x)).flatten

/-- target of a link, as component list -/
def FS.linkTarget (linkAt : List Str) (target : Str) : List Str :=
  if target.head? == some SLASH then normComps [] (splitPath target)
  else normComps linkAt.dropLast (splitPath target)

/-- `fopen(path, "r")` + reading everything: `none` when it cannot be opened -/
def FS.read (fs : FS) (p : Str) : Option Str :=
  match fs.lstat p with
  | none => none
  | some (.file c _ _) => some c
  | some .dir => some []
  | some (.link t _ _) =>
    let tc := FS.linkTarget (fs.resolve p) t
    if !fs.parentsOk tc then none else
    match fs.lookup tc with
    | some (.file c _ _) => some c
    | some .dir => some []
    | _ => none

/-- `realpath`: `none` when the file does not exist -/
def FS.realpath (fs : FS) (p : Str) : Option Str :=
  match fs.lstat p with
  | none => none
  | some (.link t _ _) =>
    let tc := FS.linkTarget (fs.resolve p) t
    if fs.parentsOk tc && (fs.lookup tc).isSome then some (pathOf tc) else none
  | some _ => some (pathOf (fs.resolve p))

/-- byte-wise order (`strcmp`) -/
def strLt : Str → Str → Bool
  | [], [] => false
  | [], _ :: _ => true
  | _ :: _, [] => false
  | a :: as, b :: bs => if a < b then true else if b < a then false else strLt as bs

def insertSorted (x : Str) : List Str → List Str
  | [] => [x]
  | y :: ys => if strLt x y then x :: y :: ys else y :: insertSorted x ys

def sortNames (l : List Str) : List Str := l.foldr insertSorted []

/-- `scandir(path, alphasort)`: `.` and `..` included; `none` when not a directory -/
def FS.scandir (fs : FS) (p : Str) : Option (List Str) :=
  match fs.lstat p with
  | some .dir =>
    let c := fs.resolve p
    let kids := fs.nodes.filterMap (fun n =>
      if n.1.length == c.length + 1 && n.1.take c.length == c then n.1.getLast? else none)
    some (sortNames ([DOT] :: [DOT, DOT] :: kids))
  | _ => none

/-- add a node, creating the parent directories; an existing node at the path is replaced -/
def FS.add (fs : FS) (p : Str) (n : Node) : FS :=
  let c := fs.resolve p
  let parents := (List.range c.length).filterMap (fun i =>
    if i == 0 then none else
    let q := c.take i
    if (fs.nodes.find? (fun m => m.1 == q)).isSome then none else some (q, Node.dir))
  { fs with nodes := (fs.nodes.filter (fun m => m.1 != c)) ++ parents ++ [(c, n)] }

def FS.remove (fs : FS) (p : Str) : FS :=
  let c := fs.resolve p
  { fs with nodes := fs.nodes.filter (fun m => m.1 != c) }

end Econf
