import Econf.Types

/-!
  High (list level) model of `read_file`, `store` and `join_same_entries`
  (lib/getfilecontents.c), faithful on *all* inputs.  Appendix A of DESIGN.md is the
  reconstruction it transcribes (with the repairs of section 6 applied to the code).

  Every C pointer walk is a list function here; a NUL written into the line buffer is a
  `take`.  The functions are total by structural recursion.
-/

namespace Econf

/-- Parser state between two physical lines. -/
structure PState where
  entries : List Entry := []
  groups : List Str := []
  curGroup : Option Str := none
  cb : Option Str := none       -- pending comment lines before the next key
  ca : Option Str := none       -- pending trailing comments
  line : Nat := 0
  deriving DecidableEq, Repr, Inhabited

def hasWsp (delim : Str) : Bool := delim.any isSpace
def hasNonWsp (delim : Str) : Bool := delim.any (fun c => !isSpace c)
def mixedDelim (delim : Str) : Bool := hasWsp delim && hasNonWsp delim
/-- no delimiter defined: keys only -/
def noDelim (delim : Str) : Bool := delim.isEmpty || delim == [NL]

/-- `cur ? cur ++ "\n" ++ t : t` – how pending comments are accumulated. -/
def appendComment (cur : Option Str) (t : Str) : Option Str :=
  match cur with
  | none => some t
  | some c => some (nlCat c t)

/-- The key as `store` keeps it: trailing blanks removed, but never the first byte. -/
def trimKey : Str → Str
  | [] => []
  | c :: cs => c :: dropLastWhile isSpace cs

/-- `store(..., append_entry = false)`. -/
def storeNew (st : PState) (key : Str) (value : Option Str) (quotes : Bool) : PState :=
  let g := st.curGroup.getD NONE
  { st with
    entries := st.entries ++ [{ group := g, key := trimKey key, value := value,
                                cb := st.cb, ca := st.ca, line := st.line, quotes := quotes }]
    groups := addGroup st.groups g
    cb := none, ca := none }

/-- How `store(..., append_entry = true)` changes the last entry. -/
def appendToEntry (python : Bool) (e : Entry) (v : Str) (ca : Option Str) (line : Nat) : Entry :=
  let v := if python then v.dropWhile isSpace else v
  let ca := if e.ca.isSome && ca.isNone then some [] else ca
  { e with
    value := some (nlCat (e.value.getD []) v)
    line := line
    ca := match ca with
      | none => e.ca
      | some c => match e.ca with
        | some x => some (nlCat x c)
        | none => some (NL :: c) }

/-- `store(..., append_entry = true)`; the caller has checked that an entry exists. -/
def storeAppend (python : Bool) (st : PState) (v : Str) : PState :=
  match st.entries.getLast? with
  | none => st
  | some e =>
    { st with
      entries := st.entries.dropLast ++ [appendToEntry python e v st.ca st.line]
      cb := none, ca := none }

/-- One comment character of the trailing-comment scan: `name` is the current (already
    possibly shortened) line from its first non-blank byte on.  Returns the shortened line
    and the updated pending trailing comment. -/
def scanOne (python : Bool) (c : Byte) (name : Str) (ca : Option Str) : Str × Option Str :=
  match lastIdx c name with
  | none => (name, ca)
  | some p =>
    if python then (name, ca)
    else
      match lastIdx QUOTE name with
      | none => (name.take p, appendComment ca (name.drop (p + 1)))
      | some lq =>
        if lq < p then (name.take p, appendComment ca (name.drop (p + 1)))
        else (name, ca)

def scanComments (python : Bool) (comment : Str) (name : Str) (ca : Option Str) : Str × Option Str :=
  comment.foldl (fun (acc : Str × Option Str) c => scanOne python c acc.1 acc.2) (name, ca)

/-- Section header line; `rest` is the text after `[`. -/
def parseSection (rest : Str) : Except Err Str :=
  let r := dropLastWhile isSpace rest
  match r.getLast? with
  | none => .error .missingBracket          -- the walk stopped on the `[` itself
  | some l =>
    if l != RBR then
      .error (if rest.contains RBR then .textAfterSection else .missingBracket)
    else
      let sect := r.dropLast
      if sect.isEmpty then .error .emptySectionName else .ok sect

/-- The value from the first byte of its spelling on: trailing blanks removed (the first byte is
    kept), one pair of outer quotes stripped when the closing quote exists. -/
def valueOf (d2 : Str) : Option Str × Bool :=
  match d2 with
  | [] => (some [], false)
  | c :: cs =>
    if c == QUOTE then
      -- `kept`: the text after the opening quote without trailing blanks (first byte kept)
      match cs with
      | [] => (some [QUOTE], true)
      | k :: ks =>
        let kept := k :: dropLastWhile isSpace ks
        if kept.getLast? == some QUOTE then (some kept.dropLast, true)
        else (some (QUOTE :: kept), true)
    else (some (c :: dropLastWhile isSpace cs), false)

/-- What follows the key and the byte after it, up to the first byte of the value: blanks, and the
    delimiter if the byte after the key was not one.  Errors: MISSING_DELIMITER. -/
def skipDelim (delim : Str) (delimSeen : Bool) (data : Str) : Except Err Str :=
  let d1 := data.dropWhile isSpace
  if !hasWsp delim && !delimSeen then
    match d1 with
    | [] => .error .missingDelimiter
    | c :: cs => if delim.contains c then .ok (cs.dropWhile isSpace) else .error .missingDelimiter
  else if mixedDelim delim && !delimSeen then
    match d1 with
    | [] => .ok d1
    | c :: cs => if delim.contains c then .ok (cs.dropWhile isSpace) else .ok d1
  else .ok d1

/-- The value text of a `key delimiter value` line; `data` is what follows the key and the
    byte after it.  `none` = no value at all (NULL).  Errors: MISSING_DELIMITER. -/
def parseValue (delim : Str) (delimSeen : Bool) (data : Str) : Except Err (Option Str × Bool) :=
  if data.isEmpty then .ok (none, false)
  else
    match skipDelim delim delimSeen data with
    | .error e => .error e
    | .ok d2 => .ok (valueOf d2)

/-- The original line as appended by a continuation: cut at the *first* occurrence of every
    comment character (not for python style), one trailing newline removed. -/
def contText (python : Bool) (comment : Str) (org : Str) : Str :=
  let o := if python then org else comment.foldl (fun o c => o.takeWhile (· != c)) org
  match o.getLast? with
  | some l => if l == NL then o.dropLast else o
  | none => o

/-- The line from its first non-blank byte on: cut at the first NUL (C string), one trailing
    newline removed, leading blanks skipped. -/
def lineBody (raw : Str) : Str :=
  let org := cstr raw
  let buf := match org.getLast? with
    | some l => if l == NL then org.dropLast else org
    | none => org
  buf.dropWhile isSpace

/-- Split `name` (no leading blanks, comments removed) at the end of the key: the key, whether the
    byte right after it is a delimiter ("delimiter seen"), and the text after that byte. -/
def splitKey (delim : Str) (name : Str) : Str × Bool × Str :=
  let isSep := fun (c : Byte) => isSpace c || delim.contains c
  let key := name.takeWhile (fun c => !isSep c)
  let rest := name.dropWhile (fun c => !isSep c)
  match key, rest with
  | _ :: _, d :: ds =>
    (key, (if mixedDelim delim then !isSpace d && delim.contains d else delim.contains d), ds)
  | _, _ => (key, false, rest)

/-- does the last entry end on the line before the current one (`st.line`)? -/
def lastEntryOnPrevLine (st : PState) : Bool :=
  match st.entries.getLast? with
  | some e => e.line + 1 == st.line
  | none => false

/-- Is the line a continuation of the previous entry?  (`st.line` is this line's number.) -/
def isContinuation (cfg : Cfg) (st : PState) (org : Str) (delimSeen : Bool) (data : Str) : Bool :=
  let orgIndented := match org with
    | o :: _ => isSpace o
    | [] => false
  let found :=
    if !cfg.python || !orgIndented then delimSeen || data.any cfg.delim.contains else false
  !mixedDelim cfg.delim && !found && lastEntryOnPrevLine st

/-- A `key delimiter value` line or a continuation line (delimiters are defined). -/
def parseEntry (cfg : Cfg) (st : PState) (org name : Str) : Except Err PState :=
  let (key, delimSeen, data) := splitKey cfg.delim name
  if isContinuation cfg st org delimSeen data then
    .ok (storeAppend cfg.python st (contText cfg.python cfg.comment org))
  else if key.isEmpty then .ok st            -- line starts with a delimiter
  else
    match parseValue cfg.delim delimSeen data with
    | .error e => .error e
    | .ok (v, q) => .ok (storeNew st key v q)

/-- The line after the comment scan: section header, key without value, or entry. -/
def parseContent (cfg : Cfg) (st : PState) (org name : Str) : Except Err PState :=
  match name with
  | [] => .ok st                               -- cannot happen: the first byte is kept
  | m0 :: mrest =>
    if m0 == LBR then
      match parseSection mrest with
      | .error e => .error e
      | .ok sect => .ok { st with curGroup := some sect, groups := addGroup st.groups sect }
    else if noDelim cfg.delim then
      .ok (storeNew st name none false)
    else parseEntry cfg st org name

/-- One physical line (`raw` includes its `\n`, if any). -/
def parseLine (cfg : Cfg) (st : PState) (raw : Str) : Except Err PState :=
  let org := cstr raw
  let st := { st with line := st.line + 1 }
  match lineBody raw with
  | [] => .ok st                                   -- empty line or blanks only
  | n0 :: nrest =>
    if cfg.comment.contains n0 then
      .ok { st with cb := appendComment st.cb nrest }   -- whole line is a comment
    else
      let (name, ca) := scanComments cfg.python cfg.comment (n0 :: nrest) st.ca
      parseContent cfg { st with ca := ca } org name

/-- Left fold over the lines, stopping at the first error; the state at the error is
    returned as well (its `line` is the number of the offending line). -/
def parseLines (cfg : Cfg) : PState → List Str → Except (Err × Nat) PState
  | st, [] => .ok st
  | st, l :: ls =>
    match parseLine cfg st l with
    | .error e => .error (e, st.line + 1)
    | .ok st' => parseLines cfg st' ls

/-! ### join_same_entries -/

/-- What entry `i` becomes when a later entry `j` has the same group and key. -/
def joinInto (ei ej : Entry) : Entry :=
  let jEmpty := match ej.value with
    | none => true
    | some v => v.isEmpty
  let value := if jEmpty then some [] else
    some (nlCat (ei.value.getD []) ((ej.value.getD []).dropWhile isSpace))
  let cb := match ej.cb with
    | some c => if c.isEmpty then ei.cb else
        (match ei.cb with
         | none => some c
         | some p => some (nlCat p c))
    | none => ei.cb
  let ca := if jEmpty then none else
    match ej.ca with
    | some c => if c.isEmpty then ei.ca else
        (match ei.ca with
         | none => some (c.dropWhile isSpace)
         | some p => some (nlCat p (c.dropWhile isSpace)))
    | none => ei.ca
  { ei with value := value, cb := cb, ca := ca }

/-- Inner loop: fold all later entries with the same (group, key) into `e`. -/
def joinOne (e : Entry) (later : List Entry) : Entry :=
  later.foldl (fun acc ej => if acc.group == ej.group && acc.key == ej.key then joinInto acc ej else acc) e

/-- Outer loop.  Entry `i` is joined with the *current* contents of the later entries, which
    are themselves rewritten when their turn comes; the later entries are not removed. -/
def joinSame : List Entry → List Entry
  | [] => []
  | e :: es => joinOne e es :: joinSame es

/-- `read_file` on the content of a file. -/
def parseBytes (cfg : Cfg) (content : Str) : Except (Err × Nat) PState :=
  let cfg := { cfg with comment := if cfg.comment.isEmpty then [0x23] /- "#" -/ else cfg.comment }
  match parseLines cfg {} (splitLines content) with
  | .error e => .error e
  | .ok st => .ok (if cfg.join then { st with entries := joinSame st.entries } else st)

/-- number of the last line scanned (for the error-location record) -/
def lineCount (content : Str) : Nat := (splitLines content).length

end Econf
