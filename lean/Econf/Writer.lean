import Econf.Types
import Econf.KeyFileOps

/-!
  `econf_writeFile` (bytes written), `econf_getExtValue`, option-string tokenizer.
-/

namespace Econf

/-- `addbrackets` -/
def addBrackets (g : Str) : Str :=
  if g.head? == some LBR && g.getLast? == some RBR then g else LBR :: g ++ [RBR]

/-- comment lines: every `\n`-separated piece as `<prefix><c><piece>\n` -/
def commentLines (pre : Str) (c : Byte) (text : Str) : Str :=
  ((splitOn NL text).map (fun l => pre ++ c :: l ++ [NL])).flatten

/-- one entry without its group header -/
def writeEntry (d c : Byte) (e : Entry) : Str :=
  (match e.cb with
   | some t => if t.isEmpty then [] else commentLines [] c t
   | none => []) ++
  e.key ++ [d] ++
  (match e.value with
   | some v => if e.quotes then QUOTE :: v ++ [QUOTE] else v
   | none => []) ++
  (match e.ca with
   | some t => if t.isEmpty then [] else commentLines [0x20] c t
   | none => []) ++
  [NL]

/-- entries in the order they are written, `prev` = group of the entry written before -/
def writeSeq (d c : Byte) : Option Str → List Entry → Str
  | _, [] => []
  | prev, e :: es =>
    (if prev == some e.group then []
     else (if prev.isSome then [NL] else []) ++
          (if e.group == NONE then [] else addBrackets e.group ++ [NL])) ++
    writeEntry d c e ++ writeSeq d c (some e.group) es

/-- the order of writing: group-less entries first -/
def writeOrder (es : List Entry) : List Entry :=
  es.filter (fun e => e.group == NONE) ++ es.filter (fun e => e.group != NONE)

def writeBytes (kf : KeyFile) : Str :=
  writeSeq kf.delim kf.comment none (writeOrder kf.entries)

/-! ### extended value -/

def trim (s : Str) : Str := dropLastWhile isSpace (s.dropWhile isSpace)

/-- `values` of `econf_getExtValue` -/
def extValues (v : Option Str) : List Str :=
  match v with
  | none => []
  | some v =>
    let t := trim v
    if t.head? == some QUOTE then [t]
    else (splitOn NL t).map trim

structure ExtValue where
  values : List Str
  file : Option Str
  line : Nat
  cb : Option Str
  ca : Option Str
  deriving Repr, DecidableEq

def getExt (kf : KeyFile) (g k : Option Str) : Except Err ExtValue :=
  match findKey kf (rawGroup g) k with
  | .error e => .error e
  | .ok i =>
    match kf.entries[i]? with
    | none => .error .nokey
    | some e => .ok { values := extValues e.value, file := kf.path, line := e.line, cb := e.cb, ca := e.ca }

/-! ### options -/

def optJoin : Str := [0x4a, 0x4f, 0x49, 0x4e, 0x5f, 0x53, 0x41, 0x4d, 0x45, 0x5f, 0x45, 0x4e, 0x54, 0x52, 0x49, 0x45, 0x53, 0x3d, 0x31] /- "JOIN_SAME_ENTRIES=1" -/
def optPython : Str := [0x50, 0x59, 0x54, 0x48, 0x4f, 0x4e, 0x5f, 0x53, 0x54, 0x59, 0x4c, 0x45, 0x3d, 0x31] /- "PYTHON_STYLE=1" -/
def optParsingDirs : Str := [0x50, 0x41, 0x52, 0x53, 0x49, 0x4e, 0x47, 0x5f, 0x44, 0x49, 0x52, 0x53, 0x3d] /- "PARSING_DIRS=" -/
def optConfigDirs : Str := [0x43, 0x4f, 0x4e, 0x46, 0x49, 0x47, 0x5f, 0x44, 0x49, 0x52, 0x53, 0x3d] /- "CONFIG_DIRS=" -/
def optRootPrefix : Str := [0x52, 0x4f, 0x4f, 0x54, 0x5f, 0x50, 0x52, 0x45, 0x46, 0x49, 0x58, 0x3d] /- "ROOT_PREFIX=" -/

/-- one `;`-separated item -/
def applyOption (kf : KeyFile) (o : Str) : Except Err KeyFile :=
  if o == optJoin then .ok { kf with join := true }
  else if o == optPython then .ok { kf with python := true }
  else if startsWith o optParsingDirs then
    .ok { kf with parseDirs := splitOn 0x3A (o.drop optParsingDirs.length) }
  else if startsWith o optConfigDirs then
    .ok { kf with confDirs := splitOn 0x3A (o.drop optConfigDirs.length) }
  else if startsWith o optRootPrefix then
    .ok { kf with rootPrefix := some (o.drop optRootPrefix.length) }
  else .error .optionNotFound

/-- the items are applied in order; the first unknown one stops the loop, the object keeps
    what the earlier items set (and is handed to the caller) -/
def applyOptions (kf : KeyFile) : List Str → KeyFile × Err
  | [] => (kf, .success)
  | o :: os =>
    match applyOption kf o with
    | .error e => (kf, e)
    | .ok kf' => applyOptions kf' os

/-- `econf_newKeyFile_with_options` -/
def newWithOptions (opts : Option Str) : KeyFile × Err :=
  match opts with
  | none => ({}, .success)
  | some o => if o.isEmpty then ({}, .success) else applyOptions {} (splitOn 0x3B o)

end Econf
