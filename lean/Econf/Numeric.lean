import Econf.Types

/-!
  Text <-> number conversion as used by the typed setters (`asprintf("%d")` ...) and getters
  (`strtol(value, &end, 0)` ... plus the getters' own range and sign checks).
  `strto*` are modelled on unbounded integers: ISO C semantics with base 0 (leading blanks,
  optional sign, `0x`/`0X` hexadecimal, leading `0` octal, else decimal; the longest valid
  prefix is converted; out-of-range results are reported through `ERANGE`).
-/

namespace Econf

/-! ### printing -/

def digitChar (d : Nat) : Byte := UInt8.ofNat (0x30 + d)

/-- decimal digits, most significant first; `fuel` bounds the recursion (n+1 suffices) -/
def toDigitsAux : Nat → Nat → List Byte → List Byte
  | 0, _, acc => acc
  | fuel + 1, n, acc =>
    if n < 10 then digitChar n :: acc
    else toDigitsAux fuel (n / 10) (digitChar (n % 10) :: acc)

/-- `printf("%u")` of a natural number -/
def showNat (n : Nat) : Str := toDigitsAux (n + 1) n []

/-- `printf("%d")` of an integer -/
def showInt (i : Int) : Str :=
  if i < 0 then 0x2D :: showNat i.natAbs else showNat i.natAbs

/-! ### parsing -/

def digitVal (c : Byte) : Option Nat :=
  if 0x30 ≤ c && c ≤ 0x39 then some (c.toNat - 0x30)
  else if 0x61 ≤ c && c ≤ 0x7A then some (c.toNat - 0x61 + 10)
  else if 0x41 ≤ c && c ≤ 0x5A then some (c.toNat - 0x41 + 10)
  else none

def digitIn (base : Nat) (c : Byte) : Option Nat :=
  match digitVal c with
  | some d => if d < base then some d else none
  | none => none

/-- Consume the longest run of digits of the base; returns (value, number of digits). -/
def readDigits (base : Nat) : Str → Nat → Nat → Nat × Nat
  | [], acc, n => (acc, n)
  | c :: cs, acc, n =>
    match digitIn base c with
    | some d => readDigits base cs (acc * base + d) (n + 1)
    | none => (acc, n)

/-- Result of the unbounded `strtol` core: sign, magnitude, whether any conversion was
    performed (`endptr != nptr`). -/
structure StrtoRes where
  neg : Bool
  mag : Nat
  converted : Bool
  deriving Repr, DecidableEq

def isX (c : Byte) : Bool := c == 0x78 || c == 0x58

/-- optional sign -/
def splitSign (s : Str) : Bool × Str :=
  match s with
  | c :: r => if c == 0x2D then (true, r) else if c == 0x2B then (false, r) else (false, s)
  | [] => (false, [])

/-- digits after the sign with base detection: (magnitude, was anything converted) -/
def strtoBody (s : Str) : Nat × Bool :=
  match s with
  | c :: r =>
    if c == 0x30 then
      -- a leading 0 is itself a digit, so a conversion is always performed
      match r with
      | x :: h :: r' =>
        if isX x && (digitIn 16 h).isSome then ((readDigits 16 (h :: r') 0 0).1, true)
        else ((readDigits 8 r 0 0).1, true)
      | _ => ((readDigits 8 r 0 0).1, true)
    else
      let (v, n) := readDigits 10 s 0 0
      (v, n != 0)
  | [] => (0, false)

/-- ISO C `strtol`-family scanning with base 0 on unbounded integers. -/
def strtoCore (s : Str) : StrtoRes :=
  let (neg, s) := splitSign (s.dropWhile isSpace)
  let (mag, conv) := strtoBody s
  ⟨neg, mag, conv⟩

def strtoVal (r : StrtoRes) : Int := if r.neg then -(r.mag : Int) else (r.mag : Int)

/-- signed getter for a type with limits `[lo, hi]` where the libc function converts into
    `[llo, lhi]` (`long` / `long long`): conversion error when nothing was converted, when
    libc reports `ERANGE`, or when the result does not fit the result type. -/
def getSigned (llo lhi lo hi : Int) (s : Str) : Except Err Int :=
  let r := strtoCore s
  let v := strtoVal r
  if !r.converted then .error .valueConversionError
  else if v < llo || v > lhi then .error .valueConversionError     -- ERANGE
  else if v < lo || v > hi then .error .valueConversionError
  else .ok v

/-- unsigned getter: libc converts the magnitude into `[0, lmax]` (ERANGE beyond) and negates
    it modulo `lmax+1` for a minus sign; the getter refuses a non-zero negated value and a
    result above `max`. -/
def getUnsigned (lmax max : Nat) (s : Str) : Except Err Nat :=
  let r := strtoCore s
  if !r.converted then .error .valueConversionError
  else if r.mag > lmax then .error .valueConversionError           -- ERANGE
  else if r.neg && r.mag != 0 then .error .valueConversionError
  else if r.mag > max then .error .valueConversionError
  else .ok r.mag

def I32MIN : Int := -2147483648
def I32MAX : Int := 2147483647
def I64MIN : Int := -9223372036854775808
def I64MAX : Int := 9223372036854775807
def U32MAX : Nat := 4294967295
def U64MAX : Nat := 18446744073709551615

def getInt32 (s : Str) : Except Err Int := getSigned I64MIN I64MAX I32MIN I32MAX s
def getInt64 (s : Str) : Except Err Int := getSigned I64MIN I64MAX I64MIN I64MAX s
def getUInt32 (s : Str) : Except Err Nat := getUnsigned U64MAX U32MAX s
def getUInt64 (s : Str) : Except Err Nat := getUnsigned U64MAX U64MAX s

/-! ### booleans -/

inductive BoolWord where
  | tt | ff | nullValue | other
  deriving DecidableEq, Repr

/-- classification of a text by the boolean getter (on the lower-cased copy) -/
def classifyBool (s : Str) : BoolWord :=
  let l := lower s
  if l == [0x31] /- "1" -/ || l == [0x79, 0x65, 0x73] /- "yes" -/ || l == [0x74, 0x72, 0x75, 0x65] /- "true" -/ then .tt
  else if l == [0x30] /- "0" -/ || l.isEmpty || l == [0x6e, 0x6f] /- "no" -/ || l == [0x66, 0x61, 0x6c, 0x73, 0x65] /- "false" -/ then .ff
  else if l == NONE then .nullValue
  else .other

def getBool (s : Str) : Except Err Bool :=
  match classifyBool s with
  | .tt => .ok true
  | .ff => .ok false
  | .nullValue => .error .keyHasNullValue
  | .other => .error .parseError

/-- the text the boolean setter stores -/
def setBoolText (s : Str) : Except Err Str :=
  let l := lower s
  if l == [0x31] /- "1" -/ || l == [0x79, 0x65, 0x73] /- "yes" -/ || l == [0x74, 0x72, 0x75, 0x65] /- "true" -/ then .ok ([0x74, 0x72, 0x75, 0x65] /- "true" -/)
  else if l == [0x30] /- "0" -/ || l == [0x6e, 0x6f] /- "no" -/ || l == [0x66, 0x61, 0x6c, 0x73, 0x65] /- "false" -/ then .ok ([0x66, 0x61, 0x6c, 0x73, 0x65] /- "false" -/)
  else if l == NONE || s.isEmpty then .ok NONE
  else .error .wrongBooleanValue

end Econf
