/-!
  # MiniC – the C subset of the string helpers of lib/, with a checked-memory interpreter

  `gen/c2lean.py` translates the leaf functions of /repo that walk over NUL-terminated strings with
  pointers (`stripbrackets`, `addbrackets`, `toLowerCase`, `ltrim`/`rtrim`/`trim`, `check_delim`,
  `replace_str`, …) from clang's AST into values of `Stmt` below – mechanically, on every run – and
  `Props/Leaf.lean` proves, about exactly those generated terms, that for every input string execution
  never leaves the bounds of an object, never reads an uninitialised byte, never overflows a signed
  integer, and computes what the list-level model of `Econf/*.lean` says.

  The semantics here is the trusted part: a byte-addressed memory of blocks with bounds, liveness and
  initialisation tracking; typed integer arithmetic (unsigned wraps, signed overflow is a fault,
  conversions wrap); pointers as (block, offset) that may only be formed inside their block or one past
  its end; the libc functions the helpers use (`strlen`, `isspace`, `tolower`, `strchr`, `stpcpy`, `malloc`,
  `strdup`, `memcpy`, `memmove`, `strstr`) as total functions on that memory.  Expressions are evaluated
  left to right.  Loops take fuel; running out of fuel is a result of its own, distinct from every fault.
-/

namespace MiniC

inductive Ty where
  | i8 | u8 | i32 | u32 | i64 | u64 | bool | ptr
  deriving DecidableEq, Repr, Inhabited

inductive UnOp where
  | neg | lnot | bnot
  deriving DecidableEq, Repr

inductive BinOp where
  | add | sub | mul | div | mod | lt | le | gt | ge | eq | ne | band | bor | bxor | shl | shr
  deriving DecidableEq, Repr

mutual
  inductive Expr where
    | lit (v : Int) (ty : Ty)
    | null
    | load (l : LVal) (ty : Ty)                    -- lvalue-to-rvalue conversion
    | un (op : UnOp) (e : Expr) (ty : Ty)          -- `ty`: the C type of the result
    | bin (op : BinOp) (a b : Expr) (ty : Ty)
    | land (a b : Expr)
    | lor (a b : Expr)
    | cond (c a b : Expr)
    | assign (l : LVal) (e : Expr) (ty : Ty)       -- `ty`: type of the assigned object
    | opassign (op : BinOp) (l : LVal) (e : Expr) (ty : Ty)
    | incdec (l : LVal) (inc post : Bool) (ty : Ty)
    | cast (ty : Ty) (e : Expr)
    | call (f : String) (args : Args)              -- libc function
    | strlit (bytes : List UInt8)                  -- string literal: a read-only object of its own
    | sidx (base idx : Expr) (stride : Nat)        -- `&base[idx]` for an array of words / of structs with `stride` members
    deriving Repr
  inductive LVal where
    | var (i : Nat)                                -- parameter / local variable
    | deref (e : Expr)                             -- `*e`, `e[i]` (= `*(e + i)`)  (objects of character type)
    | slot (e : Expr) (k : Nat)                    -- `e->member` / `*e` for objects of pointer or word type: word `k` behind `e`
    deriving Repr
  inductive Args where
    | nil
    | cons (e : Expr) (rest : Args)
    deriving Repr
end

inductive Stmt where
  | skip
  | expr (e : Expr)
  | seq (a b : Stmt)
  | ite (c : Expr) (a b : Stmt)
  | while (c : Expr) (body : Stmt)
  | dowhile (body : Stmt) (c : Expr)
  | for (c : Option Expr) (inc : Option Expr) (body : Stmt)      -- the init part precedes as a statement
  | brk
  | cont
  | ret (e : Option Expr)
  /-- call of another translated function: its body is inlined by the translator; `dst` receives the result -/
  | inl (dst : Option LVal) (dty : Ty) (args : Args) (nlocals : Nat) (body : Stmt)
  deriving Repr

/-- a translated function -/
structure Fn where
  name : String
  nparams : Nat
  nlocals : Nat        -- parameters included
  body : Stmt
  deriving Repr

/-! ## values and memory -/

inductive Val where
  | int (n : Int)
  | ptr (b : Nat) (o : Int)
  | null
  | undef
  deriving DecidableEq, Repr, Inhabited

inductive Fault where
  | oob (what : String)          -- access outside the bounds of an object / of a dead or unknown object
  | nullDeref
  | uninit                        -- read of an uninitialised byte or variable
  | ptrArith                      -- pointer formed outside its object (beyond one past the end)
  | overflow                      -- signed integer overflow, division by zero, bad shift
  | readonly
  | badFree
  | typeErr (what : String)       -- the translated program applies an operator to the wrong kind of value
  | fuel                          -- not a fault of the program: the interpreter's loop budget is used up
  deriving DecidableEq, Repr

structure Block where
  cells : List (Option UInt8)     -- `none` = uninitialised
  live : Bool := true
  writable : Bool := true
  /-- objects made of pointers and integers (structs, arrays of pointers): one slot per scalar member, `.undef` =
      uninitialised.  A block is used either through `cells` (character data) or through `slots`. -/
  slots : List Val := []
  deriving DecidableEq, Repr

abbrev Mem := List Block

structure St where
  mem : Mem
  loc : List Val
  deriving Repr

abbrev R := Except Fault

/-! ### integers -/

def Ty.bits : Ty → Nat
  | .i8 | .u8 | .bool => 8
  | .i32 | .u32 => 32
  | .i64 | .u64 | .ptr => 64

def Ty.signed : Ty → Bool
  | .i8 | .i32 | .i64 => true
  | _ => false

/-- conversion to an integer type (implementation-defined for signed targets: two's complement wrap) -/
def wrapTo (ty : Ty) (n : Int) : Int :=
  if ty == .bool then (if n == 0 then 0 else 1)
  else
    let m : Int := 2 ^ ty.bits
    let r := n % m
    if ty.signed && r ≥ m / 2 then r - m else r

def inRange (ty : Ty) (n : Int) : Bool :=
  if ty.signed then decide (-(2 ^ (ty.bits - 1) : Int) ≤ n) && decide (n < (2 ^ (ty.bits - 1) : Int))
  else decide (0 ≤ n) && decide (n < (2 ^ ty.bits : Int))

/-- result of an arithmetic operation in type `ty`: unsigned wraps, signed overflow is undefined behaviour -/
def arith (ty : Ty) (n : Int) : R Val :=
  if ty.signed then (if inRange ty n then .ok (.int n) else .error .overflow)
  else .ok (.int (wrapTo ty n))

def isSpace (c : Int) : Bool := c == 32 || (9 ≤ c && c ≤ 13)
def toLower (c : Int) : Int := if 65 ≤ c && c ≤ 90 then c + 32 else c

/-! ### memory -/

def Mem.block (m : Mem) (b : Nat) : R Block :=
  match m[b]? with
  | none => .error (.oob "unknown object")
  | some blk => if blk.live then .ok blk else .error (.oob "dead object")

/-- read one byte as `char` (signed) -/
def Mem.load8 (m : Mem) (b : Nat) (o : Int) : R Int := do
  let blk ← m.block b
  if o < 0 then .error (.oob "read below object") else
  match blk.cells[o.toNat]? with
  | none => .error (.oob "read beyond object")
  | some none => .error .uninit
  | some (some v) => .ok (wrapTo .i8 v.toNat)

def Mem.store8 (m : Mem) (b : Nat) (o : Int) (v : Int) : R Mem := do
  let blk ← m.block b
  if !blk.writable then .error .readonly else
  if o < 0 then .error (.oob "write below object") else
  if o.toNat < blk.cells.length then
    .ok (m.set b { blk with cells := blk.cells.set o.toNat (some (UInt8.ofNat (wrapTo .u8 v).toNat)) })
  else .error (.oob "write beyond object")

/-- the bytes of the C string starting at `cells[i]`, or the reason why there is none -/
def cstrFrom : List (Option UInt8) → R (List UInt8)
  | [] => .error (.oob "string not terminated inside its object")
  | none :: _ => .error .uninit
  | some c :: rest => if c == 0 then .ok [] else (cstrFrom rest).map (c :: ·)

def Mem.cstr (m : Mem) (b : Nat) (o : Int) : R (List UInt8) := do
  let blk ← m.block b
  if o < 0 then .error (.oob "read below object") else
  if o.toNat ≤ blk.cells.length then cstrFrom (blk.cells.drop o.toNat) else .error (.oob "read beyond object")

def Mem.alloc (m : Mem) (n : Nat) : Mem × Nat := (m ++ [{ cells := List.replicate n none }], m.length)

/-- write bytes (initialised) starting at offset `o` -/
def Mem.storeBytes (m : Mem) (b : Nat) (o : Int) : List UInt8 → R Mem
  | [] => .ok m
  | c :: cs => do
    let m ← m.store8 b o c.toNat
    Mem.storeBytes m b (o + 1) cs

/-- read `n` initialised bytes -/
def Mem.loadBytes (m : Mem) (b : Nat) (o : Int) : Nat → R (List UInt8)
  | 0 => .ok []
  | n + 1 => do
    let c ← m.load8 b o
    let rest ← Mem.loadBytes m b (o + 1) n
    .ok (UInt8.ofNat (wrapTo .u8 c).toNat :: rest)

/-- pointer arithmetic: the result must point into the object or one past its end -/
def ptrAdd (m : Mem) (b : Nat) (o : Int) (d : Int) : R Val := do
  let blk ← m.block b
  let o' := o + d
  if 0 ≤ o' && o' ≤ blk.cells.length then .ok (.ptr b o') else .error .ptrArith

/-! ### word objects (struct members, arrays of pointers) -/

def Mem.loadSlot (m : Mem) (b : Nat) (i : Int) : R Val := do
  let blk ← m.block b
  if i < 0 then .error (.oob "read below object") else
  match blk.slots[i.toNat]? with
  | none => .error (.oob "read beyond object")
  | some .undef => .error .uninit
  | some v => .ok v

def Mem.storeSlot (m : Mem) (b : Nat) (i : Int) (v : Val) : R Mem := do
  let blk ← m.block b
  if !blk.writable then .error .readonly else
  if i < 0 then .error (.oob "write below object") else
  if i.toNat < blk.slots.length then .ok (m.set b { blk with slots := blk.slots.set i.toNat v })
  else .error (.oob "write beyond object")

/-- `&a[d]` on an array of words: the result must point into the array or one past its end -/
def slotAdd (m : Mem) (b : Nat) (o : Int) (d : Int) : R Val := do
  let blk ← m.block b
  let o' := o + d
  if 0 ≤ o' && o' ≤ blk.slots.length then .ok (.ptr b o') else .error .ptrArith

/-- `n` words starting at word `o` of a block, as they are (uninitialised ones included: copying a struct copies its
    indeterminate members too) -/
def Mem.loadWords (m : Mem) (b : Nat) (o : Int) (n : Nat) : R (List Val) := do
  let blk ← m.block b
  if o < 0 then .error (.oob "read below object") else
  if o.toNat + n ≤ blk.slots.length then .ok ((blk.slots.drop o.toNat).take n) else .error (.oob "read beyond object")

def Mem.storeWords (m : Mem) (b : Nat) (o : Int) (vs : List Val) : R Mem := do
  let blk ← m.block b
  if !blk.writable then .error .readonly else
  if o < 0 then .error (.oob "write below object") else
  if o.toNat + vs.length ≤ blk.slots.length then
    .ok (m.set b { blk with slots := blk.slots.take o.toNat ++ vs ++ blk.slots.drop (o.toNat + vs.length) })
  else .error (.oob "write beyond object")

/-- a new object of `n` uninitialised words -/
def Mem.allocWords (m : Mem) (n : Nat) : Mem × Nat := (m ++ [{ cells := [], slots := List.replicate n .undef }], m.length)

/-- `strcmp` on byte strings: the difference of the first bytes that differ (as `unsigned char`), 0 for equal strings -/
def cmpBytes : List UInt8 → List UInt8 → Int
  | [], [] => 0
  | [], b :: _ => -(b.toNat : Int)
  | a :: _, [] => (a.toNat : Int)
  | a :: as, b :: bs => if a == b then cmpBytes as bs else (a.toNat : Int) - (b.toNat : Int)

/-- index of the first occurrence of `pat` in `s` -/
def findSub (pat : List UInt8) : List UInt8 → Nat → Option Nat
  | [], i => if pat.isEmpty then some i else none
  | c :: cs, i => if pat.isPrefixOf (c :: cs) then some i else findSub pat cs (i + 1)

/-- the libc functions used by the helpers -/
def builtin (f : String) (args : List Val) (m : Mem) : R (Val × Mem) :=
  match f, args with
  | "strlen", [.ptr b o] => do
    let s ← m.cstr b o
    .ok (.int s.length, m)
  | "isspace", [.int c] => .ok (.int (if isSpace c then 1 else 0), m)
  | "tolower", [.int c] => .ok (.int (toLower c), m)
  | "strchr", [.ptr b o, .int c] => do
    let s ← m.cstr b o
    let c8 := UInt8.ofNat (wrapTo .u8 c).toNat
    if c8 == 0 then .ok (.ptr b (o + s.length), m)
    else match s.findIdx? (· == c8) with
      | some i => .ok (.ptr b (o + i), m)
      | none => .ok (.null, m)
  | "strrchr", [.ptr b o, .int c] => do
    let s ← m.cstr b o
    let c8 := UInt8.ofNat (wrapTo .u8 c).toNat
    if c8 == 0 then .ok (.ptr b (o + s.length), m)
    else match s.reverse.findIdx? (· == c8) with
      | some i => .ok (.ptr b (o + (s.length - 1 - i : Nat)), m)
      | none => .ok (.null, m)
  | "strstr", [.ptr b o, .ptr b2 o2] => do
    let s ← m.cstr b o
    let p ← m.cstr b2 o2
    match findSub p s 0 with
    | some i => .ok (.ptr b (o + i), m)
    | none => .ok (.null, m)
  | "stpcpy", [.ptr d od, .ptr s os] => do
    let bytes ← m.cstr s os
    let m ← m.storeBytes d od (bytes ++ [0])
    .ok (.ptr d (od + bytes.length), m)
  | "strcpy", [.ptr d od, .ptr s os] => do
    let bytes ← m.cstr s os
    let m ← m.storeBytes d od (bytes ++ [0])
    .ok (.ptr d od, m)
  | "memcpy", [.ptr d od, .ptr s os, .int n] => do
    let bytes ← m.loadBytes s os n.toNat
    let m ← m.storeBytes d od bytes
    .ok (.ptr d od, m)
  | "memmove", [.ptr d od, .ptr s os, .int n] => do
    let bytes ← m.loadBytes s os n.toNat
    let m ← m.storeBytes d od bytes
    .ok (.ptr d od, m)
  | "malloc", [.int n] =>
    let (m, b) := m.alloc n.toNat
    .ok (.ptr b 0, m)
  | "strdup", [.ptr b o] => do
    let s ← m.cstr b o
    let (m, nb) := m.alloc (s.length + 1)
    let m ← m.storeBytes nb 0 (s ++ [0])
    .ok (.ptr nb 0, m)
  | "strcmp", [.ptr b o, .ptr b2 o2] => do
    let s ← m.cstr b o
    let t ← m.cstr b2 o2
    .ok (.int (cmpBytes s t), m)
  -- objects made of words: a local struct, assignment of a struct, (re)allocation of an array of structs / pointers
  -- (the translator gives the sizes in words: `sizeof(struct file_entry)` is its number of members)
  | "alloca_words", [.int n] =>
    let (m, b) := m.allocWords n.toNat
    .ok (.ptr b 0, m)
  | "malloc_words", [.int n] =>
    let (m, b) := m.allocWords n.toNat
    .ok (.ptr b 0, m)
  | "copy_words", [.ptr d od, .ptr s os, .int n] => do
    let vs ← m.loadWords s os n.toNat
    let m ← m.storeWords d od vs
    .ok (.ptr d od, m)
  | "realloc_words", [.null, .int n] =>
    let (m, b) := m.allocWords n.toNat
    .ok (.ptr b 0, m)
  | "realloc_words", [.ptr b o, .int n] => do
    let blk ← m.block b
    if o != 0 then .error .badFree else
    let keep := blk.slots.take n.toNat
    let m := m.set b { blk with live := false }
    .ok (.ptr m.length 0, m ++ [{ cells := [], slots := keep ++ List.replicate (n.toNat - keep.length) .undef }])
  | "free", [.null] => .ok (.int 0, m)
  | "free", [.ptr b o] => do
    let blk ← m.block b
    if o != 0 then .error .badFree else
    .ok (.int 0, m.set b { blk with live := false })
  | _, (.null :: _) => .error .nullDeref
  | _, _ => .error (.typeErr ("call of " ++ f))

/-! ### operators -/

def truth : Val → R Bool
  | .int n => .ok (n != 0)
  | .ptr _ _ => .ok true
  | .null => .ok false
  | .undef => .error .uninit

def boolVal (b : Bool) : Val := .int (if b then 1 else 0)

def cmpInt (op : BinOp) (a b : Int) : Option Bool :=
  match op with
  | .lt => some (a < b) | .le => some (a ≤ b) | .gt => some (a > b) | .ge => some (a ≥ b)
  | .eq => some (a == b) | .ne => some (a != b)
  | _ => none

def binop (m : Mem) (op : BinOp) (ty : Ty) (a b : Val) : R Val :=
  match a, b with
  | .undef, _ | _, .undef => .error .uninit
  | .int x, .int y =>
    match cmpInt op x y with
    | some r => .ok (boolVal r)
    | none =>
      match op with
      | .add => arith ty (x + y)
      | .sub => arith ty (x - y)
      | .mul => arith ty (x * y)
      | .div => if y == 0 then .error .overflow else arith ty (Int.tdiv x y)
      | .mod => if y == 0 then .error .overflow else arith ty (Int.tmod x y)
      | .band => if 0 ≤ x && 0 ≤ y then .ok (.int (x.toNat &&& y.toNat : Nat)) else .error (.typeErr "bitwise operation on a negative value")
      | .bor => if 0 ≤ x && 0 ≤ y then .ok (.int (x.toNat ||| y.toNat : Nat)) else .error (.typeErr "bitwise operation on a negative value")
      | .bxor => if 0 ≤ x && 0 ≤ y then .ok (.int (x.toNat ^^^ y.toNat : Nat)) else .error (.typeErr "bitwise operation on a negative value")
      | .shl => if 0 ≤ y && y < ty.bits then arith ty (x * 2 ^ y.toNat) else .error .overflow
      | .shr => if 0 ≤ y && y < ty.bits then .ok (.int (x / 2 ^ y.toNat)) else .error .overflow
      | _ => .error (.typeErr "binop")
  | .ptr p o, .int y =>
    match op with
    | .add => ptrAdd m p o y
    | .sub => ptrAdd m p o (-y)
    | _ => .error (.typeErr "pointer op int")
  | .int x, .ptr p o =>
    match op with
    | .add => ptrAdd m p o x
    | _ => .error (.typeErr "int op pointer")
  | .ptr p o, .ptr q o2 =>
    if p == q then
      match cmpInt op o o2 with
      | some r => .ok (boolVal r)
      | none => if op == .sub then .ok (.int (o - o2)) else .error (.typeErr "pointer op pointer")
    else
      match op with
      | .eq => .ok (boolVal false)
      | .ne => .ok (boolVal true)
      | _ => .error (.oob "comparison / difference of pointers into different objects")
  | .ptr _ _, .null | .null, .ptr _ _ =>
    match op with
    | .eq => .ok (boolVal false)
    | .ne => .ok (boolVal true)
    | _ => .error (.typeErr "pointer op NULL")
  | .null, .null =>
    match op with
    | .eq => .ok (boolVal true)
    | .ne => .ok (boolVal false)
    | _ => .error (.typeErr "NULL op NULL")
  | .null, .int _ | .int _, .null => .error .nullDeref

def unop (op : UnOp) (ty : Ty) (a : Val) : R Val :=
  match op, a with
  | _, .undef => .error .uninit
  | .lnot, v => (truth v).map (fun b => boolVal (!b))
  | .neg, .int x => arith ty (-x)
  | .bnot, .int x => .ok (.int (wrapTo ty (-x - 1)))
  | _, _ => .error (.typeErr "unop")

def convert (ty : Ty) (v : Val) : R Val :=
  match v with
  | .undef => .error .uninit
  | .int n => if ty == .ptr then (if n == 0 then .ok .null else .error (.typeErr "integer to pointer")) else .ok (.int (wrapTo ty n))
  | .ptr b o => if ty == .ptr then .ok (.ptr b o) else if ty == .bool then .ok (.int 1) else .error (.typeErr "pointer to integer")
  | .null => if ty == .ptr then .ok .null else if ty == .bool then .ok (.int 0) else .error (.typeErr "pointer to integer")

/-! ### expressions -/

/-- a resolved lvalue -/
inductive Place where
  | var (i : Nat)
  | mem (b : Nat) (o : Int)
  | slot (b : Nat) (i : Int)

def readPlace (st : St) (ty : Ty) : Place → R Val
  | .var i => match st.loc[i]? with
    | none => .error (.typeErr "variable")
    | some .undef => .error .uninit
    | some v => .ok v
  | .mem b o =>
    if ty == .ptr then .error (.typeErr "pointer in memory") else
    (st.mem.load8 b o).map (fun c => .int (if ty == .i8 then c else wrapTo ty c))
  | .slot b i => st.mem.loadSlot b i

def writePlace (st : St) (ty : Ty) (p : Place) (v : Val) : R St :=
  match p with
  | .var i => if i < st.loc.length then .ok { st with loc := st.loc.set i v } else .error (.typeErr "variable")
  | .mem b o =>
    match v with
    | .int n => if ty.bits == 8 then (st.mem.store8 b o n).map (fun m => { st with mem := m }) else .error (.typeErr "wide store")
    | _ => .error (.typeErr "pointer in memory")
  | .slot b i =>
    match v with
    | .undef => .error .uninit
    | v => (st.mem.storeSlot b i v).map (fun m => { st with mem := m })

mutual
  def evalE : Expr → St → R (Val × St)
    | .lit v _, st => .ok (.int v, st)
    | .null, st => .ok (.null, st)
    | .load l ty, st => do
      let (p, st) ← evalL l st
      let v ← readPlace st ty p
      .ok (v, st)
    | .un op e ty, st => do
      let (v, st) ← evalE e st
      let r ← unop op ty v
      .ok (r, st)
    | .bin op a b ty, st => do
      let (x, st) ← evalE a st
      let (y, st) ← evalE b st
      let r ← binop st.mem op ty x y
      .ok (r, st)
    | .land a b, st => do
      let (x, st) ← evalE a st
      if !(← truth x) then .ok (boolVal false, st) else
      let (y, st) ← evalE b st
      .ok (boolVal (← truth y), st)
    | .lor a b, st => do
      let (x, st) ← evalE a st
      if (← truth x) then .ok (boolVal true, st) else
      let (y, st) ← evalE b st
      .ok (boolVal (← truth y), st)
    | .cond c a b, st => do
      let (x, st) ← evalE c st
      if (← truth x) then evalE a st else evalE b st
    | .assign l e ty, st => do
      let (p, st) ← evalL l st
      let (v, st) ← evalE e st
      let v ← convert ty v
      let st ← writePlace st ty p v
      .ok (v, st)
    | .opassign op l e ty, st => do
      let (p, st) ← evalL l st
      let old ← readPlace st ty p
      let (v, st) ← evalE e st
      let r ← binop st.mem op ty old v
      let r ← if ty == .ptr then .ok r else convert ty r
      let st ← writePlace st ty p r
      .ok (r, st)
    | .incdec l inc post ty, st => do
      let (p, st) ← evalL l st
      let old ← readPlace st ty p
      let r ← binop st.mem (if inc then .add else .sub) ty old (.int 1)
      let r ← if ty == .ptr then .ok r else convert ty r
      let st ← writePlace st ty p r
      .ok (if post then old else r, st)
    | .cast ty e, st => do
      let (v, st) ← evalE e st
      let r ← convert ty v
      .ok (r, st)
    | .call f args, st => do
      let (vs, st) ← evalArgs args st
      let (r, m) ← builtin f vs st.mem
      .ok (r, { st with mem := m })
    | .strlit bytes, st =>
      .ok (.ptr st.mem.length 0, { st with mem := st.mem ++ [{ cells := (bytes ++ [0]).map some, writable := false }] })
    | .sidx base idx stride, st => do
      let (p, st) ← evalE base st
      let (i, st) ← evalE idx st
      match p, i with
      | .ptr b o, .int n => do
        let r ← slotAdd st.mem b o (n * stride)
        .ok (r, st)
      | .null, _ => .error .nullDeref
      | .undef, _ | _, .undef => .error .uninit
      | _, _ => .error (.typeErr "index of a word array")
  def evalL : LVal → St → R (Place × St)
    | .var i, st => .ok (.var i, st)
    | .deref e, st => do
      let (v, st) ← evalE e st
      match v with
      | .ptr b o => .ok (.mem b o, st)
      | .null => .error .nullDeref
      | .undef => .error .uninit
      | .int _ => .error (.typeErr "dereference of an integer")
    | .slot e k, st => do
      let (v, st) ← evalE e st
      match v with
      | .ptr b o => .ok (.slot b (o + k), st)
      | .null => .error .nullDeref
      | .undef => .error .uninit
      | .int _ => .error (.typeErr "dereference of an integer")
  def evalArgs : Args → St → R (List Val × St)
    | .nil, st => .ok ([], st)
    | .cons e rest, st => do
      let (v, st) ← evalE e st
      let (vs, st) ← evalArgs rest st
      .ok (v :: vs, st)
end

/-! ### statements -/

inductive Outcome where
  | normal (st : St)
  | brk (st : St)
  | cont (st : St)
  | ret (v : Val) (st : St)
  | fault (f : Fault)

/-- `while`-shaped loops: `test` runs before every round, `step` after every round that ends normally or with
    `continue` -/
def loop (test : St → R (Bool × St)) (body : St → Outcome) (step : St → R St) : Nat → St → Outcome
  | 0, _ => .fault .fuel
  | fuel + 1, st =>
    match test st with
    | .error f => .fault f
    | .ok (false, st) => .normal st
    | .ok (true, st) =>
      match body st with
      | .normal st | .cont st =>
        (match step st with
         | .error f => .fault f
         | .ok st => loop test body step fuel st)
      | .brk st => .normal st
      | .ret v st => .ret v st
      | .fault f => .fault f

def testOf (c : Option Expr) (st : St) : R (Bool × St) :=
  match c with
  | none => .ok (true, st)
  | some c => do
    let (v, st) ← evalE c st
    .ok (← truth v, st)

def stepOf (e : Option Expr) (st : St) : R St :=
  match e with
  | none => .ok st
  | some e => (evalE e st).map (·.2)

def exec (fuel : Nat) : Stmt → St → Outcome
  | .skip, st => .normal st
  | .expr e, st =>
    match evalE e st with
    | .ok (_, st) => .normal st
    | .error f => .fault f
  | .seq a b, st =>
    match exec fuel a st with
    | .normal st => exec fuel b st
    | o => o
  | .ite c a b, st =>
    match testOf (some c) st with
    | .error f => .fault f
    | .ok (true, st) => exec fuel a st
    | .ok (false, st) => exec fuel b st
  | .while c body, st => loop (testOf (some c)) (exec fuel body) (stepOf none) fuel st
  | .for c inc body, st => loop (testOf c) (exec fuel body) (stepOf inc) fuel st
  | .dowhile body c, st =>
    -- one unconditional round, then a `while`
    match exec fuel body st with
    | .normal st | .cont st => loop (testOf (some c)) (exec fuel body) (stepOf none) fuel st
    | .brk st => .normal st
    | o => o
  | .brk, st => .brk st
  | .cont, st => .cont st
  | .ret none, st => .ret (.int 0) st
  | .ret (some e), st =>
    match evalE e st with
    | .ok (v, st) => .ret v st
    | .error f => .fault f
  | .inl dst dty args nlocals body, st =>
    match evalArgs args st with
    | .error f => .fault f
    | .ok (vs, st) =>
      let callee : St := { mem := st.mem, loc := vs ++ List.replicate (nlocals - vs.length) .undef }
      let fin (v : Val) (st' : St) : Outcome :=
        let st : St := { mem := st'.mem, loc := st.loc }
        match dst with
        | none => .normal st
        | some l =>
          match evalL l st with
          | .error f => .fault f
          | .ok (p, st) =>
            match (convert dty v).bind (writePlace st dty p) with
            | .ok st => .normal st
            | .error f => .fault f
      match exec fuel body callee with
      | .ret v st' => fin v st'
      | .normal st' => fin .undef st'
      | .brk _ | .cont _ => .fault (.typeErr "break outside a loop")
      | .fault f => .fault f

/-- run a translated function on argument values -/
def Fn.run (fn : Fn) (fuel : Nat) (m : Mem) (args : List Val) : Except Fault (Val × Mem) :=
  match exec fuel fn.body { mem := m, loc := args ++ List.replicate (fn.nlocals - args.length) .undef } with
  | .ret v st => .ok (v, st.mem)
  | .normal st => .ok (.undef, st.mem)
  | .brk _ | .cont _ => .error (.typeErr "break outside a loop")
  | .fault f => .error f

/-! ### helpers for the statements about strings -/

/-- a block holding exactly the C string `s` (tight: one byte for the terminator, nothing beyond) -/
def strBlock (s : List UInt8) : Block := { cells := (s ++ [0]).map some }

/-- the C string stored at the start of block `b`, if the block holds one -/
def Mem.strAt (m : Mem) (b : Nat) : Option (List UInt8) :=
  match m.cstr b 0 with
  | .ok s => some s
  | .error _ => none

end MiniC
