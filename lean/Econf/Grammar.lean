import Econf.Parser

/-!
  The conventional grammar of DESIGN.md section 5.1 as data: documents are lists of items, `render`
  gives the bytes of the file, `expItem` says what the item is expected to contribute.  This file is
  the *specification* side of C02 / C05 / C13 / C17: it is written from the property text and
  section 5.1, not from the parser.
-/

namespace Econf

/-- a byte that can occur inside a line of text: not NUL, not the line break -/
def isText (c : Byte) : Bool := c != 0 && c != NL
/-- a blank inside a line: `isspace` minus the line break -/
def isBlank (c : Byte) : Bool := isSpace c && c != NL

/-- trailing comment: the comment character and the text behind it -/
structure TrailC where
  c : Byte
  text : Str
  deriving DecidableEq, Repr

inductive ValSpell where
  | plain (v : Str)
  | quoted (q : Str)
  deriving DecidableEq, Repr

/-- a continuation line: indentation (at least one blank), text, trailing blanks -/
structure ContLine where
  indent : Str
  text : Str
  trail : Str
  deriving DecidableEq, Repr

/-- `key delimiter value` line (delimiter class "non-blank") with its continuation lines -/
structure EntryI where
  indent : Str
  key : Str
  ws1 : Str
  d : Byte
  ws2 : Str
  value : ValSpell
  tws : Str
  tc : Option TrailC
  cont : List ContLine
  deriving DecidableEq, Repr

inductive Item where
  | blank (ws : Str)
  | comment (indent : Str) (c : Byte) (text : Str)
  | sect (indent name trail : Str) (tc : Option TrailC)
  | entry (e : EntryI)
  deriving DecidableEq, Repr

def TrailC.render : Option TrailC → Str
  | none => []
  | some t => t.c :: t.text

def ValSpell.render : ValSpell → Str
  | .plain v => v
  | .quoted q => QUOTE :: q ++ [QUOTE]

def ContLine.render (l : ContLine) : Str := l.indent ++ l.text ++ l.trail

/-- the first physical line of an entry, from the key on (without indentation and line break) -/
def EntryI.body (e : EntryI) : Str :=
  e.key ++ e.ws1 ++ e.d :: e.ws2 ++ e.value.render ++ e.tws ++ TrailC.render e.tc

/-- the physical lines of an item, each with its line break -/
def Item.lines : Item → List Str
  | .blank ws => [ws ++ [NL]]
  | .comment ind c text => [ind ++ c :: text ++ [NL]]
  | .sect ind name trail tc => [ind ++ (LBR :: name ++ RBR :: trail ++ TrailC.render tc) ++ [NL]]
  | .entry e => (e.indent ++ e.body ++ [NL]) :: e.cont.map (fun l => l.render ++ [NL])

def renderLines (doc : List Item) : List Str := doc.flatMap Item.lines

/-- the bytes of the file -/
def render (doc : List Item) : Str := (renderLines doc).flatten

/-! ### what the items are expected to contribute -/

/-- the value an entry line carries: absent when nothing at all follows a delimiter that directly
    follows the key; the empty text when only blanks follow; the plain text; the text between the quotes -/
def EntryI.expValue (e : EntryI) : Option Str × Bool :=
  match e.value with
  | .quoted q => (some q, true)
  | .plain v =>
    if v.isEmpty then
      (if e.ws1.isEmpty && e.ws2.isEmpty && e.tws.isEmpty then (none, false) else (some [], false))
    else (some v, false)

/-- pending trailing-comment text after a line with the optional trailing comment `tc` -/
def caWith (ca : Option Str) : Option TrailC → Option Str
  | none => ca
  | some t => appendComment ca t.text

/-- the expected effect of an item on the parser state (the state *is* the result: entries in file
    order with section, key, value, comments, line; sections in order of first appearance) -/
def expItem (st : PState) : Item → PState
  | .blank _ => { st with line := st.line + 1 }
  | .comment _ _ text => { st with line := st.line + 1, cb := appendComment st.cb text }
  | .sect _ name _ tc =>
    { st with line := st.line + 1
              ca := caWith st.ca tc
              curGroup := some name
              groups := addGroup st.groups name }
  | .entry e =>
    let first : PState := storeNew { st with line := st.line + 1, ca := caWith st.ca e.tc } e.key e.expValue.1 e.expValue.2
    e.cont.foldl (fun s l => storeAppend false { s with line := s.line + 1 } l.render) first

def expDoc (doc : List Item) : PState := doc.foldl expItem {}

end Econf
