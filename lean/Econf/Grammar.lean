import Econf.Parser

/-!
  The conventional grammar of DESIGN.md section 5.1 as data: documents are lists of items, `render`
  gives the bytes of the file, `expItem` says what the item is expected to contribute.  This file is
  the *specification* side of C02 / C05 / C13 / C17: it is written from the property text and
  section 5.1, not from the parser.
-/

namespace Econf

/-- a byte that can occur inside a line of text: not NUL, not the line break -/
def isText (c : Byte) : Bool := c != 0 && c != NL
/-- a blank inside a line: `isspace` minus the line break -/
def isBlank (c : Byte) : Bool := isSpace c && c != NL

/-- trailing comment: the comment character and the text behind it -/
structure TrailC where
  c : Byte
  text : Str
  deriving DecidableEq, Repr

inductive ValSpell where
  | plain (v : Str)
  | quoted (q : Str)
  deriving DecidableEq, Repr

/-- a continuation line: indentation (at least one blank), text, trailing blanks -/
structure ContLine where
  indent : Str
  text : Str
  trail : Str
  deriving DecidableEq, Repr

/-- `key delimiter value` line (delimiter class "non-blank") with its continuation lines -/
structure EntryI where
  indent : Str
  key : Str
  ws1 : Str
  d : Byte
  ws2 : Str
  value : ValSpell
  tws : Str
  tc : Option TrailC
  cont : List ContLine
  deriving DecidableEq, Repr

inductive Item where
  | blank (ws : Str)
  | comment (indent : Str) (c : Byte) (text : Str)
  | sect (indent name trail : Str) (tc : Option TrailC)
  | entry (e : EntryI)
  /-- a line of the keys-only format (no delimiter defined): the whole text is the key -/
  | keyonly (indent key trail : Str) (tc : Option TrailC)
  deriving DecidableEq, Repr

def TrailC.render : Option TrailC → Str
  | none => []
  | some t => t.c :: t.text

def ValSpell.render : ValSpell → Str
  | .plain v => v
  | .quoted q => QUOTE :: q ++ [QUOTE]

def ContLine.render (l : ContLine) : Str := l.indent ++ l.text ++ l.trail

/-- the first physical line of an entry, from the key on (without indentation and line break) -/
def EntryI.body (e : EntryI) : Str :=
  e.key ++ e.ws1 ++ e.d :: e.ws2 ++ e.value.render ++ e.tws ++ TrailC.render e.tc

/-- the physical lines of an item, each with its line break -/
def Item.lines : Item → List Str
  | .blank ws => [ws ++ [NL]]
  | .comment ind c text => [ind ++ c :: text ++ [NL]]
  | .sect ind name trail tc => [ind ++ (LBR :: name ++ RBR :: trail ++ TrailC.render tc) ++ [NL]]
  | .entry e => (e.indent ++ e.body ++ [NL]) :: e.cont.map (fun l => l.render ++ [NL])
  | .keyonly ind key trail tc => [ind ++ (key ++ trail ++ TrailC.render tc) ++ [NL]]

def renderLines (doc : List Item) : List Str := doc.flatMap Item.lines

/-- the bytes of the file -/
def render (doc : List Item) : Str := (renderLines doc).flatten

/-! ### what the items are expected to contribute -/

/-- the value an entry line carries: absent when nothing at all follows a delimiter that directly
    follows the key; the empty text when only blanks follow; the plain text; the text between the quotes -/
def EntryI.expValue (e : EntryI) : Option Str × Bool :=
  match e.value with
  | .quoted q => (some q, true)
  | .plain v =>
    if v.isEmpty then
      (if e.ws1.isEmpty && e.ws2.isEmpty && e.tws.isEmpty then (none, false) else (some [], false))
    else (some v, false)

/-- pending trailing-comment text after a line with the optional trailing comment `tc` -/
def caWith (ca : Option Str) : Option TrailC → Option Str
  | none => ca
  | some t => appendComment ca t.text

/-- the expected effect of an item on the parser state (the state *is* the result: entries in file
    order with section, key, value, comments, line; sections in order of first appearance) -/
def expItem (st : PState) : Item → PState
  | .blank _ => { st with line := st.line + 1 }
  | .comment _ _ text => { st with line := st.line + 1, cb := appendComment st.cb text }
  | .sect _ name _ tc =>
    { st with line := st.line + 1
              ca := caWith st.ca tc
              curGroup := some name
              groups := addGroup st.groups name }
  | .entry e =>
    let first : PState := storeNew { st with line := st.line + 1, ca := caWith st.ca e.tc } e.key e.expValue.1 e.expValue.2
    e.cont.foldl (fun s l => storeAppend false { s with line := s.line + 1 } l.render) first
  | .keyonly _ key _ tc => storeNew { st with line := st.line + 1, ca := caWith st.ca tc } key none false

def expDoc (doc : List Item) : PState := doc.foldl expItem {}

/-! ## well-formedness: which items are documents of the conventional grammar for a delimiter / comment set -/

/-- the delimiter / comment sets the theorems are about: any delimiter set without the quote – all
    blanks, no blank, mixed, or none at all (the keys-only format); which kinds of lines a document may
    have under a set is part of the items' well-formedness (`EntryI.WF`, `Item.WF`) -/
structure CfgWF (cfg : Cfg) : Prop where
  dquote : cfg.delim.contains QUOTE = false
  noPython : cfg.python = false
  kq : QUOTE ∉ cfg.comment
  kd : ∀ c ∈ cfg.comment, cfg.delim.contains c = false
  kb : ∀ c ∈ cfg.comment, isSpace c = false
  klbr : LBR ∉ cfg.comment
  krbr : RBR ∉ cfg.comment
  k0 : (0 : Byte) ∉ cfg.comment

def blanks (ws : Str) : Prop := ∀ c ∈ ws, isBlank c = true
def texts (t : Str) : Prop := ∀ c ∈ t, isText c = true
instance (ws : Str) : Decidable (blanks ws) := by unfold blanks; infer_instance
instance (t : Str) : Decidable (texts t) := by unfold texts; infer_instance

def TrailC.WF (cfg : Cfg) : Option TrailC → Prop
  | none => True
  | some t => t.c ∈ cfg.comment ∧ texts t.text ∧ (∀ k ∈ cfg.comment, k ∉ t.text) ∧ QUOTE ∉ t.text


/-- well-formed entry line.  The separator is `ws1 ++ d :: ws2`: blanks, one byte `d`, blanks, where `d`
    is a delimiter byte – or, when the delimiter set mixes blanks and other bytes, any blank (in that
    class every blank separates key and value).  In the mixed class a plain value must not start with a
    delimiter byte (it would be taken for the separator). -/
structure EntryI.WF (cfg : Cfg) (e : EntryI) : Prop where
  ind : blanks e.indent
  keyNe : e.key ≠ []
  keyCh : ∀ c ∈ e.key, isText c = true ∧ isSpace c = false ∧ cfg.delim.contains c = false ∧ c ∉ cfg.comment ∧ c ≠ QUOTE
  keyHead : e.key.head? ≠ some LBR
  ws1 : blanks e.ws1
  ws2 : blanks e.ws2
  tws : blanks e.tws
  dIn : cfg.delim.contains e.d = true ∨ (mixedDelim cfg.delim = true ∧ isBlank e.d = true)
  dText : isText e.d = true
  dq : e.d ≠ QUOTE
  val : match e.value with
    | .plain v => texts v ∧ (∀ k ∈ cfg.comment, k ∉ v) ∧
                  (∀ c, v.head? = some c → isSpace c = false ∧ c ≠ QUOTE ∧ (mixedDelim cfg.delim = true → cfg.delim.contains c = false)) ∧
                  (∀ c, v.getLast? = some c → isSpace c = false)
    | .quoted q => texts q
  tc : TrailC.WF cfg e.tc


/-- well-formed continuation line: indentation, a text free of delimiter and comment bytes, trailing
    blanks that are no delimiters (automatic when no delimiter is a blank).  Continuation lines exist
    only when the delimiter set does not mix blanks and other bytes (`Item.WF`). -/
structure ContLine.WF (cfg : Cfg) (l : ContLine) : Prop where
  ind : blanks l.indent
  indNe : l.indent ≠ []
  trail : blanks l.trail
  textNe : l.text ≠ []
  textCh : ∀ c ∈ l.text, isText c = true ∧ cfg.delim.contains c = false ∧ c ∉ cfg.comment
  head : ∀ c, l.text.head? = some c → isSpace c = false ∧ c ≠ LBR
  trailNd : ∀ c ∈ l.trail, cfg.delim.contains c = false


/-- items of the conventional grammar -/
def Item.WF (cfg : Cfg) : Item → Prop
  | .blank ws => blanks ws
  | .comment ind c text => blanks ind ∧ c ∈ cfg.comment ∧ texts text
  | .sect ind name trail tc =>
      blanks ind ∧ blanks trail ∧ name ≠ [] ∧ (∀ c ∈ name, isText c = true ∧ c ∉ cfg.comment) ∧ TrailC.WF cfg tc
  | .entry e => e.WF cfg ∧ (∀ l ∈ e.cont, l.WF cfg) ∧ (e.cont ≠ [] → mixedDelim cfg.delim = false)
  | .keyonly ind key trail tc =>
      noDelim cfg.delim = true ∧ blanks ind ∧ blanks trail ∧ key ≠ [] ∧
      (∀ c ∈ key, isText c = true ∧ c ∉ cfg.comment ∧ c ≠ QUOTE) ∧
      (∀ c, key.head? = some c → isSpace c = false ∧ c ≠ LBR) ∧ (∀ c, key.getLast? = some c → isSpace c = false) ∧
      TrailC.WF cfg tc


/-! ### the predicates are decidable (used by the model driver to tell whether a sampled document
lies in the domain of the theorems) -/

instance (cfg : Cfg) (tc : Option TrailC) : Decidable (TrailC.WF cfg tc) := by
  cases tc <;> (unfold TrailC.WF; infer_instance)

/-- the `val` clause of `EntryI.WF` as a predicate on the spelling -/
def ValSpell.OK (cfg : Cfg) : ValSpell → Prop
  | .plain v => texts v ∧ (∀ k ∈ cfg.comment, k ∉ v) ∧
                (∀ c, v.head? = some c → isSpace c = false ∧ c ≠ QUOTE ∧ (mixedDelim cfg.delim = true → cfg.delim.contains c = false)) ∧
                (∀ c, v.getLast? = some c → isSpace c = false)
  | .quoted q => texts q

instance (cfg : Cfg) (v : ValSpell) : Decidable (ValSpell.OK cfg v) := by
  cases v <;> (unfold ValSpell.OK; infer_instance)

instance (cfg : Cfg) (e : EntryI) : Decidable (EntryI.WF cfg e) :=
  decidable_of_iff
    (blanks e.indent ∧ e.key ≠ [] ∧
     (∀ c ∈ e.key, isText c = true ∧ isSpace c = false ∧ cfg.delim.contains c = false ∧ c ∉ cfg.comment ∧ c ≠ QUOTE) ∧
     e.key.head? ≠ some LBR ∧ blanks e.ws1 ∧ blanks e.ws2 ∧ blanks e.tws ∧
     (cfg.delim.contains e.d = true ∨ (mixedDelim cfg.delim = true ∧ isBlank e.d = true)) ∧
     isText e.d = true ∧ e.d ≠ QUOTE ∧ ValSpell.OK cfg e.value ∧ TrailC.WF cfg e.tc)
    ⟨fun ⟨a, b, c, d, e1, f, g, h, i, j, k, l⟩ =>
        ⟨a, b, c, d, e1, f, g, h, i, j, (by revert k; cases e.value <;> exact id), l⟩,
     fun h => ⟨h.ind, h.keyNe, h.keyCh, h.keyHead, h.ws1, h.ws2, h.tws, h.dIn, h.dText, h.dq,
        (by have := h.val; revert this; cases e.value <;> exact id), h.tc⟩⟩

instance (cfg : Cfg) (l : ContLine) : Decidable (ContLine.WF cfg l) :=
  decidable_of_iff
    (blanks l.indent ∧ l.indent ≠ [] ∧ blanks l.trail ∧ l.text ≠ [] ∧
     (∀ c ∈ l.text, isText c = true ∧ cfg.delim.contains c = false ∧ c ∉ cfg.comment) ∧
     (∀ c, l.text.head? = some c → isSpace c = false ∧ c ≠ LBR) ∧ (∀ c ∈ l.trail, cfg.delim.contains c = false))
    ⟨fun ⟨a, b, c, d, e, f, g⟩ => ⟨a, b, c, d, e, f, g⟩,
     fun h => ⟨h.ind, h.indNe, h.trail, h.textNe, h.textCh, h.head, h.trailNd⟩⟩

instance (cfg : Cfg) (it : Item) : Decidable (Item.WF cfg it) := by
  cases it <;> (unfold Item.WF; infer_instance)

instance (cfg : Cfg) : Decidable (CfgWF cfg) :=
  decidable_of_iff
    (cfg.delim.contains QUOTE = false ∧ cfg.python = false ∧ QUOTE ∉ cfg.comment ∧
     (∀ c ∈ cfg.comment, cfg.delim.contains c = false) ∧ (∀ c ∈ cfg.comment, isSpace c = false) ∧
     LBR ∉ cfg.comment ∧ RBR ∉ cfg.comment ∧ (0 : Byte) ∉ cfg.comment)
    ⟨fun ⟨a, b, c, d, e, f, g, h⟩ => ⟨a, b, c, d, e, f, g, h⟩,
     fun h => ⟨h.dquote, h.noPython, h.kq, h.kd, h.kb, h.klbr, h.krbr, h.k0⟩⟩

/-- is the document in the domain of the C02 theorem for this delimiter / comment set? -/
def docInDomain (cfg : Cfg) (doc : List Item) : Bool :=
  decide (CfgWF cfg) && doc.all (fun it => decide (it.WF cfg))

end Econf
