import Econf.Lemmas.DocLemmas
import Econf.Props.C17
import Econf.Writer

/-!
  The written file as a document of the conventional grammar (`docOf`), its rendering
  (`render_docOf`: exactly the bytes of `writeSeq`), its well-formedness (`docOf_wf`) and what it
  reads back as (`doc_reread`).  Used by `Econf/Props/C07.lean`.
-/

set_option linter.unusedSimpArgs false

namespace Econf


/-! ## the written file as a document of the conventional grammar -/

/-- a value with an unambiguous textual form (DESIGN.md 5.4), given with its spelling -/
inductive WVal where
  | absent
  | quoted (q : Str)
  | plain (l0 : Str) (conts : List ContLine)
  deriving Repr

/-- an entry of an object with an unambiguous textual form -/
structure WEntry where
  group : Str
  key : Str
  val : WVal
  cb : Option Str
  ca : Option Str
  line : Nat
  deriving Repr

def WVal.value : WVal → Option Str
  | .absent => none
  | .quoted q => some q
  | .plain l0 conts => some (l0 ++ conts.flatMap (fun l => NL :: l.render))

def WVal.quotes : WVal → Bool
  | .quoted _ => true
  | _ => false

/-- the entry as the object holds it -/
def WEntry.toEntry (w : WEntry) : Entry :=
  { group := w.group, key := w.key, value := w.val.value, cb := w.cb, ca := w.ca, line := w.line, quotes := w.val.quotes }

def hasText : Option Str → Bool
  | some t => !t.isEmpty
  | none => false

/-- the entry line (and continuation lines) the writer produces, as an item of the grammar -/
def WEntry.entryI (d c : Byte) (w : WEntry) : EntryI :=
  { indent := [], key := w.key, ws1 := [], d := d, ws2 := []
    value := (match w.val with
      | .absent => .plain []
      | .quoted q => .quoted q
      | .plain l0 _ => .plain l0)
    tws := if hasText w.ca then [0x20] else []
    tc := if hasText w.ca then some ⟨c, w.ca.getD []⟩ else none
    cont := (match w.val with
      | .plain _ conts => conts
      | _ => []) }

/-- the comment lines written before a key -/
def cbItems (c : Byte) (cb : Option Str) : List Item :=
  if hasText cb then (splitOn NL (cb.getD [])).map (fun l => Item.comment [] c l) else []

/-- everything the writer produces for one entry; `prev` = section of the entry written before -/
def hdrItems (prev : Option Str) (g : Str) : List Item :=
  if prev == some g then []
  else (if prev.isSome then [Item.blank []] else []) ++
       (if g == NONE then [] else [Item.sect [] g [] none])

def WEntry.items (d c : Byte) (prev : Option Str) (w : WEntry) : List Item :=
  hdrItems prev w.group ++
  cbItems c w.cb ++ [Item.entry (w.entryI d c)] ++ (if hasText w.ca then [Item.blank []] else [])

def docOf (d c : Byte) : Option Str → List WEntry → List Item
  | _, [] => []
  | prev, w :: ws => w.items d c prev ++ docOf d c (some w.group) ws

theorem render_append (a b : List Item) : render (a ++ b) = render a ++ render b := by
  simp [render, renderLines]

theorem render_nil : render [] = [] := rfl

theorem render_single (it : Item) : render [it] = it.lines.flatten := by
  simp [render, renderLines]

theorem commentLines_items (c : Byte) (t : Str) :
    commentLines [] c t = render ((splitOn NL t).map (fun l => Item.comment [] c l)) := by
  unfold commentLines render renderLines
  generalize splitOn NL t = ps
  induction ps with
  | nil => rfl
  | cons p ps ih =>
    simp only [List.nil_append] at ih
    simp only [List.map_cons, List.flatten_cons, List.flatMap_cons, List.flatten_append, Item.lines,
      List.nil_append, List.flatten_nil, List.append_nil, ih]


theorem mem_splitOn (c : Byte) (t p : Str) (hp : p ∈ splitOn c t) : ∀ x ∈ p, x ∈ t ∧ x ≠ c := by
  induction t generalizing p with
  | nil => simp [splitOn] at hp; subst hp; intro x hx; cases hx
  | cons a as ih =>
    unfold splitOn at hp
    by_cases hac : (a == c) = true
    · simp only [hac, if_true, List.mem_cons] at hp
      rcases hp with rfl | hp
      · intro x hx; cases hx
      · intro x hx; have := ih p hp x hx; exact ⟨List.mem_cons_of_mem _ this.1, this.2⟩
    · simp only [hac, Bool.false_eq_true, if_false] at hp
      cases hs : splitOn c as with
      | nil => 
        rw [hs] at hp; simp only [List.mem_singleton] at hp; subst hp
        intro x hx; simp only [List.mem_singleton] at hx; subst hx
        exact ⟨by simp, by simpa using hac⟩
      | cons q qs =>
        rw [hs] at hp
        simp only [List.mem_cons] at hp
        rcases hp with rfl | hp
        · intro x hx
          rcases List.mem_cons.mp hx with rfl | hx
          · exact ⟨by simp, by simpa using hac⟩
          · have := ih q (by rw [hs]; simp) x hx; exact ⟨List.mem_cons_of_mem _ this.1, this.2⟩
        · intro x hx
          have := ih p (by rw [hs]; simp [hp]) x hx; exact ⟨List.mem_cons_of_mem _ this.1, this.2⟩

theorem splitOn_none (c : Byte) (t : Str) (h : c ∉ t) : splitOn c t = [t] := by
  have := splitOn_joinWith c [t] (by simp) (by intro p hp; simp at hp; subst hp; exact h)
  simpa [joinWith] using this

/-- the single-line values -/
def WVal.single : WVal → Bool
  | .plain _ conts => conts.isEmpty
  | _ => true

structure WEntry.WF (d c : Byte) (w : WEntry) : Prop where
  grp : w.group ≠ NONE → w.group ≠ [] ∧ (∀ ch ∈ w.group, isText ch = true ∧ ch ≠ c) ∧ ¬(w.group.head? = some LBR ∧ w.group.getLast? = some RBR)
  keyNe : w.key ≠ []
  keyCh : ∀ ch ∈ w.key, isText ch = true ∧ isSpace ch = false ∧ ch ≠ d ∧ ch ≠ c ∧ ch ≠ QUOTE
  keyHead : w.key.head? ≠ some LBR
  val : match w.val with
    | .absent => True
    | .quoted q => texts q
    | .plain l0 conts =>
        texts l0 ∧ c ∉ l0 ∧ (∀ ch, l0.head? = some ch → isSpace ch = false ∧ ch ≠ QUOTE) ∧
        (∀ ch, l0.getLast? = some ch → isSpace ch = false) ∧ (conts ≠ [] → l0 ≠ []) ∧
        ∀ l ∈ conts, l.WF { delim := [d], comment := [c] }
  cb : ∀ t, w.cb = some t → ∀ ch ∈ t, ch ≠ 0
  ca : ∀ t, w.ca = some t → t ≠ [] → texts t ∧ c ∉ t ∧ QUOTE ∉ t ∧ w.val.single = true

theorem conts_render (l0 : Str) (conts : List ContLine) :
    l0 ++ conts.flatMap (fun l => NL :: l.render) ++ [NL] =
      (l0 ++ [NL]) ++ (conts.map (fun l => l.render ++ [NL])).flatten := by
  induction conts generalizing l0 with
  | nil => simp
  | cons l ls ih =>
    have := ih (l0 ++ NL :: l.render)
    simp only [List.flatMap_cons, List.map_cons, List.flatten_cons, List.append_assoc, List.cons_append, List.nil_append] at this ⊢
    rw [this]

def cbPart (c : Byte) (cb : Option Str) : Str :=
  match cb with
  | some t => if t.isEmpty then [] else commentLines [] c t
  | none => []
def caPart (c : Byte) (ca : Option Str) : Str :=
  match ca with
  | some t => if t.isEmpty then [] else commentLines [0x20] c t
  | none => []
def valPart (v : WVal) : Str :=
  match v with
  | .absent => []
  | .quoted q => QUOTE :: q ++ [QUOTE]
  | .plain l0 conts => l0 ++ conts.flatMap (fun l => NL :: l.render)

theorem writeEntry_parts (d c : Byte) (w : WEntry) :
    writeEntry d c w.toEntry = cbPart c w.cb ++ w.key ++ [d] ++ valPart w.val ++ caPart c w.ca ++ [NL] := by
  unfold writeEntry cbPart caPart valPart WEntry.toEntry
  cases w.val <;> rfl

theorem render_cbItems (c : Byte) (cb : Option Str) : render (cbItems c cb) = cbPart c cb := by
  unfold cbItems cbPart
  cases cb with
  | none => rfl
  | some t =>
    cases ht : t.isEmpty
    · simp only [hasText, ht, Bool.not_false, if_true, Option.getD_some, Bool.false_eq_true, if_false]
      rw [commentLines_items]
    · simp [hasText, ht, render_nil]

/-- the bytes written for one entry are the rendering of its items -/
theorem render_entry (d c : Byte) (w : WEntry) (h : w.WF d c) :
    render (cbItems c w.cb ++ [Item.entry (w.entryI d c)] ++ (if hasText w.ca then [Item.blank []] else [])) =
      writeEntry d c w.toEntry := by
  rw [render_append, render_append, render_single, render_cbItems, writeEntry_parts]
  simp only [List.append_assoc]
  congr 1
  cases hca : hasText w.ca
  · -- no trailing comment
    have hcapart : caPart c w.ca = [] := by
      unfold caPart
      cases hc : w.ca with
      | none => rfl
      | some t =>
        rw [hc] at hca
        simp only [hasText, Bool.not_eq_false'] at hca
        simp [hca]
    rw [hcapart]
    simp only [Bool.false_eq_true, if_false, render_nil, List.append_nil, Item.lines, WEntry.entryI, hca, EntryI.body,
      TrailC.render, List.nil_append]
    cases hv : w.val with
    | absent => simp [valPart, ValSpell.render]
    | quoted q => simp [valPart, ValSpell.render]
    | plain l0 conts =>
      simp only [valPart, ValSpell.render, List.flatten_cons]
      have := conts_render l0 conts
      simp only [List.append_assoc, List.cons_append, List.nil_append] at this ⊢
      rw [this]
  · -- a trailing comment: single-line value, one comment line, then the empty line
    obtain ⟨t, hc, htne⟩ : ∃ t, w.ca = some t ∧ t ≠ [] := by
      cases hc : w.ca with
      | none => rw [hc] at hca; cases hca
      | some t =>
        refine ⟨t, rfl, ?_⟩
        rw [hc] at hca
        intro hh; subst hh; simp [hasText] at hca
    obtain ⟨htt, _, _, hsingle⟩ := h.ca t hc htne
    have hte : t.isEmpty = false := by cases t with
      | nil => exact absurd rfl htne
      | cons a as => rfl
    have hsp : splitOn NL t = [t] := splitOn_none NL t (text_ne_NL htt)
    have hca' : hasText (some t) = true := by rw [← hc]; exact hca
    simp only [caPart, hc, hte, hca', Bool.false_eq_true, if_false, commentLines, hsp, List.map_cons, List.map_nil, List.flatten_cons,
      List.flatten_nil, List.append_nil, if_true, render_single, Item.lines, WEntry.entryI, hca, EntryI.body, TrailC.render,
      List.nil_append, Option.getD_some]
    cases hv : w.val with
    | absent => simp [valPart, ValSpell.render, hca']
    | quoted q => simp [valPart, ValSpell.render, hca']
    | plain l0 conts =>
      rw [hv] at hsingle
      have : conts = [] := by simpa [WVal.single] using hsingle
      subst this
      simp [valPart, ValSpell.render, hca']


theorem addBrackets_plain (g : Str) (h : ¬(g.head? = some LBR ∧ g.getLast? = some RBR)) : addBrackets g = LBR :: g ++ [RBR] := by
  unfold addBrackets
  by_cases h1 : (g.head? == some LBR) = true
  · by_cases h2 : (g.getLast? == some RBR) = true
    · exact absurd ⟨by simpa using h1, by simpa using h2⟩ h
    · simp [h1, h2]
  · simp [h1]

/-- **the written bytes are the rendering of `docOf`** -/
theorem render_docOf (d c : Byte) (prev : Option Str) (ws : List WEntry) (h : ∀ w ∈ ws, w.WF d c) :
    render (docOf d c prev ws) = writeSeq d c prev (ws.map WEntry.toEntry) := by
  induction ws generalizing prev with
  | nil => rfl
  | cons w ws ih =>
    have hw := h w (by simp)
    simp only [docOf, List.map_cons, writeSeq]
    rw [render_append, ih (some w.group) (fun x hx => h x (List.mem_cons_of_mem _ hx))]
    congr 1
    unfold WEntry.items hdrItems
    rw [List.append_assoc, List.append_assoc, render_append, ← List.append_assoc (cbItems c w.cb), render_entry d c w hw]
    congr 1
    have hg : (WEntry.toEntry w).group = w.group := rfl
    rw [hg]
    by_cases hp : (prev == some w.group) = true
    · simp [hp, render_nil]
    · simp only [hp, Bool.false_eq_true, if_false]
      rw [render_append]
      congr 1
      · cases prev <;> simp [render_single, Item.lines, render_nil]
      · by_cases hn : (w.group == NONE) = true
        · simp [hn, render_nil]
        · have hgrp := hw.grp (by simpa using hn)
          simp only [hn, Bool.false_eq_true, if_false, render_single, Item.lines, TrailC.render, List.nil_append,
            List.append_nil, List.flatten_cons, List.flatten_nil, addBrackets_plain w.group hgrp.2.2]


theorem joinWith_splitOn (c : Byte) (t : Str) : joinWith c (splitOn c t) = t := by
  induction t with
  | nil => rfl
  | cons a as ih =>
    unfold splitOn
    by_cases hac : (a == c) = true
    · have : a = c := by simpa using hac
      simp only [hac, if_true]
      have hne : splitOn c as ≠ [] := by
        cases as with
        | nil => simp [splitOn]
        | cons b bs => unfold splitOn; split <;> (try split) <;> simp
      rw [joinWith_cons c [] _ hne, ih, this]; rfl
    · simp only [hac, Bool.false_eq_true, if_false]
      cases hs : splitOn c as with
      | nil =>
        have : as = [] := by
          cases as with
          | nil => rfl
          | cons b bs => unfold splitOn at hs; split at hs <;> (try split at hs) <;> simp at hs
        subst this; rfl
      | cons p ps =>
        rw [hs] at ih
        cases ps with
        | nil => simp only [joinWith] at ih ⊢; rw [ih]
        | cons q qs =>
          simp only [joinWith] at ih ⊢
          rw [← ih]; rfl

/-- the tags of the object: a delimiter character (blank – e.g. the space – or not) and a comment
    character -/
structure TagsWF (d c : Byte) : Prop where
  dt : isText d = true
  dq : d ≠ QUOTE
  dc : d ≠ c
  cns : isSpace c = false
  cq : c ≠ QUOTE
  cl : c ≠ LBR
  cr : c ≠ RBR
  c0 : c ≠ 0

def tagCfg (d c : Byte) : Cfg := { delim := [d], comment := [c] }

theorem tagCfg_eff (d c : Byte) : (tagCfg d c).eff = tagCfg d c := rfl

/-- a set of one delimiter is never mixed -/
theorem mixed_single (d : Byte) : mixedDelim [d] = false := by
  unfold mixedDelim hasWsp hasNonWsp
  cases isSpace d <;> simp

theorem tagCfg_wf (d c : Byte) (h : TagsWF d c) : CfgWF (tagCfg d c) := by
  refine ⟨?_, rfl, ?_, ?_, ?_, ?_, ?_, ?_⟩
  · simp only [tagCfg, List.contains_cons, List.contains_nil, Bool.or_false, beq_eq_false_iff_ne, ne_eq]
    exact fun hh => h.dq hh.symm
  · simp only [tagCfg, List.mem_singleton]; exact fun hh => h.cq hh.symm
  · intro x hx; simp only [tagCfg, List.mem_singleton] at hx; subst hx
    simp only [tagCfg, List.contains_cons, List.contains_nil, Bool.or_false, beq_eq_false_iff_ne, ne_eq]
    exact fun hh => h.dc hh.symm
  · intro x hx; simp only [tagCfg, List.mem_singleton] at hx; subst hx; exact h.cns
  · simp only [tagCfg, List.mem_singleton]; exact fun hh => h.cl hh.symm
  · simp only [tagCfg, List.mem_singleton]; exact fun hh => h.cr hh.symm
  · simp only [tagCfg, List.mem_singleton]; exact fun hh => h.c0 hh.symm

theorem entryI_wf (d c : Byte) (hT : TagsWF d c) (w : WEntry) (h : w.WF d c) :
    (w.entryI d c).WF (tagCfg d c) ∧ ∀ l ∈ (w.entryI d c).cont, l.WF (tagCfg d c) := by
  have nb : blanks ([] : Str) := by intro x hx; cases hx
  constructor
  · refine ⟨nb, h.keyNe, ?_, h.keyHead, nb, nb, ?_, ?_, hT.dt, hT.dq, ?_, ?_⟩
    · intro ch hch
      have := h.keyCh ch hch
      refine ⟨this.1, this.2.1, ?_, ?_, this.2.2.2.2⟩
      · simp only [tagCfg, List.contains_cons, List.contains_nil, Bool.or_false, beq_eq_false_iff_ne, ne_eq]; exact this.2.2.1
      · simp only [tagCfg, List.mem_singleton]; exact this.2.2.2.1
    · simp only [WEntry.entryI]
      split
      · intro x hx; simp only [List.mem_singleton] at hx; subst hx; decide
      · intro x hx; cases hx
    · left; simp [tagCfg, WEntry.entryI]
    · have hv := h.val
      simp only [WEntry.entryI]
      cases hval : w.val with
      | absent => exact ⟨(by intro x hx; cases hx), (by intro k _ hk; cases hk), (by intro x hx; cases hx), (by intro x hx; cases hx)⟩
      | quoted q => rw [hval] at hv; exact hv
      | plain l0 conts =>
        rw [hval] at hv
        refine ⟨hv.1, ?_, ?_, hv.2.2.2.1⟩
        · intro k hk; simp only [tagCfg, List.mem_singleton] at hk; subst hk; exact hv.2.1
        · intro ch hch
          have := hv.2.2.1 ch hch
          refine ⟨this.1, this.2, ?_⟩
          intro hm; rw [show (tagCfg d c).delim = [d] from rfl, mixed_single] at hm; cases hm
    · simp only [WEntry.entryI]
      cases hca : hasText w.ca
      · trivial
      · obtain ⟨t, hc, htne⟩ : ∃ t, w.ca = some t ∧ t ≠ [] := by
          cases hc : w.ca with
          | none => rw [hc] at hca; cases hca
          | some t =>
            refine ⟨t, rfl, ?_⟩
            rw [hc] at hca
            intro hh; subst hh; simp [hasText] at hca
        have := h.ca t hc htne
        simp only [if_true, TrailC.WF, hc, Option.getD_some, tagCfg, List.mem_singleton]
        exact ⟨trivial, this.1, (by intro k hk; subst hk; exact this.2.1), this.2.2.1⟩
  · intro l hl
    have hv := h.val
    simp only [WEntry.entryI] at hl
    cases hval : w.val with
    | absent => rw [hval] at hl; cases hl
    | quoted q => rw [hval] at hl; cases hl
    | plain l0 conts =>
      rw [hval] at hl hv
      exact hv.2.2.2.2.2 l hl


theorem cbItems_wf (d c : Byte) (w : WEntry) (h : w.WF d c) : ∀ it ∈ cbItems c w.cb, it.WF (tagCfg d c) := by
  intro it hit
  unfold cbItems at hit
  split at hit
  · obtain ⟨l, hl, rfl⟩ := List.mem_map.mp hit
    cases hcb : w.cb with
    | none => rename_i hh; rw [hcb] at hh; cases hh
    | some t =>
      rw [hcb] at hl
      simp only [Option.getD_some] at hl
      refine ⟨(by intro x hx; cases hx), (by simp [tagCfg]), ?_⟩
      intro x hx
      have := mem_splitOn NL t l hl x hx
      have h0 := h.cb t hcb x this.1
      simp only [isText, bne_iff_ne, ne_eq, Bool.and_eq_true, decide_eq_true_eq]
      exact ⟨h0, this.2⟩
  · cases hit

theorem items_wf (d c : Byte) (hT : TagsWF d c) (prev : Option Str) (w : WEntry) (h : w.WF d c) :
    ∀ it ∈ w.items d c prev, it.WF (tagCfg d c) := by
  intro it hit
  unfold WEntry.items hdrItems at hit
  have nb : blanks ([] : Str) := by intro x hx; cases hx
  simp only [List.mem_append, List.mem_singleton] at hit
  rcases hit with ((hit | hit) | hit) | hit
  · split at hit
    · cases hit
    · simp only [List.mem_append] at hit
      rcases hit with hit | hit
      · split at hit
        · simp only [List.mem_singleton] at hit; subst hit; exact nb
        · cases hit
      · split at hit
        · cases hit
        · rename_i hnn
          have hgrp := h.grp (by simpa using hnn)
          simp only [List.mem_singleton] at hit; subst hit
          refine ⟨nb, nb, hgrp.1, ?_, trivial⟩
          intro ch hch
          exact ⟨(hgrp.2.1 ch hch).1, by simp only [tagCfg, List.mem_singleton]; exact (hgrp.2.1 ch hch).2⟩
  · exact cbItems_wf d c w h it hit
  · subst hit
    have := entryI_wf d c hT w h
    exact ⟨this.1, this.2, fun _ => mixed_single d⟩
  · split at hit
    · simp only [List.mem_singleton] at hit; subst hit; exact nb
    · cases hit

theorem docOf_wf (d c : Byte) (hT : TagsWF d c) (prev : Option Str) (ws : List WEntry) (h : ∀ w ∈ ws, w.WF d c) :
    ∀ it ∈ docOf d c prev ws, it.WF (tagCfg d c) := by
  induction ws generalizing prev with
  | nil => intro it hit; cases hit
  | cons w ws ih =>
    intro it hit
    simp only [docOf, List.mem_append] at hit
    rcases hit with hit | hit
    · exact items_wf d c hT prev w (h w (by simp)) it hit
    · exact ih (some w.group) (fun x hx => h x (List.mem_cons_of_mem _ hx)) it hit

/-! ### what the written document reads back as -/

/-- what "the same" means for a text file: an absent text and the empty text are the same -/
def Entry.content (e : Entry) : Str × Str × Str × Bool × Str × Str :=
  (e.group, e.key, e.value.getD [], e.quotes, e.cb.getD [], e.ca.getD [])

/-- state of the reader between two entries of the written file -/
def Between (prev : Option Str) (st : PState) : Prop :=
  st.cb = none ∧ st.ca = none ∧
  (match prev with
   | none => st.curGroup = none
   | some g => if g = NONE then st.curGroup = none else st.curGroup = some g)

theorem addGroup_idem (gs : List Str) (g : Str) : addGroup (addGroup gs g) g = addGroup gs g := by
  by_cases h : gs.contains g = true
  · simp only [addGroup, h, if_true]
  · have h' : gs.contains g = false := by simpa using h
    have h2 : (gs ++ [g]).contains g = true := by simp
    simp only [addGroup, h', Bool.false_eq_true, if_false, h2, if_true]

theorem inert_block_keep (st : PState) (its : List Item) (hin : ∀ it ∈ its, it.inert = true) :
    (its.foldl expItem st).entries = st.entries ∧ (its.foldl expItem st).ca = st.ca := by
  induction its generalizing st with
  | nil => exact ⟨rfl, rfl⟩
  | cons it its ih =>
    have hi := hin it (by simp)
    have := ih (expItem st it) (fun x hx => hin x (List.mem_cons_of_mem _ hx))
    rw [List.foldl_cons, this.1, this.2]
    cases it with
    | blank ws => exact ⟨rfl, rfl⟩
    | comment i cc t => exact ⟨rfl, rfl⟩
    | sect _ _ _ _ => cases hi
    | entry _ => cases hi
    | keyonly _ _ _ _ => cases hi

theorem cb_fold (c : Byte) (st : PState) (cb : Option Str) (hst : st.cb = none) :
    let st' := (cbItems c cb).foldl expItem st
    st'.entries = st.entries ∧ st'.groups = st.groups ∧ st'.curGroup = st.curGroup ∧ st'.ca = st.ca ∧
    st'.cb.getD [] = cb.getD [] := by
  intro st'
  have hin : ∀ it ∈ cbItems c cb, it.inert = true := by
    intro it hit; unfold cbItems at hit; split at hit
    · obtain ⟨l, _, rfl⟩ := List.mem_map.mp hit; rfl
    · cases hit
  have hs := sameContent_inert_block st (cbItems c cb) hin
  have hcb := inert_block_cb st (cbItems c cb) hin
  have hent := inert_block_keep st (cbItems c cb) hin
  refine ⟨hent.1, hs.2.1, hs.2.2, hent.2, ?_⟩
  show ((cbItems c cb).foldl expItem st).cb.getD [] = _
  rw [hcb, hst]
  unfold cbItems
  cases hh : hasText cb
  · simp only [Bool.false_eq_true, if_false, commentTexts, List.foldl_nil, Option.getD_none]
    cases cb with
    | none => rfl
    | some t => simp [hasText] at hh; simp [hh]
  · simp only [if_true]
    have hct : ∀ ps : List Str, commentTexts (ps.map (fun l => Item.comment [] c l)) = ps := by
      intro ps; induction ps with
      | nil => rfl
      | cons p ps ih => simp [commentTexts, ih]
    rw [hct]
    cases hsp : splitOn NL (cb.getD []) with
    | nil =>
      have := joinWith_splitOn NL (cb.getD [])
      rw [hsp] at this
      simp only [List.foldl_nil, Option.getD_none]; exact this
    | cons p ps =>
      rw [List.foldl_cons]
      show (ps.foldl appendComment (some p)).getD [] = _
      rw [appendComment_fold ps p, ← hsp, joinWith_splitOn]; rfl


/-- group-less entries only at the start: an entry without section is never written behind a sectioned one -/
def OrderedG : Option Str → List Str → Prop
  | _, [] => True
  | prev, g :: gs => (g = NONE → prev = none ∨ prev = some NONE) ∧ OrderedG (some g) gs

def Ordered (prev : Option Str) (ws : List WEntry) : Prop := OrderedG prev (ws.map (·.group))

theorem hdr_fold (prev : Option Str) (g : Str) (st : PState) (hb : Between prev st)
    (ho : g = NONE → prev = none ∨ prev = some NONE) :
    let st1 := (hdrItems prev g).foldl expItem st
    st1.entries = st.entries ∧ st1.cb = none ∧ st1.ca = none ∧
    (if g = NONE then st1.curGroup = none else st1.curGroup = some g) ∧
    addGroup st1.groups g = addGroup st.groups g := by
  intro st1
  obtain ⟨hcb, hca, hcg⟩ := hb
  by_cases hp : (prev == some g) = true
  · have hpe : prev = some g := by simpa using hp
    have : st1 = st := by show (hdrItems prev g).foldl expItem st = st; simp [hdrItems, hp]
    rw [this]
    subst hpe
    exact ⟨rfl, hcb, hca, hcg, rfl⟩
  · -- a new section starts (or the first entry is written)
    have hst0 : ∀ s : PState, ((if prev.isSome then [Item.blank []] else []) : List Item).foldl expItem s =
        (if prev.isSome then { s with line := s.line + 1 } else s) := by
      intro s; cases prev <;> rfl
    by_cases hn : g = NONE
    · have hpn : prev = none := by
        rcases ho hn with h | h
        · exact h
        · rw [h, hn] at hp; simp at hp
      subst hpn
      have : st1 = st := by show (hdrItems none g).foldl expItem st = st; simp [hdrItems, hn]
      rw [this]
      exact ⟨rfl, hcb, hca, (by rw [if_pos hn]; exact hcg), rfl⟩
    · have hnb : (g == NONE) = false := by simpa using hn
      have : st1 = expItem (if prev.isSome then { st with line := st.line + 1 } else st) (.sect [] g [] none) := by
        show (hdrItems prev g).foldl expItem st = _
        simp only [hdrItems, hp, Bool.false_eq_true, if_false, hnb, List.foldl_append, hst0, List.foldl_cons, List.foldl_nil]
      rw [this]
      simp only [hn, if_false]
      cases prev <;> simp [expItem, caWith, hcb, hca, addGroup_idem]


theorem expValue_empty (e : EntryI) (h : e.value = .plain []) :
    e.expValue = (none, false) ∨ e.expValue = (some [], false) := by
  unfold EntryI.expValue
  rw [h]
  simp only [List.isEmpty_nil, if_true]
  split
  · left; rfl
  · right; rfl

theorem reread_value (d c : Byte) (w : WEntry) (h : w.WF d c) :
    (contValue (w.entryI d c).expValue.1 (w.entryI d c).cont).getD [] = w.val.value.getD [] ∧
    (w.entryI d c).expValue.2 = w.val.quotes := by
  have hv := h.val
  cases hval : w.val with
  | absent =>
    have h1 : (w.entryI d c).value = .plain [] := by simp [WEntry.entryI, hval]
    have h2 : (w.entryI d c).cont = [] := by simp [WEntry.entryI, hval]
    rw [h2]
    rcases expValue_empty _ h1 with h3 | h3 <;> (rw [h3]; exact ⟨rfl, rfl⟩)
  | quoted q =>
    have h1 : (w.entryI d c).expValue = (some q, true) := by simp [WEntry.entryI, hval, EntryI.expValue]
    have h2 : (w.entryI d c).cont = [] := by simp [WEntry.entryI, hval]
    rw [h1, h2]; exact ⟨rfl, rfl⟩
  | plain l0 conts =>
    rw [hval] at hv
    cases l0 with
    | nil =>
      have : conts = [] := by
        cases conts with
        | nil => rfl
        | cons a as => exact absurd rfl (hv.2.2.2.2.1 (by simp))
      subst this
      have h1 : (w.entryI d c).value = .plain [] := by simp [WEntry.entryI, hval]
      have h2 : (w.entryI d c).cont = [] := by simp [WEntry.entryI, hval]
      rw [h2]
      rcases expValue_empty _ h1 with h3 | h3 <;> (rw [h3]; exact ⟨rfl, rfl⟩)
    | cons a as =>
      have h1 : (w.entryI d c).expValue = (some (a :: as), false) := by
        simp [WEntry.entryI, hval, EntryI.expValue]
      have h2 : (w.entryI d c).cont = conts := by simp [WEntry.entryI, hval]
      rw [h1, h2, contValue_flat]
      exact ⟨rfl, rfl⟩

theorem reread_ca (d c : Byte) (w : WEntry) (h : w.WF d c) :
    ((caWith none (w.entryI d c).tc).map (· ++ List.replicate (w.entryI d c).cont.length NL)).getD [] = w.ca.getD [] := by
  cases hca : hasText w.ca
  · have h1 : (w.entryI d c).tc = none := by simp [WEntry.entryI, hca]
    rw [h1]
    cases hc : w.ca with
    | none => rfl
    | some t =>
      rw [hc] at hca
      have : t = [] := by simpa [hasText] using hca
      subst this; rfl
  · obtain ⟨t, hc, htne⟩ : ∃ t, w.ca = some t ∧ t ≠ [] := by
      cases hc : w.ca with
      | none => rw [hc] at hca; cases hca
      | some t =>
        refine ⟨t, rfl, ?_⟩
        rw [hc] at hca
        intro hh; subst hh; simp [hasText] at hca
    have hs := (h.ca t hc htne).2.2.2
    have hca' : hasText (some t) = true := hc ▸ hca
    have h1 : (w.entryI d c).tc = some ⟨c, t⟩ := by simp [WEntry.entryI, hca', hc]
    have h2 : (w.entryI d c).cont = [] := by
      simp only [WEntry.entryI]
      cases hval : w.val with
      | absent => rfl
      | quoted q => rfl
      | plain l0 conts => rw [hval] at hs; simpa [WVal.single] using hs
    rw [h1, h2, hc]
    simp [caWith, appendComment]

/-- **one entry of the written file, read back** -/
theorem entry_reread (d c : Byte) (hT : TagsWF d c) (prev : Option Str) (w : WEntry) (st : PState)
    (h : w.WF d c) (hb : Between prev st) (ho : w.group = NONE → prev = none ∨ prev = some NONE) :
    ∃ x, ((w.items d c prev).foldl expItem st).entries = st.entries ++ [x] ∧
      x.content = w.toEntry.content ∧
      ((w.items d c prev).foldl expItem st).groups = addGroup st.groups w.group ∧
      Between (some w.group) ((w.items d c prev).foldl expItem st) := by
  unfold WEntry.items
  rw [List.foldl_append, List.foldl_append, List.foldl_append]
  obtain ⟨e1, cb1, ca1, cg1, g1⟩ := hdr_fold prev w.group st hb ho
  generalize (hdrItems prev w.group).foldl expItem st = st1 at e1 cb1 ca1 cg1 g1
  obtain ⟨e2, g2, cg2, ca2, cb2⟩ := cb_fold c st1 w.cb cb1
  generalize (cbItems c w.cb).foldl expItem st1 = st2 at e2 g2 cg2 ca2 cb2
  have hwf := entryI_wf d c hT w h
  simp only [List.foldl_cons, List.foldl_nil]
  have h3 := C02_entry_item (tagCfg d c) st2 _ hwf.1
  have hgrp : st2.curGroup.getD NONE = w.group := by
    rw [cg2]
    by_cases hn : w.group = NONE
    · rw [if_pos hn] at cg1; rw [cg1, hn]; rfl
    · rw [if_neg hn] at cg1; rw [cg1]; rfl
  have hkey : (w.entryI d c).key = w.key := rfl
  have hrv := reread_value d c w h
  have hrc := reread_ca d c w h
  generalize expItem st2 (.entry (w.entryI d c)) = st3 at h3
  have htail : ∀ s : PState,
      (List.foldl expItem s (if hasText w.ca then [Item.blank []] else [])).entries = s.entries ∧
      (List.foldl expItem s (if hasText w.ca then [Item.blank []] else [])).groups = s.groups ∧
      (List.foldl expItem s (if hasText w.ca then [Item.blank []] else [])).curGroup = s.curGroup ∧
      (List.foldl expItem s (if hasText w.ca then [Item.blank []] else [])).cb = s.cb ∧
      (List.foldl expItem s (if hasText w.ca then [Item.blank []] else [])).ca = s.ca := by
    intro s; cases hasText w.ca <;> exact ⟨rfl, rfl, rfl, rfl, rfl⟩
  obtain ⟨t1, t2, t3, t4, t5⟩ := htail st3
  generalize List.foldl expItem st3 (if hasText w.ca then [Item.blank []] else []) = st4 at t1 t2 t3 t4 t5
  refine ⟨entryOf st2 (w.entryI d c), ?_, ?_, ?_, ?_⟩
  · rw [t1, h3, ← e1, ← e2]; rfl
  · simp only [entryOf, Entry.content, WEntry.toEntry, hgrp, hkey, hrv.1, hrv.2, cb2, ca2, ca1, hrc]
  · rw [t2, h3, ← g1, ← g2, hgrp]
  · refine ⟨by rw [t4, h3], by rw [t5, h3], ?_⟩
    show if w.group = NONE then _ else _
    rw [t3, h3]
    simp only
    rw [cg2]
    exact cg1


/-- the whole written document, read back -/
theorem doc_reread (d c : Byte) (hT : TagsWF d c) (ws : List WEntry) (prev : Option Str) (st : PState)
    (h : ∀ w ∈ ws, w.WF d c) (hb : Between prev st) (ho : Ordered prev ws) :
    ((docOf d c prev ws).foldl expItem st).entries.map Entry.content =
      st.entries.map Entry.content ++ ws.map (fun w => w.toEntry.content) ∧
    ((docOf d c prev ws).foldl expItem st).groups = (ws.map (·.group)).foldl addGroup st.groups := by
  induction ws generalizing prev st with
  | nil => simp [docOf]
  | cons w ws ih =>
    obtain ⟨x, he, hx, hg, hb'⟩ := entry_reread d c hT prev w st (h w (by simp)) hb ho.1
    have := ih (some w.group) _ (fun y hy => h y (List.mem_cons_of_mem _ hy)) hb' ho.2
    simp only [docOf, List.foldl_append, List.map_cons, List.foldl_cons]
    rw [this.1, this.2, he, hg, List.map_append, List.map_cons, List.map_nil, hx]
    simp

theorem orderedG_sectioned (prev : Option Str) (gs : List Str) (h : ∀ g ∈ gs, g ≠ NONE) : OrderedG prev gs := by
  induction gs generalizing prev with
  | nil => trivial
  | cons g gs ih =>
    exact ⟨fun hg => absurd hg (h g (by simp)), ih _ (fun x hx => h x (List.mem_cons_of_mem _ hx))⟩

theorem orderedG_groupless_first (prev : Option Str) (a b : List Str) (hp : prev = none ∨ prev = some NONE)
    (ha : ∀ g ∈ a, g = NONE) (hb : ∀ g ∈ b, g ≠ NONE) : OrderedG prev (a ++ b) := by
  induction a generalizing prev with
  | nil => exact orderedG_sectioned prev b hb
  | cons g gs ih =>
    have hg := ha g (by simp)
    refine ⟨fun _ => hp, ?_⟩
    exact ih (some g) (Or.inr (by rw [hg])) (fun x hx => ha x (List.mem_cons_of_mem _ hx))

/-- the order of writing puts the group-less entries first -/
theorem ordered_writeOrder (es : List Entry) : OrderedG none ((writeOrder es).map (·.group)) := by
  unfold writeOrder
  rw [List.map_append]
  apply orderedG_groupless_first none _ _ (Or.inl rfl)
  · intro g hg
    obtain ⟨e, he, rfl⟩ := List.mem_map.mp hg
    have := (List.mem_filter.mp he).2
    simpa using this
  · intro g hg
    obtain ⟨e, he, rfl⟩ := List.mem_map.mp hg
    have := (List.mem_filter.mp he).2
    simpa using this

/-- the order of writing keeps the order of the entries of every section -/
theorem writeOrder_section (es : List Entry) (g : Str) :
    (writeOrder es).filter (fun e => e.group == g) = es.filter (fun e => e.group == g) := by
  unfold writeOrder
  rw [List.filter_append, List.filter_filter, List.filter_filter]
  by_cases hg : g = NONE
  · subst hg
    have h1 : (fun e : Entry => (e.group == NONE && e.group == NONE)) = fun e => e.group == NONE := by
      funext e; cases (e.group == NONE) <;> rfl
    have h2 : (fun e : Entry => (e.group == NONE && e.group != NONE)) = fun _ => false := by
      funext e; cases h : (e.group == NONE) <;> simp [bne, h]
    rw [h1, h2]; simp
  · have h1 : (fun e : Entry => (e.group == g && e.group == NONE)) = fun _ => false := by
      funext e
      cases h : (e.group == g)
      · rfl
      · have : e.group = g := by simpa using h
        simp [this, hg]
    have h2 : (fun e : Entry => (e.group == g && e.group != NONE)) = fun e => e.group == g := by
      funext e
      cases h : (e.group == g)
      · rfl
      · have : e.group = g := by simpa using h
        simp [this, hg]
    rw [h1, h2]; simp


end Econf
