import Econf.MiniC

/-!
  Lemmas about the MiniC interpreter that the proofs about the translated helpers share:
  loops that count, blocks that hold a C string, the value range of `char`.
-/

namespace MiniC

/-- a loop that makes `n` rounds through the states `P 0, …, P n` and then fails its test -/
theorem loop_count (test : St → R (Bool × St)) (body : St → Outcome) (step : St → R St) :
    ∀ (n : Nat) (P : Nat → St) (R : St),
    (∀ i, i < n → test (P i) = .ok (true, P i) ∧ ∃ Q, (body (P i) = .normal Q ∨ body (P i) = .cont Q) ∧ step Q = .ok (P (i + 1))) →
    test (P n) = .ok (false, R) → ∀ fuel, n < fuel → loop test body step fuel (P 0) = .normal R := by
  intro n
  induction n with
  | zero =>
    intro P R _ hend fuel hf
    obtain ⟨f, rfl⟩ : ∃ f, fuel = f + 1 := ⟨fuel - 1, by omega⟩
    simp [loop, hend]
  | succ n ih =>
    intro P R hstep hend fuel hf
    obtain ⟨f, rfl⟩ : ∃ f, fuel = f + 1 := ⟨fuel - 1, by omega⟩
    obtain ⟨ht, Q, hb, hs⟩ := hstep 0 (by omega)
    have := ih (fun i => P (i + 1)) R (fun i hi => hstep (i + 1) (by omega)) hend f (by omega)
    rcases hb with hb | hb <;> simp [loop, ht, hb, hs, this]

/-- the same when the test itself changes the state (`while (*(++p) != c)`): `T i` is the state after the
    i-th successful test -/
theorem loop_count' (test : St → R (Bool × St)) (body : St → Outcome) (step : St → R St) :
    ∀ (n : Nat) (P T : Nat → St) (R : St),
    (∀ i, i < n → test (P i) = .ok (true, T i) ∧ ∃ Q, (body (T i) = .normal Q ∨ body (T i) = .cont Q) ∧ step Q = .ok (P (i + 1))) →
    test (P n) = .ok (false, R) → ∀ fuel, n < fuel → loop test body step fuel (P 0) = .normal R := by
  intro n
  induction n with
  | zero =>
    intro P T R _ hend fuel hf
    obtain ⟨f, rfl⟩ : ∃ f, fuel = f + 1 := ⟨fuel - 1, by omega⟩
    simp [loop, hend]
  | succ n ih =>
    intro P T R hstep hend fuel hf
    obtain ⟨f, rfl⟩ : ∃ f, fuel = f + 1 := ⟨fuel - 1, by omega⟩
    obtain ⟨ht, Q, hb, hs⟩ := hstep 0 (by omega)
    have := ih (fun i => P (i + 1)) (fun i => T (i + 1)) R (fun i hi => hstep (i + 1) (by omega)) hend f (by omega)
    rcases hb with hb | hb <;> simp [loop, ht, hb, hs, this]

/-! ### statements -/

theorem exec_seq_normal {fuel : Nat} {a b : Stmt} {st st' : St} (h : exec fuel a st = .normal st') :
    exec fuel (.seq a b) st = exec fuel b st' := by simp [exec, h]

theorem exec_seq_ret {fuel : Nat} {a b : Stmt} {st st' : St} {v : Val} (h : exec fuel a st = .ret v st') :
    exec fuel (.seq a b) st = .ret v st' := by simp [exec, h]

theorem exec_seq_fault {fuel : Nat} {a b : Stmt} {st : St} {f : Fault} (h : exec fuel a st = .fault f) :
    exec fuel (.seq a b) st = .fault f := by simp [exec, h]

theorem exec_ite_true {fuel : Nat} {c : Expr} {a b : Stmt} {st st' : St} (h : testOf (some c) st = .ok (true, st')) :
    exec fuel (.ite c a b) st = exec fuel a st' := by simp [exec, h]

theorem exec_ite_false {fuel : Nat} {c : Expr} {a b : Stmt} {st st' : St} (h : testOf (some c) st = .ok (false, st')) :
    exec fuel (.ite c a b) st = exec fuel b st' := by simp [exec, h]

theorem exec_while (fuel : Nat) (c : Expr) (body : Stmt) (st : St) :
    exec fuel (.while c body) st = loop (testOf (some c)) (exec fuel body) (stepOf none) fuel st := by simp [exec]

theorem exec_for (fuel : Nat) (c inc : Option Expr) (body : Stmt) (st : St) :
    exec fuel (.for c inc body) st = loop (testOf c) (exec fuel body) (stepOf inc) fuel st := by simp [exec]

/-! ### `char` -/

/-- signed `char` value of a byte -/
def sch (c : UInt8) : Int := wrapTo .i8 c.toNat

theorem sch_eq (c : UInt8) : sch c = if c.toNat ≥ 128 then (c.toNat : Int) - 256 else c.toNat := by
  have h := c.toNat_lt
  simp only [sch, wrapTo, Ty.bits, Ty.signed]
  have h256 : ((2 : Int) ^ 8) = 256 := by decide
  simp only [h256, show (Ty.i8 == Ty.bool) = false from rfl, Bool.false_eq_true, if_false, Bool.true_and]
  have hm : ((c.toNat : Int) % 256) = c.toNat := Int.emod_eq_of_lt (by omega) (by omega)
  rw [hm]
  by_cases hc : c.toNat ≥ 128
  · simp [hc]; omega
  · simp [hc]; omega

theorem sch_range (c : UInt8) : -128 ≤ sch c ∧ sch c < 128 := by
  have h := c.toNat_lt
  rw [sch_eq]; split <;> omega

theorem sch_zero_iff (c : UInt8) : sch c = 0 ↔ c = 0 := by
  have h := c.toNat_lt
  rw [sch_eq]
  constructor
  · intro h0
    have : c.toNat = 0 := by split at h0 <;> omega
    exact UInt8.toNat_inj.1 (by simpa using this)
  · rintro rfl; decide

theorem wrapTo_i32 (n : Int) (h1 : -2147483648 ≤ n) (h2 : n < 2147483648) : wrapTo .i32 n = n := by
  simp only [wrapTo, Ty.bits, Ty.signed, show (Ty.i32 == Ty.bool) = false from rfl, Bool.false_eq_true, if_false, Bool.true_and]
  have hp : ((2 : Int) ^ 32) = 4294967296 := by decide
  simp only [hp]
  by_cases hn : 0 ≤ n
  · have : n % 4294967296 = n := Int.emod_eq_of_lt hn (by omega)
    rw [this]; simp; omega
  · have : n % 4294967296 = n + 4294967296 := by
      have := Int.emod_emod_of_dvd n (show (4294967296 : Int) ∣ 4294967296 from Int.dvd_refl _)
      have h3 : (n + 4294967296) % 4294967296 = n + 4294967296 := Int.emod_eq_of_lt (by omega) (by omega)
      rw [← h3]; simp
    rw [this]; simp; omega

theorem wrapTo_i8_range (n : Int) : -128 ≤ wrapTo .i8 n ∧ wrapTo .i8 n < 128 := by
  simp only [wrapTo, Ty.bits, Ty.signed, show (Ty.i8 == Ty.bool) = false from rfl, Bool.false_eq_true, if_false, Bool.true_and]
  have h256 : ((2 : Int) ^ 8) = 256 := by decide
  simp only [h256]
  have h1 := Int.emod_nonneg n (show (256 : Int) ≠ 0 by decide)
  have h2 := Int.emod_lt_of_pos n (show (0 : Int) < 256 by decide)
  split <;> simp_all <;> omega

theorem wrapTo_i8_of_range (n : Int) (h1 : -128 ≤ n) (h2 : n < 128) : wrapTo .i8 n = n := by
  simp only [wrapTo, Ty.bits, Ty.signed, show (Ty.i8 == Ty.bool) = false from rfl, Bool.false_eq_true, if_false, Bool.true_and]
  have h256 : ((2 : Int) ^ 8) = 256 := by decide
  simp only [h256]
  by_cases hn : 0 ≤ n
  · have : n % 256 = n := Int.emod_eq_of_lt hn (by omega)
    rw [this]; simp; omega
  · have : n % 256 = n + 256 := by
      have h3 : (n + 256) % 256 = n + 256 := Int.emod_eq_of_lt (by omega) (by omega)
      rw [← h3]; simp
    rw [this]; simp; omega

theorem wrapTo_i8_idem (n : Int) : wrapTo .i8 (wrapTo .i8 n) = wrapTo .i8 n :=
  wrapTo_i8_of_range _ (wrapTo_i8_range n).1 (wrapTo_i8_range n).2

theorem wrapTo_i32_sch (c : UInt8) : wrapTo .i32 (sch c) = sch c := by
  have := sch_range c
  exact wrapTo_i32 _ (by omega) (by omega)

theorem wrapTo_i8_sch (c : UInt8) : wrapTo .i8 (sch c) = sch c := by
  have h := c.toNat_lt
  rw [sch_eq]
  simp only [wrapTo, Ty.bits, Ty.signed, show (Ty.i8 == Ty.bool) = false from rfl, Bool.false_eq_true, if_false, Bool.true_and]
  have h256 : ((2 : Int) ^ 8) = 256 := by decide
  simp only [h256]
  by_cases hc : c.toNat ≥ 128
  · simp only [hc, if_true]
    have : ((c.toNat : Int) - 256) % 256 = c.toNat := by
      have h3 : ((c.toNat : Int) - 256 + 256) % 256 = c.toNat := by
        rw [Int.sub_add_cancel]; exact Int.emod_eq_of_lt (by omega) (by omega)
      rw [← h3]; simp
    rw [this]; simp; omega
  · simp only [hc, if_false]
    have : ((c.toNat : Int)) % 256 = c.toNat := Int.emod_eq_of_lt (by omega) (by omega)
    rw [this]; simp; omega

/-- the byte stored for a `char` value -/
theorem byte_of_sch (c : UInt8) : UInt8.ofNat (wrapTo .u8 (sch c)).toNat = c := by
  have h := c.toNat_lt
  rw [sch_eq]
  simp only [wrapTo, Ty.bits, Ty.signed, show (Ty.u8 == Ty.bool) = false from rfl, Bool.false_eq_true, if_false, Bool.false_and]
  have h256 : ((2 : Int) ^ 8) = 256 := by decide
  simp only [h256]
  apply UInt8.toNat_inj.1
  by_cases hc : c.toNat ≥ 128
  · simp only [hc, if_true]
    have : ((c.toNat : Int) - 256) % 256 = c.toNat := by
      have h3 : ((c.toNat : Int) - 256 + 256) % 256 = c.toNat := by
        rw [Int.sub_add_cancel]; exact Int.emod_eq_of_lt (by omega) (by omega)
      rw [← h3]; simp
    rw [this]; simp
  · simp only [hc, if_false]
    have : ((c.toNat : Int)) % 256 = c.toNat := Int.emod_eq_of_lt (by omega) (by omega)
    rw [this]; simp

theorem truth_ite (b : Bool) : ((if b = true then (1 : Int) else 0) != 0) = b := by cases b <;> rfl

/-! ### blocks that hold a C string -/

def byteAt (s : List UInt8) (i : Nat) : UInt8 := (s ++ [0]).getD i 0

theorem byteAt_lt (s : List UInt8) (i : Nat) (h : i < s.length) : byteAt s i = s[i] := by
  simp [byteAt, List.getD_eq_getElem?_getD, List.getElem?_append_left h, List.getElem?_eq_getElem h]

theorem byteAt_len (s : List UInt8) : byteAt s s.length = 0 := by
  simp [byteAt, List.getD_eq_getElem?_getD]

/-- block `b` of `m` is alive, writable and its cells are the initialised bytes `cells` -/
structure MemBytes (m : Mem) (b : Nat) (cells : List UInt8) : Prop where
  blk : ∃ blk, m[b]? = some blk ∧ blk.live = true ∧ blk.writable = true ∧ blk.cells = cells.map some

theorem MemBytes.load8 {m : Mem} {b : Nat} {cells : List UInt8} (h : MemBytes m b cells) (i : Nat) (hi : i < cells.length) :
    m.load8 b (i : Int) = .ok (sch cells[i]) := by
  obtain ⟨blk, h1, h2, _, h3⟩ := h.blk
  have hget : blk.cells[i]? = some (some cells[i]) := by
    rw [h3, List.getElem?_map, List.getElem?_eq_getElem hi]; rfl
  have hneg : ¬ ((i : Int) < 0) := by omega
  simp only [Mem.load8, Mem.block, h1, h2, bind, Except.bind, if_true, hneg, if_false, Int.toNat_natCast, hget, sch]

/-- the byte a store of the integer `v` leaves in memory -/
def byteOf (v : Int) : UInt8 := UInt8.ofNat (wrapTo .u8 v).toNat

theorem MemBytes.store8_int {m : Mem} {b : Nat} {cells : List UInt8} (h : MemBytes m b cells) (i : Nat) (hi : i < cells.length) (v : Int) :
    ∃ m', m.store8 b (i : Int) v = .ok m' ∧ MemBytes m' b (cells.set i (byteOf v)) ∧ m'.length = m.length ∧
      ∀ b', b' ≠ b → m'[b']? = m[b']? := by
  obtain ⟨blk, h1, h2, h4, h3⟩ := h.blk
  have hneg : ¬ ((i : Int) < 0) := by omega
  have hlen : i < blk.cells.length := by rw [h3]; simpa using hi
  have hb : b < m.length := by
    rcases Nat.lt_or_ge b m.length with h | h
    · exact h
    · rw [List.getElem?_eq_none h] at h1; cases h1
  refine ⟨m.set b { blk with cells := blk.cells.set i (some (byteOf v)) }, ?_, ⟨⟨{ blk with cells := blk.cells.set i (some (byteOf v)) }, by simp [hb], h2, h4, ?_⟩⟩, by simp, ?_⟩
  · simp only [Mem.store8, Mem.block, h1, h2, h4, bind, Except.bind, if_true, hneg, if_false, Int.toNat_natCast, hlen,
      Bool.not_true, Bool.false_eq_true, byteOf]
  · simp [h3, List.map_set]
  · intro b' hb'
    simp [Ne.symm hb']

theorem MemBytes.store8 {m : Mem} {b : Nat} {cells : List UInt8} (h : MemBytes m b cells) (i : Nat) (hi : i < cells.length) (c : UInt8) :
    ∃ m', m.store8 b (i : Int) (sch c) = .ok m' ∧ MemBytes m' b (cells.set i c) ∧ m'.length = m.length ∧
      ∀ b', b' ≠ b → m'[b']? = m[b']? := by
  have := h.store8_int i hi (sch c)
  rwa [show byteOf (sch c) = c from byte_of_sch c] at this

end MiniC

namespace MiniC

theorem cstrFrom_str (s : List UInt8) (hs : (0 : UInt8) ∉ s) (rest : List (Option UInt8)) :
    cstrFrom (s.map some ++ some 0 :: rest) = .ok s := by
  induction s with
  | nil => simp [cstrFrom]
  | cons a s ih =>
    have ha : a ≠ 0 := fun h => hs (h ▸ List.mem_cons_self)
    have hs' : (0 : UInt8) ∉ s := fun h => hs (List.mem_cons_of_mem _ h)
    simp [cstrFrom, ha, ih hs', Except.map]

/-- `strlen`, `strchr` … see the string that starts at offset `k` of a block holding `s` -/
theorem MemBytes.cstr {m : Mem} {b : Nat} {s : List UInt8} (h : MemBytes m b (s ++ [0])) (hs : (0 : UInt8) ∉ s)
    (k : Nat) (hk : k ≤ s.length) : m.cstr b (k : Int) = .ok (s.drop k) := by
  obtain ⟨blk, h1, h2, _, h3⟩ := h.blk
  have hneg : ¬ ((k : Int) < 0) := by omega
  have hle : k ≤ blk.cells.length := by rw [h3]; simp; omega
  have hd : blk.cells.drop k = (s.drop k).map some ++ some 0 :: [] := by
    rw [h3, List.map_append, List.drop_append_of_le_length (by simpa using hk)]
    simp [List.map_drop]
  have hs' : (0 : UInt8) ∉ s.drop k := fun hm => hs (List.mem_of_mem_drop hm)
  simp only [Mem.cstr, Mem.block, h1, h2, bind, Except.bind, if_true, hneg, if_false, Int.toNat_natCast, hle, hd, cstrFrom_str _ hs']

end MiniC

namespace MiniC

/-- loops with an invariant indexed by the round: `n` rounds, each re-establishing the invariant for the next index,
    then the test fails -/
theorem loop_inv (test : St → R (Bool × St)) (body : St → Outcome) (step : St → R St) (Post : St → Prop) :
    ∀ (n : Nat) (Inv : Nat → St → Prop),
    (∀ i st, i < n → Inv i st → ∃ T Q st', test st = .ok (true, T) ∧ (body T = .normal Q ∨ body T = .cont Q) ∧
      step Q = .ok st' ∧ Inv (i + 1) st') →
    (∀ st, Inv n st → ∃ R, test st = .ok (false, R) ∧ Post R) →
    ∀ st fuel, Inv 0 st → n < fuel → ∃ R, loop test body step fuel st = .normal R ∧ Post R := by
  intro n
  induction n with
  | zero =>
    intro Inv _ hend st fuel h0 hf
    obtain ⟨f, rfl⟩ : ∃ f, fuel = f + 1 := ⟨fuel - 1, by omega⟩
    obtain ⟨R, ht, hp⟩ := hend st h0
    exact ⟨R, by simp [loop, ht], hp⟩
  | succ n ih =>
    intro Inv hstep hend st fuel h0 hf
    obtain ⟨f, rfl⟩ : ∃ f, fuel = f + 1 := ⟨fuel - 1, by omega⟩
    obtain ⟨T, Q, st', ht, hb, hs, hi⟩ := hstep 0 st (by omega) h0
    obtain ⟨R, hl, hp⟩ := ih (fun i => Inv (i + 1)) (fun i st hi' => hstep (i + 1) st (by omega)) hend st' f hi (by omega)
    refine ⟨R, ?_, hp⟩
    rcases hb with hb | hb <;> simp [loop, ht, hb, hs, hl]

theorem exec_inl_var {fuel : Nat} {args : Args} {nl : Nat} {body : Stmt} {st st1 st' : St} {vs : List Val} {b : Nat} {o : Int} {i : Nat}
    (ha : evalArgs args st = .ok (vs, st1))
    (hb : exec fuel body { mem := st1.mem, loc := vs ++ List.replicate (nl - vs.length) .undef } = .ret (.ptr b o) st')
    (hi : i < st1.loc.length) :
    exec fuel (.inl (some (.var i)) .ptr args nl body) st = .normal { mem := st'.mem, loc := st1.loc.set i (.ptr b o) } := by
  simp [exec, ha, hb, evalL, convert, writePlace, hi, Except.bind]

end MiniC

namespace MiniC

/-- a block whose bytes are `pre`, a NUL and anything behind it holds the C string `pre` -/
theorem MemBytes.cstr0 {m : Mem} {b : Nat} {pre rest : List UInt8} (h : MemBytes m b (pre ++ 0 :: rest)) (hp : (0 : UInt8) ∉ pre) :
    m.cstr b 0 = .ok pre := by
  obtain ⟨blk, h1, h2, _, h3⟩ := h.blk
  have hd : blk.cells = pre.map some ++ some 0 :: rest.map some := by rw [h3]; simp
  simp only [Mem.cstr, Mem.block, h1, h2, bind, Except.bind, if_true, Int.lt_irrefl, if_false, Int.toNat_zero, Nat.zero_le,
    List.drop_zero, hd, cstrFrom_str _ hp]

end MiniC

namespace MiniC

theorem cstrFrom_drop (pre : List UInt8) (l : List (Option UInt8)) : (pre.map some ++ l).drop pre.length = l := by
  have : (pre.map some).length = pre.length := by simp
  rw [← this, List.drop_left]

/-- the C string that starts behind the first `pre.length` bytes of a block -/
theorem MemBytes.cstr_at {m : Mem} {b : Nat} {pre mid rest : List UInt8} (h : MemBytes m b (pre ++ mid ++ 0 :: rest))
    (hp : (0 : UInt8) ∉ mid) : m.cstr b (pre.length : Int) = .ok mid := by
  obtain ⟨blk, h1, h2, _, h3⟩ := h.blk
  have hd : blk.cells = pre.map some ++ (mid.map some ++ some 0 :: rest.map some) := by rw [h3]; simp
  have hneg : ¬ ((pre.length : Int) < 0) := by omega
  have hle : pre.length ≤ blk.cells.length := by rw [hd]; simp
  simp only [Mem.cstr, Mem.block, h1, h2, bind, Except.bind, if_true, hneg, if_false, Int.toNat_natCast, hle]
  rw [hd, cstrFrom_drop, cstrFrom_str _ hp]

end MiniC

namespace MiniC

/-- a block is not touched by writes to other blocks -/
theorem MemBytes.frame {m m' : Mem} {b b0 : Nat} {cells : List UInt8} (h : MemBytes m b cells)
    (hoth : ∀ b', b' ≠ b0 → m'[b']? = m[b']?) (hne : b ≠ b0) : MemBytes m' b cells := by
  obtain ⟨blk, h1, h2, h3, h4⟩ := h.blk
  exact ⟨⟨blk, by rw [hoth b hne]; exact h1, h2, h3, h4⟩⟩

/-- a live, writable one-byte object (e.g. a `bool` the caller passes by address), initialised or not -/
def MemCell (m : Mem) (b : Nat) : Prop := ∃ blk, m[b]? = some blk ∧ blk.live = true ∧ blk.writable = true ∧ blk.cells.length = 1

theorem MemCell.store {m : Mem} {b : Nat} (h : MemCell m b) (v : Int) :
    ∃ m', m.store8 b 0 v = .ok m' ∧ MemBytes m' b [byteOf v] ∧ m'.length = m.length ∧ ∀ b', b' ≠ b → m'[b']? = m[b']? := by
  obtain ⟨blk, h1, h2, h4, h3⟩ := h
  have hb : b < m.length := by
    rcases Nat.lt_or_ge b m.length with h | h
    · exact h
    · rw [List.getElem?_eq_none h] at h1; cases h1
  obtain ⟨x, hx⟩ : ∃ x, blk.cells = [x] := by
    match hc : blk.cells, h3 with
    | [x], _ => exact ⟨x, rfl⟩
  refine ⟨m.set b { blk with cells := blk.cells.set 0 (some (byteOf v)) }, ?_, ⟨⟨{ blk with cells := blk.cells.set 0 (some (byteOf v)) }, by simp [hb], h2, h4, ?_⟩⟩, by simp, ?_⟩
  · simp [Mem.store8, Mem.block, h1, h2, h4, bind, Except.bind, h3, byteOf]
  · simp [hx]
  · intro b' hb'
    simp [Ne.symm hb']

theorem MemBytes.toCell {m : Mem} {b : Nat} {c : UInt8} (h : MemBytes m b [c]) : MemCell m b := by
  obtain ⟨blk, h1, h2, h3, h4⟩ := h.blk
  exact ⟨blk, h1, h2, h3, by rw [h4]; rfl⟩

end MiniC

namespace MiniC

/-! ### objects that are being filled: initialised bytes followed by uninitialised ones -/

/-- block `b` is alive and writable; its first bytes are `pre`, the remaining `k` bytes are not initialised -/
structure MemPart (m : Mem) (b : Nat) (pre : List UInt8) (k : Nat) : Prop where
  blk : ∃ blk, m[b]? = some blk ∧ blk.live = true ∧ blk.writable = true ∧ blk.cells = pre.map some ++ List.replicate k none

theorem MemPart.toBytes {m : Mem} {b : Nat} {pre : List UInt8} (h : MemPart m b pre 0) : MemBytes m b pre := by
  obtain ⟨blk, h1, h2, h3, h4⟩ := h.blk
  exact ⟨⟨blk, h1, h2, h3, by simpa using h4⟩⟩

/-- `malloc(n)`: a fresh object behind all existing ones, nothing else changes -/
theorem alloc_spec (m : Mem) (n : Nat) :
    (m.alloc n).2 = m.length ∧ MemPart (m.alloc n).1 m.length [] n ∧ (m.alloc n).1.length = m.length + 1 ∧
      ∀ b', b' < m.length → (m.alloc n).1[b']? = m[b']? := by
  refine ⟨rfl, ⟨⟨{ cells := List.replicate n none }, by simp [Mem.alloc], rfl, rfl, by simp⟩⟩, by simp [Mem.alloc], ?_⟩
  intro b' hb'
  simp [Mem.alloc, List.getElem?_append_left hb']

theorem byteOf_toNat (c : UInt8) : byteOf (c.toNat : Int) = c := by
  have h := c.toNat_lt
  simp only [byteOf, wrapTo, Ty.bits, Ty.signed, show (Ty.u8 == Ty.bool) = false from rfl, Bool.false_eq_true, if_false, Bool.false_and]
  have h256 : ((2 : Int) ^ 8) = 256 := by decide
  rw [h256]
  have : ((c.toNat : Int)) % 256 = c.toNat := Int.emod_eq_of_lt (by omega) (by omega)
  rw [this]
  apply UInt8.toNat_inj.1
  simp

theorem MemPart.store8 {m : Mem} {b : Nat} {pre : List UInt8} {k : Nat} (h : MemPart m b pre (k + 1)) (v : Int) :
    ∃ m', m.store8 b (pre.length : Int) v = .ok m' ∧ MemPart m' b (pre ++ [byteOf v]) k ∧ m'.length = m.length ∧
      ∀ b', b' ≠ b → m'[b']? = m[b']? := by
  obtain ⟨blk, h1, h2, h4, h3⟩ := h.blk
  have hneg : ¬ ((pre.length : Int) < 0) := by omega
  have hlen : pre.length < blk.cells.length := by rw [h3]; simp
  have hb : b < m.length := by
    rcases Nat.lt_or_ge b m.length with h | h
    · exact h
    · rw [List.getElem?_eq_none h] at h1; cases h1
  refine ⟨m.set b { blk with cells := blk.cells.set pre.length (some (byteOf v)) }, ?_,
    ⟨⟨{ blk with cells := blk.cells.set pre.length (some (byteOf v)) }, by simp [hb], h2, h4, ?_⟩⟩, by simp, ?_⟩
  · simp only [Mem.store8, Mem.block, h1, h2, h4, bind, Except.bind, if_true, hneg, if_false, Int.toNat_natCast, hlen,
      Bool.not_true, Bool.false_eq_true, byteOf]
  · have : (pre.map some).length = pre.length := by simp
    simp only [h3]
    rw [List.set_append_right _ _ (by omega), this, Nat.sub_self, List.replicate_succ, List.set_cons_zero]
    simp
  · intro b' hb'
    simp [Ne.symm hb']

theorem MemPart.storeBytes {m : Mem} {b : Nat} : ∀ (l : List UInt8) {pre : List UInt8} {k : Nat} (h : MemPart m b pre (l.length + k)),
    ∃ m', m.storeBytes b (pre.length : Int) l = .ok m' ∧ MemPart m' b (pre ++ l) k ∧ m'.length = m.length ∧
      ∀ b', b' ≠ b → m'[b']? = m[b']?
  | [], pre, k, h => ⟨m, rfl, by simpa using h, rfl, fun _ _ => rfl⟩
  | c :: cs, pre, k, h => by
    have h' : MemPart m b pre ((cs.length + k) + 1) := by
      have : (c :: cs).length + k = (cs.length + k) + 1 := by simp; omega
      rw [this] at h; exact h
    obtain ⟨m1, hs1, hp1, hl1, ho1⟩ := h'.store8 (c.toNat : Int)
    rw [byteOf_toNat] at hp1
    obtain ⟨m2, hs2, hp2, hl2, ho2⟩ := MemPart.storeBytes (m := m1) cs (pre := pre ++ [c]) (k := k) hp1
    refine ⟨m2, ?_, by simpa using hp2, hl2.trans hl1, fun b' hb' => by rw [ho2 b' hb', ho1 b' hb']⟩
    have e : ((pre ++ [c]).length : Int) = (pre.length : Int) + 1 := by simp
    rw [e] at hs2
    simp [Mem.storeBytes, hs1, bind, Except.bind, hs2]

end MiniC

namespace MiniC

theorem MemPart.store8_at {m : Mem} {b : Nat} {pre : List UInt8} {k : Nat} (h : MemPart m b pre k) (i : Nat) (hi : i < pre.length) (v : Int) :
    ∃ m', m.store8 b (i : Int) v = .ok m' ∧ MemPart m' b (pre.set i (byteOf v)) k ∧ m'.length = m.length ∧
      ∀ b', b' ≠ b → m'[b']? = m[b']? := by
  obtain ⟨blk, h1, h2, h4, h3⟩ := h.blk
  have hneg : ¬ ((i : Int) < 0) := by omega
  have hlen : i < blk.cells.length := by rw [h3]; simp; omega
  have hb : b < m.length := by
    rcases Nat.lt_or_ge b m.length with h | h
    · exact h
    · rw [List.getElem?_eq_none h] at h1; cases h1
  refine ⟨m.set b { blk with cells := blk.cells.set i (some (byteOf v)) }, ?_,
    ⟨⟨{ blk with cells := blk.cells.set i (some (byteOf v)) }, by simp [hb], h2, h4, ?_⟩⟩, by simp, ?_⟩
  · simp only [Mem.store8, Mem.block, h1, h2, h4, bind, Except.bind, if_true, hneg, if_false, Int.toNat_natCast, hlen,
      Bool.not_true, Bool.false_eq_true, byteOf]
  · simp only [h3]
    rw [List.set_append_left _ _ (by simpa using hi)]
    simp [List.map_set]
  · intro b' hb'
    simp [Ne.symm hb']

/-- a block that is being filled is not touched by writes to other blocks -/
theorem MemPart.frame {m m' : Mem} {b b0 : Nat} {pre : List UInt8} {k : Nat} (h : MemPart m b pre k)
    (hoth : ∀ b', b' ≠ b0 → m'[b']? = m[b']?) (hne : b ≠ b0) : MemPart m' b pre k := by
  obtain ⟨blk, h1, h2, h3, h4⟩ := h.blk
  exact ⟨⟨blk, by rw [hoth b hne]; exact h1, h2, h3, h4⟩⟩

theorem MemBytes.lt_length {m : Mem} {b : Nat} {cells : List UInt8} (h : MemBytes m b cells) : b < m.length := by
  obtain ⟨blk, h1, _⟩ := h.blk
  rcases Nat.lt_or_ge b m.length with h | h
  · exact h
  · rw [List.getElem?_eq_none h] at h1; cases h1

end MiniC

namespace MiniC

/-! ### `memcpy` / `memmove` on initialised objects, `strstr` -/

theorem MemBytes.loadBytes {m : Mem} {b : Nat} {cells : List UInt8} (h : MemBytes m b cells) :
    ∀ (n i : Nat), i + n ≤ cells.length → m.loadBytes b (i : Int) n = .ok ((cells.drop i).take n)
  | 0, i, _ => by simp [Mem.loadBytes]
  | n + 1, i, hle => by
    have hi : i < cells.length := by omega
    have ih := MemBytes.loadBytes h n (i + 1) (by omega)
    have e : ((i + 1 : Nat) : Int) = (i : Int) + 1 := by omega
    rw [e] at ih
    have hd : cells.drop i = cells[i] :: cells.drop (i + 1) := by rw [List.drop_eq_getElem_cons]
    simp only [Mem.loadBytes, h.load8 i hi, ih, bind, Except.bind]
    rw [hd, List.take_succ_cons]
    rw [byte_of_sch cells[i]]

theorem MemBytes.storeBytes_at {m : Mem} {b : Nat} : ∀ (l : List UInt8) {cells : List UInt8} (h : MemBytes m b cells) (i : Nat),
    i + l.length ≤ cells.length →
    ∃ m', m.storeBytes b (i : Int) l = .ok m' ∧ MemBytes m' b (cells.take i ++ l ++ cells.drop (i + l.length)) ∧ m'.length = m.length ∧
      ∀ b', b' ≠ b → m'[b']? = m[b']?
  | [], cells, h, i, _ => ⟨m, rfl, by simpa using h, rfl, fun _ _ => rfl⟩
  | c :: cs, cells, h, i, hle => by
    have hi : i < cells.length := by simp at hle; omega
    obtain ⟨m1, hs1, hp1, hl1, ho1⟩ := h.store8_int i hi (c.toNat : Int)
    rw [byteOf_toNat] at hp1
    obtain ⟨m2, hs2, hp2, hl2, ho2⟩ := MemBytes.storeBytes_at (m := m1) cs hp1 (i + 1) (by simp at hle ⊢; omega)
    refine ⟨m2, ?_, ?_, hl2.trans hl1, fun b' hb' => by rw [ho2 b' hb', ho1 b' hb']⟩
    · have e : ((i + 1 : Nat) : Int) = (i : Int) + 1 := by omega
      rw [e] at hs2
      simp [Mem.storeBytes, hs1, bind, Except.bind, hs2]
    · have e1 : (cells.set i c).take (i + 1) = cells.take i ++ [c] := by
        rw [List.take_succ_eq_append_getElem (by simpa using hi)]
        simp [List.take_set_of_le]
      have e2 : (cells.set i c).drop (i + 1 + cs.length) = cells.drop (i + (c :: cs).length) := by
        rw [List.drop_set_of_lt (by omega)]
        congr 1; simp; omega
      rw [e1, e2] at hp2
      simpa using hp2

theorem findSub_bound (pat : List UInt8) : ∀ (s : List UInt8) (k i : Nat), findSub pat s k = some i →
    k ≤ i ∧ (i - k) + pat.length ≤ s.length
  | [], k, i, h => by
    simp only [findSub] at h
    split at h
    · rename_i he
      simp at h; subst h
      have : pat = [] := by simpa using he
      simp [this]
    · cases h
  | c :: cs, k, i, h => by
    simp only [findSub] at h
    split at h
    · rename_i hp
      simp at h; subst h
      have := List.IsPrefix.length_le (List.isPrefixOf_iff_prefix.1 hp)
      simp at this ⊢; omega
    · have := findSub_bound pat cs (k + 1) i h
      simp; omega

end MiniC
