import Econf.Layered
import Econf.Lemmas.ParserLemmas

/-! Helper definitions and lemmas about the layered-read model: per-file behaviour of
    `readFileCB`, the trace discipline `traceOk` and its composition. -/

set_option linter.unusedSimpArgs false

namespace Econf

theorem parseBytes_err (cfg : Cfg) (content : Str) (e : Err) (n : Nat) (h : parseBytes cfg content = .error (e, n)) : ParseErr e := by
  unfold parseBytes at h
  simp only at h
  split at h
  · rename_i en heq
    cases h
    exact (parseLines_err _ _ _ _ _ heq).1
  · cases h

/-- reading an opened file leaves trace and call counter alone; its result is file-not-found, a
    parse error, or an object carrying the path -/
theorem readOpened_spec (ctx : RdCtx) (s : RdState) (join python : Bool) (a delim comment : Str) :
    let r := readOpened ctx s join python a delim comment
    r.1.trace = s.trace ∧ r.1.calls = s.calls ∧
    (r.2 = .error .nofile ∨ (∃ e, r.2 = .error e ∧ ParseErr e) ∨ ∃ kf, r.2 = .ok kf ∧ kf.path = some a) := by
  intro r
  simp only [r]
  unfold readOpened
  cases hr : ctx.fs.read a with
  | none => exact ⟨rfl, rfl, Or.inl rfl⟩
  | some content =>
    simp only
    cases hp : parseBytes { delim := delim, comment := comment, python := python, join := join } content with
    | error en =>
      obtain ⟨e, n⟩ := en
      exact ⟨rfl, rfl, Or.inr (Or.inl ⟨e, rfl, parseBytes_err _ _ _ _ hp⟩)⟩
    | ok st =>
      simp only
      refine ⟨?_, ?_, Or.inr (Or.inr ⟨_, rfl, rfl⟩)⟩
      · split <;> rfl
      · split <;> rfl

/-- the codes the gate can hand out -/
theorem gate_codes (g : Global) (node : Node) (e : Err) (h : gate g node = some e) :
    e = .fileIsSymLink ∨ e = .wrongOwner ∨ e = .wrongGroup ∨ e = .wrongFilePermission ∨ e = .wrongDirPermission := by
  unfold gate at h
  split at h
  · cases h; exact Or.inl rfl
  · split at h
    · cases h; exact Or.inr (Or.inl rfl)
    · split at h
      · cases h; exact Or.inr (Or.inr (Or.inl rfl))
      · split at h
        · cases h; exact Or.inr (Or.inr (Or.inr (Or.inl rfl)))
        · split at h
          · cases h; exact Or.inr (Or.inr (Or.inr (Or.inr rfl)))
          · cases h

theorem gate_not_cbfailed (g : Global) (node : Node) (e : Err) (h : gate g node = some e) : e ≠ .parsingCallbackFailed := by
  rcases gate_codes g node e h with h | h | h | h | h <;> (rw [h]; decide)

theorem C06_file (fs : FS) (f : Nat → Str → Bool) (s : RdState) (join python : Bool) (path delim comment : Str) :
    let r := readFileCB { fs := fs, cb := some f } s join python path delim comment
    (r.1.trace = s.trace ∧ r.1.calls = s.calls ∧ (∃ e, r.2 = .error e ∧ e ≠ .parsingCallbackFailed)) ∨
    (r.1.trace = s.trace ++ [Event.cb path] ∧ r.1.calls = s.calls + 1 ∧ f s.calls path = false ∧ r.2 = .error .parsingCallbackFailed) ∨
    (r.1.trace = s.trace ++ [Event.cb path] ∧ r.1.calls = s.calls + 1 ∧ f s.calls path = true ∧ r.2 = .error .nofile) ∨
    (∃ a, absPath fs path = some a ∧ r.1.trace = s.trace ++ [Event.cb path, Event.openFile a] ∧ r.1.calls = s.calls + 1 ∧
      f s.calls path = true ∧ (r.2 = .error .nofile ∨ (∃ e, r.2 = .error e ∧ ParseErr e) ∨ ∃ kf, r.2 = .ok kf ∧ kf.path = some a)) := by
  intro r
  simp only [r]
  unfold readFileCB
  cases hl : fs.lstat path with
  | none => exact Or.inl ⟨rfl, rfl, .nofile, rfl, by decide⟩
  | some node =>
    simp only
    cases hg : gate s.g node with
    | some e => exact Or.inl ⟨rfl, rfl, e, rfl, gate_not_cbfailed _ _ _ hg⟩
    | none =>
      simp only [askCallback]
      by_cases hf : f s.calls path = true
      · simp only [hf, Bool.not_true, Bool.false_eq_true, if_false]
        cases ha : absPath fs path with
        | none => refine Or.inr (Or.inr (Or.inl ⟨?_, ?_, ?_, ?_⟩)) <;> first | rfl | trivial
        | some a =>
          simp only
          have := readOpened_spec { fs := fs, cb := some f }
            { g := s.g, trace := s.trace ++ [Event.cb path] ++ [Event.openFile a], calls := s.calls + 1 } join python a delim comment
          simp only at this
          obtain ⟨ht, hc, hres⟩ := this
          refine Or.inr (Or.inr (Or.inr ⟨a, ?_, ?_, hc, ?_, hres⟩))
          · first | rfl | trivial
          · rw [ht]; simp
          · first | rfl | trivial
      · have hf' : f s.calls path = false := by simpa using hf
        simp only [hf', Bool.not_false, if_true]
        refine Or.inr (Or.inl ⟨?_, ?_, ?_, ?_⟩) <;> first | rfl | trivial

def cbPaths : List Event → List Str
  | [] => []
  | .cb p :: r => p :: cbPaths r
  | .openFile _ :: r => cbPaths r

def cbCount (t : List Event) : Nat := (cbPaths t).length

/-- all callback calls of the trace were accepted (`k` = index of the first one) -/
def allAccepted (f : Nat → Str → Bool) : Nat → List Event → Bool
  | _, [] => true
  | k, .cb p :: r => f k p && allAccepted f (k + 1) r
  | k, .openFile _ :: r => allAccepted f k r

/-- the trace discipline of C06: every open is directly preceded by an accepting callback call for
    exactly that file (`pend` = the path just accepted and not yet opened), and nothing at all
    follows a rejecting call -/
def traceOk (fs : FS) (f : Nat → Str → Bool) : Nat → Option Str → List Event → Bool
  | _, _, [] => true
  | k, _, .cb p :: rest => if f k p then traceOk fs f (k + 1) (some p) rest else rest.isEmpty
  | k, some p, .openFile a :: rest => (absPath fs p == some a) && traceOk fs f k none rest
  | _, none, .openFile _ :: _ => false

def startsWithCb : List Event → Bool
  | [] => true
  | .cb _ :: _ => true
  | .openFile _ :: _ => false

theorem cbPaths_append (a b : List Event) : cbPaths (a ++ b) = cbPaths a ++ cbPaths b := by
  induction a with
  | nil => rfl
  | cons e es ih => cases e <;> simp [cbPaths, ih]

theorem cbCount_append (a b : List Event) : cbCount (a ++ b) = cbCount a + cbCount b := by
  simp [cbCount, cbPaths_append]

theorem traceOk_pend_irrelevant (fs : FS) (f : Nat → Str → Bool) (k : Nat) (pend : Option Str) (b : List Event)
    (hb : startsWithCb b = true) : traceOk fs f k pend b = traceOk fs f k none b := by
  cases b with
  | nil => rfl
  | cons e es =>
    cases e with
    | cb p => rfl
    | openFile a => simp [startsWithCb] at hb

/-- appending a block that starts with a callback call (or is empty) to an accepted prefix -/
theorem traceOk_append (fs : FS) (f : Nat → Str → Bool) (k : Nat) (pend : Option Str) (a b : List Event)
    (ha : traceOk fs f k pend a = true) (hacc : allAccepted f k a = true) (hb : startsWithCb b = true)
    (hbok : traceOk fs f (k + cbCount a) none b = true) : traceOk fs f k pend (a ++ b) = true := by
  induction a generalizing k pend with
  | nil =>
    rw [List.nil_append, traceOk_pend_irrelevant fs f k pend b hb]
    simpa [cbCount, cbPaths] using hbok
  | cons e es ih =>
    cases e with
    | cb p =>
      simp only [allAccepted, Bool.and_eq_true] at hacc
      simp only [traceOk, hacc.1, if_true] at ha
      simp only [List.cons_append, traceOk, hacc.1, if_true]
      have hcnt : k + cbCount (Event.cb p :: es) = (k + 1) + cbCount es := by
        simp only [cbCount, cbPaths, List.length_cons]; omega
      rw [hcnt] at hbok
      exact ih (k + 1) (some p) ha hacc.2 hbok
    | openFile a' =>
      cases pend with
      | none => simp [traceOk] at ha
      | some p =>
        simp only [traceOk, Bool.and_eq_true] at ha
        simp only [List.cons_append, traceOk, Bool.and_eq_true]
        have hacc2 : allAccepted f k es = true := by simpa [allAccepted] using hacc
        have hc2 : k + cbCount (Event.openFile a' :: es) = k + cbCount es := by simp [cbCount, cbPaths]
        rw [hc2] at hbok
        exact ⟨ha.1, ih k none ha.2 hacc2 hbok⟩

def SeqSpec (fs : FS) (f : Nat → Str → Bool) (s s' : RdState) (paths : List Str) (failedCb : Bool) : Prop :=
  ∃ evs : List Event,
    s'.trace = s.trace ++ evs ∧
    s'.calls = s.calls + cbCount evs ∧
    traceOk fs f s.calls none evs = true ∧
    startsWithCb evs = true ∧
    (cbPaths evs).Sublist paths ∧
    (failedCb = false → allAccepted f s.calls evs = true) ∧
    (failedCb = true → ∃ pre p, evs = pre ++ [Event.cb p] ∧ allAccepted f s.calls pre = true ∧ f (s.calls + cbCount pre) p = false)

def isCbFailed {α} : Except Err α → Bool
  | .error .parsingCallbackFailed => true
  | _ => false

theorem allAccepted_append (f : Nat → Str → Bool) (k : Nat) (a b : List Event) :
    allAccepted f k (a ++ b) = (allAccepted f k a && allAccepted f (k + cbCount a) b) := by
  induction a generalizing k with
  | nil => simp [allAccepted, cbCount, cbPaths]
  | cons e es ih =>
    cases e with
    | cb p =>
      have hc : k + cbCount (Event.cb p :: es) = k + 1 + cbCount es := by
        simp only [cbCount, cbPaths, List.length_cons]; omega
      rw [hc]
      simp only [List.cons_append, allAccepted, ih, Bool.and_assoc]
    | openFile a =>
      have hc : k + cbCount (Event.openFile a :: es) = k + cbCount es := by simp only [cbCount, cbPaths]
      rw [hc]
      simp only [List.cons_append, allAccepted, ih]

theorem seqSpec_file (fs : FS) (f : Nat → Str → Bool) (s : RdState) (join python : Bool) (path delim comment : Str) :
    let r := readFileCB { fs := fs, cb := some f } s join python path delim comment
    SeqSpec fs f s r.1 [path] (isCbFailed r.2) := by
  intro r
  have h := C06_file fs f s join python path delim comment
  simp only at h
  rcases h with ⟨ht, hc, e, he, hne⟩ | ⟨ht, hc, hf, hr⟩ | ⟨ht, hc, hf, hr⟩ | ⟨a, ha, ht, hc, hf, hr⟩
  · have hfail : isCbFailed r.2 = false := by
      simp only [r, he]; cases e <;> simp_all [isCbFailed]
    rw [hfail]
    exact ⟨[], by simpa using ht, by simpa [cbCount, cbPaths] using hc, rfl, rfl, by simp [cbPaths], fun _ => rfl, fun h => by cases h⟩
  · have hfail : isCbFailed r.2 = true := by simp only [r, hr, isCbFailed]
    rw [hfail]
    refine ⟨[Event.cb path], ht, by simpa [cbCount, cbPaths] using hc, by simp [traceOk, hf], rfl, by simp [cbPaths], (fun h => by cases h), fun _ => ⟨[], path, rfl, rfl, by simpa [cbCount, cbPaths] using hf⟩⟩
  · have hfail : isCbFailed r.2 = false := by simp only [r, hr, isCbFailed]
    rw [hfail]
    exact ⟨[Event.cb path], ht, by simpa [cbCount, cbPaths] using hc, by simp [traceOk, hf], rfl, by simp [cbPaths], fun _ => by simp [allAccepted, hf], fun h => by cases h⟩
  · have hfail : isCbFailed r.2 = false := by
      rcases hr with hr | ⟨e, hr, hpe⟩ | ⟨kf, hr, _⟩
      · simp only [r, hr, isCbFailed]
      · simp only [r, hr]
        rcases hpe with rfl | rfl | rfl | rfl <;> rfl
      · simp only [r, hr, isCbFailed]
    rw [hfail]
    exact ⟨[Event.cb path, Event.openFile a], ht, by simpa [cbCount, cbPaths] using hc, by simp [traceOk, hf, ha], rfl,
      by simp [cbPaths], fun _ => by simp [allAccepted, hf], fun h => by cases h⟩

/-- composition of two consecutive pieces, the first of which did not end in a rejection -/
theorem seqSpec_trans (fs : FS) (f : Nat → Str → Bool) (s s1 s2 : RdState) (p1 p2 : List Str) (fl : Bool)
    (h1 : SeqSpec fs f s s1 p1 false) (h2 : SeqSpec fs f s1 s2 p2 fl) : SeqSpec fs f s s2 (p1 ++ p2) fl := by
  obtain ⟨e1, t1, c1, ok1, st1, sub1, acc1, _⟩ := h1
  obtain ⟨e2, t2, c2, ok2, st2, sub2, acc2, rej2⟩ := h2
  have hacc1 := acc1 rfl
  refine ⟨e1 ++ e2, by rw [t2, t1, List.append_assoc], by rw [c2, c1, cbCount_append]; omega, ?_, ?_, ?_, ?_, ?_⟩
  · apply traceOk_append fs f s.calls none e1 e2 ok1 hacc1 st2
    rw [← c1]; exact ok2
  · cases e1 with
    | nil => simpa using st2
    | cons x xs => cases x <;> simp_all [startsWithCb]
  · rw [cbPaths_append]; exact List.Sublist.append sub1 sub2
  · intro hfl
    rw [allAccepted_append, hacc1, ← c1, acc2 hfl]; rfl
  · intro hfl
    obtain ⟨pre, p, he, hpa, hpf⟩ := rej2 hfl
    refine ⟨e1 ++ pre, p, by rw [he, List.append_assoc], ?_, ?_⟩
    · rw [allAccepted_append, hacc1, ← c1, hpa]; rfl
    · rw [cbCount_append, ← Nat.add_assoc, ← c1]; exact hpf


theorem isCbFailed_err {α β : Type} (e : Err) : isCbFailed (Except.error e : Except Err α) = isCbFailed (Except.error e : Except Err β) := by
  cases e <;> rfl

theorem seqSpec_refl (fs : FS) (f : Nat → Str → Bool) (s : RdState) (paths : List Str) : SeqSpec fs f s s paths false :=
  ⟨[], by simp, by simp [cbCount, cbPaths], rfl, rfl, by simp [cbPaths], fun _ => rfl, fun h => by cases h⟩

theorem seqSpec_weaken (fs : FS) (f : Nat → Str → Bool) (s s' : RdState) (p q : List Str) (fl : Bool)
    (h : SeqSpec fs f s s' p fl) (hs : p.Sublist q) : SeqSpec fs f s s' q fl := by
  obtain ⟨e, a, b, c, d, sub, g, i⟩ := h
  exact ⟨e, a, b, c, d, sub.trans hs, g, i⟩

/-- `readSeq`: the callback sees a sub-sequence of the paths in order; a rejection ends the read -/
theorem readSeq_spec (fs : FS) (f : Nat → Str → Bool) (join python : Bool) (delim comment : Str) (s : RdState) (paths : List Str) :
    let r := readSeq { fs := fs, cb := some f } join python delim comment s paths
    SeqSpec fs f s r.1 paths (isCbFailed r.2) := by
  induction paths generalizing s with
  | nil => exact seqSpec_refl fs f s []
  | cons p ps ih =>
    intro r
    simp only [r, readSeq]
    have hfile := seqSpec_file fs f s join python p delim comment
    simp only at hfile
    cases hr : (readFileCB { fs := fs, cb := some f } s join python p delim comment).2 with
    | error e =>
      rw [hr] at hfile
      have : (readFileCB { fs := fs, cb := some f } s join python p delim comment) =
          ((readFileCB { fs := fs, cb := some f } s join python p delim comment).1, Except.error e) := by
        rw [← hr]
      rw [this]
      simp only
      rw [isCbFailed_err (β := List KeyFile)] at hfile
      exact seqSpec_weaken _ _ _ _ _ _ _ hfile ((List.nil_sublist ps).cons_cons p)
    | ok kf =>
      rw [hr] at hfile
      have : (readFileCB { fs := fs, cb := some f } s join python p delim comment) =
          ((readFileCB { fs := fs, cb := some f } s join python p delim comment).1, Except.ok kf) := by
        rw [← hr]
      rw [this]
      simp only
      have hrest := ih (readFileCB { fs := fs, cb := some f } s join python p delim comment).1
      simp only at hrest
      have hfile' : SeqSpec fs f s (readFileCB { fs := fs, cb := some f } s join python p delim comment).1 [p] false := by
        simpa [isCbFailed] using hfile
      have hcomb := seqSpec_trans fs f _ _ _ [p] ps _ hfile' hrest
      cases hr2 : (readSeq { fs := fs, cb := some f } join python delim comment
          (readFileCB { fs := fs, cb := some f } s join python p delim comment).1 ps).2 with
      | error e2 =>
        have h2 : (readSeq { fs := fs, cb := some f } join python delim comment
            (readFileCB { fs := fs, cb := some f } s join python p delim comment).1 ps) =
            ((readSeq { fs := fs, cb := some f } join python delim comment
            (readFileCB { fs := fs, cb := some f } s join python p delim comment).1 ps).1, Except.error e2) := by rw [← hr2]
        rw [h2]; simp only
        rw [hr2] at hcomb
        simpa [isCbFailed] using hcomb
      | ok kfs =>
        have h2 : (readSeq { fs := fs, cb := some f } join python delim comment
            (readFileCB { fs := fs, cb := some f } s join python p delim comment).1 ps) =
            ((readSeq { fs := fs, cb := some f } join python delim comment
            (readFileCB { fs := fs, cb := some f } s join python p delim comment).1 ps).1, Except.ok kfs) := by rw [← hr2]
        rw [h2]; simp only
        rw [hr2] at hcomb
        simpa [isCbFailed] using hcomb


theorem pair_eta {α β} (p : α × β) (b : β) (h : p.2 = b) : p = (p.1, b) := by rw [← h]

/-- `readFirst` (main file search) -/
theorem readFirst_spec (fs : FS) (f : Nat → Str → Bool) (join python : Bool) (delim comment : Str) (s : RdState) (paths : List Str) :
    let r := readFirst { fs := fs, cb := some f } join python delim comment s paths
    SeqSpec fs f s r.1 paths (isCbFailed r.2) := by
  induction paths generalizing s with
  | nil => exact seqSpec_refl fs f s []
  | cons p ps ih =>
    intro r
    simp only [r, readFirst]
    have hfile := seqSpec_file fs f s join python p delim comment
    simp only at hfile
    cases hr : (readFileCB { fs := fs, cb := some f } s join python p delim comment).2 with
    | ok kf =>
      rw [pair_eta _ _ hr]; simp only
      rw [hr] at hfile
      exact seqSpec_weaken _ _ _ _ _ _ _ (by simpa [isCbFailed] using hfile) ((List.nil_sublist ps).cons_cons p)
    | error e =>
      rw [pair_eta _ _ hr]
      rw [hr] at hfile
      by_cases hn : e = .nofile
      · subst hn
        simp only
        have hfile' : SeqSpec fs f s (readFileCB { fs := fs, cb := some f } s join python p delim comment).1 [p] false := by
          simpa [isCbFailed] using hfile
        have hrest := ih (readFileCB { fs := fs, cb := some f } s join python p delim comment).1
        simp only at hrest
        exact seqSpec_trans fs f _ _ _ [p] ps _ hfile' hrest
      · rw [isCbFailed_err (β := Option KeyFile)] at hfile
        cases e <;> first
          | exact absurd rfl hn
          | (simp only; exact seqSpec_weaken _ _ _ _ _ _ _ hfile ((List.nil_sublist ps).cons_cons p))


/-- the security settings of the process-wide state -/
def secOf (g : Global) : Bool × Nat × Bool × Nat × Bool × Bool × Nat × Nat :=
  (g.ownerSet, g.owner, g.groupSet, g.group, g.allowSymlinks, g.permsSet, g.permsFile, g.permsDir)

/-- the process-wide setting reads depend on, apart from the security settings: the drop-in directory
    list.  (The error-location record `errFile`/`errLine` is written by reads but never read by them.) -/
def dataOf (g : Global) : List Str := g.confDirs

/-- the result of reading an opened file does not depend on the read state -/
theorem readOpened_result (ctx : RdCtx) (s1 s2 : RdState) (join python : Bool) (a delim comment : Str) :
    (readOpened ctx s1 join python a delim comment).2 = (readOpened ctx s2 join python a delim comment).2 := by
  unfold readOpened
  cases ctx.fs.read a with
  | none => rfl
  | some content =>
    simp only
    cases parseBytes { delim := delim, comment := comment, python := python, join := join } content <;> rfl

theorem readOpened_sec (ctx : RdCtx) (s : RdState) (join python : Bool) (a delim comment : Str) :
    secOf (readOpened ctx s join python a delim comment).1.g = secOf s.g := by
  unfold readOpened
  cases ctx.fs.read a with
  | none => rfl
  | some content =>
    simp only
    cases parseBytes { delim := delim, comment := comment, python := python, join := join } content with
    | error en => rfl
    | ok st => simp only; split <;> rfl

theorem readOpened_data (ctx : RdCtx) (s1 s2 : RdState) (h : dataOf s1.g = dataOf s2.g) (join python : Bool) (a delim comment : Str) :
    dataOf (readOpened ctx s1 join python a delim comment).1.g = dataOf (readOpened ctx s2 join python a delim comment).1.g := by
  unfold readOpened
  unfold dataOf at h ⊢
  cases ctx.fs.read a with
  | none => exact h
  | some content =>
    simp only
    cases parseBytes { delim := delim, comment := comment, python := python, join := join } content with
    | error en => exact h
    | ok st =>
      simp only
      split <;> exact h

theorem readOpened_trace (ctx : RdCtx) (s : RdState) (join python : Bool) (a delim comment : Str) :
    (readOpened ctx s join python a delim comment).1.trace = s.trace ∧ (readOpened ctx s join python a delim comment).1.calls = s.calls := by
  have := readOpened_spec ctx s join python a delim comment
  exact ⟨this.1, this.2.1⟩


def accepts (cb : Callback) (calls : Nat) (path : Str) : Bool :=
  match cb with
  | none => true
  | some f => f calls path

theorem askCallback_g (cb : Callback) (s : RdState) (path : Str) : (askCallback cb s path).1.g = s.g := by
  cases cb <;> rfl

theorem askCallback_acc (cb : Callback) (s : RdState) (path : Str) : (askCallback cb s path).2 = accepts cb s.calls path := by
  cases cb <;> rfl

/-- Two reads of the same file from related states give the same result when the gate decides
    alike and the callbacks decide alike. -/
theorem readFileCB_sim (fs : FS) (cb1 cb2 : Callback) (s1 s2 : RdState) (join python : Bool) (path delim comment : Str)
    (hd : dataOf s1.g = dataOf s2.g)
    (hg : ∀ node, fs.lstat path = some node → gate s1.g node = gate s2.g node)
    (ha : accepts cb1 s1.calls path = accepts cb2 s2.calls path) :
    (readFileCB { fs := fs, cb := cb1 } s1 join python path delim comment).2 = (readFileCB { fs := fs, cb := cb2 } s2 join python path delim comment).2 ∧
    dataOf (readFileCB { fs := fs, cb := cb1 } s1 join python path delim comment).1.g = dataOf (readFileCB { fs := fs, cb := cb2 } s2 join python path delim comment).1.g ∧
    secOf (readFileCB { fs := fs, cb := cb1 } s1 join python path delim comment).1.g = secOf s1.g ∧
    secOf (readFileCB { fs := fs, cb := cb2 } s2 join python path delim comment).1.g = secOf s2.g := by
  unfold readFileCB
  cases hl : fs.lstat path with
  | none => exact ⟨rfl, hd, rfl, rfl⟩
  | some node =>
    simp only
    rw [← hg node hl]
    cases gate s1.g node with
    | some e => exact ⟨rfl, hd, rfl, rfl⟩
    | none =>
      simp only
      have h1g := askCallback_g cb1 s1 path
      have h2g := askCallback_g cb2 s2 path
      have h1a := askCallback_acc cb1 s1 path
      have h2a := askCallback_acc cb2 s2 path
      generalize askCallback cb1 s1 path = x1 at h1g h1a ⊢
      generalize askCallback cb2 s2 path = x2 at h2g h2a ⊢
      obtain ⟨t1, a1⟩ := x1
      obtain ⟨t2, a2⟩ := x2
      simp only at h1g h2g h1a h2a ⊢
      have : a1 = a2 := by rw [h1a, h2a, ha]
      subst this
      cases a1 with
      | false =>
        simp only [Bool.not_false, if_true]
        refine ⟨?_, ?_, ?_, ?_⟩
        · first | rfl | trivial
        · rw [h1g, h2g]; exact hd
        · rw [h1g]
        · rw [h2g]
      | true =>
        simp only [Bool.not_true, Bool.false_eq_true, if_false]
        cases absPath fs path with
        | none =>
          refine ⟨?_, ?_, ?_, ?_⟩
          · first | rfl | trivial
          · rw [h1g, h2g]; exact hd
          · rw [h1g]
          · rw [h2g]
        | some a =>
          simp only
          refine ⟨readOpened_result _ _ _ _ _ _ _ _, ?_, ?_, ?_⟩
          · apply readOpened_data; simp only; rw [h1g, h2g]; exact hd
          · rw [readOpened_sec]; simp only; rw [h1g]
          · rw [readOpened_sec]; simp only; rw [h2g]


theorem gate_secOf (g1 g2 : Global) (h : secOf g1 = secOf g2) (node : Node) : gate g1 node = gate g2 node := by
  unfold secOf at h
  simp only [Prod.mk.injEq] at h
  unfold gate
  rw [h.1, h.2.1, h.2.2.1, h.2.2.2.1, h.2.2.2.2.1, h.2.2.2.2.2.1, h.2.2.2.2.2.2.1, h.2.2.2.2.2.2.2]


theorem readSeq_sim (fs : FS) (cb1 cb2 : Callback) (join python : Bool) (delim comment : Str)
    (ha : ∀ k1 k2 p, accepts cb1 k1 p = accepts cb2 k2 p) (paths : List Str) (s1 s2 : RdState)
    (hd : dataOf s1.g = dataOf s2.g)
    (hg : ∀ p ∈ paths, ∀ node, fs.lstat p = some node → gate s1.g node = gate s2.g node) :
    (readSeq { fs := fs, cb := cb1 } join python delim comment s1 paths).2 = (readSeq { fs := fs, cb := cb2 } join python delim comment s2 paths).2 ∧
    dataOf (readSeq { fs := fs, cb := cb1 } join python delim comment s1 paths).1.g = dataOf (readSeq { fs := fs, cb := cb2 } join python delim comment s2 paths).1.g ∧
    secOf (readSeq { fs := fs, cb := cb1 } join python delim comment s1 paths).1.g = secOf s1.g ∧
    secOf (readSeq { fs := fs, cb := cb2 } join python delim comment s2 paths).1.g = secOf s2.g := by
  induction paths generalizing s1 s2 with
  | nil => exact ⟨rfl, hd, rfl, rfl⟩
  | cons p ps ih =>
    have hf := readFileCB_sim fs cb1 cb2 s1 s2 join python p delim comment hd (hg p List.mem_cons_self) (ha _ _ _)
    obtain ⟨hr, hd', hs1, hs2⟩ := hf
    simp only [readSeq]
    generalize hx1 : readFileCB { fs := fs, cb := cb1 } s1 join python p delim comment = x1 at hr hd' hs1
    generalize hx2 : readFileCB { fs := fs, cb := cb2 } s2 join python p delim comment = x2 at hr hd' hs2
    obtain ⟨t1, r1⟩ := x1
    obtain ⟨t2, r2⟩ := x2
    simp only at hr hd' hs1 hs2 ⊢
    subst hr
    cases r1 with
    | error e => exact ⟨rfl, hd', hs1, hs2⟩
    | ok kf =>
      simp only
      have hg' : ∀ q ∈ ps, ∀ node, fs.lstat q = some node → gate t1.g node = gate t2.g node := by
        intro q hq node hn
        rw [gate_secOf t1.g s1.g hs1, gate_secOf t2.g s2.g hs2]
        exact hg q (List.mem_cons_of_mem _ hq) node hn
      obtain ⟨hr2, hd2, hsa, hsb⟩ := ih t1 t2 hd' hg'
      generalize readSeq { fs := fs, cb := cb1 } join python delim comment t1 ps = y1 at hr2 hd2 hsa
      generalize readSeq { fs := fs, cb := cb2 } join python delim comment t2 ps = y2 at hr2 hd2 hsb
      obtain ⟨u1, q1⟩ := y1
      obtain ⟨u2, q2⟩ := y2
      simp only at hr2 hd2 hsa hsb ⊢
      subst hr2
      cases q1 with
      | error e => exact ⟨rfl, hd2, hsa.trans hs1, hsb.trans hs2⟩
      | ok kfs => exact ⟨rfl, hd2, hsa.trans hs1, hsb.trans hs2⟩

theorem readFirst_sim (fs : FS) (cb1 cb2 : Callback) (join python : Bool) (delim comment : Str)
    (ha : ∀ k1 k2 p, accepts cb1 k1 p = accepts cb2 k2 p) (paths : List Str) (s1 s2 : RdState)
    (hd : dataOf s1.g = dataOf s2.g)
    (hg : ∀ p ∈ paths, ∀ node, fs.lstat p = some node → gate s1.g node = gate s2.g node) :
    (readFirst { fs := fs, cb := cb1 } join python delim comment s1 paths).2 = (readFirst { fs := fs, cb := cb2 } join python delim comment s2 paths).2 ∧
    dataOf (readFirst { fs := fs, cb := cb1 } join python delim comment s1 paths).1.g = dataOf (readFirst { fs := fs, cb := cb2 } join python delim comment s2 paths).1.g ∧
    secOf (readFirst { fs := fs, cb := cb1 } join python delim comment s1 paths).1.g = secOf s1.g ∧
    secOf (readFirst { fs := fs, cb := cb2 } join python delim comment s2 paths).1.g = secOf s2.g := by
  induction paths generalizing s1 s2 with
  | nil => exact ⟨rfl, hd, rfl, rfl⟩
  | cons p ps ih =>
    have hf := readFileCB_sim fs cb1 cb2 s1 s2 join python p delim comment hd (hg p List.mem_cons_self) (ha _ _ _)
    obtain ⟨hr, hd', hs1, hs2⟩ := hf
    simp only [readFirst]
    generalize hx1 : readFileCB { fs := fs, cb := cb1 } s1 join python p delim comment = x1 at hr hd' hs1
    generalize hx2 : readFileCB { fs := fs, cb := cb2 } s2 join python p delim comment = x2 at hr hd' hs2
    obtain ⟨t1, r1⟩ := x1
    obtain ⟨t2, r2⟩ := x2
    simp only at hr hd' hs1 hs2 ⊢
    subst hr
    cases r1 with
    | ok kf => exact ⟨rfl, hd', hs1, hs2⟩
    | error e =>
      have hg' : ∀ q ∈ ps, ∀ node, fs.lstat q = some node → gate t1.g node = gate t2.g node := by
        intro q hq node hn
        rw [gate_secOf t1.g s1.g hs1, gate_secOf t2.g s2.g hs2]
        exact hg q (List.mem_cons_of_mem _ hq) node hn
      obtain ⟨hr2, hd2, hsa, hsb⟩ := ih t1 t2 hd' hg'
      cases e <;> first
        | exact ⟨hr2, hd2, hsa.trans hs1, hsb.trans hs2⟩
        | exact ⟨rfl, hd', hs1, hs2⟩


/-- two history reads from related states agree when gates and callbacks decide alike on every
    path that can be consulted -/
theorem readHistory_sim (fs : FS) (cb1 cb2 : Callback) (ha : ∀ k1 k2 p, accepts cb1 k1 p = accepts cb2 k2 p)
    (s1 s2 : RdState) (hd : dataOf s1.g = dataOf s2.g)
    (dirs : List Str) (name suffix : Option Str) (delim : Option Str) (comment : Str) (join python : Bool) (confDirs : List Str)
    (hg : ∀ p node, fs.lstat p = some node → gate s1.g node = gate s2.g node) :
    (readHistory { fs := fs, cb := cb1 } s1 dirs name suffix delim comment join python confDirs).2 =
      (readHistory { fs := fs, cb := cb2 } s2 dirs name suffix delim comment join python confDirs).2 ∧
    dataOf (readHistory { fs := fs, cb := cb1 } s1 dirs name suffix delim comment join python confDirs).1.g =
      dataOf (readHistory { fs := fs, cb := cb2 } s2 dirs name suffix delim comment join python confDirs).1.g := by
  unfold readHistory
  cases delim with
  | none => exact ⟨rfl, hd⟩
  | some dl =>
    cases name with
    | none => exact ⟨rfl, hd⟩
    | some nm =>
      simp only
      by_cases hne : nm.isEmpty = true
      · simp only [hne, if_true]
        obtain ⟨hr, hd2, _, _⟩ := readSeq_sim fs cb1 cb2 join python dl comment ha
          (dropinPaths fs dirs nm (dotSuffix (some nm) suffix) (if confDirs.isEmpty then [dotSuffix (some nm) suffix ++ [0x2e, 0x64]] else confDirs))
          s1 s2 hd (fun p _ node hn => hg p node hn)
        generalize readSeq { fs := fs, cb := cb1 } join python dl comment s1 _ = y1 at hr hd2
        generalize readSeq { fs := fs, cb := cb2 } join python dl comment s2 _ = y2 at hr hd2
        obtain ⟨u1, q1⟩ := y1
        obtain ⟨u2, q2⟩ := y2
        simp only at hr hd2 ⊢
        subst hr
        cases q1 with
        | error e => exact ⟨rfl, hd2⟩
        | ok drops => simp only; split <;> exact ⟨rfl, hd2⟩
      · have hne' : nm.isEmpty = false := by simpa using hne
        simp only [hne', Bool.false_eq_true, if_false]
        obtain ⟨hm, hdm, hs1, hs2⟩ := readFirst_sim fs cb1 cb2 join python dl comment ha
          (mainCandidates dirs nm (dotSuffix (some nm) suffix)) s1 s2 hd (fun p _ node hn => hg p node hn)
        generalize readFirst { fs := fs, cb := cb1 } join python dl comment s1 _ = x1 at hm hdm hs1
        generalize readFirst { fs := fs, cb := cb2 } join python dl comment s2 _ = x2 at hm hdm hs2
        obtain ⟨t1, m1⟩ := x1
        obtain ⟨t2, m2⟩ := x2
        simp only at hm hdm hs1 hs2 ⊢
        subst hm
        cases m1 with
        | error e => exact ⟨rfl, hdm⟩
        | ok main =>
          simp only
          have hg' : ∀ p node, fs.lstat p = some node → gate t1.g node = gate t2.g node := by
            intro p node hn
            rw [gate_secOf t1.g s1.g hs1, gate_secOf t2.g s2.g hs2]; exact hg p node hn
          obtain ⟨hr, hd2, _, _⟩ := readSeq_sim fs cb1 cb2 join python dl comment ha
            (dropinPaths fs dirs nm (dotSuffix (some nm) suffix) (if confDirs.isEmpty then [dotSuffix (some nm) suffix ++ [0x2e, 0x64]] else confDirs))
            t1 t2 hdm (fun p _ node hn => hg' p node hn)
          generalize readSeq { fs := fs, cb := cb1 } join python dl comment t1 _ = y1 at hr hd2
          generalize readSeq { fs := fs, cb := cb2 } join python dl comment t2 _ = y2 at hr hd2
          obtain ⟨u1, q1⟩ := y1
          obtain ⟨u2, q2⟩ := y2
          simp only at hr hd2 ⊢
          subst hr
          cases q1 with
          | error e => exact ⟨rfl, hd2⟩
          | ok drops => simp only; split <;> exact ⟨rfl, hd2⟩


/-- byte-wise "less or equal" -/
def strLe (a b : Str) : Prop := strLt b a = false

theorem strLt_irrefl (a : Str) : strLt a a = false := by
  induction a with
  | nil => rfl
  | cons x xs ih => simp [strLt, ih]

theorem strLt_asymm (a b : Str) (h : strLt a b = true) : strLt b a = false := by
  induction a generalizing b with
  | nil => cases b <;> simp [strLt] at h ⊢
  | cons x xs ih =>
    cases b with
    | nil => simp [strLt] at h
    | cons y ys =>
      simp only [strLt] at h ⊢
      by_cases hxy : x < y
      · have : ¬ y < x := by
          intro hh; exact absurd (UInt8.lt_trans hxy hh) (UInt8.lt_irrefl x)
        simp [hxy, this]
      · by_cases hyx : y < x
        · simp [hxy, hyx] at h
        · simp only [hxy, hyx, if_false] at h ⊢
          exact ih ys h

theorem strLt_trans (a b c : Str) (h1 : strLt a b = true) (h2 : strLt b c = true) : strLt a c = true := by
  induction a generalizing b c with
  | nil =>
    cases b with
    | nil => simp [strLt] at h1
    | cons y ys => cases c <;> simp [strLt] at h2 ⊢
  | cons x xs ih =>
    cases b with
    | nil => simp [strLt] at h1
    | cons y ys =>
      cases c with
      | nil => simp [strLt] at h2
      | cons z zs =>
        simp only [strLt] at h1 h2 ⊢
        by_cases hxy : x < y
        · by_cases hyz : y < z
          · simp [UInt8.lt_trans hxy hyz]
          · by_cases hzy : z < y
            · simp [hyz, hzy] at h2
            · have : y = z := UInt8.le_antisymm (UInt8.not_lt.mp hzy) (UInt8.not_lt.mp hyz)
              subst this; simp [hxy]
        · by_cases hyx : y < x
          · simp [hxy, hyx] at h1
          · have hxe : x = y := UInt8.le_antisymm (UInt8.not_lt.mp hyx) (UInt8.not_lt.mp hxy)
            subst hxe
            simp only [hxy, if_false] at h1
            by_cases hxz : x < z
            · simp [hxz]
            · by_cases hzx : z < x
              · simp [hxz, hzx] at h2
              · simp only [hxz, hzx, if_false] at h2 ⊢
                exact ih ys zs h1 h2

/-- total: of two different names one is before the other -/
theorem strLt_total (a b : Str) : strLt a b = true ∨ a = b ∨ strLt b a = true := by
  induction a generalizing b with
  | nil => cases b <;> simp [strLt]
  | cons x xs ih =>
    cases b with
    | nil => simp [strLt]
    | cons y ys =>
      simp only [strLt]
      by_cases hxy : x < y
      · simp [hxy]
      · by_cases hyx : y < x
        · simp [hxy, hyx]
        · have hxe : x = y := UInt8.le_antisymm (UInt8.not_lt.mp hyx) (UInt8.not_lt.mp hxy)
          subst hxe
          simp only [hxy, if_false]
          rcases ih ys with h | h | h
          · exact Or.inl h
          · exact Or.inr (Or.inl (by rw [h]))
          · exact Or.inr (Or.inr h)

theorem strLe_of_not_lt (a b : Str) (h : strLt a b = false) : strLe b a := h

theorem strLe_trans (a b c : Str) (h1 : strLe a b) (h2 : strLe b c) : strLe a c := by
  unfold strLe at *
  cases hca : strLt c a with
  | false => rfl
  | true =>
    rcases strLt_total b a with h | h | h
    · rw [h] at h1; cases h1
    · subst h; rw [hca] at h2; cases h2
    · have := strLt_trans _ _ _ hca (by
        rcases strLt_total a b with h' | h' | h'
        · exact h'
        · subst h'; rw [strLt_irrefl] at h; cases h
        · rw [h'] at h1; cases h1)
      rw [this] at h2; cases h2

theorem insertSorted_perm (x : Str) (l : List Str) : (insertSorted x l).Perm (x :: l) := by
  induction l with
  | nil => exact List.Perm.refl _
  | cons y ys ih =>
    simp only [insertSorted]
    split
    · exact List.Perm.refl _
    · exact (List.Perm.cons y ih).trans (List.Perm.swap x y ys)

theorem insertSorted_sorted (x : Str) (l : List Str) (h : l.Pairwise strLe) : (insertSorted x l).Pairwise strLe := by
  induction l with
  | nil => simp [insertSorted]
  | cons y ys ih =>
    rw [List.pairwise_cons] at h
    simp only [insertSorted]
    split
    · rename_i hlt
      rw [List.pairwise_cons]
      refine ⟨?_, List.pairwise_cons.mpr h⟩
      intro z hz
      have hxy : strLe x y := strLt_asymm _ _ hlt
      rcases List.mem_cons.mp hz with rfl | hz
      · exact hxy
      · exact strLe_trans _ _ _ hxy (h.1 z hz)
    · rename_i hnlt
      have hyx : strLe y x := by
        have : strLt x y = false := by simpa using hnlt
        exact this
      rw [List.pairwise_cons]
      refine ⟨?_, ih h.2⟩
      intro z hz
      have := (insertSorted_perm x ys).mem_iff.mp hz
      rcases List.mem_cons.mp this with rfl | hz'
      · exact hyx
      · exact h.1 z hz'

/-- the directory listing is in byte-wise order and contains exactly the entries -/
theorem sortNames_sorted (l : List Str) : (sortNames l).Pairwise strLe := by
  induction l with
  | nil => simp [sortNames]
  | cons x xs ih => exact insertSorted_sorted x _ ih

theorem sortNames_perm (l : List Str) : (sortNames l).Perm l := by
  induction l with
  | nil => exact List.Perm.refl _
  | cons x xs ih => exact (insertSorted_perm x _).trans (List.Perm.cons x ih)


/-! ### an error result never carries the success code -/

theorem parseErr_ne_success (e : Err) (h : ParseErr e) : e ≠ .success := by
  rcases h with h | h | h | h <;> (rw [h]; intro hh; cases hh)

theorem gate_ne_success (g : Global) (node : Node) (e : Err) (h : gate g node = some e) : e ≠ .success := by
  rcases gate_codes g node e h with h | h | h | h | h <;> (rw [h]; decide)

theorem readOpened_ne_success (ctx : RdCtx) (s : RdState) (join python : Bool) (a delim comment : Str) (e : Err)
    (h : (readOpened ctx s join python a delim comment).2 = .error e) : e ≠ .success := by
  rcases (readOpened_spec ctx s join python a delim comment).2.2 with h1 | ⟨e', h1, hp⟩ | ⟨kf, h1, _⟩
  · rw [h1] at h; cases h; intro hh; cases hh
  · rw [h1] at h; cases h; exact parseErr_ne_success _ hp
  · rw [h1] at h; cases h

theorem readFileCB_ne_success (ctx : RdCtx) (s : RdState) (join python : Bool) (p d c : Str) (e : Err)
    (h : (readFileCB ctx s join python p d c).2 = .error e) : e ≠ .success := by
  unfold readFileCB at h
  split at h
  · cases h; intro hh; cases hh
  · split at h
    · rename_i hg; cases h; exact gate_ne_success _ _ _ hg
    · simp only at h
      split at h
      · cases h; intro hh; cases hh
      · split at h
        · cases h; intro hh; cases hh
        · exact readOpened_ne_success _ _ _ _ _ _ _ _ h

theorem readSeq_ne_success (ctx : RdCtx) (join python : Bool) (d c : Str) (s : RdState) (ps : List Str) (e : Err)
    (h : (readSeq ctx join python d c s ps).2 = .error e) : e ≠ .success := by
  induction ps generalizing s e with
  | nil => simp [readSeq] at h
  | cons p ps ih =>
    unfold readSeq at h
    simp only at h
    have h1 := readFileCB_ne_success ctx s join python p d c
    generalize readFileCB ctx s join python p d c = q at h h1
    obtain ⟨q1, q2⟩ := q
    cases q2 with
    | error e' => simp only at h; cases h; exact h1 _ rfl
    | ok kf =>
      simp only at h
      have h2 := fun e' => ih q1 e'
      generalize readSeq ctx join python d c q1 ps = r at h h2
      obtain ⟨r1, r2⟩ := r
      cases r2 with
      | error e' => simp only at h; cases h; exact h2 _ rfl
      | ok kfs => simp at h

theorem readFirst_ne_success (ctx : RdCtx) (join python : Bool) (d c : Str) (s : RdState) (ps : List Str) (e : Err)
    (h : (readFirst ctx join python d c s ps).2 = .error e) : e ≠ .success := by
  induction ps generalizing s e with
  | nil => simp [readFirst] at h
  | cons p ps ih =>
    unfold readFirst at h
    simp only at h
    have h1 := readFileCB_ne_success ctx s join python p d c
    generalize readFileCB ctx s join python p d c = q at h h1
    obtain ⟨q1, q2⟩ := q
    cases q2 with
    | ok kf => simp at h
    | error e' =>
      by_cases hn : e' = .nofile
      · subst hn; simp only at h; exact ih q1 e h
      · have : e = e' := by
          cases e' <;> simp_all
        rw [this]; exact h1 _ rfl

theorem readHistory_ne_success (ctx : RdCtx) (s : RdState) (dirs : List Str) (name suffix delim : Option Str)
    (comment : Str) (join python : Bool) (confDirs : List Str) (e : Err) (b : Bool)
    (h : (readHistory ctx s dirs name suffix delim comment join python confDirs).2 = .error (e, b)) : e ≠ .success := by
  unfold readHistory at h
  cases delim with
  | none => simp only at h; cases h; intro hh; cases hh
  | some d =>
    cases name with
    | none => simp only at h; cases h; intro hh; cases hh
    | some nm =>
      simp only at h
      by_cases hnm : nm.isEmpty = true
      · simp only [hnm, if_true] at h
        have h2 := readSeq_ne_success ctx join python d comment s
          (dropinPaths ctx.fs dirs nm (dotSuffix (some nm) suffix) (if confDirs.isEmpty then [dotSuffix (some nm) suffix ++ [0x2e, 0x64]] else confDirs))
        generalize readSeq ctx join python d comment s _ = r at h h2
        obtain ⟨r1, r2⟩ := r
        cases r2 with
        | error e' => simp only at h; cases h; exact h2 _ rfl
        | ok kfs =>
          simp only at h
          split at h
          · cases h; intro hh; cases hh
          · cases h
      · simp only [hnm, Bool.false_eq_true, if_false] at h
        have h1 := readFirst_ne_success ctx join python d comment s (mainCandidates dirs nm (dotSuffix (some nm) suffix))
        generalize readFirst ctx join python d comment s _ = q at h h1
        obtain ⟨q1, q2⟩ := q
        cases q2 with
        | error e' => simp only at h; cases h; exact h1 _ rfl
        | ok main =>
          simp only at h
          have h2 := readSeq_ne_success ctx join python d comment q1
            (dropinPaths ctx.fs dirs nm (dotSuffix (some nm) suffix) (if confDirs.isEmpty then [dotSuffix (some nm) suffix ++ [0x2e, 0x64]] else confDirs))
          generalize readSeq ctx join python d comment q1 _ = r at h h2
          obtain ⟨r1, r2⟩ := r
          cases r2 with
          | error e' => simp only at h; cases h; exact h2 _ rfl
          | ok kfs =>
            simp only at h
            split at h
            · cases h; intro hh; cases hh
            · cases h

theorem readConfigCore_ne_success (ctx : RdCtx) (s : RdState) (kf : KeyFile) (name suffix delim : Option Str) (comment : Str) (e : Err)
    (h : (readConfigCore ctx s kf name suffix delim comment).2 = .error e) : e ≠ .success := by
  unfold readConfigCore at h
  simp only at h
  have h1 := readHistory_ne_success ctx s kf.parseDirs name suffix delim comment kf.join kf.python
    (if kf.confDirs.isEmpty then s.g.confDirs else kf.confDirs)
  generalize readHistory ctx s kf.parseDirs name suffix delim comment kf.join kf.python _ = q at h h1
  obtain ⟨q1, q2⟩ := q
  cases q2 with
  | error eb => obtain ⟨e', b⟩ := eb; simp only at h; cases h; exact h1 _ _ rfl
  | ok files =>
    simp only at h
    split at h
    · cases h; intro hh; cases hh
    · cases h

end Econf
