import Econf.Bytes

/-! Generic list lemmas (takeWhile / dropWhile / trimming) used by the parser proofs. -/

set_option linter.unusedSimpArgs false

namespace Econf

theorem all_of_dropWhile_nil {α} (p : α → Bool) (l : List α) (h : l.dropWhile p = []) : ∀ x ∈ l, p x = true := by
  induction l with
  | nil => simp
  | cons a as ih =>
    rw [List.dropWhile_cons] at h
    split at h
    · rename_i hp
      intro x hx
      rcases List.mem_cons.mp hx with rfl | hx
      · exact hp
      · exact ih h x hx
    · cases h

theorem dropWhile_nil_of_all {α} (p : α → Bool) (l : List α) (h : ∀ x ∈ l, p x = true) : l.dropWhile p = [] := by
  induction l with
  | nil => rfl
  | cons a as ih =>
    rw [List.dropWhile_cons, if_pos (h a List.mem_cons_self)]
    exact ih (fun x hx => h x (List.mem_cons_of_mem _ hx))

theorem dropWhile_id_of_head {α} (p : α → Bool) (a : α) (l : List α) (h : p a = false) : (a :: l).dropWhile p = a :: l := by
  rw [List.dropWhile_cons]; simp [h]

/-- `dropLastWhile` removes nothing when the last element does not satisfy the predicate -/
theorem dropLastWhile_append_last (p : Byte → Bool) (l : Str) (a : Byte) (h : p a = false) :
    dropLastWhile p (l ++ [a]) = l ++ [a] := by
  unfold dropLastWhile
  simp [List.reverse_append, List.dropWhile_cons, h]

/-- … and removes a trailing block all of whose elements satisfy it -/
theorem dropLastWhile_append_all (p : Byte → Bool) (l t : Str) (ht : ∀ x ∈ t, p x = true) :
    dropLastWhile p (l ++ t) = dropLastWhile p l := by
  unfold dropLastWhile
  rw [List.reverse_append, List.dropWhile_append_of_pos (fun a ha => ht a (List.mem_reverse.mp ha))]

theorem dropLastWhile_nil (p : Byte → Bool) : dropLastWhile p [] = [] := rfl

theorem mem_of_mem_dropLastWhile (p : Byte → Bool) (l : Str) (x : Byte) (h : x ∈ dropLastWhile p l) : x ∈ l := by
  unfold dropLastWhile at h
  exact List.mem_reverse.mp ((List.dropWhile_sublist _).subset (List.mem_reverse.mp h))

theorem dropLastWhile_ne_nil (p : Byte → Bool) (l : Str) (x : Byte) (hx : x ∈ l) (hp : p x = false) :
    dropLastWhile p l ≠ [] := by
  intro h
  unfold dropLastWhile at h
  have h2 : l.reverse.dropWhile p = [] := by simpa using h
  have := all_of_dropWhile_nil p _ h2 x (List.mem_reverse.mpr hx)
  rw [hp] at this; cases this

theorem takeWhile_append_of_all {α} (p : α → Bool) (l r : List α) (h : ∀ x ∈ l, p x = true) :
    (l ++ r).takeWhile p = l ++ r.takeWhile p := by
  induction l with
  | nil => rfl
  | cons a as ih =>
    simp only [List.cons_append, List.takeWhile_cons, h a List.mem_cons_self, if_true]
    rw [ih (fun x hx => h x (List.mem_cons_of_mem _ hx))]

theorem dropWhile_append_of_all {α} (p : α → Bool) (l r : List α) (h : ∀ x ∈ l, p x = true) :
    (l ++ r).dropWhile p = r.dropWhile p := List.dropWhile_append_of_pos h

theorem takeWhile_stop {α} (p : α → Bool) (a : α) (r : List α) (h : p a = false) : (a :: r).takeWhile p = [] := by
  simp [List.takeWhile_cons, h]

theorem splitOn_joinWith (c : Byte) (parts : List Str) (hne : parts ≠ []) (h : ∀ p ∈ parts, c ∉ p) :
    splitOn c (joinWith c parts) = parts := by
  induction parts with
  | nil => exact absurd rfl hne
  | cons p ps ih =>
    have hp := h p List.mem_cons_self
    -- splitting a single piece without the separator
    have single : ∀ (q : Str) (rest : List Str), c ∉ q → splitOn c (q ++ c :: joinWith c rest) = q :: splitOn c (joinWith c rest) := by
      intro q rest hq
      induction q with
      | nil => simp [splitOn]
      | cons x xs ihq =>
        have hx : (x == c) = false := by
          have : x ≠ c := fun hh => hq (by simp [hh])
          simpa using this
        have hxs : c ∉ xs := fun hh => hq (by simp [hh])
        simp only [List.cons_append, splitOn, hx, Bool.false_eq_true, if_false, ihq hxs]
    have alone : ∀ (q : Str), c ∉ q → splitOn c q = [q] := by
      intro q hq
      induction q with
      | nil => rfl
      | cons x xs ihq =>
        have hx : (x == c) = false := by
          have : x ≠ c := fun hh => hq (by simp [hh])
          simpa using this
        have hxs : c ∉ xs := fun hh => hq (by simp [hh])
        simp only [splitOn, hx, Bool.false_eq_true, if_false, ihq hxs]
    cases ps with
    | nil => simp only [joinWith]; exact alone p hp
    | cons q qs =>
      simp only [joinWith]
      rw [single p (q :: qs) hp]
      rw [ih (by simp) (fun x hx => h x (List.mem_cons_of_mem _ hx))]

theorem startsWith_append (pre rest : Str) : startsWith (pre ++ rest) pre = true := by
  unfold startsWith; simp


end Econf
