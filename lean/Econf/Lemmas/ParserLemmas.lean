import Econf.Parser
import Econf.Lemmas.ListLemmas

/-! Helper lemmas about the parser model: line counter, folding over lines, closed set of errors,
    trailing-comment scan on lines without comment characters. -/

set_option linter.unusedSimpArgs false

namespace Econf

theorem storeNew_line (st : PState) (k : Str) (v : Option Str) (q : Bool) : (storeNew st k v q).line = st.line := rfl

theorem storeAppend_line (py : Bool) (st : PState) (v : Str) : (storeAppend py st v).line = st.line := by
  unfold storeAppend; split <;> rfl

theorem parseEntry_line (cfg : Cfg) (st st' : PState) (org name : Str) (h : parseEntry cfg st org name = .ok st') :
    st'.line = st.line := by
  unfold parseEntry at h
  simp only at h
  split at h
  · cases h; exact storeAppend_line _ _ _
  · split at h
    · cases h; rfl
    · split at h
      · cases h
      · cases h; rfl

theorem parseContent_line (cfg : Cfg) (st st' : PState) (org name : Str) (h : parseContent cfg st org name = .ok st') :
    st'.line = st.line := by
  unfold parseContent at h
  split at h
  · cases h; rfl
  · split at h
    · split at h
      · cases h
      · cases h; rfl
    · split at h
      · cases h; rfl
      · exact parseEntry_line cfg st st' org _ h

/-- every line that parses advances the line counter by exactly one -/
theorem parseLine_line (cfg : Cfg) (st st' : PState) (raw : Str) (h : parseLine cfg st raw = .ok st') :
    st'.line = st.line + 1 := by
  unfold parseLine at h
  simp only at h
  split at h
  · cases h; rfl
  · split at h
    · cases h; rfl
    · exact parseContent_line _ _ _ _ _ h

theorem parseLines_append (cfg : Cfg) (st : PState) (pre rest : List Str) :
    parseLines cfg st (pre ++ rest) =
      match parseLines cfg st pre with
      | .ok st' => parseLines cfg st' rest
      | .error e => .error e := by
  induction pre generalizing st with
  | nil => rfl
  | cons l ls ih =>
    simp only [List.cons_append, parseLines]
    cases parseLine cfg st l with
    | error e => rfl
    | ok st1 => exact ih st1

theorem parseLines_line (cfg : Cfg) (st st' : PState) (ls : List Str) (h : parseLines cfg st ls = .ok st') :
    st'.line = st.line + ls.length := by
  induction ls generalizing st with
  | nil => simp [parseLines] at h; cases h; rfl
  | cons l ls ih =>
    simp only [parseLines] at h
    cases hl : parseLine cfg st l with
    | error e => rw [hl] at h; cases h
    | ok st1 =>
      rw [hl] at h
      have := ih st1 h
      have h1 := parseLine_line cfg st st1 l hl
      simp only [List.length_cons]; omega

theorem parseLines_first_error (cfg : Cfg) (st st1 : PState) (pre : List Str) (bad : Str) (rest : List Str) (e : Err)
    (hpre : parseLines cfg st pre = .ok st1) (hbad : parseLine cfg st1 bad = .error e) :
    parseLines cfg st (pre ++ bad :: rest) = .error (e, st.line + pre.length + 1) := by
  rw [parseLines_append, hpre]
  simp only [parseLines, hbad]
  rw [parseLines_line cfg st st1 pre hpre]

def ParseErr (e : Err) : Prop :=
  e = .missingBracket ∨ e = .missingDelimiter ∨ e = .emptySectionName ∨ e = .textAfterSection

theorem parseSection_err (rest : Str) (e : Err) (h : parseSection rest = .error e) : ParseErr e := by
  unfold parseSection at h
  simp only at h
  split at h
  · cases h; exact Or.inl rfl
  · split at h
    · cases h
      split
      · exact Or.inr (Or.inr (Or.inr rfl))
      · exact Or.inl rfl
    · split at h
      · cases h; exact Or.inr (Or.inr (Or.inl rfl))
      · cases h

theorem skipDelim_err (delim : Str) (ds : Bool) (data : Str) (e : Err) (h : skipDelim delim ds data = .error e) :
    e = .missingDelimiter := by
  unfold skipDelim at h
  simp only at h
  split at h
  · split at h
    · cases h; rfl
    · split at h
      · cases h
      · cases h; rfl
  · split at h
    · split at h
      · cases h
      · split at h <;> cases h
    · cases h

theorem parseValue_err (delim : Str) (ds : Bool) (data : Str) (e : Err) (h : parseValue delim ds data = .error e) :
    e = .missingDelimiter := by
  unfold parseValue at h
  split at h
  · cases h
  · split at h
    · rename_i heq; cases h; exact skipDelim_err _ _ _ _ heq
    · cases h

theorem parseEntry_err (cfg : Cfg) (st : PState) (org name : Str) (e : Err) (h : parseEntry cfg st org name = .error e) :
    ParseErr e := by
  unfold parseEntry at h
  simp only at h
  split at h
  · cases h
  · split at h
    · cases h
    · split at h
      · rename_i heq
        cases h
        exact Or.inr (Or.inl (parseValue_err _ _ _ _ heq))
      · cases h

theorem parseContent_err (cfg : Cfg) (st : PState) (org name : Str) (e : Err) (h : parseContent cfg st org name = .error e) :
    ParseErr e := by
  unfold parseContent at h
  split at h
  · cases h
  · split at h
    · split at h
      · rename_i heq; cases h; exact parseSection_err _ _ heq
      · cases h
    · split at h
      · cases h
      · exact parseEntry_err _ _ _ _ _ h

/-- C04 / C13: whatever the line contains, a failure is one of the four documented parse errors -/
theorem parseLine_err (cfg : Cfg) (st : PState) (raw : Str) (e : Err) (h : parseLine cfg st raw = .error e) : ParseErr e := by
  unfold parseLine at h
  simp only at h
  split at h
  · cases h
  · split at h
    · cases h
    · exact parseContent_err _ _ _ _ _ h

theorem parseLines_err (cfg : Cfg) (st : PState) (ls : List Str) (e : Err) (n : Nat)
    (h : parseLines cfg st ls = .error (e, n)) : ParseErr e ∧ st.line < n ∧ n ≤ st.line + ls.length := by
  induction ls generalizing st with
  | nil => simp [parseLines] at h
  | cons l ls ih =>
    simp only [parseLines] at h
    cases hl : parseLine cfg st l with
    | error e' =>
      rw [hl] at h
      simp only [Except.error.injEq, Prod.mk.injEq] at h
      obtain ⟨rfl, rfl⟩ := h
      exact ⟨parseLine_err _ _ _ _ hl, by omega, by simp⟩
    | ok st1 =>
      rw [hl] at h
      have := ih st1 h
      have h1 := parseLine_line cfg st st1 l hl
      simp only [List.length_cons]
      exact ⟨this.1, by omega, by omega⟩

theorem lastIdx_none_of_not_mem (c : Byte) (l : Str) (h : c ∉ l) : lastIdx c l = none := by
  induction l with
  | nil => rfl
  | cons x xs ih =>
    have hx : x ≠ c := fun hh => h (by simp [hh])
    have hxs : c ∉ xs := fun hh => h (by simp [hh])
    simp [lastIdx, ih hxs, hx]

/-- a line without any comment character passes the trailing-comment scan unchanged -/
theorem scanComments_none (python : Bool) (comment name : Str) (ca : Option Str)
    (h : ∀ c ∈ comment, c ∉ name) : scanComments python comment name ca = (name, ca) := by
  unfold scanComments
  induction comment with
  | nil => rfl
  | cons c cs ih =>
    simp only [List.foldl_cons]
    have : scanOne python c name ca = (name, ca) := by
      unfold scanOne
      rw [lastIdx_none_of_not_mem c name (h c List.mem_cons_self)]
    rw [this]
    exact ih (fun c' hc' => h c' (List.mem_cons_of_mem _ hc'))


end Econf
