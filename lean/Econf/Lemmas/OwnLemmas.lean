import Econf.Own

/-!
  Lemmas about the ownership model: the ledger composes, and every function of `Econf/Own.lean` takes
  any set of live objects to the set its contract names (`Takes`).
-/

set_option linter.unusedSimpArgs false

namespace Econf

/-- all ids in use are below the allocation counter -/
def Bnd (L : List Nat) (n : Nat) : Prop := ∀ i ∈ L, i < n

/-- the event sequence is a correct ledger from `L`, and afterwards exactly the ids with `P` are alive -/
def Takes (L : List Nat) (evs : List OEv) (P : Nat → Prop) : Prop :=
  ∃ L', ledger L evs = some L' ∧ ∀ i, i ∈ L' ↔ P i

theorem ledger_append (L : List Nat) (a b : List OEv) :
    ledger L (a ++ b) = (ledger L a).bind (fun L' => ledger L' b) := by
  induction a generalizing L with
  | nil => simp [ledger]
  | cons e es ih =>
    simp only [List.cons_append, ledger]
    cases ledgerStep L e with
    | none => simp
    | some L' => simpa using ih L'

theorem Takes.nil (L : List Nat) : Takes L [] (· ∈ L) := ⟨L, rfl, fun _ => Iff.rfl⟩

theorem Takes.congr {L : List Nat} {evs : List OEv} {P Q : Nat → Prop} (h : Takes L evs P)
    (hpq : ∀ i, P i ↔ Q i) : Takes L evs Q := by
  obtain ⟨L', h1, h2⟩ := h
  exact ⟨L', h1, fun i => (h2 i).trans (hpq i)⟩

theorem Takes.append {L : List Nat} {a b : List OEv} {P Q : Nat → Prop} (ha : Takes L a P)
    (hb : ∀ L', (∀ i, i ∈ L' ↔ P i) → Takes L' b Q) : Takes L (a ++ b) Q := by
  obtain ⟨L', h1, h2⟩ := ha
  obtain ⟨L'', h3, h4⟩ := hb L' h2
  exact ⟨L'', by simp [ledger_append, h1, h3], h4⟩

theorem Takes.new {L : List Nat} {id : Nat} (h : id ∉ L) : Takes L [OEv.new id] (fun i => i ∈ L ∨ i = id) := by
  refine ⟨L ++ [id], ?_, fun i => by simp⟩
  simp [ledger, ledgerStep, h]

theorem Takes.new' {L : List Nat} {id : Nat} (h : id ∉ L) : Takes L [OEv.merged id] (fun i => i ∈ L ∨ i = id) := by
  refine ⟨L ++ [id], ?_, fun i => by simp⟩
  simp [ledger, ledgerStep, h]

theorem Takes.free {L : List Nat} {id : Nat} (h : id ∈ L) : Takes L [OEv.free id] (fun i => i ∈ L ∧ i ≠ id) := by
  refine ⟨L.filter (· != id), ?_, fun i => by simp⟩
  simp [ledger, ledgerStep, h]

theorem Takes.cb (L : List Nat) (p : Str) : Takes L [OEv.cb p] (· ∈ L) := ⟨L, rfl, fun _ => Iff.rfl⟩
theorem Takes.openFile (L : List Nat) (p : Str) : Takes L [OEv.openFile p] (· ∈ L) := ⟨L, rfl, fun _ => Iff.rfl⟩

theorem ownReadFileCB_spec (ctx : RdCtx) (o : OSt) (obj : Nat) (join python : Bool) (path delim comment : Str) :
    ∃ evs, (ownReadFileCB ctx o obj join python path delim comment).1.log = o.log ++ evs ∧
      (ownReadFileCB ctx o obj join python path delim comment).1.next = o.next ∧
      (∀ L, obj ∈ L → Takes L evs (fun i => i ∈ L ∧ ((ownReadFileCB ctx o obj join python path delim comment).2.2 = true → i ≠ obj))) ∧
      (∀ kf, (ownReadFileCB ctx o obj join python path delim comment).2.1 = .ok kf →
        (ownReadFileCB ctx o obj join python path delim comment).2.2 = false) := by
  unfold ownReadFileCB
  have base : ∀ (L : List Nat), Takes L [] (fun i => i ∈ L ∧ (false = true → i ≠ obj)) :=
    fun L => (Takes.nil L).congr (by simp)
  have cbt : ∀ (L : List Nat), Takes L (if ctx.cb.isSome then [OEv.cb path] else []) (· ∈ L) := by
    intro L; split
    · exact Takes.cb L path
    · exact Takes.nil L
  split
  · exact ⟨[], by simp, rfl, fun L _ => base L, by simp⟩
  · split
    · exact ⟨[], by simp, rfl, fun L _ => base L, by simp⟩
    · simp only
      split
      · refine ⟨if ctx.cb.isSome then [OEv.cb path] else [], ?_, rfl, fun L _ => (cbt L).congr (by simp), by simp⟩
        split <;> simp
      · split
        · refine ⟨if ctx.cb.isSome then [OEv.cb path] else [], ?_, rfl, fun L _ => (cbt L).congr (by simp), by simp⟩
          split <;> simp
        · rename_i abs _
          split
          · refine ⟨(if ctx.cb.isSome then [OEv.cb path] else []) ++ [OEv.openFile abs], ?_, rfl, ?_, by simp⟩
            · split <;> simp
            · intro L _
              exact Takes.append (cbt L) (fun L' hL' => (Takes.openFile L' abs).congr (by simp [hL']))
          · refine ⟨(if ctx.cb.isSome then [OEv.cb path] else []) ++ [OEv.openFile abs] ++ [OEv.free obj], ?_, rfl, ?_, by simp⟩
            · simp only [OSt.release, OSt.emit]; split <;> simp
            · intro L hobj
              refine Takes.append (P := (· ∈ L)) ?_ ?_
              · exact Takes.append (cbt L) (fun L' hL' => (Takes.openFile L' abs).congr (by simp [hL']))
              · intro L' hL'
                exact (Takes.free ((hL' obj).2 hobj)).congr (by simp [hL'])

theorem alloc_spec (o : OSt) : o.alloc.1.log = o.log ++ [OEv.new o.next] ∧ o.alloc.1.next = o.next + 1 ∧ o.alloc.2 = o.next ∧ o.alloc.1.rs = o.rs := by
  simp [OSt.alloc]

theorem ownReadFirst_spec (ctx : RdCtx) (join python : Bool) (delim comment : Str) (ps : List Str) :
    ∀ (o : OSt) (cur : Option Nat),
    ∃ evs, (ownReadFirst ctx join python delim comment o cur ps).1.log = o.log ++ evs ∧
      o.next ≤ (ownReadFirst ctx join python delim comment o cur ps).1.next ∧
      ∀ L : List Nat, (∀ c, cur = some c → c ∈ L) → Bnd L o.next →
      match ownReadFirst ctx join python delim comment o cur ps with
      | (o3, .ok (some (id', _)), cur3) => cur3 = some id' ∧ id' < o3.next ∧ (some id' = cur ∨ o.next ≤ id') ∧ Takes L evs (fun i => (i ∈ L ∧ some i ≠ cur) ∨ i = id')
      | (o3, .ok none, cur3) => (∀ c, cur3 = some c → c < o3.next ∧ (some c = cur ∨ o.next ≤ c)) ∧ Takes L evs (fun i => (i ∈ L ∧ some i ≠ cur) ∨ some i = cur3)
      | (_, .error _, _) => Takes L evs (fun i => i ∈ L ∧ some i ≠ cur) := by
  induction ps with
  | nil =>
    intro o cur
    refine ⟨[], by simp [ownReadFirst], by simp [ownReadFirst], ?_⟩
    intro L hc hb
    simp only [ownReadFirst]
    refine ⟨fun c hcc => ⟨hb c (hc c hcc), Or.inl hcc.symm⟩, (Takes.nil L).congr ?_⟩
    intro i
    constructor
    · intro hi
      by_cases h : some i = cur
      · exact Or.inr h
      · exact Or.inl ⟨hi, h⟩
    · rintro (⟨hi, _⟩ | h)
      · exact hi
      · exact hc i h.symm
  | cons p ps ih =>
    intro o cur
    -- the part after the object for this candidate has been chosen
    have key : ∀ (o1 : OSt) (id : Nat) (pre : List OEv), o1.log = o.log ++ pre → o.next ≤ o1.next →
        (∀ L : List Nat, (∀ c, cur = some c → c ∈ L) → Bnd L o.next →
          Takes L pre (fun i => (i ∈ L ∧ some i ≠ cur) ∨ i = id) ∧ (∀ i, i ∈ L → some i ≠ cur → i ≠ id) ∧ id < o1.next) →
        (some id = cur ∨ o.next ≤ id) →
        ∃ evs, (match ownReadFileCB ctx o1 id join python p delim comment with
            | (o2, r, freed) =>
              match r with
              | .ok kf => (o2, Except.ok (some (id, kf)), some id)
              | .error e =>
                if e = Err.nofile then ownReadFirst ctx join python delim comment o2 (if freed then none else some id) ps
                else (o2.releaseOpt (if freed then none else some id), .error e, none)).1.log = o.log ++ evs ∧
          o.next ≤ (match ownReadFileCB ctx o1 id join python p delim comment with
            | (o2, r, freed) =>
              match r with
              | .ok kf => (o2, Except.ok (some (id, kf)), some id)
              | .error e =>
                if e = Err.nofile then ownReadFirst ctx join python delim comment o2 (if freed then none else some id) ps
                else (o2.releaseOpt (if freed then none else some id), .error e, none)).1.next ∧
          ∀ L : List Nat, (∀ c, cur = some c → c ∈ L) → Bnd L o.next →
          match (match ownReadFileCB ctx o1 id join python p delim comment with
            | (o2, r, freed) =>
              match r with
              | .ok kf => (o2, Except.ok (some (id, kf)), some id)
              | .error e =>
                if e = Err.nofile then ownReadFirst ctx join python delim comment o2 (if freed then none else some id) ps
                else (o2.releaseOpt (if freed then none else some id), .error e, none)) with
          | (o3, .ok (some (id', _)), cur3) => cur3 = some id' ∧ id' < o3.next ∧ (some id' = cur ∨ o.next ≤ id') ∧ Takes L evs (fun i => (i ∈ L ∧ some i ≠ cur) ∨ i = id')
          | (o3, .ok none, cur3) => (∀ c, cur3 = some c → c < o3.next ∧ (some c = cur ∨ o.next ≤ c)) ∧ Takes L evs (fun i => (i ∈ L ∧ some i ≠ cur) ∨ some i = cur3)
          | (_, .error _, _) => Takes L evs (fun i => i ∈ L ∧ some i ≠ cur) := by
      intro o1 id pre hlog hnext hpre hfresh
      obtain ⟨evs2, h2log, h2next, h2takes, h2ok⟩ := ownReadFileCB_spec ctx o1 id join python p delim comment
      generalize ownReadFileCB ctx o1 id join python p delim comment = q at h2log h2next h2takes h2ok
      obtain ⟨o2, r, freed⟩ := q
      simp only at h2log h2next h2takes h2ok
      -- live set after the read of this candidate
      have mid : ∀ L : List Nat, (∀ c, cur = some c → c ∈ L) → Bnd L o.next →
          Takes L (pre ++ evs2) (fun i => ((i ∈ L ∧ some i ≠ cur) ∨ i = id) ∧ (freed = true → i ≠ id)) := by
        intro L hc hb
        refine Takes.append (hpre L hc hb).1 (fun L' hL' => ?_)
        exact (h2takes L' ((hL' id).2 (Or.inr rfl))).congr (by intro i; simp [hL'])
      -- without the object of this candidate the live set is the old one without `cur`
      have E : ∀ L : List Nat, (∀ c, cur = some c → c ∈ L) → Bnd L o.next → ∀ i,
          (((i ∈ L ∧ some i ≠ cur) ∨ i = id) ∧ i ≠ id) ↔ (i ∈ L ∧ some i ≠ cur) := by
        intro L hc hb i
        have := (hpre L hc hb).2.1 i
        constructor
        · rintro ⟨h | h, h'⟩
          · exact h
          · exact absurd h h'
        · intro h
          exact ⟨Or.inl h, this h.1 h.2⟩
      cases r with
      | ok kf =>
        have hf := h2ok kf rfl
        subst hf
        refine ⟨pre ++ evs2, by simp [h2log, hlog], by simp only; omega, ?_⟩
        intro L hc hb
        have hid := (hpre L hc hb).2.2
        simp only
        exact ⟨trivial, by omega, hfresh, (mid L hc hb).congr (by intro i; simp)⟩
      | error e =>
        by_cases hnf : e = .nofile
        · subst hnf
          simp only [↓reduceIte]
          obtain ⟨evs3, h3log, h3next, h3⟩ := ih o2 (if freed then none else some id)
          refine ⟨pre ++ evs2 ++ evs3, by simp [h3log, h2log, hlog], by omega, ?_⟩
          intro L hc hb
          have hid := (hpre L hc hb).2.2
          generalize ownReadFirst ctx join python delim comment o2 (if freed then none else some id) ps = q3 at h3log h3next h3 ⊢
          obtain ⟨o3, r3, cur3⟩ := q3
          simp only at h3log h3next h3 ⊢
          -- the intermediate live list satisfies the hypotheses of the induction hypothesis
          have hyp : ∀ L', (∀ i, i ∈ L' ↔ ((i ∈ L ∧ some i ≠ cur) ∨ i = id) ∧ (freed = true → i ≠ id)) →
              (∀ c, (if freed then none else some id) = some c → c ∈ L') ∧ Bnd L' o2.next ∧
              ∀ i, (i ∈ L' ∧ some i ≠ (if freed then none else some id)) ↔ (i ∈ L ∧ some i ≠ cur) := by
            intro L' hL'
            refine ⟨?_, ?_, ?_⟩
            · intro c hcc
              cases freed with
              | true => simp at hcc
              | false =>
                simp only [Bool.false_eq_true, if_false, Option.some.injEq] at hcc
                subst hcc
                exact (hL' _).2 ⟨Or.inr rfl, by simp⟩
            · intro i hi
              rcases ((hL' i).1 hi).1 with h | h
              · have := hb i h.1; omega
              · omega
            · intro i
              rw [hL' i]
              cases freed with
              | true => simpa using E L hc hb i
              | false =>
                simp only [Bool.false_eq_true, false_implies, and_true, if_false, ne_eq, Option.some.injEq]
                exact E L hc hb i
          have hcur1 : ∀ c, (if freed then none else some id) = some c → c ∈ [id] := by
            intro c hc'
            cases freed with
            | true => simp at hc'
            | false => simp at hc'; simp [hc']
          have hbnd1 : Bnd [id] o2.next := by
            intro i hi; simp at hi; subst hi; omega
          cases r3 with
          | error e3 =>
            simp only at h3 ⊢
            refine Takes.append (mid L hc hb) (fun L' hL' => ?_)
            obtain ⟨a, b, c⟩ := hyp L' hL'
            exact (h3 L' a b).congr c
          | ok m =>
            cases m with
            | none =>
              simp only at h3 ⊢
              refine ⟨fun c hcc => ⟨((h3 [id] hcur1 hbnd1).1 c hcc).1, ?_⟩, ?_⟩
              · rcases ((h3 [id] hcur1 hbnd1).1 c hcc).2 with h | h
                · cases freed with
                  | true => simp at h
                  | false =>
                    simp only [Bool.false_eq_true, if_false, Option.some.injEq] at h
                    subst h
                    exact hfresh
                · exact Or.inr (by omega)
              refine Takes.append (mid L hc hb) (fun L' hL' => ?_)
              obtain ⟨a, b, c⟩ := hyp L' hL'
              exact (h3 L' a b).2.congr (fun i => by rw [c i])
            | some m =>
              obtain ⟨id', kf'⟩ := m
              simp only at h3 ⊢
              have hb3 := h3 [id] (by intro c hc'; cases freed <;> simp_all) (by intro i hi; simp at hi; subst hi; omega)
              refine ⟨hb3.1, hb3.2.1, ?_, ?_⟩
              · rcases hb3.2.2.1 with h | h
                · cases freed with
                  | true => simp at h
                  | false =>
                    simp only [Bool.false_eq_true, if_false, Option.some.injEq] at h
                    subst h
                    exact hfresh
                · exact Or.inr (by omega)
              refine Takes.append (mid L hc hb) (fun L' hL' => ?_)
              obtain ⟨a, b, c⟩ := hyp L' hL'
              exact (h3 L' a b).2.2.2.congr (fun i => by rw [c i])
        · simp only [if_neg hnf]
          cases freed with
          | true =>
            refine ⟨pre ++ evs2, by simp [OSt.releaseOpt, h2log, hlog], by simp [OSt.releaseOpt]; omega, ?_⟩
            intro L hc hb
            exact (mid L hc hb).congr (fun i => by simpa using E L hc hb i)
          | false =>
            refine ⟨pre ++ evs2 ++ [OEv.free id], by simp [OSt.releaseOpt, OSt.release, OSt.emit, h2log, hlog],
              by simp only [OSt.releaseOpt, OSt.release, OSt.emit, Bool.false_eq_true, if_false]; omega, ?_⟩
            intro L hc hb
            refine Takes.append (mid L hc hb) (fun L' hL' => ?_)
            refine (Takes.free ((hL' id).2 ⟨Or.inr rfl, by simp⟩)).congr (fun i => ?_)
            rw [hL' i]
            simpa using E L hc hb i
    cases cur with
    | some c =>
      have := key o c [] (by simp) (Nat.le_refl _) (by
        intro L hc hb
        refine ⟨(Takes.nil L).congr (fun i => ?_), fun i _ h => by simpa using h, hb c (hc c rfl)⟩
        constructor
        · intro hi
          by_cases h : i = c
          · exact Or.inr h
          · exact Or.inl ⟨hi, by simpa using h⟩
        · rintro (⟨hi, _⟩ | h)
          · exact hi
          · exact h ▸ hc c rfl) (Or.inl rfl)
      simp only [ownReadFirst]
      exact this
    | none =>
      have := key o.alloc.1 o.alloc.2 [OEv.new o.next] (by simp [OSt.alloc]) (by simp [OSt.alloc]) (by
        intro L hc hb
        have hn : o.next ∉ L := fun h => Nat.lt_irrefl _ (hb _ h)
        refine ⟨(Takes.new hn).congr (fun i => by simp [OSt.alloc]), fun i hi _ => ?_, by simp [OSt.alloc]⟩
        have := hb i hi
        simp only [OSt.alloc]; omega) (Or.inr (by simp [OSt.alloc]))
      simp only [ownReadFirst]
      exact this

def idsOf (fs : List (Nat × KeyFile)) : List Nat := fs.map (·.1)

theorem Takes.freeAll : ∀ (ids : List Nat) (L : List Nat), ids.Nodup → (∀ i ∈ ids, i ∈ L) →
    Takes L (ids.map OEv.free) (fun i => i ∈ L ∧ i ∉ ids)
  | [], L, _, _ => (Takes.nil L).congr (by simp)
  | a :: as, L, hn, hs => by
    have hn' := List.nodup_cons.1 hn
    have : (a :: as).map OEv.free = [OEv.free a] ++ as.map OEv.free := rfl
    rw [this]
    refine Takes.append (Takes.free (hs a (by simp))) (fun L' hL' => ?_)
    refine (Takes.freeAll as L' hn'.2 (fun i hi => (hL' i).2 ⟨hs i (by simp [hi]), fun h => hn'.1 (h ▸ hi)⟩)).congr ?_
    intro i
    simp only [hL', List.mem_cons, not_or, and_assoc, ne_eq]

theorem releaseAll_log (ids : List Nat) : ∀ (o : OSt), (o.releaseAll ids).log = o.log ++ ids.map OEv.free ∧
    (o.releaseAll ids).next = o.next ∧ (o.releaseAll ids).rs = o.rs := by
  induction ids with
  | nil => intro o; simp [OSt.releaseAll]
  | cons a as ih =>
    intro o
    have := ih (o.release a)
    simp only [OSt.releaseAll, List.foldl_cons] at this ⊢
    rw [this.1, this.2.1, this.2.2]
    simp [OSt.release, OSt.emit]

theorem ownReadSeq_spec (ctx : RdCtx) (join python : Bool) (delim comment : Str) (ps : List Str) :
    ∀ (o : OSt),
    ∃ evs, (ownReadSeq ctx join python delim comment o ps).1.log = o.log ++ evs ∧
      o.next ≤ (ownReadSeq ctx join python delim comment o ps).1.next ∧
      (idsOf (ownReadSeq ctx join python delim comment o ps).2.2).Pairwise (· < ·) ∧
      (∀ i ∈ idsOf (ownReadSeq ctx join python delim comment o ps).2.2, o.next ≤ i ∧ i < (ownReadSeq ctx join python delim comment o ps).1.next) ∧
      ∀ L : List Nat, Bnd L o.next →
        Takes L evs (fun i => i ∈ L ∨ i ∈ idsOf (ownReadSeq ctx join python delim comment o ps).2.2) := by
  induction ps with
  | nil =>
    intro o
    exact ⟨[], by simp [ownReadSeq], by simp [ownReadSeq], by simp [ownReadSeq, idsOf], by simp [ownReadSeq, idsOf],
      fun L _ => (Takes.nil L).congr (by simp [ownReadSeq, idsOf])⟩
  | cons p ps ih =>
    intro o
    simp only [ownReadSeq]
    obtain ⟨evs2, h2log, h2next, h2takes, h2ok⟩ := ownReadFileCB_spec ctx o.alloc.1 o.alloc.2 join python p delim comment
    generalize ownReadFileCB ctx o.alloc.1 o.alloc.2 join python p delim comment = q at h2log h2next h2takes h2ok
    obtain ⟨o2, r, freed⟩ := q
    simp only at h2log h2next h2takes h2ok
    have hnew : ∀ L : List Nat, Bnd L o.next → Takes L [OEv.new o.next] (fun i => i ∈ L ∨ i = o.next) :=
      fun L hb => Takes.new (fun h => Nat.lt_irrefl _ (hb _ h))
    have mid2 : ∀ L : List Nat, Bnd L o.next →
        Takes L ([OEv.new o.next] ++ evs2) (fun i => (i ∈ L ∨ i = o.next) ∧ (freed = true → i ≠ o.next)) := by
      intro L hb
      refine Takes.append (hnew L hb) (fun L' hL' => ?_)
      exact (h2takes L' ((hL' _).2 (Or.inr (by simp [OSt.alloc])))).congr (fun i => by simp [hL', OSt.alloc])
    cases r with
    | error e =>
      cases freed with
      | true =>
        refine ⟨[OEv.new o.next] ++ evs2, by simp [h2log, OSt.alloc], by simp [h2next, OSt.alloc], by simp [idsOf], by simp [idsOf], ?_⟩
        intro L hb
        refine (mid2 L hb).congr (fun i => ?_)
        simp only [OSt.alloc, idsOf, List.map_nil, List.not_mem_nil, or_false, forall_const]
        constructor
        · rintro ⟨h | h, h'⟩
          · exact h
          · exact absurd h h'
        · intro h; exact ⟨Or.inl h, by have := hb i h; omega⟩
      | false =>
        refine ⟨[OEv.new o.next] ++ evs2 ++ [OEv.free o.next], by simp [h2log, OSt.alloc, OSt.release, OSt.emit],
          by simp [h2next, OSt.alloc, OSt.release, OSt.emit], by simp [idsOf], by simp [idsOf], ?_⟩
        intro L hb
        refine Takes.append (mid2 L hb) (fun L' hL' => ?_)
        refine (Takes.free ((hL' _).2 ⟨Or.inr rfl, by simp⟩)).congr (fun i => ?_)
        simp only [hL', OSt.alloc, idsOf, List.map_nil, List.not_mem_nil, or_false, Bool.false_eq_true, false_implies, and_true]
        constructor
        · rintro ⟨h | h, h'⟩
          · exact h
          · exact absurd h h'
        · intro h; exact ⟨Or.inl h, by have := hb i h; omega⟩
    | ok kf =>
      have hf := h2ok kf rfl
      subst hf
      obtain ⟨evs3, h3log, h3next, h3pw, h3rng, h3⟩ := ih o2
      generalize ownReadSeq ctx join python delim comment o2 ps = q3 at h3log h3next h3pw h3rng h3
      obtain ⟨o3, r3, rest⟩ := q3
      simp only at h3log h3next h3pw h3rng h3 ⊢
      have ho2 : o2.next = o.next + 1 := by simp [h2next, OSt.alloc]
      refine ⟨[OEv.new o.next] ++ evs2 ++ evs3, by simp [h3log, h2log, OSt.alloc], by omega, ?_, ?_, ?_⟩
      · simp only [idsOf, List.map_cons, List.pairwise_cons, OSt.alloc]
        refine ⟨fun i hi => ?_, h3pw⟩
        have := (h3rng i hi).1; omega
      · intro i hi
        simp only [idsOf, List.map_cons, List.mem_cons, OSt.alloc] at hi
        rcases hi with h | h
        · subst h; omega
        · have := h3rng i h; omega
      · intro L hb
        refine Takes.append (mid2 L hb) (fun L' hL' => ?_)
        refine (h3 L' (fun i hi => ?_)).congr (fun i => ?_)
        · rcases ((hL' i).1 hi).1 with h | h
          · have := hb i h; omega
          · omega
        · simp only [hL', idsOf, List.map_cons, List.mem_cons, OSt.alloc, Bool.false_eq_true, false_implies, and_true, or_assoc]

theorem releaseOpt_log (o : OSt) (c : Option Nat) :
    (o.releaseOpt c).log = o.log ++ (c.toList.map OEv.free) ∧ (o.releaseOpt c).next = o.next := by
  cases c <;> simp [OSt.releaseOpt, OSt.release, OSt.emit]

/-- what `readConfigHistoryWithCallback` guarantees: on success the files handed out are alive next to what was
    alive before, they are distinct and new; on failure nothing has changed -/
def HistPost (o : OSt) (L : List Nat) (evs : List OEv) : OSt × Except (Err × Bool) (List (Nat × KeyFile)) → Prop
  | (o', .ok files) => Takes L evs (fun i => i ∈ L ∨ i ∈ idsOf files) ∧ (idsOf files).Pairwise (· < ·) ∧
      (∀ i ∈ idsOf files, o.next ≤ i ∧ i < o'.next)
  | (_, .error _) => Takes L evs (· ∈ L)

theorem ownHistoryRest_spec (ctx : RdCtx) (o o1 : OSt) (main : Option (Nat × KeyFile)) (cur : Option Nat)
    (paths : List Str) (delim comment : Str) (join python : Bool) (evs1 : List OEv)
    (hlog : o1.log = o.log ++ evs1) (hnext : o.next ≤ o1.next)
    (hmain : ∀ L : List Nat, Bnd L o.next →
      match main with
      | some (id', _) => cur = some id' ∧ id' < o1.next ∧ o.next ≤ id' ∧ Takes L evs1 (fun i => i ∈ L ∨ i = id')
      | none => (∀ c, cur = some c → c < o1.next ∧ o.next ≤ c) ∧ Takes L evs1 (fun i => i ∈ L ∨ some i = cur)) :
    ∃ evs, (ownHistoryRest ctx o1 main cur paths delim comment join python).1.log = o.log ++ evs ∧
      o.next ≤ (ownHistoryRest ctx o1 main cur paths delim comment join python).1.next ∧
      ∀ L : List Nat, Bnd L o.next → HistPost o L evs (ownHistoryRest ctx o1 main cur paths delim comment join python) := by
  unfold ownHistoryRest
  simp only
  -- state after the release of the unused candidate object
  have h0 : ∃ evs0, (if main.isSome then o1 else o1.releaseOpt cur).log = o.log ++ evs0 ∧
      (if main.isSome then o1 else o1.releaseOpt cur).next = o1.next ∧
      ∀ L : List Nat, Bnd L o.next → Takes L evs0 (fun i => i ∈ L ∨ i ∈ idsOf main.toList) := by
    cases main with
    | some m =>
      obtain ⟨id', kf'⟩ := m
      refine ⟨evs1, by simp [hlog], by simp, fun L hb => ((hmain L hb).2.2.2).congr (by simp [idsOf])⟩
    | none =>
      cases cur with
      | none =>
        refine ⟨evs1, by simp [hlog, OSt.releaseOpt], by simp [OSt.releaseOpt], fun L hb => ((hmain L hb).2).congr (by simp [idsOf])⟩
      | some c =>
        refine ⟨evs1 ++ [OEv.free c], by simp [hlog, OSt.releaseOpt, OSt.release, OSt.emit], by simp [OSt.releaseOpt, OSt.release, OSt.emit], fun L hb => ?_⟩
        refine Takes.append (hmain L hb).2 (fun L' hL' => ?_)
        refine (Takes.free ((hL' c).2 (Or.inr rfl))).congr (fun i => ?_)
        have hc := ((hmain L hb).1 c rfl).2
        simp only [hL', idsOf, Option.toList_none, List.map_nil, List.not_mem_nil, or_false, Option.some.injEq, ne_eq]
        constructor
        · rintro ⟨h | h, h'⟩
          · exact h
          · exact absurd h h'
        · intro h; exact ⟨Or.inl h, by have := hb i h; omega⟩
  obtain ⟨evs0, h0log, h0next, h0t⟩ := h0
  generalize (if main.isSome then o1 else o1.releaseOpt cur) = o2 at h0log h0next
  obtain ⟨evs3, h3log, h3next, h3pw, h3rng, h3⟩ := ownReadSeq_spec ctx join python delim comment paths o2
  generalize ownReadSeq ctx join python delim comment o2 paths = q3 at h3log h3next h3pw h3rng h3
  obtain ⟨o3, r3, drops⟩ := q3
  simp only at h3log h3next h3pw h3rng h3 ⊢
  -- everything alive after the drop-ins
  have hall : ∀ L : List Nat, Bnd L o.next → Takes L (evs0 ++ evs3) (fun i => i ∈ L ∨ i ∈ idsOf (main.toList ++ drops)) := by
    intro L hb
    refine Takes.append (h0t L hb) (fun L' hL' => ?_)
    refine (h3 L' (fun i hi => ?_)).congr (fun i => by simp [hL', idsOf, or_assoc])
    rcases (hL' i).1 hi with h | h
    · have := hb i h; omega
    · cases main with
      | none => simp [idsOf] at h
      | some m =>
        obtain ⟨id', kf'⟩ := m
        simp only [idsOf, Option.toList_some, List.map_cons, List.map_nil, List.mem_singleton] at h
        have := (hmain [] (by intro i hi; cases hi)).2.1
        omega
  have hpw : (idsOf (main.toList ++ drops)).Pairwise (· < ·) ∧ ∀ i ∈ idsOf (main.toList ++ drops), o.next ≤ i ∧ i < o3.next := by
    cases main with
    | none =>
      simp only [Option.toList_none, List.nil_append]
      exact ⟨h3pw, fun i hi => by have := h3rng i hi; omega⟩
    | some m =>
      obtain ⟨id', kf'⟩ := m
      have hm := hmain [] (by intro i hi; cases hi)
      simp only at hm
      simp only [idsOf, Option.toList_some, List.cons_append, List.nil_append, List.map_cons, List.pairwise_cons, List.mem_cons]
      refine ⟨⟨fun i hi => by have := h3rng i hi; omega, h3pw⟩, fun i hi => ?_⟩
      rcases hi with h | h
      · subst h; omega
      · have := h3rng i h; omega
  cases r3 with
  | error e =>
    obtain ⟨hl, hn, _⟩ := releaseAll_log (List.map (·.1) (main.toList ++ drops)) o3
    refine ⟨evs0 ++ evs3 ++ (idsOf (main.toList ++ drops)).map OEv.free, ?_, ?_, fun L hb => ?_⟩
    · simp only; rw [hl, h3log, h0log]; simp [idsOf]
    · simp only; rw [hn]; omega
    simp only [HistPost]
    refine Takes.append (hall L hb) (fun L' hL' => ?_)
    refine (Takes.freeAll _ L' (hpw.1.imp (fun h => Nat.ne_of_lt h)) (fun i hi => (hL' i).2 (Or.inr hi))).congr (fun i => ?_)
    simp only [hL']
    constructor
    · rintro ⟨h | h, h'⟩
      · exact h
      · exact absurd h h'
    · intro h; exact ⟨Or.inl h, fun h' => by have := hb i h; have := (hpw.2 i h').1; omega⟩
  | ok u =>
    by_cases he : (main.toList ++ drops).isEmpty = true
    · simp only [he, if_true]
      refine ⟨evs0 ++ evs3, by simp [h3log, h0log], by omega, fun L hb => ?_⟩
      simp only [HistPost]
      refine (hall L hb).congr (fun i => ?_)
      have : main.toList ++ drops = [] := by simpa using he
      simp [this, idsOf]
    · simp only [he, Bool.false_eq_true, if_false]
      exact ⟨evs0 ++ evs3, by simp [h3log, h0log], by omega, fun L hb => ⟨hall L hb, hpw.1, hpw.2⟩⟩

theorem ownHistory_spec (ctx : RdCtx) (o : OSt) (dirs : List Str) (name suffix delim : Option Str)
    (comment : Str) (join python : Bool) (confDirs : List Str) :
    ∃ evs, (ownHistory ctx o dirs name suffix delim comment join python confDirs).1.log = o.log ++ evs ∧
      o.next ≤ (ownHistory ctx o dirs name suffix delim comment join python confDirs).1.next ∧
      ∀ L : List Nat, Bnd L o.next → HistPost o L evs (ownHistory ctx o dirs name suffix delim comment join python confDirs) := by
  unfold ownHistory
  cases delim with
  | none => exact ⟨[], by simp, by simp, fun L _ => Takes.nil L⟩
  | some d =>
    cases name with
    | none => exact ⟨[], by simp, by simp, fun L _ => Takes.nil L⟩
    | some nm =>
      simp only
      split
      · exact ownHistoryRest_spec ctx o o none none _ d comment join python [] (by simp) (Nat.le_refl _)
          (fun L _ => ⟨by simp, (Takes.nil L).congr (by simp)⟩)
      · obtain ⟨evs1, h1, h2, h3⟩ := ownReadFirst_spec ctx join python d comment (mainCandidates dirs nm (dotSuffix (some nm) suffix)) o none
        generalize ownReadFirst ctx join python d comment o none (mainCandidates dirs nm (dotSuffix (some nm) suffix)) = q at h1 h2 h3 ⊢
        obtain ⟨o3, r3, cur3⟩ := q
        cases r3 with
        | error e => exact ⟨evs1, h1, h2, fun L hb => by simpa [HistPost] using h3 L (by simp) hb⟩
        | ok m =>
          simp only at h1 h2 h3 ⊢
          refine ownHistoryRest_spec ctx o o3 m cur3 _ d comment join python evs1 h1 h2 (fun L hb => ?_)
          have := h3 L (by simp) hb
          cases m with
          | none =>
            simp only at this ⊢
            refine ⟨fun c hc => ⟨(this.1 c hc).1, by simpa using (this.1 c hc).2⟩, this.2.congr (by simp)⟩
          | some m =>
            obtain ⟨id', kf'⟩ := m
            simp only at this ⊢
            exact ⟨this.1, this.2.1, by simpa using this.2.2.1, this.2.2.2.congr (by simp)⟩

theorem ownMergeRest_spec : ∀ (ks : List (Nat × KeyFile)) (o : OSt) (acc : Nat × KeyFile),
    ∃ evs, (ownMergeRest o acc ks).1.log = o.log ++ evs ∧ o.next ≤ (ownMergeRest o acc ks).1.next ∧
      ((ownMergeRest o acc ks).2.1 = acc.1 ∨ (o.next ≤ (ownMergeRest o acc ks).2.1 ∧ (ownMergeRest o acc ks).2.1 < (ownMergeRest o acc ks).1.next)) ∧
      ∀ L : List Nat, Bnd L o.next → acc.1 ∈ L → (∀ i ∈ idsOf ks, i ∈ L) → (acc.1 :: idsOf ks).Nodup →
        Takes L evs (fun i => (i ∈ L ∧ i ≠ acc.1 ∧ i ∉ idsOf ks) ∨ i = (ownMergeRest o acc ks).2.1) := by
  intro ks
  induction ks with
  | nil =>
    intro o acc
    refine ⟨[], by simp [ownMergeRest], by simp [ownMergeRest], Or.inl (by simp [ownMergeRest]), fun L _ ha _ _ => ?_⟩
    refine (Takes.nil L).congr (fun i => ?_)
    simp only [ownMergeRest, idsOf, List.map_nil, List.not_mem_nil, not_false_eq_true, and_true]
    constructor
    · intro h
      by_cases h' : i = acc.1
      · exact Or.inr h'
      · exact Or.inl ⟨h, h'⟩
    · rintro (⟨h, _⟩ | h)
      · exact h
      · exact h ▸ ha
  | cons k ks ih =>
    intro o acc
    simp only [ownMergeRest]
    split
    · -- masked: the file is released, nothing is merged
      obtain ⟨evs, h1, h2, h3, h4⟩ := ih (o.release k.1) acc
      generalize ownMergeRest (o.release k.1) acc ks = q at h1 h2 h3 h4 ⊢
      obtain ⟨o3, m3⟩ := q
      simp only [OSt.release, OSt.emit] at h1 h2 h3 h4 ⊢
      refine ⟨[OEv.free k.1] ++ evs, by simp [h1], h2, h3, fun L hb ha hk hn => ?_⟩
      have hn' := List.nodup_cons.1 hn
      simp only [idsOf, List.map_cons, List.mem_cons, not_or, List.nodup_cons] at hn' hk
      refine Takes.append (Takes.free (hk k.1 (Or.inl rfl))) (fun L' hL' => ?_)
      refine (h4 L' (fun i hi => hb i ((hL' i).1 hi).1)
        ((hL' _).2 ⟨ha, fun h => hn'.1.1 h⟩) (fun i hi => (hL' i).2 ⟨hk i (Or.inr hi), fun h => hn'.2.1 (h ▸ hi)⟩)
        (List.nodup_cons.2 ⟨hn'.1.2, hn'.2.2⟩)).congr (fun i => ?_)
      simp only [hL', idsOf, List.map_cons, List.mem_cons, not_or, ne_eq]
      constructor
      · rintro (⟨⟨a, b⟩, c, d⟩ | h)
        · exact Or.inl ⟨a, c, b, d⟩
        · exact Or.inr h
      · rintro (⟨a, c, b, d⟩ | h)
        · exact Or.inl ⟨⟨a, b⟩, c, d⟩
        · exact Or.inr h
    · -- merged: a new object, the old accumulator and the file are released
      obtain ⟨evs, h1, h2, h3, h4⟩ := ih ((o.allocMerged.1.release acc.1).release k.1) (o.allocMerged.2, mergeFiles acc.2 k.2)
      generalize ownMergeRest ((o.allocMerged.1.release acc.1).release k.1) (o.allocMerged.2, mergeFiles acc.2 k.2) ks = q at h1 h2 h3 h4 ⊢
      obtain ⟨o3, m3⟩ := q
      simp only [OSt.allocMerged, OSt.release, OSt.emit] at h1 h2 h3 h4 ⊢
      refine ⟨[OEv.merged o.next, OEv.free acc.1, OEv.free k.1] ++ evs, by simp [h1], by omega, ?_, fun L hb ha hk hn => ?_⟩
      · right
        rcases h3 with h | h
        · rw [h]; omega
        · omega
      have hn' := List.nodup_cons.1 hn
      simp only [idsOf, List.map_cons, List.mem_cons, not_or, List.nodup_cons] at hn' hk
      have hm : o.next ∉ L := fun h => Nat.lt_irrefl _ (hb _ h)
      have e3 : [OEv.merged o.next, OEv.free acc.1, OEv.free k.1] = [OEv.merged o.next] ++ [OEv.free acc.1] ++ [OEv.free k.1] := rfl
      rw [e3]
      have step1 : Takes L ([OEv.merged o.next] ++ [OEv.free acc.1]) (fun i => (i ∈ L ∨ i = o.next) ∧ i ≠ acc.1) :=
        Takes.append (Takes.new' hm) (fun L1 h1' => (Takes.free ((h1' _).2 (Or.inl ha))).congr (fun i => by simp [h1']))
      have step2 : Takes L ([OEv.merged o.next] ++ [OEv.free acc.1] ++ [OEv.free k.1]) (fun i => (i ∈ L ∨ i = o.next) ∧ i ≠ acc.1 ∧ i ≠ k.1) :=
        Takes.append step1 (fun L2 h2' => (Takes.free ((h2' _).2 ⟨Or.inl (hk k.1 (Or.inl rfl)), fun h => hn'.1.1 h.symm⟩)).congr
          (fun i => by simp only [h2', and_assoc]))
      refine Takes.append step2 (fun L' hL' => ?_)
      refine (h4 L' (fun i hi => ?_) ((hL' _).2 ⟨Or.inr rfl, ?_, ?_⟩)
        (fun i hi => (hL' i).2 ⟨Or.inl (hk i (Or.inr hi)), fun h => hn'.1.2 (h ▸ hi), fun h => hn'.2.1 (h ▸ hi)⟩)
        (List.nodup_cons.2 ⟨fun h => ?_, hn'.2.2⟩)).congr (fun i => ?_)
      · rcases ((hL' i).1 hi).1 with h | h
        · have := hb i h; omega
        · omega
      · intro h; have := hb _ ha; omega
      · intro h; have := hb _ (hk k.1 (Or.inl rfl)); omega
      · have := hb _ (hk _ (Or.inr h)); omega
      · simp only [hL', idsOf, List.map_cons, List.mem_cons, not_or, ne_eq]
        constructor
        · rintro (⟨⟨a | a, b, c⟩, d, e⟩ | h)
          · exact Or.inl ⟨a, b, c, e⟩
          · exact absurd a d
          · exact Or.inr h
        · rintro (⟨a, b, c, e⟩ | h)
          · exact Or.inl ⟨⟨Or.inl a, b, c⟩, fun h => by have := hb i a; omega, e⟩
          · exact Or.inr h

/-- what `readConfigWithCallback` guarantees about the caller's object `res` -/
def CorePost (o : OSt) (res : Nat) (L : List Nat) (evs : List OEv) : OSt × Except Err (Nat × KeyFile) → Prop
  | (o', .ok m) => Takes L evs (fun i => (i ∈ L ∧ i ≠ res) ∨ i = m.1) ∧ m.1 < o'.next ∧ o.next ≤ m.1
  | (_, .error _) => Takes L evs (· ∈ L)

theorem ownReadConfigCore_spec (ctx : RdCtx) (o : OSt) (res : Nat) (kf : KeyFile) (name suffix delim : Option Str) (comment : Str) :
    ∃ evs, (ownReadConfigCore ctx o res kf name suffix delim comment).1.log = o.log ++ evs ∧
      o.next ≤ (ownReadConfigCore ctx o res kf name suffix delim comment).1.next ∧
      ∀ L : List Nat, Bnd L o.next → res ∈ L → CorePost o res L evs (ownReadConfigCore ctx o res kf name suffix delim comment) := by
  unfold ownReadConfigCore
  simp only
  obtain ⟨evs1, h1, h2, h3⟩ := ownHistory_spec ctx o kf.parseDirs name suffix delim comment kf.join kf.python
    (if kf.confDirs.isEmpty then o.rs.g.confDirs else kf.confDirs)
  generalize ownHistory ctx o kf.parseDirs name suffix delim comment kf.join kf.python
    (if kf.confDirs.isEmpty then o.rs.g.confDirs else kf.confDirs) = q at h1 h2 h3 ⊢
  obtain ⟨o1, r⟩ := q
  cases r with
  | error e =>
    obtain ⟨e1, e2⟩ := e
    exact ⟨evs1, h1, h2, fun L hb _ => by simpa [HistPost, CorePost] using h3 L hb⟩
  | ok files =>
    cases files with
    | nil =>
      refine ⟨evs1, h1, h2, fun L hb _ => ?_⟩
      have := (h3 L hb).1
      simpa [CorePost, idsOf] using this
    | cons f fs =>
      simp only at h1 h2 h3 ⊢
      obtain ⟨evs2, g1, g2, g3, g4⟩ := ownMergeRest_spec fs (o1.release res) f
      generalize ownMergeRest (o1.release res) f fs = q2 at g1 g2 g3 g4 ⊢
      obtain ⟨o3, m⟩ := q2
      simp only [OSt.release, OSt.emit] at g1 g2 g3 g4 ⊢
      have hrng := (h3 [] (by intro i hi; cases hi)).2.2
      have hpw := (h3 [] (by intro i hi; cases hi)).2.1
      simp only [idsOf, List.map_cons, List.mem_cons, List.pairwise_cons] at hrng hpw
      have hf := hrng f.1 (Or.inl rfl)
      refine ⟨evs1 ++ [OEv.free res] ++ evs2, by simp [g1, h1], by omega, fun L hb hres => ?_⟩
      have hres' := hb res hres
      simp only [CorePost]
      refine ⟨?_, ?_, ?_⟩
      · refine Takes.append (P := fun i => (i ∈ L ∨ i ∈ idsOf (f :: fs)) ∧ i ≠ res) ?_ (fun L' hL' => ?_)
        · exact Takes.append (h3 L hb).1 (fun L1 hL1 => (Takes.free ((hL1 _).2 (Or.inl hres))).congr (fun i => by simp [hL1]))
        · refine (g4 L' (fun i hi => ?_) ((hL' _).2 ⟨Or.inr (by simp [idsOf]), by omega⟩)
            (fun i hi => (hL' i).2 ⟨Or.inr (by simp [idsOf] at hi ⊢; exact Or.inr hi), ?_⟩) ?_).congr (fun i => ?_)
          · rcases ((hL' i).1 hi).1 with h | h
            · have := hb i h; omega
            · simp only [idsOf, List.map_cons, List.mem_cons] at h
              have := hrng i h; omega
          · simp only [idsOf] at hi
            have := hrng i (Or.inr hi); omega
          · refine List.nodup_cons.2 ⟨fun h => ?_, (hpw.2.imp (fun h => Nat.ne_of_lt h))⟩
            simp only [idsOf] at h
            have := hpw.1 _ h; omega
          · simp only [hL', idsOf, List.map_cons, List.mem_cons, ne_eq]
            constructor
            · rintro (⟨⟨a | a, b⟩, c, d⟩ | h)
              · exact Or.inl ⟨a, b⟩
              · rcases a with a | a
                · exact absurd a c
                · exact absurd a d
              · exact Or.inr h
            · rintro (⟨a, b⟩ | h)
              · have := hb i a
                refine Or.inl ⟨⟨Or.inl a, b⟩, fun h => by omega, fun h => ?_⟩
                have := hrng i (Or.inr h); omega
              · exact Or.inr h
      · rcases g3 with h | h
        · rw [h]; omega
        · omega
      · rcases g3 with h | h
        · rw [h]; omega
        · omega

/-! ### the ownership model computes what the functional model computes -/

theorem ownReadFileCB_result (ctx : RdCtx) (o : OSt) (obj : Nat) (join python : Bool) (path delim comment : Str) :
    ((ownReadFileCB ctx o obj join python path delim comment).1.rs, (ownReadFileCB ctx o obj join python path delim comment).2.1) =
      readFileCB ctx o.rs join python path delim comment := by
  unfold ownReadFileCB readFileCB
  cases ctx.fs.lstat path with
  | none => rfl
  | some node =>
    simp only
    cases gate o.rs.g node with
    | some e => rfl
    | none =>
      simp only
      generalize askCallback ctx.cb o.rs path = a
      obtain ⟨rs, acc⟩ := a
      cases acc with
      | false => simp
      | true =>
        simp only [Bool.not_true, Bool.false_eq_true, if_false]
        cases absPath ctx.fs path with
        | none => rfl
        | some abs =>
          simp only
          generalize readOpened ctx _ join python abs delim comment = q
          obtain ⟨rs2, r⟩ := q
          cases r <;> simp [OSt.release, OSt.emit]

def stripIds (r : Except Err (Option (Nat × KeyFile))) : Except Err (Option KeyFile) := r.map (Option.map Prod.snd)

theorem ownReadFirst_result (ctx : RdCtx) (join python : Bool) (delim comment : Str) (ps : List Str) :
    ∀ (o : OSt) (cur : Option Nat),
    ((ownReadFirst ctx join python delim comment o cur ps).1.rs, stripIds (ownReadFirst ctx join python delim comment o cur ps).2.1) =
      readFirst ctx join python delim comment o.rs ps := by
  induction ps with
  | nil => intro o cur; simp [ownReadFirst, readFirst, stripIds, Except.map]
  | cons p ps ih =>
    intro o cur
    simp only [ownReadFirst, readFirst]
    have key : ∀ (o1 : OSt) (id : Nat), o1.rs = o.rs →
        ((match ownReadFileCB ctx o1 id join python p delim comment with
          | (o2, r, freed) =>
            match r with
            | .ok kf => (o2, Except.ok (some (id, kf)), some id)
            | .error e => if e = Err.nofile then ownReadFirst ctx join python delim comment o2 (if freed then none else some id) ps
              else (o2.releaseOpt (if freed then none else some id), .error e, none)).1.rs,
         stripIds (match ownReadFileCB ctx o1 id join python p delim comment with
          | (o2, r, freed) =>
            match r with
            | .ok kf => (o2, Except.ok (some (id, kf)), some id)
            | .error e => if e = Err.nofile then ownReadFirst ctx join python delim comment o2 (if freed then none else some id) ps
              else (o2.releaseOpt (if freed then none else some id), .error e, none)).2.1) =
        (match readFileCB ctx o.rs join python p delim comment with
          | (s, r) => match r with
            | .ok kf => (s, Except.ok (some kf))
            | .error .nofile => readFirst ctx join python delim comment s ps
            | .error e => (s, .error e)) := by
      intro o1 id ho
      have := ownReadFileCB_result ctx o1 id join python p delim comment
      rw [ho] at this
      rw [← this]
      generalize ownReadFileCB ctx o1 id join python p delim comment = q
      obtain ⟨o2, r, freed⟩ := q
      cases r with
      | ok kf => simp [stripIds, Except.map]
      | error e =>
        by_cases he : e = Err.nofile
        · subst he
          simp only [if_true]
          exact ih o2 _
        · simp only [if_neg he]
          have : (o2.releaseOpt (if freed then none else some id)).rs = o2.rs := by
            cases freed <;> simp [OSt.releaseOpt, OSt.release, OSt.emit]
          cases e <;> simp_all [stripIds, Except.map]
    cases cur with
    | some c => exact key o c rfl
    | none => exact key o.alloc.1 o.alloc.2 (by simp [OSt.alloc])

theorem ownReadSeq_result (ctx : RdCtx) (join python : Bool) (delim comment : Str) (ps : List Str) :
    ∀ (o : OSt),
    ((ownReadSeq ctx join python delim comment o ps).1.rs,
      (match (ownReadSeq ctx join python delim comment o ps).2.1 with
       | .ok () => Except.ok ((ownReadSeq ctx join python delim comment o ps).2.2.map Prod.snd)
       | .error e => .error e)) =
      readSeq ctx join python delim comment o.rs ps := by
  induction ps with
  | nil => intro o; simp [ownReadSeq, readSeq]
  | cons p ps ih =>
    intro o
    simp only [ownReadSeq, readSeq]
    have := ownReadFileCB_result ctx o.alloc.1 o.alloc.2 join python p delim comment
    rw [show o.alloc.1.rs = o.rs by simp [OSt.alloc]] at this
    rw [← this]
    generalize ownReadFileCB ctx o.alloc.1 o.alloc.2 join python p delim comment = q
    obtain ⟨o2, r, freed⟩ := q
    cases r with
    | error e => cases freed <;> simp [OSt.release, OSt.emit]
    | ok kf =>
      simp only
      rw [← ih o2]
      generalize ownReadSeq ctx join python delim comment o2 ps = q3
      obtain ⟨o3, r3, rest⟩ := q3
      cases r3 <;> simp

theorem ownHistoryRest_rs (ctx : RdCtx) (o : OSt) (main : Option (Nat × KeyFile)) (cur : Option Nat)
    (paths : List Str) (delim comment : Str) (join python : Bool) :
    ((ownHistoryRest ctx o main cur paths delim comment join python).1.rs,
      (ownHistoryRest ctx o main cur paths delim comment join python).2.map (List.map Prod.snd)) =
    (match readSeq ctx join python delim comment o.rs paths with
     | (s, .error e) => (s, Except.error (e, true))
     | (s, .ok drops) =>
       if ((main.map Prod.snd).toList ++ drops).isEmpty then (s, Except.error (Err.nofile, true))
       else (s, .ok ((main.map Prod.snd).toList ++ drops))) := by
  unfold ownHistoryRest
  simp only
  have hrs : (if main.isSome then o else o.releaseOpt cur).rs = o.rs := by
    split
    · rfl
    · cases cur <;> simp [OSt.releaseOpt, OSt.release, OSt.emit]
  rw [← hrs, ← ownReadSeq_result]
  generalize ownReadSeq ctx join python delim comment (if main.isSome then o else o.releaseOpt cur) paths = q
  obtain ⟨o3, r3, drops⟩ := q
  cases r3 with
  | error e => simp [Except.map, (releaseAll_log _ o3).2.2]
  | ok u =>
    cases main with
    | none =>
      by_cases hd : drops = [] <;> simp [hd, Except.map]
    | some m => simp [Except.map]

theorem ownHistory_result (ctx : RdCtx) (o : OSt) (dirs : List Str) (name suffix delim : Option Str)
    (comment : Str) (join python : Bool) (confDirs : List Str) :
    ((ownHistory ctx o dirs name suffix delim comment join python confDirs).1.rs,
      (ownHistory ctx o dirs name suffix delim comment join python confDirs).2.map (List.map Prod.snd)) =
    readHistory ctx o.rs dirs name suffix delim comment join python confDirs := by
  unfold ownHistory readHistory
  cases delim with
  | none => simp [Except.map]
  | some d =>
    cases name with
    | none => simp [Except.map]
    | some nm =>
      simp only
      by_cases he : nm.isEmpty = true
      · simp only [he, if_true]
        rw [ownHistoryRest_rs]
        generalize readSeq ctx join python d comment o.rs _ = q
        obtain ⟨s, r⟩ := q
        cases r <;> simp
      · simp only [he, Bool.false_eq_true, if_false]
        rw [← ownReadFirst_result ctx join python d comment _ o none]
        generalize ownReadFirst ctx join python d comment o none _ = q
        obtain ⟨o3, r3, cur3⟩ := q
        cases r3 with
        | error e => simp [stripIds, Except.map]
        | ok m =>
          have hr := ownHistoryRest_rs ctx o3 m cur3 (dropinPaths ctx.fs dirs nm (dotSuffix (some nm) suffix)
              (if confDirs.isEmpty = true then [dotSuffix (some nm) suffix ++ [46, 100]] else confDirs)) d comment join python
          simp only [stripIds, Except.map] at hr ⊢
          rw [hr]
          generalize readSeq ctx join python d comment o3.rs _ = q
          obtain ⟨s, r⟩ := q
          cases r <;> cases m <;> simp

theorem ownMergeRest_result : ∀ (ks : List (Nat × KeyFile)) (o : OSt) (acc : Nat × KeyFile),
    (ownMergeRest o acc ks).1.rs = o.rs ∧ (ownMergeRest o acc ks).2.2 = mergeRest acc.2 (ks.map Prod.snd) := by
  intro ks
  induction ks with
  | nil => intro o acc; simp [ownMergeRest, mergeRest]
  | cons k ks ih =>
    intro o acc
    simp only [ownMergeRest, mergeRest, List.map_cons]
    split
    · have := ih (o.release k.1) acc
      simpa [OSt.release, OSt.emit] using this
    · have := ih ((o.allocMerged.1.release acc.1).release k.1) (o.allocMerged.2, mergeFiles acc.2 k.2)
      simpa [OSt.release, OSt.emit, OSt.allocMerged] using this

theorem ownReadConfigCore_result (ctx : RdCtx) (o : OSt) (res : Nat) (kf : KeyFile) (name suffix delim : Option Str) (comment : Str) :
    ((ownReadConfigCore ctx o res kf name suffix delim comment).1.rs,
      (ownReadConfigCore ctx o res kf name suffix delim comment).2.map Prod.snd) =
    readConfigCore ctx o.rs kf name suffix delim comment := by
  unfold ownReadConfigCore readConfigCore
  simp only
  rw [← ownHistory_result]
  generalize ownHistory ctx o kf.parseDirs name suffix delim comment kf.join kf.python _ = q
  obtain ⟨o1, r⟩ := q
  cases r with
  | error e => obtain ⟨e1, e2⟩ := e; simp [Except.map]
  | ok files =>
    cases files with
    | nil => simp [Except.map, mergeHistory]
    | cons f fs =>
      have := ownMergeRest_result fs (o1.release res) f
      simp only [Except.map, List.map_cons, mergeHistory]
      rw [← this.2, this.1]
      simp [OSt.release, OSt.emit]

theorem ownReadConfig_result (ctx : RdCtx) (o : OSt) (slot : Option (Nat × KeyFile))
    (project usr name suffix delim : Option Str) (comment : Str) :
    ((ownReadConfig ctx o slot project usr name suffix delim comment).1.rs,
      (ownReadConfig ctx o slot project usr name suffix delim comment).2.1,
      (ownReadConfig ctx o slot project usr name suffix delim comment).2.2.map Prod.snd) =
    readConfig ctx o.rs (slot.map Prod.snd) project usr name suffix delim comment := by
  unfold ownReadConfig readConfig
  cases slot with
  | none =>
    simp only [Option.map_none, Option.isNone_none, Option.getD_none]
    have := ownReadConfigCore_result ctx o.alloc.1 o.alloc.2 (prepareConfig {} project usr name).1 (prepareConfig {} project usr name).2 suffix delim comment
    rw [show o.alloc.1.rs = o.rs by simp [OSt.alloc]] at this
    rw [← this]
    generalize ownReadConfigCore ctx o.alloc.1 o.alloc.2 _ _ suffix delim comment = q
    obtain ⟨o1, r⟩ := q
    cases r <;> simp [Except.map, OSt.release, OSt.emit]
  | some s =>
    obtain ⟨id, kf⟩ := s
    simp only [Option.map_some, Option.isNone_some, Option.getD_some]
    rw [← ownReadConfigCore_result ctx o id]
    generalize ownReadConfigCore ctx o id _ _ suffix delim comment = q
    obtain ⟨o1, r⟩ := q
    cases r <;> simp [Except.map]

theorem ownReadDirs_result (ctx : RdCtx) (o : OSt) (usr etc name suffix delim : Option Str) (comment : Str) :
    ((ownReadDirs ctx o usr etc name suffix delim comment).1.rs,
      (ownReadDirs ctx o usr etc name suffix delim comment).2.1,
      (ownReadDirs ctx o usr etc name suffix delim comment).2.2.map Prod.snd) =
    readDirs ctx o.rs usr etc name suffix delim comment := by
  unfold ownReadDirs readDirs
  simp only
  have := ownReadConfigCore_result ctx o.alloc.1 o.alloc.2 { parseDirs := [usr.getD [], etc.getD []] } name suffix delim comment
  rw [show o.alloc.1.rs = o.rs by simp [OSt.alloc]] at this
  rw [← this]
  generalize ownReadConfigCore ctx o.alloc.1 o.alloc.2 _ name suffix delim comment = q
  obtain ⟨o1, r⟩ := q
  cases r <;> simp [Except.map]

theorem ownReadFile_result (ctx : RdCtx) (o : OSt) (path delim comment : Option Str) :
    ((ownReadFile ctx o path delim comment).1.rs, (ownReadFile ctx o path delim comment).2.1,
      (ownReadFile ctx o path delim comment).2.2.map Prod.snd) = readFile ctx o.rs path delim comment := by
  unfold ownReadFile readFile
  cases path with
  | none => simp [OSt.alloc, OSt.release, OSt.emit]
  | some p =>
    cases delim with
    | none => simp [OSt.alloc, OSt.release, OSt.emit]
    | some d =>
      cases comment with
      | none => simp [OSt.alloc, OSt.release, OSt.emit]
      | some c =>
        simp only
        have := ownReadFileCB_result ctx o.alloc.1 o.alloc.2 false false p d c
        rw [show o.alloc.1.rs = o.rs by simp [OSt.alloc]] at this
        rw [← this]
        generalize ownReadFileCB ctx o.alloc.1 o.alloc.2 false false p d c = q
        obtain ⟨o1, r, freed⟩ := q
        cases r <;> cases freed <;> simp [OSt.release, OSt.emit]

end Econf
