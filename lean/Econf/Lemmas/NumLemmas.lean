import Econf.Numeric

/-! Helper lemmas and definitions for the numeric properties (C08, C09): digit spelling, the
    literal grammar of DESIGN.md 5.7, and the scanner on literals and on printed numbers. -/

set_option linter.unusedSimpArgs false

namespace Econf

def spellDigit (d : Nat) (upper : Bool) : Byte :=
  if d < 10 then UInt8.ofNat (0x30 + d) else if upper then UInt8.ofNat (0x41 + d - 10) else UInt8.ofNat (0x61 + d - 10)

theorem digitVal_spell : ∀ d : Fin 16, ∀ up : Bool, digitVal (spellDigit d.val up) = some d.val := by decide

/-- facts about digit characters the scanner relies on -/
theorem spell_facts : ∀ d : Fin 16, ∀ up : Bool,
    isSpace (spellDigit d.val up) = false ∧ (spellDigit d.val up == 0x2D) = false ∧ (spellDigit d.val up == 0x2B) = false ∧
    isX (spellDigit d.val up) = false ∧ ((spellDigit d.val up == 0x30) = decide (d.val = 0)) := by decide

theorem digitIn_spell (base d : Nat) (up : Bool) (hd : d < base) (hb : base ≤ 16) :
    digitIn base (spellDigit d up) = some d := by
  have := digitVal_spell ⟨d, by omega⟩ up
  simp only at this
  simp [digitIn, this, hd]

def ofDigits (base : Nat) (ds : List Nat) (acc : Nat) : Nat := ds.foldl (fun a d => a * base + d) acc

theorem readDigits_spelled (base : Nat) (hb : base ≤ 16) (ds : List (Nat × Bool)) (hds : ∀ p ∈ ds, p.1 < base)
    (rest : Str) (acc n : Nat) :
    readDigits base (ds.map (fun p => spellDigit p.1 p.2) ++ rest) acc n =
      readDigits base rest (ofDigits base (ds.map (·.1)) acc) (n + ds.length) := by
  induction ds generalizing acc n with
  | nil => simp [ofDigits]
  | cons p ps ih =>
    simp only [List.map_cons, List.cons_append, readDigits]
    rw [digitIn_spell base p.1 p.2 (hds p List.mem_cons_self) hb]
    simp only
    rw [ih (fun q hq => hds q (List.mem_cons_of_mem _ hq))]
    simp [ofDigits, Nat.add_assoc, Nat.add_comm 1]

/-! ### integer literals (DESIGN.md 5.7) -/

inductive Sign where
  | none | plus | minus
  deriving DecidableEq

/-- digits carry their spelling case (relevant for hexadecimal letters only) -/
abbrev Digits := List (Nat × Bool)

inductive Body where
  | dec (d1 : Nat × Bool) (ds : Digits)     -- first digit 1..9
  | oct (ds : Digits)                        -- `0` followed by octal digits
  | hex (upX : Bool) (d1 : Nat × Bool) (ds : Digits)   -- `0x` / `0X` and at least one hex digit

structure Lit where
  sign : Sign
  body : Body

def Body.WF : Body → Prop
  | .dec d1 ds => 1 ≤ d1.1 ∧ d1.1 < 10 ∧ ∀ p ∈ ds, p.1 < 10
  | .oct ds => ∀ p ∈ ds, p.1 < 8
  | .hex _ d1 ds => d1.1 < 16 ∧ ∀ p ∈ ds, p.1 < 16

def spellAll (ds : Digits) : Str := ds.map (fun p => spellDigit p.1 p.2)

def Body.render : Body → Str
  | .dec d1 ds => spellAll (d1 :: ds)
  | .oct ds => 0x30 :: spellAll ds
  | .hex upX d1 ds => 0x30 :: (if upX then 0x58 else 0x78) :: spellAll (d1 :: ds)

/-- the mathematical magnitude -/
def Body.mag : Body → Nat
  | .dec d1 ds => ofDigits 10 ((d1 :: ds).map (·.1)) 0
  | .oct ds => ofDigits 8 (ds.map (·.1)) 0
  | .hex _ d1 ds => ofDigits 16 ((d1 :: ds).map (·.1)) 0

def Lit.render (l : Lit) : Str :=
  (match l.sign with
   | .none => []
   | .plus => [0x2B]
   | .minus => [0x2D]) ++ l.body.render

def Lit.val (l : Lit) : Int := if l.sign = .minus then -(l.body.mag : Int) else (l.body.mag : Int)

theorem readDigits_all (base : Nat) (hb : base ≤ 16) (ds : Digits) (hds : ∀ p ∈ ds, p.1 < base) (acc n : Nat) :
    readDigits base (spellAll ds) acc n = (ofDigits base (ds.map (·.1)) acc, n + ds.length) := by
  have := readDigits_spelled base hb ds hds [] acc n
  simp only [List.append_nil] at this
  rw [spellAll, this]; rfl

theorem strtoBody_render (b : Body) (h : b.WF) : strtoBody b.render = (b.mag, true) := by
  cases b with
  | dec d1 ds =>
    obtain ⟨h1, h2, h3⟩ := h
    have hf := spell_facts ⟨d1.1, by omega⟩ d1.2
    simp only at hf
    have hne : (spellDigit d1.1 d1.2 == 0x30) = false := by
      rw [hf.2.2.2.2]; simp; omega
    have hall : ∀ p ∈ d1 :: ds, p.1 < 10 := by
      intro p hp; rcases List.mem_cons.mp hp with rfl | hp
      · exact h2
      · exact h3 p hp
    simp only [Body.render, Body.mag, spellAll, List.map_cons, strtoBody, hne, Bool.false_eq_true, if_false]
    have := readDigits_all 10 (by omega) (d1 :: ds) hall 0 0
    simp only [spellAll, List.map_cons] at this
    rw [this]
    simp
  | oct ds =>
    have hrd := readDigits_all 8 (by omega) ds h 0 0
    simp only [Body.render, Body.mag, strtoBody, beq_self_eq_true, if_true]
    cases ds with
    | nil => simp [spellAll, readDigits, ofDigits]
    | cons a as =>
      cases as with
      | nil =>
        simp only [spellAll, List.map_cons, List.map_nil] at hrd ⊢
        rw [hrd]
      | cons b bs =>
        have hfa := spell_facts ⟨a.1, by have := h a (by simp); omega⟩ a.2
        simp only at hfa
        simp only [spellAll, List.map_cons] at hrd ⊢
        simp only [hfa.2.2.2.1, Bool.false_and, Bool.false_eq_true, if_false]
        rw [hrd]
  | hex upX d1 ds =>
    obtain ⟨h1, h2⟩ := h
    have hall : ∀ p ∈ d1 :: ds, p.1 < 16 := by
      intro p hp; rcases List.mem_cons.mp hp with rfl | hp
      · exact h1
      · exact h2 p hp
    have hx : isX (if upX then 0x58 else 0x78) = true := by cases upX <;> decide
    have hd := digitIn_spell 16 d1.1 d1.2 h1 (by omega)
    have hrd := readDigits_all 16 (by omega) (d1 :: ds) hall 0 0
    simp only [spellAll, List.map_cons] at hrd
    simp only [Body.render, Body.mag, spellAll, List.map_cons, strtoBody, beq_self_eq_true, if_true, hx, hd,
      Option.isSome_some, Bool.and_self]
    rw [hrd]

/-- first character of a rendered body: a digit -/
theorem body_head (b : Body) (h : b.WF) : ∃ c r, b.render = c :: r ∧ isSpace c = false ∧ (c == 0x2D) = false ∧ (c == 0x2B) = false := by
  cases b with
  | dec d1 ds =>
    have hf := spell_facts ⟨d1.1, by have := h.2.1; omega⟩ d1.2
    exact ⟨_, _, rfl, hf.1, hf.2.1, hf.2.2.1⟩
  | oct ds => exact ⟨0x30, _, rfl, by decide, by decide, by decide⟩
  | hex upX d1 ds => exact ⟨0x30, _, rfl, by decide, by decide, by decide⟩

/-- the scanner reads a literal as its sign and magnitude, for literals of any length -/
theorem strtoCore_render (l : Lit) (h : l.body.WF) :
    strtoCore l.render = ⟨decide (l.sign = .minus), l.body.mag, true⟩ := by
  obtain ⟨c, r, hr, hs, hm, hp⟩ := body_head l.body h
  have hb := strtoBody_render l.body h
  unfold strtoCore Lit.render
  cases hsg : l.sign with
  | none =>
    simp only [List.nil_append, hr, List.dropWhile_cons, hs, Bool.false_eq_true, if_false, splitSign, hm, hp]
    rw [← hr, hb]; simp
  | plus =>
    have : isSpace 0x2B = false := by decide
    simp only [List.cons_append, List.nil_append, List.dropWhile_cons, this, Bool.false_eq_true, if_false, splitSign]
    have h1 : ((0x2B : Byte) == 0x2D) = false := by decide
    simp only [h1, Bool.false_eq_true, if_false, beq_self_eq_true, if_true]
    rw [hb]; simp
  | minus =>
    have : isSpace 0x2D = false := by decide
    simp only [List.cons_append, List.nil_append, List.dropWhile_cons, this, Bool.false_eq_true, if_false, splitSign,
      beq_self_eq_true, if_true]
    rw [hb]; simp

theorem digitIn10_digitChar (d : Nat) (h : d < 10) : digitIn 10 (digitChar d) = some d := by
  have : ∀ d : Fin 10, digitIn 10 (digitChar d.val) = some d.val := by decide
  exact this ⟨d, h⟩

theorem digitChar_facts : ∀ d : Fin 10, isSpace (digitChar d.val) = false ∧ (digitChar d.val == 0x2D) = false ∧
    (digitChar d.val == 0x2B) = false ∧ ((digitChar d.val == 0x30) = decide (d.val = 0)) := by decide

/-- reading back what `toDigitsAux` prints: the digits of `n` extend the accumulator -/
theorem readDigits_toDigitsAux (fuel n : Nat) (hf : n < fuel) (acc : Str) :
    ∃ k, 1 ≤ k ∧ ∀ A C, readDigits 10 (toDigitsAux fuel n acc) A C = readDigits 10 acc (A * 10 ^ k + n) (C + k) := by
  induction fuel generalizing n acc with
  | zero => omega
  | succ f ih =>
    unfold toDigitsAux
    by_cases h10 : n < 10
    · refine ⟨1, by omega, ?_⟩
      intro A C
      simp only [h10, if_true, readDigits, digitIn10_digitChar n h10, Nat.pow_one]
    · simp only [h10, if_false]
      have hlt : n / 10 < f := by omega
      obtain ⟨k, hk, hrd⟩ := ih (n / 10) hlt (digitChar (n % 10) :: acc)
      refine ⟨k + 1, by omega, ?_⟩
      intro A C
      rw [hrd]
      simp only [readDigits, digitIn10_digitChar (n % 10) (Nat.mod_lt _ (by omega))]
      have : (A * 10 ^ k + n / 10) * 10 + n % 10 = A * 10 ^ (k + 1) + n := by
        rw [Nat.pow_succ, Nat.add_mul, Nat.mul_assoc]
        have := Nat.div_add_mod n 10
        omega
      rw [this, Nat.add_assoc]

/-- the first character printed for a positive number is a non-zero digit -/
theorem head_toDigitsAux (fuel n : Nat) (hf : n < fuel) (hn : 0 < n) (acc : Str) :
    ∃ d r, 1 ≤ d ∧ d < 10 ∧ toDigitsAux fuel n acc = digitChar d :: r := by
  induction fuel generalizing n acc with
  | zero => omega
  | succ f ih =>
    unfold toDigitsAux
    by_cases h10 : n < 10
    · exact ⟨n, acc, hn, h10, by simp [h10]⟩
    · simp only [h10, if_false]
      exact ih (n / 10) (by omega) (by omega) _

/-- `strtol` on what `%u` prints -/
theorem strtoBody_showNat (n : Nat) : strtoBody (showNat n) = (n, true) := by
  unfold showNat
  by_cases hn : n = 0
  · subst hn; decide
  · obtain ⟨d, r, hd1, hd2, hhead⟩ := head_toDigitsAux (n + 1) n (by omega) (by omega) []
    obtain ⟨k, hk, hrd⟩ := readDigits_toDigitsAux (n + 1) n (by omega) []
    have hf := digitChar_facts ⟨d, hd2⟩
    simp only at hf
    have hne : (digitChar d == 0x30) = false := by rw [hf.2.2.2]; simp; omega
    have := hrd 0 0
    rw [hhead] at this ⊢
    simp only [strtoBody, hne, Bool.false_eq_true, if_false]
    rw [this]
    simp only [readDigits, Nat.zero_mul, Nat.zero_add]
    have : (k != 0) = true := by simp; omega
    simp [this]

theorem strtoCore_showNat (n : Nat) : strtoCore (showNat n) = ⟨false, n, true⟩ := by
  have hb := strtoBody_showNat n
  unfold strtoCore
  unfold showNat at hb ⊢
  by_cases hn : n = 0
  · subst hn; decide
  · obtain ⟨d, r, hd1, hd2, hhead⟩ := head_toDigitsAux (n + 1) n (by omega) (by omega) []
    have hf := digitChar_facts ⟨d, hd2⟩
    simp only at hf
    rw [hhead] at hb ⊢
    simp only [List.dropWhile_cons, hf.1, Bool.false_eq_true, if_false, splitSign, hf.2.1, hf.2.2.1]
    rw [hb]

theorem strtoCore_showInt (i : Int) : strtoCore (showInt i) = ⟨decide (i < 0), i.natAbs, true⟩ := by
  unfold showInt
  by_cases hi : i < 0
  · simp only [hi, if_true, decide_true]
    have hb := strtoBody_showNat i.natAbs
    unfold strtoCore
    have : isSpace 0x2D = false := by decide
    simp only [List.dropWhile_cons, this, Bool.false_eq_true, if_false, splitSign, beq_self_eq_true, if_true]
    rw [hb]
  · simp only [hi, if_false, decide_false]
    exact strtoCore_showNat _


end Econf
