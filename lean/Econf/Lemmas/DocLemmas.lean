import Econf.Props.C02
set_option linter.unusedSimpArgs false
namespace Econf

/-! ## what documents of the grammar contribute, item by item -/

theorem conts_line (conts : List ContLine) (s : PState) :
    (conts.foldl (fun s l => storeAppend false { s with line := s.line + 1 } l.render) s).line = s.line + conts.length := by
  induction conts generalizing s with
  | nil => rfl
  | cons l ls ih => rw [List.foldl_cons, ih, storeAppend_line]; simp only [List.length_cons]; omega

/-- every item advances the line counter by the number of its physical lines -/
theorem expItem_line (st : PState) (it : Item) : (expItem st it).line = st.line + it.lines.length := by
  cases it with
  | blank ws => rfl
  | comment ind c text => rfl
  | sect ind name trail tc => rfl
  | entry e =>
    simp only [expItem, conts_line, Item.lines, List.length_cons, List.length_map, storeNew]
    omega
  | keyonly ind key trail tc => rfl

theorem expDoc_line (doc : List Item) (st : PState) : (doc.foldl expItem st).line = st.line + (renderLines doc).length := by
  induction doc generalizing st with
  | nil => rfl
  | cons it its ih =>
    rw [List.foldl_cons, ih, expItem_line]
    simp only [renderLines, List.flatMap_cons, List.length_append]; omega

/-- the entry an entry item adds, given the state before it -/
def entryOf (st : PState) (e : EntryI) : Entry :=
  { group := st.curGroup.getD NONE
    key := e.key
    value := contValue e.expValue.1 e.cont
    cb := st.cb
    ca := (caWith st.ca e.tc).map (· ++ List.replicate e.cont.length NL)
    line := st.line + 1 + e.cont.length
    quotes := e.expValue.2 }

/-- the entries an item adds -/
def Item.adds (st : PState) : Item → List Entry
  | .entry e => [entryOf st e]
  | .keyonly _ key _ tc =>
    [{ group := st.curGroup.getD NONE, key := key, value := none, cb := st.cb, ca := caWith st.ca tc, line := st.line + 1, quotes := false }]
  | _ => []

/-- entries are only ever appended: earlier entries are never touched by later items -/
theorem expItem_entries (cfg : Cfg) (st : PState) (it : Item) (h : it.WF cfg) :
    (expItem st it).entries = st.entries ++ it.adds st := by
  cases it with
  | blank ws => simp [expItem, Item.adds]
  | comment ind c text => simp [expItem, Item.adds]
  | sect ind name trail tc => simp [expItem, Item.adds]
  | entry e => rw [C02_entry_item cfg st e h.1]; rfl
  | keyonly ind key trail tc => rw [C02_keyonly_item cfg st ind key trail tc h]; rfl

theorem expDoc_entries_prefix (cfg : Cfg) (doc : List Item) (st : PState) (h : ∀ it ∈ doc, it.WF cfg) :
    ∃ more, (doc.foldl expItem st).entries = st.entries ++ more := by
  induction doc generalizing st with
  | nil => exact ⟨[], by simp⟩
  | cons it its ih =>
    obtain ⟨more, hm⟩ := ih (expItem st it) (fun x hx => h x (List.mem_cons_of_mem _ hx))
    refine ⟨it.adds st ++ more, ?_⟩
    rw [List.foldl_cons, hm, expItem_entries cfg st it (h it (by simp)), List.append_assoc]

/-! ### the view that comment and blank lines must not change -/

/-- section, key, value and quoting of an entry (not its comments and line number) -/
def Entry.core (e : Entry) : Str × Str × Option Str × Bool := (e.group, e.key, e.value, e.quotes)

/-- sections in order of first appearance; entries in file order with section, key, value -/
def PState.view (st : PState) : List (Str × Str × Option Str × Bool) × List Str :=
  (st.entries.map Entry.core, st.groups)

/-- two states that agree on everything but pending comment lines and the line counter -/
def SameContent (s1 s2 : PState) : Prop :=
  s1.entries.map Entry.core = s2.entries.map Entry.core ∧ s1.groups = s2.groups ∧ s1.curGroup = s2.curGroup

theorem sameContent_item (cfg : Cfg) (s1 s2 : PState) (it : Item) (hit : it.WF cfg) (h : SameContent s1 s2) :
    SameContent (expItem s1 it) (expItem s2 it) := by
  obtain ⟨he, hg, hc⟩ := h
  refine ⟨?_, ?_, ?_⟩
  · rw [expItem_entries cfg s1 it hit, expItem_entries cfg s2 it hit, List.map_append, List.map_append, he]
    congr 1
    cases it with
    | entry e => simp [Item.adds, entryOf, Entry.core, hc]
    | keyonly ind key trail tc => simp [Item.adds, Entry.core, hc]
    | _ => rfl
  · cases it with
    | blank ws => exact hg
    | comment ind c text => exact hg
    | sect ind name trail tc => simp only [expItem, hg]
    | entry e => rw [C02_entry_item cfg s1 e hit.1, C02_entry_item cfg s2 e hit.1]; simp only [hg, hc]
    | keyonly ind key trail tc => rw [C02_keyonly_item cfg s1 ind key trail tc hit, C02_keyonly_item cfg s2 ind key trail tc hit]; simp only [hg, hc]
  · cases it with
    | blank ws => exact hc
    | comment ind c text => exact hc
    | sect ind name trail tc => rfl
    | entry e => rw [C02_entry_item cfg s1 e hit.1, C02_entry_item cfg s2 e hit.1]; exact hc
    | keyonly ind key trail tc => rw [C02_keyonly_item cfg s1 ind key trail tc hit, C02_keyonly_item cfg s2 ind key trail tc hit]; exact hc

theorem sameContent_doc (cfg : Cfg) (doc : List Item) (s1 s2 : PState) (hd : ∀ it ∈ doc, it.WF cfg) (h : SameContent s1 s2) :
    SameContent (doc.foldl expItem s1) (doc.foldl expItem s2) := by
  induction doc generalizing s1 s2 with
  | nil => exact h
  | cons it its ih =>
    exact ih _ _ (fun x hx => hd x (List.mem_cons_of_mem _ hx)) (sameContent_item cfg s1 s2 it (hd it (by simp)) h)

/-- an item without content: blank line or comment line -/
def Item.inert : Item → Bool
  | .blank _ => true
  | .comment _ _ _ => true
  | _ => false

theorem sameContent_inert (st : PState) (it : Item) (h : it.inert = true) : SameContent (expItem st it) st := by
  cases it with
  | blank ws => exact ⟨rfl, rfl, rfl⟩
  | comment ind c text => exact ⟨rfl, rfl, rfl⟩
  | sect ind name trail tc => cases h
  | entry e => cases h
  | keyonly _ _ _ _ => cases h

theorem sameContent_inert_block (st : PState) (block : List Item) (h : ∀ it ∈ block, it.inert = true) :
    SameContent (block.foldl expItem st) st := by
  induction block generalizing st with
  | nil => exact ⟨rfl, rfl, rfl⟩
  | cons it its ih =>
    have h1 := ih (expItem st it) (fun x hx => h x (List.mem_cons_of_mem _ hx))
    have h2 := sameContent_inert st it (h it (by simp))
    exact ⟨h1.1.trans h2.1, h1.2.1.trans h2.2.1, h1.2.2.trans h2.2.2⟩

end Econf
