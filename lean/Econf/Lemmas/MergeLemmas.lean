import Econf.Merge

/-! Helper lemmas about the merge model (no property statements here). -/

set_option linter.unusedSimpArgs false

namespace Econf

/-- the (group,key) test -/
def isKey (g k : Str) (e : Entry) : Bool := e.group == g && e.key == k

theorem findEntry_eq (l : List Entry) (g k : Str) : findEntry l g k = l.find? (isKey g k) := rfl
theorem defines_eq (l : List Entry) (g k : Str) : defines l g k = l.any (isKey g k) := rfl

theorem isKey_self (e : Entry) : isKey e.group e.key e = true := by simp [isKey]

theorem isKey_cpy (g k : Str) (e : Entry) : isKey g k (cpyEntry e) = isKey g k e := rfl

theorem isKey_true {g k : Str} {e : Entry} (h : isKey g k e = true) : e.group = g ∧ e.key = k := by
  simpa [isKey] using h

theorem defines_nil (g k : Str) : defines [] g k = false := rfl
theorem defines_cons (e : Entry) (l : List Entry) (g k : Str) :
    defines (e :: l) g k = (isKey g k e || defines l g k) := rfl
theorem defines_append (a b : List Entry) (g k : Str) :
    defines (a ++ b) g k = (defines a g k || defines b g k) := by
  simp only [defines_eq, List.any_append]
theorem defines_snoc (a : List Entry) (e : Entry) (g k : Str) :
    defines (a ++ [e]) g k = (defines a g k || isKey g k e) := by
  rw [defines_append, defines_cons, defines_nil, Bool.or_false]

theorem find_none_of_not_defines {l : List Entry} {g k : Str} (h : defines l g k = false) :
    l.find? (isKey g k) = none := by
  induction l with
  | nil => rfl
  | cons e es ih =>
    rw [defines_cons] at h
    have h1 : isKey g k e = false := by cases hh : isKey g k e <;> simp_all
    have h2 : defines es g k = false := by cases hh : defines es g k <;> simp_all
    simp [List.find?_cons, h1, ih h2]

theorem find_some_of_defines {l : List Entry} {g k : Str} (h : defines l g k = true) :
    ∃ e, l.find? (isKey g k) = some e ∧ e.group = g ∧ e.key = k := by
  induction l with
  | nil => simp [defines_nil] at h
  | cons e es ih =>
    rw [defines_cons] at h
    cases hk : isKey g k e with
    | true => exact ⟨e, by simp [List.find?_cons, hk], isKey_true hk⟩
    | false =>
      simp [hk] at h
      obtain ⟨e', he', hg⟩ := ih h
      exact ⟨e', by simp [List.find?_cons, hk, he'], hg⟩

theorem hasGroup_cons (e : Entry) (l : List Entry) (g : Str) :
    hasGroup (e :: l) g = (e.group == g || hasGroup l g) := rfl

theorem hasGroup_of_defines {l : List Entry} {g k : Str} (h : defines l g k = true) : hasGroup l g = true := by
  induction l with
  | nil => simp [defines_nil] at h
  | cons e es ih =>
    rw [defines_cons] at h
    rw [hasGroup_cons]
    cases hk : isKey g k e with
    | true => simp [(isKey_true hk).1]
    | false => simp [hk] at h; simp [ih h]

/-- first definitions: lookup of a key not yet seen is the lookup in the list itself -/
theorem find_firstDefsAux (seen l : List Entry) (g k : Str) :
    (firstDefsAux seen l).find? (isKey g k) = if defines seen g k then none else l.find? (isKey g k) := by
  induction l generalizing seen with
  | nil => simp [firstDefsAux]
  | cons e es ih =>
    unfold firstDefsAux
    cases hk : isKey g k e with
    | false =>
      by_cases hd : defines seen e.group e.key = true
      · simp only [hd, if_true, ih, defines_snoc, hk, Bool.or_false, List.find?_cons]
      · have hd' : defines seen e.group e.key = false := by simpa using hd
        simp [hd', ih, defines_snoc, hk]
    | true =>
      obtain ⟨hg, hkk⟩ := isKey_true hk
      subst hg; subst hkk
      by_cases hd : defines seen e.group e.key = true
      · simp only [hd, if_true, ih, defines_snoc, Bool.true_or]
      · have hd' : defines seen e.group e.key = false := by simpa using hd
        simp [hd', hk]

theorem find_firstDefs (l : List Entry) (g k : Str) :
    (firstDefs l).find? (isKey g k) = l.find? (isKey g k) := by
  simp [firstDefs, find_firstDefsAux, defines_nil]

/-- a filter that is constant on the entries of one key either keeps or drops the lookup -/
theorem find_filter_key (l : List Entry) (q : Entry → Bool) (g k : Str) (b : Bool)
    (h : ∀ e, isKey g k e = true → q e = b) :
    (l.filter q).find? (isKey g k) = if b then l.find? (isKey g k) else none := by
  induction l with
  | nil => cases b <;> rfl
  | cons e es ih =>
    cases hk : isKey g k e with
    | true =>
      have hq := h e hk
      cases b with
      | true => simp [List.filter_cons, hq, List.find?_cons, hk]
      | false => simp [List.filter_cons, hq, ih]
    | false =>
      cases hq : q e with
      | true => simp [List.filter_cons, hq, List.find?_cons, hk, ih]
      | false => simp [List.filter_cons, hq, List.find?_cons, hk, ih]

theorem find_map_cpy (l : List Entry) (g k : Str) :
    (l.map cpyEntry).find? (isKey g k) = (l.find? (isKey g k)).map cpyEntry := by
  induction l with
  | nil => rfl
  | cons e es ih =>
    simp only [List.map_cons, List.find?_cons, isKey_cpy]
    cases isKey g k e <;> simp [ih]

/-- lookup in a block of copied first definitions selected by a key-determined filter -/
theorem find_block (ef : List Entry) (q : Entry → Bool) (g k : Str) (b : Bool)
    (h : ∀ e, isKey g k e = true → q e = b) :
    (((firstDefs ef).filter q).map cpyEntry).find? (isKey g k) =
      if b then (ef.find? (isKey g k)).map cpyEntry else none := by
  rw [find_map_cpy, find_filter_key _ q g k b h, find_firstDefs]
  cases b <;> rfl

theorem isKey_overrideValue (ef : List Entry) (g k : Str) (u : Entry) :
    isKey g k (overrideValue ef u) = isKey g k u := by
  unfold overrideValue
  cases findEntry ef u.group u.key <;> rfl

theorem find_newKeysOf (uf ef : List Entry) (g' g k : Str) :
    (newKeysOf uf ef g').find? (isKey g k) =
      if g == g' && !defines uf g k then (ef.find? (isKey g k)).map cpyEntry else none := by
  unfold newKeysOf
  apply find_block
  intro e he
  obtain ⟨h1, h2⟩ := isKey_true he
  subst h1; subst h2
  rw [BEq.comm (a := e.group)]
  by_cases h : g' = e.group
  · subst h; simp
  · have : (g' == e.group) = false := by simpa using h
    simp [this]

/-- Lemma A: a key the base defines is found at the copy of its first base entry -/
theorem find_mergeExistingAux_defined (uf ef rem : List Entry) (g k : Str) (hd : defines uf g k = true) :
    (mergeExistingAux uf ef rem).find? (isKey g k) = (rem.find? (isKey g k)).map (overrideValue ef) := by
  induction rem with
  | nil => rfl
  | cons u us ih =>
    unfold mergeExistingAux
    simp only [List.find?_cons, isKey_overrideValue]
    cases hk : isKey g k u with
    | true => simp
    | false =>
      simp only []
      rw [List.find?_append]
      have hb : (if hasGroup us u.group = true then [] else newKeysOf uf ef u.group).find? (isKey g k) = none := by
        split
        · rfl
        · rw [find_newKeysOf]; simp [hd]
      rw [hb, ih]; rfl

/-- Lemma B: a key the base does not define is found (as the override's first definition)
    behind the last base entry of its group -/
theorem find_mergeExistingAux_new (uf ef rem : List Entry) (g k : Str) (hd : defines uf g k = false)
    (hr : defines rem g k = false) :
    (mergeExistingAux uf ef rem).find? (isKey g k) =
      if hasGroup rem g then (ef.find? (isKey g k)).map cpyEntry else none := by
  induction rem with
  | nil => rfl
  | cons u us ih =>
    rw [defines_cons] at hr
    have hk : isKey g k u = false := by cases hh : isKey g k u <;> simp_all
    have hus : defines us g k = false := by cases hh : defines us g k <;> simp_all
    unfold mergeExistingAux
    simp only [List.find?_cons, isKey_overrideValue, hk]
    rw [List.find?_append, ih hus, hasGroup_cons]
    by_cases hg : u.group = g
    · subst hg
      by_cases hh : hasGroup us u.group = true
      · simp [hh]
      · have hh' : hasGroup us u.group = false := by simpa using hh
        simp [hh', find_newKeysOf, hd]
    · have hg' : (u.group == g) = false := by simpa using hg
      have hb : (if hasGroup us u.group = true then [] else newKeysOf uf ef u.group).find? (isKey g k) = none := by
        split
        · rfl
        · rw [find_newKeysOf]
          have : (g == u.group) = false := by simpa using (fun h => hg h.symm)
          simp [this]
      rw [hb]; simp [hg']

theorem find_insertNoGroup (uf ef : List Entry) (g k : Str) :
    (insertNoGroup uf ef).find? (isKey g k) =
      if !hasGroup uf NONE && g == NONE then (ef.find? (isKey g k)).map cpyEntry else none := by
  unfold insertNoGroup
  by_cases h : hasGroup uf NONE = true
  · simp [h]
  · have h' : hasGroup uf NONE = false := by simpa using h
    simp only [h', Bool.false_eq_true, if_false, Bool.not_false, Bool.true_and]
    apply find_block
    intro e he
    rw [(isKey_true he).1]

theorem find_addNewGroups (uf ef : List Entry) (g k : Str) :
    (addNewGroups uf ef).find? (isKey g k) =
      if g != NONE && !hasGroup uf g then (ef.find? (isKey g k)).map cpyEntry else none := by
  unfold addNewGroups
  apply find_block
  intro e he
  rw [(isKey_true he).1]


end Econf
