import Econf.Merge

/-! Helper lemmas about the merge model (no property statements here). -/

set_option linter.unusedSimpArgs false

namespace Econf

/-- the (group,key) test -/
def isKey (g k : Str) (e : Entry) : Bool := e.group == g && e.key == k

theorem findEntry_eq (l : List Entry) (g k : Str) : findEntry l g k = l.find? (isKey g k) := rfl
theorem defines_eq (l : List Entry) (g k : Str) : defines l g k = l.any (isKey g k) := rfl

theorem isKey_self (e : Entry) : isKey e.group e.key e = true := by simp [isKey]

theorem isKey_cpy (g k : Str) (e : Entry) : isKey g k (cpyEntry e) = isKey g k e := rfl

theorem isKey_true {g k : Str} {e : Entry} (h : isKey g k e = true) : e.group = g ∧ e.key = k := by
  simpa [isKey] using h

theorem defines_nil (g k : Str) : defines [] g k = false := rfl
theorem defines_cons (e : Entry) (l : List Entry) (g k : Str) :
    defines (e :: l) g k = (isKey g k e || defines l g k) := rfl
theorem defines_append (a b : List Entry) (g k : Str) :
    defines (a ++ b) g k = (defines a g k || defines b g k) := by
  simp only [defines_eq, List.any_append]
theorem defines_snoc (a : List Entry) (e : Entry) (g k : Str) :
    defines (a ++ [e]) g k = (defines a g k || isKey g k e) := by
  rw [defines_append, defines_cons, defines_nil, Bool.or_false]

theorem find_none_of_not_defines {l : List Entry} {g k : Str} (h : defines l g k = false) :
    l.find? (isKey g k) = none := by
  induction l with
  | nil => rfl
  | cons e es ih =>
    rw [defines_cons] at h
    have h1 : isKey g k e = false := by cases hh : isKey g k e <;> simp_all
    have h2 : defines es g k = false := by cases hh : defines es g k <;> simp_all
    simp [List.find?_cons, h1, ih h2]

theorem find_some_of_defines {l : List Entry} {g k : Str} (h : defines l g k = true) :
    ∃ e, l.find? (isKey g k) = some e ∧ e.group = g ∧ e.key = k := by
  induction l with
  | nil => simp [defines_nil] at h
  | cons e es ih =>
    rw [defines_cons] at h
    cases hk : isKey g k e with
    | true => exact ⟨e, by simp [List.find?_cons, hk], isKey_true hk⟩
    | false =>
      simp [hk] at h
      obtain ⟨e', he', hg⟩ := ih h
      exact ⟨e', by simp [List.find?_cons, hk, he'], hg⟩

theorem hasGroup_cons (e : Entry) (l : List Entry) (g : Str) :
    hasGroup (e :: l) g = (e.group == g || hasGroup l g) := rfl

theorem hasGroup_of_defines {l : List Entry} {g k : Str} (h : defines l g k = true) : hasGroup l g = true := by
  induction l with
  | nil => simp [defines_nil] at h
  | cons e es ih =>
    rw [defines_cons] at h
    rw [hasGroup_cons]
    cases hk : isKey g k e with
    | true => simp [(isKey_true hk).1]
    | false => simp [hk] at h; simp [ih h]

/-- first definitions: lookup of a key not yet seen is the lookup in the list itself -/
theorem find_firstDefsAux (seen l : List Entry) (g k : Str) :
    (firstDefsAux seen l).find? (isKey g k) = if defines seen g k then none else l.find? (isKey g k) := by
  induction l generalizing seen with
  | nil => simp [firstDefsAux]
  | cons e es ih =>
    unfold firstDefsAux
    cases hk : isKey g k e with
    | false =>
      by_cases hd : defines seen e.group e.key = true
      · simp only [hd, if_true, ih, defines_snoc, hk, Bool.or_false, List.find?_cons]
      · have hd' : defines seen e.group e.key = false := by simpa using hd
        simp [hd', ih, defines_snoc, hk]
    | true =>
      obtain ⟨hg, hkk⟩ := isKey_true hk
      subst hg; subst hkk
      by_cases hd : defines seen e.group e.key = true
      · simp only [hd, if_true, ih, defines_snoc, Bool.true_or]
      · have hd' : defines seen e.group e.key = false := by simpa using hd
        simp [hd', hk]

theorem find_firstDefs (l : List Entry) (g k : Str) :
    (firstDefs l).find? (isKey g k) = l.find? (isKey g k) := by
  simp [firstDefs, find_firstDefsAux, defines_nil]

/-- a filter that is constant on the entries of one key either keeps or drops the lookup -/
theorem find_filter_key (l : List Entry) (q : Entry → Bool) (g k : Str) (b : Bool)
    (h : ∀ e, isKey g k e = true → q e = b) :
    (l.filter q).find? (isKey g k) = if b then l.find? (isKey g k) else none := by
  induction l with
  | nil => cases b <;> rfl
  | cons e es ih =>
    cases hk : isKey g k e with
    | true =>
      have hq := h e hk
      cases b with
      | true => simp [List.filter_cons, hq, List.find?_cons, hk]
      | false => simp [List.filter_cons, hq, ih]
    | false =>
      cases hq : q e with
      | true => simp [List.filter_cons, hq, List.find?_cons, hk, ih]
      | false => simp [List.filter_cons, hq, List.find?_cons, hk, ih]

theorem find_map_cpy (l : List Entry) (g k : Str) :
    (l.map cpyEntry).find? (isKey g k) = (l.find? (isKey g k)).map cpyEntry := by
  induction l with
  | nil => rfl
  | cons e es ih =>
    simp only [List.map_cons, List.find?_cons, isKey_cpy]
    cases isKey g k e <;> simp [ih]

/-- lookup in a block of copied first definitions selected by a key-determined filter -/
theorem find_block (ef : List Entry) (q : Entry → Bool) (g k : Str) (b : Bool)
    (h : ∀ e, isKey g k e = true → q e = b) :
    (((firstDefs ef).filter q).map cpyEntry).find? (isKey g k) =
      if b then (ef.find? (isKey g k)).map cpyEntry else none := by
  rw [find_map_cpy, find_filter_key _ q g k b h, find_firstDefs]
  cases b <;> rfl

theorem isKey_overrideValue (ef : List Entry) (g k : Str) (u : Entry) :
    isKey g k (overrideValue ef u) = isKey g k u := by
  unfold overrideValue
  cases findEntry ef u.group u.key <;> rfl

theorem find_newKeysOf (uf ef : List Entry) (g' g k : Str) :
    (newKeysOf uf ef g').find? (isKey g k) =
      if g == g' && !defines uf g k then (ef.find? (isKey g k)).map cpyEntry else none := by
  unfold newKeysOf
  apply find_block
  intro e he
  obtain ⟨h1, h2⟩ := isKey_true he
  subst h1; subst h2
  rw [BEq.comm (a := e.group)]
  by_cases h : g' = e.group
  · subst h; simp
  · have : (g' == e.group) = false := by simpa using h
    simp [this]

/-- Lemma A: a key the base defines is found at the copy of its first base entry -/
theorem find_mergeExistingAux_defined (uf ef rem : List Entry) (g k : Str) (hd : defines uf g k = true) :
    (mergeExistingAux uf ef rem).find? (isKey g k) = (rem.find? (isKey g k)).map (overrideValue ef) := by
  induction rem with
  | nil => rfl
  | cons u us ih =>
    unfold mergeExistingAux
    simp only [List.find?_cons, isKey_overrideValue]
    cases hk : isKey g k u with
    | true => simp
    | false =>
      simp only []
      rw [List.find?_append]
      have hb : (if hasGroup us u.group = true then [] else newKeysOf uf ef u.group).find? (isKey g k) = none := by
        split
        · rfl
        · rw [find_newKeysOf]; simp [hd]
      rw [hb, ih]; rfl

/-- Lemma B: a key the base does not define is found (as the override's first definition)
    behind the last base entry of its group -/
theorem find_mergeExistingAux_new (uf ef rem : List Entry) (g k : Str) (hd : defines uf g k = false)
    (hr : defines rem g k = false) :
    (mergeExistingAux uf ef rem).find? (isKey g k) =
      if hasGroup rem g then (ef.find? (isKey g k)).map cpyEntry else none := by
  induction rem with
  | nil => rfl
  | cons u us ih =>
    rw [defines_cons] at hr
    have hk : isKey g k u = false := by cases hh : isKey g k u <;> simp_all
    have hus : defines us g k = false := by cases hh : defines us g k <;> simp_all
    unfold mergeExistingAux
    simp only [List.find?_cons, isKey_overrideValue, hk]
    rw [List.find?_append, ih hus, hasGroup_cons]
    by_cases hg : u.group = g
    · subst hg
      by_cases hh : hasGroup us u.group = true
      · simp [hh]
      · have hh' : hasGroup us u.group = false := by simpa using hh
        simp [hh', find_newKeysOf, hd]
    · have hg' : (u.group == g) = false := by simpa using hg
      have hb : (if hasGroup us u.group = true then [] else newKeysOf uf ef u.group).find? (isKey g k) = none := by
        split
        · rfl
        · rw [find_newKeysOf]
          have : (g == u.group) = false := by simpa using (fun h => hg h.symm)
          simp [this]
      rw [hb]; simp [hg']

theorem find_insertNoGroup (uf ef : List Entry) (g k : Str) :
    (insertNoGroup uf ef).find? (isKey g k) =
      if !hasGroup uf NONE && g == NONE then (ef.find? (isKey g k)).map cpyEntry else none := by
  unfold insertNoGroup
  by_cases h : hasGroup uf NONE = true
  · simp [h]
  · have h' : hasGroup uf NONE = false := by simpa using h
    simp only [h', Bool.false_eq_true, if_false, Bool.not_false, Bool.true_and]
    apply find_block
    intro e he
    rw [(isKey_true he).1]

theorem find_addNewGroups (uf ef : List Entry) (g k : Str) :
    (addNewGroups uf ef).find? (isKey g k) =
      if g != NONE && !hasGroup uf g then (ef.find? (isKey g k)).map cpyEntry else none := by
  unfold addNewGroups
  apply find_block
  intro e he
  rw [(isKey_true he).1]


/-- (section, key) of an entry -/
def keyOf (e : Entry) : Str × Str := (e.group, e.key)

theorem keyOf_cpy (e : Entry) : keyOf (cpyEntry e) = keyOf e := rfl
theorem keyOf_overrideValue (ef : List Entry) (u : Entry) : keyOf (overrideValue ef u) = keyOf u := by
  unfold overrideValue; cases findEntry ef u.group u.key <;> rfl
theorem group_overrideValue (ef : List Entry) (u : Entry) : (overrideValue ef u).group = u.group := by
  unfold overrideValue; cases findEntry ef u.group u.key <;> rfl
theorem key_overrideValue (ef : List Entry) (u : Entry) : (overrideValue ef u).key = u.key := by
  unfold overrideValue; cases findEntry ef u.group u.key <;> rfl

theorem mem_firstDefsAux {seen l : List Entry} {e : Entry} (h : e ∈ firstDefsAux seen l) : e ∈ l := by
  induction l generalizing seen with
  | nil => simp [firstDefsAux] at h
  | cons x xs ih =>
    unfold firstDefsAux at h
    split at h
    · exact List.mem_cons_of_mem _ (ih h)
    · cases h with
      | head => exact List.mem_cons_self
      | tail _ h' => exact List.mem_cons_of_mem _ (ih h')

theorem firstDefsAux_sublist (seen l : List Entry) : (firstDefsAux seen l).Sublist l := by
  induction l generalizing seen with
  | nil => simp [firstDefsAux]
  | cons x xs ih =>
    unfold firstDefsAux
    split
    · exact (ih _).cons _
    · exact (ih _).cons_cons _

theorem firstDefs_sublist (l : List Entry) : (firstDefs l).Sublist l := firstDefsAux_sublist [] l

theorem defines_of_mem {l : List Entry} {e : Entry} (h : e ∈ l) : defines l e.group e.key = true := by
  rw [defines_eq]; exact List.any_eq_true.mpr ⟨e, h, isKey_self e⟩

theorem hasGroup_of_mem {l : List Entry} {e : Entry} (h : e ∈ l) : hasGroup l e.group = true := by
  unfold hasGroup; exact List.any_eq_true.mpr ⟨e, h, by simp⟩

/-- every entry of a block of copied first definitions comes from the override and passes the filter -/
theorem mem_block {ef : List Entry} {q : Entry → Bool} {e : Entry}
    (h : e ∈ ((firstDefs ef).filter q).map cpyEntry) : ∃ e', e' ∈ ef ∧ q e' = true ∧ e = cpyEntry e' := by
  obtain ⟨e', he', rfl⟩ := List.mem_map.mp h
  have := List.mem_filter.mp he'
  exact ⟨e', mem_firstDefsAux this.1, this.2, rfl⟩

/-- groups of everything `mergeExistingAux` emits for `rem` are groups of `rem` -/
theorem group_mem_mergeExistingAux {uf ef rem : List Entry} {e : Entry}
    (h : e ∈ mergeExistingAux uf ef rem) : hasGroup rem e.group = true := by
  induction rem with
  | nil => simp [mergeExistingAux] at h
  | cons u us ih =>
    unfold mergeExistingAux at h
    rw [hasGroup_cons]
    rcases List.mem_cons.mp h with h | h
    · rw [h, group_overrideValue]; simp
    · rcases List.mem_append.mp h with h | h
      · split at h
        · simp at h
        · unfold newKeysOf at h
          obtain ⟨e', _, hq, rfl⟩ := mem_block h
          simp only [Bool.and_eq_true, beq_iff_eq] at hq
          show (u.group == e'.group || hasGroup us e'.group) = true
          simp [hq.1]
      · simp [ih h]


theorem not_defines_of_mem_newKeysOf {uf ef : List Entry} {g : Str} {e : Entry} (h : e ∈ newKeysOf uf ef g) :
    e.group = g ∧ defines uf e.group e.key = false := by
  unfold newKeysOf at h
  obtain ⟨e', _, hq, rfl⟩ := mem_block h
  simp only [Bool.and_eq_true, beq_iff_eq, Bool.not_eq_true'] at hq
  refine ⟨hq.1, ?_⟩
  show defines uf e'.group e'.key = false
  rw [hq.1]; exact hq.2

theorem group_mem_insertNoGroup {uf ef : List Entry} {e : Entry} (h : e ∈ insertNoGroup uf ef) :
    e.group = NONE ∧ hasGroup uf NONE = false := by
  unfold insertNoGroup at h
  split at h
  · simp at h
  · rename_i hn
    obtain ⟨e', _, hq, rfl⟩ := mem_block h
    have hq' : e'.group = NONE := by simpa using hq
    exact ⟨hq', by simpa using hn⟩

theorem group_mem_addNewGroups {uf ef : List Entry} {e : Entry} (h : e ∈ addNewGroups uf ef) :
    e.group ≠ NONE ∧ hasGroup uf e.group = false := by
  unfold addNewGroups at h
  obtain ⟨e', _, hq, rfl⟩ := mem_block h
  simp only [Bool.and_eq_true, bne_iff_ne, ne_eq, Bool.not_eq_true'] at hq
  exact hq


def cnt (p : Entry → Bool) (l : List Entry) : Nat := (l.filter p).length

theorem cnt_le_of_imp {p q : Entry → Bool} (l : List Entry) (h : ∀ e, p e = true → q e = true) :
    cnt p l ≤ cnt q l := by
  induction l with
  | nil => simp [cnt]
  | cons x xs ih =>
    unfold cnt at *
    simp only [List.filter_cons]
    cases hp : p x with
    | true => simp [h x hp]; omega
    | false =>
      cases hq : q x with
      | true => simp; omega
      | false => simpa using ih

theorem cnt_add_le_of_disjoint {p q r : Entry → Bool} (l : List Entry)
    (hp : ∀ e, p e = true → r e = true) (hq : ∀ e, q e = true → r e = true)
    (hd : ∀ e, p e = true → q e = false) : cnt p l + cnt q l ≤ cnt r l := by
  induction l with
  | nil => simp [cnt]
  | cons x xs ih =>
    unfold cnt at *
    simp only [List.filter_cons]
    cases hpx : p x with
    | true =>
      have := hd x hpx
      simp [this, hp x hpx]; omega
    | false =>
      cases hqx : q x with
      | true => simp [hq x hqx]; omega
      | false =>
        cases hrx : r x with
        | true => simp; omega
        | false => simpa using ih

theorem cnt_le_length (p : Entry → Bool) (l : List Entry) : cnt p l ≤ l.length := List.length_filter_le _ _

/-- length of what `mergeExistingAux` emits: the base entries plus at most the first
    definitions of the override whose group occurs in `rem` -/
theorem length_mergeExistingAux (uf ef rem : List Entry) :
    (mergeExistingAux uf ef rem).length ≤ rem.length + cnt (fun e => hasGroup rem e.group) (firstDefs ef) := by
  induction rem with
  | nil => simp [mergeExistingAux, cnt, hasGroup]
  | cons u us ih =>
    unfold mergeExistingAux
    simp only [List.length_cons, List.length_append]
    by_cases hg : hasGroup us u.group = true
    · simp only [hg, if_true, List.length_nil]
      have : cnt (fun e => hasGroup us e.group) (firstDefs ef) ≤ cnt (fun e => hasGroup (u :: us) e.group) (firstDefs ef) :=
        cnt_le_of_imp _ (fun e he => by rw [hasGroup_cons]; simp [he])
      omega
    · have hg' : hasGroup us u.group = false := by simpa using hg
      simp only [hg', Bool.false_eq_true, if_false]
      have hnk : (newKeysOf uf ef u.group).length ≤ cnt (fun e => e.group == u.group) (firstDefs ef) := by
        unfold newKeysOf cnt
        rw [List.length_map]
        exact cnt_le_of_imp (p := fun e => e.group == u.group && !defines uf u.group e.key) _ (fun e he => by
          simp only [Bool.and_eq_true] at he; exact he.1)
      have hdis := cnt_add_le_of_disjoint (p := fun e => e.group == u.group) (q := fun e => hasGroup us e.group)
        (r := fun e => hasGroup (u :: us) e.group) (firstDefs ef)
        (fun e he => by rw [hasGroup_cons]; simp at he; simp [he])
        (fun e he => by rw [hasGroup_cons]; simp [he])
        (fun e he => by simp at he; rw [he]; exact hg')
      omega

/-- no two entries with the same (section, key) -/
def KeysNodup (l : List Entry) : Prop := l.Pairwise (fun a b => keyOf a ≠ keyOf b)

theorem keyOf_ne_of_not_defines {l : List Entry} {a b : Entry} (ha : a ∈ l) (hb : defines l b.group b.key = false) :
    keyOf a ≠ keyOf b := by
  intro h
  have := defines_of_mem ha
  unfold keyOf at h
  rw [Prod.mk.injEq] at h
  rw [h.1, h.2, hb] at this
  exact absurd this (by simp)

theorem firstDefsAux_spec (seen l : List Entry) :
    KeysNodup (firstDefsAux seen l) ∧ ∀ e ∈ firstDefsAux seen l, defines seen e.group e.key = false := by
  induction l generalizing seen with
  | nil => simp [firstDefsAux, KeysNodup]
  | cons x xs ih =>
    unfold firstDefsAux
    have hrest := ih (seen ++ [x])
    have hweak : ∀ e ∈ firstDefsAux (seen ++ [x]) xs, defines seen e.group e.key = false := by
      intro e he
      have := hrest.2 e he
      rw [defines_snoc] at this
      cases hh : defines seen e.group e.key <;> simp_all
    split
    · exact ⟨hrest.1, hweak⟩
    · rename_i hx
      refine ⟨?_, ?_⟩
      · unfold KeysNodup
        rw [List.pairwise_cons]
        refine ⟨?_, hrest.1⟩
        intro b hb
        have := hrest.2 b hb
        exact keyOf_ne_of_not_defines (l := seen ++ [x]) (by simp) this
      · intro e he
        rcases List.mem_cons.mp he with rfl | he
        · simpa using hx
        · exact hweak e he

theorem firstDefs_nodup (l : List Entry) : KeysNodup (firstDefs l) := (firstDefsAux_spec [] l).1

theorem block_nodup (ef : List Entry) (q : Entry → Bool) : KeysNodup (((firstDefs ef).filter q).map cpyEntry) := by
  unfold KeysNodup
  rw [List.pairwise_map]
  exact (firstDefs_nodup ef).sublist List.filter_sublist


end Econf
