import Econf.Grammar
import Econf.Lemmas.ParserLemmas

/-! Helper lemmas for the grammar proofs (C02 and the properties built on it): what the parser sees of
    a rendered line, and the trailing-comment scan on lines of the grammar. -/

set_option linter.unusedSimpArgs false

namespace Econf

theorem isBlank_isSpace {c : Byte} (h : isBlank c = true) : isSpace c = true := by
  unfold isBlank at h; simp at h; exact h.1
theorem isBlank_isText {c : Byte} (h : isBlank c = true) : isText c = true := by
  unfold isBlank isText isSpace at *
  simp only [Bool.and_eq_true, Bool.or_eq_true, beq_iff_eq, bne_iff_ne, ne_eq] at h ⊢
  refine ⟨?_, h.2⟩
  intro h0; subst h0; simp at h
theorem not_isSpace_NUL : isSpace 0 = false := by decide

theorem cstr_of_text (l : Str) (h : ∀ c ∈ l, isText c = true) (rest : Str) : cstr (l ++ NL :: rest) = l ++ cstr (NL :: rest) := by
  unfold cstr
  rw [takeWhile_append_of_all]
  intro x hx
  have := h x hx
  unfold isText at this; simp at this ⊢; exact this.1

theorem cstr_line (l : Str) (h : ∀ c ∈ l, isText c = true) : cstr (l ++ [NL]) = l ++ [NL] := by
  rw [cstr_of_text l h []]
  simp [cstr, NL]

/-- the body of a rendered line `indent ++ body ++ "\n"`: the indentation is skipped -/
theorem lineBody_render (indent body : Str) (hi : ∀ c ∈ indent, isBlank c = true) (hb : ∀ c ∈ body, isText c = true)
    (hhead : ∀ c, body.head? = some c → isSpace c = false) :
    lineBody (indent ++ body ++ [NL]) = body := by
  unfold lineBody
  have htext : ∀ c ∈ indent ++ body, isText c = true := by
    intro c hc
    rcases List.mem_append.mp hc with h | h
    · exact isBlank_isText (hi c h)
    · exact hb c h
  rw [cstr_line _ htext]
  have hlast : (indent ++ body ++ [NL]).getLast? = some NL := by simp
  simp only [hlast, beq_self_eq_true, if_true, List.dropLast_concat]
  rw [dropWhile_append_of_all _ _ _ (fun x hx => isBlank_isSpace (hi x hx))]
  cases body with
  | nil => rfl
  | cons b bs =>
    have := hhead b rfl
    simp [List.dropWhile_cons, this]

theorem cstr_render (indent body : Str) (hi : ∀ c ∈ indent, isBlank c = true) (hb : ∀ c ∈ body, isText c = true) :
    cstr (indent ++ body ++ [NL]) = indent ++ body ++ [NL] := by
  apply cstr_line
  intro c hc
  rcases List.mem_append.mp hc with h | h
  · exact isBlank_isText (hi c h)
  · exact hb c h

theorem lastIdx_append (c : Byte) (a b : Str) :
    lastIdx c (a ++ b) = match lastIdx c b with
      | some i => some (a.length + i)
      | none => lastIdx c a := by
  induction a with
  | nil => cases h : lastIdx c b <;> simp [h, lastIdx]
  | cons x xs ih =>
    simp only [List.cons_append, lastIdx, ih]
    cases hb : lastIdx c b with
    | some i => simp; omega
    | none => rfl

theorem lastIdx_lt (c : Byte) (a : Str) (i : Nat) (h : lastIdx c a = some i) : i < a.length := by
  induction a generalizing i with
  | nil => simp [lastIdx] at h
  | cons x xs ih =>
    simp only [lastIdx] at h
    cases hx : lastIdx c xs with
    | some j =>
      rw [hx] at h; simp at h; subst h
      have := ih j hx; simp; omega
    | none =>
      rw [hx] at h
      simp only at h
      by_cases hxc : (x == c) = true
      · rw [if_pos hxc] at h; simp at h; subst h; simp
      · rw [if_neg hxc] at h; cases h

theorem lastIdx_cons_self (c : Byte) (t : Str) (h : c ∉ t) : lastIdx c (c :: t) = some 0 := by
  simp [lastIdx, lastIdx_none_of_not_mem c t h]

/-- position of a trailing comment: the last occurrence of its character -/
theorem lastIdx_trailing (c : Byte) (body text : Str) (h : c ∉ text) : lastIdx c (body ++ c :: text) = some body.length := by
  rw [lastIdx_append, lastIdx_cons_self c text h]; simp

/-- a character that does not occur behind position `body.length` -/
theorem lastIdx_before (q : Byte) (body rest : Str) (h : q ∉ rest) : lastIdx q (body ++ rest) = lastIdx q body := by
  rw [lastIdx_append, lastIdx_none_of_not_mem q rest h]

/-- cutting a trailing comment: the line is `body ++ c :: text`, `c` and the quote do not occur in `text` -/
theorem scanOne_trailing (c : Byte) (body text : Str) (ca : Option Str) (hc : c ∉ text) (hq : QUOTE ∉ text) (hcq : c ≠ QUOTE) :
    scanOne false c (body ++ c :: text) ca = (body, appendComment ca text) := by
  unfold scanOne
  rw [lastIdx_trailing c body text hc]
  simp only [Bool.false_eq_true, if_false]
  have hqr : QUOTE ∉ c :: text := by
    intro h; rcases List.mem_cons.mp h with h | h
    · exact hcq h.symm
    · exact hq h
  rw [lastIdx_before QUOTE body (c :: text) hqr]
  have htake : (body ++ c :: text).take body.length = body := by simp
  have hdrop : (body ++ c :: text).drop (body.length + 1) = text := by
    rw [show body ++ c :: text = (body ++ [c]) ++ text by simp]
    rw [show body.length + 1 = (body ++ [c]).length by simp]
    simp
  cases hl : lastIdx QUOTE body with
  | none => simp [htake, hdrop]
  | some lq =>
    have := lastIdx_lt _ _ _ hl
    simp [this, htake, hdrop]

/-- a line is safe for a comment character `k`: `k` does not occur, or only between a pair of
    quotes the second of which is the last quote of the line -/
def SafeFor (k : Byte) (l : Str) : Prop :=
  k ∉ l ∨ ∃ pre q post, l = pre ++ QUOTE :: q ++ QUOTE :: post ∧ k ∉ pre ∧ k ∉ post ∧ QUOTE ∉ post

theorem scanOne_safe (k : Byte) (l : Str) (ca : Option Str) (h : SafeFor k l) (hkq : k ≠ QUOTE) : scanOne false k l ca = (l, ca) := by
  unfold scanOne
  rcases h with h | ⟨pre, q, post, rfl, hpre, hpost, hqpost⟩
  · rw [lastIdx_none_of_not_mem k l h]
  · -- k can only be inside q
    have hk : lastIdx k (pre ++ QUOTE :: q ++ QUOTE :: post) =
        match lastIdx k q with
        | some i => some (pre.length + 1 + i)
        | none => none := by
      rw [show pre ++ QUOTE :: q ++ QUOTE :: post = (pre ++ QUOTE :: q) ++ QUOTE :: post by simp]
      have hkp : k ∉ QUOTE :: post := by
        intro hh; rcases List.mem_cons.mp hh with hh | hh
        · exact hkq hh
        · exact hpost hh
      rw [lastIdx_before k _ _ hkp, lastIdx_append]
      cases hq : lastIdx k (QUOTE :: q) with
      | some i =>
        simp only [lastIdx] at hq
        cases hqq : lastIdx k q with
        | some j => rw [hqq] at hq; simp at hq; subst hq; simp; omega
        | none =>
          rw [hqq] at hq
          have : (QUOTE == k) = false := by simpa using (fun hh => hkq hh.symm)
          simp [this] at hq
      | none =>
        simp only [lastIdx] at hq
        cases hqq : lastIdx k q with
        | some j => rw [hqq] at hq; simp at hq
        | none => simp only; exact lastIdx_none_of_not_mem k pre hpre
    have hquote : lastIdx QUOTE (pre ++ QUOTE :: q ++ QUOTE :: post) = some (pre.length + 1 + q.length) := by
      rw [show pre ++ QUOTE :: q ++ QUOTE :: post = (pre ++ QUOTE :: q) ++ QUOTE :: post by simp]
      rw [lastIdx_trailing QUOTE _ post hqpost]
      simp; omega
    rw [hk, hquote]
    cases hq : lastIdx k q with
    | none => rfl
    | some i =>
      have := lastIdx_lt _ _ _ hq
      simp only [Bool.false_eq_true, if_false]
      have hnot : ¬ (pre.length + 1 + q.length < pre.length + 1 + i) := by omega
      simp [hnot]


theorem scanComments_cons (python : Bool) (k : Byte) (ks name : Str) (ca : Option Str) :
    scanComments python (k :: ks) name ca = scanComments python ks (scanOne python k name ca).1 (scanOne python k name ca).2 := by
  simp [scanComments, List.foldl_cons]

theorem safeFor_extend (k : Byte) (b rest : Str) (h : SafeFor k b) (hk : k ∉ rest) (hq : QUOTE ∉ rest) : SafeFor k (b ++ rest) := by
  rcases h with h | ⟨pre, q, post, rfl, hpre, hpost, hqpost⟩
  · left; simp [h, hk]
  · right
    refine ⟨pre, q, post ++ rest, by simp, hpre, ?_, ?_⟩
    · simp [hpost, hk]
    · simp [hqpost, hq]

/-- a line all of whose comment characters are safe passes the scan unchanged -/
theorem scanComments_safe (ks : Str) (l : Str) (ca : Option Str) (h : ∀ k ∈ ks, SafeFor k l ∧ k ≠ QUOTE) :
    scanComments false ks l ca = (l, ca) := by
  induction ks with
  | nil => rfl
  | cons k ks ih =>
    rw [scanComments_cons, scanOne_safe k l ca (h k List.mem_cons_self).1 (h k List.mem_cons_self).2]
    exact ih (fun x hx => h x (List.mem_cons_of_mem _ hx))

/-- a line with a trailing comment: the comment is cut off and recorded, the rest is unchanged -/
theorem scanComments_trailing (ks : Str) (body text : Str) (c : Byte) (ca : Option Str)
    (hc : c ∈ ks) (hsafe : ∀ k ∈ ks, SafeFor k body ∧ k ≠ QUOTE ∧ k ∉ text) (hq : QUOTE ∉ text) :
    scanComments false ks (body ++ c :: text) ca = (body, appendComment ca text) := by
  induction ks with
  | nil => simp at hc
  | cons k ks ih =>
    rw [scanComments_cons]
    have hk := hsafe k List.mem_cons_self
    by_cases hkc : k = c
    · subst hkc
      rw [scanOne_trailing k body text ca hk.2.2 hq hk.2.1]
      exact scanComments_safe ks body _ (fun x hx => ⟨(hsafe x (List.mem_cons_of_mem _ hx)).1, (hsafe x (List.mem_cons_of_mem _ hx)).2.1⟩)
    · have hcks : c ∈ ks := by
        rcases List.mem_cons.mp hc with h | h
        · exact absurd h.symm hkc
        · exact h
      have hkrest : k ∉ c :: text := by
        intro hh; rcases List.mem_cons.mp hh with hh | hh
        · exact hkc hh
        · exact hk.2.2 hh
      have hqrest : QUOTE ∉ c :: text := by
        intro hh; rcases List.mem_cons.mp hh with hh | hh
        · exact (hsafe c hc).2.1 hh.symm
        · exact hq hh
      rw [scanOne_safe k (body ++ c :: text) ca (safeFor_extend k body _ hk.1 hkrest hqrest) hk.2.1]
      exact ih hcks (fun x hx => hsafe x (List.mem_cons_of_mem _ hx))


/-! ## the parser on rendered items (delimiter classes "non-blank", "blank" and "mixed") -/

/-- blank item -/
theorem parse_blank (cfg : Cfg) (st : PState) (ws : Str) (h : blanks ws) :
    parseLines cfg st (Item.blank ws).lines = .ok (expItem st (.blank ws)) := by
  have hb : lineBody (ws ++ [NL]) = [] := by
    have := lineBody_render ws [] h (by simp [texts]) (by simp)
    simpa using this
  simp only [Item.lines, parseLines, expItem]
  rw [C05_blank_like cfg st _ hb]
where
  C05_blank_like (cfg : Cfg) (st : PState) (raw : Str) (h : lineBody raw = []) :
      parseLine cfg st raw = .ok { st with line := st.line + 1 } := by
    unfold parseLine; simp only [h]

/-- comment item -/
theorem parse_comment (cfg : Cfg) (st : PState) (ind : Str) (c : Byte) (text : Str)
    (hw : CfgWF cfg) (hi : blanks ind) (hc : c ∈ cfg.comment) (ht : texts text) :
    parseLines cfg st (Item.comment ind c text).lines = .ok (expItem st (.comment ind c text)) := by
  have hb : lineBody (ind ++ c :: text ++ [NL]) = c :: text := by
    rw [show ind ++ c :: text ++ [NL] = ind ++ (c :: text) ++ [NL] by simp]
    apply lineBody_render ind (c :: text) hi
    · intro x hx
      rcases List.mem_cons.mp hx with hxc | hx
      · subst hxc
        have := hw.kb x hc
        unfold isText; simp only [Bool.and_eq_true, bne_iff_ne, ne_eq]
        constructor
        · intro h0; subst h0; exact hw.k0 hc
        · intro hn; subst hn; simp [isSpace, NL] at this
      · exact ht x hx
    · intro x hx; simp at hx; subst hx; exact hw.kb _ hc
  simp only [Item.lines, parseLines, expItem]
  unfold parseLine
  have hcc : cfg.comment.contains c = true := by simpa using hc
  simp only [hb, hcc, if_true]


theorem text_of_comment_char (cfg : Cfg) (hw : CfgWF cfg) (c : Byte) (hc : c ∈ cfg.comment) : isText c = true := by
  have := hw.kb c hc
  unfold isText; simp only [Bool.and_eq_true, bne_iff_ne, ne_eq]
  constructor
  · intro h0; subst h0; exact hw.k0 hc
  · intro hn; subst hn; simp [isSpace, NL] at this

theorem trail_texts (cfg : Cfg) (hw : CfgWF cfg) (tc : Option TrailC) (h : TrailC.WF cfg tc) : texts (TrailC.render tc) := by
  cases tc with
  | none => intro c hc; simp [TrailC.render] at hc
  | some t =>
    intro c hc
    simp only [TrailC.render] at hc
    rcases List.mem_cons.mp hc with rfl | hc
    · exact text_of_comment_char cfg hw _ h.1
    · exact h.2.1 c hc

/-- the trailing-comment scan on a line of the grammar: `body` is safe for every comment character -/
theorem scan_line (cfg : Cfg) (hw : CfgWF cfg) (body : Str) (tc : Option TrailC) (ca : Option Str)
    (hsafe : ∀ k ∈ cfg.comment, SafeFor k body) (htc : TrailC.WF cfg tc) :
    scanComments cfg.python cfg.comment (body ++ TrailC.render tc) ca =
      (body, caWith ca tc) := by
  rw [hw.noPython]
  have hkq : ∀ k ∈ cfg.comment, k ≠ QUOTE := fun k hk hh => hw.kq (hh ▸ hk)
  cases tc with
  | none =>
    simp only [TrailC.render, List.append_nil, caWith]
    exact scanComments_safe _ _ _ (fun k hk => ⟨hsafe k hk, hkq k hk⟩)
  | some t =>
    simp only [TrailC.render, caWith]
    exact scanComments_trailing _ _ _ _ _ htc.1 (fun k hk => ⟨hsafe k hk, hkq k hk, htc.2.2.1 k hk⟩) htc.2.2.2

/-- section item -/
theorem parse_sect (cfg : Cfg) (st : PState) (ind name trail : Str) (tc : Option TrailC)
    (hw : CfgWF cfg) (hi : blanks ind) (htr : blanks trail) (hne : name ≠ [])
    (hn : ∀ c ∈ name, isText c = true ∧ c ∉ cfg.comment) (htc : TrailC.WF cfg tc) :
    parseLines cfg st (Item.sect ind name trail tc).lines = .ok (expItem st (.sect ind name trail tc)) := by
  have hLBRtext : isText LBR = true := by decide
  have hRBRtext : isText RBR = true := by decide
  have hbodytext : texts (LBR :: name ++ RBR :: trail ++ TrailC.render tc) := by
    intro c hc
    rcases List.mem_append.mp hc with hc | hc
    · rcases List.mem_append.mp hc with hc | hc
      · rcases List.mem_cons.mp hc with hc | hc
        · rw [hc]; exact hLBRtext
        · exact (hn c hc).1
      · rcases List.mem_cons.mp hc with hc | hc
        · rw [hc]; exact hRBRtext
        · exact isBlank_isText (htr c hc)
    · exact trail_texts cfg hw tc htc c hc
  have hb : lineBody (ind ++ (LBR :: name ++ RBR :: trail ++ TrailC.render tc) ++ [NL]) = LBR :: name ++ RBR :: trail ++ TrailC.render tc := by
    apply lineBody_render ind _ hi hbodytext
    intro x hx; simp at hx; subst hx; decide
  have hlbr : cfg.comment.contains LBR = false := by
    cases h : cfg.comment.contains LBR
    · rfl
    · exact absurd (by simpa using h) hw.klbr
  have hsafe : ∀ k ∈ cfg.comment, SafeFor k (LBR :: name ++ RBR :: trail) := by
    intro k hk
    left
    simp only [List.cons_append, List.mem_cons, List.mem_append, not_or]
    refine ⟨fun h => hw.klbr (h ▸ hk), fun h => (hn k h).2 hk, fun h => hw.krbr (h ▸ hk), fun h => ?_⟩
    have := isBlank_isSpace (htr k h)
    rw [hw.kb k hk] at this; cases this
  have hsec : parseSection (name ++ RBR :: trail) = .ok name := by
    unfold parseSection
    have hdl : dropLastWhile isSpace (name ++ RBR :: trail) = name ++ [RBR] := by
      rw [show name ++ RBR :: trail = (name ++ [RBR]) ++ trail by simp]
      rw [dropLastWhile_append_all _ _ _ (fun x hx => isBlank_isSpace (htr x hx))]
      exact dropLastWhile_append_last _ _ _ (by decide)
    simp only [hdl]
    have hlast : (name ++ [RBR]).getLast? = some RBR := by simp
    have hempty : name.isEmpty = false := by cases name <;> simp_all
    simp [hlast, hempty]
  have hscan := scan_line cfg hw (LBR :: name ++ RBR :: trail) tc st.ca hsafe htc
  simp only [Item.lines, parseLines, expItem]
  unfold parseLine
  simp only [List.cons_append, List.append_assoc] at hb hscan ⊢
  simp only [hb, hlbr, Bool.false_eq_true, if_false, hscan]
  simp only [parseContent, beq_self_eq_true, if_true, hsec]

/-- trailing blanks behind a text that does not end in a blank are exactly what the trim removes -/
theorem dropLastWhile_text_blanks (cs tws : Str) (htws : blanks tws) (hlast : ∀ c, cs.getLast? = some c → isSpace c = false) :
    dropLastWhile isSpace (cs ++ tws) = cs := by
  rw [dropLastWhile_append_all _ _ _ (fun x hx => isBlank_isSpace (htws x hx))]
  cases hcs : cs.getLast? with
  | none =>
    have : cs = [] := List.getLast?_eq_none_iff.mp hcs
    subst this; rfl
  | some l =>
    have hl := hlast l hcs
    obtain ⟨ys, rfl⟩ := List.getLast?_eq_some_iff.mp hcs
    exact dropLastWhile_append_last _ _ _ hl

theorem dropWhile_blanks (ws rest : Str) (h : blanks ws) : (ws ++ rest).dropWhile isSpace = rest.dropWhile isSpace :=
  dropWhile_append_of_all _ _ _ (fun x hx => isBlank_isSpace (h x hx))

theorem dropWhile_all_blanks (ws : Str) (h : blanks ws) : ws.dropWhile isSpace = [] :=
  dropWhile_nil_of_all _ _ (fun x hx => isBlank_isSpace (h x hx))

/-- plain value: first byte neither blank nor quote, last byte not blank -/
theorem valueOf_plain (c : Byte) (cs tws : Str) (htws : blanks tws) (hq : c ≠ QUOTE)
    (hlast : ∀ x, (c :: cs).getLast? = some x → isSpace x = false) :
    valueOf ((c :: cs) ++ tws) = (some (c :: cs), false) := by
  have hcq : (c == QUOTE) = false := by simpa using hq
  simp only [List.cons_append, valueOf, hcq, Bool.false_eq_true, if_false]
  rw [dropLastWhile_text_blanks cs tws htws]
  intro x hx
  apply hlast x
  cases cs with
  | nil => simp at hx
  | cons y ys => simpa [List.getLast?_cons_cons] using hx

/-- quoted value: the text between the quotes, whatever it contains -/
theorem valueOf_quoted (q tws : Str) (htws : blanks tws) :
    valueOf ((QUOTE :: q ++ [QUOTE]) ++ tws) = (some q, true) := by
  have hX : dropLastWhile isSpace ((q ++ [QUOTE]) ++ tws) = q ++ [QUOTE] :=
    dropLastWhile_text_blanks (q ++ [QUOTE]) tws htws (by intro c hc; simp at hc; subst hc; decide)
  simp only [List.cons_append, valueOf, beq_self_eq_true, if_true]
  cases q with
  | nil =>
    simp only [List.nil_append, List.cons_append]
    have : dropLastWhile isSpace tws = [] := by
      have := dropLastWhile_text_blanks [] tws htws (by simp)
      simpa using this
    simp [this]
  | cons k ks =>
    simp only [List.cons_append]
    have hks : dropLastWhile isSpace (ks ++ [QUOTE] ++ tws) = ks ++ [QUOTE] := by
      exact dropLastWhile_text_blanks (ks ++ [QUOTE]) tws htws (by intro c hc; simp at hc; subst hc; decide)
    rw [hks]
    have hcons : k :: (ks ++ [QUOTE]) = (k :: ks) ++ [QUOTE] := by simp
    rw [hcons]
    have hl : ((k :: ks) ++ [QUOTE]).getLast? = some QUOTE := List.getLast?_concat
    simp only [hl, beq_self_eq_true, if_true, List.dropLast_concat]

/-- only blanks follow: the empty text -/
theorem valueOf_nil : valueOf [] = (some [], false) := rfl

/-- the first line of an entry without its trailing comment -/
def EntryI.core (e : EntryI) : Str := e.key ++ e.ws1 ++ e.d :: e.ws2 ++ e.value.render ++ e.tws

theorem EntryI.body_eq (e : EntryI) : e.body = e.core ++ TrailC.render e.tc := by
  simp [EntryI.body, EntryI.core]

/-- no blank among the delimiters: a delimiter is not a blank -/
theorem not_space_of_delim (delim : Str) (hnb : hasWsp delim = false) (c : Byte) (h : delim.contains c = true) : isSpace c = false := by
  cases hs : isSpace c
  · rfl
  · unfold hasWsp at hnb
    have := List.any_eq_false.mp hnb c (by simpa using h)
    rw [hs] at this; simp at this

theorem blank_not_delim (delim : Str) (hnb : hasWsp delim = false) (c : Byte) (h : isBlank c = true) : delim.contains c = false := by
  cases hd : delim.contains c
  · rfl
  · have := not_space_of_delim delim hnb c hd
    rw [isBlank_isSpace h] at this; cases this

/-- only blanks among the delimiters: a delimiter is a blank -/
theorem space_of_delim (delim : Str) (hb : hasNonWsp delim = false) (c : Byte) (h : delim.contains c = true) : isSpace c = true := by
  cases hs : isSpace c
  · unfold hasNonWsp at hb
    have := List.any_eq_false.mp hb c (by simpa using h)
    rw [hs] at this; simp at this
  · rfl

/-- a document with an entry line has delimiters: the set is neither empty nor the lone line break -/
theorem noDelim_false (cfg : Cfg) (e : EntryI) (h : e.WF cfg) : noDelim cfg.delim = false := by
  unfold noDelim
  rcases h.dIn with hd | ⟨hm, _⟩
  · have hne : e.d ≠ NL := by
      have := h.dText
      simp only [isText, Bool.and_eq_true, bne_iff_ne, ne_eq] at this
      exact this.2
    cases hdl : cfg.delim with
    | nil => rw [hdl] at hd; simp at hd
    | cons a as =>
      have h2 : (a :: as == [NL]) = false := by
        cases hc : (a :: as == [NL])
        · rfl
        · have : a :: as = [NL] := by simpa using hc
          rw [hdl, this] at hd
          simp only [List.contains_cons, List.contains_nil, Bool.or_false, beq_iff_eq] at hd
          exact absurd hd hne
      simp [h2]
  · cases hdl : cfg.delim with
    | nil => rw [hdl] at hm; simp [mixedDelim, hasWsp] at hm
    | cons a as =>
      have h2 : (a :: as == [NL]) = false := by
        cases hc : (a :: as == [NL])
        · rfl
        · have : a :: as = [NL] := by simpa using hc
          rw [hdl, this] at hm
          simp [mixedDelim, hasWsp, hasNonWsp, isSpace, NL] at hm
      simp [h2]

/-- a comment character is never the separator byte -/
theorem comment_ne_d (cfg : Cfg) (hw : CfgWF cfg) (e : EntryI) (h : e.WF cfg) (k : Byte) (hk : k ∈ cfg.comment) : k ≠ e.d := by
  intro hh
  rcases h.dIn with hd | ⟨_, hd⟩
  · have := hw.kd k hk
    rw [hh, hd] at this; cases this
  · have := hw.kb k hk
    rw [hh, isBlank_isSpace hd] at this; cases this

theorem core_texts (cfg : Cfg) (e : EntryI) (h : e.WF cfg) : texts e.core := by
  intro c hc
  unfold EntryI.core at hc
  rcases List.mem_append.mp hc with hc | hc
  · rcases List.mem_append.mp hc with hc | hc
    · rcases List.mem_append.mp hc with hc | hc
      · rcases List.mem_append.mp hc with hc | hc
        · exact (h.keyCh c hc).1
        · exact isBlank_isText (h.ws1 c hc)
      · rcases List.mem_cons.mp hc with hc | hc
        · rw [hc]; exact h.dText
        · exact isBlank_isText (h.ws2 c hc)
    · have hv := h.val
      cases hval : e.value with
      | plain v => rw [hval] at hv hc; exact hv.1 c hc
      | quoted q =>
        rw [hval] at hv hc
        simp only [ValSpell.render, List.cons_append, List.mem_cons, List.mem_append, List.mem_nil_iff, or_false] at hc
        rcases hc with hc | hc | hc
        · rw [hc]; decide
        · exact hv c hc
        · rw [hc]; decide
  · exact isBlank_isText (h.tws c hc)

theorem core_safe (cfg : Cfg) (hw : CfgWF cfg) (e : EntryI) (h : e.WF cfg) (k : Byte) (hk : k ∈ cfg.comment) : SafeFor k e.core := by
  have hkb : ∀ ws, blanks ws → k ∉ ws := by
    intro ws hws hin
    have := isBlank_isSpace (hws k hin)
    rw [hw.kb k hk] at this; cases this
  have hkd : k ≠ e.d := comment_ne_d cfg hw e h k hk
  have hkkey : k ∉ e.key := fun hin => (h.keyCh k hin).2.2.2.1 hk
  have hpre : k ∉ e.key ++ e.ws1 ++ e.d :: e.ws2 := by
    simp only [List.mem_append, List.mem_cons, not_or]
    exact ⟨⟨hkkey, hkb _ h.ws1⟩, hkd, hkb _ h.ws2⟩
  have hv := h.val
  unfold EntryI.core
  cases hval : e.value with
  | plain v =>
    rw [hval] at hv
    left
    intro hin
    simp only [ValSpell.render] at hin
    rcases List.mem_append.mp hin with hin | hin
    · rcases List.mem_append.mp hin with hin | hin
      · exact hpre hin
      · exact hv.2.1 k hk hin
    · exact hkb _ h.tws hin
  | quoted q =>
    right
    refine ⟨e.key ++ e.ws1 ++ e.d :: e.ws2, q, e.tws, by simp [ValSpell.render], hpre, hkb _ h.tws, ?_⟩
    intro hin
    have := isBlank_isSpace (h.tws QUOTE hin)
    simp [isSpace, QUOTE] at this


/-- what follows the separator of an entry line -/
def EntryI.rest (e : EntryI) : Str := e.ws2 ++ e.value.render ++ e.tws

theorem EntryI.core_eq (e : EntryI) : e.core = e.key ++ (e.ws1 ++ e.d :: e.rest) := by
  simp [EntryI.core, EntryI.rest]

theorem takeWhile_upto {α} (p : α → Bool) (pre : List α) (x : α) (rest : List α)
    (hall : ∀ c ∈ pre, p c = true) (hx : p x = false) : (pre ++ x :: rest).takeWhile p = pre := by
  rw [takeWhile_append_of_all _ _ _ hall, List.takeWhile_cons, hx]; simp

theorem dropWhile_upto {α} (p : α → Bool) (pre : List α) (x : α) (rest : List α)
    (hall : ∀ c ∈ pre, p c = true) (hx : p x = false) : (pre ++ x :: rest).dropWhile p = x :: rest := by
  rw [dropWhile_append_of_all _ _ _ hall, List.dropWhile_cons, hx]; simp

/-- "delimiter seen" as `read_file` computes it from the byte right behind the key -/
def seenAt (delim : Str) (x : Byte) : Bool :=
  if mixedDelim delim then !isSpace x && delim.contains x else delim.contains x

/-- the byte right behind the key of an entry line -/
def EntryI.sepByte (e : EntryI) : Byte :=
  match e.ws1 with
  | [] => e.d
  | b :: _ => b

/-- what follows that byte -/
def EntryI.data (e : EntryI) : Str :=
  match e.ws1 with
  | [] => e.rest
  | _ :: bs => bs ++ e.d :: e.rest

theorem d_is_sep (cfg : Cfg) (e : EntryI) (h : e.WF cfg) : (isSpace e.d || cfg.delim.contains e.d) = true := by
  rcases h.dIn with hd | ⟨_, hd⟩
  · rw [hd]; simp
  · rw [isBlank_isSpace hd]; simp

theorem splitKey_core (cfg : Cfg) (e : EntryI) (h : e.WF cfg) :
    splitKey cfg.delim e.core = (e.key, seenAt cfg.delim e.sepByte, e.data) := by
  have hkeysep : ∀ x ∈ e.key, (fun c => !(isSpace c || cfg.delim.contains c)) x = true := by
    intro x hx; show (!(isSpace x || cfg.delim.contains x)) = true
    rw [(h.keyCh x hx).2.1, (h.keyCh x hx).2.2.1]; rfl
  obtain ⟨k0, ks, hkey⟩ : ∃ k0 ks, e.key = k0 :: ks := by
    cases hk : e.key with
    | nil => exact absurd hk h.keyNe
    | cons a as => exact ⟨a, as, rfl⟩
  rw [EntryI.core_eq]
  unfold splitKey EntryI.sepByte EntryI.data seenAt
  cases hws : e.ws1 with
  | nil =>
    have hd : (fun c => !(isSpace c || cfg.delim.contains c)) e.d = false := by
      show (!(isSpace e.d || cfg.delim.contains e.d)) = false
      rw [d_is_sep cfg e h]; rfl
    simp only [List.nil_append]
    rw [takeWhile_upto _ _ _ _ hkeysep hd, dropWhile_upto _ _ _ _ hkeysep hd]
    simp only [hkey]
  | cons b bs =>
    have hb : isBlank b = true := h.ws1 b (by rw [hws]; simp)
    have hbs : (fun c => !(isSpace c || cfg.delim.contains c)) b = false := by
      show (!(isSpace b || cfg.delim.contains b)) = false
      rw [isBlank_isSpace hb]; simp
    simp only [List.cons_append]
    rw [takeWhile_upto _ _ _ _ hkeysep hbs, dropWhile_upto _ _ _ _ hkeysep hbs]
    simp only [hkey]

/-- the value of an entry line, from the first byte after the blanks behind the delimiter -/
theorem valueOf_rest (cfg : Cfg) (e : EntryI) (h : e.WF cfg) :
    valueOf (e.rest.dropWhile isSpace) =
      (match e.value with
       | .plain v => (some v, false)
       | .quoted q => (some q, true)) := by
  unfold EntryI.rest
  rw [List.append_assoc, dropWhile_blanks _ _ h.ws2]
  have hv := h.val
  cases hval : e.value with
  | quoted q =>
    have : (ValSpell.render (.quoted q) ++ e.tws).dropWhile isSpace = (QUOTE :: q ++ [QUOTE]) ++ e.tws := by
      simp only [ValSpell.render, List.cons_append]
      rw [List.dropWhile_cons]; simp [isSpace, QUOTE]
    rw [this, valueOf_quoted q e.tws h.tws]
  | plain v =>
    rw [hval] at hv
    cases v with
    | nil =>
      simp only [ValSpell.render, List.nil_append]
      rw [dropWhile_all_blanks _ h.tws]; rfl
    | cons c cs =>
      have hc := hv.2.2.1 c rfl
      have : (ValSpell.render (.plain (c :: cs)) ++ e.tws).dropWhile isSpace = (c :: cs) ++ e.tws := by
        simp only [ValSpell.render, List.cons_append]
        rw [List.dropWhile_cons]; simp [hc.1]
      rw [this, valueOf_plain c cs e.tws h.tws hc.2.1 hv.2.2.2]

/-- the text from the first non-blank byte behind the separator -/
def EntryI.vtext (e : EntryI) : Str := e.rest.dropWhile isSpace

theorem vtext_eq (e : EntryI) (cfg : Cfg) (h : e.WF cfg) : e.vtext = (e.value.render ++ e.tws).dropWhile isSpace := by
  unfold EntryI.vtext EntryI.rest
  rw [List.append_assoc, dropWhile_blanks _ _ h.ws2]

/-- the value read from that text is the expected one, unless the value is the empty plain text
    (then the text is empty) -/
theorem valueOf_vtext (cfg : Cfg) (e : EntryI) (h : e.WF cfg) :
    (e.value ≠ .plain [] ∧ valueOf e.vtext = e.expValue) ∨ (e.value = .plain [] ∧ e.vtext = []) := by
  cases hval : e.value with
  | quoted q =>
    left; refine ⟨(by intro hh; cases hh), ?_⟩
    unfold EntryI.vtext
    rw [valueOf_rest cfg e h, hval]; simp [EntryI.expValue, hval]
  | plain v =>
    cases v with
    | nil =>
      right; refine ⟨rfl, ?_⟩
      rw [vtext_eq e cfg h, hval]
      simp [ValSpell.render, dropWhile_all_blanks _ h.tws]
    | cons c cs =>
      left; refine ⟨(by intro hh; cases hh), ?_⟩
      unfold EntryI.vtext
      rw [valueOf_rest cfg e h, hval]; simp [EntryI.expValue, hval]

/-- in the mixed class the text does not start with a delimiter byte -/
theorem vtext_head (cfg : Cfg) (hw : CfgWF cfg) (e : EntryI) (h : e.WF cfg) (hm : mixedDelim cfg.delim = true)
    (c : Byte) (cs : Str) (hv : e.vtext = c :: cs) : cfg.delim.contains c = false := by
  rw [vtext_eq e cfg h] at hv
  have hval := h.val
  cases hvl : e.value with
  | quoted q =>
    rw [hvl] at hv
    simp only [ValSpell.render, List.cons_append, List.dropWhile_cons] at hv
    have : isSpace QUOTE = false := by decide
    simp only [this, Bool.false_eq_true, if_false, List.cons.injEq] at hv
    rw [← hv.1]; exact hw.dquote
  | plain v =>
    rw [hvl] at hv hval
    cases v with
    | nil =>
      simp only [ValSpell.render, List.nil_append] at hv
      rw [dropWhile_all_blanks _ h.tws] at hv; cases hv
    | cons a as =>
      have ha := hval.2.2.1 a rfl
      simp only [ValSpell.render, List.cons_append, List.dropWhile_cons, ha.1, Bool.false_eq_true, if_false, List.cons.injEq] at hv
      rw [← hv.1]; exact ha.2.2 hm

/-- skipping the separator: whatever the class, the parser arrives at the text of the value -/
theorem skipDelim_core (cfg : Cfg) (hw : CfgWF cfg) (e : EntryI) (h : e.WF cfg) :
    skipDelim cfg.delim (seenAt cfg.delim e.sepByte) e.data = .ok e.vtext := by
  -- the three classes
  by_cases hmx : mixedDelim cfg.delim = true
  · -- mixed: blanks and other bytes
    have hwsp : hasWsp cfg.delim = true := by
      unfold mixedDelim at hmx; simp only [Bool.and_eq_true] at hmx; exact hmx.1
    have hskip : ∀ (ds : Bool) (data : Str), data.dropWhile isSpace = e.vtext →
        skipDelim cfg.delim ds data = .ok e.vtext := by
      intro ds data hd
      unfold skipDelim
      simp only [hwsp, Bool.not_true, Bool.false_and, Bool.false_eq_true, if_false, hmx, Bool.true_and, hd]
      cases ds
      · simp only [Bool.not_false, if_true]
        cases hv : e.vtext with
        | nil => rfl
        | cons c cs => simp only [vtext_head cfg hw e h hmx c cs hv, Bool.false_eq_true, if_false]
      · simp
    unfold EntryI.data EntryI.sepByte
    cases hws : e.ws1 with
    | nil =>
      simp only
      by_cases hds : seenAt cfg.delim e.d = true
      · rw [hds]
        unfold skipDelim
        simp only [hwsp, Bool.not_true, Bool.false_and, Bool.false_eq_true, if_false, hmx, Bool.and_false]
        rfl
      · have hds' : seenAt cfg.delim e.d = false := by simpa using hds
        rw [hds']
        exact hskip false e.rest rfl
    | cons b bs =>
      simp only
      have hbsb : blanks bs := fun x hx => h.ws1 x (by rw [hws]; exact List.mem_cons_of_mem _ hx)
      have hb : isBlank b = true := h.ws1 b (by rw [hws]; simp)
      have hseen : seenAt cfg.delim b = false := by
        unfold seenAt; simp [hmx, isBlank_isSpace hb]
      rw [hseen]
      by_cases hdsp : isSpace e.d = true
      · apply hskip
        rw [dropWhile_blanks _ _ hbsb, List.dropWhile_cons, hdsp]; rfl
      · have hdsp' : isSpace e.d = false := by simpa using hdsp
        have hdin : cfg.delim.contains e.d = true := by
          rcases h.dIn with hd | ⟨_, hd⟩
          · exact hd
          · rw [isBlank_isSpace hd] at hdsp'; cases hdsp'
        unfold skipDelim
        have hd1 : (bs ++ e.d :: e.rest).dropWhile isSpace = e.d :: e.rest := by
          rw [dropWhile_blanks _ _ hbsb, List.dropWhile_cons, hdsp']; rfl
        simp only [hwsp, Bool.not_true, Bool.false_and, Bool.false_eq_true, if_false, hmx, Bool.true_and, Bool.not_false, if_true, hd1, hdin]
        rfl
  · have hmx' : mixedDelim cfg.delim = false := by simpa using hmx
    have hdin : cfg.delim.contains e.d = true := by
      rcases h.dIn with hd | ⟨hm, _⟩
      · exact hd
      · rw [hmx'] at hm; cases hm
    by_cases hwsp : hasWsp cfg.delim = true
    · -- blank class: every delimiter is a blank
      have hnw : hasNonWsp cfg.delim = false := by
        unfold mixedDelim at hmx'; rw [hwsp] at hmx'; simpa using hmx'
      have hdsp : isSpace e.d = true := space_of_delim cfg.delim hnw e.d hdin
      have hskip : ∀ (ds : Bool) (data : Str), data.dropWhile isSpace = e.vtext → skipDelim cfg.delim ds data = .ok e.vtext := by
        intro ds data hd
        unfold skipDelim
        simp only [hwsp, Bool.not_true, Bool.false_and, Bool.false_eq_true, if_false, hmx', hd]
      unfold EntryI.data EntryI.sepByte
      cases hws : e.ws1 with
      | nil => exact hskip _ _ rfl
      | cons b bs =>
        have hbsb : blanks bs := fun x hx => h.ws1 x (by rw [hws]; exact List.mem_cons_of_mem _ hx)
        apply hskip
        rw [dropWhile_blanks _ _ hbsb, List.dropWhile_cons, hdsp]; rfl
    · -- non-blank class
      have hwsp' : hasWsp cfg.delim = false := by simpa using hwsp
      have hdsp : isSpace e.d = false := not_space_of_delim cfg.delim hwsp' e.d hdin
      unfold EntryI.data EntryI.sepByte seenAt
      cases hws : e.ws1 with
      | nil =>
        unfold skipDelim
        simp only [hmx', Bool.false_eq_true, if_false, hdin, Bool.not_true, Bool.and_false, Bool.false_and]
        rfl
      | cons b bs =>
        have hbsb : blanks bs := fun x hx => h.ws1 x (by rw [hws]; exact List.mem_cons_of_mem _ hx)
        have hb : isBlank b = true := h.ws1 b (by rw [hws]; simp)
        have hd1 : (bs ++ e.d :: e.rest).dropWhile isSpace = e.d :: e.rest := by
          rw [dropWhile_blanks _ _ hbsb, List.dropWhile_cons, hdsp]; rfl
        unfold skipDelim
        simp only [hmx', Bool.false_eq_true, if_false, blank_not_delim cfg.delim hwsp' b hb, hwsp', Bool.not_false, Bool.true_and,
          if_true, hd1, hdin]
        rfl

/-- the value the parser assigns to an entry line of the grammar is the expected one -/
theorem parseValue_core (cfg : Cfg) (hw : CfgWF cfg) (e : EntryI) (h : e.WF cfg) :
    parseValue cfg.delim (seenAt cfg.delim e.sepByte) e.data = .ok e.expValue := by
  unfold parseValue
  by_cases hde : e.data.isEmpty = true
  · -- nothing at all follows the byte behind the key: no value
    simp only [hde, if_true]
    have hd : e.data = [] := by simpa using hde
    unfold EntryI.data at hd
    cases hws : e.ws1 with
    | cons b bs => rw [hws] at hd; simp at hd
    | nil =>
      rw [hws] at hd
      simp only at hd
      unfold EntryI.rest at hd
      have h1 : e.ws2 = [] := by
        cases hh : e.ws2 with
        | nil => rfl
        | cons a as => rw [hh] at hd; simp at hd
      have h3 : e.tws = [] := by
        cases hh : e.tws with
        | nil => rfl
        | cons a as => rw [hh] at hd; simp at hd
      have h2 : e.value.render = [] := by
        rw [h1, h3] at hd; simpa using hd
      have hv : e.value = .plain [] := by
        cases hval : e.value with
        | plain v => rw [hval] at h2; simp [ValSpell.render] at h2; rw [h2]
        | quoted q => rw [hval] at h2; simp [ValSpell.render] at h2
      simp [EntryI.expValue, hv, hws, h1, h3]
  · simp only [hde, Bool.false_eq_true, if_false, skipDelim_core cfg hw e h]
    rcases valueOf_vtext cfg e h with ⟨_, hv⟩ | ⟨hv, hvt⟩
    · rw [hv]
    · -- the empty plain value with something (blanks, the separator) behind the key: the empty text
      rw [hvt]
      have hne : ¬(e.ws1.isEmpty = true ∧ e.ws2.isEmpty = true ∧ e.tws.isEmpty = true) := by
        intro hh
        apply hde
        have a : e.ws1 = [] := by simpa using hh.1
        have b : e.ws2 = [] := by simpa using hh.2.1
        have c : e.tws = [] := by simpa using hh.2.2
        simp [EntryI.data, EntryI.rest, a, b, c, hv, ValSpell.render]
      simp only [valueOf, EntryI.expValue, hv, List.isEmpty_nil, if_true]
      cases h1 : e.ws1.isEmpty <;> cases h2 : e.ws2.isEmpty <;> cases h3 : e.tws.isEmpty <;> simp_all

/-- an entry line is never taken for a continuation of the previous entry -/
theorem isContinuation_core (cfg : Cfg) (hw : CfgWF cfg) (st : PState) (org : Str) (e : EntryI) (h : e.WF cfg) :
    isContinuation cfg st org (seenAt cfg.delim e.sepByte) e.data = false := by
  unfold isContinuation
  by_cases hmx : mixedDelim cfg.delim = true
  · simp [hmx]
  · have hmx' : mixedDelim cfg.delim = false := by simpa using hmx
    have hdin : cfg.delim.contains e.d = true := by
      rcases h.dIn with hd | ⟨hm, _⟩
      · exact hd
      · rw [hmx'] at hm; cases hm
    have hfound : (seenAt cfg.delim e.sepByte || e.data.any cfg.delim.contains) = true := by
      unfold EntryI.sepByte EntryI.data seenAt
      cases hws : e.ws1 with
      | nil => simp only [hmx', Bool.false_eq_true, if_false, hdin, Bool.true_or]
      | cons b bs =>
        have : (bs ++ e.d :: e.rest).any cfg.delim.contains = true := by
          rw [List.any_append, List.any_cons, hdin]; simp
        simp [this]
    simp only [hw.noPython, hmx', hfound]
    simp

/-- first line of an entry item -/
theorem parse_entry_first (cfg : Cfg) (hw : CfgWF cfg) (st : PState) (e : EntryI) (h : e.WF cfg) :
    parseLine cfg st (e.indent ++ e.body ++ [NL]) =
      .ok (storeNew { st with line := st.line + 1, ca := caWith st.ca e.tc } e.key e.expValue.1 e.expValue.2) := by
  obtain ⟨k0, ks, hkey⟩ : ∃ k0 ks, e.key = k0 :: ks := by
    cases hk : e.key with
    | nil => exact absurd hk h.keyNe
    | cons a as => exact ⟨a, as, rfl⟩
  have hk0 := h.keyCh k0 (by rw [hkey]; simp)
  have hbodytext : texts e.body := by
    rw [EntryI.body_eq]
    intro c hc
    rcases List.mem_append.mp hc with hc | hc
    · exact core_texts cfg e h c hc
    · exact trail_texts cfg hw e.tc h.tc c hc
  have hcore : e.core = k0 :: (ks ++ (e.ws1 ++ e.d :: e.rest)) := by
    rw [EntryI.core_eq, hkey]; rfl
  have hb : lineBody (e.indent ++ e.body ++ [NL]) = e.body := by
    apply lineBody_render e.indent _ h.ind hbodytext
    intro x hx
    rw [EntryI.body_eq, hcore] at hx
    simp at hx; subst hx; exact hk0.2.1
  have hcomm : cfg.comment.contains k0 = false := by
    cases hc : cfg.comment.contains k0
    · rfl
    · exact absurd (by simpa using hc) hk0.2.2.2.1
  have hscan := scan_line cfg hw e.core e.tc st.ca (core_safe cfg hw e h) h.tc
  have hlbr : (k0 == LBR) = false := by
    cases hc : k0 == LBR
    · rfl
    · have hk : k0 = LBR := by simpa using hc
      have hh := h.keyHead; rw [hkey, hk] at hh; simp at hh
  unfold parseLine
  simp only [hb]
  generalize cstr (e.indent ++ e.body ++ [NL]) = org
  rw [EntryI.body_eq]
  rw [hcore] at hscan ⊢
  simp only [List.cons_append, hcomm, Bool.false_eq_true, if_false]
  simp only [List.cons_append] at hscan
  rw [hscan]
  simp only [parseContent, hlbr, Bool.false_eq_true, if_false, noDelim_false cfg e h, parseEntry]
  rw [← hcore, splitKey_core cfg e h]
  have hcont := isContinuation_core cfg hw { st with line := st.line + 1, ca := caWith st.ca e.tc } org e h
  have hval := parseValue_core cfg hw e h
  have hkne : e.key.isEmpty = false := by rw [hkey]; rfl
  simp only [hcont, Bool.false_eq_true, if_false, hkne, hval]


/-- the last entry was stored or extended on the current line -/
def LastHere (st : PState) : Prop := ∃ e, st.entries.getLast? = some e ∧ e.line = st.line

theorem lastHere_storeNew (st : PState) (k : Str) (v : Option Str) (q : Bool) : LastHere (storeNew st k v q) := by
  unfold LastHere storeNew
  simp

theorem lastHere_storeAppend (py : Bool) (st : PState) (v : Str) (h : st.entries ≠ []) : LastHere (storeAppend py st v) := by
  unfold LastHere storeAppend
  cases hl : st.entries.getLast? with
  | none => exact absurd (List.getLast?_eq_none_iff.mp hl) h
  | some e => simp [appendToEntry]

theorem lastEntry_next (st : PState) (ca : Option Str) (h : LastHere st) :
    lastEntryOnPrevLine { st with line := st.line + 1, ca := ca } = true := by
  obtain ⟨e, he, hl⟩ := h
  simp [lastEntryOnPrevLine, he, hl]

theorem entries_ne_of_lastHere (st : PState) (h : LastHere st) : st.entries ≠ [] := by
  obtain ⟨e, he, _⟩ := h
  intro hn; rw [hn] at he; simp at he

/-- a line without delimiter bytes: no delimiter is seen -/
theorem splitKey_nodelim (delim name : Str) (hm : mixedDelim delim = false) (h : ∀ c ∈ name, delim.contains c = false) :
    (splitKey delim name).2.1 = false ∧ (splitKey delim name).2.2.any delim.contains = false := by
  unfold splitKey
  simp only
  have hsub : ∀ c ∈ name.dropWhile (fun c => !(isSpace c || delim.contains c)), delim.contains c = false :=
    fun c hc => h c ((List.dropWhile_sublist _).subset hc)
  split
  · rename_i k ks d ds hk hr
    rw [hr] at hsub
    refine ⟨?_, ?_⟩
    · simp only [hm, Bool.false_eq_true, if_false]; exact hsub d (by simp)
    · rw [List.any_eq_false]; intro x hx; rw [hsub x (List.mem_cons_of_mem _ hx)]; simp
  · refine ⟨rfl, ?_⟩
    rw [List.any_eq_false]; intro x hx; rw [hsub x hx]; simp

theorem foldl_takeWhile_id (ks l : Str) (h : ∀ k ∈ ks, k ∉ l) : ks.foldl (fun o c => o.takeWhile (· != c)) l = l := by
  induction ks with
  | nil => rfl
  | cons k ks ih =>
    rw [List.foldl_cons]
    have : l.takeWhile (· != k) = l := by
      have := takeWhile_append_of_all (fun x => x != k) l [] (by
        intro x hx
        simp only [bne_iff_ne, ne_eq]
        intro hxk; subst hxk; exact h x (by simp) hx)
      simpa using this
    rw [this]
    exact ih (fun k' hk' => h k' (List.mem_cons_of_mem _ hk'))

/-- continuation line of an entry item -/
theorem parse_cont (cfg : Cfg) (hw : CfgWF cfg) (hmixed : mixedDelim cfg.delim = false) (hndl : noDelim cfg.delim = false) (st : PState) (l : ContLine) (h : l.WF cfg) (hl : LastHere st) :
    parseLine cfg st (l.render ++ [NL]) = .ok (storeAppend false { st with line := st.line + 1 } l.render) := by
  have hbodytext : texts (l.text ++ l.trail) := by
    intro c hc
    rcases List.mem_append.mp hc with hc | hc
    · exact (h.textCh c hc).1
    · exact isBlank_isText (h.trail c hc)
  obtain ⟨t0, ts, htext⟩ : ∃ t0 ts, l.text = t0 :: ts := by
    cases ht : l.text with
    | nil => exact absurd ht h.textNe
    | cons a as => exact ⟨a, as, rfl⟩
  have ht0 := h.head t0 (by rw [htext]; rfl)
  have ht0c := h.textCh t0 (by rw [htext]; simp)
  have hrender : l.render ++ [NL] = l.indent ++ (l.text ++ l.trail) ++ [NL] := by simp [ContLine.render]
  have hb : lineBody (l.render ++ [NL]) = l.text ++ l.trail := by
    rw [hrender]
    apply lineBody_render l.indent _ h.ind hbodytext
    intro x hx; rw [htext] at hx; simp at hx; subst hx; exact ht0.1
  have horg : cstr (l.render ++ [NL]) = l.render ++ [NL] := by
    rw [hrender]; exact cstr_render l.indent _ h.ind hbodytext
  have hkb : ∀ k ∈ cfg.comment, ∀ ws, blanks ws → k ∉ ws := by
    intro k hk ws hws hin
    have := isBlank_isSpace (hws k hin)
    rw [hw.kb k hk] at this; cases this
  have hnocomm : ∀ k ∈ cfg.comment, k ∉ l.text ++ l.trail := by
    intro k hk hin
    rcases List.mem_append.mp hin with hin | hin
    · exact (h.textCh k hin).2.2 hk
    · exact hkb k hk _ h.trail hin
  have hscan := scan_line cfg hw (l.text ++ l.trail) none st.ca (fun k hk => Or.inl (hnocomm k hk)) trivial
  simp only [TrailC.render, List.append_nil, caWith] at hscan
  have hcomm : cfg.comment.contains t0 = false := by
    cases hc : cfg.comment.contains t0
    · rfl
    · exact absurd (by simpa using hc) ht0c.2.2
  have hlbr : (t0 == LBR) = false := by
    cases hc : t0 == LBR
    · rfl
    · exact absurd (by simpa using hc) ht0.2
  have hnd : ∀ c ∈ l.text ++ l.trail, cfg.delim.contains c = false := by
    intro c hc
    rcases List.mem_append.mp hc with hc | hc
    · exact (h.textCh c hc).2.1
    · exact h.trailNd c hc
  have hsk := splitKey_nodelim cfg.delim (l.text ++ l.trail) hmixed hnd
  have hct : contText false cfg.comment (l.render ++ [NL]) = l.render := by
    unfold contText
    simp only [Bool.false_eq_true, if_false]
    rw [foldl_takeWhile_id]
    · simp
    · intro k hk hin
      rw [hrender] at hin
      simp only [List.mem_append, List.mem_singleton] at hin
      rcases hin with (hin | hin) | hin
      · exact hkb k hk _ h.ind hin
      · exact hnocomm k hk (List.mem_append.mpr hin)
      · subst hin; have := hw.kb NL hk; simp [isSpace, NL] at this
  unfold parseLine
  simp only [hb, horg]
  rw [htext] at hscan hsk ⊢
  simp only [List.cons_append] at hscan hsk ⊢
  simp only [hcomm, Bool.false_eq_true, if_false, hscan]
  simp only [parseContent, hlbr, Bool.false_eq_true, if_false, hndl, parseEntry]
  have hle := lastEntry_next st st.ca hl
  simp only [isContinuation, hw.noPython, hmixed, hsk.1, hsk.2, hle]
  simp only [Bool.not_false, Bool.true_or, Bool.or_self, Bool.and_self, if_true, Bool.not_true]
  rw [hct]


/-- continuation lines of an entry item -/
theorem parse_conts (cfg : Cfg) (hw : CfgWF cfg) (hmixed : mixedDelim cfg.delim = false) (hnd : noDelim cfg.delim = false) (conts : List ContLine) (st : PState)
    (h : ∀ l ∈ conts, l.WF cfg) (hl : LastHere st) :
    parseLines cfg st (conts.map (fun l => l.render ++ [NL])) =
      .ok (conts.foldl (fun s l => storeAppend false { s with line := s.line + 1 } l.render) st) ∧
    LastHere (conts.foldl (fun s l => storeAppend false { s with line := s.line + 1 } l.render) st) := by
  induction conts generalizing st with
  | nil => exact ⟨rfl, hl⟩
  | cons l ls ih =>
    have h1 := parse_cont cfg hw hmixed hnd st l (h l (by simp)) hl
    have hl' : LastHere (storeAppend false { st with line := st.line + 1 } l.render) :=
      lastHere_storeAppend false _ _ (entries_ne_of_lastHere st hl)
    have := ih _ (fun l' hl' => h l' (List.mem_cons_of_mem _ hl')) hl'
    simp only [List.map_cons, parseLines, h1, List.foldl_cons]
    exact this

theorem texts_append {a b : Str} (ha : texts a) (hb : texts b) : texts (a ++ b) := by
  intro c hc
  rcases List.mem_append.mp hc with hc | hc
  · exact ha c hc
  · exact hb c hc

theorem texts_blanks {a : Str} (h : blanks a) : texts a := fun c hc => isBlank_isText (h c hc)

/-- a line of the keys-only format: the whole text (without its trailing blanks) is the key, there is
    no value -/
theorem parse_keyonly (cfg : Cfg) (hw : CfgWF cfg) (st : PState) (ind key trail : Str) (tc : Option TrailC)
    (h : (Item.keyonly ind key trail tc).WF cfg) :
    parseLines cfg st (Item.keyonly ind key trail tc).lines = .ok (expItem st (.keyonly ind key trail tc)) := by
  obtain ⟨hnd, hi, htr, hne, hch, hhead, hlast, htc⟩ := h
  obtain ⟨k0, ks, rfl⟩ : ∃ k0 ks, key = k0 :: ks := by
    cases key with
    | nil => exact absurd rfl hne
    | cons a as => exact ⟨a, as, rfl⟩
  have hk0 := hch k0 (by simp)
  have hk0h := hhead k0 rfl
  have hbodytext : texts ((k0 :: ks) ++ trail ++ TrailC.render tc) :=
    texts_append (texts_append (fun c hc => (hch c hc).1) (fun c hc => isBlank_isText (htr c hc))) (trail_texts cfg hw tc htc)
  have hb : lineBody (ind ++ ((k0 :: ks) ++ trail ++ TrailC.render tc) ++ [NL]) = (k0 :: ks) ++ trail ++ TrailC.render tc := by
    apply lineBody_render ind _ hi hbodytext
    intro x hx; simp at hx; subst hx; exact hk0h.1
  have hcomm : cfg.comment.contains k0 = false := by
    cases hc : cfg.comment.contains k0
    · rfl
    · exact absurd (by simpa using hc) hk0.2.1
  have hsafe : ∀ k ∈ cfg.comment, SafeFor k ((k0 :: ks) ++ trail) := by
    intro k hk
    left
    intro hin
    rcases List.mem_append.mp hin with hin | hin
    · exact (hch k hin).2.1 hk
    · have := isBlank_isSpace (htr k hin)
      rw [hw.kb k hk] at this; cases this
  have hscan := scan_line cfg hw ((k0 :: ks) ++ trail) tc st.ca hsafe htc
  have hlbr : (k0 == LBR) = false := by
    cases hc : k0 == LBR
    · rfl
    · exact absurd (by simpa using hc) hk0h.2
  have htrim : trimKey ((k0 :: ks) ++ trail) = trimKey (k0 :: ks) := by
    simp only [List.cons_append, trimKey]
    congr 1
    rw [dropLastWhile_append_all _ _ _ (fun x hx => isBlank_isSpace (htr x hx))]
  simp only [Item.lines, parseLines, expItem]
  unfold parseLine
  simp only [List.cons_append, List.append_assoc] at hb hscan ⊢
  simp only [hb, hcomm, Bool.false_eq_true, if_false, hscan]
  simp only [parseContent, hlbr, Bool.false_eq_true, if_false, hnd, if_true]
  simp only [List.cons_append] at htrim
  simp only [storeNew, htrim]

/-- every item is parsed into what it is expected to contribute -/
theorem parse_item (cfg : Cfg) (hw : CfgWF cfg) (st : PState) (it : Item) (h : it.WF cfg) :
    parseLines cfg st it.lines = .ok (expItem st it) := by
  cases it with
  | blank ws => exact parse_blank cfg st ws h
  | comment ind c text => exact parse_comment cfg st ind c text hw h.1 h.2.1 h.2.2
  | sect ind name trail tc => exact parse_sect cfg st ind name trail tc hw h.1 h.2.1 h.2.2.1 h.2.2.2.1 h.2.2.2.2
  | entry e =>
    have h1 := parse_entry_first cfg hw st e h.1
    simp only [Item.lines, parseLines, h1, expItem]
    by_cases hc : e.cont = []
    · rw [hc]; rfl
    · have h2 := parse_conts cfg hw (h.2.2 hc) (noDelim_false cfg e h.1) e.cont _ h.2.1 (lastHere_storeNew { st with line := st.line + 1, ca := caWith st.ca e.tc } e.key e.expValue.1 e.expValue.2)
      exact h2.1
  | keyonly ind key trail tc => exact parse_keyonly cfg hw st ind key trail tc h

/-- documents -/
theorem parse_doc (cfg : Cfg) (hw : CfgWF cfg) (doc : List Item) (st : PState) (h : ∀ it ∈ doc, it.WF cfg) :
    parseLines cfg st (renderLines doc) = .ok (doc.foldl expItem st) := by
  induction doc generalizing st with
  | nil => rfl
  | cons it its ih =>
    unfold renderLines
    rw [List.flatMap_cons, parseLines_append, parse_item cfg hw st it (h it (by simp))]
    simp only [List.foldl_cons]
    exact ih _ (fun it' hit' => h it' (List.mem_cons_of_mem _ hit'))

/-! ### the bytes of the file are split into exactly the lines of the items -/

theorem splitLines_line (t rest : Str) (h : NL ∉ t) : splitLines (t ++ NL :: rest) = (t ++ [NL]) :: splitLines rest := by
  induction t with
  | nil => simp [splitLines]
  | cons x t ih =>
    have hx : (x == NL) = false := by
      cases hc : x == NL
      · rfl
      · exact absurd (by simpa using hc) (fun hh : x = NL => h (by rw [hh]; simp))
    have := ih (fun hh => h (List.mem_cons_of_mem _ hh))
    simp only [List.cons_append, splitLines, hx, Bool.false_eq_true, if_false, this]

def IsLine (l : Str) : Prop := ∃ t, l = t ++ [NL] ∧ texts t

theorem text_ne_NL {t : Str} (h : texts t) : NL ∉ t := by
  intro hin
  have := h NL hin
  simp [isText] at this

theorem splitLines_lines (ls : List Str) (h : ∀ l ∈ ls, IsLine l) : splitLines ls.flatten = ls := by
  induction ls with
  | nil => rfl
  | cons l ls ih =>
    obtain ⟨t, rfl, ht⟩ := h l (by simp)
    rw [List.flatten_cons, List.append_assoc, List.singleton_append, splitLines_line t _ (text_ne_NL ht),
      ih (fun l' hl' => h l' (List.mem_cons_of_mem _ hl'))]

theorem splitLines_lines_append (ls : List Str) (rest : Str) (h : ∀ l ∈ ls, IsLine l) :
    splitLines (ls.flatten ++ rest) = ls ++ splitLines rest := by
  induction ls with
  | nil => rfl
  | cons l ls ih =>
    obtain ⟨t, rfl, ht⟩ := h l (by simp)
    rw [List.flatten_cons, List.append_assoc, List.append_assoc, List.singleton_append,
      splitLines_line t _ (text_ne_NL ht), ih (fun l' hl' => h l' (List.mem_cons_of_mem _ hl'))]
    rfl

theorem item_lines_text (cfg : Cfg) (hw : CfgWF cfg) (it : Item) (h : it.WF cfg) : ∀ l ∈ it.lines, IsLine l := by
  cases it with
  | blank ws =>
    intro l hl; simp only [Item.lines, List.mem_singleton] at hl; subst hl
    exact ⟨ws, rfl, texts_blanks h⟩
  | comment ind c text =>
    intro l hl; simp only [Item.lines, List.mem_singleton] at hl; subst hl
    refine ⟨ind ++ c :: text, rfl, texts_append (texts_blanks h.1) ?_⟩
    intro x hx
    rcases List.mem_cons.mp hx with hx | hx
    · rw [hx]; exact text_of_comment_char cfg hw c h.2.1
    · exact h.2.2 x hx
  | sect ind name trail tc =>
    intro l hl; simp only [Item.lines, List.mem_singleton] at hl; subst hl
    refine ⟨ind ++ (LBR :: name ++ RBR :: trail ++ TrailC.render tc), rfl, texts_append (texts_blanks h.1) ?_⟩
    apply texts_append
    · rw [show LBR :: name ++ RBR :: trail = [LBR] ++ (name ++ ([RBR] ++ trail)) by simp]
      apply texts_append
      · intro x hx; simp at hx; subst hx; decide
      · apply texts_append
        · exact fun x hx => (h.2.2.2.1 x hx).1
        · apply texts_append
          · intro x hx; simp at hx; subst hx; decide
          · exact texts_blanks h.2.1
    · exact trail_texts cfg hw tc h.2.2.2.2
  | entry e =>
    intro l hl
    simp only [Item.lines, List.mem_cons, List.mem_map] at hl
    rcases hl with hl | ⟨c, hc, hl⟩
    · subst hl
      refine ⟨e.indent ++ e.body, rfl, texts_append (texts_blanks h.1.ind) ?_⟩
      rw [EntryI.body_eq]
      exact texts_append (core_texts cfg e h.1) (trail_texts cfg hw e.tc h.1.tc)
    · subst hl
      have hc' := h.2.1 c hc
      refine ⟨c.render, rfl, ?_⟩
      unfold ContLine.render
      exact texts_append (texts_append (texts_blanks hc'.ind) (fun x hx => (hc'.textCh x hx).1)) (texts_blanks hc'.trail)
  | keyonly ind key trail tc =>
    intro l hl; simp only [Item.lines, List.mem_singleton] at hl; subst hl
    obtain ⟨_, hi, htr, _, hch, _, _, htc⟩ := h
    exact ⟨ind ++ (key ++ trail ++ TrailC.render tc), rfl,
      texts_append (texts_blanks hi) (texts_append (texts_append (fun c hc => (hch c hc).1) (texts_blanks htr)) (trail_texts cfg hw tc htc))⟩

theorem splitLines_render (cfg : Cfg) (hw : CfgWF cfg) (doc : List Item) (h : ∀ it ∈ doc, it.WF cfg) :
    splitLines (render doc) = renderLines doc := by
  apply splitLines_lines
  intro l hl
  unfold renderLines at hl
  obtain ⟨it, hit, hl⟩ := List.mem_flatMap.mp hl
  exact item_lines_text cfg hw it (h it hit) l hl

theorem lines_of_doc (cfg : Cfg) (hw : CfgWF cfg) (doc : List Item) (h : ∀ it ∈ doc, it.WF cfg) :
    ∀ l ∈ renderLines doc, IsLine l := by
  intro l hl
  unfold renderLines at hl
  obtain ⟨it, hit, hl⟩ := List.mem_flatMap.mp hl
  exact item_lines_text cfg hw it (h it hit) l hl

/-- a conventional document followed by anything: the lines are the document's lines, then the rest's -/
theorem splitLines_render_append (cfg : Cfg) (hw : CfgWF cfg) (doc : List Item) (rest : Str) (h : ∀ it ∈ doc, it.WF cfg) :
    splitLines (render doc ++ rest) = renderLines doc ++ splitLines rest :=
  splitLines_lines_append _ rest (lines_of_doc cfg hw doc h)

end Econf
