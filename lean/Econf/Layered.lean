import Econf.Parser
import Econf.Merge
import Econf.FS
import Econf.KeyFileOps

/-!
  Model of the read entry points: `read_file_with_callback`, `readConfigHistoryWithCallback`,
  `check_conf_dir`/`traverse_conf_dirs`, `merge_econf_files`, `readConfigWithCallback` and the
  public wrappers of lib/libeconf.c.  Process-wide settings are the explicit `Global` record.
-/

namespace Econf

/-- process-wide state of the library -/
structure Global where
  ownerSet : Bool := false
  owner : Nat := 0
  groupSet : Bool := false
  group : Nat := 0
  allowSymlinks : Bool := true
  permsSet : Bool := false           -- econf_requirePermissions
  permsFile : Nat := 0
  permsDir : Nat := 0
  confDirs : List Str := []          -- econf_set_conf_dirs
  errFile : Str := []                -- last_scanned_filename
  errLine : Nat := 0                 -- last_scanned_line_nr
  deriving Repr, DecidableEq

/-- `econf_reset_security_settings` -/
def resetSecurity (g : Global) : Global := { g with ownerSet := false, groupSet := false, permsSet := false, allowSymlinks := true }

/-- observable I/O of a read: callback invocations and opened files, in order -/
inductive Event where
  | cb (path : Str)
  | openFile (path : Str)
  deriving Repr, DecidableEq

/-- the caller's check callback: `none` = no callback given -/
abbrev Callback := Option (Nat → Str → Bool)     -- call index, path ↦ accept

structure RdCtx where
  fs : FS
  cb : Callback

/-- mutable part threaded through a read -/
structure RdState where
  g : Global
  trace : List Event := []
  calls : Nat := 0
  deriving Repr

def ownerOf : Node → Nat × Nat
  | .file _ u g => (u, g)
  | .link _ u g => (u, g)
  | .dir => (0, 0)

def isLinkNode : Node → Bool
  | .link _ _ _ => true
  | _ => false

/-- permission bits as `lstat` reports them for what the scenarios create (files 0644, directories 0755,
    symbolic links 0777) -/
def modeOf : Node → Nat
  | .file _ _ _ => 0o644
  | .link _ _ _ => 0o777
  | .dir => 0o755
def DIRMODE : Nat := 0o755

/-- The checks of `read_file_with_callback` between `lstat` and the callback, in their order:
    symbolic link, owner, group, then – with `econf_requirePermissions` – one of the required bits on the
    file and one on its directory.  `none` = the file passes. -/
def gate (g : Global) (node : Node) : Option Err :=
  if !g.allowSymlinks && isLinkNode node then some .fileIsSymLink
  else if g.ownerSet && (ownerOf node).1 != g.owner then some .wrongOwner
  else if g.groupSet && (ownerOf node).2 != g.group then some .wrongGroup
  else if g.permsSet && (modeOf node &&& g.permsFile) == 0 then some .wrongFilePermission
  else if g.permsSet && (DIRMODE &&& g.permsDir) == 0 then some .wrongDirPermission
  else none

/-- The file is open: read and parse it, record the error location. -/
def readOpened (ctx : RdCtx) (s : RdState) (join python : Bool) (abs delim comment : Str) :
    RdState × Except Err KeyFile :=
  match ctx.fs.read abs with
  | none => (s, .error .nofile)
  | some content =>
    let s := { s with g := { s.g with errFile := abs } }
    let cfg : Cfg := { delim := delim, comment := comment, python := python, join := join }
    let nLines := lineCount content
    match parseBytes cfg content with
    | .error (e, line) =>
      ({ s with g := { s.g with errLine := line } }, .error e)
    | .ok st =>
      let s := if nLines > 0 then { s with g := { s.g with errLine := nLines } } else s
      (s, .ok { entries := st.entries, groups := st.groups,
                delim := delim.headD 0, comment := (comment.head?).getD 0x23,
                path := some abs, join := join, python := python })

/-- absolute path as `get_absolute_path` computes it -/
def absPath (fs : FS) (path : Str) : Option Str :=
  if path.head? == some SLASH then some path else fs.realpath path

/-- the caller's check callback: the call is logged and counted; no callback = accepted -/
def askCallback (cb : Callback) (s : RdState) (path : Str) : RdState × Bool :=
  match cb with
  | none => (s, true)
  | some f => ({ s with trace := s.trace ++ [Event.cb path], calls := s.calls + 1 }, f s.calls path)

/-- `read_file_with_callback` on a fresh object carrying the flags `join`/`python`.
    Returns the object on success. -/
def readFileCB (ctx : RdCtx) (s : RdState) (join python : Bool) (path delim comment : Str) :
    RdState × Except Err KeyFile :=
  match ctx.fs.lstat path with
  | none => (s, .error .nofile)
  | some node =>
    match gate s.g node with
    | some e => (s, .error e)
    | none =>
      -- the caller's check
      let (s, accepted) := askCallback ctx.cb s path
      if !accepted then (s, .error .parsingCallbackFailed)
      else
        match absPath ctx.fs path with
        | none => (s, .error .nofile)
        | some abs => readOpened ctx { s with trace := s.trace ++ [Event.openFile abs] } join python abs delim comment

/-- dotted suffix -/
def dotSuffix (name suffix : Option Str) : Str :=
  match name, suffix with
  | some n, some sfx =>
    if n.isEmpty || sfx.isEmpty then [] else if sfx.head? == some DOT then sfx else DOT :: sfx
  | _, _ => []

/-- Candidate paths of the main file: `<dir>/<name><.suffix>` from the last directory to the first. -/
def mainCandidates (dirs : List Str) (name sfx : Str) : List Str :=
  dirs.reverse.map (fun d => d ++ SLASH :: name ++ sfx)

/-- The main file: the candidates in order, "file not found" passes on to the next one, the first
    success or other error ends the search (`none` = no main file). -/
def readFirst (ctx : RdCtx) (join python : Bool) (delim comment : Str) :
    RdState → List Str → RdState × Except Err (Option KeyFile)
  | s, [] => (s, .ok none)
  | s, p :: ps =>
    let (s, r) := readFileCB ctx s join python p delim comment
    match r with
    | .ok kf => (s, .ok (some kf))
    | .error .nofile => readFirst ctx join python delim comment s ps
    | .error e => (s, .error e)

/-- Entries of one drop-in directory that carry the suffix, in `alphasort` order, as paths.
    (A missing directory has none.  Reading files does not change the tree, so the directory
    listings can be taken before the reads.) -/
def dropinsOfDir (fs : FS) (dir sfx : Str) : List Str :=
  match fs.scandir dir with
  | none => []
  | some names => (names.filter (fun n => sfx.length < n.length && endsWith n sfx)).map (fun n => dir ++ SLASH :: n)

/-- All drop-in paths in processing order: layer by layer (first directory first), per layer the
    postfix directories in their order (`traverse_conf_dirs` / `check_conf_dir`). -/
def dropinPaths (fs : FS) (dirs : List Str) (name sfx : Str) (postfixes : List Str) : List Str :=
  dirs.flatMap (fun d => postfixes.flatMap (fun q => dropinsOfDir fs (d ++ SLASH :: name ++ q) sfx))

/-- Read the files one after the other; the first error ends the read and is the result. -/
def readSeq (ctx : RdCtx) (join python : Bool) (delim comment : Str) :
    RdState → List Str → RdState × Except Err (List KeyFile)
  | s, [] => (s, .ok [])
  | s, p :: ps =>
    let (s, r) := readFileCB ctx s join python p delim comment
    match r with
    | .error e => (s, .error e)
    | .ok kf =>
      let (s, r2) := readSeq ctx join python delim comment s ps
      match r2 with
      | .error e => (s, .error e)
      | .ok kfs => (s, .ok (kf :: kfs))

/-- `readConfigHistoryWithCallback` -/
def readHistory (ctx : RdCtx) (s : RdState) (dirs : List Str) (name suffix : Option Str)
    (delim : Option Str) (comment : Str) (join python : Bool) (confDirs : List Str) :
    RdState × Except (Err × Bool) (List KeyFile) :=
  -- the Bool of an error: has the caller's history pointer been set to NULL (otherwise untouched)
  match delim with
  | none => (s, .error (.error, false))
  | some delim =>
  match name with
  | none => (s, .error (.argumentIsNullValue, false))
  | some nm =>
    let sfx := dotSuffix name suffix
    let (s, main) :=
      if nm.isEmpty then (s, Except.ok none)
      else readFirst ctx join python delim comment s (mainCandidates dirs nm sfx)
    match main with
    | .error e => (s, .error (e, false))
    | .ok main =>
      let postfixes := if confDirs.isEmpty then [sfx ++ [0x2e, 0x64] /- ".d" -/] else confDirs
      let (s, r) := readSeq ctx join python delim comment s (dropinPaths ctx.fs dirs nm sfx postfixes)
      match r with
      | .error e => (s, .error (e, true))
      | .ok drops =>
        let all := main.toList ++ drops
        if all.isEmpty then (s, .error (.nofile, true)) else (s, .ok all)

def baseOf (kf : KeyFile) : Str := basename (kf.path.getD [])

/-- is the file masked by a later one of the same name -/
def masked (kf : KeyFile) (later : List KeyFile) : Bool :=
  let b := baseOf kf
  b != [DOT] && b != [DOT, DOT] && later.any (fun l => baseOf l == b)

/-- `merge_econf_files` after the first element -/
def mergeRest (acc : KeyFile) : List KeyFile → KeyFile
  | [] => acc
  | k :: ks => mergeRest (if masked k ks then acc else mergeFiles acc k) ks

def mergeHistory : List KeyFile → Option KeyFile
  | [] => none
  | k :: ks => some (mergeRest k ks)

/-- `readConfigWithCallback`: the object supplies directories, postfixes and flags -/
def readConfigCore (ctx : RdCtx) (s : RdState) (kf : KeyFile) (name suffix : Option Str)
    (delim : Option Str) (comment : Str) : RdState × Except Err KeyFile :=
  let confDirs := if kf.confDirs.isEmpty then s.g.confDirs else kf.confDirs
  let (s, r) := readHistory ctx s kf.parseDirs name suffix delim comment kf.join kf.python confDirs
  match r with
  | .error (e, _) => (s, .error e)
  | .ok files =>
    match mergeHistory files with
    | none => (s, .error .error)
    | some m => (s, .ok m)

/-- the object after the argument processing of `econf_readConfigWithCallback` -/
def prepareConfig (kf : KeyFile) (project usrSubdir name : Option Str) : KeyFile × Option Str :=
  let dropinOnly := match name with
    | none => true
    | some n => n.isEmpty
  let kf1 : KeyFile := if dropinOnly then { kf with confDirs := [[0x2e, 0x64] /- ".d" -/] } else kf
  let name' := if dropinOnly then project else name
  let project' : Option Str := if dropinOnly then none else project
  let usr := usrSubdir.getD []
  let run : Str := [0x2f, 0x72, 0x75, 0x6e] /- "/run" -/
  let etc : Str := [0x2f, 0x65, 0x74, 0x63] /- "/etc" -/
  let dirs : List Str :=
    match kf1.rootPrefix, project' with
    | some r, some p => [r ++ SLASH :: usr ++ SLASH :: p, r ++ SLASH :: run ++ SLASH :: p, r ++ SLASH :: etc ++ SLASH :: p]
    | some r, none => [r ++ usr, r ++ run, r ++ etc]
    | none, some p => [usr ++ SLASH :: p, run ++ SLASH :: p, etc ++ SLASH :: p]
    | none, none => [usr, run, etc]
  let kf2 : KeyFile := if kf1.parseDirs.isEmpty then { kf1 with parseDirs := dirs } else kf1
  (kf2, name')

/-- `econf_readConfig[WithCallback]`.  `slot` is the caller's object (`none` = NULL pointer).
    Returns the new content of the caller's pointer. -/
def readConfig (ctx : RdCtx) (s : RdState) (slot : Option KeyFile)
    (project usrSubdir name suffix : Option Str) (delim : Option Str) (comment : Str) :
    RdState × Err × Option KeyFile :=
  let fresh := slot.isNone
  let kf0 := slot.getD {}
  let (kf, name') := prepareConfig kf0 project usrSubdir name
  let (s, r) := readConfigCore ctx s kf name' suffix delim comment
  match r with
  | .ok m => (s, .success, some m)
  | .error e => (s, e, if fresh then none else some kf)

/-- `econf_readDirs[WithCallback]`: a fresh object with the two directories -/
def readDirs (ctx : RdCtx) (s : RdState) (usr etc name suffix : Option Str) (delim : Option Str)
    (comment : Str) : RdState × Err × Option KeyFile :=
  let kf : KeyFile := { parseDirs := [usr.getD [], etc.getD []] }
  let (s, r) := readConfigCore ctx s kf name suffix delim comment
  match r with
  | .ok m => (s, .success, some m)
  | .error e => (s, e, some kf)

/-- `econf_readDirsHistory[WithCallback]` -/
def readDirsHistory (ctx : RdCtx) (s : RdState) (usr etc name suffix : Option Str)
    (delim : Option Str) (comment : Str) : RdState × Except (Err × Bool) (List KeyFile) :=
  readHistory ctx s [usr.getD [], etc.getD []] name suffix delim comment false false s.g.confDirs

/-- `econf_readFile[WithCallback]` -/
def readFile (ctx : RdCtx) (s : RdState) (path delim comment : Option Str) :
    RdState × Err × Option KeyFile :=
  match path, delim, comment with
  | some p, some d, some c =>
    let (s, r) := readFileCB ctx s false false p d c
    (match r with
     | .ok kf => (s, .success, some kf)
     | .error e => (s, e, none))
  | _, _, _ => (s, .error, none)

end Econf
