import Econf.Parser
import Econf.Merge
import Econf.FS
import Econf.KeyFileOps

/-!
  Model of the read entry points: `read_file_with_callback`, `readConfigHistoryWithCallback`,
  `check_conf_dir`/`traverse_conf_dirs`, `merge_econf_files`, `readConfigWithCallback` and the
  public wrappers of lib/libeconf.c.  Process-wide settings are the explicit `Global` record.
-/

namespace Econf

/-- process-wide state of the library -/
structure Global where
  ownerSet : Bool := false
  owner : Nat := 0
  groupSet : Bool := false
  group : Nat := 0
  allowSymlinks : Bool := true
  confDirs : List Str := []          -- econf_set_conf_dirs
  errFile : Str := []                -- last_scanned_filename
  errLine : Nat := 0                 -- last_scanned_line_nr
  deriving Repr, DecidableEq

/-- observable I/O of a read: callback invocations and opened files, in order -/
inductive Event where
  | cb (path : Str)
  | openFile (path : Str)
  deriving Repr, DecidableEq

/-- the caller's check callback: `none` = no callback given -/
abbrev Callback := Option (Nat → Str → Bool)     -- call index, path ↦ accept

structure RdCtx where
  fs : FS
  cb : Callback

/-- mutable part threaded through a read -/
structure RdState where
  g : Global
  trace : List Event := []
  calls : Nat := 0
  deriving Repr

def ownerOf : Node → Nat × Nat
  | .file _ u g => (u, g)
  | .link _ u g => (u, g)
  | .dir => (0, 0)

/-- `read_file_with_callback` on a fresh object carrying the flags `join`/`python`.
    Returns the object on success. -/
def readFileCB (ctx : RdCtx) (s : RdState) (join python : Bool) (path delim comment : Str) :
    RdState × Except Err KeyFile :=
  match ctx.fs.lstat path with
  | none => (s, .error .nofile)
  | some node =>
    let isLink := match node with
      | .link _ _ _ => true
      | _ => false
    let (uid, gid) := ownerOf node
    if !s.g.allowSymlinks && isLink then (s, .error .fileIsSymLink)
    else if s.g.ownerSet && uid != s.g.owner then (s, .error .wrongOwner)
    else if s.g.groupSet && gid != s.g.group then (s, .error .wrongGroup)
    else
      -- the caller's check
      let (s, accepted) := match ctx.cb with
        | none => (s, true)
        | some f => ({ s with trace := s.trace ++ [Event.cb path], calls := s.calls + 1 }, f s.calls path)
      if !accepted then (s, .error .parsingCallbackFailed)
      else
        let abs := if path.head? == some SLASH then some path else ctx.fs.realpath path
        match abs with
        | none => (s, .error .nofile)
        | some abs =>
          let s := { s with trace := s.trace ++ [Event.openFile abs] }
          match ctx.fs.read abs with
          | none => (s, .error .nofile)
          | some content =>
            let s := { s with g := { s.g with errFile := abs } }
            let cfg : Cfg := { delim := delim, comment := comment, python := python, join := join }
            let nLines := lineCount content
            match parseBytes cfg content with
            | .error (e, line) =>
              ({ s with g := { s.g with errLine := line } }, .error e)
            | .ok st =>
              let s := if nLines > 0 then { s with g := { s.g with errLine := nLines } } else s
              (s, .ok { entries := st.entries, groups := st.groups,
                        delim := delim.headD 0, comment := (comment.head?).getD 0x23,
                        path := some abs, join := join, python := python })

/-- dotted suffix -/
def dotSuffix (name suffix : Option Str) : Str :=
  match name, suffix with
  | some n, some sfx =>
    if n.isEmpty || sfx.isEmpty then [] else if sfx.head? == some DOT then sfx else DOT :: sfx
  | _, _ => []

/-- main file: directories from last to first; stops at the first file that exists -/
def readMain (ctx : RdCtx) (join python : Bool) (name sfx delim comment : Str) :
    RdState → List Str → RdState × Except Err (Option KeyFile)
  | s, [] => (s, .ok none)
  | s, d :: ds =>      -- `d :: ds` is the reversed directory list
    let (s, r) := readFileCB ctx s join python (d ++ SLASH :: name ++ sfx) delim comment
    match r with
    | .ok kf => (s, .ok (some kf))
    | .error .nofile => readMain ctx join python name sfx delim comment s ds
    | .error e => (s, .error e)

/-- `check_conf_dir` on the sorted directory entries -/
def readDropins (ctx : RdCtx) (join python : Bool) (dir sfx delim comment : Str) :
    RdState → List Str → RdState × Except Err (List KeyFile)
  | s, [] => (s, .ok [])
  | s, n :: ns =>
    if sfx.length < n.length && endsWith n sfx then
      let (s, r) := readFileCB ctx s join python (dir ++ SLASH :: n) delim comment
      match r with
      | .error e => (s, .error e)
      | .ok kf =>
        let (s, r2) := readDropins ctx join python dir sfx delim comment s ns
        match r2 with
        | .error e => (s, .error e)
        | .ok kfs => (s, .ok (kf :: kfs))
    else readDropins ctx join python dir sfx delim comment s ns

/-- `traverse_conf_dirs`: every postfix of one layer directory -/
def readPostfixes (ctx : RdCtx) (join python : Bool) (projectPath sfx delim comment : Str) :
    RdState → List Str → RdState × Except Err (List KeyFile)
  | s, [] => (s, .ok [])
  | s, q :: qs =>
    let dir := projectPath ++ q
    let (s, r) := match ctx.fs.scandir dir with
      | none => (s, Except.ok [])
      | some names => readDropins ctx join python dir sfx delim comment s names
    match r with
    | .error e => (s, .error e)
    | .ok kfs =>
      let (s, r2) := readPostfixes ctx join python projectPath sfx delim comment s qs
      match r2 with
      | .error e => (s, .error e)
      | .ok more => (s, .ok (kfs ++ more))

def readLayers (ctx : RdCtx) (join python : Bool) (name sfx delim comment : Str) (postfixes : List Str) :
    RdState → List Str → RdState × Except Err (List KeyFile)
  | s, [] => (s, .ok [])
  | s, d :: ds =>
    let (s, r) := readPostfixes ctx join python (d ++ SLASH :: name) sfx delim comment s postfixes
    match r with
    | .error e => (s, .error e)
    | .ok kfs =>
      let (s, r2) := readLayers ctx join python name sfx delim comment postfixes s ds
      match r2 with
      | .error e => (s, .error e)
      | .ok more => (s, .ok (kfs ++ more))

/-- `readConfigHistoryWithCallback` -/
def readHistory (ctx : RdCtx) (s : RdState) (dirs : List Str) (name suffix : Option Str)
    (delim : Option Str) (comment : Str) (join python : Bool) (confDirs : List Str) :
    RdState × Except (Err × Bool) (List KeyFile) :=
  -- the Bool of an error: has the caller's history pointer been set to NULL (otherwise untouched)
  match delim with
  | none => (s, .error (.error, false))
  | some delim =>
  match name with
  | none => (s, .error (.argumentIsNullValue, false))
  | some nm =>
    let sfx := dotSuffix name suffix
    let (s, main) :=
      if nm.isEmpty then (s, Except.ok none)
      else readMain ctx join python nm sfx delim comment s dirs.reverse
    match main with
    | .error e => (s, .error (e, false))
    | .ok main =>
      let postfixes := if confDirs.isEmpty then [sfx ++ [0x2e, 0x64] /- ".d" -/] else confDirs
      let (s, r) := readLayers ctx join python nm sfx delim comment postfixes s dirs
      match r with
      | .error e => (s, .error (e, true))
      | .ok drops =>
        let all := main.toList ++ drops
        if all.isEmpty then (s, .error (.nofile, true)) else (s, .ok all)

def baseOf (kf : KeyFile) : Str := basename (kf.path.getD [])

/-- is the file masked by a later one of the same name -/
def masked (kf : KeyFile) (later : List KeyFile) : Bool :=
  let b := baseOf kf
  b != [DOT] && b != [DOT, DOT] && later.any (fun l => baseOf l == b)

/-- `merge_econf_files` after the first element -/
def mergeRest (acc : KeyFile) : List KeyFile → KeyFile
  | [] => acc
  | k :: ks => mergeRest (if masked k ks then acc else mergeFiles acc k) ks

def mergeHistory : List KeyFile → Option KeyFile
  | [] => none
  | k :: ks => some (mergeRest k ks)

/-- `readConfigWithCallback`: the object supplies directories, postfixes and flags -/
def readConfigCore (ctx : RdCtx) (s : RdState) (kf : KeyFile) (name suffix : Option Str)
    (delim : Option Str) (comment : Str) : RdState × Except Err KeyFile :=
  let confDirs := if kf.confDirs.isEmpty then s.g.confDirs else kf.confDirs
  let (s, r) := readHistory ctx s kf.parseDirs name suffix delim comment kf.join kf.python confDirs
  match r with
  | .error (e, _) => (s, .error e)
  | .ok files =>
    match mergeHistory files with
    | none => (s, .error .error)
    | some m => (s, .ok m)

/-- the object after the argument processing of `econf_readConfigWithCallback` -/
def prepareConfig (kf : KeyFile) (project usrSubdir name : Option Str) : KeyFile × Option Str :=
  let dropinOnly := match name with
    | none => true
    | some n => n.isEmpty
  let (name', project', kf) :=
    if dropinOnly then (project, (none : Option Str), { kf with confDirs := [[0x2e, 0x64] /- ".d" -/] }) else (name, project, kf)
  let usr := usrSubdir.getD []
  let run := [0x2f, 0x72, 0x75, 0x6e] /- "/run" -/
  let etc := [0x2f, 0x65, 0x74, 0x63] /- "/etc" -/
  let dirs : List Str :=
    match kf.rootPrefix, project' with
    | some r, some p => [r ++ SLASH :: usr ++ SLASH :: p, r ++ SLASH :: run ++ SLASH :: p, r ++ SLASH :: etc ++ SLASH :: p]
    | some r, none => [r ++ usr, r ++ run, r ++ etc]
    | none, some p => [usr ++ SLASH :: p, run ++ SLASH :: p, etc ++ SLASH :: p]
    | none, none => [usr, run, etc]
  let kf := if kf.parseDirs.isEmpty then { kf with parseDirs := dirs } else kf
  (kf, name')

/-- `econf_readConfig[WithCallback]`.  `slot` is the caller's object (`none` = NULL pointer).
    Returns the new content of the caller's pointer. -/
def readConfig (ctx : RdCtx) (s : RdState) (slot : Option KeyFile)
    (project usrSubdir name suffix : Option Str) (delim : Option Str) (comment : Str) :
    RdState × Err × Option KeyFile :=
  let fresh := slot.isNone
  let kf0 := slot.getD {}
  let (kf, name') := prepareConfig kf0 project usrSubdir name
  let (s, r) := readConfigCore ctx s kf name' suffix delim comment
  match r with
  | .ok m => (s, .success, some m)
  | .error e => (s, e, if fresh then none else some kf)

/-- `econf_readDirs[WithCallback]`: a fresh object with the two directories -/
def readDirs (ctx : RdCtx) (s : RdState) (usr etc name suffix : Option Str) (delim : Option Str)
    (comment : Str) : RdState × Err × Option KeyFile :=
  let kf : KeyFile := { parseDirs := [usr.getD [], etc.getD []] }
  let (s, r) := readConfigCore ctx s kf name suffix delim comment
  match r with
  | .ok m => (s, .success, some m)
  | .error e => (s, e, some kf)

/-- `econf_readDirsHistory[WithCallback]` -/
def readDirsHistory (ctx : RdCtx) (s : RdState) (usr etc name suffix : Option Str)
    (delim : Option Str) (comment : Str) : RdState × Except (Err × Bool) (List KeyFile) :=
  readHistory ctx s [usr.getD [], etc.getD []] name suffix delim comment false false s.g.confDirs

/-- `econf_readFile[WithCallback]` -/
def readFile (ctx : RdCtx) (s : RdState) (path delim comment : Option Str) :
    RdState × Err × Option KeyFile :=
  match path, delim, comment with
  | some p, some d, some c =>
    let (s, r) := readFileCB ctx s false false p d c
    (match r with
     | .ok kf => (s, .success, some kf)
     | .error e => (s, e, none))
  | _, _, _ => (s, .error, none)

end Econf
