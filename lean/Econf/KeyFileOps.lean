import Econf.Types
import Econf.Numeric

/-!
  Model of the constructors, setters, getters and listings (lib/libeconf.c, lib/keyfile.c,
  lib/helpers.c, lib/get_value_def.c) on `KeyFile`.
-/

namespace Econf

/-- `econf_newKeyFile(delimiter, comment)`: eight spare entries are pre-initialised, which
    registers the group-less pseudo group in the group list. -/
def newKeyFile (d c : Byte) : KeyFile := { delim := d, comment := c, groups := [NONE] }

def newIniFile : KeyFile := newKeyFile 0x3D 0x23

/-- `stripbrackets` on a copy of the group argument: when the text starts with `[` and ends
    with `]`, the text between the `[` and the *first* `]`. -/
def stripBrackets (g : Str) : Str :=
  match g with
  | [] => []
  | c :: cs =>
    if c == LBR && g.getLast? == some RBR then cs.takeWhile (· != RBR) else g

/-- group argument as the value getters/setters use it (NULL or empty = group-less) -/
def normGroup (g : Option Str) : Str :=
  match g with
  | none => NONE
  | some g => let s := stripBrackets g; if s.isEmpty then NONE else s

/-- group argument of `econf_getKeys` / `econf_getExtValue` (no bracket stripping) -/
def rawGroup (g : Option Str) : Str :=
  match g with
  | none => NONE
  | some g => if g.isEmpty then NONE else g

/-- `find_key`: index of the first entry with the group and key -/
def findIdx (es : List Entry) (g k : Str) : Option Nat :=
  es.findIdx? (fun e => e.group == g && e.key == k)

/-- `find_key` incl. its argument check -/
def findKey (kf : KeyFile) (g : Str) (k : Option Str) : Except Err Nat :=
  match k with
  | none => .error .error
  | some k =>
    if k.isEmpty then .error .error
    else match findIdx kf.entries g k with
      | some i => .ok i
      | none => .error .nokey

/-- A freshly appended entry (`key_file_append` + `initialize` + `new_key`). -/
def freshEntry (g k : Str) : Entry :=
  { group := g, key := k, value := some NONE, cb := none, ca := none, line := 0, quotes := false }

/-- store `v` in the first entry with the group and key; `none` when there is no such entry -/
def setFirst (g k : Str) (v : Str) : List Entry → Option (List Entry)
  | [] => none
  | e :: es =>
    if e.group == g && e.key == k then some ({ e with value := some v } :: es)
    else (setFirst g k v es).map (e :: ·)

/-- `setKeyValue`: find the entry or append a new one, then store the text.
    `txt` is the conversion of the typed argument (an error leaves a created entry behind,
    as in the C code, where the entry is created before the value is converted). -/
def setValue (kf : KeyFile) (g : Option Str) (k : Option Str) (txt : Except Err Str) :
    KeyFile × Err :=
  match k with
  | none => (kf, .emptykey)
  | some k =>
    if k.isEmpty then (kf, .emptykey)
    else
      let g := normGroup g
      if (findIdx kf.entries g k).isSome then
        (match txt with
         | .ok v => ({ kf with entries := (setFirst g k v kf.entries).getD kf.entries }, .success)
         | .error e => (kf, e))
      else
        let groups := addGroup (addGroup kf.groups NONE) g
        (match txt with
         | .ok v => ({ kf with entries := kf.entries ++ [{ freshEntry g k with value := some v }], groups := groups }, .success)
         | .error e => ({ kf with entries := kf.entries ++ [freshEntry g k], groups := groups }, e))

/-- string value getter: `Except` error or the stored text (NULL = none) -/
def getString (kf : KeyFile) (g k : Option Str) : Except Err (Option Str) :=
  match findKey kf (normGroup g) k with
  | .error e => .error e
  | .ok i => .ok ((kf.entries[i]?).bind (·.value))

/-- numeric / boolean getters: the conversion `conv` applied to the stored text -/
def getTyped {α} (conv : Str → Except Err α) (kf : KeyFile) (g k : Option Str) : Except Err α :=
  match getString kf g k with
  | .error e => .error e
  | .ok none => .error .keyHasNullValue
  | .ok (some v) => conv v

/-- `econf_getGroups` -/
def getGroups (kf : KeyFile) : Except Err (List Str) :=
  if kf.groups.isEmpty then .error .nogroup
  else .ok (kf.groups.filter (· != NONE))

/-- `econf_getKeys` -/
def getKeys (kf : KeyFile) (g : Option Str) : Except Err (List Str) :=
  let g := rawGroup g
  let ks := (kf.entries.filter (fun e => e.group == g)).map (·.key)
  if ks.isEmpty then .error .nokey else .ok ks

/-- `econf_getPath`: the path recorded by the read, the empty string when there is none -/
def getPath (kf : KeyFile) : Str := kf.path.getD []

end Econf
