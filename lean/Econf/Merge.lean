import Econf.Types

/-!
  Model of `econf_mergeFiles` (lib/libeconf.c) and its helpers `insert_nogroup`,
  `merge_existing_groups`, `add_new_groups` (lib/mergefiles.c), at the level of entry lists.
  `uf` is the base ("usr") list, `ef` the override ("etc") list.
-/

namespace Econf

def hasGroup (l : List Entry) (g : Str) : Bool := l.any (fun e => e.group == g)

/-- first entry with the given group and key (`first_entry`) -/
def findEntry (l : List Entry) (g k : Str) : Option Entry :=
  l.find? (fun e => e.group == g && e.key == k)

def defines (l : List Entry) (g k : Str) : Bool := l.any (fun e => e.group == g && e.key == k)

/-- The first definitions of a list: an entry is kept when no earlier one has its group and
    key (`first_definition`).  `seen` are the entries before the current position. -/
def firstDefsAux (seen : List Entry) : List Entry → List Entry
  | [] => []
  | e :: es =>
    if defines seen e.group e.key then firstDefsAux (seen ++ [e]) es
    else e :: firstDefsAux (seen ++ [e]) es

def firstDefs (l : List Entry) : List Entry := firstDefsAux [] l

/-- `cpy_file_entry`: the quote flag is not copied. -/
def cpyEntry (e : Entry) : Entry := { e with quotes := false }

/-- `insert_nogroup`: the override's group-less first definitions, when the base has no
    group-less entry. -/
def insertNoGroup (uf ef : List Entry) : List Entry :=
  if hasGroup uf NONE then []
  else ((firstDefs ef).filter (fun e => e.group == NONE)).map cpyEntry

/-- A base entry in the result: its value is the override's first definition's, if any
    (an absent override value becomes the empty text). -/
def overrideValue (ef : List Entry) (u : Entry) : Entry :=
  match findEntry ef u.group u.key with
  | some e => { cpyEntry u with value := some (e.value.getD []) }
  | none => cpyEntry u

/-- The override's first definitions in group `g` of keys the base does not define there. -/
def newKeysOf (uf ef : List Entry) (g : Str) : List Entry :=
  ((firstDefs ef).filter (fun e => e.group == g && !defines uf g e.key)).map cpyEntry

/-- `merge_existing_groups`: `uf` is the whole base (for the "key defined in base" test),
    the second list the part still to be processed. -/
def mergeExistingAux (uf ef : List Entry) : List Entry → List Entry
  | [] => []
  | u :: us =>
    overrideValue ef u ::
      ((if hasGroup us u.group then [] else newKeysOf uf ef u.group) ++ mergeExistingAux uf ef us)

def mergeExisting (uf ef : List Entry) : List Entry := mergeExistingAux uf ef uf

/-- `add_new_groups`: first definitions of the override in groups the base does not have. -/
def addNewGroups (uf ef : List Entry) : List Entry :=
  ((firstDefs ef).filter (fun e => e.group != NONE && !hasGroup uf e.group)).map cpyEntry

def mergeEntries (uf ef : List Entry) : List Entry :=
  insertNoGroup uf ef ++ mergeExisting uf ef ++ addNewGroups uf ef

/-- Group list of the result: groups in order of first use by a copied entry
    (`cpy_file_entry` calls `setGroupList`). -/
def groupsOf (l : List Entry) : List Str := l.foldl (fun gs e => addGroup gs e.group) []

/-- `econf_mergeFiles`: tags of the base, no path, no options. -/
def mergeFiles (u e : KeyFile) : KeyFile :=
  let es := mergeEntries u.entries e.entries
  { entries := es, groups := groupsOf es, delim := u.delim, comment := u.comment, path := none }

end Econf
