/-
  Bytes, C strings and the few libc string functions the library relies on.
  Core Lean only (no Mathlib), so that the driver links as a native executable.
-/

namespace Econf

abbrev Byte := UInt8
abbrev Str := List Byte

/-- C-locale `isspace`: space, \t \n \v \f \r.  Bytes >= 0x80 are not blanks. -/
def isSpace (c : Byte) : Bool := c == 0x20 || (0x09 ≤ c && c ≤ 0x0D)

/-- C-locale `tolower`. -/
def toLower (c : Byte) : Byte := if 0x41 ≤ c && c ≤ 0x5A then c + 0x20 else c

def lower (s : Str) : Str := s.map toLower

def NL : Byte := 0x0A
def QUOTE : Byte := 0x22
def LBR : Byte := 0x5B
def RBR : Byte := 0x5D
def SLASH : Byte := 0x2F
def DOT : Byte := 0x2E

/-- ASCII string literal to bytes. -/
def bs (s : String) : Str := s.toUTF8.toList

/-- The view of a buffer as a C string: everything before the first NUL. -/
def cstr (b : Str) : Str := b.takeWhile (· != 0)

/-- Remove the longest suffix all of whose elements satisfy `p`. -/
def dropLastWhile (p : Byte → Bool) (l : Str) : Str := (l.reverse.dropWhile p).reverse

/-- Index of the last occurrence of `c` (C `strrchr`). -/
def lastIdx (c : Byte) : Str → Option Nat
  | [] => none
  | x :: xs =>
    match lastIdx c xs with
    | some i => some (i + 1)
    | none => if x == c then some 0 else none

/-- Index of the first occurrence of `c` (C `strchr`). -/
def firstIdx (c : Byte) : Str → Option Nat
  | [] => none
  | x :: xs => if x == c then some 0 else (firstIdx c xs).map (· + 1)

/-- `s` ends with `suf`. -/
def endsWith (s suf : Str) : Bool := suf.length ≤ s.length && s.drop (s.length - suf.length) == suf

def startsWith (s pre : Str) : Bool := s.take pre.length == pre

/-- Split at every occurrence of `c` (C `strsep` loop): always at least one piece. -/
def splitOn (c : Byte) : Str → List Str
  | [] => [[]]
  | x :: xs =>
    if x == c then [] :: splitOn c xs
    else match splitOn c xs with
      | [] => [[x]]
      | p :: ps => (x :: p) :: ps

/-- Join pieces with a separator byte. -/
def joinWith (c : Byte) : List Str → Str
  | [] => []
  | [p] => p
  | p :: ps => p ++ c :: joinWith c ps

/-- `a ++ "\n" ++ b`, the `asprintf("%s\n%s")` of the library. -/
def nlCat (a b : Str) : Str := a ++ NL :: b

/-- Physical lines as `getline` delivers them: each one includes its `\n`; a last line without
    `\n` counts when it is non-empty. -/
def splitLines : Str → List Str
  | [] => []
  | x :: xs =>
    if x == NL then [NL] :: splitLines xs
    else match splitLines xs with
      | [] => [[x]]
      | l :: ls =>
        -- `l` is the first line of `xs`; it continues the current line
        (x :: l) :: ls

/-- basename of a path as used by the merge pipeline (glibc `basename`, GNU version via
    `libgen.h`: the POSIX one – trailing slashes removed, last component). -/
def basename (p : Str) : Str :=
  let q := dropLastWhile (· == SLASH) p
  if q.isEmpty then (if p.isEmpty then [0x2e] /- "." -/ else [SLASH])
  else (q.reverse.takeWhile (· != SLASH)).reverse

end Econf
