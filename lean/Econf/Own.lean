import Econf.Layered

/-!
  # Ownership model of the read entry points (C20)

  The functional model of `Econf/Layered.lean` has no heap.  This file adds the part of the heap the
  property C20 is about at the granularity of `econf_file` objects: every place where the C code
  creates an object (`econf_newKeyFile`, `econf_newKeyFile_with_options`, `econf_mergeFiles`) or
  releases one (`econf_freeFile`) is an event, and the functions below follow the control flow of
  `read_file_with_callback`, `readConfigHistoryWithCallback`, `check_conf_dir`, `merge_econf_files`,
  `readConfigWithCallback` and the public wrappers path by path – which pointer holds which object,
  who frees it on which early return.  The library reports the same events through the hook
  `econf_verif_object_hook` (guard `OPENSUSE_LIBECONF_VERIF`), and the correspondence run compares the
  two event sequences line by line, interleaved with the callback invocations and `fopen` calls.

  `Props/C20.lean` proves: the results are those of the functional model (`own*_result`), and for every
  file system, callback, restriction and argument the event sequence of each entry point is a correct
  ledger – ids are fresh, nothing is released twice or before it exists, and what is still alive at the
  end is exactly what the caller holds.
-/

namespace Econf

/-- one observable step of a read: object life-cycle events interleaved with the I/O events -/
inductive OEv where
  | new (id : Nat)         -- econf_newKeyFile / econf_newKeyFile_with_options
  | merged (id : Nat)      -- object created by econf_mergeFiles
  | free (id : Nat)        -- econf_freeFile on a non-NULL pointer
  | cb (path : Str)
  | openFile (path : Str)
  deriving Repr, DecidableEq

structure OSt where
  rs : RdState
  next : Nat := 0            -- ids are handed out in order of creation
  log : List OEv := []
  deriving Repr

def OSt.emit (o : OSt) (e : OEv) : OSt := { o with log := o.log ++ [e] }

/-- a fresh object -/
def OSt.alloc (o : OSt) : OSt × Nat := ({ o with next := o.next + 1, log := o.log ++ [OEv.new o.next] }, o.next)

def OSt.allocMerged (o : OSt) : OSt × Nat := ({ o with next := o.next + 1, log := o.log ++ [OEv.merged o.next] }, o.next)

def OSt.release (o : OSt) (id : Nat) : OSt := o.emit (.free id)

/-- `econf_free(p)` on a pointer that may be NULL -/
def OSt.releaseOpt (o : OSt) : Option Nat → OSt
  | none => o
  | some id => o.release id

/-- `read_file_with_callback(&key_file, …)` on the already created object `obj`.
    The Boolean says whether the callee has released the object and cleared the pointer (it does so
    exactly when the failure happens after the path was resolved: `fopen` fails or the content does
    not parse). -/
def ownReadFileCB (ctx : RdCtx) (o : OSt) (obj : Nat) (join python : Bool) (path delim comment : Str) :
    OSt × Except Err KeyFile × Bool :=
  match ctx.fs.lstat path with
  | none => (o, .error .nofile, false)
  | some node =>
    match gate o.rs.g node with
    | some e => (o, .error e, false)
    | none =>
      let (rs, accepted) := askCallback ctx.cb o.rs path
      let o := { o with rs := rs, log := if ctx.cb.isSome then o.log ++ [OEv.cb path] else o.log }
      if !accepted then (o, .error .parsingCallbackFailed, false)
      else
        match absPath ctx.fs path with
        | none => (o, .error .nofile, false)
        | some abs =>
          let (rs, r) := readOpened ctx { o.rs with trace := o.rs.trace ++ [Event.openFile abs] } join python abs delim comment
          let o := { o with rs := rs, log := o.log ++ [OEv.openFile abs] }
          match r with
          | .ok kf => (o, .ok kf, false)
          | .error e => (o.release obj, .error e, true)

/-- The main-file loop of `readConfigHistoryWithCallback`.  `cur` is the local `key_file`: an object is
    created when the pointer is NULL and re-used for the next candidate after "file not found". -/
def ownReadFirst (ctx : RdCtx) (join python : Bool) (delim comment : Str) :
    OSt → Option Nat → List Str → OSt × Except Err (Option (Nat × KeyFile)) × Option Nat
  | o, cur, [] => (o, .ok none, cur)
  | o, cur, p :: ps =>
    let (o, id) := match cur with
      | some id => (o, id)
      | none => o.alloc
    let (o, r, freed) := ownReadFileCB ctx o id join python p delim comment
    let cur' := if freed then none else some id
    match r with
    | .ok kf => (o, .ok (some (id, kf)), some id)
    | .error e =>
      if e = .nofile then ownReadFirst ctx join python delim comment o cur' ps
      else (o.releaseOpt cur', .error e, none)

/-- `check_conf_dir` over all drop-in paths: one fresh object per file; on the first failure the object of
    that file is released (if the callee has not done so) and the error returned with what was collected. -/
def ownReadSeq (ctx : RdCtx) (join python : Bool) (delim comment : Str) :
    OSt → List Str → OSt × Except Err Unit × List (Nat × KeyFile)
  | o, [] => (o, .ok (), [])
  | o, p :: ps =>
    let (o, id) := o.alloc
    let (o, r, freed) := ownReadFileCB ctx o id join python p delim comment
    match r with
    | .error e => ((if freed then o else o.release id), .error e, [])
    | .ok kf =>
      let (o, r2, rest) := ownReadSeq ctx join python delim comment o ps
      (o, r2, (id, kf) :: rest)

def OSt.releaseAll (o : OSt) (ids : List Nat) : OSt := ids.foldl OSt.release o

/-- `readConfigHistoryWithCallback` after the search for the main file: `main` is what was found, `cur` the
    local `key_file` pointer -/
def ownHistoryRest (ctx : RdCtx) (o : OSt) (main : Option (Nat × KeyFile)) (cur : Option Nat)
    (paths : List Str) (delim comment : Str) (join python : Bool) :
    OSt × Except (Err × Bool) (List (Nat × KeyFile)) :=
  -- no main file: the object that was created for the candidates is released
  let o := if main.isSome then o else o.releaseOpt cur
  let (o, r, drops) := ownReadSeq ctx join python delim comment o paths
  let all := main.toList ++ drops
  match r with
  | .error e => (o.releaseAll (all.map (·.1)), .error (e, true))
  | .ok () => if all.isEmpty then (o, .error (.nofile, true)) else (o, .ok all)

/-- `readConfigHistoryWithCallback` -/
def ownHistory (ctx : RdCtx) (o : OSt) (dirs : List Str) (name suffix : Option Str)
    (delim : Option Str) (comment : Str) (join python : Bool) (confDirs : List Str) :
    OSt × Except (Err × Bool) (List (Nat × KeyFile)) :=
  match delim with
  | none => (o, .error (.error, false))
  | some delim =>
  match name with
  | none => (o, .error (.argumentIsNullValue, false))
  | some nm =>
    let sfx := dotSuffix name suffix
    let postfixes := if confDirs.isEmpty then [sfx ++ [0x2e, 0x64]] else confDirs
    let paths := dropinPaths ctx.fs dirs nm sfx postfixes
    if nm.isEmpty then ownHistoryRest ctx o none none paths delim comment join python
    else
      match ownReadFirst ctx join python delim comment o none (mainCandidates dirs nm sfx) with
      | (o, .error e, _) => (o, .error (e, false))
      | (o, .ok main, cur) => ownHistoryRest ctx o main cur paths delim comment join python

/-- `merge_econf_files` after the first element: `acc` is `*merged_files` -/
def ownMergeRest : OSt → Nat × KeyFile → List (Nat × KeyFile) → OSt × (Nat × KeyFile)
  | o, acc, [] => (o, acc)
  | o, acc, k :: ks =>
    if masked k.2 (ks.map (·.2)) then
      ownMergeRest (o.release k.1) acc ks
    else
      let (o, m) := o.allocMerged
      let o := (o.release acc.1).release k.1
      ownMergeRest o (m, mergeFiles acc.2 k.2) ks

/-- `readConfigWithCallback`: `res` is the caller's object, released once the files have been read -/
def ownReadConfigCore (ctx : RdCtx) (o : OSt) (res : Nat) (kf : KeyFile) (name suffix : Option Str)
    (delim : Option Str) (comment : Str) : OSt × Except Err (Nat × KeyFile) :=
  let confDirs := if kf.confDirs.isEmpty then o.rs.g.confDirs else kf.confDirs
  let (o, r) := ownHistory ctx o kf.parseDirs name suffix delim comment kf.join kf.python confDirs
  match r with
  | .error (e, _) => (o, .error e)
  | .ok files =>
    match files with
    | [] => (o, .error .error)
    | f :: fs =>
      let o := o.release res
      let (o, m) := ownMergeRest o f fs
      (o, .ok m)

/-- `econf_readConfig[WithCallback]`; `slot` = the caller's pointer (object id and content) -/
def ownReadConfig (ctx : RdCtx) (o : OSt) (slot : Option (Nat × KeyFile))
    (project usrSubdir name suffix : Option Str) (delim : Option Str) (comment : Str) :
    OSt × Err × Option (Nat × KeyFile) :=
  let (o, id, kf0, fresh) := match slot with
    | some (id, kf) => (o, id, kf, false)
    | none => let (o, id) := o.alloc; (o, id, ({} : KeyFile), true)
  let (kf, name') := prepareConfig kf0 project usrSubdir name
  let (o, r) := ownReadConfigCore ctx o id kf name' suffix delim comment
  match r with
  | .ok m => (o, .success, some m)
  | .error e => if fresh then (o.release id, e, none) else (o, e, some (id, kf))

/-- `econf_readDirs[WithCallback]` -/
def ownReadDirs (ctx : RdCtx) (o : OSt) (usr etc name suffix : Option Str) (delim : Option Str)
    (comment : Str) : OSt × Err × Option (Nat × KeyFile) :=
  let (o, id) := o.alloc
  let kf : KeyFile := { parseDirs := [usr.getD [], etc.getD []] }
  let (o, r) := ownReadConfigCore ctx o id kf name suffix delim comment
  match r with
  | .ok m => (o, .success, some m)
  | .error e => (o, e, some (id, kf))

/-- `econf_readDirsHistory[WithCallback]` -/
def ownReadDirsHistory (ctx : RdCtx) (o : OSt) (usr etc name suffix : Option Str)
    (delim : Option Str) (comment : Str) : OSt × Except (Err × Bool) (List (Nat × KeyFile)) :=
  ownHistory ctx o [usr.getD [], etc.getD []] name suffix delim comment false false o.rs.g.confDirs

/-- `econf_readFile[WithCallback]`: the object is created first and released on every failure -/
def ownReadFile (ctx : RdCtx) (o : OSt) (path delim comment : Option Str) :
    OSt × Err × Option (Nat × KeyFile) :=
  let (o, id) := o.alloc
  match path, delim, comment with
  | some p, some d, some c =>
    let (o, r, freed) := ownReadFileCB ctx o id false false p d c
    (match r with
     | .ok kf => (o, .success, some (id, kf))
     | .error e => ((if freed then o else o.release id), e, none))
  | _, _, _ => (o.release id, .error, none)

/-! ### the ledger -/

/-- Replays object events on the list of live objects (in order of creation).  `none` = the sequence is
    not a correct use of the allocator: an id is created twice, or released while it is not alive
    (released twice, or never created). -/
def ledgerStep (live : List Nat) : OEv → Option (List Nat)
  | .new id | .merged id => if live.contains id then none else some (live ++ [id])
  | .free id => if live.contains id then some (live.filter (· != id)) else none
  | .cb _ | .openFile _ => some live

def ledger : List Nat → List OEv → Option (List Nat)
  | live, [] => some live
  | live, e :: es => match ledgerStep live e with
    | none => none
    | some live' => ledger live' es

end Econf
