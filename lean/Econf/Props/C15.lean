import Econf.Writer
import Econf.Lemmas.ListLemmas
import Econf.Lemmas.ParserLemmas

/-!
  C15 — parsing options do what they say.

  Proved here: the option-string tokenizer (`econf_newKeyFile_with_options`): every `;`-separated
  list of documented items is accepted and every item has its documented effect, an item given
  twice acting as its last occurrence (`C15_options`); an item with an unknown name is answered
  with option-not-found (`C15_unknown`).  For JOIN_SAME_ENTRIES and PYTHON_STYLE: the join of
  repeated definitions (`C15_join_*`) and the python-style continuation rule per line
  (`C15_python_continues`).  The statement for whole option-grammar documents rests on the
  correspondence run (it needs the round-trip theorem of C02).
-/

set_option linter.unusedSimpArgs false

namespace Econf

def SEMI : Byte := 0x3B
def COLON : Byte := 0x3A

/-- the documented option items -/
inductive OptItem where
  | join
  | python
  | parsingDirs (ds : List Str)
  | configDirs (ps : List Str)
  | rootPrefix (d : Str)

def OptItem.render : OptItem → Str
  | .join => optJoin
  | .python => optPython
  | .parsingDirs ds => optParsingDirs ++ joinWith COLON ds
  | .configDirs ps => optConfigDirs ++ joinWith COLON ps
  | .rootPrefix d => optRootPrefix ++ d

/-- directory names contain neither `;` nor `:`; lists are non-empty -/
def OptItem.WF : OptItem → Prop
  | .join => True
  | .python => True
  | .parsingDirs ds => ds ≠ [] ∧ ∀ d ∈ ds, SEMI ∉ d ∧ COLON ∉ d
  | .configDirs ps => ps ≠ [] ∧ ∀ d ∈ ps, SEMI ∉ d ∧ COLON ∉ d
  | .rootPrefix d => SEMI ∉ d

/-- the documented effect of one item -/
def OptItem.effect (kf : KeyFile) : OptItem → KeyFile
  | .join => { kf with join := true }
  | .python => { kf with python := true }
  | .parsingDirs ds => { kf with parseDirs := ds }
  | .configDirs ps => { kf with confDirs := ps }
  | .rootPrefix d => { kf with rootPrefix := some d }

theorem applyOption_item (kf : KeyFile) (it : OptItem) (h : it.WF) : applyOption kf it.render = .ok (it.effect kf) := by
  cases it with
  | join => simp [applyOption, OptItem.render, OptItem.effect]
  | python =>
    have : (optPython == optJoin) = false := by decide
    simp [applyOption, OptItem.render, OptItem.effect, this]
  | parsingDirs ds =>
    have h1 : ∀ x : Str, ((optParsingDirs ++ x) == optJoin) = false := by intro x; simp [optParsingDirs, optJoin]
    have h2 : ∀ x : Str, ((optParsingDirs ++ x) == optPython) = false := by intro x; simp [optParsingDirs, optPython]
    simp only [applyOption, OptItem.render, OptItem.effect, h1, h2, Bool.false_eq_true, if_false, startsWith_append, if_true,
      List.drop_left']
    rw [show (58 : Byte) = COLON from rfl, splitOn_joinWith COLON ds h.1 (fun d hd => (h.2 d hd).2)]
  | configDirs ps =>
    have h1 : ∀ x : Str, ((optConfigDirs ++ x) == optJoin) = false := by intro x; simp [optConfigDirs, optJoin]
    have h2 : ∀ x : Str, ((optConfigDirs ++ x) == optPython) = false := by intro x; simp [optConfigDirs, optPython]
    have h3 : ∀ x : Str, startsWith (optConfigDirs ++ x) optParsingDirs = false := by intro x; simp [startsWith, optConfigDirs, optParsingDirs]
    simp only [applyOption, OptItem.render, OptItem.effect, h1, h2, h3, Bool.false_eq_true, if_false, startsWith_append, if_true]
    rw [show (optConfigDirs ++ joinWith COLON ps).drop optConfigDirs.length = joinWith COLON ps by simp]
    rw [show (58 : Byte) = COLON from rfl, splitOn_joinWith COLON ps h.1 (fun d hd => (h.2 d hd).2)]
  | rootPrefix d =>
    have h1 : ∀ x : Str, ((optRootPrefix ++ x) == optJoin) = false := by intro x; simp [optRootPrefix, optJoin]
    have h2 : ∀ x : Str, ((optRootPrefix ++ x) == optPython) = false := by intro x; simp [optRootPrefix, optPython]
    have h3 : ∀ x : Str, startsWith (optRootPrefix ++ x) optParsingDirs = false := by intro x; simp [startsWith, optRootPrefix, optParsingDirs]
    have h4 : ∀ x : Str, startsWith (optRootPrefix ++ x) optConfigDirs = false := by intro x; simp [startsWith, optRootPrefix, optConfigDirs]
    simp only [applyOption, OptItem.render, OptItem.effect, h1, h2, h3, h4, Bool.false_eq_true, if_false, startsWith_append, if_true]
    rw [show (optRootPrefix ++ d).drop optRootPrefix.length = d by simp]

theorem semi_not_in_render (it : OptItem) (h : it.WF) : SEMI ∉ it.render := by
  have hj : ∀ (l : List Str), (∀ d ∈ l, SEMI ∉ d ∧ COLON ∉ d) → SEMI ∉ joinWith COLON l := by
    intro l hl
    induction l with
    | nil => simp [joinWith]
    | cons d ds ih =>
      cases ds with
      | nil => simpa [joinWith] using (hl d List.mem_cons_self).1
      | cons e es =>
        simp only [joinWith, List.mem_append, List.mem_cons, not_or]
        refine ⟨(hl d List.mem_cons_self).1, by decide, ?_⟩
        exact ih (fun x hx => hl x (List.mem_cons_of_mem _ hx))
  cases it with
  | join => decide
  | python => decide
  | parsingDirs ds =>
    simp only [OptItem.render, List.mem_append, not_or]
    exact ⟨by decide, hj ds h.2⟩
  | configDirs ps =>
    simp only [OptItem.render, List.mem_append, not_or]
    exact ⟨by decide, hj ps h.2⟩
  | rootPrefix d =>
    simp only [OptItem.render, List.mem_append, not_or]
    exact ⟨by decide, h⟩

theorem applyOptions_items (kf : KeyFile) (items : List OptItem) (h : ∀ it ∈ items, it.WF) :
    applyOptions kf (items.map OptItem.render) = (items.foldl OptItem.effect kf, .success) := by
  induction items generalizing kf with
  | nil => rfl
  | cons it its ih =>
    simp only [List.map_cons, applyOptions, applyOption_item kf it (h it List.mem_cons_self), List.foldl_cons]
    exact ih _ (fun x hx => h x (List.mem_cons_of_mem _ hx))

/-- every option string made of documented items is accepted, and the object carries the effect of
    every item, an item given twice acting as its last occurrence (the effects are applied in order) -/
theorem C15_options (items : List OptItem) (hne : items ≠ []) (h : ∀ it ∈ items, it.WF) :
    newWithOptions (some (joinWith SEMI (items.map OptItem.render))) = (items.foldl OptItem.effect {}, .success) := by
  unfold newWithOptions
  have hpne : items.map OptItem.render ≠ [] := by simpa using hne
  have hnonempty : (joinWith SEMI (items.map OptItem.render)).isEmpty = false := by
    cases items with
    | nil => exact absurd rfl hne
    | cons it its =>
      have : it.render ≠ [] := by cases it <;> simp [OptItem.render, optJoin, optPython, optParsingDirs, optConfigDirs, optRootPrefix]
      cases its with
      | nil => simpa [joinWith] using this
      | cons i2 i3 =>
        simp only [List.map_cons, joinWith]
        cases hr : it.render with
        | nil => exact absurd hr this
        | cons a as => rfl
  simp only [hnonempty, Bool.false_eq_true, if_false]
  rw [show (0x3B : Byte) = SEMI from rfl, splitOn_joinWith SEMI _ hpne]
  · exact applyOptions_items {} items h
  · intro p hp
    obtain ⟨it, hit, rfl⟩ := List.mem_map.mp hp
    exact semi_not_in_render it (h it hit)

/-- an item whose name is not one of the five documented ones is answered with option-not-found -/
theorem C15_unknown (kf : KeyFile) (o : Str) (h1 : o ≠ optJoin) (h2 : o ≠ optPython)
    (h3 : startsWith o optParsingDirs = false) (h4 : startsWith o optConfigDirs = false) (h5 : startsWith o optRootPrefix = false) :
    applyOption kf o = .error .optionNotFound := by
  have a : (o == optJoin) = false := by simpa using h1
  have b : (o == optPython) = false := by simpa using h2
  simp [applyOption, a, b, h3, h4, h5]

/-- … and the whole option string is refused at that item -/
theorem C15_unknown_string (kf : KeyFile) (pre : List OptItem) (o : Str) (rest : List Str) (hpre : ∀ it ∈ pre, it.WF)
    (ho : applyOption (pre.foldl OptItem.effect kf) o = .error .optionNotFound) :
    (applyOptions kf (pre.map OptItem.render ++ o :: rest)).2 = .optionNotFound := by
  induction pre generalizing kf with
  | nil =>
    have ho' : applyOption kf o = .error .optionNotFound := ho
    simp [applyOptions, ho']
  | cons it its ih =>
    simp only [List.map_cons, List.cons_append, applyOptions, applyOption_item kf it (hpre it List.mem_cons_self)]
    exact ih _ (fun x hx => hpre x (List.mem_cons_of_mem _ hx)) ho

/-! ### JOIN_SAME_ENTRIES and PYTHON_STYLE, per step -/

/-- joining a later definition into the first one: an empty later definition resets the value,
    a non-empty one is appended on a new line with its leading blanks removed -/
theorem C15_join_step (ei ej : Entry) :
    (ej.value = none ∨ ej.value = some [] → (joinInto ei ej).value = some [] ∧ (joinInto ei ej).ca = none) ∧
    (∀ v, ej.value = some v → v ≠ [] → (joinInto ei ej).value = some (nlCat (ei.value.getD []) (v.dropWhile isSpace))) := by
  constructor
  · intro h
    rcases h with h | h <;> simp [joinInto, h]
  · intro v hv hne
    have : v.isEmpty = false := by cases v <;> simp_all
    simp [joinInto, hv, this]

/-- without the option the entries are left alone (first definition wins on lookup, C02) -/
theorem C15_no_join (delim comment : Str) (python : Bool) (content : Str) (st : PState)
    (hp : parseLines { delim := delim, comment := if comment.isEmpty then [0x23] else comment, python := python, join := false } {} (splitLines content) = .ok st) :
    parseBytes { delim := delim, comment := comment, python := python, join := false } content = .ok st := by
  unfold parseBytes
  simp only [hp, Bool.false_eq_true, if_false]

/-- PYTHON_STYLE: an indented line directly below an entry continues it, even if it contains the
    delimiter — the delimiter test is not even made -/
theorem C15_python_continues (cfg : Cfg) (st : PState) (org : Str) (o : Byte) (orest : Str) (delimSeen : Bool) (data : Str)
    (hpy : cfg.python = true) (horg : org = o :: orest) (hind : isSpace o = true) (hmix : mixedDelim cfg.delim = false)
    (hprev : lastEntryOnPrevLine st = true) : isContinuation cfg st org delimSeen data = true := by
  unfold isContinuation
  simp [hpy, horg, hind, hmix, hprev]

/-- … and its indentation is removed, the rest (comment characters included) is kept -/
theorem C15_python_append (e : Entry) (v : Str) (ca : Option Str) (line : Nat) :
    (appendToEntry true e v ca line).value = some (nlCat (e.value.getD []) (v.dropWhile isSpace)) := by
  simp [appendToEntry]

/-- non-vacuity: the documented items in one string, one of them twice -/
example : (newWithOptions (some (joinWith SEMI ([OptItem.parsingDirs [[0x2f, 0x61]], .join, .parsingDirs [[0x2f, 0x62], [0x2f, 0x63]], .rootPrefix [0x2f, 0x72]].map OptItem.render)))).1.parseDirs = [[0x2f, 0x62], [0x2f, 0x63]] := by
  decide

/-! ### JOIN_SAME_ENTRIES on whole entry lists -/


/-- a definition without text: no value at all, or the empty text -/
def Entry.emptyDef (e : Entry) : Bool :=
  match e.value with
  | none => true
  | some v => v.isEmpty

/-- how the value of the first definition changes when a later definition of the same key is met -/
def joinVal (acc : Option Str) (ej : Entry) : Option Str :=
  if ej.emptyDef then some [] else some (nlCat (acc.getD []) ((ej.value.getD []).dropWhile isSpace))

theorem joinInto_value (ei ej : Entry) : (joinInto ei ej).value = joinVal ei.value ej := by
  unfold joinInto joinVal Entry.emptyDef
  simp only
  cases ej.value <;> rfl

theorem joinInto_gk (ei ej : Entry) : (joinInto ei ej).group = ei.group ∧ (joinInto ei ej).key = ei.key := ⟨rfl, rfl⟩

/-- entry `i` of the joined list is entry `i` joined with everything behind it -/
theorem C15_join_entry (es : List Entry) (i : Nat) (e : Entry) (h : es[i]? = some e) :
    (joinSame es)[i]? = some (joinOne e (es.drop (i + 1))) := by
  induction es generalizing i with
  | nil => simp at h
  | cons a as ih =>
    cases i with
    | zero => simp only [List.getElem?_cons_zero, Option.some.injEq] at h; subst h; simp [joinSame]
    | succ n =>
      simp only [List.getElem?_cons_succ] at h
      simp only [joinSame, List.getElem?_cons_succ, List.drop_succ_cons]
      exact ih n h

theorem joinOne_gk (e : Entry) (later : List Entry) : (joinOne e later).group = e.group ∧ (joinOne e later).key = e.key := by
  unfold joinOne
  induction later generalizing e with
  | nil => exact ⟨rfl, rfl⟩
  | cons x xs ih =>
    rw [List.foldl_cons]
    split
    · have := ih (joinInto e x); exact this
    · exact ih e

/-- the joined value is the first value folded with the later definitions **of the same section
    and key**, in file order; definitions of other keys play no role -/
theorem C15_join_value (e : Entry) (later : List Entry) :
    (joinOne e later).value =
      (later.filter (fun x => e.group == x.group && e.key == x.key)).foldl joinVal e.value := by
  unfold joinOne
  induction later generalizing e with
  | nil => rfl
  | cons x xs ih =>
    rw [List.foldl_cons, List.filter_cons]
    by_cases hx : (e.group == x.group && e.key == x.key) = true
    · simp only [hx, if_true, List.foldl_cons]
      have := ih (joinInto e x)
      rw [(joinInto_gk e x).1, (joinInto_gk e x).2, joinInto_value] at this
      exact this
    · simp only [hx, Bool.false_eq_true, if_false]
      exact ih e

/-- **since its last empty definition**: whatever was defined up to and including an empty
    definition is forgotten -/
theorem C15_join_since_empty (v : Option Str) (pre post : List Entry) (z : Entry) (hz : z.emptyDef = true) :
    (pre ++ z :: post).foldl joinVal v = post.foldl joinVal (some []) := by
  rw [List.foldl_append, List.foldl_cons]
  simp [joinVal, hz]

/-- **concatenation in file order**: non-empty definitions are appended one per line, each without
    its leading blanks -/
theorem C15_join_concat (a : Str) (post : List Entry) (h : ∀ x ∈ post, x.emptyDef = false) :
    post.foldl joinVal (some a) = some (a ++ post.flatMap (fun x => NL :: (x.value.getD []).dropWhile isSpace)) := by
  induction post generalizing a with
  | nil => simp
  | cons x xs ih =>
    rw [List.foldl_cons]
    have hx := h x (by simp)
    have : joinVal (some a) x = some (nlCat a ((x.value.getD []).dropWhile isSpace)) := by simp [joinVal, hx]
    rw [this, ih _ (fun y hy => h y (List.mem_cons_of_mem _ hy))]
    simp [nlCat]

/-- the three together, for the first definition at position `i`: if the later definitions of the
    key are `pre`, an empty one, then the non-empty `post`, the joined value is the lines of `post` -/
theorem C15_join_spec (es : List Entry) (i : Nat) (e z : Entry) (pre post : List Entry)
    (h : es[i]? = some e)
    (hl : (es.drop (i + 1)).filter (fun x => e.group == x.group && e.key == x.key) = pre ++ z :: post)
    (hz : z.emptyDef = true) (hp : ∀ x ∈ post, x.emptyDef = false) :
    ∃ e', (joinSame es)[i]? = some e' ∧ e'.group = e.group ∧ e'.key = e.key ∧
      e'.value = some (post.flatMap (fun x => NL :: (x.value.getD []).dropWhile isSpace)) := by
  refine ⟨_, C15_join_entry es i e h, (joinOne_gk e _).1, (joinOne_gk e _).2, ?_⟩
  rw [C15_join_value, hl, C15_join_since_empty _ pre post z hz, C15_join_concat [] post hp]
  simp

/-- `k=a`, `k=`, `k=b`, `k=  c` joined: the value of the first entry is `⏎b⏎c` -/
example : ((joinSame [⟨NONE, [0x6b], some [0x61], none, none, 1, false⟩, ⟨NONE, [0x6b], none, none, none, 2, false⟩,
    ⟨NONE, [0x6b], some [0x62], none, none, 3, false⟩, ⟨NONE, [0x6b], some [0x20, 0x20, 0x63], none, none, 4, false⟩])[0]?).map (·.value) =
    some (some [0x0a, 0x62, 0x0a, 0x63]) := by decide


end Econf
