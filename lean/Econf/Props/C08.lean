import Econf.Lemmas.NumLemmas
import Econf.Props.C07
import Econf.KeyFileOps
import Econf.Props.C11

/-!
  C08 — typed values survive set/get exactly.

  Integers: the setter stores `printf("%d")`/`printf("%u")` of the value (`showInt`/`showNat`,
  the formats are re-extracted from lib/keyfile.c into Generated/Facts.lean), the getter scans it
  with the `strtol` model and applies its range checks; the theorems hold for every value of the
  type, without bound on the magnitude.  Booleans: every accepted spelling canonicalises to
  `true`/`false` and reads back.  Floats: see `Econf/FloatThm.lean` (digits-suffice theorem) and
  the exhaustive direct oracle of the check.
-/

set_option linter.unusedSimpArgs false

namespace Econf

theorem getSigned_showInt (i llo lhi lo hi : Int) (h1 : llo ≤ lo) (h2 : hi ≤ lhi) (hlo : lo ≤ i) (hhi : i ≤ hi) :
    getSigned llo lhi lo hi (showInt i) = .ok i := by
  unfold getSigned
  rw [strtoCore_showInt]
  have hv : strtoVal ⟨decide (i < 0), i.natAbs, true⟩ = i := by
    unfold strtoVal
    by_cases hi : i < 0
    · simp [hi]; omega
    · simp [hi]; omega
  simp only [hv, Bool.not_true, Bool.false_eq_true, if_false]
  have a : ¬ i < llo := by omega
  have b : ¬ i > lhi := by omega
  have c : ¬ i < lo := by omega
  have d : ¬ i > hi := by omega
  simp [a, b, c, d]

/-- every int32 value: get (set n) = n -/
theorem C08_int32 (i : Int) (h1 : I32MIN ≤ i) (h2 : i ≤ I32MAX) : getInt32 (showInt i) = .ok i :=
  getSigned_showInt i _ _ _ _ (by decide) (by decide) h1 h2

/-- every int64 value -/
theorem C08_int64 (i : Int) (h1 : I64MIN ≤ i) (h2 : i ≤ I64MAX) : getInt64 (showInt i) = .ok i :=
  getSigned_showInt i _ _ _ _ (by decide) (by decide) h1 h2

theorem getUnsigned_showNat (n lmax max : Nat) (hm : max ≤ lmax) (h : n ≤ max) :
    getUnsigned lmax max (showNat n) = .ok n := by
  unfold getUnsigned
  rw [strtoCore_showNat]
  have a : ¬ n > lmax := by omega
  have b : ¬ n > max := by omega
  simp [a, b]

/-- every uint32 value -/
theorem C08_uint32 (n : Nat) (h : n ≤ U32MAX) : getUInt32 (showNat n) = .ok n :=
  getUnsigned_showNat n _ _ (by decide) h

/-- every uint64 value -/
theorem C08_uint64 (n : Nat) (h : n ≤ U64MAX) : getUInt64 (showNat n) = .ok n :=
  getUnsigned_showNat n _ _ (by decide) h

/-- through the object: what a typed setter stored is what the matching getter returns, for every
    object, section and (non-empty) key — composition with the ordered-map law of C11 -/
theorem C08_int32_object (kf : KeyFile) (g : Option Str) (k : Str) (hk : k ≠ []) (i : Int)
    (h1 : I32MIN ≤ i) (h2 : i ≤ I32MAX) :
    getTyped getInt32 (setValue kf g (some k) (.ok (showInt i))).1 g (some k) = .ok i := by
  unfold getTyped; rw [C11_get_set_same kf g k _ hk]; exact C08_int32 i h1 h2

theorem C08_uint64_object (kf : KeyFile) (g : Option Str) (k : Str) (hk : k ≠ []) (n : Nat) (h : n ≤ U64MAX) :
    getTyped getUInt64 (setValue kf g (some k) (.ok (showNat n))).1 g (some k) = .ok n := by
  unfold getTyped; rw [C11_get_set_same kf g k _ hk]; exact C08_uint64 n h

/-- the printed text of an integer has the unambiguous textual form of DESIGN.md 5.4: digits with
    an optional leading minus sign — no blanks, quotes, comment characters or delimiters -/
def isNumChar (c : Byte) : Bool := (0x30 ≤ c && c ≤ 0x39) || c == 0x2D

theorem toDigitsAux_chars (fuel n : Nat) (acc : Str) (h : ∀ c ∈ acc, isNumChar c = true) :
    ∀ c ∈ toDigitsAux fuel n acc, isNumChar c = true := by
  have hd : ∀ d : Fin 10, isNumChar (digitChar d.val) = true := by decide
  induction fuel generalizing n acc with
  | zero => simpa [toDigitsAux] using h
  | succ f ih =>
    unfold toDigitsAux
    split
    · intro c hc
      rcases List.mem_cons.mp hc with rfl | hc
      · exact hd ⟨n, by omega⟩
      · exact h c hc
    · apply ih
      intro c hc
      rcases List.mem_cons.mp hc with rfl | hc
      · exact hd ⟨n % 10, Nat.mod_lt _ (by omega)⟩
      · exact h c hc

theorem C08_text_form (i : Int) : ∀ c ∈ showInt i, isNumChar c = true := by
  unfold showInt showNat
  split
  · intro c hc
    rcases List.mem_cons.mp hc with rfl | hc
    · decide
    · exact toDigitsAux_chars _ _ [] (by simp) c hc
  · exact toDigitsAux_chars _ _ [] (by simp)

/-! ### booleans -/

/-- all case variants of a lower-case word -/
def caseVariants : Str → List Str
  | [] => [[]]
  | c :: cs => (caseVariants cs).flatMap (fun r => if 0x61 ≤ c && c ≤ 0x7A then [c :: r, (c - 0x20) :: r] else [c :: r])

def TRUE_SPELLINGS : List Str := [[0x31]] ++ caseVariants [0x79, 0x65, 0x73] ++ caseVariants [0x74, 0x72, 0x75, 0x65]
def FALSE_SPELLINGS : List Str := [[0x30]] ++ caseVariants [0x6e, 0x6f] ++ caseVariants [0x66, 0x61, 0x6c, 0x73, 0x65]

/-- every accepted boolean spelling (1, 0 and all 8+4+16+32 case variants of yes/no/true/false):
    the setter stores the canonical word and the getter returns the truth value -/
theorem C08_bool :
    (∀ s ∈ TRUE_SPELLINGS, setBoolText s = .ok [0x74, 0x72, 0x75, 0x65] ∧ getBool [0x74, 0x72, 0x75, 0x65] = .ok true ∧ getBool s = .ok true) ∧
    (∀ s ∈ FALSE_SPELLINGS, setBoolText s = .ok [0x66, 0x61, 0x6c, 0x73, 0x65] ∧ getBool [0x66, 0x61, 0x6c, 0x73, 0x65] = .ok false ∧ getBool s = .ok false) ∧
    TRUE_SPELLINGS.length = 25 ∧ FALSE_SPELLINGS.length = 37 := by
  refine ⟨?_, ?_, by decide, by decide⟩
  · have : TRUE_SPELLINGS.all (fun s =>
        (match setBoolText s with | .ok t => t == [0x74, 0x72, 0x75, 0x65] | _ => false) &&
        (match getBool [0x74, 0x72, 0x75, 0x65] with | .ok b => b | _ => false) &&
        (match getBool s with | .ok b => b | _ => false)) = true := by decide
    intro s hs
    have h := List.all_eq_true.mp this s hs
    simp only [Bool.and_eq_true] at h
    obtain ⟨⟨h1, h2⟩, h3⟩ := h
    refine ⟨?_, ?_, ?_⟩
    · cases hh : setBoolText s with
      | ok t => rw [hh] at h1; simp at h1; rw [h1]
      | error e => rw [hh] at h1; simp at h1
    · cases hh : getBool [0x74, 0x72, 0x75, 0x65] with
      | ok b => rw [hh] at h2; simp at h2; rw [h2]
      | error e => rw [hh] at h2; simp at h2
    · cases hh : getBool s with
      | ok b => rw [hh] at h3; simp at h3; rw [h3]
      | error e => rw [hh] at h3; simp at h3
  · have : FALSE_SPELLINGS.all (fun s =>
        (match setBoolText s with | .ok t => t == [0x66, 0x61, 0x6c, 0x73, 0x65] | _ => false) &&
        (match getBool [0x66, 0x61, 0x6c, 0x73, 0x65] with | .ok b => !b | _ => false) &&
        (match getBool s with | .ok b => !b | _ => false)) = true := by decide
    intro s hs
    have h := List.all_eq_true.mp this s hs
    simp only [Bool.and_eq_true] at h
    obtain ⟨⟨h1, h2⟩, h3⟩ := h
    refine ⟨?_, ?_, ?_⟩
    · cases hh : setBoolText s with
      | ok t => rw [hh] at h1; simp at h1; rw [h1]
      | error e => rw [hh] at h1; simp at h1
    · cases hh : getBool [0x66, 0x61, 0x6c, 0x73, 0x65] with
      | ok b => rw [hh] at h2; simp at h2; rw [h2]
      | error e => rw [hh] at h2; simp at h2
    · cases hh : getBool s with
      | ok b => rw [hh] at h3; simp at h3; rw [h3]
      | error e => rw [hh] at h3; simp at h3

/-- non-vacuity: the limits of the types are in range and printed as expected -/
example : showInt I32MIN = [0x2D, 0x32, 0x31, 0x34, 0x37, 0x34, 0x38, 0x33, 0x36, 0x34, 0x38] ∧
    showNat 0 = [0x30] ∧ I32MIN ≤ I32MIN ∧ I32MIN ≤ I32MAX := by decide

/-! ### through a file (composition with C07) -/


theorem forall_byte (P : Byte → Prop) [DecidablePred P] (h : ∀ n : Fin 256, P (UInt8.ofNat n.val)) (c : Byte) : P c := by
  have := h ⟨c.toNat, c.toNat_lt⟩
  simpa using this

theorem numChar_props (c : Byte) : isNumChar c = true → isText c = true ∧ isSpace c = false ∧ c ≠ QUOTE := by
  apply forall_byte (fun c => isNumChar c = true → isText c = true ∧ isSpace c = false ∧ c ≠ QUOTE)
  decide +kernel

/-- the text a typed integer setter stores is a 5.4 value for every comment character that is not a
    digit or the minus sign: the `val` clause of `WEntry.WF` holds -/
theorem C08_text_is_54 (c : Byte) (hc : isNumChar c = false) (i : Int) :
    texts (showInt i) ∧ c ∉ showInt i ∧ (∀ ch, (showInt i).head? = some ch → isSpace ch = false ∧ ch ≠ QUOTE) ∧
    (∀ ch, (showInt i).getLast? = some ch → isSpace ch = false) := by
  have hall := C08_text_form i
  refine ⟨fun ch hch => (numChar_props ch (hall ch hch)).1, ?_, ?_, ?_⟩
  · intro hin; have := hall c hin; rw [hc] at this; cases this
  · intro ch hch
    have hm : ch ∈ showInt i := List.mem_of_mem_head? hch
    exact ⟨(numChar_props ch (hall ch hm)).2.1, (numChar_props ch (hall ch hm)).2.2⟩
  · intro ch hch
    have hm : ch ∈ showInt i := List.mem_of_getLast? hch
    exact (numChar_props ch (hall ch hm)).2.1

/-- **C08 through a file** (integers): an entry whose value was stored by a typed integer setter is
    written, read back with the same characters, and the typed getter returns the number – for every
    int64 value, whatever else the object holds (composition of C07 and C08) -/
theorem C08_through_file (d c : Byte) (hT : TagsWF d c) (ws : List WEntry)
    (h : ∀ w ∈ ws, w.WF d c) (ho : Ordered none ws) (w : WEntry) (hw : w ∈ ws) (i : Int)
    (hval : w.val = .plain (showInt i) []) (h1 : I64MIN ≤ i) (h2 : i ≤ I64MAX) :
    ∃ st e, parseBytes (tagCfg d c) (writeSeq d c none (ws.map WEntry.toEntry)) = .ok st ∧ e ∈ st.entries ∧
      e.group = w.group ∧ e.key = w.key ∧ getInt64 (e.value.getD []) = .ok i := by
  obtain ⟨st, hp, he, _⟩ := C07_roundtrip d c hT ws h ho
  have hm : w.toEntry.content ∈ st.entries.map Entry.content := by
    rw [he]; exact List.mem_map.mpr ⟨w, hw, rfl⟩
  obtain ⟨e, hem, hec⟩ := List.mem_map.mp hm
  refine ⟨st, e, hp, hem, ?_, ?_, ?_⟩
  · have := congrArg (·.1) hec; exact this
  · have := congrArg (·.2.1) hec; exact this
  · have hv : e.value.getD [] = w.toEntry.value.getD [] := congrArg (·.2.2.1) hec
    rw [hv]
    simp only [WEntry.toEntry, hval, WVal.value, List.flatMap_nil, List.append_nil, Option.getD_some]
    exact C08_int64 i h1 h2


end Econf
