import Econf.Numeric
namespace Econf
end Econf
