import Econf.Lemmas.GrammarLemmas

/-!
  # C02 – a conventionally written file parses to exactly the sections, keys and values written

  `Econf/Grammar.lean` is the conventional grammar as data (`Item`, `render`) together with what each
  item is expected to contribute (`expItem`, `expDoc`).  The theorems here say that the parser model
  (`parseBytes`, tied to `lib/keyfile.c`/`lib/helpers.c` by the correspondence check) returns exactly
  that, for **every** document of the grammar – any number of items, any lengths, any bytes the
  well-formedness predicates admit.

  Delimiter sets covered by the proof (`CfgWF`): every non-empty set without the line break and the
  quote – no blank among the delimiters (`=`, `:`, `=:`), only blanks (` `, ` \t`), or mixed (` =`); the
  three classes take different paths through `read_file` (`skipDelim_core`).  A last line without its
  line break is covered by `C02_no_final_newline` (and, for any line at all, `parseLine_noeol`).  The
  keys-only format (no delimiter at all, or the lone line break) has its own kind of line, `Item.keyonly`.
-/

set_option linter.unusedSimpArgs false

namespace Econf

/-- the comment set `read_file` works with: `#` when none is given -/
def Cfg.eff (cfg : Cfg) : Cfg :=
  { cfg with comment := if cfg.comment.isEmpty then [0x23] else cfg.comment }

/-- **C02.**  Parsing the bytes of a conventional document yields exactly the expected state:
    the entries in file order with their section, key, value, quoting, comments and line number,
    and the sections in order of first appearance. -/
theorem C02_parse_render (cfg : Cfg) (doc : List Item) (hw : CfgWF cfg.eff) (h : ∀ it ∈ doc, it.WF cfg.eff) :
    parseBytes cfg (render doc) =
      .ok (if cfg.join then { expDoc doc with entries := joinSame (expDoc doc).entries } else expDoc doc) := by
  unfold parseBytes
  have h1 : splitLines (render doc) = renderLines doc := splitLines_render cfg.eff hw doc h
  have h2 := parse_doc cfg.eff hw doc {} h
  unfold Cfg.eff at h2
  simp only [h1, h2]
  rfl

/-- without `JOIN_SAME_ENTRIES` the result is the expected state itself -/
theorem C02_parse_render_plain (cfg : Cfg) (doc : List Item) (hw : CfgWF cfg.eff) (h : ∀ it ∈ doc, it.WF cfg.eff)
    (hj : cfg.join = false) : parseBytes cfg (render doc) = .ok (expDoc doc) := by
  rw [C02_parse_render cfg doc hw h, hj]; rfl

/-- the same for the decidable form of the hypotheses: what the model driver evaluates (`--docwf`) on
    every document the correspondence run generates -/
theorem C02_in_domain (cfg : Cfg) (doc : List Item) (h : docInDomain cfg.eff doc = true) (hj : cfg.join = false) :
    parseBytes cfg (render doc) = .ok (expDoc doc) := by
  unfold docInDomain at h
  simp only [Bool.and_eq_true, decide_eq_true_eq, List.all_eq_true] at h
  exact C02_parse_render_plain cfg doc h.1 h.2 hj

/-! ### the expected state in plain terms

`expItem` is written with the parser's storing functions; the theorems below unfold it for an entry
item into the record a reader of the file expects. -/

/-- value of an entry with continuation lines: every continuation line, as written, is appended
    behind a line break -/
def contValue (v : Option Str) (conts : List ContLine) : Option Str :=
  conts.foldl (fun v l => some (nlCat (v.getD []) l.render)) v

theorem trimKey_key (cfg : Cfg) (e : EntryI) (h : e.WF cfg) : trimKey e.key = e.key := by
  cases hk : e.key with
  | nil => rfl
  | cons k ks =>
    have : dropLastWhile isSpace ks = ks := by
      have := dropLastWhile_text_blanks ks [] (by intro c hc; cases hc) (by
        intro c hc
        have hmem : c ∈ ks := List.mem_of_getLast? hc
        exact (h.keyCh c (by rw [hk]; exact List.mem_cons_of_mem _ hmem)).2.1)
      simpa using this
    simp only [trimKey, this]

theorem conts_fold (conts : List ContLine) (s : PState) (pre : List Entry) (x : Entry)
    (he : s.entries = pre ++ [x]) (hca : s.ca = none) (hcb : s.cb = none) (hxl : x.line = s.line) :
    conts.foldl (fun s l => storeAppend false { s with line := s.line + 1 } l.render) s =
      { s with
        entries := pre ++ [{ x with value := contValue x.value conts,
                                    ca := x.ca.map (· ++ List.replicate conts.length NL),
                                    line := s.line + conts.length }]
        line := s.line + conts.length } := by
  induction conts generalizing s x with
  | nil =>
    have : x.ca.map (· ++ List.replicate 0 NL) = x.ca := by cases x.ca <;> simp
    simp only [List.foldl_nil, contValue, List.length_nil, this, Nat.add_zero]
    cases s; cases x
    simp only at he hxl ⊢
    subst hxl he
    rfl
  | cons l ls ih =>
    rw [List.foldl_cons]
    have hlast : s.entries.getLast? = some x := by rw [he]; simp
    have hstep : storeAppend false { s with line := s.line + 1 } l.render =
        { s with entries := pre ++ [{ x with value := some (nlCat (x.value.getD []) l.render),
                                             ca := x.ca.map (· ++ [NL]), line := s.line + 1 }],
                 line := s.line + 1, cb := none, ca := none } := by
      unfold storeAppend
      simp only [hlast, he, List.dropLast_concat, appendToEntry, hca, Bool.false_eq_true, if_false]
      cases hx : x.ca <;> simp [nlCat, hx, hcb]
    rw [hstep, ih _ _ rfl rfl rfl rfl]
    have hrep : ∀ (a : Str), (a ++ [NL]) ++ List.replicate ls.length NL = a ++ List.replicate (ls.length + 1) NL := by
      intro a; rw [List.append_assoc, List.replicate_succ]; rfl
    have hm : (x.ca.map (· ++ [NL])).map (· ++ List.replicate ls.length NL) = x.ca.map (· ++ List.replicate (ls.length + 1) NL) := by
      cases x.ca with
      | none => rfl
      | some a => simp only [Option.map_some, hrep]
    simp only [contValue, List.foldl_cons, List.length_cons, hm, hca, hcb, Nat.add_assoc, Nat.add_comm 1]

/-- **C02, entry items in plain terms.**  An entry item contributes one entry: the section open at
    that point (or the no-section marker), the key as written, the expected value followed by the
    continuation lines, the pending comment lines before it, the trailing comment of its line (one
    line break added per continuation line), the number of its last line, and whether the value was
    quoted. -/
theorem C02_entry_item (cfg : Cfg) (st : PState) (e : EntryI) (h : e.WF cfg) :
    expItem st (.entry e) =
      { st with
        entries := st.entries ++ [{
          group := st.curGroup.getD NONE
          key := e.key
          value := contValue e.expValue.1 e.cont
          cb := st.cb
          ca := (caWith st.ca e.tc).map (· ++ List.replicate e.cont.length NL)
          line := st.line + 1 + e.cont.length
          quotes := e.expValue.2 }]
        groups := addGroup st.groups (st.curGroup.getD NONE)
        cb := none
        ca := none
        line := st.line + 1 + e.cont.length } := by
  simp only [expItem]
  rw [conts_fold e.cont _ st.entries _ rfl rfl rfl rfl]
  simp only [storeNew, trimKey_key cfg e h]



/-! ### a last line without line break -/

/-- **C02, keys-only lines in plain terms.**  A line of the keys-only format contributes one entry
    without value: the section open at that point, the whole text of the line as key. -/
theorem C02_keyonly_item (cfg : Cfg) (st : PState) (ind key trail : Str) (tc : Option TrailC)
    (h : (Item.keyonly ind key trail tc).WF cfg) :
    expItem st (.keyonly ind key trail tc) =
      { st with
        entries := st.entries ++ [{
          group := st.curGroup.getD NONE
          key := key
          value := none
          cb := st.cb
          ca := caWith st.ca tc
          line := st.line + 1
          quotes := false }]
        groups := addGroup st.groups (st.curGroup.getD NONE)
        cb := none
        ca := none
        line := st.line + 1 } := by
  obtain ⟨_, _, _, hne, _, _, hlast, _⟩ := h
  have htrim : trimKey key = key := by
    cases hk : key with
    | nil => rfl
    | cons k ks =>
      have : dropLastWhile isSpace ks = ks := by
        have := dropLastWhile_text_blanks ks [] (by intro c hc; cases hc) (by
          intro c hc
          apply hlast c
          rw [hk]
          cases ks with
          | nil => simp at hc
          | cons y ys => simpa [List.getLast?_cons_cons] using hc)
        simpa using this
      simp only [trimKey, this]
  simp only [expItem, storeNew, htrim]

theorem mem_takeWhile_pos {α} (p : α → Bool) (l : List α) (x : α) (h : x ∈ l.takeWhile p) : p x = true := by
  induction l with
  | nil => cases h
  | cons a as ih =>
    rw [List.takeWhile_cons] at h
    cases hp : p a
    · simp [hp] at h
    · simp only [hp] at h
      rcases List.mem_cons.mp h with rfl | h
      · exact hp
      · exact ih h

theorem cstr_texts (t : Str) (h : texts t) : cstr t = t := by
  have := cstr_line t h
  unfold cstr at this ⊢
  have h2 := takeWhile_append_of_all (fun x => x != 0) t [] (by
    intro x hx
    have := h x hx
    simp only [isText, Bool.and_eq_true, bne_iff_ne, ne_eq] at this
    simpa using this.1)
  simpa using h2

theorem lineBody_noeol (t : Str) (h : texts t) : lineBody t = lineBody (t ++ [NL]) := by
  unfold lineBody
  rw [cstr_texts t h, cstr_line t h]
  have h1 : (t ++ [NL]).getLast? = some NL := by simp
  simp only [h1, beq_self_eq_true, if_true, List.dropLast_concat]
  cases hl : t.getLast? with
  | none => rfl
  | some l =>
    have : (l == NL) = false := by
      have hm : l ∈ t := List.mem_of_getLast? hl
      have := text_ne_NL h
      cases hc : l == NL
      · rfl
      · have : l = NL := by simpa using hc
        subst this; exact absurd hm (text_ne_NL h)
    simp [this]

/-- cutting at comment characters, then dropping one trailing line break: the same with and without
    the line break -/
theorem contText_noeol (py : Bool) (cm t : Str) (h : texts t) (hcm : NL ∉ cm) :
    contText py cm (t ++ [NL]) = contText py cm t := by
  unfold contText
  cases py
  · simp only [Bool.false_eq_true, if_false]
    -- invariant of the fold: the two running texts are equal, or differ by the trailing line break
    have key : ∀ (ks : Str) (o : Str), NL ∉ o → NL ∉ ks →
        (ks.foldl (fun o c => o.takeWhile (· != c)) (o ++ [NL]) = ks.foldl (fun o c => o.takeWhile (· != c)) o ++ [NL] ∧
          NL ∉ ks.foldl (fun o c => o.takeWhile (· != c)) o) ∨
        (ks.foldl (fun o c => o.takeWhile (· != c)) (o ++ [NL]) = ks.foldl (fun o c => o.takeWhile (· != c)) o ∧
          NL ∉ ks.foldl (fun o c => o.takeWhile (· != c)) o) := by
      intro ks
      induction ks with
      | nil => intro o ho _; left; exact ⟨rfl, ho⟩
      | cons k ks ih =>
        intro o ho hk
        have hkn : k ≠ NL := fun hh => hk (by rw [hh]; simp)
        have hks : NL ∉ ks := fun hh => hk (List.mem_cons_of_mem _ hh)
        simp only [List.foldl_cons]
        have hsub : NL ∉ o.takeWhile (· != k) := fun hh => ho ((List.takeWhile_sublist _).subset hh)
        by_cases hin : k ∈ o
        · -- the cut is inside `o`: from here on both are the same text
          have hcut : (o ++ [NL]).takeWhile (· != k) = o.takeWhile (· != k) := by
            rw [List.takeWhile_append]
            have : (o.takeWhile (· != k)).length ≠ o.length := by
              intro hl
              have heq : o.takeWhile (· != k) = o := by
                have := List.takeWhile_sublist (fun x => x != k) (l := o)
                exact this.eq_of_length hl
              have hall : ∀ x ∈ o, (x != k) = true := by
                intro x hx; rw [← heq] at hx; exact mem_takeWhile_pos (fun y => y != k) o x hx
              have := hall k hin
              simp at this
            simp [this]
          rw [hcut]
          right
          refine ⟨rfl, ?_⟩
          have := ih (o.takeWhile (· != k)) hsub hks
          rcases this with h | h <;> exact h.2
        · have hall : ∀ x ∈ o, (fun x => x != k) x = true := by
            intro x hx; simp only [bne_iff_ne, ne_eq]; intro hh; subst hh; exact hin hx
          have h1 : o.takeWhile (· != k) = o := by
            have := takeWhile_append_of_all (fun x => x != k) o [] hall; simpa using this
          have h2 : (o ++ [NL]).takeWhile (· != k) = o ++ [NL] := by
            rw [takeWhile_append_of_all _ _ _ hall]
            have : (NL != k) = true := by simp only [bne_iff_ne, ne_eq]; exact fun hh => hkn hh.symm
            simp [List.takeWhile_cons, this]
          rw [h1, h2]
          exact ih o ho hks
    rcases key cm t (text_ne_NL h) hcm with ⟨h1, h2⟩ | ⟨h1, h2⟩
    · rw [h1]
      generalize List.foldl (fun o c => o.takeWhile (· != c)) t cm = r at h2
      have hr : r.getLast? ≠ some NL := fun hh => h2 (List.mem_of_getLast? hh)
      have : (r ++ [NL]).getLast? = some NL := by simp
      simp only [this, beq_self_eq_true, if_true, List.dropLast_concat]
      cases hl : r.getLast? with
      | none => rfl
      | some l =>
        have : (l == NL) = false := by
          cases hc : l == NL
          · rfl
          · have : l = NL := by simpa using hc
            subst this; exact absurd hl hr
        simp [this]
    · rw [h1]
  · simp only [if_true]
    have h1 : (t ++ [NL]).getLast? = some NL := by simp
    simp only [h1, beq_self_eq_true, if_true, List.dropLast_concat]
    cases hl : t.getLast? with
    | none => rfl
    | some l =>
      have : (l == NL) = false := by
        cases hc : l == NL
        · rfl
        · have : l = NL := by simpa using hc
          subst this; exact absurd (List.mem_of_getLast? hl) (text_ne_NL h)
      simp [this]


theorem isContinuation_org (cfg : Cfg) (st : PState) (o1 o2 : Str) (ds : Bool) (data : Str) (h : o1.head? = o2.head?) :
    isContinuation cfg st o1 ds data = isContinuation cfg st o2 ds data := by
  unfold isContinuation
  cases o1 with
  | nil => cases o2 with
    | nil => rfl
    | cons b bs => simp at h
  | cons a as => cases o2 with
    | nil => simp at h
    | cons b bs => simp only [List.head?_cons, Option.some.injEq] at h; subst h; rfl

theorem parseContent_org (cfg : Cfg) (st : PState) (o1 o2 name : Str) (h : o1.head? = o2.head?)
    (hc : contText cfg.python cfg.comment o1 = contText cfg.python cfg.comment o2) :
    parseContent cfg st o1 name = parseContent cfg st o2 name := by
  unfold parseContent
  cases name with
  | nil => rfl
  | cons m0 mrest =>
    simp only
    split
    · rfl
    · split
      · rfl
      · unfold parseEntry
        simp only [isContinuation_org cfg st o1 o2 _ _ h, hc]

/-- **a line reads the same with and without its line break** (every state, every line of text) -/
theorem parseLine_noeol (cfg : Cfg) (st : PState) (t : Str) (ht : texts t) (hne : t ≠ []) (hcm : NL ∉ cfg.comment) :
    parseLine cfg st t = parseLine cfg st (t ++ [NL]) := by
  unfold parseLine
  rw [← lineBody_noeol t ht, cstr_texts t ht, cstr_line t ht]
  cases lineBody t with
  | nil => rfl
  | cons n0 nrest =>
    simp only
    split
    · rfl
    · apply parseContent_org
      · cases t with
        | nil => exact absurd rfl hne
        | cons a as => rfl
      · exact (contText_noeol cfg.python cfg.comment t ht hcm).symm

/-- the lines of a text whose last line lost its line break -/
theorem splitLines_noeol (ls : List Str) (t : Str) (h : ∀ l ∈ ls, IsLine l) (ht : texts t) (hne : t ≠ []) :
    splitLines (ls.flatten ++ t) = ls ++ [t] := by
  rw [splitLines_lines_append ls t h]
  congr 1
  -- one line without line break
  have : ∀ t : Str, NL ∉ t → t ≠ [] → splitLines t = [t] := by
    intro t
    induction t with
    | nil => intro _ h; exact absurd rfl h
    | cons a as ih =>
      intro hn _
      have ha : (a == NL) = false := by
        cases hc : a == NL
        · rfl
        · have : a = NL := by simpa using hc
          exact absurd (by rw [this]; simp) hn
      unfold splitLines
      simp only [ha, Bool.false_eq_true, if_false]
      cases as with
      | nil => simp [splitLines]
      | cons b bs =>
        rw [ih (fun hh => hn (List.mem_cons_of_mem _ hh)) (by simp)]
  exact this t (text_ne_NL ht) hne


theorem parseLines_snoc (cfg : Cfg) (st S : PState) (L0 : List Str) (last : Str)
    (h : parseLines cfg st (L0 ++ [last]) = .ok S) :
    ∃ S0, parseLines cfg st L0 = .ok S0 ∧ parseLine cfg S0 last = .ok S := by
  rw [parseLines_append] at h
  cases h0 : parseLines cfg st L0 with
  | error e => rw [h0] at h; cases h
  | ok S0 =>
    rw [h0] at h
    simp only [parseLines] at h
    cases h1 : parseLine cfg S0 last with
    | error e => rw [h1] at h; cases h
    | ok S1 => rw [h1] at h; simp only [Except.ok.injEq] at h; subst h; exact ⟨S0, rfl, h1⟩

theorem parseBytes_of_lines (cfg : Cfg) (content : Str) (st : PState)
    (h : parseLines cfg.eff {} (splitLines content) = .ok st) (hj : cfg.join = false) : parseBytes cfg content = .ok st := by
  unfold parseBytes
  unfold Cfg.eff at h
  rw [hj] at h
  simp only [hj, h, Bool.false_eq_true, if_false]

/-- **C02 without the final line break**: the file whose last line lost its line break parses to the
    same entries and sections (exactly the same state when that last line is not empty) -/
theorem C02_no_final_newline (cfg : Cfg) (doc : List Item) (hw : CfgWF cfg.eff) (h : ∀ it ∈ doc, it.WF cfg.eff)
    (hj : cfg.join = false) (hne : doc ≠ []) :
    ∃ st, parseBytes cfg (render doc).dropLast = .ok st ∧
      st.entries = (expDoc doc).entries ∧ st.groups = (expDoc doc).groups ∧ st.curGroup = (expDoc doc).curGroup := by
  have hlines := lines_of_doc cfg.eff hw doc h
  have hp := parse_doc cfg.eff hw doc {} h
  have hLne : renderLines doc ≠ [] := by
    cases doc with
    | nil => exact absurd rfl hne
    | cons it its =>
      unfold renderLines
      rw [List.flatMap_cons]
      cases it <;> simp [Item.lines]
  rcases List.eq_nil_or_concat (renderLines doc) with hnil | ⟨L0, last, hL⟩
  · exact absurd hnil hLne
  rw [List.concat_eq_append] at hL
  obtain ⟨t, rfl, ht⟩ := hlines last (by rw [hL]; simp)
  have hL0 : ∀ l ∈ L0, IsLine l := fun l hl => hlines l (by rw [hL]; simp [hl])
  rw [hL] at hp
  obtain ⟨S0, hp0, hp1⟩ := parseLines_snoc cfg.eff {} _ L0 _ hp
  have hcm : NL ∉ cfg.eff.comment := fun hh => by
    have := hw.kb NL hh; simp [isSpace, NL] at this
  have hrender : (render doc).dropLast = L0.flatten ++ t := by
    unfold render
    rw [hL, List.flatten_append, List.flatten_cons, List.flatten_nil, List.append_nil, ← List.append_assoc, List.dropLast_concat]
  rw [hrender]
  by_cases hte : t = []
  · subst hte
    have hblank : parseLine cfg.eff S0 ([] ++ [NL]) = .ok { S0 with line := S0.line + 1 } := by
      unfold parseLine; rfl
    rw [hblank] at hp1
    simp only [Except.ok.injEq] at hp1
    refine ⟨S0, parseBytes_of_lines cfg _ S0 (by rw [List.append_nil, splitLines_lines L0 hL0]; exact hp0) hj, ?_, ?_, ?_⟩ <;>
      (unfold expDoc; rw [← hp1])
  · have hpl : parseLines cfg.eff {} (L0 ++ [t]) = .ok (expDoc doc) := by
      rw [parseLines_append, hp0]
      simp only [parseLines, parseLine_noeol cfg.eff S0 t ht hte hcm, hp1]
      rfl
    exact ⟨_, parseBytes_of_lines cfg _ _ (by rw [splitLines_noeol L0 t hL0 ht hte]; exact hpl) hj, rfl, rfl, rfl⟩


/-! ### the hypotheses are satisfiable: a concrete document of the grammar -/

def exCfg : Cfg := { delim := [0x3d], comment := [] }
def exEntry1 : EntryI :=
  { indent := [0x20], key := [0x6b], ws1 := [0x20], d := 0x3d, ws2 := [0x20],
    value := .quoted [0x61, 0x20, 0x23, 0x20, 0x62], tws := [0x20],
    tc := some { c := 0x23, text := [0x20, 0x74] },
    cont := [{ indent := [0x09], text := [0x6d, 0x6f, 0x20, 0x72, 0x65], trail := [0x20] }] }
def exEntry2 : EntryI :=
  { indent := [], key := [0x65], ws1 := [], d := 0x3d, ws2 := [], value := .plain [], tws := [], tc := none, cont := [] }
def exDoc : List Item :=
  [ .comment [] 0x23 [0x20, 0x6c], .blank [0x20], .sect [] [0x53] [0x20] none, .entry exEntry1, .entry exEntry2 ]

theorem exCfg_wf : CfgWF exCfg.eff := by
  refine ⟨by decide, by decide, by decide, by decide, by decide, by decide, by decide, by decide⟩

theorem exDoc_wf : ∀ it ∈ exDoc, it.WF exCfg.eff := by
  intro it hit
  simp only [exDoc, List.mem_cons, List.not_mem_nil, or_false] at hit
  rcases hit with rfl | rfl | rfl | rfl | rfl
  · exact ⟨by decide, by decide, by decide⟩
  · show blanks _; decide
  · exact ⟨by decide, by decide, by decide, by decide, trivial⟩
  · refine ⟨⟨by decide, by decide, by decide, by decide, by decide, by decide, by decide, by decide, by decide, by decide, ?_, ?_⟩, ?_, fun _ => by decide⟩
    · show texts _; decide
    · exact ⟨by decide, by decide, by decide, by decide⟩
    · intro l hl
      simp only [exEntry1, List.mem_singleton] at hl; subst hl
      exact ⟨by decide, by decide, by decide, by decide, by decide, by decide, by decide⟩
  · refine ⟨⟨by decide, by decide, by decide, by decide, by decide, by decide, by decide, by decide, by decide, by decide, ?_, trivial⟩, ?_, fun _ => by decide⟩
    · exact ⟨by decide, by decide, by decide, by decide⟩
    · intro l hl; cases hl

example : (expDoc exDoc).entries.map (fun e => (e.group, e.key, e.value, e.quotes, e.line)) =
    [([0x53], [0x6b], some [0x61, 0x20, 0x23, 0x20, 0x62, 0x0a, 0x09, 0x6d, 0x6f, 0x20, 0x72, 0x65, 0x20], true, 5),
     ([0x53], [0x65], none, false, 6)] := by decide

/-- the concrete document, through the theorem -/
example : parseBytes exCfg (render exDoc) = .ok (expDoc exDoc) :=
  C02_parse_render_plain exCfg exDoc exCfg_wf exDoc_wf rfl

/-- the concrete document without its final line break -/
example : ∃ st, parseBytes exCfg (render exDoc).dropLast = .ok st ∧ st.entries = (expDoc exDoc).entries ∧
    st.groups = (expDoc exDoc).groups ∧ st.curGroup = (expDoc exDoc).curGroup :=
  C02_no_final_newline exCfg exDoc exCfg_wf exDoc_wf rfl (by decide)

/-! ### the other delimiter classes

`key value` under the blank delimiter set `" \t"` (separator: a tab that is a delimiter, then blanks), and
`a = 1` / `b 2` under the mixed set `" ="` (in that class any blank separates). -/

def exCfgB : Cfg := { delim := [0x20, 0x09], comment := [0x23] }
def exDocB : List Item :=
  [ .entry { indent := [], key := [0x6b, 0x65, 0x79], ws1 := [], d := 0x09, ws2 := [0x20], value := .plain [0x76, 0x61, 0x6c], tws := [],
             tc := some { c := 0x23, text := [0x63] }, cont := [] },
    .entry { indent := [0x20], key := [0x71], ws1 := [0x0b], d := 0x20, ws2 := [], value := .quoted [0x61, 0x20, 0x62], tws := [0x20], tc := none, cont := [] } ]

theorem exCfgB_wf : CfgWF exCfgB.eff :=
  ⟨by decide, by decide, by decide, by decide, by decide, by decide, by decide, by decide⟩

theorem exDocB_wf : ∀ it ∈ exDocB, it.WF exCfgB.eff := by
  intro it hit
  simp only [exDocB, List.mem_cons, List.not_mem_nil, or_false] at hit
  rcases hit with rfl | rfl
  · refine ⟨⟨by decide, by decide, by decide, by decide, by decide, by decide, by decide, by decide, by decide, by decide, ?_, ?_⟩, (by intro l hl; cases hl), fun _ => by decide⟩
    · exact ⟨by decide, by decide, by decide, by decide⟩
    · exact ⟨by decide, by decide, by decide, by decide⟩
  · refine ⟨⟨by decide, by decide, by decide, by decide, by decide, by decide, by decide, by decide, by decide, by decide, ?_, trivial⟩, (by intro l hl; cases hl), fun _ => by decide⟩
    show texts _; decide

example : parseBytes exCfgB (render exDocB) = .ok (expDoc exDocB) :=
  C02_parse_render_plain exCfgB exDocB exCfgB_wf exDocB_wf rfl

example : (expDoc exDocB).entries.map (fun e => (e.key, e.value, e.quotes, e.ca)) =
    [([0x6b, 0x65, 0x79], some [0x76, 0x61, 0x6c], false, some [0x63]), ([0x71], some [0x61, 0x20, 0x62], true, none)] := by decide

def exCfgM : Cfg := { delim := [0x20, 0x3d], comment := [0x23] }
def exDocM : List Item :=
  [ .entry { indent := [], key := [0x61], ws1 := [0x20], d := 0x3d, ws2 := [0x20], value := .plain [0x31], tws := [], tc := none, cont := [] },
    .entry { indent := [], key := [0x62], ws1 := [], d := 0x09, ws2 := [], value := .plain [0x32], tws := [], tc := none, cont := [] },
    .entry { indent := [], key := [0x63], ws1 := [], d := 0x3d, ws2 := [], value := .plain [], tws := [], tc := none, cont := [] } ]

theorem exCfgM_wf : CfgWF exCfgM.eff :=
  ⟨by decide, by decide, by decide, by decide, by decide, by decide, by decide, by decide⟩

theorem exDocM_wf : ∀ it ∈ exDocM, it.WF exCfgM.eff := by
  intro it hit
  simp only [exDocM, List.mem_cons, List.not_mem_nil, or_false] at hit
  rcases hit with rfl | rfl | rfl <;>
    exact ⟨⟨by decide, by decide, by decide, by decide, by decide, by decide, by decide, by decide, by decide, by decide,
      ⟨by decide, by decide, by decide, by decide⟩, trivial⟩, (by intro l hl; cases hl), fun h => absurd rfl h⟩

example : parseBytes exCfgM (render exDocM) = .ok (expDoc exDocM) :=
  C02_parse_render_plain exCfgM exDocM exCfgM_wf exDocM_wf rfl

example : (expDoc exDocM).entries.map (fun e => (e.key, e.value)) = [([0x61], some [0x31]), ([0x62], some [0x32]), ([0x63], none)] := by decide

/-! ### the keys-only format (no delimiter at all) -/

def exCfgK : Cfg := { delim := [], comment := [0x23] }
def exDocK : List Item :=
  [ .comment [] 0x23 [0x20, 0x78], .sect [] [0x53] [] none,
    .keyonly [0x20] [0x74, 0x77, 0x6f, 0x20, 0x77, 0x6f, 0x72, 0x64, 0x73] [0x20, 0x09] (some { c := 0x23, text := [0x74] }),
    .keyonly [] [0x6b] [] none ]

theorem exCfgK_wf : CfgWF exCfgK.eff :=
  ⟨by decide, by decide, by decide, by decide, by decide, by decide, by decide, by decide⟩

theorem exDocK_wf : ∀ it ∈ exDocK, it.WF exCfgK.eff := by
  intro it hit
  simp only [exDocK, List.mem_cons, List.not_mem_nil, or_false] at hit
  rcases hit with rfl | rfl | rfl | rfl
  · exact ⟨by decide, by decide, by decide⟩
  · exact ⟨by decide, by decide, by decide, by decide, trivial⟩
  · exact ⟨by decide, by decide, by decide, by decide, by decide, by decide, by decide, ⟨by decide, by decide, by decide, by decide⟩⟩
  · exact ⟨by decide, by decide, by decide, by decide, by decide, by decide, by decide, trivial⟩

example : parseBytes exCfgK (render exDocK) = .ok (expDoc exDocK) :=
  C02_parse_render_plain exCfgK exDocK exCfgK_wf exDocK_wf rfl

example : (expDoc exDocK).entries.map (fun e => (e.group, e.key, e.value, e.ca, e.line)) =
    [([0x53], [0x74, 0x77, 0x6f, 0x20, 0x77, 0x6f, 0x72, 0x64, 0x73], none, some [0x74], 3), ([0x53], [0x6b], none, none, 4)] := by decide

end Econf
