import Econf.Lemmas.GrammarLemmas

/-!
  # C02 – a conventionally written file parses to exactly the sections, keys and values written

  `Econf/Grammar.lean` is the conventional grammar as data (`Item`, `render`) together with what each
  item is expected to contribute (`expItem`, `expDoc`).  The theorems here say that the parser model
  (`parseBytes`, tied to `lib/keyfile.c`/`lib/helpers.c` by the correspondence check) returns exactly
  that, for **every** document of the grammar – any number of items, any lengths, any bytes the
  well-formedness predicates admit.

  Delimiter class covered by the proof: "non-blank" (`CfgWF.nonblank`, e.g. `=`, `:`, `=:`), the
  class of every configuration file format the library is used for.  The blank and mixed classes and
  a last line without line break are decided by the correspondence check only (DESIGN.md 10.4).
-/

set_option linter.unusedSimpArgs false

namespace Econf

/-- the comment set `read_file` works with: `#` when none is given -/
def Cfg.eff (cfg : Cfg) : Cfg :=
  { cfg with comment := if cfg.comment.isEmpty then [0x23] else cfg.comment }

/-- **C02.**  Parsing the bytes of a conventional document yields exactly the expected state:
    the entries in file order with their section, key, value, quoting, comments and line number,
    and the sections in order of first appearance. -/
theorem C02_parse_render (cfg : Cfg) (doc : List Item) (hw : CfgWF cfg.eff) (h : ∀ it ∈ doc, it.WF cfg.eff) :
    parseBytes cfg (render doc) =
      .ok (if cfg.join then { expDoc doc with entries := joinSame (expDoc doc).entries } else expDoc doc) := by
  unfold parseBytes
  have h1 : splitLines (render doc) = renderLines doc := splitLines_render cfg.eff hw doc h
  have h2 := parse_doc cfg.eff hw doc {} h
  unfold Cfg.eff at h2
  simp only [h1, h2]
  rfl

/-- without `JOIN_SAME_ENTRIES` the result is the expected state itself -/
theorem C02_parse_render_plain (cfg : Cfg) (doc : List Item) (hw : CfgWF cfg.eff) (h : ∀ it ∈ doc, it.WF cfg.eff)
    (hj : cfg.join = false) : parseBytes cfg (render doc) = .ok (expDoc doc) := by
  rw [C02_parse_render cfg doc hw h, hj]; rfl

/-! ### the expected state in plain terms

`expItem` is written with the parser's storing functions; the theorems below unfold it for an entry
item into the record a reader of the file expects. -/

/-- value of an entry with continuation lines: every continuation line, as written, is appended
    behind a line break -/
def contValue (v : Option Str) (conts : List ContLine) : Option Str :=
  conts.foldl (fun v l => some (nlCat (v.getD []) l.render)) v

theorem trimKey_key (cfg : Cfg) (e : EntryI) (h : e.WF cfg) : trimKey e.key = e.key := by
  cases hk : e.key with
  | nil => rfl
  | cons k ks =>
    have : dropLastWhile isSpace ks = ks := by
      have := dropLastWhile_text_blanks ks [] (by intro c hc; cases hc) (by
        intro c hc
        have hmem : c ∈ ks := List.mem_of_getLast? hc
        exact (h.keyCh c (by rw [hk]; exact List.mem_cons_of_mem _ hmem)).2.1)
      simpa using this
    simp only [trimKey, this]

theorem conts_fold (conts : List ContLine) (s : PState) (pre : List Entry) (x : Entry)
    (he : s.entries = pre ++ [x]) (hca : s.ca = none) (hcb : s.cb = none) (hxl : x.line = s.line) :
    conts.foldl (fun s l => storeAppend false { s with line := s.line + 1 } l.render) s =
      { s with
        entries := pre ++ [{ x with value := contValue x.value conts,
                                    ca := x.ca.map (· ++ List.replicate conts.length NL),
                                    line := s.line + conts.length }]
        line := s.line + conts.length } := by
  induction conts generalizing s x with
  | nil =>
    have : x.ca.map (· ++ List.replicate 0 NL) = x.ca := by cases x.ca <;> simp
    simp only [List.foldl_nil, contValue, List.length_nil, this, Nat.add_zero]
    cases s; cases x
    simp only at he hxl ⊢
    subst hxl he
    rfl
  | cons l ls ih =>
    rw [List.foldl_cons]
    have hlast : s.entries.getLast? = some x := by rw [he]; simp
    have hstep : storeAppend false { s with line := s.line + 1 } l.render =
        { s with entries := pre ++ [{ x with value := some (nlCat (x.value.getD []) l.render),
                                             ca := x.ca.map (· ++ [NL]), line := s.line + 1 }],
                 line := s.line + 1, cb := none, ca := none } := by
      unfold storeAppend
      simp only [hlast, he, List.dropLast_concat, appendToEntry, hca, Bool.false_eq_true, if_false]
      cases hx : x.ca <;> simp [nlCat, hx, hcb]
    rw [hstep, ih _ _ rfl rfl rfl rfl]
    have hrep : ∀ (a : Str), (a ++ [NL]) ++ List.replicate ls.length NL = a ++ List.replicate (ls.length + 1) NL := by
      intro a; rw [List.append_assoc, List.replicate_succ]; rfl
    have hm : (x.ca.map (· ++ [NL])).map (· ++ List.replicate ls.length NL) = x.ca.map (· ++ List.replicate (ls.length + 1) NL) := by
      cases x.ca with
      | none => rfl
      | some a => simp only [Option.map_some, hrep]
    simp only [contValue, List.foldl_cons, List.length_cons, hm, hca, hcb, Nat.add_assoc, Nat.add_comm 1]

/-- **C02, entry items in plain terms.**  An entry item contributes one entry: the section open at
    that point (or the no-section marker), the key as written, the expected value followed by the
    continuation lines, the pending comment lines before it, the trailing comment of its line (one
    line break added per continuation line), the number of its last line, and whether the value was
    quoted. -/
theorem C02_entry_item (cfg : Cfg) (st : PState) (e : EntryI) (h : e.WF cfg) :
    expItem st (.entry e) =
      { st with
        entries := st.entries ++ [{
          group := st.curGroup.getD NONE
          key := e.key
          value := contValue e.expValue.1 e.cont
          cb := st.cb
          ca := (caWith st.ca e.tc).map (· ++ List.replicate e.cont.length NL)
          line := st.line + 1 + e.cont.length
          quotes := e.expValue.2 }]
        groups := addGroup st.groups (st.curGroup.getD NONE)
        cb := none
        ca := none
        line := st.line + 1 + e.cont.length } := by
  simp only [expItem]
  rw [conts_fold e.cont _ st.entries _ rfl rfl rfl rfl]
  simp only [storeNew, trimKey_key cfg e h]

/-! ### the hypotheses are satisfiable: a concrete document of the grammar -/

def exCfg : Cfg := { delim := [0x3d], comment := [] }
def exEntry1 : EntryI :=
  { indent := [0x20], key := [0x6b], ws1 := [0x20], d := 0x3d, ws2 := [0x20],
    value := .quoted [0x61, 0x20, 0x23, 0x20, 0x62], tws := [0x20],
    tc := some { c := 0x23, text := [0x20, 0x74] },
    cont := [{ indent := [0x09], text := [0x6d, 0x6f, 0x20, 0x72, 0x65], trail := [0x20] }] }
def exEntry2 : EntryI :=
  { indent := [], key := [0x65], ws1 := [], d := 0x3d, ws2 := [], value := .plain [], tws := [], tc := none, cont := [] }
def exDoc : List Item :=
  [ .comment [] 0x23 [0x20, 0x6c], .blank [0x20], .sect [] [0x53] [0x20] none, .entry exEntry1, .entry exEntry2 ]

theorem exCfg_wf : CfgWF exCfg.eff := by
  refine ⟨by decide, by decide, by decide, by decide, by decide, by decide, by decide, by decide, by decide⟩

theorem exDoc_wf : ∀ it ∈ exDoc, it.WF exCfg.eff := by
  intro it hit
  simp only [exDoc, List.mem_cons, List.not_mem_nil, or_false] at hit
  rcases hit with rfl | rfl | rfl | rfl | rfl
  · exact ⟨by decide, by decide, by decide⟩
  · show blanks _; decide
  · exact ⟨by decide, by decide, by decide, by decide, trivial⟩
  · refine ⟨⟨by decide, by decide, by decide, by decide, by decide, by decide, by decide, by decide, by decide, by decide, ?_, ?_⟩, ?_⟩
    · show texts _; decide
    · exact ⟨by decide, by decide, by decide, by decide⟩
    · intro l hl
      simp only [exEntry1, List.mem_singleton] at hl; subst hl
      exact ⟨by decide, by decide, by decide, by decide, by decide, by decide⟩
  · refine ⟨⟨by decide, by decide, by decide, by decide, by decide, by decide, by decide, by decide, by decide, by decide, ?_, trivial⟩, ?_⟩
    · exact ⟨by decide, by decide, by decide, by decide⟩
    · intro l hl; cases hl

example : (expDoc exDoc).entries.map (fun e => (e.group, e.key, e.value, e.quotes, e.line)) =
    [([0x53], [0x6b], some [0x61, 0x20, 0x23, 0x20, 0x62, 0x0a, 0x09, 0x6d, 0x6f, 0x20, 0x72, 0x65, 0x20], true, 5),
     ([0x53], [0x65], none, false, 6)] := by decide

/-- the concrete document, through the theorem -/
example : parseBytes exCfg (render exDoc) = .ok (expDoc exDoc) :=
  C02_parse_render_plain exCfg exDoc exCfg_wf exDoc_wf rfl

end Econf
