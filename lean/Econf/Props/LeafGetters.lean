import Econf.Props.LeafKf
import Econf.KeyFileOps

/-!
  # `econf_getGroups` (lib/libeconf.c) on the generated term

  The getter walks over the group list of the object (`GlMemA`), skips the pseudo group `_none_` of the group-less keys and
  returns the other names as a NULL-terminated array of fresh copies through the out-parameters `length` and `groups`
  (one-word cells of the caller).  The array grows by one word per name (`realloc`), so every round moves it to a new block.
-/
open MiniC Leaf LeafKf
set_option linter.unusedSimpArgs false
set_option linter.unusedVariables false
namespace LeafKf

def ggLen : Expr := .load (.slot (.load (.var 1) .ptr) 0) .u64
def ggArr : Expr := .load (.slot (.load (.var 2) .ptr) 0) .ptr
def ggOne : Expr := .cast .u64 (.lit 1 .i32)
def ggName : Expr := .load (.slot (.sidx (.load (.slot (.load (.var 0) .ptr) 13) .ptr) (.load (.var 3) .i32) 1) 0) .ptr
def ggLast : LVal := .slot (.sidx ggArr (.bin .sub ggLen ggOne .u64) 1) 0
def ggNoMem : Stmt := .ret (some (.cast .u32 (.lit 2 .i32)))
def ggS1 : Stmt := .expr (.incdec (.slot (.load (.var 1) .ptr) 0) true true .u64)
def ggSize : Expr := .bin .mul (.bin .add ggLen ggOne .u64) (.lit 1 .u64) .u64
def ggS2 : Stmt := .expr (.assign (.slot (.load (.var 2) .ptr) 0) (.call "realloc_words" (.cons ggArr (.cons ggSize .nil))) .ptr)
def ggS3 : Stmt := .ite (.bin .eq ggArr .null .i32) ggNoMem .skip
def ggS4 : Stmt := .expr (.assign (.slot (.sidx ggArr ggLen 1) 0) .null .ptr)
def ggS5 : Stmt := .expr (.assign ggLast (.call "strdup" (.cons ggName .nil)) .ptr)
def ggS6 : Stmt := .ite (.bin .eq (.load ggLast .ptr) .null .i32) ggNoMem .skip
/-- the body of `if (strcmp(kf->groups[i], "_none_"))` -/
def ggKeep : Stmt := .seq ggS1 (.seq ggS2 (.seq ggS3 (.seq ggS4 (.seq ggS5 ggS6))))
def ggCond : Expr := .call "strcmp" (.cons ggName (.cons (.strlit [95, 110, 111, 110, 101, 95]) .nil))
def ggBody : Stmt := .ite ggCond ggKeep .skip
def ggTest : Expr := .bin .lt (.load (.var 3) .i32) (.load (.slot (.load (.var 0) .ptr) 14) .i32) .i32
def ggInc : Expr := .incdec (.var 3) true true .i32
def ggLoop : Stmt := .for (some ggTest) (some ggInc) ggBody
def ggArgCheck : Stmt := .ite (.lor (.un .lnot (.load (.var 0) .ptr) .i32) (.bin .eq (.load (.var 2) .ptr) .null .i32)) (.ret (some (.cast .u32 (.lit 1 .i32)))) .skip
def ggCountCheck : Stmt := .ite (.bin .le (.load (.slot (.load (.var 0) .ptr) 14) .i32) (.lit 0 .i32) .i32) (.ret (some (.cast .u32 (.lit 4 .i32)))) .skip

/-- the shape of the generated term (checked by `rfl` against what the translator produced on this run) -/
theorem econf_getGroups_shape : LeafFns.econf_getGroups.body =
    .seq ggArgCheck
      (.seq ggCountCheck
        (.seq (.expr (.assign (.slot (.load (.var 2) .ptr) 0) .null .ptr))
          (.seq (.expr (.assign (.slot (.load (.var 1) .ptr) 0) (.cast .u64 (.lit 0 .i32)) .u64))
            (.seq (.expr (.assign (.var 3) (.lit 0 .i32) .i32))
              (.seq ggLoop (.ret (some (.cast .u32 (.lit 0 .i32))))))))) := rfl

theorem wrapTo_u32_small (n : Int) (h0 : 0 ≤ n) (h1 : n < 4294967296) : wrapTo .u32 n = n := by
  simp only [wrapTo, Ty.bits, Ty.signed, show (Ty.u32 == Ty.bool) = false from rfl, Bool.false_eq_true, if_false, Bool.false_and]
  have hp : ((2 : Int) ^ 32) = 4294967296 := by decide
  rw [hp]; exact Int.emod_eq_of_lt h0 h1

/-- `kf == NULL`: ECONF_ERROR, nothing is touched -/
theorem C_econf_getGroups_null_kf (fuel : Nat) (m : Mem) (a1 a2 a3 : Val) :
    exec fuel LeafFns.econf_getGroups.body { mem := m, loc := [.null, a1, a2, a3] } =
      .ret (.int 1) { mem := m, loc := [.null, a1, a2, a3] } := by
  have w1 : wrapTo .u32 1 = 1 := wrapTo_u32_small 1 (by omega) (by omega)
  rw [econf_getGroups_shape]
  have ht : testOf (some (.lor (.un .lnot (.load (.var 0) .ptr) .i32) (.bin .eq (.load (.var 2) .ptr) .null .i32))) { mem := m, loc := [.null, a1, a2, a3] } =
      .ok (true, { mem := m, loc := [.null, a1, a2, a3] }) := by
    simp [testOf, evalE, evalL, readPlace, unop, truth, boolVal, bind, Except.bind, Except.map]
  have hr : exec fuel ggArgCheck { mem := m, loc := [.null, a1, a2, a3] } = .ret (.int 1) { mem := m, loc := [.null, a1, a2, a3] } := by
    unfold ggArgCheck
    rw [exec_ite_true ht]
    simp [exec, evalE, convert, w1, bind, Except.bind]
  rw [exec_seq_ret hr]

/-- `groups == NULL`: ECONF_ERROR, nothing is touched -/
theorem C_econf_getGroups_null_groups (fuel : Nat) (m : Mem) (bk : Nat) (o : Int) (a1 a3 : Val) :
    exec fuel LeafFns.econf_getGroups.body { mem := m, loc := [.ptr bk o, a1, .null, a3] } =
      .ret (.int 1) { mem := m, loc := [.ptr bk o, a1, .null, a3] } := by
  have w1 : wrapTo .u32 1 = 1 := wrapTo_u32_small 1 (by omega) (by omega)
  rw [econf_getGroups_shape]
  have ht : testOf (some (.lor (.un .lnot (.load (.var 0) .ptr) .i32) (.bin .eq (.load (.var 2) .ptr) .null .i32))) { mem := m, loc := [.ptr bk o, a1, .null, a3] } =
      .ok (true, { mem := m, loc := [.ptr bk o, a1, .null, a3] }) := by
    simp [testOf, evalE, evalL, readPlace, unop, binop, truth, boolVal, bind, Except.bind, Except.map]
  have hr : exec fuel ggArgCheck { mem := m, loc := [.ptr bk o, a1, .null, a3] } = .ret (.int 1) { mem := m, loc := [.ptr bk o, a1, .null, a3] } := by
    unfold ggArgCheck
    rw [exec_ite_true ht]
    simp [exec, evalE, convert, w1, bind, Except.bind]
  rw [exec_seq_ret hr]

/-- both pointers given: the argument check passes -/
theorem gg_argcheck (fuel : Nat) (m : Mem) (bk cg : Nat) (a1 a3 : Val) :
    exec fuel ggArgCheck { mem := m, loc := [.ptr bk 0, a1, .ptr cg 0, a3] } = .normal { mem := m, loc := [.ptr bk 0, a1, .ptr cg 0, a3] } := by
  have ht : testOf (some (.lor (.un .lnot (.load (.var 0) .ptr) .i32) (.bin .eq (.load (.var 2) .ptr) .null .i32))) { mem := m, loc := [.ptr bk 0, a1, .ptr cg 0, a3] } =
      .ok (false, { mem := m, loc := [.ptr bk 0, a1, .ptr cg 0, a3] }) := by
    simp [testOf, evalE, evalL, readPlace, unop, binop, truth, boolVal, bind, Except.bind, Except.map]
  unfold ggArgCheck
  rw [exec_ite_false ht]; simp [exec]

/-- an object without groups (`group_count == 0`; with an array or – as `calloc` leaves it – without): ECONF_NOGROUP, nothing is touched -/
theorem C_econf_getGroups_nogroup (fuel : Nat) (m : Mem) (bk bl cg : Nat) (a1 a3 : Val) (h : GlMem m bk bl []) :
    exec fuel LeafFns.econf_getGroups.body { mem := m, loc := [.ptr bk 0, a1, .ptr cg 0, a3] } =
      .ret (.int 4) { mem := m, loc := [.ptr bk 0, a1, .ptr cg 0, a3] } := by
  have w4 : wrapTo .u32 4 = 4 := wrapTo_u32_small 4 (by omega) (by omega)
  have hcnt : m.loadSlot bk 14 = .ok (.int 0) := by simpa using h.count
  rw [econf_getGroups_shape, exec_seq_normal (gg_argcheck fuel m bk cg a1 a3)]
  have ht : testOf (some (.bin .le (.load (.slot (.load (.var 0) .ptr) 14) .i32) (.lit 0 .i32) .i32)) { mem := m, loc := [.ptr bk 0, a1, .ptr cg 0, a3] } =
      .ok (true, { mem := m, loc := [.ptr bk 0, a1, .ptr cg 0, a3] }) := by
    simp [testOf, evalE, evalL, readPlace, hcnt, binop, cmpInt, truth, boolVal, bind, Except.bind, Except.map]
  have hr : exec fuel ggCountCheck { mem := m, loc := [.ptr bk 0, a1, .ptr cg 0, a3] } = .ret (.int 4) { mem := m, loc := [.ptr bk 0, a1, .ptr cg 0, a3] } := by
    unfold ggCountCheck
    rw [exec_ite_true ht]
    simp [exec, evalE, convert, w4, bind, Except.bind]
  rw [exec_seq_ret hr]

/-- … in particular for the object without a group array -/
theorem C_econf_getGroups_glnull (fuel : Nat) (m : Mem) (bk cg : Nat) (a1 a3 : Val) (h : GlNull m bk) :
    exec fuel LeafFns.econf_getGroups.body { mem := m, loc := [.ptr bk 0, a1, .ptr cg 0, a3] } =
      .ret (.int 4) { mem := m, loc := [.ptr bk 0, a1, .ptr cg 0, a3] } :=
  C_econf_getGroups_nogroup fuel m bk bk cg a1 a3 h.toGlMem

/-! ## one name is kept -/

/-- `(*p)++` on a `size_t` object -/
theorem incdec_u64_slot (m m' : Mem) (loc : List Val) (e : Expr) (b : Nat) (n : Nat)
    (he : evalE e { mem := m, loc := loc } = .ok (.ptr b 0, { mem := m, loc := loc }))
    (hl : m.loadSlot b 0 = .ok (.int (n : Int))) (h2 : (n : Int) + 1 < 18446744073709551616)
    (hs : m.storeSlot b 0 (.int ((n : Int) + 1)) = .ok m') :
    evalE (.incdec (.slot e 0) true true .u64) { mem := m, loc := loc } = .ok (.int (n : Int), { mem := m', loc := loc }) := by
  have hw : wrapTo .u64 ((n : Int) + 1) = (n : Int) + 1 := wrapTo_u64_small _ (by omega) h2
  have hb : binop m .add .u64 (.int (n : Int)) (.int 1) = .ok (.int ((n : Int) + 1)) := by
    simp [binop, cmpInt, arith_u64, hw]
  have hc : convert .u64 (.int ((n : Int) + 1)) = .ok (.int ((n : Int) + 1)) := by
    simp [convert, hw]
  simp only [evalE, evalL, he, bind, Except.bind, readPlace, Int.zero_add, Int.add_zero, Int.natCast_zero, hl]
  simp only [if_true, hb]
  simp only [show (Ty.u64 == Ty.ptr) = false from rfl]
  simp only [Bool.false_eq_true, if_false, hc, writePlace]
  simp only [hs, Except.map, if_true]

theorem slotAdd_of {m : Mem} {b : Nat} {blk : Block} (i : Nat) (h1 : m[b]? = some blk) (h2 : blk.live = true) (hi : i ≤ blk.slots.length) :
    slotAdd m b 0 (i : Int) = .ok (.ptr b (i : Int)) := by
  have : (0 : Int) ≤ (i : Int) ∧ (i : Int) ≤ (blk.slots.length : Int) := by omega
  simp [slotAdd, Mem.block, h1, h2, this, bind, Except.bind]

theorem w64_one : wrapTo .u64 1 = 1 := wrapTo_u64_small 1 (by omega) (by omega)

/-- `*length` and `*groups` in a memory whose two cells hold `k` and `v` -/
theorem gg_cells (mm : Mem) (loc : List Val) (cl cg : Nat) (lb gb : Block) (k : Nat) (v : Val) (kv iv : Val)
    (hl1 : lb.live = true) (hg1 : gb.live = true) (hv : v ≠ .undef)
    (hcl : mm[cl]? = some { lb with slots := [.int (k : Int)] }) (hcg : mm[cg]? = some { gb with slots := [v] }) :
    evalE ggLen { mem := mm, loc := [kv, .ptr cl 0, .ptr cg 0, iv] } = .ok (.int (k : Int), { mem := mm, loc := [kv, .ptr cl 0, .ptr cg 0, iv] }) ∧
    evalE ggArr { mem := mm, loc := [kv, .ptr cl 0, .ptr cg 0, iv] } = .ok (v, { mem := mm, loc := [kv, .ptr cl 0, .ptr cg 0, iv] }) := by
  have a1 : mm.loadSlot cl 0 = .ok (.int (k : Int)) := by
    simpa using loadSlot_of (i := 0) hcl (by simpa using hl1) (by simp) (by simp)
  have a2 : mm.loadSlot cg 0 = .ok v := by
    simpa using loadSlot_of (i := 0) (v := v) hcg (by simpa using hg1) (by simp) hv
  constructor
  · simp [ggLen, evalE, evalL, readPlace, a1, bind, Except.bind]
  · simp [ggArr, evalE, evalL, readPlace, a2, bind, Except.bind]

/-- the body of the `if`: the counter goes up, the array moves to a new block with one more word (or is made, when there was none), the
    terminator and a fresh copy of the name are written -/
theorem gg_keep (fuel : Nat) (mm : Mem) (cl cg sb : Nat) (lb gb : Block) (k : Nat) (v : Val) (old : List Val) (kv iv : Val) (s : List UInt8)
    (hl1 : lb.live = true) (hl2 : lb.writable = true) (hg1 : gb.live = true) (hg2 : gb.writable = true)
    (hcl : mm[cl]? = some { lb with slots := [.int (k : Int)] }) (hcg : mm[cg]? = some { gb with slots := [v] }) (hne : cl ≠ cg)
    (hv : (v = .null ∧ k = 0 ∧ old = []) ∨
      (∃ a ab, v = .ptr a 0 ∧ mm[a]? = some ab ∧ ab.live = true ∧ ab.slots = old ++ [.null] ∧ old.length = k ∧ a ≠ cl ∧ a ≠ cg))
    (hk : (k : Int) + 2 < 18446744073709551616)
    (hname : ∀ mm' : Mem, (∀ b, b < mm.length → b ≠ cl → b ≠ cg → (∀ a, v = .ptr a 0 → b ≠ a) → mm'[b]? = mm[b]?) →
      evalE ggName { mem := mm', loc := [kv, .ptr cl 0, .ptr cg 0, iv] } = .ok (.ptr sb 0, { mem := mm', loc := [kv, .ptr cl 0, .ptr cg 0, iv] }) ∧
      mm'.cstr sb 0 = .ok s) :
    ∃ m', exec fuel ggKeep { mem := mm, loc := [kv, .ptr cl 0, .ptr cg 0, iv] } = .normal { mem := m', loc := [kv, .ptr cl 0, .ptr cg 0, iv] } ∧
      m'.length = mm.length + 2 ∧
      m'[cl]? = some { lb with slots := [.int ((k + 1 : Nat) : Int)] } ∧ m'[cg]? = some { gb with slots := [.ptr mm.length 0] } ∧
      m'[mm.length]? = some { cells := [], slots := old ++ [.ptr (mm.length + 1) 0, .null] } ∧
      m'.cstr (mm.length + 1) 0 = .ok s ∧
      (∀ b, b < mm.length → b ≠ cl → b ≠ cg → (∀ a, v = .ptr a 0 → b ≠ a) → m'[b]? = mm[b]?) := by
  let loc : List Val := [kv, .ptr cl 0, .ptr cg 0, iv]
  let L := mm.length
  have hclt : cl < L := (List.getElem?_eq_some_iff.1 hcl).1
  have hcgt : cg < L := (List.getElem?_eq_some_iff.1 hcg).1
  have hvu : v ≠ .undef := by rcases hv with ⟨rfl, _⟩ | ⟨a, ab, rfl, _⟩ <;> simp
  -- (*length)++
  let m1 : Mem := mm.set cl { lb with slots := [.int ((k : Int) + 1)] }
  have hm1len : m1.length = L := by simp [m1, L]
  have cells : ∀ (m : Mem) (k' : Nat) (v' : Val), v' ≠ .undef → m[cl]? = some { lb with slots := [.int (k' : Int)] } → m[cg]? = some { gb with slots := [v'] } →
      evalE ggLen { mem := m, loc := loc } = .ok (.int (k' : Int), { mem := m, loc := loc }) ∧ evalE ggArr { mem := m, loc := loc } = .ok (v', { mem := m, loc := loc }) :=
    fun m k' v' h1 h2 h3 => gg_cells m loc cl cg lb gb k' v' kv iv hl1 hg1 h1 h2 h3
  have hS1 : exec fuel ggS1 { mem := mm, loc := loc } = .normal { mem := m1, loc := loc } := by
    have a1 : mm.loadSlot cl 0 = .ok (.int (k : Int)) := by
      simpa using loadSlot_of (i := 0) hcl (by simpa using hl1) (by simp) (by simp)
    have hst : mm.storeSlot cl 0 (.int ((k : Int) + 1)) = .ok m1 := by
      simpa [m1] using storeSlot_of (m := mm) (b := cl) (i := 0) (.int ((k : Int) + 1)) hcl (by simpa using hl1) (by simpa using hl2) (by simp)
    have hev := incdec_u64_slot mm m1 loc (.load (.var 1) .ptr) cl k (by simp [loc, evalE, evalL, readPlace, bind, Except.bind]) a1 (by omega) hst
    simp only [ggS1, exec, hev]
  have hm1cl : m1[cl]? = some { lb with slots := [.int ((k + 1 : Nat) : Int)] } := by
    have hclt' : cl < mm.length := hclt
    simp only [m1]; rw [List.getElem?_set_self hclt']; simp
  have hm1cg : m1[cg]? = some { gb with slots := [v] } := by simp only [m1]; rw [set_other (Ne.symm hne)]; exact hcg
  -- realloc
  obtain ⟨x, m2, hre, hm2len, hm2L, hm2fr⟩ : ∃ (x : Val) (m2 : Mem), builtin "realloc_words" [v, .int ((k : Int) + 2)] m1 = .ok (.ptr L 0, m2) ∧
      m2.length = L + 1 ∧ m2[L]? = some ({ cells := [], slots := old ++ [x, .undef] } : Block) ∧
      (∀ b, b < L → (∀ a, v = .ptr a 0 → b ≠ a) → m2[b]? = m1[b]?) := by
    rcases hv with ⟨rfl, rfl, rfl⟩ | ⟨a, ab, rfl, ha, hal, has, holen, hacl, hacg⟩
    · refine ⟨.undef, m1 ++ [{ cells := [], slots := [.undef, .undef] }], ?_, by simp [hm1len], ?_, fun b hb _ => ?_⟩
      · simp [builtin, Mem.allocWords, hm1len, List.replicate]
      · rw [List.getElem?_append_right (by simp [hm1len])]; simp [hm1len]
      · rw [List.getElem?_append_left (by rw [hm1len]; exact hb)]
    · have ha1 : m1[a]? = some ab := by simp only [m1]; rw [set_other hacl]; exact ha
      have halt : a < L := (List.getElem?_eq_some_iff.1 ha).1
      refine ⟨.null, m1.set a { ab with live := false } ++ [{ cells := [], slots := old ++ [.null, .undef] }], ?_, by simp [hm1len], ?_, fun b hb hba => ?_⟩
      · have := realloc_words_spec m1 a ab (k + 2) ha1 hal
        have hlen : ab.slots.length = k + 1 := by rw [has]; simp [holen]
        have e1 : ab.slots.take (k + 2) = ab.slots := List.take_of_length_le (by omega)
        have e2 : (k + 2) - ab.slots.length = 1 := by omega
        have e3 : ab.slots ++ [Val.undef] = old ++ [.null, .undef] := by rw [has]; simp
        rw [e1, e2, List.replicate_one, e3, hm1len] at this
        have e4 : (((k + 2 : Nat)) : Int) = (k : Int) + 2 := by omega
        rw [e4] at this
        exact this
      · rw [List.getElem?_append_right (by simp [hm1len])]; simp [hm1len]
      · rw [List.getElem?_append_left (by simp [hm1len]; exact hb), set_other (hba a rfl)]
  have hcgne : ∀ a, v = .ptr a 0 → cg ≠ a := by
    intro a hva
    rcases hv with ⟨rfl, _⟩ | ⟨a', ab, rfl, _, _, _, _, _, hacg⟩
    · simp at hva
    · injection hva with hva; subst hva; exact Ne.symm hacg
  have hclne : ∀ a, v = .ptr a 0 → cl ≠ a := by
    intro a hva
    rcases hv with ⟨rfl, _⟩ | ⟨a', ab, rfl, _, _, _, _, hacl, _⟩
    · simp at hva
    · injection hva with hva; subst hva; exact Ne.symm hacl
  have hm2cg : m2[cg]? = some { gb with slots := [v] } := by rw [hm2fr cg hcgt hcgne]; exact hm1cg
  have hm2cl : m2[cl]? = some { lb with slots := [.int ((k + 1 : Nat) : Int)] } := by rw [hm2fr cl hclt hclne]; exact hm1cl
  let m3 : Mem := m2.set cg { gb with slots := [.ptr L 0] }
  obtain ⟨c1l, c1a⟩ := cells m1 (k + 1) v hvu hm1cl hm1cg
  have hS2 : exec fuel ggS2 { mem := m1, loc := loc } = .normal { mem := m3, loc := loc } := by
    have hw1 : wrapTo .u64 ((k : Int) + 1 + 1) = (k : Int) + 2 := by rw [wrapTo_u64_small _ (by omega) (by omega)]; omega
    have hw2 : wrapTo .u64 (((k : Int) + 2) * 1) = (k : Int) + 2 := by rw [Int.mul_one, wrapTo_u64_small _ (by omega) (by omega)]
    have hst : m2.storeSlot cg 0 (.ptr L 0) = .ok m3 := by
      simpa [m3] using storeSlot_of (m := m2) (b := cg) (i := 0) (.ptr L 0) hm2cg (by simpa using hg1) (by simpa using hg2) (by simp)
    have e1 : (((k + 1 : Nat)) : Int) = (k : Int) + 1 := by omega
    rw [e1] at c1l
    have hone : evalE ggOne { mem := m1, loc := loc } = .ok (.int 1, { mem := m1, loc := loc }) := by
      simp [ggOne, evalE, convert, w64_one, bind, Except.bind]
    have hsz : evalE ggSize { mem := m1, loc := loc } = .ok (.int ((k : Int) + 2), { mem := m1, loc := loc }) := by
      simp only [ggSize, evalE, c1l, hone, bind, Except.bind, binop, cmpInt, arith_u64, hw1, hw2]
    simp only [loc] at c1a hsz ⊢
    simp [ggS2, exec, evalE, evalL, evalArgs, readPlace, writePlace, bind, Except.bind, Except.map, c1a, hsz, hre, convert, hst]
  have hcgL : cg ≠ L := by omega
  have hclL : cl ≠ L := by omega
  have hm3cg : m3[cg]? = some { gb with slots := [.ptr L 0] } := by
    have : cg < m2.length := by omega
    simp only [m3]; rw [List.getElem?_set_self this]
  have hm3cl : m3[cl]? = some { lb with slots := [.int ((k + 1 : Nat) : Int)] } := by
    simp only [m3]; rw [set_other hne]; exact hm2cl
  have hm3L : m3[L]? = some { cells := [], slots := old ++ [x, .undef] } := by
    simp only [m3]; rw [set_other (Ne.symm hcgL)]; exact hm2L
  have holen : old.length = k := by
    rcases hv with ⟨_, rfl, rfl⟩ | ⟨a, ab, _, _, _, _, h, _⟩
    · rfl
    · exact h
  have e1 : (((k + 1 : Nat)) : Int) = (k : Int) + 1 := by omega
  have hnullF : ∀ (m : Mem) (k' : Nat) (p : Nat), m[cl]? = some { lb with slots := [.int (k' : Int)] } → m[cg]? = some { gb with slots := [.ptr p 0] } →
      testOf (some (.bin .eq ggArr .null .i32)) { mem := m, loc := loc } = .ok (false, { mem := m, loc := loc }) := by
    intro m k' p h1 h2
    obtain ⟨_, ca⟩ := cells m k' (.ptr p 0) (by simp) h1 h2
    simp only [testOf, evalE, ca, bind, Except.bind, binop, boolVal, truth]
    simp
  have hS3 : exec fuel ggS3 { mem := m3, loc := loc } = .normal { mem := m3, loc := loc } := by
    unfold ggS3; rw [exec_ite_false (hnullF m3 (k + 1) L hm3cl hm3cg)]; simp [exec]
  -- (*groups)[*length] = NULL
  let m4 : Mem := m3.set L { cells := [], slots := old ++ [x, .null] }
  obtain ⟨c3l, c3a⟩ := cells m3 (k + 1) (.ptr L 0) (by simp) hm3cl hm3cg
  have hS4 : exec fuel ggS4 { mem := m3, loc := loc } = .normal { mem := m4, loc := loc } := by
    have hsx : slotAdd m3 L 0 ((k : Int) + 1) = .ok (.ptr L ((k : Int) + 1)) := by
      have := slotAdd_of (k + 1) hm3L rfl (by simp [holen])
      simpa using this
    have hst : m3.storeSlot L ((k : Int) + 1) .null = .ok m4 := by
      have := storeSlot_of (m := m3) (b := L) (i := k + 1) .null hm3L rfl rfl (by simp [holen])
      have e : (old ++ [x, Val.undef]).set (k + 1) .null = old ++ [x, .null] := by
        rw [List.set_append_right _ _ (by omega)]; simp [holen]
      simpa [m4, e] using this
    rw [e1] at c3l
    simp only [ggS4, exec, evalE, evalL, c3a, c3l, bind, Except.bind]
    simp [hsx, convert, writePlace, hst, Except.map]
  have hm4len : m4.length = L + 1 := by simp [m4, m3, hm2len]
  have hm4cg : m4[cg]? = some { gb with slots := [.ptr L 0] } := by simp only [m4]; rw [set_other hcgL]; exact hm3cg
  have hm4cl : m4[cl]? = some { lb with slots := [.int ((k + 1 : Nat) : Int)] } := by simp only [m4]; rw [set_other hclL]; exact hm3cl
  have hm4L : m4[L]? = some { cells := [], slots := old ++ [x, .null] } := by
    have : L < m3.length := by simp [m3]; omega
    simp only [m4]; rw [List.getElem?_set_self this]
  have hm4fr : ∀ b, b < L → b ≠ cl → b ≠ cg → (∀ a, v = .ptr a 0 → b ≠ a) → m4[b]? = mm[b]? := by
    intro b hb hbl hbg hba
    have : b ≠ L := by omega
    simp only [m4]; rw [set_other this]
    simp only [m3]; rw [set_other hbg, hm2fr b hb hba]
    simp only [m1]; rw [set_other hbl]
  -- the copy of the name
  obtain ⟨hnm4, hs4⟩ := hname m4 hm4fr
  obtain ⟨m5, hsd, hm5b, hm5len, hm5fr⟩ := strdup_spec m4 sb 0 s hs4
  rw [hm4len] at hsd hm5b hm5len hm5fr
  let m6 : Mem := m5.set L { cells := [], slots := old ++ [.ptr (L + 1) 0, .null] }
  have hm5L : m5[L]? = some { cells := [], slots := old ++ [x, .null] } := by rw [hm5fr L (by omega)]; exact hm4L
  -- the element `*length - 1` of the array, in a memory whose cells are as they are now
  have hlast : ∀ (m : Mem) (sl : List Val), m[cl]? = some { lb with slots := [.int ((k + 1 : Nat) : Int)] } → m[cg]? = some { gb with slots := [.ptr L 0] } →
      m[L]? = some ({ cells := [], slots := sl } : Block) → sl.length = k + 2 →
      evalL ggLast { mem := m, loc := loc } = .ok (.slot L (k : Int), { mem := m, loc := loc }) := by
    intro m sl h1 h2 h3 h4
    obtain ⟨cl', ca'⟩ := cells m (k + 1) (.ptr L 0) (by simp) h1 h2
    have hone : evalE ggOne { mem := m, loc := loc } = .ok (.int 1, { mem := m, loc := loc }) := by
      simp [ggOne, evalE, convert, w64_one, bind, Except.bind]
    have hw : wrapTo .u64 (((k + 1 : Nat) : Int) - 1) = (k : Int) := by rw [wrapTo_u64_small _ (by omega) (by omega)]; omega
    have hsx : slotAdd m L 0 (k : Int) = .ok (.ptr L (k : Int)) := slotAdd_of k h3 rfl (by simp [h4])
    simp only [ggLast, evalL, evalE, ca', cl', hone, bind, Except.bind, binop, cmpInt, arith_u64, hw]
    simp [hsx]
  have hS5 : exec fuel ggS5 { mem := m4, loc := loc } = .normal { mem := m6, loc := loc } := by
    have hl := hlast m4 _ hm4cl hm4cg hm4L (by simp [holen])
    have hst : m5.storeSlot L (k : Int) (.ptr (L + 1) 0) = .ok m6 := by
      have := storeSlot_of (m := m5) (b := L) (i := k) (.ptr (L + 1) 0) hm5L rfl rfl (by simp [holen])
      have e : (old ++ [x, Val.null]).set k (.ptr (L + 1) 0) = old ++ [.ptr (L + 1) 0, .null] := by
        rw [List.set_append_right _ _ (by omega)]; simp [holen]
      simpa [m6, e] using this
    simp only [loc] at hnm4 hl ⊢
    simp [ggS5, exec, evalE, evalArgs, hl, hnm4, hsd, convert, writePlace, hst, bind, Except.bind, Except.map]
  have hm6cg : m6[cg]? = some { gb with slots := [.ptr L 0] } := by simp only [m6]; rw [set_other hcgL, hm5fr cg (by omega)]; exact hm4cg
  have hm6cl : m6[cl]? = some { lb with slots := [.int ((k + 1 : Nat) : Int)] } := by simp only [m6]; rw [set_other hclL, hm5fr cl (by omega)]; exact hm4cl
  have hm6L : m6[L]? = some { cells := [], slots := old ++ [.ptr (L + 1) 0, .null] } := by
    have : L < m5.length := by omega
    simp only [m6]; rw [List.getElem?_set_self this]
  have hS6 : exec fuel ggS6 { mem := m6, loc := loc } = .normal { mem := m6, loc := loc } := by
    have hl := hlast m6 _ hm6cl hm6cg hm6L (by simp [holen])
    have hld : m6.loadSlot L (k : Int) = .ok (.ptr (L + 1) 0) :=
      loadSlot_of hm6L rfl (by rw [List.getElem?_append_right (by omega)]; simp [holen]) (by simp)
    have ht : testOf (some (.bin .eq (.load ggLast .ptr) .null .i32)) { mem := m6, loc := loc } = .ok (false, { mem := m6, loc := loc }) := by
      simp only [testOf, evalE, hl, readPlace, hld, bind, Except.bind, binop, boolVal, truth]
      simp
    unfold ggS6; rw [exec_ite_false ht]; simp [exec]
  have hm6new : m6.cstr (L + 1) 0 = .ok s := by
    have hz := cstr_nz hs4
    have : m6[L + 1]? = m5[L + 1]? := by simp only [m6]; rw [set_other (by omega)]
    rw [cstr_congr this]
    exact hm5b.cstr0 (rest := []) hz
  refine ⟨m6, ?_, by simp [m6, hm5len, L], hm6cl, hm6cg, hm6L, hm6new, fun b hb hbl hbg hba => ?_⟩
  · unfold ggKeep
    rw [exec_seq_normal hS1, exec_seq_normal hS2, exec_seq_normal hS3, exec_seq_normal hS4, exec_seq_normal hS5, hS6]
  · have : b ≠ L := by omega
    simp only [m6]; rw [set_other this, hm5fr b (by omega)]
    exact hm4fr b hb hbl hbg hba

/-! ## the loop -/

/-- the names `econf_getGroups` returns: all but the pseudo group of the group-less keys, in the order of the list -/
def keptNames (gl : List (Nat × List UInt8)) : List (List UInt8) := (gl.map (·.2)).filter (· != Econf.NONE)

/-- What the caller finds in memory `mm` after (and during) `econf_getGroups`, started in memory `m` with the cells `cl` (`size_t length`,
    block `lb` before the call) and `cg` (`char **groups`, block `gb`): every block of `m` other than the two cells is as it was; the
    length cell holds the number of names; the array cell holds NULL when there is no name, and otherwise points at a block that did
    not exist in `m`, made of one pointer per name and a final NULL; the i-th pointer leads to a block that did not exist in `m` and
    holds the i-th name as a C string (`res` lists block and name). -/
structure GgOut (m : Mem) (cl cg : Nat) (lb gb : Block) (mm : Mem) (res : List (Nat × List UInt8)) : Prop where
  len : m.length ≤ mm.length
  frame : ∀ b, b < m.length → b ≠ cl → b ≠ cg → mm[b]? = m[b]?
  lenc : mm[cl]? = some { lb with slots := [.int (res.length : Int)] }
  arr : (res = [] ∧ mm[cg]? = some { gb with slots := [.null] }) ∨
    (res ≠ [] ∧ ∃ a, m.length ≤ a ∧ mm[cg]? = some { gb with slots := [.ptr a 0] } ∧
      mm[a]? = some { cells := [], slots := res.map (fun e => Val.ptr e.1 0) ++ [.null] })
  strs : ∀ e, e ∈ res → m.length ≤ e.1 ∧ mm.cstr e.1 0 = .ok e.2

theorem GgOut.cl_lt {m cl cg lb gb mm res} (h : GgOut m cl cg lb gb mm res) : cl < mm.length := (List.getElem?_eq_some_iff.1 h.lenc).1

/-- a memory that keeps every block -/
theorem GgOut.grow {m cl cg lb gb mm res} (h : GgOut m cl cg lb gb mm res) {mm' : Mem} (hm : ∀ b, b < mm.length → mm'[b]? = mm[b]?)
    (hl : mm.length ≤ mm'.length) : GgOut m cl cg lb gb mm' res := by
  refine ⟨Nat.le_trans h.len hl, fun b hb h1 h2 => ?_, by rw [hm cl h.cl_lt]; exact h.lenc, ?_, fun e he => ?_⟩
  · rw [hm b (Nat.lt_of_lt_of_le hb h.len)]; exact h.frame b hb h1 h2
  · rcases h.arr with ⟨h1, h2⟩ | ⟨h1, a, h2, h3, h4⟩
    · exact Or.inl ⟨h1, by rw [hm cg (List.getElem?_eq_some_iff.1 h2).1]; exact h2⟩
    · exact Or.inr ⟨h1, a, h2, by rw [hm cg (List.getElem?_eq_some_iff.1 h3).1]; exact h3, by rw [hm a (List.getElem?_eq_some_iff.1 h4).1]; exact h4⟩
  · obtain ⟨h1, h2⟩ := h.strs e he
    exact ⟨h1, by rw [cstr_congr (hm e.1 (cstr_lt h2))]; exact h2⟩

/-- a block without character cells holds no string -/
theorem cstr_words {mm : Mem} {a : Nat} {sl : List Val} {lv wr : Bool} {s : List UInt8} (ha : mm[a]? = some { cells := [], live := lv, writable := wr, slots := sl }) :
    mm.cstr a 0 ≠ .ok s := by
  cases lv <;> simp [Mem.cstr, Mem.block, ha, cstrFrom, bind, Except.bind]

/-- the group list of the caller, seen from a memory that keeps the caller's blocks other than the two cells -/
theorem gg_glmem {m mm : Mem} {bk bl cl cg : Nat} {gl : List (Nat × List UInt8)} (h : GlMemA m bk bl gl)
    (hd : cl ≠ bk ∧ cl ≠ bl ∧ cg ≠ bk ∧ cg ≠ bl) (hds : ∀ e, e ∈ gl → e.1 ≠ cl ∧ e.1 ≠ cg)
    (hfr : ∀ b, b < m.length → b ≠ cl → b ≠ cg → mm[b]? = m[b]?) : GlMemA mm bk bl gl := by
  have hG := h.toGlMem
  have := hG.mono_of (m' := mm) (hfr bk hG.bk_lt (Ne.symm hd.1) (Ne.symm hd.2.2.1)) (hfr bl hG.bl_lt (Ne.symm hd.2.1) (Ne.symm hd.2.2.2))
    (fun b str hc ⟨e, he, hb⟩ => by
      subst hb
      exact hfr _ (cstr_lt hc) (hds e he).1 (hds e he).2)
  rcases this with hA | ⟨rfl, rfl, hn⟩
  · exact hA
  · -- the empty list: the array of the original is still there
    obtain ⟨kb, k1, k2, k3, k4⟩ := h.kf
    obtain ⟨nb, n1, n2, n3, n4⟩ := hn
    rw [hfr bl hG.bk_lt (Ne.symm hd.1) (Ne.symm hd.2.2.1), k1] at n1
    injection n1 with n1; subst n1
    rw [k3] at n3; simp at n3

/-- `kf->groups[i]` -/
theorem gg_name {mm : Mem} {bk bl : Nat} {gl : List (Nat × List UInt8)} (hA : GlMemA mm bk bl gl) (i : Nat) (hi : i < gl.length) (a1 a2 : Val) :
    evalE ggName { mem := mm, loc := [.ptr bk 0, a1, a2, .int (i : Int)] } = .ok (.ptr (gl[i]).1 0, { mem := mm, loc := [.ptr bk 0, a1, a2, .int (i : Int)] }) ∧
      mm.cstr (gl[i]).1 0 = .ok (gl[i]).2 := by
  have harr := hA.arrp
  obtain ⟨l1, c1⟩ := hA.elem i hi
  have hsx := hA.sidx i (Nat.le_of_lt hi)
  refine ⟨?_, c1⟩
  simp [ggName, evalE, evalL, readPlace, harr, hsx, l1, bind, Except.bind]

theorem NONE_nz : (0 : UInt8) ∉ Econf.NONE := by decide

/-- the test of the `if`: a read-only block for the literal is added, the answer is whether the name differs from `_none_` -/
theorem gg_cond {mm : Mem} {bk bl : Nat} {gl : List (Nat × List UInt8)} (hA : GlMemA mm bk bl gl) (i : Nat) (hi : i < gl.length) (a1 a2 : Val) :
    testOf (some ggCond) { mem := mm, loc := [.ptr bk 0, a1, a2, .int (i : Int)] } =
      .ok ((gl[i]).2 != Econf.NONE, { mem := mm ++ [{ cells := (Econf.NONE ++ [0]).map some, writable := false }], loc := [.ptr bk 0, a1, a2, .int (i : Int)] }) := by
  obtain ⟨hn, c1⟩ := gg_name hA i hi a1 a2
  have hlit := lit_cstr mm Econf.NONE NONE_nz
  have hblt : (gl[i]).1 < mm.length := cstr_lt c1
  have c1' : (mm ++ [({ cells := (Econf.NONE ++ [0]).map some, writable := false } : Block)]).cstr (gl[i]).1 0 = .ok (gl[i]).2 := by
    rw [cstr_congr (List.getElem?_append_left hblt)]; exact c1
  have z1 := cstr_nz c1
  have hN : ([95, 110, 111, 110, 101, 95] : List UInt8) = Econf.NONE := rfl
  by_cases e1 : (gl[i]).2 = Econf.NONE
  · have q1 : cmpBytes (gl[i]).2 Econf.NONE = 0 := (cmpBytes_eq_zero _ _ z1 NONE_nz).2 e1
    have hb : ((gl[i]).2 != Econf.NONE) = false := by simp [e1]
    rw [hb]
    simp only [ggCond, testOf, evalE, evalArgs, hn, bind, Except.bind, hN]
    simp only [builtin, c1', hlit, bind, Except.bind, q1, truth]
    simp
  · have q1 : cmpBytes (gl[i]).2 Econf.NONE ≠ 0 := fun hq => e1 ((cmpBytes_eq_zero _ _ z1 NONE_nz).1 hq)
    have hb : ((gl[i]).2 != Econf.NONE) = true := by simp [e1]
    rw [hb]
    simp only [ggCond, testOf, evalE, evalArgs, hn, bind, Except.bind, hN]
    simp only [builtin, c1', hlit, bind, Except.bind, truth]
    simp [q1]

theorem keptNames_take_succ (gl : List (Nat × List UInt8)) (i : Nat) (hi : i < gl.length) :
    keptNames (gl.take (i + 1)) = keptNames (gl.take i) ++ (if (gl[i]).2 != Econf.NONE then [(gl[i]).2] else []) := by
  rw [List.take_succ_eq_append_getElem hi]
  unfold keptNames
  rw [List.map_append, List.filter_append]
  by_cases h : ((gl[i]).2 != Econf.NONE) = true <;> simp [List.filter, h]

/-- one round of the loop that keeps its name -/
theorem gg_round_keep (fuel : Nat) {m mm : Mem} {bk bl cl cg : Nat} {gl : List (Nat × List UInt8)} {lb gb : Block} {res : List (Nat × List UInt8)}
    (h : GlMemA m bk bl gl) (hl1 : lb.live = true) (hl2 : lb.writable = true) (hg1 : gb.live = true) (hg2 : gb.writable = true)
    (hclt : cl < m.length) (hcgt : cg < m.length)
    (hne : cl ≠ cg) (hd : cl ≠ bk ∧ cl ≠ bl ∧ cg ≠ bk ∧ cg ≠ bl) (hds : ∀ e, e ∈ gl → e.1 ≠ cl ∧ e.1 ≠ cg)
    (hO : GgOut m cl cg lb gb mm res) (i : Nat) (hi : i < gl.length) (hk : (res.length : Int) + 2 < 18446744073709551616) :
    ∃ m', exec fuel ggKeep { mem := mm, loc := [.ptr bk 0, .ptr cl 0, .ptr cg 0, .int (i : Int)] } =
        .normal { mem := m', loc := [.ptr bk 0, .ptr cl 0, .ptr cg 0, .int (i : Int)] } ∧
      GgOut m cl cg lb gb m' (res ++ [(mm.length + 1, (gl[i]).2)]) := by
  obtain ⟨v, hcg, hv, hva⟩ : ∃ v, mm[cg]? = some { gb with slots := [v] } ∧
      ((v = .null ∧ res.length = 0 ∧ res.map (fun e => Val.ptr e.1 0) = []) ∨
        (∃ a ab, v = .ptr a 0 ∧ mm[a]? = some ab ∧ ab.live = true ∧ ab.slots = res.map (fun e => Val.ptr e.1 0) ++ [.null] ∧
          (res.map (fun e => Val.ptr e.1 0)).length = res.length ∧ a ≠ cl ∧ a ≠ cg)) ∧
      (∀ a, v = .ptr a 0 → m.length ≤ a ∧ ∃ sl, mm[a]? = some { cells := [], slots := sl }) := by
    rcases hO.arr with ⟨h1, h2⟩ | ⟨h1, a, h2, h3, h4⟩
    · exact ⟨.null, h2, Or.inl ⟨rfl, by simp [h1], by simp [h1]⟩, fun a ha => by simp at ha⟩
    · refine ⟨.ptr a 0, h3, Or.inr ⟨a, _, rfl, h4, rfl, rfl, by simp, by omega, by omega⟩, fun a' ha' => ?_⟩
      injection ha' with ha'; subst ha'
      exact ⟨h2, _, h4⟩
  have hfrm : ∀ mm' : Mem, (∀ b, b < mm.length → b ≠ cl → b ≠ cg → (∀ a, v = .ptr a 0 → b ≠ a) → mm'[b]? = mm[b]?) →
      ∀ b, b < m.length → b ≠ cl → b ≠ cg → mm'[b]? = m[b]? := by
    intro mm' hfr b hb h1 h2
    rw [hfr b (Nat.lt_of_lt_of_le hb hO.len) h1 h2 (fun a ha => by have := (hva a ha).1; omega)]
    exact hO.frame b hb h1 h2
  obtain ⟨m', hex, hlen, hcl', hcg', hL', hnew, hfr'⟩ := gg_keep fuel mm cl cg (gl[i]).1 lb gb res.length v (res.map (fun e => Val.ptr e.1 0))
    (.ptr bk 0) (.int (i : Int)) (gl[i]).2 hl1 hl2 hg1 hg2 hO.lenc hcg hne hv hk
    (fun mm' hfr => gg_name (gg_glmem h hd hds (hfrm mm' hfr)) i hi _ _)
  refine ⟨m', hex, ⟨by have := hO.len; omega, hfrm m' hfr', by simpa using hcl', Or.inr ⟨by simp, mm.length, hO.len, hcg', by simpa using hL'⟩, fun e he => ?_⟩⟩
  rcases List.mem_append.1 he with he | he
  · obtain ⟨s1, s2⟩ := hO.strs e he
    refine ⟨s1, ?_⟩
    rw [cstr_congr (hfr' e.1 (cstr_lt s2) (by omega) (by omega) (fun a ha heq => ?_))]
    · exact s2
    · obtain ⟨_, sl, hsl⟩ := hva a ha
      rw [heq] at s2
      exact cstr_words hsl s2
  · simp at he
    subst he
    exact ⟨by have := hO.len; simp; omega, hnew⟩

/-- `econf_getGroups` on an object with groups: success; the caller finds the names other than `_none_` as described by `GgOut` -/
theorem C_econf_getGroups (m : Mem) (bk bl cl cg : Nat) (gl : List (Nat × List UInt8)) (lb gb : Block) (v3 : Val)
    (h : GlMemA m bk bl gl) (hgl : gl ≠ [])
    (hcl : m[cl]? = some lb) (hl1 : lb.live = true) (hl2 : lb.writable = true) (hl3 : lb.slots.length = 1)
    (hcg : m[cg]? = some gb) (hg1 : gb.live = true) (hg2 : gb.writable = true) (hg3 : gb.slots.length = 1)
    (hne : cl ≠ cg) (hd : cl ≠ bk ∧ cl ≠ bl ∧ cg ≠ bk ∧ cg ≠ bl) (hds : ∀ e, e ∈ gl → e.1 ≠ cl ∧ e.1 ≠ cg)
    (hsmall : (gl.length : Int) + 1 < 2147483648) (fuel : Nat) (hf : gl.length + 1 < fuel) :
    ∃ m' loc' res, exec fuel LeafFns.econf_getGroups.body { mem := m, loc := [.ptr bk 0, .ptr cl 0, .ptr cg 0, v3] } =
        .ret (.int 0) { mem := m', loc := loc' } ∧
      res.map (·.2) = keptNames gl ∧ GgOut m cl cg lb gb m' res := by
  have hclt : cl < m.length := (List.getElem?_eq_some_iff.1 hcl).1
  have hcgt : cg < m.length := (List.getElem?_eq_some_iff.1 hcg).1
  have hpos : 0 < gl.length := List.length_pos_iff.2 hgl
  have hcnt : m.loadSlot bk 14 = .ok (.int gl.length) := h.toGlMem.count
  rw [econf_getGroups_shape, exec_seq_normal (gg_argcheck fuel m bk cg _ _)]
  have hc2 : exec fuel ggCountCheck { mem := m, loc := [.ptr bk 0, .ptr cl 0, .ptr cg 0, v3] } = .normal { mem := m, loc := [.ptr bk 0, .ptr cl 0, .ptr cg 0, v3] } := by
    have hn : ¬ ((gl.length : Int) ≤ 0) := by omega
    have ht : testOf (some (.bin .le (.load (.slot (.load (.var 0) .ptr) 14) .i32) (.lit 0 .i32) .i32)) { mem := m, loc := [.ptr bk 0, .ptr cl 0, .ptr cg 0, v3] } =
        .ok (false, { mem := m, loc := [.ptr bk 0, .ptr cl 0, .ptr cg 0, v3] }) := by
      simp [testOf, evalE, evalL, readPlace, hcnt, binop, cmpInt, truth, boolVal, hn, hgl, bind, Except.bind, Except.map]
    unfold ggCountCheck; rw [exec_ite_false ht]; simp [exec]
  rw [exec_seq_normal hc2]
  -- *groups = NULL; *length = 0; i = 0
  let m1 : Mem := m.set cg { gb with slots := [.null] }
  let m2 : Mem := m1.set cl { lb with slots := [.int 0] }
  have hS1 : exec fuel (.expr (.assign (.slot (.load (.var 2) .ptr) 0) .null .ptr)) { mem := m, loc := [.ptr bk 0, .ptr cl 0, .ptr cg 0, v3] } =
      .normal { mem := m1, loc := [.ptr bk 0, .ptr cl 0, .ptr cg 0, v3] } := by
    have hst : m.storeSlot cg 0 .null = .ok m1 := by
      have := storeSlot_of (m := m) (b := cg) (i := 0) .null hcg hg1 hg2 (by omega)
      obtain ⟨w, hw⟩ : ∃ w, gb.slots = [w] := by
        match hs : gb.slots, hg3 with
        | [w], _ => exact ⟨w, rfl⟩
      simpa [m1, hw] using this
    simp [exec, evalE, evalL, readPlace, writePlace, convert, hst, bind, Except.bind, Except.map]
  have hm1cl : m1[cl]? = some lb := by simp only [m1]; rw [set_other hne]; exact hcl
  have w0 : wrapTo .u64 0 = 0 := wrapTo_u64_small 0 (by omega) (by omega)
  have hS2 : exec fuel (.expr (.assign (.slot (.load (.var 1) .ptr) 0) (.cast .u64 (.lit 0 .i32)) .u64)) { mem := m1, loc := [.ptr bk 0, .ptr cl 0, .ptr cg 0, v3] } =
      .normal { mem := m2, loc := [.ptr bk 0, .ptr cl 0, .ptr cg 0, v3] } := by
    have hst : m1.storeSlot cl 0 (.int 0) = .ok m2 := by
      have := storeSlot_of (m := m1) (b := cl) (i := 0) (.int 0) hm1cl hl1 hl2 (by omega)
      obtain ⟨w, hw⟩ : ∃ w, lb.slots = [w] := by
        match hs : lb.slots, hl3 with
        | [w], _ => exact ⟨w, rfl⟩
      simpa [m2, hw] using this
    simp [exec, evalE, evalL, readPlace, writePlace, convert, w0, hst, bind, Except.bind, Except.map]
  have w032 : wrapTo .i32 0 = 0 := wrapTo_i32 0 (by omega) (by omega)
  have hS3 : exec fuel (.expr (.assign (.var 3) (.lit 0 .i32) .i32)) { mem := m2, loc := [.ptr bk 0, .ptr cl 0, .ptr cg 0, v3] } =
      .normal { mem := m2, loc := [.ptr bk 0, .ptr cl 0, .ptr cg 0, .int ((0 : Nat) : Int)] } := by
    simp [exec, evalE, evalL, writePlace, convert, w032, bind, Except.bind]
  rw [exec_seq_normal hS1, exec_seq_normal hS2, exec_seq_normal hS3]
  have hO0 : GgOut m cl cg lb gb m2 [] := by
    refine ⟨by simp [m2, m1], fun b hb h1 h2 => ?_, ?_, Or.inl ⟨rfl, ?_⟩, fun e he => by simp at he⟩
    · simp only [m2, m1]; rw [set_other h1, set_other h2]
    · have : cl < m1.length := by simp [m1]; exact hclt
      simp only [m2]; rw [List.getElem?_set_self this]; simp
    · simp only [m2]; rw [set_other (Ne.symm hne)]
      simp only [m1]; rw [List.getElem?_set_self hcgt]
  -- the loop
  let Inv : Nat → St → Prop := fun i st => st.loc = [.ptr bk 0, .ptr cl 0, .ptr cg 0, .int (i : Int)] ∧
    ∃ res, res.map (·.2) = keptNames (gl.take i) ∧ GgOut m cl cg lb gb st.mem res
  have hloop := loop_inv (testOf (some ggTest)) (exec fuel ggBody) (stepOf (some ggInc)) (fun R => Inv gl.length R) gl.length Inv
    (by
      intro i st hi ⟨hloc, res, hres, hO⟩
      obtain ⟨mm, loc⟩ := st
      simp only at hloc hO
      subst hloc
      have hA : GlMemA mm bk bl gl := gg_glmem h hd hds hO.frame
      have hcnt' : mm.loadSlot bk 14 = .ok (.int gl.length) := hA.toGlMem.count
      have hlt : (i : Int) < (gl.length : Int) := by omega
      have ht : testOf (some ggTest) { mem := mm, loc := [.ptr bk 0, .ptr cl 0, .ptr cg 0, .int (i : Int)] } =
          .ok (true, { mem := mm, loc := [.ptr bk 0, .ptr cl 0, .ptr cg 0, .int (i : Int)] }) := by
        simp [ggTest, testOf, evalE, evalL, readPlace, hcnt', binop, cmpInt, boolVal, truth, hlt, bind, Except.bind]
      have hc := gg_cond hA i hi (.ptr cl 0) (.ptr cg 0)
      have hstep : ∀ mq : Mem, stepOf (some ggInc) { mem := mq, loc := [.ptr bk 0, .ptr cl 0, .ptr cg 0, .int (i : Int)] } =
          .ok { mem := mq, loc := [.ptr bk 0, .ptr cl 0, .ptr cg 0, .int ((i + 1 : Nat) : Int)] } := by
        intro mq
        have := incdec_i32_var3 mq (.ptr bk 0) (.ptr cl 0) (.ptr cg 0) (i : Int) (by omega) (by omega)
        exact stepOf_some _ _ _ _ (by simpa [ggInc] using this)
      let lit : Block := { cells := (Econf.NONE ++ [0]).map some, writable := false }
      have hO1 : GgOut m cl cg lb gb (mm ++ [lit]) res := hO.grow (fun b hb => List.getElem?_append_left hb) (by simp)
      have hkn := keptNames_take_succ gl i hi
      have hreslen : res.length ≤ gl.length := by
        have : res.length = (keptNames (gl.take i)).length := by rw [← hres]; simp
        rw [this]; unfold keptNames
        exact Nat.le_trans (List.length_filter_le _ _) (by simp; omega)
      by_cases hkeep : ((gl[i]).2 != Econf.NONE) = true
      · rw [hkeep] at hc
        obtain ⟨m', hex, hO'⟩ := gg_round_keep fuel h hl1 hl2 hg1 hg2 hclt hcgt hne hd hds hO1 i hi (by omega)
        refine ⟨_, _, _, ht, Or.inl (by unfold ggBody; rw [exec_ite_true hc]; exact hex), hstep m', rfl, _, ?_, hO'⟩
        rw [hkn, List.map_append, hres]; simp [hkeep]
      · have hkeep' : ((gl[i]).2 != Econf.NONE) = false := by simpa using hkeep
        rw [hkeep'] at hc
        refine ⟨_, _, _, ht, Or.inl (by unfold ggBody; rw [exec_ite_false hc]; simp [exec, lit]), hstep _, rfl, res, ?_, hO1⟩
        rw [hkn, hres]; simp [hkeep'])
    (by
      intro st ⟨hloc, res, hres, hO⟩
      obtain ⟨mm, loc⟩ := st
      simp only at hloc hO
      subst hloc
      have hA : GlMemA mm bk bl gl := gg_glmem h hd hds hO.frame
      have hcnt' : mm.loadSlot bk 14 = .ok (.int gl.length) := hA.toGlMem.count
      have hlt : ¬ ((gl.length : Int) < (gl.length : Int)) := by omega
      refine ⟨{ mem := mm, loc := [.ptr bk 0, .ptr cl 0, .ptr cg 0, .int (gl.length : Int)] }, ?_, rfl, res, hres, hO⟩
      simp [ggTest, testOf, evalE, evalL, readPlace, hcnt', binop, cmpInt, boolVal, truth, hlt, bind, Except.bind])
    { mem := m2, loc := [.ptr bk 0, .ptr cl 0, .ptr cg 0, .int ((0 : Nat) : Int)] } fuel
    ⟨rfl, [], by simp [keptNames], hO0⟩ (by omega)
  obtain ⟨R, hl, hlocR, res, hres, hOR⟩ := hloop
  have hl' : exec fuel ggLoop { mem := m2, loc := [.ptr bk 0, .ptr cl 0, .ptr cg 0, .int ((0 : Nat) : Int)] } = .normal R := by
    unfold ggLoop; rw [exec_for]; exact hl
  rw [exec_seq_normal hl']
  have w0' : wrapTo .u32 0 = 0 := wrapTo_u32_small 0 (by omega) (by omega)
  refine ⟨R.mem, R.loc, res, by simp [exec, evalE, convert, w0', bind, Except.bind], by rw [hres, List.take_length], hOR⟩

/-- the connection to the list-level model: for an object whose group list is the list of names, `Econf.getGroups` returns exactly the names the C function
    delivers (`keptNames`), and ECONF_NOGROUP for the empty list -/
theorem getGroups_model (kf : Econf.KeyFile) (gl : List (Nat × List UInt8)) (hk : kf.groups = gl.map (·.2)) :
    Econf.getGroups kf = if gl = [] then .error .nogroup else .ok (keptNames gl) := by
  unfold Econf.getGroups keptNames
  rw [hk]
  cases gl <;> simp

/-- what the caller reads off `GgOut`: the number in the length cell; for at least one name the array and, behind its i-th word, the i-th name -/
theorem GgOut.read {m cl cg lb gb mm res} (h : GgOut m cl cg lb gb mm res) (hl1 : lb.live = true) (hg1 : gb.live = true) :
    mm.loadSlot cl 0 = .ok (.int (res.length : Int)) ∧
    (res = [] → mm.loadSlot cg 0 = .ok .null) ∧
    (res ≠ [] → ∃ a, m.length ≤ a ∧ mm.loadSlot cg 0 = .ok (.ptr a 0) ∧ mm.loadSlot a (res.length : Int) = .ok .null ∧
      ∀ i (hi : i < res.length), mm.loadSlot a (i : Int) = .ok (.ptr (res[i]).1 0) ∧ m.length ≤ (res[i]).1 ∧ mm.cstr (res[i]).1 0 = .ok (res[i]).2) := by
  refine ⟨by simpa using loadSlot_of (i := 0) h.lenc (by simpa using hl1) (by simp) (by simp), fun hr => ?_, fun hr => ?_⟩
  · rcases h.arr with ⟨_, h2⟩ | ⟨h1, _⟩
    · simpa using loadSlot_of (i := 0) (v := .null) h2 (by simpa using hg1) (by simp) (by simp)
    · exact absurd hr h1
  · rcases h.arr with ⟨h1, _⟩ | ⟨_, a, h2, h3, h4⟩
    · exact absurd h1 hr
    · refine ⟨a, h2, by simpa using loadSlot_of (i := 0) (v := .ptr a 0) h3 (by simpa using hg1) (by simp) (by simp), ?_, fun i hi => ?_⟩
      · exact loadSlot_of (i := res.length) h4 rfl (by rw [List.getElem?_append_right (by simp)]; simp) (by simp)
      · obtain ⟨s1, s2⟩ := h.strs (res[i]) (List.getElem_mem hi)
        exact ⟨loadSlot_of (i := i) h4 rfl (by rw [List.getElem?_append_left (by simpa using hi)]; simp [hi]) (by simp), s1, s2⟩

/-- `C_econf_getGroups` against the list-level model: the C function succeeds and delivers what `Econf.getGroups` returns for the object
    with these group names -/
theorem C_econf_getGroups_model (kf : Econf.KeyFile) (m : Mem) (bk bl cl cg : Nat) (gl : List (Nat × List UInt8)) (lb gb : Block) (v3 : Val)
    (hkf : kf.groups = gl.map (·.2))
    (h : GlMemA m bk bl gl) (hgl : gl ≠ [])
    (hcl : m[cl]? = some lb) (hl1 : lb.live = true) (hl2 : lb.writable = true) (hl3 : lb.slots.length = 1)
    (hcg : m[cg]? = some gb) (hg1 : gb.live = true) (hg2 : gb.writable = true) (hg3 : gb.slots.length = 1)
    (hne : cl ≠ cg) (hd : cl ≠ bk ∧ cl ≠ bl ∧ cg ≠ bk ∧ cg ≠ bl) (hds : ∀ e, e ∈ gl → e.1 ≠ cl ∧ e.1 ≠ cg)
    (hsmall : (gl.length : Int) + 1 < 2147483648) (fuel : Nat) (hf : gl.length + 1 < fuel) :
    ∃ m' loc' res, exec fuel LeafFns.econf_getGroups.body { mem := m, loc := [.ptr bk 0, .ptr cl 0, .ptr cg 0, v3] } =
        .ret (.int 0) { mem := m', loc := loc' } ∧
      Econf.getGroups kf = .ok (res.map (·.2)) ∧ GgOut m cl cg lb gb m' res := by
  obtain ⟨m', loc', res, hex, hres, hO⟩ := C_econf_getGroups m bk bl cl cg gl lb gb v3 h hgl hcl hl1 hl2 hl3 hcg hg1 hg2 hg3 hne hd hds hsmall fuel hf
  refine ⟨m', loc', res, hex, ?_, hO⟩
  rw [getGroups_model kf gl hkf, hres]; simp [hgl]

end LeafKf

namespace LeafKf.Example

/-! A concrete caller's memory that meets every hypothesis of `C_econf_getGroups`: an object with the groups `_none_`, `A`, `B` and two
    uninitialised variables `size_t length; char **groups;`. -/

def ggMem : Mem := [
  /- 0, 1, 2 the names -/ strBlock Econf.NONE, strBlock [65], strBlock [66],
  /- 3 the group array -/ { cells := [], slots := [.ptr 0 0, .ptr 1 0, .ptr 2 0, .null] },
  /- 4 the object -/ { cells := [], slots := [.null, .int 0, .int 0, .int 61, .int 35, .int 0, .null, .int 0, .int 0, .null, .int 0, .null, .int 0, .ptr 3 0, .int 3, .null] },
  /- 5 `length` -/ { cells := [], slots := [.undef] },
  /- 6 `groups` -/ { cells := [], slots := [.undef] }]

def ggGl : List (Nat × List UInt8) := [(0, Econf.NONE), (1, [65]), (2, [66])]

theorem gg_ok : GlMemA ggMem 4 3 ggGl :=
  ⟨⟨_, rfl, rfl, rfl, rfl⟩, ⟨_, rfl, rfl, rfl, fun i hi => by
    have : i = 0 ∨ i = 1 ∨ i = 2 := by simp [ggGl] at hi; omega
    rcases this with rfl | rfl | rfl <;> exact ⟨rfl, by simp only [ggGl, List.getElem_cons_zero, List.getElem_cons_succ]; rfl⟩⟩⟩

/-- the call `econf_getGroups(kf, &length, &groups)` in that memory: success, two names `A` and `B` in fresh blocks behind a fresh array -/
theorem run_getGroups : ∃ m' loc' res,
    exec 10 LeafFns.econf_getGroups.body { mem := ggMem, loc := [.ptr 4 0, .ptr 5 0, .ptr 6 0, .undef] } = .ret (.int 0) { mem := m', loc := loc' } ∧
    res.map (·.2) = [[65], [66]] ∧ GgOut ggMem 5 6 { cells := [], slots := [.undef] } { cells := [], slots := [.undef] } m' res ∧
    m'.loadSlot 5 0 = .ok (.int 2) := by
  obtain ⟨m', loc', res, hex, hres, hO⟩ := C_econf_getGroups ggMem 4 3 5 6 ggGl _ _ .undef gg_ok (by decide) rfl rfl rfl rfl rfl rfl rfl rfl
    (by decide) (by decide) (fun e he => by simp [ggGl] at he; rcases he with rfl | rfl | rfl <;> decide) (by decide) 10 (by decide)
  have hk : keptNames ggGl = [[65], [66]] := by decide
  rw [hk] at hres
  have hlen : res.length = 2 := by
    have := congrArg List.length hres
    simpa using this
  refine ⟨m', loc', res, hex, hres, hO, ?_⟩
  have := (hO.read rfl rfl).1
  rw [hlen] at this
  exact this

end LeafKf.Example
