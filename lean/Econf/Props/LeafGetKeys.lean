import Econf.Props.LeafGetters
import Econf.Props.LeafMergeEx

/-!
  # `econf_getKeys` (lib/libeconf.c) on the generated term

  The translator turned `calloc(n, sizeof(bool))` and `calloc(n + 1, sizeof(char *))` into an allocation followed by a zeroing loop, so
  the body has four loops: zero the flags, mark and count the entries of the group, zero the key array, copy the keys.
-/
open MiniC Leaf LeafKf
set_option linter.unusedSimpArgs false
set_option linter.unusedVariables false
namespace LeafKf

def gkU64_0 : Expr := .cast .u64 (.lit 0 .i32)
def gkInc (v : Nat) : Expr := .incdec (.var v) true true .u64
def gkKfLen : Expr := .load (.slot (.load (.var 0) .ptr) 1) .u64
def gkKeysArr : Expr := .load (.slot (.load (.var 3) .ptr) 0) .ptr
def gkFlag (vi : Nat) : LVal := .deref (.bin .add (.load (.var 6) .ptr) (.load (.var vi) .u64) .ptr)
def gkFree (v : Nat) : Stmt := .expr (.call "free" (.cons (.load (.var v) .ptr) .nil))
def gkRet (c : Int) : Stmt := .ret (some (.cast .u32 (.lit c .i32)))
/-- `if (length) *length = e` -/
def gkSetLen (e : Expr) : Stmt := .ite (.bin .ne (.load (.var 2) .ptr) .null .i32) (.expr (.assign (.slot (.load (.var 2) .ptr) 0) e .u64)) .skip
def gkGrp : Expr := .cond (.lor (.un .lnot (.load (.var 1) .ptr) .i32) (.un .lnot (.load (.deref (.load (.var 1) .ptr)) .i8) .i32))
  (.call "strdup" (.cons (.strlit [95, 110, 111, 110, 101, 95]) .nil)) (.call "strdup" (.cons (.load (.var 1) .ptr) .nil))
/-- the zeroing loop of `calloc(n, sizeof(bool))`: pointer in variable `vp`, counter `vi`, bound `vn` -/
def zbTest (vi vn : Nat) : Expr := .bin .lt (.load (.var vi) .u64) (.load (.var vn) .u64) .i32
def zbBody (vp vi : Nat) : Stmt := .expr (.assign (.deref (.bin .add (.load (.var vp) .ptr) (.load (.var vi) .u64) .ptr)) (.cast .bool (.lit 0 .i32)) .bool)
def zbLoop (vp vi vn : Nat) : Stmt := .for (some (zbTest vi vn)) (some (gkInc vi)) (zbBody vp vi)
/-- the zeroing loop of `calloc(n, sizeof(char *))`: the array is `*vk`, counter `vi`, bound `vn` -/
def zwBody (vk vi : Nat) : Stmt := .expr (.assign (.slot (.sidx (.load (.slot (.load (.var vk) .ptr) 0) .ptr) (.load (.var vi) .u64) 1) 0) .null .ptr)
def zwLoop (vk vi vn : Nat) : Stmt := .for (some (zbTest vi vn)) (some (gkInc vi)) (zwBody vk vi)
/-- the marking loop -/
def gkKfTest (vi : Nat) : Expr := .bin .lt (.load (.var vi) .u64) gkKfLen .i32
def gkMatch : Expr := .un .lnot (.call "strcmp" (.cons (.load (.slot (.sidx (.load (.slot (.load (.var 0) .ptr) 0) .ptr) (.load (.var 9) .u64) 7) 0) .ptr) (.cons (.load (.var 5) .ptr) .nil))) .i32
def gkMark : Stmt := .seq (.expr (.assign (gkFlag 9) (.cast .bool (.lit 1 .i32)) .bool)) (.expr (gkInc 4))
def gkMarkBody : Stmt := .ite gkMatch gkMark .skip
def gkMarkLoop : Stmt := .for (some (gkKfTest 9)) (some (gkInc 9)) gkMarkBody
/-- the copying loop -/
def gkCopy : Stmt := .expr (.assign (.slot (.sidx gkKeysArr (gkInc 13) 1) 0)
  (.call "strdup" (.cons (.load (.slot (.sidx (.load (.slot (.load (.var 0) .ptr) 0) .ptr) (.load (.var 12) .u64) 7) 1) .ptr) .nil)) .ptr)
def gkCopyBody : Stmt := .ite (.load (gkFlag 12) .bool) gkCopy .skip
def gkCopyLoop : Stmt := .for (some (gkKfTest 12)) (some (gkInc 12)) gkCopyBody
/-- everything behind `free(group)` -/
def gkTail : Stmt :=
  .seq (.ite (.un .lnot (.load (.var 4) .u64) .i32) (.seq (gkFree 6) (gkRet 5)) .skip)
    (.seq (.expr (.assign (.var 10) (.bin .add (.load (.var 4) .u64) (.cast .u64 (.lit 1 .i32)) .u64) .u64))
      (.seq (.expr (.assign (.slot (.load (.var 3) .ptr) 0) (.call "malloc_words" (.cons (.bin .mul (.load (.var 10) .u64) (.lit 1 .u64) .u64) .nil)) .ptr))
        (.seq (.expr (.assign (.var 11) gkU64_0 .u64))
          (.seq (zwLoop 3 11 10)
            (.seq (.ite (.bin .eq gkKeysArr .null .i32) (.seq (gkFree 6) (gkRet 2)) .skip)
              (.seq (.expr (.assign (.var 12) gkU64_0 .u64))
                (.seq (.expr (.assign (.var 13) gkU64_0 .u64))
                  (.seq gkCopyLoop
                    (.seq (gkSetLen (.load (.var 4) .u64))
                      (.seq (gkFree 6) (gkRet 0)))))))))))

/-- the shape of the generated term (checked by `rfl` against what the translator produced on this run) -/
theorem econf_getKeys_shape : LeafFns.econf_getKeys.body =
    .seq (gkSetLen gkU64_0)
      (.seq (.ite (.un .lnot (.load (.var 0) .ptr) .i32) (gkRet 1) .skip)
        (.seq (.expr (.assign (.var 4) gkU64_0 .u64))
          (.seq (.expr (.assign (.var 5) gkGrp .ptr))
            (.seq (.ite (.bin .eq (.load (.var 5) .ptr) .null .i32) (gkRet 2) .skip)
              (.seq (.expr (.assign (.var 7) gkKfLen .u64))
                (.seq (.expr (.assign (.var 6) (.call "malloc" (.cons (.bin .mul (.load (.var 7) .u64) (.lit 1 .u64) .u64) .nil)) .ptr))
                  (.seq (.expr (.assign (.var 8) gkU64_0 .u64))
                    (.seq (zbLoop 6 8 7)
                      (.seq (.ite (.bin .eq (.load (.var 6) .ptr) .null .i32) (.seq (gkFree 5) (gkRet 2)) .skip)
                        (.seq (.expr (.assign (.var 9) gkU64_0 .u64))
                          (.seq gkMarkLoop
                            (.seq (gkFree 5) gkTail)))))))))))) := rfl

theorem getElem?_set_ne' {α} (l : List α) (i j : Nat) (a : α) (h : i ≠ j) : (l.set i a)[j]? = l[j]? := by
  simp [List.getElem?_set, h]

/-- `i < n` on two `size_t` variables -/
theorem zb_test (vi vn : Nat) (mm : Mem) (loc : List Val) (i n : Nat) (hi : loc[vi]? = some (.int (i : Int))) (hn : loc[vn]? = some (.int (n : Int))) :
    testOf (some (zbTest vi vn)) { mem := mm, loc := loc } = .ok (decide (i < n), { mem := mm, loc := loc }) := by
  by_cases h : i < n
  · have : (i : Int) < (n : Int) := by omega
    simp [zbTest, testOf, evalE, evalL, readPlace, hi, hn, binop, cmpInt, boolVal, truth, this, h, bind, Except.bind]
  · have : ¬ (i : Int) < (n : Int) := by omega
    simp [zbTest, testOf, evalE, evalL, readPlace, hi, hn, binop, cmpInt, boolVal, truth, this, h, bind, Except.bind]

theorem ptrAdd_cells {m : Mem} {b : Nat} {blk : Block} (i : Nat) (h1 : m[b]? = some blk) (h2 : blk.live = true) (hi : i ≤ blk.cells.length) :
    ptrAdd m b 0 (i : Int) = .ok (.ptr b (i : Int)) := by
  have : (0 : Int) ≤ (i : Int) ∧ (i : Int) ≤ (blk.cells.length : Int) := by omega
  simp [ptrAdd, Mem.block, h1, h2, this, bind, Except.bind]

/-- the place `p[i]` for a byte array `p` -/
theorem flag_place (vp vi : Nat) (mm : Mem) (loc : List Val) (ub i : Nat) (blk : Block) (hp : loc[vp]? = some (.ptr ub 0)) (hi : loc[vi]? = some (.int (i : Int)))
    (h1 : mm[ub]? = some blk) (h2 : blk.live = true) (hle : i ≤ blk.cells.length) :
    evalL (.deref (.bin .add (.load (.var vp) .ptr) (.load (.var vi) .u64) .ptr)) { mem := mm, loc := loc } = .ok (.mem ub (i : Int), { mem := mm, loc := loc }) := by
  have := ptrAdd_cells i h1 h2 hle
  simp [evalL, evalE, readPlace, hp, hi, binop, this, bind, Except.bind]

theorem zero_bytes_loop (fuel : Nat) (m : Mem) (loc : List Val) (vp vi vn ub n : Nat)
    (hp : loc[vp]? = some (.ptr ub 0)) (hn : loc[vn]? = some (.int (n : Int))) (hvi : vi < loc.length) (hne1 : vi ≠ vp) (hne2 : vi ≠ vn)
    (hb : MemPart m ub [] n) (hsmall : (n : Int) + 1 < 18446744073709551616) (hf : n < fuel) :
    ∃ m', exec fuel (zbLoop vp vi vn) { mem := m, loc := loc.set vi (.int ((0 : Nat) : Int)) } = .normal { mem := m', loc := loc.set vi (.int (n : Int)) } ∧
      MemBytes m' ub (List.replicate n 0) ∧ m'.length = m.length ∧ ∀ b', b' ≠ ub → m'[b']? = m[b']? := by
  let Inv : Nat → St → Prop := fun i st => st.loc = loc.set vi (.int (i : Int)) ∧ MemPart st.mem ub (List.replicate i 0) (n - i) ∧
    st.mem.length = m.length ∧ ∀ b', b' ≠ ub → st.mem[b']? = m[b']?
  have hloop := loop_inv (testOf (some (zbTest vi vn))) (exec fuel (zbBody vp vi)) (stepOf (some (gkInc vi))) (fun R => Inv n R) n Inv
    (by
      intro i st hi ⟨hloc, hP, hlen, hfr⟩
      obtain ⟨mm, loc'⟩ := st
      simp only at hloc hP hlen hfr
      subst hloc
      have hli : (loc.set vi (.int (i : Int)))[vi]? = some (.int (i : Int)) := by simp [hvi]
      have hln : (loc.set vi (.int (i : Int)))[vn]? = some (.int (n : Int)) := by rw [getElem?_set_ne' _ _ _ _ hne2]; exact hn
      have hlp : (loc.set vi (.int (i : Int)))[vp]? = some (.ptr ub 0) := by rw [getElem?_set_ne' _ _ _ _ hne1]; exact hp
      have ht := zb_test vi vn mm _ i n hli hln
      simp only [hi, decide_true] at ht
      obtain ⟨blk, b1, b2, b3, b4⟩ := hP.blk
      have hP' : MemPart mm ub (List.replicate i 0) ((n - i - 1) + 1) := by
        have : n - i = (n - i - 1) + 1 := by omega
        exact this ▸ hP
      obtain ⟨m1, s1, s2, s3, s4⟩ := hP'.store8 0
      simp only [List.length_replicate] at s1
      have hpl := flag_place vp vi mm _ ub i blk hlp hli b1 b2 (by rw [b4]; simp)
      have hbody : exec fuel (zbBody vp vi) { mem := mm, loc := loc.set vi (.int (i : Int)) } = .normal { mem := m1, loc := loc.set vi (.int (i : Int)) } := by
        have b0 : wrapTo .bool 0 = 0 := by decide
        simp only [zbBody, exec, evalE, hpl, bind, Except.bind, convert, b0]
        simp [writePlace, Ty.bits, b0, s1, Except.map]
      refine ⟨_, _, _, ht, Or.inl hbody, incdec_u64_var vi m1 loc i hvi (by omega), rfl, ?_, by rw [s3, hlen], fun b' hb' => by rw [s4 b' hb', hfr b' hb']⟩
      have e1 : List.replicate i (0 : UInt8) ++ [byteOf 0] = List.replicate (i + 1) 0 := by
        rw [byteOf_zero, List.replicate_succ']
      have e2 : n - i - 1 = n - (i + 1) := by omega
      rw [e1, e2] at s2
      exact s2)
    (by
      intro st ⟨hloc, hP, hlen, hfr⟩
      obtain ⟨mm, loc'⟩ := st
      simp only at hloc hP hlen hfr
      subst hloc
      have hli : (loc.set vi (.int (n : Int)))[vi]? = some (.int (n : Int)) := by simp [hvi]
      have hln : (loc.set vi (.int (n : Int)))[vn]? = some (.int (n : Int)) := by rw [getElem?_set_ne' _ _ _ _ hne2]; exact hn
      have ht := zb_test vi vn mm _ n n hli hln
      simp only [Nat.lt_irrefl, decide_false] at ht
      exact ⟨_, ht, rfl, hP, hlen, hfr⟩)
    { mem := m, loc := loc.set vi (.int ((0 : Nat) : Int)) } fuel
    ⟨rfl, by simpa using hb, rfl, fun _ _ => rfl⟩ hf
  obtain ⟨R, hl, hlocR, hP, hlen, hfr⟩ := hloop
  obtain ⟨mm, loc'⟩ := R
  simp only at hlocR hP hlen hfr
  subst hlocR
  refine ⟨mm, by unfold zbLoop; rw [exec_for]; exact hl, ?_, hlen, hfr⟩
  have : n - n = 0 := by omega
  rw [this] at hP
  exact hP.toBytes

/-- `*vk` for a one-word cell -/
theorem cell_load (vk : Nat) (mm : Mem) (loc : List Val) (ck : Nat) (gb : Block) (v : Val) (hk : loc[vk]? = some (.ptr ck 0))
    (hck : mm[ck]? = some { gb with slots := [v] }) (hg1 : gb.live = true) (hv : v ≠ .undef) :
    evalE (.load (.slot (.load (.var vk) .ptr) 0) .ptr) { mem := mm, loc := loc } = .ok (v, { mem := mm, loc := loc }) := by
  have a2 : mm.loadSlot ck 0 = .ok v := by
    simpa using loadSlot_of (i := 0) (v := v) hck (by simpa using hg1) (by simp) hv
  simp [evalE, evalL, readPlace, hk, a2, bind, Except.bind]

/-- the place `(*vk)[i]` -/
theorem word_place (vk : Nat) (I : Expr) (mm mm' : Mem) (loc loc' : List Val) (ck a i : Nat) (gb : Block) (sl : List Val) (hk : loc[vk]? = some (.ptr ck 0))
    (hck : mm[ck]? = some { gb with slots := [.ptr a 0] }) (hg1 : gb.live = true)
    (hI : evalE I { mem := mm, loc := loc } = .ok (.int (i : Int), { mem := mm', loc := loc' }))
    (ha : mm'[a]? = some { cells := [], slots := sl }) (hi : i ≤ sl.length) :
    evalL (.slot (.sidx (.load (.slot (.load (.var vk) .ptr) 0) .ptr) I 1) 0) { mem := mm, loc := loc } = .ok (.slot a (i : Int), { mem := mm', loc := loc' }) := by
  have hc := cell_load vk mm loc ck gb (.ptr a 0) hk hck hg1 (by simp)
  have hsx : slotAdd mm' a 0 (i : Int) = .ok (.ptr a (i : Int)) := slotAdd_of i ha rfl hi
  generalize (Expr.load (.slot (.load (.var vk) .ptr) 0) .ptr) = E at hc ⊢
  simp only [evalL, evalE, hc, hI, bind, Except.bind]
  simp [hsx]

theorem zero_words_loop (fuel : Nat) (m : Mem) (loc : List Val) (vk vi vn ck a n : Nat) (gb : Block)
    (hk : loc[vk]? = some (.ptr ck 0)) (hn : loc[vn]? = some (.int (n : Int))) (hvi : vi < loc.length) (hne1 : vi ≠ vk) (hne2 : vi ≠ vn)
    (hck : m[ck]? = some { gb with slots := [.ptr a 0] }) (hg1 : gb.live = true)
    (ha : m[a]? = some { cells := [], slots := List.replicate n .undef }) (hane : ck ≠ a)
    (hsmall : (n : Int) + 1 < 18446744073709551616) (hf : n < fuel) :
    ∃ m', exec fuel (zwLoop vk vi vn) { mem := m, loc := loc.set vi (.int ((0 : Nat) : Int)) } = .normal { mem := m', loc := loc.set vi (.int (n : Int)) } ∧
      m'[a]? = some { cells := [], slots := List.replicate n .null } ∧ m'.length = m.length ∧ ∀ b', b' ≠ a → m'[b']? = m[b']? := by
  let Inv : Nat → St → Prop := fun i st => st.loc = loc.set vi (.int (i : Int)) ∧
    st.mem[a]? = some { cells := [], slots := List.replicate i .null ++ List.replicate (n - i) .undef } ∧
    st.mem.length = m.length ∧ ∀ b', b' ≠ a → st.mem[b']? = m[b']?
  have hloop := loop_inv (testOf (some (zbTest vi vn))) (exec fuel (zwBody vk vi)) (stepOf (some (gkInc vi))) (fun R => Inv n R) n Inv
    (by
      intro i st hi ⟨hloc, hP, hlen, hfr⟩
      obtain ⟨mm, loc'⟩ := st
      simp only at hloc hP hlen hfr
      subst hloc
      have hli : (loc.set vi (.int (i : Int)))[vi]? = some (.int (i : Int)) := by simp [hvi]
      have hln : (loc.set vi (.int (i : Int)))[vn]? = some (.int (n : Int)) := by rw [getElem?_set_ne' _ _ _ _ hne2]; exact hn
      have hlk : (loc.set vi (.int (i : Int)))[vk]? = some (.ptr ck 0) := by rw [getElem?_set_ne' _ _ _ _ hne1]; exact hk
      have ht := zb_test vi vn mm _ i n hli hln
      simp only [hi, decide_true] at ht
      have hck' : mm[ck]? = some { gb with slots := [.ptr a 0] } := by rw [hfr ck hane]; exact hck
      have hI : evalE (.load (.var vi) .u64) { mem := mm, loc := loc.set vi (.int (i : Int)) } = .ok (.int (i : Int), { mem := mm, loc := loc.set vi (.int (i : Int)) }) := by
        simp [evalE, evalL, readPlace, hli, bind, Except.bind]
      have hpl := word_place vk _ mm mm _ _ ck a i gb _ hlk hck' hg1 hI hP (by simp)
      have hst := storeSlot_of (m := mm) (b := a) (i := i) .null hP rfl rfl (by simp; omega)
      have e : (List.replicate i Val.null ++ List.replicate (n - i) Val.undef).set i .null = List.replicate (i + 1) .null ++ List.replicate (n - (i + 1)) .undef := by
        rw [List.set_append_right _ _ (by simp)]
        have : n - i = (n - (i + 1)) + 1 := by omega
        rw [this, List.replicate_succ, List.replicate_succ']
        simp
      simp only [e] at hst
      have hbody : exec fuel (zwBody vk vi) { mem := mm, loc := loc.set vi (.int (i : Int)) } =
          .normal { mem := mm.set a { cells := [], slots := List.replicate (i + 1) .null ++ List.replicate (n - (i + 1)) .undef }, loc := loc.set vi (.int (i : Int)) } := by
        simp only [zwBody, exec, evalE, hpl, bind, Except.bind, convert]
        simp [writePlace, hst, Except.map]
      have halt : a < mm.length := (List.getElem?_eq_some_iff.1 hP).1
      refine ⟨_, _, _, ht, Or.inl hbody, incdec_u64_var vi _ loc i hvi (by omega), rfl, ?_, by simp [hlen], fun b' hb' => by rw [set_other hb', hfr b' hb']⟩
      simp only; rw [List.getElem?_set_self halt])
    (by
      intro st ⟨hloc, hP, hlen, hfr⟩
      obtain ⟨mm, loc'⟩ := st
      simp only at hloc hP hlen hfr
      subst hloc
      have hli : (loc.set vi (.int (n : Int)))[vi]? = some (.int (n : Int)) := by simp [hvi]
      have hln : (loc.set vi (.int (n : Int)))[vn]? = some (.int (n : Int)) := by rw [getElem?_set_ne' _ _ _ _ hne2]; exact hn
      have ht := zb_test vi vn mm _ n n hli hln
      simp only [Nat.lt_irrefl, decide_false] at ht
      exact ⟨_, ht, rfl, hP, hlen, hfr⟩)
    { mem := m, loc := loc.set vi (.int ((0 : Nat) : Int)) } fuel
    ⟨rfl, by simpa using ha, rfl, fun _ _ => rfl⟩ hf
  obtain ⟨R, hl, hlocR, hP, hlen, hfr⟩ := hloop
  obtain ⟨mm, loc'⟩ := R
  simp only at hlocR hP hlen hfr
  subst hlocR
  refine ⟨mm, by unfold zwLoop; rw [exec_for]; exact hl, ?_, hlen, hfr⟩
  simpa using hP

/-- the flags `econf_getKeys` computes: one byte per entry, 1 for the entries of the group -/
def gkFlags (ents : Ents) (nm : List UInt8) : List UInt8 := ents.map (fun e => b2u (decide (e.1 = nm)))
/-- the number of entries of the group -/
def gkCount (ents : Ents) (nm : List UInt8) : Nat := (ents.filter (fun e => decide (e.1 = nm))).length

theorem gkFlags_take_succ (ents : Ents) (nm : List UInt8) (i : Nat) (hi : i < ents.length) :
    gkFlags (ents.take (i + 1)) nm = gkFlags (ents.take i) nm ++ [b2u (decide ((ents[i]).1 = nm))] := by
  unfold gkFlags
  rw [List.take_succ_eq_append_getElem hi, List.map_append]; rfl

theorem gkCount_take_succ (ents : Ents) (nm : List UInt8) (i : Nat) (hi : i < ents.length) :
    gkCount (ents.take (i + 1)) nm = gkCount (ents.take i) nm + (if (ents[i]).1 = nm then 1 else 0) := by
  rw [List.take_succ_eq_append_getElem hi]
  unfold gkCount
  rw [List.filter_append, List.length_append]
  by_cases h : (ents[i]).1 = nm <;> simp [List.filter, h]

theorem gkCount_le (ents : Ents) (nm : List UInt8) : gkCount ents nm ≤ ents.length := List.length_filter_le _ _

theorem gkFlags_length (ents : Ents) (nm : List UInt8) : (gkFlags ents nm).length = ents.length := by simp [gkFlags]

theorem exec_expr_of_step {fuel : Nat} {e : Expr} {st st' : St} (h : stepOf (some e) st = .ok st') : exec fuel (.expr e) st = .normal st' := by
  simp only [stepOf, Except.map] at h
  cases he : evalE e st with
  | error f => simp [he] at h
  | ok r =>
    obtain ⟨v, s⟩ := r
    simp only [he] at h
    injection h with h
    simp [exec, he, ← h]

/-- `i < kf->length` -/
theorem gk_kftest (vi : Nat) (mm : Mem) (loc : List Val) (bk be : Nat) (ents : Ents) (i : Nat) (h : KfMem mm bk be ents)
    (hl0 : loc[0]? = some (.ptr bk 0)) (hli : loc[vi]? = some (.int (i : Int))) :
    testOf (some (gkKfTest vi)) { mem := mm, loc := loc } = .ok (decide (i < ents.length), { mem := mm, loc := loc }) := by
  have hlen := h.len
  by_cases hlt : i < ents.length
  · have : (i : Int) < (ents.length : Int) := by omega
    simp [gkKfTest, gkKfLen, testOf, evalE, evalL, readPlace, hl0, hli, hlen, binop, cmpInt, boolVal, truth, this, hlt, bind, Except.bind]
  · have : ¬ (i : Int) < (ents.length : Int) := by omega
    simp [gkKfTest, gkKfLen, testOf, evalE, evalL, readPlace, hl0, hli, hlen, binop, cmpInt, boolVal, truth, this, hlt, bind, Except.bind]

/-- `!strcmp(kf->file_entry[i].group, group)` -/
theorem gk_match (mm : Mem) (loc : List Val) (bk be gb : Nat) (ents : Ents) (nm : List UInt8) (i : Nat) (h : KfMem mm bk be ents) (hi : i < ents.length)
    (hg : mm.cstr gb 0 = .ok nm)
    (hl0 : loc[0]? = some (.ptr bk 0)) (hl9 : loc[9]? = some (.int (i : Int))) (hl5 : loc[5]? = some (.ptr gb 0)) :
    testOf (some gkMatch) { mem := mm, loc := loc } = .ok (decide ((ents[i]).1 = nm), { mem := mm, loc := loc }) := by
  have harr := h.arrp
  have hgz := cstr_nz hg
  obtain ⟨bg, l1, c1⟩ := h.group i hi
  have hsx := h.sidx i (Nat.le_of_lt hi)
  have z1 := cstr_nz c1
  by_cases e1 : (ents[i]).1 = nm
  · have q1 : cmpBytes nm nm = 0 := (cmpBytes_eq_zero _ _ hgz hgz).2 rfl
    simp [gkMatch, testOf, evalE, evalL, evalArgs, readPlace, hl0, hl9, hl5, harr, hsx, l1, c1, hg, builtin, unop, truth, boolVal, q1, e1,
      bind, Except.bind, Except.map]
  · have q1 : cmpBytes (ents[i]).1 nm ≠ 0 := fun hq => e1 ((cmpBytes_eq_zero _ _ z1 hgz).1 hq)
    simp [gkMatch, testOf, evalE, evalL, evalArgs, readPlace, hl0, hl9, hl5, harr, hsx, l1, c1, hg, builtin, unop, truth, boolVal, q1, e1,
      bind, Except.bind, Except.map]

/-- the marking loop: afterwards the flags of the entries of the group are set and `num` counts them -/
theorem mark_loop (fuel : Nat) (m0 m : Mem) (loc : List Val) (bk be gb ub : Nat) (ents : Ents) (nm : List UInt8)
    (h : KfMem m0 bk be ents) (hm0 : ∀ b, b < m0.length → m[b]? = m0[b]?) (hub : m0.length ≤ ub) (hg : m.cstr gb 0 = .ok nm) (hgu : gb ≠ ub)
    (hl0 : loc[0]? = some (.ptr bk 0)) (hl5 : loc[5]? = some (.ptr gb 0)) (hl6 : loc[6]? = some (.ptr ub 0)) (hlen : 9 < loc.length)
    (hb : MemBytes m ub (List.replicate ents.length 0))
    (hsmall : (ents.length : Int) + 1 < 18446744073709551616) (hf : ents.length < fuel) :
    ∃ m', exec fuel gkMarkLoop { mem := m, loc := (loc.set 4 (.int ((0 : Nat) : Int))).set 9 (.int ((0 : Nat) : Int)) } =
        .normal { mem := m', loc := (loc.set 4 (.int (gkCount ents nm : Int))).set 9 (.int (ents.length : Int)) } ∧
      MemBytes m' ub (gkFlags ents nm) ∧ m'.length = m.length ∧ ∀ b', b' ≠ ub → m'[b']? = m[b']? := by
  let n := ents.length
  let Inv : Nat → St → Prop := fun i st => st.loc = (loc.set 4 (.int (gkCount (ents.take i) nm : Int))).set 9 (.int (i : Int)) ∧
    MemBytes st.mem ub (gkFlags (ents.take i) nm ++ List.replicate (n - i) 0) ∧
    st.mem.length = m.length ∧ ∀ b', b' ≠ ub → st.mem[b']? = m[b']?
  have hloop := loop_inv (testOf (some (gkKfTest 9))) (exec fuel gkMarkBody) (stepOf (some (gkInc 9))) (fun R => Inv n R) n Inv
    (by
      intro i st hi ⟨hloc, hP, hlen', hfr⟩
      obtain ⟨mm, loc'⟩ := st
      simp only at hloc hP hlen' hfr
      subst hloc
      have hi' : i < ents.length := hi
      let c := gkCount (ents.take i) nm
      have hc : c ≤ i := by have := gkCount_le (ents.take i) nm; simp at this; omega
      let L : List Val := (loc.set 4 (.int (c : Int))).set 9 (.int (i : Int))
      have hL0 : L[0]? = some (.ptr bk 0) := by simp only [L]; rw [getElem?_set_ne' _ _ _ _ (by omega), getElem?_set_ne' _ _ _ _ (by omega)]; exact hl0
      have hL5 : L[5]? = some (.ptr gb 0) := by simp only [L]; rw [getElem?_set_ne' _ _ _ _ (by omega), getElem?_set_ne' _ _ _ _ (by omega)]; exact hl5
      have hL6 : L[6]? = some (.ptr ub 0) := by simp only [L]; rw [getElem?_set_ne' _ _ _ _ (by omega), getElem?_set_ne' _ _ _ _ (by omega)]; exact hl6
      have hL9 : L[9]? = some (.int (i : Int)) := by simp [L, hlen]
      have hK : KfMem mm bk be ents := h.mono (fun b hb => by rw [hfr b (by omega), hm0 b hb])
      have hg' : mm.cstr gb 0 = .ok nm := by rw [cstr_congr (hfr gb hgu)]; exact hg
      have ht := gk_kftest 9 mm L bk be ents i hK hL0 hL9
      simp only [hi', decide_true] at ht
      have hmt := gk_match mm L bk be gb ents nm i hK hi' hg' hL0 hL9 hL5
      have hfl := gkFlags_take_succ ents nm i hi'
      have hct := gkCount_take_succ ents nm i hi'
      have hflen : (gkFlags (ents.take i) nm).length = i := by rw [gkFlags_length]; simp; omega
      have hrep : List.replicate (n - i) (0 : UInt8) = 0 :: List.replicate (n - (i + 1)) 0 := by
        have : n - i = (n - (i + 1)) + 1 := by omega
        rw [this, List.replicate_succ]
      by_cases hm : (ents[i]).1 = nm
      · simp only [hm, decide_true] at hmt
        obtain ⟨blk, b1, b2, b3, b4⟩ := hP.blk
        obtain ⟨m1, s1, s2, s3, s4⟩ := hP.store8_int i (by simp [hflen]; omega) 1
        have hpl := flag_place 6 9 mm L ub i blk hL6 hL9 b1 b2 (by rw [b4]; simp [hflen] <;> omega)
        have e : (gkFlags (ents.take i) nm ++ List.replicate (n - i) 0).set i (byteOf 1) = gkFlags (ents.take (i + 1)) nm ++ List.replicate (n - (i + 1)) 0 := by
          rw [List.set_append_right _ _ (by omega), hflen, Nat.sub_self, hrep, hfl, byteOf_one]
          simp [hm, b2u]
        rw [e] at s2
        have hS1 : exec fuel (.expr (.assign (gkFlag 9) (.cast .bool (.lit 1 .i32)) .bool)) { mem := mm, loc := L } = .normal { mem := m1, loc := L } := by
          have b1' : wrapTo .bool 1 = 1 := by decide
          simp only [gkFlag, exec, evalE, hpl, bind, Except.bind, convert, b1']
          simp [writePlace, Ty.bits, b1', s1, Except.map]
        have hcomm : L = (loc.set 9 (.int (i : Int))).set 4 (.int (c : Int)) := by simp only [L]; rw [List.set_comm _ _ (by omega)]
        have hS2 : exec fuel (.expr (gkInc 4)) { mem := m1, loc := L } = .normal { mem := m1, loc := (loc.set 4 (.int ((c + 1 : Nat) : Int))).set 9 (.int (i : Int)) } := by
          have hcomm2 : (loc.set 4 (Val.int ((c + 1 : Nat) : Int))).set 9 (Val.int (i : Int)) = (loc.set 9 (Val.int (i : Int))).set 4 (Val.int ((c + 1 : Nat) : Int)) :=
            List.set_comm _ _ (by omega)
          rw [hcomm, hcomm2]
          exact exec_expr_of_step (incdec_u64_var 4 m1 (loc.set 9 (.int (i : Int))) c (by simp; omega) (by omega))
        refine ⟨_, _, _, ht, Or.inl (by unfold gkMarkBody gkMark; rw [exec_ite_true hmt, exec_seq_normal hS1]; exact hS2),
          incdec_u64_var 9 m1 _ i (by simp; omega) (by omega), ?_, s2, by rw [s3, hlen'], fun b' hb' => by rw [s4 b' hb', hfr b' hb']⟩
        simp only [hct, hm, if_true, c]
      · simp only [hm, decide_false] at hmt
        refine ⟨{ mem := mm, loc := L }, { mem := mm, loc := L }, _, ht, Or.inl (by unfold gkMarkBody; rw [exec_ite_false hmt]; simp [exec]),
          incdec_u64_var 9 mm (loc.set 4 (.int (c : Int))) i (by simp; omega) (by omega), ?_, ?_, hlen', hfr⟩
        · simp only [hct, hm, if_false, c, Nat.add_zero]
        · simp only
          rw [hfl]; simp only [hm, decide_false, b2u]
          rw [hrep] at hP
          simpa using hP)
    (by
      intro st ⟨hloc, hP, hlen', hfr⟩
      obtain ⟨mm, loc'⟩ := st
      simp only at hloc hP hlen' hfr
      subst hloc
      have hK : KfMem mm bk be ents := h.mono (fun b hb => by rw [hfr b (by omega), hm0 b hb])
      have ht := gk_kftest 9 mm ((loc.set 4 (.int (gkCount (ents.take n) nm : Int))).set 9 (.int (n : Int))) bk be ents n hK
        (by rw [getElem?_set_ne' _ _ _ _ (by omega), getElem?_set_ne' _ _ _ _ (by omega)]; exact hl0) (by simp [hlen])
      simp only [n, Nat.lt_irrefl, decide_false] at ht
      exact ⟨_, ht, rfl, hP, hlen', hfr⟩)
    { mem := m, loc := (loc.set 4 (.int ((0 : Nat) : Int))).set 9 (.int ((0 : Nat) : Int)) } fuel
    ⟨by simp [gkCount], by simpa [gkFlags] using hb, rfl, fun _ _ => rfl⟩ hf
  obtain ⟨R, hl, hlocR, hP, hlen', hfr⟩ := hloop
  obtain ⟨mm, loc'⟩ := R
  simp only at hlocR hP hlen' hfr
  subst hlocR
  simp only [n, List.take_length, Nat.sub_self, List.replicate_zero, List.append_nil] at hP hl
  exact ⟨mm, by unfold gkMarkLoop; rw [exec_for]; exact hl, hP, hlen', hfr⟩

/-- the keys `econf_getKeys` returns: those of the entries of the group, in the order of the array -/
def gkKeys (ents : Ents) (nm : List UInt8) : List (List UInt8) := (ents.filter (fun e => decide (e.1 = nm))).map (·.2)

theorem gkKeys_length (ents : Ents) (nm : List UInt8) : (gkKeys ents nm).length = gkCount ents nm := by simp [gkKeys, gkCount]

theorem gkKeys_take_succ (ents : Ents) (nm : List UInt8) (i : Nat) (hi : i < ents.length) :
    gkKeys (ents.take (i + 1)) nm = gkKeys (ents.take i) nm ++ (if (ents[i]).1 = nm then [(ents[i]).2] else []) := by
  rw [List.take_succ_eq_append_getElem hi]
  unfold gkKeys
  rw [List.filter_append, List.map_append]
  by_cases h : (ents[i]).1 = nm <;> simp [List.filter, h]

theorem gkCount_take_le (ents : Ents) (nm : List UInt8) (k : Nat) : gkCount (ents.take k) nm ≤ gkCount ents nm :=
  ((List.take_sublist k ents).filter _).length_le

/-- an object seen from a memory that differs in blocks which are neither the object nor its array nor hold a string -/
theorem KfMem.frame {m m' : Mem} {bk be : Nat} {ents : Ents} (h : KfMem m bk be ents) (av : Nat → Prop)
    (hm : ∀ b, b < m.length → ¬ av b → m'[b]? = m[b]?) (h1 : ¬ av bk) (h2 : ¬ av be) (h3 : ∀ b s, av b → m.cstr b 0 ≠ .ok s) :
    KfMem m' bk be ents := by
  obtain ⟨blk, k1, k2, k3, k4⟩ := h.kf
  obtain ⟨ablk, a1, a2, a3, a4⟩ := h.arr
  have lk : bk < m.length := (List.getElem?_eq_some_iff.1 k1).1
  have la : be < m.length := (List.getElem?_eq_some_iff.1 a1).1
  refine ⟨⟨blk, by rw [hm bk lk h1]; exact k1, k2, k3, k4⟩, ⟨ablk, by rw [hm be la h2]; exact a1, a2, a3, ?_⟩⟩
  intro i hi
  obtain ⟨bg, bq, e1, e2, e3, e4⟩ := a4 i hi
  exact ⟨bg, bq, e1, e2, by rw [cstr_congr (hm bg (cstr_lt e3) (fun hav => h3 bg _ hav e3))]; exact e3,
    by rw [cstr_congr (hm bq (cstr_lt e4) (fun hav => h3 bq _ hav e4))]; exact e4⟩

/-- `v++` as an expression: the old value -/
theorem incdec_u64_val (v : Nat) (mm : Mem) (loc : List Val) (j : Nat) (hv : v < loc.length) (hj : (j : Int) + 1 < 18446744073709551616) :
    evalE (gkInc v) { mem := mm, loc := loc.set v (.int (j : Int)) } =
      .ok (.int (j : Int), { mem := mm, loc := loc.set v (.int ((j + 1 : Nat) : Int)) }) := by
  have : wrapTo .u64 ((j : Int) + 1) = (j : Int) + 1 := wrapTo_u64_small _ (by omega) (by omega)
  simp [gkInc, evalE, evalL, readPlace, writePlace, binop, cmpInt, arith, Ty.signed, convert, this, hv, bind, Except.bind, Except.map]

/-- `uniques[i]` as a condition -/
theorem gk_flag_test (vi : Nat) (mm : Mem) (loc : List Val) (ub i : Nat) (fl : List UInt8) (f : Bool) (hb : MemBytes mm ub fl) (hi : i < fl.length) (hf : fl[i] = b2u f)
    (hl6 : loc[6]? = some (.ptr ub 0)) (hli : loc[vi]? = some (.int (i : Int))) :
    testOf (some (.load (gkFlag vi) .bool)) { mem := mm, loc := loc } = .ok (f, { mem := mm, loc := loc }) := by
  obtain ⟨blk, b1, b2, b3, b4⟩ := hb.blk
  have hpl := flag_place 6 vi mm loc ub i blk hl6 hli b1 b2 (by rw [b4]; simp; omega)
  have hld := hb.load8 i hi
  rw [hf] at hld
  have s1 : sch 1 = 1 := by decide
  have s0 : sch 0 = 0 := by decide
  have b1' : wrapTo .bool 1 = 1 := by decide
  have b0' : wrapTo .bool 0 = 0 := by decide
  simp only [gkFlag, testOf, evalE, hpl, bind, Except.bind, readPlace]
  cases f <;> simp [b2u, s1, s0] at hld <;> simp [hld, Except.map, b1', b0', truth]

/-- the copying loop: every marked entry's key is copied into a fresh block, the copies' addresses fill the array in order -/
theorem copy_loop (fuel : Nat) (mA : Mem) (loc : List Val) (bk be ck ub a : Nat) (gb : Block) (ents : Ents) (nm : List UInt8)
    (hK : KfMem mA bk be ents) (habk : a ≠ bk) (habe : a ≠ be)
    (hck : mA[ck]? = some { gb with slots := [.ptr a 0] }) (hg1 : gb.live = true) (hcka : ck ≠ a)
    (hub : MemBytes mA ub (gkFlags ents nm)) (huba : ub ≠ a)
    (ha : mA[a]? = some { cells := [], slots := List.replicate (gkCount ents nm + 1) .null })
    (hl0 : loc[0]? = some (.ptr bk 0)) (hl3 : loc[3]? = some (.ptr ck 0)) (hl6 : loc[6]? = some (.ptr ub 0)) (hlen : 13 < loc.length)
    (hsmall : (ents.length : Int) + 1 < 18446744073709551616) (hf : ents.length < fuel) :
    ∃ (m' : Mem) (res : List (Nat × List UInt8)), exec fuel gkCopyLoop { mem := mA, loc := (loc.set 13 (.int ((0 : Nat) : Int))).set 12 (.int ((0 : Nat) : Int)) } =
        .normal { mem := m', loc := (loc.set 13 (.int (gkCount ents nm : Int))).set 12 (.int (ents.length : Int)) } ∧
      res.map (·.2) = gkKeys ents nm ∧ mA.length ≤ m'.length ∧ (∀ b, b < mA.length → b ≠ a → m'[b]? = mA[b]?) ∧
      m'[a]? = some { cells := [], slots := res.map (fun e => Val.ptr e.1 0) ++ [.null] } ∧
      (∀ e, e ∈ res → mA.length ≤ e.1 ∧ m'.cstr e.1 0 = .ok e.2) := by
  let n := ents.length
  let cnt := gkCount ents nm
  have haLt : a < mA.length := (List.getElem?_eq_some_iff.1 ha).1
  have hckLt : ck < mA.length := (List.getElem?_eq_some_iff.1 hck).1
  have hubLt : ub < mA.length := hub.lt_length
  let Inv : Nat → St → Prop := fun i st => ∃ res : List (Nat × List UInt8), st.loc = (loc.set 13 (.int (res.length : Int))).set 12 (.int (i : Int)) ∧
    res.map (·.2) = gkKeys (ents.take i) nm ∧ mA.length ≤ st.mem.length ∧ (∀ b, b < mA.length → b ≠ a → st.mem[b]? = mA[b]?) ∧
    st.mem[a]? = some { cells := [], slots := res.map (fun e => Val.ptr e.1 0) ++ List.replicate (cnt + 1 - res.length) .null } ∧
    (∀ e, e ∈ res → mA.length ≤ e.1 ∧ st.mem.cstr e.1 0 = .ok e.2)
  have hframeK : ∀ mm : Mem, (∀ b, b < mA.length → b ≠ a → mm[b]? = mA[b]?) → KfMem mm bk be ents := by
    intro mm hfr
    refine hK.frame (fun b => b = a) (fun b hb hne => hfr b hb hne) (Ne.symm habk) (Ne.symm habe) (fun b s hb => ?_)
    subst hb
    exact cstr_words ha
  have hloop := loop_inv (testOf (some (gkKfTest 12))) (exec fuel gkCopyBody) (stepOf (some (gkInc 12))) (fun R => Inv n R) n Inv
    (by
      intro i st hi ⟨res, hloc, hres, hlenA, hfr, hA, hstr⟩
      obtain ⟨mm, loc'⟩ := st
      simp only at hloc hres hlenA hfr hA hstr
      subst hloc
      have hi' : i < ents.length := hi
      have hj : res.length = gkCount (ents.take i) nm := by
        have := congrArg List.length hres
        simpa [gkKeys_length] using this
      have hji : res.length ≤ i := by have := gkCount_le (ents.take i) nm; simp at this; omega
      have hct := gkCount_take_succ ents nm i hi'
      have hkt := gkKeys_take_succ ents nm i hi'
      have hcle := gkCount_take_le ents nm (i + 1)
      let L : List Val := (loc.set 13 (.int (res.length : Int))).set 12 (.int (i : Int))
      have hL0 : L[0]? = some (.ptr bk 0) := by simp only [L]; rw [getElem?_set_ne' _ _ _ _ (by omega), getElem?_set_ne' _ _ _ _ (by omega)]; exact hl0
      have hL6 : L[6]? = some (.ptr ub 0) := by simp only [L]; rw [getElem?_set_ne' _ _ _ _ (by omega), getElem?_set_ne' _ _ _ _ (by omega)]; exact hl6
      have hL12 : L[12]? = some (.int (i : Int)) := by simp [L, show 12 < loc.length by omega]
      have hKm : KfMem mm bk be ents := hframeK mm hfr
      have hubm : MemBytes mm ub (gkFlags ents nm) := by
        obtain ⟨blk, b1, b2, b3, b4⟩ := hub.blk
        exact ⟨⟨blk, by rw [hfr ub hubLt huba]; exact b1, b2, b3, b4⟩⟩
      have ht := gk_kftest 12 mm L bk be ents i hKm hL0 hL12
      simp only [hi', decide_true] at ht
      have hfi : (gkFlags ents nm)[i]'(by rw [gkFlags_length]; exact hi') = b2u (decide ((ents[i]).1 = nm)) := by simp [gkFlags]
      have hft := gk_flag_test 12 mm L ub i (gkFlags ents nm) (decide ((ents[i]).1 = nm)) hubm (by rw [gkFlags_length]; exact hi') hfi hL6 hL12
      by_cases hm : (ents[i]).1 = nm
      · simp only [hm, decide_true] at hft
        simp only [hm, if_true] at hct hkt
        have hjc : res.length + 1 ≤ cnt := by simp only [cnt]; omega
        -- the place `(*keys)[res.length++]`
        let L' : List Val := (loc.set 13 (.int ((res.length + 1 : Nat) : Int))).set 12 (.int (i : Int))
        have hcomm : L = (loc.set 12 (.int (i : Int))).set 13 (.int (res.length : Int)) := List.set_comm _ _ (by omega)
        have hcomm' : L' = (loc.set 12 (.int (i : Int))).set 13 (.int ((res.length + 1 : Nat) : Int)) := List.set_comm _ _ (by omega)
        have hI : evalE (gkInc 13) { mem := mm, loc := L } = .ok (.int (res.length : Int), { mem := mm, loc := L' }) := by
          rw [hcomm, hcomm']
          exact incdec_u64_val 13 mm (loc.set 12 (.int (i : Int))) res.length (by simp; omega) (by omega)
        have hL3 : L[3]? = some (.ptr ck 0) := by simp only [L]; rw [getElem?_set_ne' _ _ _ _ (by omega), getElem?_set_ne' _ _ _ _ (by omega)]; exact hl3
        have hckm : mm[ck]? = some { gb with slots := [.ptr a 0] } := by rw [hfr ck hckLt hcka]; exact hck
        have hpl := word_place 3 (gkInc 13) mm mm L L' ck a res.length gb _ hL3 hckm hg1 hI hA (by simp <;> omega)
        -- the copy of the key
        obtain ⟨bq, lq, cq⟩ := hKm.key i hi'
        have hsx := hKm.sidx i (Nat.le_of_lt hi')
        have harr := hKm.arrp
        have hL'0 : L'[0]? = some (.ptr bk 0) := by simp only [L']; rw [getElem?_set_ne' _ _ _ _ (by omega), getElem?_set_ne' _ _ _ _ (by omega)]; exact hl0
        have hL'12 : L'[12]? = some (.int (i : Int)) := by simp [L', show 12 < loc.length by omega]
        have hkey : evalE (.load (.slot (.sidx (.load (.slot (.load (.var 0) .ptr) 0) .ptr) (.load (.var 12) .u64) 7) 1) .ptr) { mem := mm, loc := L' } =
            .ok (.ptr bq 0, { mem := mm, loc := L' }) := by
          simp [evalE, evalL, readPlace, hL'0, hL'12, harr, hsx, lq, bind, Except.bind]
        obtain ⟨m5, hsd, hm5b, hm5len, hm5fr⟩ := strdup_spec mm bq 0 (ents[i]).2 cq
        have haltm : a < mm.length := (List.getElem?_eq_some_iff.1 hA).1
        have hm5a : m5[a]? = some { cells := [], slots := res.map (fun e => Val.ptr e.1 0) ++ List.replicate (cnt + 1 - res.length) .null } := by
          rw [hm5fr a haltm]; exact hA
        have hst := storeSlot_of (m := m5) (b := a) (i := res.length) (.ptr mm.length 0) hm5a rfl rfl (by simp; omega)
        have e : (res.map (fun e => Val.ptr e.1 0) ++ List.replicate (cnt + 1 - res.length) Val.null).set res.length (.ptr mm.length 0) =
            (res ++ [(mm.length, (ents[i]).2)]).map (fun e => Val.ptr e.1 0) ++ List.replicate (cnt + 1 - (res.length + 1)) .null := by
          rw [List.set_append_right _ _ (by simp)]
          have : cnt + 1 - res.length = (cnt + 1 - (res.length + 1)) + 1 := by omega
          rw [this, List.replicate_succ]
          simp
        simp only [e] at hst
        let m6 : Mem := m5.set a { cells := [], slots := (res ++ [(mm.length, (ents[i]).2)]).map (fun e => Val.ptr e.1 0) ++ List.replicate (cnt + 1 - (res.length + 1)) .null }
        have hcopy : exec fuel gkCopy { mem := mm, loc := L } = .normal { mem := m6, loc := L' } := by
          unfold gkCopy gkKeysArr
          generalize (Expr.load (.slot (.sidx (.load (.slot (.load (.var 0) .ptr) 0) .ptr) (.load (.var 12) .u64) 7) 1) .ptr) = KE at hkey ⊢
          generalize (LVal.slot (.sidx (.load (.slot (.load (.var 3) .ptr) 0) .ptr) (gkInc 13) 1) 0) = PL at hpl ⊢
          simp only [exec, evalE, evalArgs, hpl, hkey, hsd, bind, Except.bind, convert]
          simp [writePlace, hst, Except.map, m6]
        have hm6new : m6.cstr mm.length 0 = .ok (ents[i]).2 := by
          have hz := cstr_nz cq
          have : m6[mm.length]? = m5[mm.length]? := by simp only [m6]; rw [set_other (by omega)]
          rw [cstr_congr this]
          exact hm5b.cstr0 (rest := []) hz
        refine ⟨{ mem := mm, loc := L }, { mem := m6, loc := L' }, _, ht, Or.inl (by unfold gkCopyBody; rw [exec_ite_true hft]; exact hcopy),
          incdec_u64_var 12 m6 (loc.set 13 (.int ((res.length + 1 : Nat) : Int))) i (by simp; omega) (by omega),
          res ++ [(mm.length, (ents[i]).2)], by simp, by rw [hkt, List.map_append, hres]; simp, by simp [m6]; omega, fun b hb hne => ?_, ?_, fun e he => ?_⟩
        · simp only [m6]; rw [set_other hne, hm5fr b (by omega)]; exact hfr b hb hne
        · have : a < m5.length := by omega
          simp only [m6]; rw [List.getElem?_set_self this]; simp
        · rcases List.mem_append.1 he with he | he
          · obtain ⟨s1, s2⟩ := hstr e he
            refine ⟨s1, ?_⟩
            have hne : e.1 ≠ a := fun heq => by rw [heq] at s2; exact cstr_words hA s2
            have : m6[e.1]? = mm[e.1]? := by simp only [m6]; rw [set_other hne, hm5fr e.1 (cstr_lt s2)]
            rw [cstr_congr this]; exact s2
          · simp at he; subst he
            exact ⟨hlenA, hm6new⟩
      · simp only [hm, decide_false] at hft
        simp only [hm, if_false, Nat.add_zero, List.append_nil] at hct hkt
        refine ⟨{ mem := mm, loc := L }, { mem := mm, loc := L }, _, ht, Or.inl (by unfold gkCopyBody; rw [exec_ite_false hft]; simp [exec]),
          incdec_u64_var 12 mm (loc.set 13 (.int (res.length : Int))) i (by simp; omega) (by omega),
          res, rfl, by rw [hkt, hres], hlenA, hfr, hA, hstr⟩)
    (by
      intro st ⟨res, hloc, hres, hlenA, hfr, hA, hstr⟩
      obtain ⟨mm, loc'⟩ := st
      simp only at hloc hres hlenA hfr hA hstr
      subst hloc
      have hKm : KfMem mm bk be ents := hframeK mm hfr
      have ht := gk_kftest 12 mm ((loc.set 13 (.int (res.length : Int))).set 12 (.int (n : Int))) bk be ents n hKm
        (by rw [getElem?_set_ne' _ _ _ _ (by omega), getElem?_set_ne' _ _ _ _ (by omega)]; exact hl0) (by simp [show 12 < loc.length by omega])
      simp only [n, Nat.lt_irrefl, decide_false] at ht
      exact ⟨_, ht, res, rfl, hres, hlenA, hfr, hA, hstr⟩)
    { mem := mA, loc := (loc.set 13 (.int ((0 : Nat) : Int))).set 12 (.int ((0 : Nat) : Int)) } fuel
    ⟨[], rfl, by simp [gkKeys], Nat.le_refl _, fun _ _ _ => rfl, by simpa using ha, fun e he => by simp at he⟩ hf
  obtain ⟨R, hl, res, hlocR, hres, hlenA, hfr, hA, hstr⟩ := hloop
  obtain ⟨mm, loc'⟩ := R
  simp only at hlocR hres hlenA hfr hA hstr
  subst hlocR
  simp only [n, List.take_length] at hres
  have hrl : res.length = cnt := by
    have := congrArg List.length hres
    simpa [gkKeys_length] using this
  rw [hrl] at hl
  have e1 : cnt + 1 - res.length = 1 := by omega
  rw [e1] at hA
  exact ⟨mm, res, by unfold gkCopyLoop; rw [exec_for]; exact hl, hres, hlenA, hfr, by simpa using hA, hstr⟩

theorem gk_assign0 (fuel k : Nat) (mm : Mem) (loc : List Val) (hk : k < loc.length) :
    exec fuel (.expr (.assign (.var k) gkU64_0 .u64)) { mem := mm, loc := loc } = .normal { mem := mm, loc := loc.set k (.int ((0 : Nat) : Int)) } := by
  have w0 : wrapTo .u64 0 = 0 := wrapTo_u64_small 0 (by omega) (by omega)
  simp [gkU64_0, exec, evalE, evalL, writePlace, convert, w0, hk, bind, Except.bind]

/-- `group = strdup(…)` into variable `v`: a fresh copy of the group name in a block of its own -/
theorem gk_grp (v : Nat) (m : Mem) (loc : List Val) (gv : Val) (g : Option (List UInt8)) (hg : StrArg m gv g) (hl1 : loc[1]? = some gv) (hv : v < loc.length)
    (fuel : Nat) :
    ∃ m1 gb, exec fuel (.expr (.assign (.var v) gkGrp .ptr)) { mem := m, loc := loc } = .normal { mem := m1, loc := loc.set v (.ptr gb 0) } ∧
      m.length ≤ gb ∧ MemBytes m1 gb (grpOf g ++ [0]) ∧ (∀ b, b < m.length → m1[b]? = m[b]?) := by
  have hnz : (0 : UInt8) ∉ [95, 110, 111, 110, 101, 95] := by decide
  have hlit : ∃ m1, evalE (.call "strdup" (.cons (.strlit [95, 110, 111, 110, 101, 95]) .nil)) { mem := m, loc := loc } =
        .ok (.ptr (m.length + 1) 0, { mem := m1, loc := loc }) ∧ MemBytes m1 (m.length + 1) (Econf.NONE ++ [0]) ∧
        (∀ b, b < m.length → m1[b]? = m[b]?) := by
    have hc := lit_cstr m _ hnz
    obtain ⟨m1, d1, d2, d3, d4⟩ := strdup_spec _ _ _ _ hc
    simp only [List.length_append, List.length_singleton] at d1 d2 d3 d4
    refine ⟨m1, ?_, d2, fun b hb => by rw [d4 b (by omega)]; simp [List.getElem?_append_left hb]⟩
    simp only [evalE, evalArgs, bind, Except.bind, d1]
  cases hg with
  | null =>
    obtain ⟨m1, e1, e2, e3⟩ := hlit
    refine ⟨m1, m.length + 1, ?_, by omega, e2, e3⟩
    simp only [gkGrp]
    generalize (Expr.call "strdup" (Args.cons (Expr.strlit [95, 110, 111, 110, 101, 95]) Args.nil)) = E at e1 ⊢
    simp [exec, evalE, evalL, readPlace, hl1, unop, truth, boolVal, e1, convert, writePlace, hv, bind, Except.bind, Except.map]
  | str b s h =>
    have hh := cstr_head h
    cases s with
    | nil =>
      obtain ⟨m1, e1, e2, e3⟩ := hlit
      refine ⟨m1, m.length + 1, ?_, by omega, by simpa [grpOf] using e2, e3⟩
      simp only [gkGrp]
      simp only [headCh] at hh
      generalize (Expr.call "strdup" (Args.cons (Expr.strlit [95, 110, 111, 110, 101, 95]) Args.nil)) = E at e1 ⊢
      simp [exec, evalE, evalL, readPlace, hl1, hh, unop, truth, boolVal, e1, convert, writePlace, hv, bind, Except.bind, Except.map]
    | cons c cs =>
      have hcz : c ≠ 0 := fun hc0 => (cstr_nz h) (by simp [hc0])
      have hs0 : sch c ≠ 0 := fun h0 => hcz ((sch_zero_iff c).1 h0)
      obtain ⟨m1, d1, d2, d3, d4⟩ := strdup_spec _ _ _ _ h
      refine ⟨m1, m.length, ?_, Nat.le_refl _, by simpa [grpOf] using d2, d4⟩
      simp only [headCh] at hh
      simp [gkGrp, exec, evalE, evalArgs, evalL, readPlace, hl1, hh, hs0, unop, truth, boolVal, d1, convert, writePlace, hv, bind, Except.bind, Except.map]

theorem grpOf_nz (g : Option (List UInt8)) (m : Mem) (gv : Val) (hg : StrArg m gv g) : (0 : UInt8) ∉ grpOf g := by
  cases hg with
  | null => exact NONE_nz
  | str b s h =>
    simp only [grpOf]
    split
    · exact NONE_nz
    · exact cstr_nz h

/-- what the caller's side looks like for `econf_getKeys`: the two out-cells are one-word objects apart from the object and its array -/
structure GkCells (m : Mem) (bk be cl ck : Nat) (lb gb : Block) : Prop where
  hcl : m[cl]? = some lb
  hl1 : lb.live = true
  hl2 : lb.writable = true
  hl3 : lb.slots.length = 1
  hl4 : lb.cells = []
  hck : m[ck]? = some gb
  hg1 : gb.live = true
  hg2 : gb.writable = true
  hg3 : gb.slots.length = 1
  hg4 : gb.cells = []
  hne : cl ≠ ck
  hd : cl ≠ bk ∧ cl ≠ be ∧ ck ≠ bk ∧ ck ≠ be

theorem cstr_nocells {mm : Mem} {a : Nat} {blk : Block} {s : List UInt8} (ha : mm[a]? = some blk) (hc : blk.cells = []) : mm.cstr a 0 ≠ .ok s := by
  cases hl : blk.live <;> simp [Mem.cstr, Mem.block, ha, hl, hc, cstrFrom, bind, Except.bind]

/-- the object seen from a memory that differs from the caller's in the two cells (and in new blocks) -/
theorem GkCells.kf {m mm : Mem} {bk be cl ck : Nat} {lb gb : Block} {ents : Ents} (hC : GkCells m bk be cl ck lb gb) (hK : KfMem m bk be ents)
    (hfr : ∀ b, b < m.length → b ≠ cl → b ≠ ck → mm[b]? = m[b]?) : KfMem mm bk be ents := by
  refine hK.frame (fun b => b = cl ∨ b = ck) (fun b hb hne => hfr b hb (fun h => hne (Or.inl h)) (fun h => hne (Or.inr h))) ?_ ?_ ?_
  · have := hC.hd; intro h; rcases h with h | h <;> omega
  · have := hC.hd; intro h; rcases h with h | h <;> omega
  · intro b s hb
    rcases hb with rfl | rfl
    · exact cstr_nocells hC.hcl hC.hl4
    · exact cstr_nocells hC.hck hC.hg4

/-- the part of `econf_getKeys` up to and including `free(group)`: `*length = 0`, the flags and the count are computed -/
theorem gk_prefix (fuel : Nat) (m : Mem) (bk be cl ck : Nat) (lb gb : Block) (ents : Ents) (gv : Val) (g : Option (List UInt8))
    (u4 u5 u6 u7 u8 u9 u10 u11 u12 u13 : Val)
    (hK : KfMem m bk be ents) (hC : GkCells m bk be cl ck lb gb) (hg : StrArg m gv g)
    (hsmall : (ents.length : Int) + 2 < 18446744073709551616) (hf : ents.length + 1 < fuel) :
    ∃ mP gbk ub, exec fuel LeafFns.econf_getKeys.body { mem := m, loc := [.ptr bk 0, gv, .ptr cl 0, .ptr ck 0, u4, u5, u6, u7, u8, u9, u10, u11, u12, u13] } =
        exec fuel gkTail { mem := mP, loc := [.ptr bk 0, gv, .ptr cl 0, .ptr ck 0, .int (gkCount ents (grpOf g) : Int), .ptr gbk 0, .ptr ub 0,
          .int (ents.length : Int), .int (ents.length : Int), .int (ents.length : Int), u10, u11, u12, u13] } ∧
      m.length ≤ ub ∧ MemBytes mP ub (gkFlags ents (grpOf g)) ∧
      mP[cl]? = some { lb with slots := [.int 0] } ∧ (∀ b, b < m.length → b ≠ cl → mP[b]? = m[b]?) := by
  let nm := grpOf g
  let n := ents.length
  have hclt : cl < m.length := (List.getElem?_eq_some_iff.1 hC.hcl).1
  -- *length = 0
  let m1 : Mem := m.set cl { lb with slots := [.int 0] }
  have w0 : wrapTo .u64 0 = 0 := wrapTo_u64_small 0 (by omega) (by omega)
  have hS0 : ∀ loc : List Val, loc[2]? = some (.ptr cl 0) → exec fuel (gkSetLen gkU64_0) { mem := m, loc := loc } = .normal { mem := m1, loc := loc } := by
    intro loc hl2
    have ht : testOf (some (.bin .ne (.load (.var 2) .ptr) .null .i32)) { mem := m, loc := loc } = .ok (true, { mem := m, loc := loc }) := by
      simp [testOf, evalE, evalL, readPlace, hl2, binop, truth, boolVal, bind, Except.bind]
    have hst : m.storeSlot cl 0 (.int 0) = .ok m1 := by
      have := storeSlot_of (m := m) (b := cl) (i := 0) (.int 0) hC.hcl hC.hl1 hC.hl2 (by have := hC.hl3; omega)
      obtain ⟨w, hw⟩ : ∃ w, lb.slots = [w] := by
        match hs : lb.slots, hC.hl3 with
        | [w], _ => exact ⟨w, rfl⟩
      simpa [m1, hw] using this
    unfold gkSetLen; rw [exec_ite_true ht]
    simp [gkU64_0, exec, evalE, evalL, readPlace, hl2, writePlace, convert, w0, hst, bind, Except.bind, Except.map]
  have hm1len : m1.length = m.length := by simp [m1]
  have hm1cl : m1[cl]? = some { lb with slots := [.int 0] } := by simp only [m1]; rw [List.getElem?_set_self hclt]
  have hm1fr : ∀ b, b ≠ cl → m1[b]? = m[b]? := fun b hb => by simp only [m1]; rw [set_other hb]
  -- kf != NULL
  have hS1 : ∀ (mm : Mem) (loc : List Val), loc[0]? = some (.ptr bk 0) →
      exec fuel (.ite (.un .lnot (.load (.var 0) .ptr) .i32) (gkRet 1) .skip) { mem := mm, loc := loc } = .normal { mem := mm, loc := loc } := by
    intro mm loc hl0
    have ht : testOf (some (.un .lnot (.load (.var 0) .ptr) .i32)) { mem := mm, loc := loc } = .ok (false, { mem := mm, loc := loc }) := by
      simp [testOf, evalE, evalL, readPlace, hl0, unop, truth, boolVal, bind, Except.bind, Except.map]
    rw [exec_ite_false ht]; simp [exec]
  -- group
  have hg1 : StrArg m1 gv g := by
    cases hg with
    | null => exact .null
    | str b s h =>
      refine .str b s ?_
      rw [cstr_congr (hm1fr b (fun hb => by subst hb; exact cstr_nocells hC.hcl hC.hl4 h))]; exact h
  obtain ⟨m2, gbk, hS3, hgbk, hm2g, hm2fr⟩ := gk_grp 5 m1 [.ptr bk 0, gv, .ptr cl 0, .ptr ck 0, .int ((0 : Nat) : Int), u5, u6, u7, u8, u9, u10, u11, u12, u13] gv g hg1 rfl (by simp) fuel
  have hnz : (0 : UInt8) ∉ nm := grpOf_nz g m gv hg
  have hgbklt : gbk < m2.length := hm2g.lt_length
  have hS4 : ∀ (mm : Mem) (loc : List Val) (v : Nat) (p : Nat), loc[v]? = some (.ptr p 0) → ∀ s : Stmt,
      exec fuel (.ite (.bin .eq (.load (.var v) .ptr) .null .i32) s .skip) { mem := mm, loc := loc } = .normal { mem := mm, loc := loc } := by
    intro mm loc v p hl s
    have ht : testOf (some (.bin .eq (.load (.var v) .ptr) .null .i32)) { mem := mm, loc := loc } = .ok (false, { mem := mm, loc := loc }) := by
      simp [testOf, evalE, evalL, readPlace, hl, binop, truth, boolVal, bind, Except.bind]
    rw [exec_ite_false ht]; simp [exec]
  -- n = kf->length
  have hfr2 : ∀ b, b < m.length → b ≠ cl → m2[b]? = m[b]? := fun b hb hne => by rw [hm2fr b (by omega), hm1fr b hne]
  have hK2 : KfMem m2 bk be ents := hC.kf hK (fun b hb h1 _ => hfr2 b hb h1)
  have hS5 : ∀ loc : List Val, loc[0]? = some (.ptr bk 0) → 7 < loc.length →
      exec fuel (.expr (.assign (.var 7) gkKfLen .u64)) { mem := m2, loc := loc } = .normal { mem := m2, loc := loc.set 7 (.int (n : Int)) } := by
    intro loc hl0 h7
    have hw : wrapTo .u64 (ents.length : Int) = (ents.length : Int) := wrapTo_u64_small _ (by omega) (by omega)
    simp [gkKfLen, exec, evalE, evalL, readPlace, hl0, hK2.len, writePlace, convert, hw, h7, n, bind, Except.bind]
  -- uniques = malloc(n)
  let ub := m2.length
  obtain ⟨a1, a2, a3, a4⟩ := alloc_spec m2 n
  have hS6 : ∀ loc : List Val, loc[7]? = some (.int (n : Int)) → 6 < loc.length →
      exec fuel (.expr (.assign (.var 6) (.call "malloc" (.cons (.bin .mul (.load (.var 7) .u64) (.lit 1 .u64) .u64) .nil)) .ptr)) { mem := m2, loc := loc } =
        .normal { mem := (m2.alloc n).1, loc := loc.set 6 (.ptr ub 0) } := by
    intro loc hl7 h6
    have hw : wrapTo .u64 ((n : Int) * 1) = (n : Int) := by rw [Int.mul_one]; exact wrapTo_u64_small _ (by omega) (by omega)
    have e : (m2.alloc n) = ((m2.alloc n).1, m2.length) := by rw [← a1]
    simp only [exec, evalE, evalArgs, evalL, readPlace, hl7, bind, Except.bind, binop, cmpInt, arith_u64, hw, builtin, Int.toNat_natCast]
    rw [e]
    simp [convert, writePlace, h6, ub]
  -- the zeroing loop
  obtain ⟨m4, hZ, hm4u, hm4len, hm4fr⟩ := zero_bytes_loop fuel (m2.alloc n).1
    [.ptr bk 0, gv, .ptr cl 0, .ptr ck 0, .int ((0 : Nat) : Int), .ptr gbk 0, .ptr ub 0, .int (n : Int), u8, u9, u10, u11, u12, u13]
    6 8 7 ub n rfl rfl (by simp) (by omega) (by omega) a2 (by omega) (by omega)
  -- the marking loop
  have hgu : gbk ≠ ub := by omega
  have hg4 : m4.cstr gbk 0 = .ok nm := by
    have : m4[gbk]? = m2[gbk]? := by rw [hm4fr gbk hgu, a4 gbk hgbklt]
    rw [cstr_congr this]
    exact hm2g.cstr0 (rest := []) hnz
  obtain ⟨m5, hM, hm5u, hm5len, hm5fr⟩ := mark_loop fuel m2 m4
    [.ptr bk 0, gv, .ptr cl 0, .ptr ck 0, .int ((0 : Nat) : Int), .ptr gbk 0, .ptr ub 0, .int (n : Int), .int (n : Int), u9, u10, u11, u12, u13]
    bk be gbk ub ents nm hK2 (fun b hb => by rw [hm4fr b (by omega), a4 b hb]) (Nat.le_refl _) hg4 hgu rfl rfl rfl (by simp) hm4u (by omega) (by omega)
  -- free(group)
  have hm5g : m5[gbk]? = m2[gbk]? := by rw [hm5fr gbk hgu, hm4fr gbk hgu, a4 gbk hgbklt]
  obtain ⟨gblk, hgb1, hgb2, _, _⟩ := hm2g.blk
  have hS12 : ∀ loc : List Val, loc[5]? = some (.ptr gbk 0) →
      exec fuel (gkFree 5) { mem := m5, loc := loc } = .normal { mem := m5.set gbk { gblk with live := false }, loc := loc } := by
    intro loc hl5
    have := free_spec m5 gbk gblk (by rw [hm5g]; exact hgb1) hgb2
    simp [gkFree, exec, evalE, evalArgs, evalL, readPlace, hl5, this, bind, Except.bind]
  have hublt : ub < m5.length := hm5u.lt_length
  refine ⟨m5.set gbk { gblk with live := false }, gbk, ub, ?_, by simp only [ub]; omega, ?_, ?_, fun b hb hne => ?_⟩
  · simp only [List.set] at hS3 hZ hM
    rw [econf_getKeys_shape, exec_seq_normal (hS0 _ rfl), exec_seq_normal (hS1 _ _ rfl), exec_seq_normal (gk_assign0 fuel 4 _ _ (by simp))]
    simp only [List.set]
    rw [exec_seq_normal hS3, exec_seq_normal (hS4 _ _ 5 gbk rfl _), exec_seq_normal (hS5 _ rfl (by simp))]
    simp only [List.set]
    rw [exec_seq_normal (hS6 _ rfl (by simp))]
    simp only [List.set]
    rw [exec_seq_normal (gk_assign0 fuel 8 _ _ (by simp))]
    simp only [List.set]
    rw [exec_seq_normal hZ, exec_seq_normal (hS4 _ _ 6 ub rfl _), exec_seq_normal (gk_assign0 fuel 9 _ _ (by simp))]
    simp only [List.set]
    rw [exec_seq_normal hM, exec_seq_normal (hS12 _ rfl)]
  · obtain ⟨blk, b1, b2, b3, b4⟩ := hm5u.blk
    exact ⟨⟨blk, by rw [set_other (Ne.symm hgu)]; exact b1, b2, b3, b4⟩⟩
  · rw [set_other (by omega), hm5fr cl (by omega), hm4fr cl (by omega), a4 cl (by omega), hm2fr cl (by omega)]; exact hm1cl
  · rw [set_other (by omega), hm5fr b (by omega), hm4fr b (by omega), a4 b (by omega)]; exact hfr2 b hb hne

theorem gk_ret (fuel : Nat) (c : Int) (h0 : 0 ≤ c) (h1 : c < 4294967296) (st : St) : exec fuel (gkRet c) st = .ret (.int c) st := by
  have w := wrapTo_u32_small c h0 h1
  simp [gkRet, exec, evalE, convert, w, bind, Except.bind]

/-- `kf == NULL`: ECONF_ERROR after `*length = 0` -/
theorem C_econf_getKeys_null_kf (fuel : Nat) (m : Mem) (cl : Nat) (lb : Block) (gv : Val) (rest : List Val)
    (hcl : m[cl]? = some lb) (hl1 : lb.live = true) (hl2 : lb.writable = true) (hl3 : lb.slots.length = 1) :
    exec fuel LeafFns.econf_getKeys.body { mem := m, loc := .null :: gv :: .ptr cl 0 :: rest } =
      .ret (.int 1) { mem := m.set cl { lb with slots := [.int 0] }, loc := .null :: gv :: .ptr cl 0 :: rest } := by
  have w0 : wrapTo .u64 0 = 0 := wrapTo_u64_small 0 (by omega) (by omega)
  have ht : testOf (some (.bin .ne (.load (.var 2) .ptr) .null .i32)) { mem := m, loc := .null :: gv :: .ptr cl 0 :: rest } =
      .ok (true, { mem := m, loc := .null :: gv :: .ptr cl 0 :: rest }) := by
    simp [testOf, evalE, evalL, readPlace, binop, truth, boolVal, bind, Except.bind]
  have hst : m.storeSlot cl 0 (.int 0) = .ok (m.set cl { lb with slots := [.int 0] }) := by
    have := storeSlot_of (m := m) (b := cl) (i := 0) (.int 0) hcl hl1 hl2 (by omega)
    obtain ⟨w, hw⟩ : ∃ w, lb.slots = [w] := by
      match hs : lb.slots, hl3 with
      | [w], _ => exact ⟨w, rfl⟩
    simpa [hw] using this
  have hS0 : exec fuel (gkSetLen gkU64_0) { mem := m, loc := .null :: gv :: .ptr cl 0 :: rest } =
      .normal { mem := m.set cl { lb with slots := [.int 0] }, loc := .null :: gv :: .ptr cl 0 :: rest } := by
    unfold gkSetLen; rw [exec_ite_true ht]
    simp [gkU64_0, exec, evalE, evalL, readPlace, writePlace, convert, w0, hst, bind, Except.bind, Except.map]
  have ht1 : ∀ mm : Mem, testOf (some (.un .lnot (.load (.var 0) .ptr) .i32)) { mem := mm, loc := .null :: gv :: .ptr cl 0 :: rest } =
      .ok (true, { mem := mm, loc := .null :: gv :: .ptr cl 0 :: rest }) := by
    intro mm
    simp [testOf, evalE, evalL, readPlace, unop, truth, boolVal, bind, Except.bind, Except.map]
  rw [econf_getKeys_shape, exec_seq_normal hS0]
  exact exec_seq_ret (by rw [exec_ite_true (ht1 _)]; exact gk_ret fuel 1 (by omega) (by omega) _)

/-- `free(uniques)` -/
theorem gk_free6 (fuel : Nat) (mm : Mem) (loc : List Val) (ub : Nat) (fl : List UInt8) (hb : MemBytes mm ub fl) (hl6 : loc[6]? = some (.ptr ub 0)) :
    ∃ blk, mm[ub]? = some blk ∧ exec fuel (gkFree 6) { mem := mm, loc := loc } = .normal { mem := mm.set ub { blk with live := false }, loc := loc } := by
  obtain ⟨blk, b1, b2, _, _⟩ := hb.blk
  refine ⟨blk, b1, ?_⟩
  have := free_spec mm ub blk b1 b2
  simp [gkFree, exec, evalE, evalArgs, evalL, readPlace, hl6, this, bind, Except.bind]

/-- no entry of the group: ECONF_NOKEY; `*length` is 0, everything else of the caller as before (the temporary blocks are gone) -/
theorem C_econf_getKeys_nokey (fuel : Nat) (m : Mem) (bk be cl ck : Nat) (lb gb : Block) (ents : Ents) (gv : Val) (g : Option (List UInt8))
    (u4 u5 u6 u7 u8 u9 u10 u11 u12 u13 : Val)
    (hK : KfMem m bk be ents) (hC : GkCells m bk be cl ck lb gb) (hg : StrArg m gv g)
    (hnone : gkCount ents (grpOf g) = 0)
    (hsmall : (ents.length : Int) + 2 < 18446744073709551616) (hf : ents.length + 1 < fuel) :
    ∃ m' loc', exec fuel LeafFns.econf_getKeys.body { mem := m, loc := [.ptr bk 0, gv, .ptr cl 0, .ptr ck 0, u4, u5, u6, u7, u8, u9, u10, u11, u12, u13] } =
        .ret (.int 5) { mem := m', loc := loc' } ∧
      m'[cl]? = some { lb with slots := [.int 0] } ∧ (∀ b, b < m.length → b ≠ cl → m'[b]? = m[b]?) := by
  obtain ⟨mP, gbk, ub, hex, hub, hfl, hcl, hfr⟩ := gk_prefix fuel m bk be cl ck lb gb ents gv g u4 u5 u6 u7 u8 u9 u10 u11 u12 u13 hK hC hg hsmall hf
  rw [hnone] at hex
  have hclt : cl < m.length := (List.getElem?_eq_some_iff.1 hC.hcl).1
  have ht : ∀ (loc : List Val), loc[4]? = some (.int ((0 : Nat) : Int)) →
      testOf (some (.un .lnot (.load (.var 4) .u64) .i32)) { mem := mP, loc := loc } = .ok (true, { mem := mP, loc := loc }) := by
    intro loc hl4
    simp [testOf, evalE, evalL, readPlace, hl4, unop, truth, boolVal, bind, Except.bind, Except.map]
  obtain ⟨blk, b1, hfree⟩ := gk_free6 fuel mP [.ptr bk 0, gv, .ptr cl 0, .ptr ck 0, .int ((0 : Nat) : Int), .ptr gbk 0, .ptr ub 0,
          .int (ents.length : Int), .int (ents.length : Int), .int (ents.length : Int), u10, u11, u12, u13] ub _ hfl rfl
  refine ⟨mP.set ub { blk with live := false }, [.ptr bk 0, gv, .ptr cl 0, .ptr ck 0, .int ((0 : Nat) : Int), .ptr gbk 0, .ptr ub 0,
          .int (ents.length : Int), .int (ents.length : Int), .int (ents.length : Int), u10, u11, u12, u13], ?_, ?_, fun b hb hne => ?_⟩
  · rw [hex]; unfold gkTail
    exact exec_seq_ret (by rw [exec_ite_true (ht _ rfl), exec_seq_normal hfree]; exact gk_ret fuel 5 (by omega) (by omega) _)
  · rw [set_other (by omega)]; exact hcl
  · rw [set_other (by omega)]; exact hfr b hb hne

/-- `econf_getKeys` on an object with at least one entry of the group: success; the caller finds the count in `*length` and in `*keys` a fresh
    NULL-terminated array of fresh copies of the keys of the group's entries, in the order of the entry array (`GgOut`, as for `econf_getGroups`);
    every other block of the caller is unchanged -/
theorem C_econf_getKeys (fuel : Nat) (m : Mem) (bk be cl ck : Nat) (lb gb : Block) (ents : Ents) (gv : Val) (g : Option (List UInt8))
    (u4 u5 u6 u7 u8 u9 u10 u11 u12 u13 : Val)
    (hK : KfMem m bk be ents) (hC : GkCells m bk be cl ck lb gb) (hg : StrArg m gv g)
    (hsome : gkCount ents (grpOf g) ≠ 0)
    (hsmall : (ents.length : Int) + 2 < 18446744073709551616) (hf : ents.length + 2 < fuel) :
    ∃ (m' : Mem) (loc' : List Val) (res : List (Nat × List UInt8)),
      exec fuel LeafFns.econf_getKeys.body { mem := m, loc := [.ptr bk 0, gv, .ptr cl 0, .ptr ck 0, u4, u5, u6, u7, u8, u9, u10, u11, u12, u13] } =
        .ret (.int 0) { mem := m', loc := loc' } ∧
      res.map (·.2) = gkKeys ents (grpOf g) ∧ res ≠ [] ∧ GgOut m cl ck lb gb m' res := by
  obtain ⟨mP, gbk, ub, hex, hub, hfl, hcl, hfr⟩ := gk_prefix fuel m bk be cl ck lb gb ents gv g u4 u5 u6 u7 u8 u9 u10 u11 u12 u13 hK hC hg hsmall (by omega)
  let nm := grpOf g
  let cnt := gkCount ents nm
  let n := ents.length
  have hcntn : cnt ≤ n := gkCount_le ents nm
  have hcnt0 : cnt ≠ 0 := hsome
  have hclt : cl < m.length := (List.getElem?_eq_some_iff.1 hC.hcl).1
  have hcklt : ck < m.length := (List.getElem?_eq_some_iff.1 hC.hck).1
  have hne := hC.hne
  have hublt : ub < mP.length := hfl.lt_length
  have hPck : mP[ck]? = some gb := by rw [hfr ck hcklt (Ne.symm hne)]; exact hC.hck
  -- num != 0
  have hT1 : ∀ (loc : List Val), loc[4]? = some (.int (cnt : Int)) →
      exec fuel (.ite (.un .lnot (.load (.var 4) .u64) .i32) (.seq (gkFree 6) (gkRet 5)) .skip) { mem := mP, loc := loc } = .normal { mem := mP, loc := loc } := by
    intro loc hl4
    have hc : ¬ ((cnt : Int) = 0) := by omega
    have ht : testOf (some (.un .lnot (.load (.var 4) .u64) .i32)) { mem := mP, loc := loc } = .ok (false, { mem := mP, loc := loc }) := by
      simp [testOf, evalE, evalL, readPlace, hl4, unop, truth, boolVal, hc, hcnt0, bind, Except.bind, Except.map]
    rw [exec_ite_false ht]; simp [exec]
  -- n10 = num + 1
  have hT2 : ∀ (mm : Mem) (loc : List Val), loc[4]? = some (.int (cnt : Int)) → 10 < loc.length →
      exec fuel (.expr (.assign (.var 10) (.bin .add (.load (.var 4) .u64) (.cast .u64 (.lit 1 .i32)) .u64) .u64)) { mem := mm, loc := loc } =
        .normal { mem := mm, loc := loc.set 10 (.int ((cnt + 1 : Nat) : Int)) } := by
    intro mm loc hl4 h10
    have hw : wrapTo .u64 ((cnt : Int) + 1) = (cnt : Int) + 1 := wrapTo_u64_small _ (by omega) (by omega)
    simp [exec, evalE, evalL, readPlace, hl4, convert, w64_one, binop, cmpInt, arith_u64, hw, writePlace, h10, bind, Except.bind]
  -- *keys = malloc_words(n10)
  let a := mP.length
  let m7 : Mem := mP ++ [{ cells := [], slots := List.replicate (cnt + 1) .undef }]
  let m8 : Mem := m7.set ck { gb with slots := [.ptr a 0] }
  have hm7ck : m7[ck]? = some gb := by simp only [m7]; rw [List.getElem?_append_left (by omega)]; exact hPck
  have hT3 : ∀ (loc : List Val), loc[3]? = some (.ptr ck 0) → loc[10]? = some (.int ((cnt + 1 : Nat) : Int)) →
      exec fuel (.expr (.assign (.slot (.load (.var 3) .ptr) 0) (.call "malloc_words" (.cons (.bin .mul (.load (.var 10) .u64) (.lit 1 .u64) .u64) .nil)) .ptr))
        { mem := mP, loc := loc } = .normal { mem := m8, loc := loc } := by
    intro loc hl3 hl10
    have hw : wrapTo .u64 (((cnt + 1 : Nat) : Int) * 1) = ((cnt + 1 : Nat) : Int) := by rw [Int.mul_one]; exact wrapTo_u64_small _ (by omega) (by omega)
    have hst : m7.storeSlot ck 0 (.ptr a 0) = .ok m8 := by
      have := storeSlot_of (m := m7) (b := ck) (i := 0) (.ptr a 0) hm7ck hC.hg1 hC.hg2 (by have := hC.hg3; omega)
      obtain ⟨w, hw⟩ : ∃ w, gb.slots = [w] := by
        match hs : gb.slots, hC.hg3 with
        | [w], _ => exact ⟨w, rfl⟩
      simpa [m8, hw] using this
    simp only [exec, evalE, evalArgs, evalL, readPlace, hl3, hl10, bind, Except.bind, binop, cmpInt, arith_u64, hw, builtin, Mem.allocWords, Int.toNat_natCast]
    simp [convert, writePlace, hst, Except.map, m7, a]
  have hm8ck : m8[ck]? = some { gb with slots := [.ptr a 0] } := by
    have : ck < m7.length := by simp [m7]; omega
    simp only [m8]; rw [List.getElem?_set_self this]
  have hm8a : m8[a]? = some { cells := [], slots := List.replicate (cnt + 1) .undef } := by
    simp only [m8]; rw [set_other (by omega)]; simp [m7, a]
  have hm8fr : ∀ b, b < mP.length → b ≠ ck → m8[b]? = mP[b]? := fun b hb hne => by
    simp only [m8]; rw [set_other hne]; simp only [m7]; rw [List.getElem?_append_left hb]
  -- the zeroing loop
  obtain ⟨m9, hZ, hm9a, hm9len, hm9fr⟩ := zero_words_loop fuel m8
    [.ptr bk 0, gv, .ptr cl 0, .ptr ck 0, .int (cnt : Int), .ptr gbk 0, .ptr ub 0, .int (n : Int), .int (n : Int), .int (n : Int), .int ((cnt + 1 : Nat) : Int), u11, u12, u13]
    3 11 10 ck a (cnt + 1) gb rfl rfl (by simp) (by omega) (by omega) hm8ck hC.hg1 hm8a (by omega) (by omega) (by omega)
  have hm9ck : m9[ck]? = some { gb with slots := [.ptr a 0] } := by rw [hm9fr ck (by omega)]; exact hm8ck
  have hT6 : ∀ (loc : List Val), loc[3]? = some (.ptr ck 0) →
      exec fuel (.ite (.bin .eq gkKeysArr .null .i32) (.seq (gkFree 6) (gkRet 2)) .skip) { mem := m9, loc := loc } = .normal { mem := m9, loc := loc } := by
    intro loc hl3
    have hc := cell_load 3 m9 loc ck gb (.ptr a 0) hl3 hm9ck hC.hg1 (by simp)
    have ht : testOf (some (.bin .eq gkKeysArr .null .i32)) { mem := m9, loc := loc } = .ok (false, { mem := m9, loc := loc }) := by
      simp only [gkKeysArr, testOf, evalE, hc, bind, Except.bind, binop, boolVal, truth]
      simp
    rw [exec_ite_false ht]; simp [exec]
  -- the copying loop
  have hfr9 : ∀ b, b < m.length → b ≠ cl → b ≠ ck → m9[b]? = m[b]? := fun b hb h1 h2 => by
    rw [hm9fr b (by omega), hm8fr b (by omega) h2]; exact hfr b hb h1
  have hK9 : KfMem m9 bk be ents := hC.kf hK hfr9
  have hbklt : bk < m.length := by obtain ⟨_, k1, _⟩ := hK.kf; exact (List.getElem?_eq_some_iff.1 k1).1
  have hbelt : be < m.length := by obtain ⟨_, k1, _⟩ := hK.arr; exact (List.getElem?_eq_some_iff.1 k1).1
  have hub9 : MemBytes m9 ub (gkFlags ents nm) := by
    obtain ⟨blk, b1, b2, b3, b4⟩ := hfl.blk
    have hubck : ub ≠ ck := by omega
    exact ⟨⟨blk, by rw [hm9fr ub (by omega), hm8fr ub hublt hubck]; exact b1, b2, b3, b4⟩⟩
  obtain ⟨m10, res, hCp, hres, hlen10, hfr10, hm10a, hstr⟩ := copy_loop fuel m9
    [.ptr bk 0, gv, .ptr cl 0, .ptr ck 0, .int (cnt : Int), .ptr gbk 0, .ptr ub 0, .int (n : Int), .int (n : Int), .int (n : Int), .int ((cnt + 1 : Nat) : Int), .int ((cnt + 1 : Nat) : Int), u12, u13]
    bk be ck ub a gb ents nm hK9 (by omega) (by omega) hm9ck hC.hg1 (by omega) hub9 (by omega) hm9a rfl rfl rfl (by simp) (by omega) (by omega)
  have hm9L : m9.length = mP.length + 1 := by rw [hm9len]; simp [m8, m7]
  have hrl : res.length = cnt := by
    have := congrArg List.length hres
    simpa [gkKeys_length] using this
  -- *length = num
  have hm10cl : m10[cl]? = some { lb with slots := [.int 0] } := by
    rw [hfr10 cl (by omega) (by omega), hm9fr cl (by omega), hm8fr cl (by omega) hne]; exact hcl
  let m11 : Mem := m10.set cl { lb with slots := [.int (cnt : Int)] }
  have hT10 : ∀ (loc : List Val), loc[2]? = some (.ptr cl 0) → loc[4]? = some (.int (cnt : Int)) →
      exec fuel (gkSetLen (.load (.var 4) .u64)) { mem := m10, loc := loc } = .normal { mem := m11, loc := loc } := by
    intro loc hl2 hl4
    have ht : testOf (some (.bin .ne (.load (.var 2) .ptr) .null .i32)) { mem := m10, loc := loc } = .ok (true, { mem := m10, loc := loc }) := by
      simp [testOf, evalE, evalL, readPlace, hl2, binop, truth, boolVal, bind, Except.bind]
    have hst : m10.storeSlot cl 0 (.int (cnt : Int)) = .ok m11 := by
      have := storeSlot_of (m := m10) (b := cl) (i := 0) (.int (cnt : Int)) hm10cl (by simpa using hC.hl1) (by simpa using hC.hl2) (by simp)
      simpa [m11] using this
    have hw : wrapTo .u64 (cnt : Int) = (cnt : Int) := wrapTo_u64_small _ (by omega) (by omega)
    unfold gkSetLen; rw [exec_ite_true ht]
    simp [exec, evalE, evalL, readPlace, hl2, hl4, writePlace, convert, hw, hst, bind, Except.bind, Except.map]
  -- free(uniques)
  have hub11 : MemBytes m11 ub (gkFlags ents nm) := by
    obtain ⟨blk, b1, b2, b3, b4⟩ := hub9.blk
    exact ⟨⟨blk, by simp only [m11]; rw [set_other (by omega), hfr10 ub (by omega) (by omega)]; exact b1, b2, b3, b4⟩⟩
  obtain ⟨ublk, hu1, hfree⟩ := gk_free6 fuel m11
    [.ptr bk 0, gv, .ptr cl 0, .ptr ck 0, .int (cnt : Int), .ptr gbk 0, .ptr ub 0, .int (n : Int), .int (n : Int), .int (n : Int), .int ((cnt + 1 : Nat) : Int), .int ((cnt + 1 : Nat) : Int), .int (n : Int), .int (cnt : Int)]
    ub _ hub11 rfl
  let m12 : Mem := m11.set ub { ublk with live := false }
  have hm12 : ∀ b, b ≠ cl → b ≠ ub → m12[b]? = m10[b]? := fun b h1 h2 => by simp only [m12, m11]; rw [set_other h2, set_other h1]
  refine ⟨m12, [.ptr bk 0, gv, .ptr cl 0, .ptr ck 0, .int (cnt : Int), .ptr gbk 0, .ptr ub 0, .int (n : Int), .int (n : Int), .int (n : Int), .int ((cnt + 1 : Nat) : Int), .int ((cnt + 1 : Nat) : Int), .int (n : Int), .int (cnt : Int)], res, ?_, hres, fun h => by rw [h] at hrl; simp at hrl; omega, ⟨?_, fun b hb h1 h2 => ?_, ?_, Or.inr ⟨fun h => by rw [h] at hrl; simp at hrl; omega, a, by omega, ?_, ?_⟩, fun e he => ?_⟩⟩
  · simp only [List.set] at hZ hCp
    rw [hex]; unfold gkTail
    rw [exec_seq_normal (hT1 _ rfl), exec_seq_normal (hT2 _ _ rfl (by simp))]
    simp only [List.set]
    rw [exec_seq_normal (hT3 _ rfl rfl), exec_seq_normal (gk_assign0 fuel 11 _ _ (by simp))]
    simp only [List.set]
    rw [exec_seq_normal hZ, exec_seq_normal (hT6 _ rfl), exec_seq_normal (gk_assign0 fuel 12 _ _ (by simp))]
    simp only [List.set]
    rw [exec_seq_normal (gk_assign0 fuel 13 _ _ (by simp))]
    simp only [List.set]
    rw [exec_seq_normal hCp, exec_seq_normal (hT10 _ rfl rfl), exec_seq_normal hfree]
    exact gk_ret fuel 0 (by omega) (by omega) _
  · simp [m12, m11]; omega
  · rw [hm12 b h1 (by omega), hfr10 b (by omega) (by omega)]; exact hfr9 b hb h1 h2
  · have : cl < m10.length := by omega
    simp only [m12, m11]; rw [set_other (by omega), List.getElem?_set_self this, hrl]
  · rw [hm12 ck (Ne.symm hne) (by omega), hfr10 ck (by omega) (by omega)]; exact hm9ck
  · rw [hm12 a (by omega) (by omega)]; exact hm10a
  · obtain ⟨s1, s2⟩ := hstr e he
    refine ⟨by omega, ?_⟩
    rw [cstr_congr (hm12 e.1 (by omega) (by omega))]; exact s2

/-! ## the connection to the list-level model -/

theorem gkKeys_model (es : List Econf.Entry) (nm : List UInt8) :
    gkKeys (entsOf es) nm = (es.filter (fun e => e.group == nm)).map (·.key) := by
  unfold gkKeys entsOf
  induction es with
  | nil => rfl
  | cons e es ih =>
    simp only [List.map_cons, List.filter_cons]
    by_cases h : e.group = nm
    · have hb : (e.group == nm) = true := by simpa using h
      have hd : decide (e.group = nm) = true := by simpa using h
      simp only [hb, hd, if_true, List.map_cons, ih]
    · have hb : (e.group == nm) = false := by simpa using h
      have hd : decide (e.group = nm) = false := by simpa using h
      simp only [hb, hd, Bool.false_eq_true, if_false, ih]

/-- `Econf.getKeys` in terms of what the C function computes: ECONF_NOKEY when no entry has the group, the keys of its entries otherwise -/
theorem getKeys_model (kf : Econf.KeyFile) (g : Option (List UInt8)) :
    Econf.getKeys kf g = if gkCount (entsOf kf.entries) (grpOf g) = 0 then .error .nokey else .ok (gkKeys (entsOf kf.entries) (grpOf g)) := by
  have hl := gkKeys_length (entsOf kf.entries) (grpOf g)
  unfold Econf.getKeys
  dsimp only
  rw [← grpOf_eq, ← gkKeys_model]
  by_cases h : gkCount (entsOf kf.entries) (grpOf g) = 0
  · have : gkKeys (entsOf kf.entries) (grpOf g) = [] := List.length_eq_zero_iff.1 (by rw [hl, h])
    simp [h, this]
  · have : gkKeys (entsOf kf.entries) (grpOf g) ≠ [] := fun h0 => h (by rw [← hl, h0]; rfl)
    simp [h, this]

/-- `C_econf_getKeys` against the model: when `Econf.getKeys` delivers keys, the C function succeeds and delivers the same list -/
theorem C_econf_getKeys_model (kf : Econf.KeyFile) (ks : List (List UInt8)) (fuel : Nat) (m : Mem) (bk be cl ck : Nat) (lb gb : Block) (gv : Val) (g : Option (List UInt8))
    (u4 u5 u6 u7 u8 u9 u10 u11 u12 u13 : Val)
    (hK : KfMem m bk be (entsOf kf.entries)) (hC : GkCells m bk be cl ck lb gb) (hg : StrArg m gv g)
    (hmodel : Econf.getKeys kf g = .ok ks)
    (hsmall : (kf.entries.length : Int) + 2 < 18446744073709551616) (hf : kf.entries.length + 2 < fuel) :
    ∃ (m' : Mem) (loc' : List Val) (res : List (Nat × List UInt8)),
      exec fuel LeafFns.econf_getKeys.body { mem := m, loc := [.ptr bk 0, gv, .ptr cl 0, .ptr ck 0, u4, u5, u6, u7, u8, u9, u10, u11, u12, u13] } =
        .ret (.int 0) { mem := m', loc := loc' } ∧
      res.map (·.2) = ks ∧ res ≠ [] ∧ GgOut m cl ck lb gb m' res := by
  rw [getKeys_model] at hmodel
  by_cases h : gkCount (entsOf kf.entries) (grpOf g) = 0
  · simp [h] at hmodel
  · simp only [h, if_false] at hmodel
    injection hmodel with hmodel
    have hl : (entsOf kf.entries).length = kf.entries.length := by simp [entsOf]
    obtain ⟨m', loc', res, h1, h2, h3, h4⟩ := C_econf_getKeys fuel m bk be cl ck lb gb (entsOf kf.entries) gv g u4 u5 u6 u7 u8 u9 u10 u11 u12 u13 hK hC hg h
      (by rw [hl]; exact hsmall) (by rw [hl]; exact hf)
    exact ⟨m', loc', res, h1, by rw [h2, hmodel], h3, h4⟩

/-- … and when `Econf.getKeys` reports ECONF_NOKEY so does the C function -/
theorem C_econf_getKeys_nokey_model (kf : Econf.KeyFile) (fuel : Nat) (m : Mem) (bk be cl ck : Nat) (lb gb : Block) (gv : Val) (g : Option (List UInt8))
    (u4 u5 u6 u7 u8 u9 u10 u11 u12 u13 : Val)
    (hK : KfMem m bk be (entsOf kf.entries)) (hC : GkCells m bk be cl ck lb gb) (hg : StrArg m gv g)
    (hmodel : Econf.getKeys kf g = .error .nokey)
    (hsmall : (kf.entries.length : Int) + 2 < 18446744073709551616) (hf : kf.entries.length + 1 < fuel) :
    ∃ m' loc', exec fuel LeafFns.econf_getKeys.body { mem := m, loc := [.ptr bk 0, gv, .ptr cl 0, .ptr ck 0, u4, u5, u6, u7, u8, u9, u10, u11, u12, u13] } =
        .ret (.int 5) { mem := m', loc := loc' } ∧
      m'[cl]? = some { lb with slots := [.int 0] } ∧ (∀ b, b < m.length → b ≠ cl → m'[b]? = m[b]?) := by
  rw [getKeys_model] at hmodel
  by_cases h : gkCount (entsOf kf.entries) (grpOf g) = 0
  · have hl : (entsOf kf.entries).length = kf.entries.length := by simp [entsOf]
    exact C_econf_getKeys_nokey fuel m bk be cl ck lb gb (entsOf kf.entries) gv g u4 u5 u6 u7 u8 u9 u10 u11 u12 u13 hK hC hg h
      (by rw [hl]; exact hsmall) (by rw [hl]; exact hf)
  · simp [h] at hmodel

end LeafKf

namespace LeafKf.Example

/-! A concrete caller's memory that meets every hypothesis of `C_econf_getKeys`: an object with the entries `[A] k1`, `[B] k2`, `[A] k3`, two
    uninitialised variables `size_t length; char **keys;` and the argument string `"A"`. -/

def gkMem : Mem := [
  /- 0, 1 group names -/ strBlock [65], strBlock [66],
  /- 2, 3, 4 keys -/ strBlock [107, 49], strBlock [107, 50], strBlock [107, 51],
  /- 5 the entry array -/ { cells := [], slots := [.ptr 0 0, .ptr 2 0, .null, .null, .null, .int 0, .int 0,
                                                     .ptr 1 0, .ptr 3 0, .null, .null, .null, .int 0, .int 0,
                                                     .ptr 0 0, .ptr 4 0, .null, .null, .null, .int 0, .int 0] },
  /- 6 the object -/ { cells := [], slots := [.ptr 5 0, .int 3, .int 3, .int 61, .int 35, .int 0, .null, .int 0, .int 0, .null, .int 0, .null, .int 0, .null, .int 0, .null] },
  /- 7 `length` -/ { cells := [], slots := [.undef] },
  /- 8 `keys` -/ { cells := [], slots := [.undef] },
  /- 9 the argument -/ strBlock [65]]

def gkEnts : Ents := [([65], [107, 49]), ([66], [107, 50]), ([65], [107, 51])]

theorem gk_ok : KfMem gkMem 6 5 gkEnts :=
  ⟨⟨_, rfl, rfl, rfl, rfl⟩, ⟨_, rfl, rfl, rfl, fun i hi => by
    have : i = 0 ∨ i = 1 ∨ i = 2 := by simp [gkEnts] at hi; omega
    rcases this with rfl | rfl | rfl
    · exact ⟨0, 2, rfl, rfl, rfl, rfl⟩
    · exact ⟨1, 3, rfl, rfl, rfl, rfl⟩
    · exact ⟨0, 4, rfl, rfl, rfl, rfl⟩⟩⟩

theorem gk_cells : GkCells gkMem 6 5 7 8 { cells := [], slots := [.undef] } { cells := [], slots := [.undef] } :=
  ⟨rfl, rfl, rfl, rfl, rfl, rfl, rfl, rfl, rfl, rfl, by decide, by decide⟩

/-- the call `econf_getKeys(kf, "A", &length, &keys)` in that memory: success, the keys `k1` and `k3` in fresh blocks behind a fresh array -/
theorem run_getKeys : ∃ m' loc' res,
    exec 10 LeafFns.econf_getKeys.body { mem := gkMem, loc := [.ptr 6 0, .ptr 9 0, .ptr 7 0, .ptr 8 0] ++ List.replicate 10 .undef } = .ret (.int 0) { mem := m', loc := loc' } ∧
    res.map (·.2) = [[107, 49], [107, 51]] ∧ GgOut gkMem 7 8 { cells := [], slots := [.undef] } { cells := [], slots := [.undef] } m' res ∧
    m'.loadSlot 7 0 = .ok (.int 2) := by
  obtain ⟨m', loc', res, hex, hres, hne, hO⟩ := C_econf_getKeys 10 gkMem 6 5 7 8 _ _ gkEnts (.ptr 9 0) (some [65]) .undef .undef .undef .undef .undef .undef .undef .undef .undef .undef
    gk_ok gk_cells (.str 9 [65] rfl) (by decide) (by decide) (by decide)
  have hk : gkKeys gkEnts (grpOf (some [65])) = [[107, 49], [107, 51]] := by decide
  rw [hk] at hres
  have hlen : res.length = 2 := by
    have := congrArg List.length hres
    simpa using this
  refine ⟨m', loc', res, hex, hres, hO, ?_⟩
  have := (hO.read rfl rfl).1
  rw [hlen] at this
  exact this

/-- the same object asked for a group it does not have: ECONF_NOKEY -/
theorem run_getKeys_nokey : ∃ m' loc',
    exec 10 LeafFns.econf_getKeys.body { mem := gkMem, loc := [.ptr 6 0, .null, .ptr 7 0, .ptr 8 0] ++ List.replicate 10 .undef } = .ret (.int 5) { mem := m', loc := loc' } ∧
    m'.loadSlot 7 0 = .ok (.int 0) := by
  obtain ⟨m', loc', hex, hcl, _⟩ := C_econf_getKeys_nokey 10 gkMem 6 5 7 8 _ _ gkEnts .null none .undef .undef .undef .undef .undef .undef .undef .undef .undef .undef
    gk_ok gk_cells .null (by decide) (by decide) (by decide)
  exact ⟨m', loc', hex, by simpa using loadSlot_of (i := 0) hcl rfl (by simp) (by simp)⟩

end LeafKf.Example
