import Econf.Lemmas.NumLemmas
import Econf.KeyFileOps

/-!
  C09 — typed getters interpret stored text faithfully or refuse, never a wrong value.
  `Lit` is the literal grammar of DESIGN.md 5.7 (optional sign; decimal, octal with leading 0,
  hexadecimal with 0x/0X; digits in either case; any number of digits), `Lit.val` its
  mathematical value.
-/

set_option linter.unusedSimpArgs false

namespace Econf

theorem strtoVal_render (l : Lit) (h : l.body.WF) : strtoVal (strtoCore l.render) = l.val := by
  rw [strtoCore_render l h]
  unfold strtoVal Lit.val
  by_cases hs : l.sign = .minus <;> simp [hs]

/-- signed getters: the value when the type can represent it, a conversion error otherwise -/
theorem getSigned_render (l : Lit) (h : l.body.WF) (llo lhi lo hi : Int) (h1 : llo ≤ lo) (h2 : hi ≤ lhi) :
    getSigned llo lhi lo hi l.render =
      if lo ≤ l.val ∧ l.val ≤ hi then .ok l.val else .error .valueConversionError := by
  unfold getSigned
  have hv := strtoVal_render l h
  have hc : (strtoCore l.render).converted = true := by rw [strtoCore_render l h]
  simp only [hv, hc, Bool.not_true, Bool.false_eq_true, if_false]
  by_cases ha : l.val < llo
  · have : ¬ (lo ≤ l.val ∧ l.val ≤ hi) := by omega
    simp [ha, this]
  · by_cases hb : l.val > lhi
    · have : ¬ (lo ≤ l.val ∧ l.val ≤ hi) := by omega
      simp [ha, hb, this]
    · by_cases hc1 : l.val < lo
      · have : ¬ (lo ≤ l.val ∧ l.val ≤ hi) := by omega
        simp [ha, hb, hc1, this]
      · by_cases hd : l.val > hi
        · have : ¬ (lo ≤ l.val ∧ l.val ≤ hi) := by omega
          simp [ha, hb, hc1, hd, this]
        · have : lo ≤ l.val ∧ l.val ≤ hi := by omega
          simp [ha, hb, hc1, hd, this]

theorem C09_int32 (l : Lit) (h : l.body.WF) :
    getInt32 l.render = if I32MIN ≤ l.val ∧ l.val ≤ I32MAX then .ok l.val else .error .valueConversionError :=
  getSigned_render l h _ _ _ _ (by decide) (by decide)

theorem C09_int64 (l : Lit) (h : l.body.WF) :
    getInt64 l.render = if I64MIN ≤ l.val ∧ l.val ≤ I64MAX then .ok l.val else .error .valueConversionError :=
  getSigned_render l h _ _ _ _ (by decide) (by decide)

/-- unsigned getters: never a wrapped value for a negative literal, never a truncated one -/
theorem getUnsigned_render (l : Lit) (h : l.body.WF) (lmax max : Nat) (hm : max ≤ lmax) :
    getUnsigned lmax max l.render =
      if 0 ≤ l.val ∧ l.val ≤ (max : Int) then .ok l.val.toNat else .error .valueConversionError := by
  unfold getUnsigned
  rw [strtoCore_render l h]
  unfold Lit.val
  simp only [Bool.not_true, Bool.false_eq_true, if_false]
  by_cases hs : l.sign = .minus
  · simp only [hs, decide_true, if_true, Bool.true_and]
    by_cases hz : l.body.mag = 0
    · simp [hz]
    · have hneg : ¬ (0 ≤ -(l.body.mag : Int) ∧ -(l.body.mag : Int) ≤ (max : Int)) := by omega
      by_cases hbig : l.body.mag > lmax
      · simp [hbig, hneg, hz]
      · simp [hbig, hz, hneg]
  · simp only [hs, decide_false, if_false, Bool.false_and, Bool.false_eq_true]
    by_cases hbig : l.body.mag > lmax
    · have : ¬ ((l.body.mag : Int) ≤ (max : Int)) := by omega
      simp [hbig, this]
    · by_cases hb2 : l.body.mag > max
      · have : ¬ ((l.body.mag : Int) ≤ (max : Int)) := by omega
        simp [hbig, hb2, this]
      · have : (l.body.mag : Int) ≤ (max : Int) := by omega
        simp [hbig, hb2, this]

theorem C09_uint32 (l : Lit) (h : l.body.WF) :
    getUInt32 l.render = if 0 ≤ l.val ∧ l.val ≤ (U32MAX : Int) then .ok l.val.toNat else .error .valueConversionError :=
  getUnsigned_render l h _ _ (by decide)

theorem C09_uint64 (l : Lit) (h : l.body.WF) :
    getUInt64 l.render = if 0 ≤ l.val ∧ l.val ≤ (U64MAX : Int) then .ok l.val.toNat else .error .valueConversionError :=
  getUnsigned_render l h _ _ (by decide)

/-! ### booleans -/

def TRUE_WORDS : List Str := [[0x31], [0x79, 0x65, 0x73], [0x74, 0x72, 0x75, 0x65]]
def FALSE_WORDS : List Str := [[0x30], [], [0x6e, 0x6f], [0x66, 0x61, 0x6c, 0x73, 0x65]]

/-- the boolean getter succeeds exactly on 1/0, yes/no, true/false in any letter case and on
    the empty text (false); every other text is refused — for all byte strings -/
theorem C09_bool (s : Str) :
    (getBool s = .ok true ↔ lower s ∈ TRUE_WORDS) ∧
    (getBool s = .ok false ↔ lower s ∈ FALSE_WORDS) ∧
    ((∃ e, getBool s = .error e) ↔ lower s ∉ TRUE_WORDS ∧ lower s ∉ FALSE_WORDS) := by
  unfold getBool classifyBool TRUE_WORDS FALSE_WORDS
  simp only [List.mem_cons, List.mem_nil_iff, or_false, List.isEmpty_iff]
  by_cases h1 : lower s = [0x31]
  · simp [h1]
  · by_cases h2 : lower s = [0x79, 0x65, 0x73]
    · simp [h2]
    · by_cases h3 : lower s = [0x74, 0x72, 0x75, 0x65]
      · simp [h3]
      · by_cases h4 : lower s = [0x30]
        · simp [h4]
        · by_cases h5 : lower s = []
          · simp [h5]
          · by_cases h6 : lower s = [0x6e, 0x6f]
            · simp [h6]
            · by_cases h7 : lower s = [0x66, 0x61, 0x6c, 0x73, 0x65]
              · simp [h7]
              · simp only [h1, h2, h3, h4, h5, h6, h7, beq_iff_eq, or_self, if_false, false_or, Bool.false_or]
                by_cases h8 : lower s = NONE
                · simp [h8, NONE]
                · simp [h1, h2, h3, h4, h5, h6, h7, h8]

/-- a key that has no value: every typed getter answers with an error code -/
theorem C09_novalue {α} (conv : Str → Except Err α) (kf : KeyFile) (g k : Option Str)
    (h : getString kf g k = .ok none) : getTyped conv kf g k = .error .keyHasNullValue := by
  unfold getTyped; rw [h]

/-- non-vacuity: literals at the limits, in the three notations -/
example :
    let hexFFFFFFFF : Lit := ⟨.none, .hex false (15, true) (List.replicate 7 (15, false))⟩
    let oct20000000000 : Lit := ⟨.plus, .oct ((2, false) :: List.replicate 10 (0, false))⟩
    let minus1 : Lit := ⟨.minus, .dec (1, false) []⟩
    hexFFFFFFFF.body.WF ∧ hexFFFFFFFF.val = 4294967295 ∧ oct20000000000.val = 2147483648 ∧ minus1.val = -1 ∧
    hexFFFFFFFF.render = [0x30, 0x78, 0x46, 0x66, 0x66, 0x66, 0x66, 0x66, 0x66, 0x66] := by
  refine ⟨⟨by decide, ?_⟩, by decide, by decide, by decide, by decide⟩
  intro p hp
  simp [List.mem_replicate] at hp
  rw [hp]; decide

end Econf
