import Generated.Facts

/-!
  Theorems over the facts re-extracted from /repo's C sources on every run
  (`gen/extract_facts.py` → `Generated/Facts.lean`).  They are phrased on pinned tables: when the
  source changes one of these facts, the corresponding `decide` no longer closes and the check
  of the property that relies on the fact reports it.
-/

namespace Econf.Struct
open Generated

/-! ### C13: every code maps to its documented message -/

/-- the documented codes (include/libeconf.h) in order, with their documented messages -/
def documentedErrors : List (String × Nat × String) := [
  ("ECONF_SUCCESS", 0, "Success"), ("ECONF_ERROR", 1, "Unknown error"), ("ECONF_NOMEM", 2, "Out of memory"),
  ("ECONF_NOFILE", 3, "Configuration file not found"), ("ECONF_NOGROUP", 4, "Group not found"), ("ECONF_NOKEY", 5, "Key not found"),
  ("ECONF_EMPTYKEY", 6, "Key is NULL or has empty value"), ("ECONF_WRITEERROR", 7, "Error creating or writing to a file"),
  ("ECONF_PARSE_ERROR", 8, "Parse error"), ("ECONF_MISSING_BRACKET", 9, "Missing bracket"),
  ("ECONF_MISSING_DELIMITER", 10, "Missing delimiter"), ("ECONF_EMPTY_SECTION_NAME", 11, "Empty section name"),
  ("ECONF_TEXT_AFTER_SECTION", 12, "Text after section"), ("ECONF_FILE_LIST_IS_NULL", 13, "Conf file list is NULL"),
  ("ECONF_WRONG_BOOLEAN_VALUE", 14, "Wrong boolean value (1/0 true/false yes/no)"),
  ("ECONF_KEY_HAS_NULL_VALUE", 15, "Given key has NULL value"), ("ECONF_WRONG_OWNER", 16, "File has wrong owner"),
  ("ECONF_WRONG_GROUP", 17, "File has wrong group"), ("ECONF_WRONG_FILE_PERMISSION", 18, "File has wrong file permissions"),
  ("ECONF_WRONG_DIR_PERMISSION", 19, "File has wrong dir permissions"),
  ("ECONF_ERROR_FILE_IS_SYM_LINK", 20, "File is a sym link which is not permitted"),
  ("ECONF_PARSING_CALLBACK_FAILED", 21, "User defined parsing callback has failed"),
  ("ECONF_ARGUMENT_IS_NULL_VALUE", 22, "Given argument is NULL"), ("ECONF_OPTION_NOT_FOUND", 23, "Given option not found"),
  ("ECONF_VALUE_CONVERSION_ERROR", 24, "Value cannot be converted")]

/-- the extracted enum is the documented one (names and values 0..24 in order) and the extracted
    message table has one entry per constant, in enum order, with the documented text -/
theorem C13_messages :
    errEnum = documentedErrors.map (fun e => (e.1, e.2.1)) ∧ errMessages = documentedErrors.map (fun e => e.2.2) := by decide

/-! ### C08 / C09: formats and conversions of the typed setters and getters -/

/-- each integer setter prints with the conversion of exactly its width and signedness, the floating
    setters with `%.*g` and 9 / 17 significant digits (`FLT_DECIMAL_DIG` / `DBL_DECIMAL_DIG`); each
    getter uses the `strto*` function of its type, base 0 for the integers -/
theorem C08_formats :
    setterFormats = [⟨"setDoubleValueNum", "%.*g", some 17⟩, ⟨"setFloatValueNum", "%.*g", some 9⟩, ⟨"setInt64ValueNum", "%ld", none⟩,
                     ⟨"setIntValueNum", "%d", none⟩, ⟨"setUInt64ValueNum", "%lu", none⟩, ⟨"setUIntValueNum", "%u", none⟩] ∧
    getterConversions = [⟨"getDoubleValueNum", "strtod", none⟩, ⟨"getFloatValueNum", "strtof", none⟩, ⟨"getInt64ValueNum", "strtoll", some 0⟩,
                         ⟨"getIntValueNum", "strtol", some 0⟩, ⟨"getUInt64ValueNum", "strtoull", some 0⟩, ⟨"getUIntValueNum", "strtoul", some 0⟩] := by
  decide

/-! ### C14: fixed-size buffers -/

def isLib (file : String) : Bool := file != "econftool.c"

/-- the library has exactly these fixed-size arrays (a new one has to be looked at), every call that
    writes into one of them is length-bounded, and econftool's unbounded writes are the three known
    ones (two 3-byte answer buffers filled with "", the home directory of the passwd entry) -/
theorem C14_fixed_buffers :
    (fixedArrays.filter (fun a => isLib a.file)).map (fun a => (a.file, a.func, a.name, a.size)) =
      [("econf_error.c", "", "messages", 25), ("econf_error.c", "econf_errString", "buffer", 1024),
       ("getfilecontents.c", "", "last_scanned_filename", 4096), ("helpers.c", "get_absolute_path", "buffer", 4096),
       ("libeconf.c", "econf_readConfigWithCallback", "etc_dir", 4096), ("libeconf.c", "econf_readConfigWithCallback", "run_dir", 4096),
       ("libeconf.c", "econf_readConfigWithCallback", "usr_dir", 4096)] ∧
    (arrayWrites.filter (fun w => isLib w.file)).all (fun w => w.bounded) = true ∧
    ((arrayWrites.filter (fun w => !isLib w.file && !w.bounded)).map (fun w => (w.func, w.target, w.call))) =
      [("econf_edit", "input", "strcpy"), ("econf_revert", "input", "strcpy"), ("main", "home_dir", "strcpy")] := by
  decide

/-! ### C18: memory shared between threads -/

/-- objects with static storage that the library writes and that are not thread-local are exactly:
    the last-error-location record, the process-wide drop-in directory list, and the security
    settings — the documented process-wide state.  (The unknown-error-code buffer is thread-local.) -/
theorem C18_globals :
    ((statics.filter (fun s => !s.isConst && !s.threadLocal && s.written)).map (fun s => (s.file, s.name))) =
      [("getfilecontents.c", "allow_follow_symlinks"), ("getfilecontents.c", "file_group"), ("getfilecontents.c", "file_group_set"),
       ("getfilecontents.c", "file_owner"), ("getfilecontents.c", "file_owner_set"), ("getfilecontents.c", "file_permissions_set"),
       ("getfilecontents.c", "file_perms_dir"), ("getfilecontents.c", "file_perms_file"),
       ("getfilecontents.c", "last_scanned_filename"), ("getfilecontents.c", "last_scanned_line_nr"),
       ("libeconf.c", "conf_count"), ("libeconf.c", "conf_dirs")] ∧
    -- nothing with static storage exists that is neither constant, thread-local, nor in the list above
    (statics.filter (fun s => !s.isConst && !s.threadLocal && !s.written)).length = 0 := by
  decide

end Econf.Struct
