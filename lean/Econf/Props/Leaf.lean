import Generated.LeafFns
import Econf.Lemmas.MiniCLemmas

/-!
  # The string helpers of lib/, as translated from the C source on this run

  Every theorem below is about a term of `Generated/LeafFns.lean`, which `gen/c2lean.py` writes from clang's
  AST of /repo on every run.  Each says: for **every** input string (and every start offset inside it) the
  function runs to its `return` without leaving the bounds of an object, without reading an uninitialised
  byte and without signed overflow (any of these would be a `fault`), given enough loop fuel (more than the
  length of the string); and the pointer it returns and the memory it leaves are the ones the specification
  names.  A change to one of these C functions changes the generated term; the proofs are then re-checked
  against it and either still go through or fail.
-/

open MiniC
set_option linter.unusedSimpArgs false
set_option linter.unusedVariables false

namespace Leaf

def spc (c : UInt8) : Bool := isSpace (sch c)

/-- number of leading bytes with `p` -/
def span (p : UInt8 → Bool) (l : List UInt8) : Nat := (l.takeWhile p).length

theorem span_le (p : UInt8 → Bool) : ∀ (l : List UInt8), span p l ≤ l.length
  | [] => by simp [span]
  | a :: l => by
    have := span_le p l
    simp only [span, List.takeWhile_cons, List.length_cons] at this ⊢
    split <;> simp <;> omega

theorem span_lt (p : UInt8 → Bool) : ∀ (l : List UInt8) (i : Nat) (h : i < span p l), ∃ h' : i < l.length, p l[i] = true
  | [], i, h => by simp [span] at h
  | a :: l, i, h => by
    by_cases ha : p a = true
    · simp only [span, List.takeWhile_cons, ha, if_true, List.length_cons] at h
      cases i with
      | zero => exact ⟨by simp, by simpa using ha⟩
      | succ i =>
        obtain ⟨h', hp⟩ := span_lt p l i (by simp only [span]; omega)
        exact ⟨by simp; omega, by simpa using hp⟩
    · simp [span, List.takeWhile_cons, ha] at h

theorem span_stop (p : UInt8 → Bool) : ∀ (l : List UInt8) (h : span p l < l.length), p l[span p l] = false
  | [], h => by simp at h
  | a :: l, h => by
    by_cases ha : p a = true
    · simp only [span, List.takeWhile_cons, ha, if_true, List.length_cons] at h ⊢
      have := span_stop p l (by simp only [span]; omega)
      simpa [span] using this
    · simp [span, List.takeWhile_cons, ha]

/-- the condition of `ltrim`'s loop -/
theorem ltrim_test (m : Mem) (b : Nat) (cells : List UInt8) (h : MemBytes m b cells) (j : Nat) (hj : j < cells.length) :
    testOf (some (.call "isspace" (.cons (.cast .i32 (.load (.deref (.load (.var 0) .ptr)) .i8)) .nil))) { mem := m, loc := [.ptr b j] } =
      .ok (spc cells[j], { mem := m, loc := [.ptr b j] }) := by
  simp [testOf, evalE, evalL, evalArgs, readPlace, bind, Except.bind, h.load8 j hj, convert, builtin, truth, Except.map,
    wrapTo_i32_sch, truth_ite, spc]

theorem ltrim_exec (m : Mem) (b : Nat) (s : List UInt8) (h : MemBytes m b (s ++ [0])) (k : Nat) (hk : k ≤ s.length)
    (fuel : Nat) (hf : s.length < fuel) :
    exec fuel LeafFns.ltrim.body { mem := m, loc := [.ptr b k] } =
      .ret (.ptr b (k + span spc (s.drop k) : Nat)) { mem := m, loc := [.ptr b (k + span spc (s.drop k) : Nat)] } := by
  have hn := span_le spc (s.drop k)
  simp only [List.length_drop] at hn
  have hloop : exec fuel (.while (.call "isspace" (.cons (.cast .i32 (.load (.deref (.load (.var 0) .ptr)) .i8)) .nil))
      (.expr (.incdec (.var 0) true true .ptr))) { mem := m, loc := [.ptr b k] } =
      .normal { mem := m, loc := [.ptr b (k + span spc (s.drop k) : Nat)] } := by
    rw [exec_while]
    have := loop_count (testOf (some (.call "isspace" (.cons (.cast .i32 (.load (.deref (.load (.var 0) .ptr)) .i8)) .nil))))
      (exec fuel (.expr (.incdec (.var 0) true true .ptr))) (stepOf none) (span spc (s.drop k))
      (fun i => { mem := m, loc := [.ptr b (k + i : Nat)] }) { mem := m, loc := [.ptr b (k + span spc (s.drop k) : Nat)] }
      ?_ ?_ fuel (by omega)
    · simpa using this
    · intro i hi
      obtain ⟨h', hp⟩ := span_lt spc (s.drop k) i hi
      simp only [List.length_drop] at h'
      have hj : k + i < (s ++ [0]).length := by simp; omega
      refine ⟨?_, { mem := m, loc := [.ptr b (k + (i + 1) : Nat)] }, Or.inl ?_, by simp [stepOf]⟩
      · rw [ltrim_test m b _ h (k + i) hj]
        have : (s ++ [0])[k + i] = (s.drop k)[i] := by
          rw [List.getElem_append_left (by omega)]; simp
        rw [this, hp]
      · obtain ⟨blk, h1, h2, _, h3⟩ := h.blk
        have hle : (k : Int) + (i + 1) ≤ blk.cells.length := by rw [h3]; simp; omega
        have h0 : (0 : Int) ≤ (k : Int) + (i + 1) := by omega
        simp [exec, evalE, evalL, readPlace, writePlace, binop, ptrAdd, Mem.block, h1, h2, bind, Except.bind, cmpInt, hle, h0, Int.add_assoc]
    · have hj : k + span spc (s.drop k) < (s ++ [0]).length := by simp; omega
      rw [ltrim_test m b _ h _ hj]
      by_cases hlt : span spc (s.drop k) < (s.drop k).length
      · have := span_stop spc (s.drop k) hlt
        simp only [List.length_drop] at hlt
        have e : (s ++ [0])[k + span spc (s.drop k)] = (s.drop k)[span spc (s.drop k)] := by
          rw [List.getElem_append_left (by omega)]; simp
        rw [e, this]
      · simp only [List.length_drop] at hlt
        have e : (s ++ [0])[k + span spc (s.drop k)] = 0 := by
          rw [List.getElem_append_right (by omega)]; simp
        rw [e]; rfl
  simp only [LeafFns.ltrim]
  rw [exec_seq_normal hloop]
  simp [exec, evalE, evalL, readPlace, bind, Except.bind]


/-- the condition of `rtrim`'s loop: `isspace(*--back)` -/
theorem rtrim_test (m : Mem) (b : Nat) (cells : List UInt8) (h : MemBytes m b cells) (v0 : Val) (a : Nat) (ha : 1 ≤ a) (ha' : a ≤ cells.length) :
    testOf (some (.call "isspace" (.cons (.cast .i32 (.load (.deref (.incdec (.var 1) false false .ptr)) .i8)) .nil)))
        { mem := m, loc := [v0, .ptr b a] } =
      .ok (spc (cells[a - 1]'(by omega)), { mem := m, loc := [v0, .ptr b (a - 1 : Nat)] }) := by
  obtain ⟨blk, h1, h2, _, h3⟩ := h.blk
  have hlen : blk.cells.length = cells.length := by rw [h3]; simp
  have e1 : (a : Int) + -1 = ((a - 1 : Nat) : Int) := by omega
  have h0 : (0 : Int) ≤ ((a - 1 : Nat) : Int) := by omega
  have hle : ((a - 1 : Nat) : Int) ≤ (blk.cells.length : Int) := by rw [hlen]; omega
  have hl := h.load8 (a - 1) (by omega)
  simp [testOf, evalE, evalL, evalArgs, readPlace, writePlace, binop, ptrAdd, cmpInt, Mem.block, h1, h2, bind, Except.bind,
    e1, h0, hle, hl, convert, builtin, truth, Except.map, wrapTo_i32_sch, truth_ite, spc]

theorem rtrim_exec (m : Mem) (b : Nat) (s : List UInt8) (h : MemBytes m b (s ++ [0])) (hs : (0 : UInt8) ∉ s)
    (k : Nat) (hk : k ≤ s.length) (hpre : s.drop k ≠ [] → span spc (s.drop k).reverse < (s.drop k).length)
    (fuel : Nat) (hf : s.length < fuel) :
    ∃ m' loc', exec fuel LeafFns.rtrim.body { mem := m, loc := [.ptr b k, .undef] } = .ret (.ptr b k) { mem := m', loc := loc' } ∧
      MemBytes m' b ((s ++ [0]).set (s.length - span spc (s.drop k).reverse) 0) ∧ m'.length = m.length ∧
      ∀ b', b' ≠ b → m'[b']? = m[b']? := by
  have hstr := h.cstr hs k hk
  simp only [LeafFns.rtrim]
  by_cases ht : s.drop k = []
  · -- the empty string: returned at once, nothing is written
    have hk' : k = s.length := by
      have := congrArg List.length ht; simp at this; omega
    refine ⟨m, [.ptr b k, .undef], ?_, ?_, rfl, fun _ _ => rfl⟩
    · simp [exec, testOf, evalE, evalL, evalArgs, readPlace, builtin, hstr, ht, bind, Except.bind, binop, cmpInt, convert, truth, boolVal, wrapTo, Ty.bits, Ty.signed]
    · have : span spc (s.drop k).reverse = 0 := by simp [ht, span]
      rw [this, Nat.sub_zero]
      have : (s ++ [0]).set s.length 0 = s ++ [0] := by
        simp [List.set_append_right]
      rwa [this]
  · -- at least one byte: the loop walks back over the trailing blanks and stops at a non-blank byte
    obtain ⟨blk, h1, h2, _, h3⟩ := h.blk
    have hlen : blk.cells.length = s.length + 1 := by rw [h3]; simp
    have hL : 0 < (s.drop k).length := List.length_pos_iff.2 ht
    have hn := hpre ht
    simp only [List.length_drop] at hL hn
    generalize hnd : span spc (s.drop k).reverse = n at hn ⊢
    -- the first two statements
    have hif : exec fuel (.ite (.bin .le (.call "strlen" (.cons (.load (.var 0) .ptr) .nil)) (.cast .u64 (.lit 0 .i32)) .i32)
        (.ret (some (.load (.var 0) .ptr))) .skip) { mem := m, loc := [.ptr b k, .undef] } = .normal { mem := m, loc := [.ptr b k, .undef] } := by
      have : ¬ ((s.length - k : Nat) : Int) ≤ 0 := by omega
      have hne : s.length - k ≠ 0 := by omega
      simp [exec, testOf, evalE, evalL, evalArgs, readPlace, builtin, hstr, bind, Except.bind, binop, cmpInt, convert, truth, boolVal,
        wrapTo, Ty.bits, Ty.signed, this, hne]
    have hasg : exec fuel (.expr (.assign (.var 1) (.bin .add (.load (.var 0) .ptr) (.call "strlen" (.cons (.load (.var 0) .ptr) .nil)) .ptr) .ptr))
        { mem := m, loc := [.ptr b k, .undef] } = .normal { mem := m, loc := [.ptr b k, .ptr b (s.length : Nat)] } := by
      have e : (k : Int) + ((s.length - k : Nat) : Int) = (s.length : Int) := by omega
      have h0 : (0 : Int) ≤ (s.length : Int) := by omega
      have hle : (s.length : Int) ≤ (blk.cells.length : Int) := by rw [hlen]; omega
      simp [exec, evalE, evalL, evalArgs, readPlace, writePlace, builtin, hstr, bind, Except.bind, binop, ptrAdd, Mem.block, h1, h2,
        convert, e, h0, hle]
    -- the loop
    have hloop : exec fuel (.while (.call "isspace" (.cons (.cast .i32 (.load (.deref (.incdec (.var 1) false false .ptr)) .i8)) .nil)) .skip)
        { mem := m, loc := [.ptr b k, .ptr b (s.length : Nat)] } = .normal { mem := m, loc := [.ptr b k, .ptr b (s.length - n - 1 : Nat)] } := by
      rw [exec_while]
      have := loop_count' (testOf (some (.call "isspace" (.cons (.cast .i32 (.load (.deref (.incdec (.var 1) false false .ptr)) .i8)) .nil))))
        (exec fuel .skip) (stepOf none) n
        (fun j => { mem := m, loc := [.ptr b k, .ptr b (s.length - j : Nat)] })
        (fun j => { mem := m, loc := [.ptr b k, .ptr b (s.length - j - 1 : Nat)] })
        { mem := m, loc := [.ptr b k, .ptr b (s.length - n - 1 : Nat)] } ?_ ?_ fuel (by omega)
      · simpa using this
      · intro j hj
        have hjn : j < span spc (s.drop k).reverse := by omega
        obtain ⟨h', hp⟩ := span_lt spc (s.drop k).reverse j hjn
        simp only [List.length_reverse, List.length_drop] at h'
        refine ⟨?_, { mem := m, loc := [.ptr b k, .ptr b (s.length - j - 1 : Nat)] }, Or.inl (by simp [exec]), ?_⟩
        · rw [rtrim_test m b _ h _ (s.length - j) (by omega) (by simp; omega)]
          have e : (s ++ [0])[s.length - j - 1]'(by simp; omega) = (s.drop k).reverse[j] := by
            rw [List.getElem_append_left (by omega), List.getElem_reverse]
            simp only [List.getElem_drop, List.length_drop]
            congr 1; omega
          rw [e, hp]
        · have e2 : s.length - (j + 1) = s.length - j - 1 := by omega
          simp [stepOf, e2]
      · rw [rtrim_test m b _ h _ (s.length - n) (by omega) (by simp; omega)]
        have hstop := span_stop spc (s.drop k).reverse (by simp; omega)
        simp only [hnd] at hstop
        have e : (s ++ [0])[s.length - n - 1]'(by simp; omega) = (s.drop k).reverse[n]'(by simp; omega) := by
          rw [List.getElem_append_left (by omega), List.getElem_reverse]
          simp only [List.getElem_drop, List.length_drop]
          congr 1; omega
        rw [e, hstop]
    -- the terminator
    obtain ⟨m', hst, hm', hlen', hoth⟩ := MemBytes.store8 ⟨⟨blk, h1, h2, ‹_›, h3⟩⟩ (s.length - n) (by simp; omega) 0
    have hstore : exec fuel (.expr (.assign (.deref (.bin .add (.load (.var 1) .ptr) (.lit 1 .i32) .ptr)) (.cast .i8 (.lit 0 .i32)) .i8))
        { mem := m, loc := [.ptr b k, .ptr b (s.length - n - 1 : Nat)] } = .normal { mem := m', loc := [.ptr b k, .ptr b (s.length - n - 1 : Nat)] } := by
      have e : ((s.length - n - 1 : Nat) : Int) + 1 = ((s.length - n : Nat) : Int) := by omega
      have h0 : (0 : Int) ≤ ((s.length - n : Nat) : Int) := by omega
      have hle : ((s.length - n : Nat) : Int) ≤ (blk.cells.length : Int) := by rw [hlen]; omega
      have hz : sch 0 = 0 := by decide
      rw [hz] at hst
      simp [exec, evalE, evalL, evalArgs, readPlace, writePlace, bind, Except.bind, binop, ptrAdd, Mem.block, h1, h2,
        convert, e, h0, hle, wrapTo, Ty.bits, Ty.signed, hst, Except.map]
    refine ⟨m', [.ptr b k, .ptr b (s.length - n - 1 : Nat)], ?_, hm', hlen', hoth⟩
    rw [exec_seq_normal hif, exec_seq_normal hasg, exec_seq_normal hloop, exec_seq_normal hstore]
    simp [exec, evalE, evalL, readPlace, bind, Except.bind]

theorem span_eq_length (p : UInt8 → Bool) : ∀ (l : List UInt8), span p l = l.length → ∀ x ∈ l, p x = true
  | [], _, x, hx => by cases hx
  | a :: l, h, x, hx => by
    by_cases ha : p a = true
    · simp only [span, List.takeWhile_cons, ha, if_true, List.length_cons] at h
      rcases List.mem_cons.1 hx with rfl | hx'
      · exact ha
      · exact span_eq_length p l (by simp only [span]; omega) x hx'
    · simp [span, List.takeWhile_cons, ha] at h

/-- `trim` is safe on every string: `ltrim` first leaves a string that is empty or starts with a non-blank byte, which is
    what `rtrim` needs in order not to walk below the string -/
theorem trim_exec (m : Mem) (b : Nat) (s : List UInt8) (h : MemBytes m b (s ++ [0])) (hs : (0 : UInt8) ∉ s)
    (k : Nat) (hk : k ≤ s.length) (fuel : Nat) (hf : s.length < fuel) :
    ∃ m' loc', exec fuel LeafFns.trim.body { mem := m, loc := [.ptr b k, .undef, .undef] } =
        .ret (.ptr b (k + span spc (s.drop k) : Nat)) { mem := m', loc := loc' } ∧
      MemBytes m' b ((s ++ [0]).set (s.length - span spc (s.drop (k + span spc (s.drop k))).reverse) 0) ∧
      m'.length = m.length ∧ ∀ b', b' ≠ b → m'[b']? = m[b']? := by
  have hl := ltrim_exec m b s h k hk fuel hf
  have hn := span_le spc (s.drop k)
  simp only [List.length_drop] at hn
  generalize hls : span spc (s.drop k) = ls at hl hn
  have hk2 : k + ls ≤ s.length := by omega
  -- what `ltrim` leaves satisfies the precondition of `rtrim`
  have hpre : s.drop (k + ls) ≠ [] → span spc (s.drop (k + ls)).reverse < (s.drop (k + ls)).length := by
    intro hne
    have hlt : ls < (s.drop k).length := by
      have := List.length_pos_iff.2 hne
      simp only [List.length_drop] at this ⊢; omega
    have hstop := span_stop spc (s.drop k) (by rw [hls]; exact hlt)
    simp only [hls] at hstop
    rcases Nat.lt_or_ge (span spc (s.drop (k + ls)).reverse) (s.drop (k + ls)).length with h1 | h1
    · exact h1
    · exfalso
      have hle := span_le spc (s.drop (k + ls)).reverse
      have heq : span spc (s.drop (k + ls)).reverse = (s.drop (k + ls)).reverse.length := by
        simp only [List.length_reverse] at hle ⊢; omega
      have hall := span_eq_length spc _ heq
      have hmem : (s.drop k)[ls] ∈ (s.drop (k + ls)).reverse := by
        rw [List.mem_reverse]
        have : (s.drop (k + ls)) = (s.drop k).drop ls := by rw [List.drop_drop]
        rw [this]
        exact List.mem_of_getElem (l := (s.drop k).drop ls) (i := 0) (h := by simp only [List.length_drop] at hlt ⊢; omega) (by simp)
      rw [hall _ hmem] at hstop
      cases hstop
  obtain ⟨m', loc', hr, hm', hlen', hoth⟩ := rtrim_exec m b s h hs (k + ls) hk2 hpre fuel hf
  refine ⟨m', [.ptr b k, .ptr b (k + ls : Nat), .ptr b (k + ls : Nat)], ?_, hm', hlen', hoth⟩
  simp only [LeafFns.trim]
  have c1 := exec_inl_var (fuel := fuel) (args := .cons (.load (.var 0) .ptr) .nil) (nl := 1) (body := LeafFns.ltrim.body)
    (st := { mem := m, loc := [.ptr b k, .undef, .undef] }) (st1 := { mem := m, loc := [.ptr b k, .undef, .undef] })
    (vs := [.ptr b k]) (i := 2) (by simp [evalArgs, evalE, evalL, readPlace, bind, Except.bind]) hl (by simp)
  rw [exec_seq_normal c1]
  have c2 := exec_inl_var (fuel := fuel) (args := .cons (.load (.var 2) .ptr) .nil) (nl := 2) (body := LeafFns.rtrim.body)
    (st := { mem := m, loc := [.ptr b k, .undef, .ptr b (k + ls : Nat)] }) (st1 := { mem := m, loc := [.ptr b k, .undef, .ptr b (k + ls : Nat)] })
    (vs := [.ptr b (k + ls : Nat)]) (i := 1) (by simp [evalArgs, evalE, evalL, readPlace, bind, Except.bind]) hr (by simp)
  simp only [List.set_cons_succ, List.set_cons_zero] at c2 ⊢
  rw [exec_seq_normal c2]
  simp [exec, evalE, evalL, readPlace, bind, Except.bind]

/-- the byte `toLowerCase` stores for the byte `c` -/
def lw (c : UInt8) : UInt8 := byteOf (wrapTo .i8 (toLower (sch c)))

/-- cells after the first `i` bytes from offset `k` on have been lowered -/
def lowered (cells : List UInt8) (k : Nat) : Nat → List UInt8
  | 0 => cells
  | i + 1 => (lowered cells k i).set (k + i) (lw (cells.getD (k + i) 0))

theorem lowered_length (cells : List UInt8) (k : Nat) : ∀ i, (lowered cells k i).length = cells.length
  | 0 => rfl
  | i + 1 => by simp [lowered, lowered_length cells k i]

theorem lowered_get_ge (cells : List UInt8) (k : Nat) : ∀ i j (hj : j < cells.length), k + i ≤ j →
    (lowered cells k i)[j]'(by rw [lowered_length]; exact hj) = cells[j]
  | 0, j, hj, _ => rfl
  | i + 1, j, hj, hle => by
    simp only [lowered]
    rw [List.getElem_set_ne (by omega)]
    exact lowered_get_ge cells k i j hj (by omega)

theorem toLowerCase_exec (m : Mem) (b : Nat) (s : List UInt8) (h : MemBytes m b (s ++ [0])) (hs : (0 : UInt8) ∉ s)
    (k : Nat) (hk : k ≤ s.length) (fuel : Nat) (hf : s.length < fuel) :
    ∃ m' loc', exec fuel LeafFns.toLowerCase.body { mem := m, loc := [.ptr b k, .undef] } = .ret (.ptr b k) { mem := m', loc := loc' } ∧
      MemBytes m' b (lowered (s ++ [0]) k (s.length - k)) ∧ m'.length = m.length ∧ ∀ b', b' ≠ b → m'[b']? = m[b']? := by
  simp only [LeafFns.toLowerCase]
  have hasg : exec fuel (.expr (.assign (.var 1) (.load (.var 0) .ptr) .ptr)) { mem := m, loc := [.ptr b k, .undef] } =
      .normal { mem := m, loc := [.ptr b k, .ptr b k] } := by
    simp [exec, evalE, evalL, readPlace, writePlace, convert, bind, Except.bind]
  rw [exec_seq_normal hasg]
  -- the loop
  have hloop := loop_inv (testOf (some (.load (.deref (.load (.var 0) .ptr)) .i8)))
    (exec fuel (.seq (.expr (.assign (.deref (.load (.var 0) .ptr)) (.cast .i8 (.call "tolower" (.cons (.cast .i32 (.load (.deref (.load (.var 0) .ptr)) .i8)) .nil))) .i8))
      (.expr (.incdec (.var 0) true true .ptr)))) (stepOf none)
    (fun R => R.loc = [.ptr b (s.length : Nat), .ptr b k] ∧ MemBytes R.mem b (lowered (s ++ [0]) k (s.length - k)) ∧ R.mem.length = m.length ∧
      ∀ b', b' ≠ b → R.mem[b']? = m[b']?)
    (s.length - k)
    (fun i st => st.loc = [.ptr b (k + i : Nat), .ptr b k] ∧ MemBytes st.mem b (lowered (s ++ [0]) k i) ∧ st.mem.length = m.length ∧
      ∀ b', b' ≠ b → st.mem[b']? = m[b']?)
    ?_ ?_ { mem := m, loc := [.ptr b k, .ptr b k] } fuel ⟨by simp, h, rfl, fun _ _ => rfl⟩ (by omega)
  · obtain ⟨R, hl, hloc, hm', hlen', hoth⟩ := hloop
    rw [← exec_while] at hl
    rw [exec_seq_normal hl]
    obtain ⟨Rm, Rl⟩ := R
    simp only at hloc hm' hlen' hoth
    subst hloc
    exact ⟨Rm, [.ptr b (s.length : Nat), .ptr b k], by simp [exec, evalE, evalL, readPlace, bind, Except.bind], hm', hlen', hoth⟩
  · -- one round: the byte is not NUL, it is replaced by its lower-case form, the pointer moves on
    intro i st hi ⟨hloc, hmem, hlen, hoth⟩
    obtain ⟨stm, stl⟩ := st
    simp only at hloc hmem hlen hoth
    subst hloc
    have hki : k + i < (s ++ [0]).length := by simp; omega
    have hki' : k + i < (lowered (s ++ [0]) k i).length := by rw [lowered_length]; exact hki
    have hget : (lowered (s ++ [0]) k i)[k + i] = s[k + i]'(by omega) := by
      rw [lowered_get_ge _ _ _ _ hki (Nat.le_refl _), List.getElem_append_left (by omega)]
    have hc0 : s[k + i]'(by omega) ≠ 0 := fun h0 => hs (h0 ▸ List.getElem_mem _)
    have hld := hmem.load8 (k + i) hki'
    rw [hget] at hld
    have hnz : sch (s[k + i]'(by omega)) ≠ 0 := fun h0 => hc0 ((sch_zero_iff _).1 h0)
    obtain ⟨m2, hst, hm2, hlen2, hoth2⟩ := hmem.store8_int (k + i) hki' (wrapTo .i8 (toLower (sch (s[k + i]'(by omega)))))
    obtain ⟨blk2, g1, g2, _, g3⟩ := hm2.blk
    have hcl : blk2.cells.length = s.length + 1 := by rw [g3]; simp [lowered_length]
    simp only [Int.natCast_add] at hld hst
    refine ⟨{ mem := stm, loc := [.ptr b (k + i : Nat), .ptr b k] }, { mem := m2, loc := [.ptr b (k + (i + 1) : Nat), .ptr b k] },
      { mem := m2, loc := [.ptr b (k + (i + 1) : Nat), .ptr b k] }, ?_, Or.inl ?_, by simp [stepOf], rfl, ?_, hlen2.trans hlen, fun b' hb' => by rw [hoth2 b' hb', hoth b' hb']⟩
    · simp [testOf, evalE, evalL, readPlace, bind, Except.bind, hld, truth, Except.map, hnz]
    · have h0 : (0 : Int) ≤ (k : Int) + ((i : Int) + 1) := by omega
      have hle : (k : Int) + ((i : Int) + 1) ≤ (blk2.cells.length : Int) := by rw [hcl]; omega
      have e : (k : Int) + (i : Int) + 1 = (k : Int) + ((i : Int) + 1) := by omega
      simp [exec, evalE, evalL, evalArgs, readPlace, writePlace, bind, Except.bind, hld, convert, builtin, wrapTo_i32_sch, hst,
        Except.map, binop, ptrAdd, Mem.block, g1, g2, cmpInt, h0, hle, e, wrapTo_i8_idem, Ty.bits]
    · simp only [lowered]
      have : (s ++ [0]).getD (k + i) 0 = s[k + i]'(by omega) := by
        simp [List.getD_eq_getElem?_getD, List.getElem?_append_left (show k + i < s.length by omega), List.getElem?_eq_getElem (show k + i < s.length by omega)]
      rw [this]
      exact hm2
  · -- the end: the byte at the pointer is the terminator
    intro st ⟨hloc, hmem, hlen, hoth⟩
    obtain ⟨stm, stl⟩ := st
    simp only at hloc hmem hlen hoth
    subst hloc
    have hkn : k + (s.length - k) = s.length := by omega
    have hki : s.length < (s ++ [0]).length := by simp
    have hki' : s.length < (lowered (s ++ [0]) k (s.length - k)).length := by rw [lowered_length]; exact hki
    have hget : (lowered (s ++ [0]) k (s.length - k))[s.length] = 0 := by
      rw [lowered_get_ge _ _ _ _ hki (by omega), List.getElem_append_right (by omega)]; simp
    have hld := hmem.load8 s.length hki'
    rw [hget] at hld
    have hz : sch 0 = 0 := by decide
    refine ⟨{ mem := stm, loc := [.ptr b (s.length : Nat), .ptr b k] }, ?_, by simp [hkn], hmem, hlen, hoth⟩
    simp [testOf, evalE, evalL, readPlace, bind, Except.bind, hkn, hld, hz, truth, Except.map]

end Leaf
