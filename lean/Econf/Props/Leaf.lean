import Generated.LeafFns
import Econf.Lemmas.MiniCLemmas
import Econf.KeyFileOps
import Econf.Writer
import Econf.Parser

/-!
  # The string helpers of lib/, as translated from the C source on this run

  Every theorem below is about a term of `Generated/LeafFns.lean`, which `gen/c2lean.py` writes from clang's
  AST of /repo on every run.  Each says: for **every** input string (and every start offset inside it) the
  function runs to its `return` without leaving the bounds of an object, without reading an uninitialised
  byte and without signed overflow (any of these would be a `fault`), given enough loop fuel (more than the
  length of the string); and the pointer it returns and the memory it leaves are the ones the specification
  names.  A change to one of these C functions changes the generated term; the proofs are then re-checked
  against it and either still go through or fail.
-/

open MiniC
set_option linter.unusedSimpArgs false
set_option linter.unusedVariables false

namespace Leaf

def spc (c : UInt8) : Bool := isSpace (sch c)

/-- number of leading bytes with `p` -/
def span (p : UInt8 → Bool) (l : List UInt8) : Nat := (l.takeWhile p).length

theorem span_le (p : UInt8 → Bool) : ∀ (l : List UInt8), span p l ≤ l.length
  | [] => by simp [span]
  | a :: l => by
    have := span_le p l
    simp only [span, List.takeWhile_cons, List.length_cons] at this ⊢
    split <;> simp <;> omega

theorem span_lt (p : UInt8 → Bool) : ∀ (l : List UInt8) (i : Nat) (h : i < span p l), ∃ h' : i < l.length, p l[i] = true
  | [], i, h => by simp [span] at h
  | a :: l, i, h => by
    by_cases ha : p a = true
    · simp only [span, List.takeWhile_cons, ha, if_true, List.length_cons] at h
      cases i with
      | zero => exact ⟨by simp, by simpa using ha⟩
      | succ i =>
        obtain ⟨h', hp⟩ := span_lt p l i (by simp only [span]; omega)
        exact ⟨by simp; omega, by simpa using hp⟩
    · simp [span, List.takeWhile_cons, ha] at h

theorem span_stop (p : UInt8 → Bool) : ∀ (l : List UInt8) (h : span p l < l.length), p l[span p l] = false
  | [], h => by simp at h
  | a :: l, h => by
    by_cases ha : p a = true
    · simp only [span, List.takeWhile_cons, ha, if_true, List.length_cons] at h ⊢
      have := span_stop p l (by simp only [span]; omega)
      simpa [span] using this
    · simp [span, List.takeWhile_cons, ha]

/-- the condition of `ltrim`'s loop -/
theorem ltrim_test (m : Mem) (b : Nat) (cells : List UInt8) (h : MemBytes m b cells) (j : Nat) (hj : j < cells.length) :
    testOf (some (.call "isspace" (.cons (.cast .i32 (.load (.deref (.load (.var 0) .ptr)) .i8)) .nil))) { mem := m, loc := [.ptr b j] } =
      .ok (spc cells[j], { mem := m, loc := [.ptr b j] }) := by
  simp [testOf, evalE, evalL, evalArgs, readPlace, bind, Except.bind, h.load8 j hj, convert, builtin, truth, Except.map,
    wrapTo_i32_sch, truth_ite, spc]

theorem ltrim_exec (m : Mem) (b : Nat) (s : List UInt8) (h : MemBytes m b (s ++ [0])) (k : Nat) (hk : k ≤ s.length)
    (fuel : Nat) (hf : s.length < fuel) :
    exec fuel LeafFns.ltrim.body { mem := m, loc := [.ptr b k] } =
      .ret (.ptr b (k + span spc (s.drop k) : Nat)) { mem := m, loc := [.ptr b (k + span spc (s.drop k) : Nat)] } := by
  have hn := span_le spc (s.drop k)
  simp only [List.length_drop] at hn
  have hloop : exec fuel (.while (.call "isspace" (.cons (.cast .i32 (.load (.deref (.load (.var 0) .ptr)) .i8)) .nil))
      (.expr (.incdec (.var 0) true true .ptr))) { mem := m, loc := [.ptr b k] } =
      .normal { mem := m, loc := [.ptr b (k + span spc (s.drop k) : Nat)] } := by
    rw [exec_while]
    have := loop_count (testOf (some (.call "isspace" (.cons (.cast .i32 (.load (.deref (.load (.var 0) .ptr)) .i8)) .nil))))
      (exec fuel (.expr (.incdec (.var 0) true true .ptr))) (stepOf none) (span spc (s.drop k))
      (fun i => { mem := m, loc := [.ptr b (k + i : Nat)] }) { mem := m, loc := [.ptr b (k + span spc (s.drop k) : Nat)] }
      ?_ ?_ fuel (by omega)
    · simpa using this
    · intro i hi
      obtain ⟨h', hp⟩ := span_lt spc (s.drop k) i hi
      simp only [List.length_drop] at h'
      have hj : k + i < (s ++ [0]).length := by simp; omega
      refine ⟨?_, { mem := m, loc := [.ptr b (k + (i + 1) : Nat)] }, Or.inl ?_, by simp [stepOf]⟩
      · rw [ltrim_test m b _ h (k + i) hj]
        have : (s ++ [0])[k + i] = (s.drop k)[i] := by
          rw [List.getElem_append_left (by omega)]; simp
        rw [this, hp]
      · obtain ⟨blk, h1, h2, _, h3⟩ := h.blk
        have hle : (k : Int) + (i + 1) ≤ blk.cells.length := by rw [h3]; simp; omega
        have h0 : (0 : Int) ≤ (k : Int) + (i + 1) := by omega
        simp [exec, evalE, evalL, readPlace, writePlace, binop, ptrAdd, Mem.block, h1, h2, bind, Except.bind, cmpInt, hle, h0, Int.add_assoc]
    · have hj : k + span spc (s.drop k) < (s ++ [0]).length := by simp; omega
      rw [ltrim_test m b _ h _ hj]
      by_cases hlt : span spc (s.drop k) < (s.drop k).length
      · have := span_stop spc (s.drop k) hlt
        simp only [List.length_drop] at hlt
        have e : (s ++ [0])[k + span spc (s.drop k)] = (s.drop k)[span spc (s.drop k)] := by
          rw [List.getElem_append_left (by omega)]; simp
        rw [e, this]
      · simp only [List.length_drop] at hlt
        have e : (s ++ [0])[k + span spc (s.drop k)] = 0 := by
          rw [List.getElem_append_right (by omega)]; simp
        rw [e]; rfl
  simp only [LeafFns.ltrim]
  rw [exec_seq_normal hloop]
  simp [exec, evalE, evalL, readPlace, bind, Except.bind]


/-- the condition of `rtrim`'s loop: `isspace(*--back)` -/
theorem rtrim_test (m : Mem) (b : Nat) (cells : List UInt8) (h : MemBytes m b cells) (v0 : Val) (a : Nat) (ha : 1 ≤ a) (ha' : a ≤ cells.length) :
    testOf (some (.call "isspace" (.cons (.cast .i32 (.load (.deref (.incdec (.var 1) false false .ptr)) .i8)) .nil)))
        { mem := m, loc := [v0, .ptr b a] } =
      .ok (spc (cells[a - 1]'(by omega)), { mem := m, loc := [v0, .ptr b (a - 1 : Nat)] }) := by
  obtain ⟨blk, h1, h2, _, h3⟩ := h.blk
  have hlen : blk.cells.length = cells.length := by rw [h3]; simp
  have e1 : (a : Int) + -1 = ((a - 1 : Nat) : Int) := by omega
  have h0 : (0 : Int) ≤ ((a - 1 : Nat) : Int) := by omega
  have hle : ((a - 1 : Nat) : Int) ≤ (blk.cells.length : Int) := by rw [hlen]; omega
  have hl := h.load8 (a - 1) (by omega)
  simp [testOf, evalE, evalL, evalArgs, readPlace, writePlace, binop, ptrAdd, cmpInt, Mem.block, h1, h2, bind, Except.bind,
    e1, h0, hle, hl, convert, builtin, truth, Except.map, wrapTo_i32_sch, truth_ite, spc]

theorem rtrim_exec (m : Mem) (b : Nat) (s : List UInt8) (h : MemBytes m b (s ++ [0])) (hs : (0 : UInt8) ∉ s)
    (k : Nat) (hk : k ≤ s.length) (hpre : s.drop k ≠ [] → span spc (s.drop k).reverse < (s.drop k).length)
    (fuel : Nat) (hf : s.length < fuel) :
    ∃ m' loc', exec fuel LeafFns.rtrim.body { mem := m, loc := [.ptr b k, .undef] } = .ret (.ptr b k) { mem := m', loc := loc' } ∧
      MemBytes m' b ((s ++ [0]).set (s.length - span spc (s.drop k).reverse) 0) ∧ m'.length = m.length ∧
      ∀ b', b' ≠ b → m'[b']? = m[b']? := by
  have hstr := h.cstr hs k hk
  simp only [LeafFns.rtrim]
  by_cases ht : s.drop k = []
  · -- the empty string: returned at once, nothing is written
    have hk' : k = s.length := by
      have := congrArg List.length ht; simp at this; omega
    refine ⟨m, [.ptr b k, .undef], ?_, ?_, rfl, fun _ _ => rfl⟩
    · simp [exec, testOf, evalE, evalL, evalArgs, readPlace, builtin, hstr, ht, bind, Except.bind, binop, cmpInt, convert, truth, boolVal, wrapTo, Ty.bits, Ty.signed]
    · have : span spc (s.drop k).reverse = 0 := by simp [ht, span]
      rw [this, Nat.sub_zero]
      have : (s ++ [0]).set s.length 0 = s ++ [0] := by
        simp [List.set_append_right]
      rwa [this]
  · -- at least one byte: the loop walks back over the trailing blanks and stops at a non-blank byte
    obtain ⟨blk, h1, h2, _, h3⟩ := h.blk
    have hlen : blk.cells.length = s.length + 1 := by rw [h3]; simp
    have hL : 0 < (s.drop k).length := List.length_pos_iff.2 ht
    have hn := hpre ht
    simp only [List.length_drop] at hL hn
    generalize hnd : span spc (s.drop k).reverse = n at hn ⊢
    -- the first two statements
    have hif : exec fuel (.ite (.bin .le (.call "strlen" (.cons (.load (.var 0) .ptr) .nil)) (.cast .u64 (.lit 0 .i32)) .i32)
        (.ret (some (.load (.var 0) .ptr))) .skip) { mem := m, loc := [.ptr b k, .undef] } = .normal { mem := m, loc := [.ptr b k, .undef] } := by
      have : ¬ ((s.length - k : Nat) : Int) ≤ 0 := by omega
      have hne : s.length - k ≠ 0 := by omega
      simp [exec, testOf, evalE, evalL, evalArgs, readPlace, builtin, hstr, bind, Except.bind, binop, cmpInt, convert, truth, boolVal,
        wrapTo, Ty.bits, Ty.signed, this, hne]
    have hasg : exec fuel (.expr (.assign (.var 1) (.bin .add (.load (.var 0) .ptr) (.call "strlen" (.cons (.load (.var 0) .ptr) .nil)) .ptr) .ptr))
        { mem := m, loc := [.ptr b k, .undef] } = .normal { mem := m, loc := [.ptr b k, .ptr b (s.length : Nat)] } := by
      have e : (k : Int) + ((s.length - k : Nat) : Int) = (s.length : Int) := by omega
      have h0 : (0 : Int) ≤ (s.length : Int) := by omega
      have hle : (s.length : Int) ≤ (blk.cells.length : Int) := by rw [hlen]; omega
      simp [exec, evalE, evalL, evalArgs, readPlace, writePlace, builtin, hstr, bind, Except.bind, binop, ptrAdd, Mem.block, h1, h2,
        convert, e, h0, hle]
    -- the loop
    have hloop : exec fuel (.while (.call "isspace" (.cons (.cast .i32 (.load (.deref (.incdec (.var 1) false false .ptr)) .i8)) .nil)) .skip)
        { mem := m, loc := [.ptr b k, .ptr b (s.length : Nat)] } = .normal { mem := m, loc := [.ptr b k, .ptr b (s.length - n - 1 : Nat)] } := by
      rw [exec_while]
      have := loop_count' (testOf (some (.call "isspace" (.cons (.cast .i32 (.load (.deref (.incdec (.var 1) false false .ptr)) .i8)) .nil))))
        (exec fuel .skip) (stepOf none) n
        (fun j => { mem := m, loc := [.ptr b k, .ptr b (s.length - j : Nat)] })
        (fun j => { mem := m, loc := [.ptr b k, .ptr b (s.length - j - 1 : Nat)] })
        { mem := m, loc := [.ptr b k, .ptr b (s.length - n - 1 : Nat)] } ?_ ?_ fuel (by omega)
      · simpa using this
      · intro j hj
        have hjn : j < span spc (s.drop k).reverse := by omega
        obtain ⟨h', hp⟩ := span_lt spc (s.drop k).reverse j hjn
        simp only [List.length_reverse, List.length_drop] at h'
        refine ⟨?_, { mem := m, loc := [.ptr b k, .ptr b (s.length - j - 1 : Nat)] }, Or.inl (by simp [exec]), ?_⟩
        · rw [rtrim_test m b _ h _ (s.length - j) (by omega) (by simp; omega)]
          have e : (s ++ [0])[s.length - j - 1]'(by simp; omega) = (s.drop k).reverse[j] := by
            rw [List.getElem_append_left (by omega), List.getElem_reverse]
            simp only [List.getElem_drop, List.length_drop]
            congr 1; omega
          rw [e, hp]
        · have e2 : s.length - (j + 1) = s.length - j - 1 := by omega
          simp [stepOf, e2]
      · rw [rtrim_test m b _ h _ (s.length - n) (by omega) (by simp; omega)]
        have hstop := span_stop spc (s.drop k).reverse (by simp; omega)
        simp only [hnd] at hstop
        have e : (s ++ [0])[s.length - n - 1]'(by simp; omega) = (s.drop k).reverse[n]'(by simp; omega) := by
          rw [List.getElem_append_left (by omega), List.getElem_reverse]
          simp only [List.getElem_drop, List.length_drop]
          congr 1; omega
        rw [e, hstop]
    -- the terminator
    obtain ⟨m', hst, hm', hlen', hoth⟩ := MemBytes.store8 ⟨⟨blk, h1, h2, ‹_›, h3⟩⟩ (s.length - n) (by simp; omega) 0
    have hstore : exec fuel (.expr (.assign (.deref (.bin .add (.load (.var 1) .ptr) (.lit 1 .i32) .ptr)) (.cast .i8 (.lit 0 .i32)) .i8))
        { mem := m, loc := [.ptr b k, .ptr b (s.length - n - 1 : Nat)] } = .normal { mem := m', loc := [.ptr b k, .ptr b (s.length - n - 1 : Nat)] } := by
      have e : ((s.length - n - 1 : Nat) : Int) + 1 = ((s.length - n : Nat) : Int) := by omega
      have h0 : (0 : Int) ≤ ((s.length - n : Nat) : Int) := by omega
      have hle : ((s.length - n : Nat) : Int) ≤ (blk.cells.length : Int) := by rw [hlen]; omega
      have hz : sch 0 = 0 := by decide
      rw [hz] at hst
      simp [exec, evalE, evalL, evalArgs, readPlace, writePlace, bind, Except.bind, binop, ptrAdd, Mem.block, h1, h2,
        convert, e, h0, hle, wrapTo, Ty.bits, Ty.signed, hst, Except.map]
    refine ⟨m', [.ptr b k, .ptr b (s.length - n - 1 : Nat)], ?_, hm', hlen', hoth⟩
    rw [exec_seq_normal hif, exec_seq_normal hasg, exec_seq_normal hloop, exec_seq_normal hstore]
    simp [exec, evalE, evalL, readPlace, bind, Except.bind]

theorem span_eq_length (p : UInt8 → Bool) : ∀ (l : List UInt8), span p l = l.length → ∀ x ∈ l, p x = true
  | [], _, x, hx => by cases hx
  | a :: l, h, x, hx => by
    by_cases ha : p a = true
    · simp only [span, List.takeWhile_cons, ha, if_true, List.length_cons] at h
      rcases List.mem_cons.1 hx with rfl | hx'
      · exact ha
      · exact span_eq_length p l (by simp only [span]; omega) x hx'
    · simp [span, List.takeWhile_cons, ha] at h

/-- `trim` is safe on every string: `ltrim` first leaves a string that is empty or starts with a non-blank byte, which is
    what `rtrim` needs in order not to walk below the string -/
theorem trim_exec (m : Mem) (b : Nat) (s : List UInt8) (h : MemBytes m b (s ++ [0])) (hs : (0 : UInt8) ∉ s)
    (k : Nat) (hk : k ≤ s.length) (fuel : Nat) (hf : s.length < fuel) :
    ∃ m' loc', exec fuel LeafFns.trim.body { mem := m, loc := [.ptr b k, .undef, .undef] } =
        .ret (.ptr b (k + span spc (s.drop k) : Nat)) { mem := m', loc := loc' } ∧
      MemBytes m' b ((s ++ [0]).set (s.length - span spc (s.drop (k + span spc (s.drop k))).reverse) 0) ∧
      m'.length = m.length ∧ ∀ b', b' ≠ b → m'[b']? = m[b']? := by
  have hl := ltrim_exec m b s h k hk fuel hf
  have hn := span_le spc (s.drop k)
  simp only [List.length_drop] at hn
  generalize hls : span spc (s.drop k) = ls at hl hn
  have hk2 : k + ls ≤ s.length := by omega
  -- what `ltrim` leaves satisfies the precondition of `rtrim`
  have hpre : s.drop (k + ls) ≠ [] → span spc (s.drop (k + ls)).reverse < (s.drop (k + ls)).length := by
    intro hne
    have hlt : ls < (s.drop k).length := by
      have := List.length_pos_iff.2 hne
      simp only [List.length_drop] at this ⊢; omega
    have hstop := span_stop spc (s.drop k) (by rw [hls]; exact hlt)
    simp only [hls] at hstop
    rcases Nat.lt_or_ge (span spc (s.drop (k + ls)).reverse) (s.drop (k + ls)).length with h1 | h1
    · exact h1
    · exfalso
      have hle := span_le spc (s.drop (k + ls)).reverse
      have heq : span spc (s.drop (k + ls)).reverse = (s.drop (k + ls)).reverse.length := by
        simp only [List.length_reverse] at hle ⊢; omega
      have hall := span_eq_length spc _ heq
      have hmem : (s.drop k)[ls] ∈ (s.drop (k + ls)).reverse := by
        rw [List.mem_reverse]
        have : (s.drop (k + ls)) = (s.drop k).drop ls := by rw [List.drop_drop]
        rw [this]
        exact List.mem_of_getElem (l := (s.drop k).drop ls) (i := 0) (h := by simp only [List.length_drop] at hlt ⊢; omega) (by simp)
      rw [hall _ hmem] at hstop
      cases hstop
  obtain ⟨m', loc', hr, hm', hlen', hoth⟩ := rtrim_exec m b s h hs (k + ls) hk2 hpre fuel hf
  refine ⟨m', [.ptr b k, .ptr b (k + ls : Nat), .ptr b (k + ls : Nat)], ?_, hm', hlen', hoth⟩
  simp only [LeafFns.trim]
  have c1 := exec_inl_var (fuel := fuel) (args := .cons (.load (.var 0) .ptr) .nil) (nl := 1) (body := LeafFns.ltrim.body)
    (st := { mem := m, loc := [.ptr b k, .undef, .undef] }) (st1 := { mem := m, loc := [.ptr b k, .undef, .undef] })
    (vs := [.ptr b k]) (i := 2) (by simp [evalArgs, evalE, evalL, readPlace, bind, Except.bind]) hl (by simp)
  rw [exec_seq_normal c1]
  have c2 := exec_inl_var (fuel := fuel) (args := .cons (.load (.var 2) .ptr) .nil) (nl := 2) (body := LeafFns.rtrim.body)
    (st := { mem := m, loc := [.ptr b k, .undef, .ptr b (k + ls : Nat)] }) (st1 := { mem := m, loc := [.ptr b k, .undef, .ptr b (k + ls : Nat)] })
    (vs := [.ptr b (k + ls : Nat)]) (i := 1) (by simp [evalArgs, evalE, evalL, readPlace, bind, Except.bind]) hr (by simp)
  simp only [List.set_cons_succ, List.set_cons_zero] at c2 ⊢
  rw [exec_seq_normal c2]
  simp [exec, evalE, evalL, readPlace, bind, Except.bind]

/-- the byte `toLowerCase` stores for the byte `c` -/
def lw (c : UInt8) : UInt8 := byteOf (wrapTo .i8 (toLower (sch c)))

/-- cells after the first `i` bytes from offset `k` on have been lowered -/
def lowered (cells : List UInt8) (k : Nat) : Nat → List UInt8
  | 0 => cells
  | i + 1 => (lowered cells k i).set (k + i) (lw (cells.getD (k + i) 0))

theorem lowered_length (cells : List UInt8) (k : Nat) : ∀ i, (lowered cells k i).length = cells.length
  | 0 => rfl
  | i + 1 => by simp [lowered, lowered_length cells k i]

theorem lowered_get_ge (cells : List UInt8) (k : Nat) : ∀ i j (hj : j < cells.length), k + i ≤ j →
    (lowered cells k i)[j]'(by rw [lowered_length]; exact hj) = cells[j]
  | 0, j, hj, _ => rfl
  | i + 1, j, hj, hle => by
    simp only [lowered]
    rw [List.getElem_set_ne (by omega)]
    exact lowered_get_ge cells k i j hj (by omega)

theorem toLowerCase_exec (m : Mem) (b : Nat) (s : List UInt8) (h : MemBytes m b (s ++ [0])) (hs : (0 : UInt8) ∉ s)
    (k : Nat) (hk : k ≤ s.length) (fuel : Nat) (hf : s.length < fuel) :
    ∃ m' loc', exec fuel LeafFns.toLowerCase.body { mem := m, loc := [.ptr b k, .undef] } = .ret (.ptr b k) { mem := m', loc := loc' } ∧
      MemBytes m' b (lowered (s ++ [0]) k (s.length - k)) ∧ m'.length = m.length ∧ ∀ b', b' ≠ b → m'[b']? = m[b']? := by
  simp only [LeafFns.toLowerCase]
  have hasg : exec fuel (.expr (.assign (.var 1) (.load (.var 0) .ptr) .ptr)) { mem := m, loc := [.ptr b k, .undef] } =
      .normal { mem := m, loc := [.ptr b k, .ptr b k] } := by
    simp [exec, evalE, evalL, readPlace, writePlace, convert, bind, Except.bind]
  rw [exec_seq_normal hasg]
  -- the loop
  have hloop := loop_inv (testOf (some (.load (.deref (.load (.var 0) .ptr)) .i8)))
    (exec fuel (.seq (.expr (.assign (.deref (.load (.var 0) .ptr)) (.cast .i8 (.call "tolower" (.cons (.cast .i32 (.load (.deref (.load (.var 0) .ptr)) .i8)) .nil))) .i8))
      (.expr (.incdec (.var 0) true true .ptr)))) (stepOf none)
    (fun R => R.loc = [.ptr b (s.length : Nat), .ptr b k] ∧ MemBytes R.mem b (lowered (s ++ [0]) k (s.length - k)) ∧ R.mem.length = m.length ∧
      ∀ b', b' ≠ b → R.mem[b']? = m[b']?)
    (s.length - k)
    (fun i st => st.loc = [.ptr b (k + i : Nat), .ptr b k] ∧ MemBytes st.mem b (lowered (s ++ [0]) k i) ∧ st.mem.length = m.length ∧
      ∀ b', b' ≠ b → st.mem[b']? = m[b']?)
    ?_ ?_ { mem := m, loc := [.ptr b k, .ptr b k] } fuel ⟨by simp, h, rfl, fun _ _ => rfl⟩ (by omega)
  · obtain ⟨R, hl, hloc, hm', hlen', hoth⟩ := hloop
    rw [← exec_while] at hl
    rw [exec_seq_normal hl]
    obtain ⟨Rm, Rl⟩ := R
    simp only at hloc hm' hlen' hoth
    subst hloc
    exact ⟨Rm, [.ptr b (s.length : Nat), .ptr b k], by simp [exec, evalE, evalL, readPlace, bind, Except.bind], hm', hlen', hoth⟩
  · -- one round: the byte is not NUL, it is replaced by its lower-case form, the pointer moves on
    intro i st hi ⟨hloc, hmem, hlen, hoth⟩
    obtain ⟨stm, stl⟩ := st
    simp only at hloc hmem hlen hoth
    subst hloc
    have hki : k + i < (s ++ [0]).length := by simp; omega
    have hki' : k + i < (lowered (s ++ [0]) k i).length := by rw [lowered_length]; exact hki
    have hget : (lowered (s ++ [0]) k i)[k + i] = s[k + i]'(by omega) := by
      rw [lowered_get_ge _ _ _ _ hki (Nat.le_refl _), List.getElem_append_left (by omega)]
    have hc0 : s[k + i]'(by omega) ≠ 0 := fun h0 => hs (h0 ▸ List.getElem_mem _)
    have hld := hmem.load8 (k + i) hki'
    rw [hget] at hld
    have hnz : sch (s[k + i]'(by omega)) ≠ 0 := fun h0 => hc0 ((sch_zero_iff _).1 h0)
    obtain ⟨m2, hst, hm2, hlen2, hoth2⟩ := hmem.store8_int (k + i) hki' (wrapTo .i8 (toLower (sch (s[k + i]'(by omega)))))
    obtain ⟨blk2, g1, g2, _, g3⟩ := hm2.blk
    have hcl : blk2.cells.length = s.length + 1 := by rw [g3]; simp [lowered_length]
    simp only [Int.natCast_add] at hld hst
    refine ⟨{ mem := stm, loc := [.ptr b (k + i : Nat), .ptr b k] }, { mem := m2, loc := [.ptr b (k + (i + 1) : Nat), .ptr b k] },
      { mem := m2, loc := [.ptr b (k + (i + 1) : Nat), .ptr b k] }, ?_, Or.inl ?_, by simp [stepOf], rfl, ?_, hlen2.trans hlen, fun b' hb' => by rw [hoth2 b' hb', hoth b' hb']⟩
    · simp [testOf, evalE, evalL, readPlace, bind, Except.bind, hld, truth, Except.map, hnz]
    · have h0 : (0 : Int) ≤ (k : Int) + ((i : Int) + 1) := by omega
      have hle : (k : Int) + ((i : Int) + 1) ≤ (blk2.cells.length : Int) := by rw [hcl]; omega
      have e : (k : Int) + (i : Int) + 1 = (k : Int) + ((i : Int) + 1) := by omega
      simp [exec, evalE, evalL, evalArgs, readPlace, writePlace, bind, Except.bind, hld, convert, builtin, wrapTo_i32_sch, hst,
        Except.map, binop, ptrAdd, Mem.block, g1, g2, cmpInt, h0, hle, e, wrapTo_i8_idem, Ty.bits]
    · simp only [lowered]
      have : (s ++ [0]).getD (k + i) 0 = s[k + i]'(by omega) := by
        simp [List.getD_eq_getElem?_getD, List.getElem?_append_left (show k + i < s.length by omega), List.getElem?_eq_getElem (show k + i < s.length by omega)]
      rw [this]
      exact hm2
  · -- the end: the byte at the pointer is the terminator
    intro st ⟨hloc, hmem, hlen, hoth⟩
    obtain ⟨stm, stl⟩ := st
    simp only at hloc hmem hlen hoth
    subst hloc
    have hkn : k + (s.length - k) = s.length := by omega
    have hki : s.length < (s ++ [0]).length := by simp
    have hki' : s.length < (lowered (s ++ [0]) k (s.length - k)).length := by rw [lowered_length]; exact hki
    have hget : (lowered (s ++ [0]) k (s.length - k))[s.length] = 0 := by
      rw [lowered_get_ge _ _ _ _ hki (by omega), List.getElem_append_right (by omega)]; simp
    have hld := hmem.load8 s.length hki'
    rw [hget] at hld
    have hz : sch 0 = 0 := by decide
    refine ⟨{ mem := stm, loc := [.ptr b (s.length : Nat), .ptr b k] }, ?_, by simp [hkn], hmem, hlen, hoth⟩
    simp [testOf, evalE, evalL, readPlace, bind, Except.bind, hkn, hld, hz, truth, Except.map]

/-- cells of the block while `stripbrackets` copies: the first `i` bytes behind the bracket have been moved one place down -/
def shifted (s : List UInt8) (i : Nat) : List UInt8 := (s.drop 1).take i ++ (s ++ [0]).drop i

theorem shifted_zero (s : List UInt8) : shifted s 0 = s ++ [0] := by simp [shifted]

theorem shifted_length (s : List UInt8) (i : Nat) (hi : i + 1 ≤ s.length) : (shifted s i).length = s.length + 1 := by
  simp [shifted]; omega

theorem shifted_get_ge (s : List UInt8) (i j : Nat) (hi : i + 1 ≤ s.length) (hij : i ≤ j) (hj : j < s.length + 1) :
    (shifted s i)[j]'(by rw [shifted_length s i hi]; exact hj) = (s ++ [0])[j]'(by simpa using hj) := by
  have hlen : ((s.drop 1).take i).length = i := by simp; omega
  simp only [shifted]
  rw [List.getElem_append_right (by omega)]
  simp only [hlen, List.getElem_drop]
  congr 1; omega

theorem shifted_set (s : List UInt8) (i : Nat) (hi : i + 1 < s.length) :
    (shifted s i).set i (s[i + 1]) = shifted s (i + 1) := by
  have hlen : ((s.drop 1).take i).length = i := by simp; omega
  have h1 : (s.drop 1).take (i + 1) = (s.drop 1).take i ++ [s[i + 1]] := by
    rw [List.take_succ_eq_append_getElem (by simp; omega)]
    simp [Nat.add_comm]
  have h2 : (s ++ [0]).drop i = (s ++ [0])[i]'(by simp; omega) :: (s ++ [0]).drop (i + 1) := by
    rw [List.drop_eq_getElem_cons]
  simp only [shifted]
  rw [List.set_append_right _ _ (by omega), hlen, Nat.sub_self, h2, List.set_cons_zero, h1]
  simp


/-- what `stripbrackets` leaves: the text between a leading `[` and the first `]`, if the string also ends with `]` -/
def stripSpec (s : List UInt8) : List UInt8 :=
  if s.head? = some 91 ∧ s.getLast? = some 93 then (s.drop 1).takeWhile (· != 93) else s

theorem wrapTo_u64_small (n : Int) (h0 : 0 ≤ n) (h1 : n < 18446744073709551616) : wrapTo .u64 n = n := by
  simp only [wrapTo, Ty.bits, Ty.signed, show (Ty.u64 == Ty.bool) = false from rfl, Bool.false_eq_true, if_false, Bool.false_and]
  have hp : ((2 : Int) ^ 64) = 18446744073709551616 := by decide
  rw [hp]; exact Int.emod_eq_of_lt h0 h1

theorem wrapTo_u64_range (n : Int) : 0 ≤ wrapTo .u64 n ∧ wrapTo .u64 n < 18446744073709551616 := by
  simp only [wrapTo, Ty.bits, Ty.signed, show (Ty.u64 == Ty.bool) = false from rfl, Bool.false_eq_true, if_false, Bool.false_and]
  have hp : ((2 : Int) ^ 64) = 18446744073709551616 := by decide
  rw [hp]
  exact ⟨Int.emod_nonneg n (by decide), Int.emod_lt_of_pos n (by decide)⟩

theorem wrapTo_u64_idem (n : Int) : wrapTo .u64 (wrapTo .u64 n) = wrapTo .u64 n :=
  wrapTo_u64_small _ (wrapTo_u64_range n).1 (wrapTo_u64_range n).2

theorem sch_inj (a c : UInt8) (h : sch a = sch c) : a = c := by
  have := congrArg byteOf h
  simpa [byteOf, byte_of_sch] using this

theorem stripbrackets_exec (m : Mem) (b : Nat) (s : List UInt8) (h : MemBytes m b (s ++ [0])) (hs : (0 : UInt8) ∉ s)
    (hsmall : (s.length : Int) < 18446744073709551616) (fuel : Nat) (hf : s.length < fuel) :
    ∃ m' loc', exec fuel LeafFns.stripbrackets.body { mem := m, loc := [.ptr b 0, .undef, .undef, .undef] } =
        .ret (.ptr b 0) { mem := m', loc := loc' } ∧
      m'.cstr b 0 = .ok (stripSpec s) ∧ m'.length = m.length ∧ ∀ b', b' ≠ b → m'[b']? = m[b']? := by
  have hstr := h.cstr hs 0 (Nat.zero_le _)
  simp only [Int.natCast_zero, List.drop_zero] at hstr
  have hl0 := h.load8 0 (by simp)
  simp only [Int.natCast_zero] at hl0
  obtain ⟨blk, h1, h2, hw, h3⟩ := h.blk
  have hlen : blk.cells.length = s.length + 1 := by rw [h3]; simp
  -- the statements in front of the test
  have hpre : ∀ rest : Stmt, exec fuel
      (.seq (.ite (.un .lnot (.load (.var 0) .ptr) .i32) (.ret (some .null)) .skip)
        (.seq (.expr (.assign (.var 1) (.load (.var 0) .ptr) .ptr))
          (.seq (.expr (.assign (.var 2) (.load (.var 0) .ptr) .ptr))
            (.seq (.expr (.assign (.var 3) (.bin .sub (.call "strlen" (.cons (.load (.var 0) .ptr) .nil)) (.cast .u64 (.lit 1 .i32)) .u64) .u64))
              rest))))
      { mem := m, loc := [.ptr b 0, .undef, .undef, .undef] } =
      exec fuel rest { mem := m, loc := [.ptr b 0, .ptr b 0, .ptr b 0, .int (wrapTo .u64 ((s.length : Int) - 1))] } := by
    intro rest
    simp [exec, testOf, evalE, evalL, evalArgs, readPlace, writePlace, builtin, hstr, bind, Except.bind, binop, cmpInt, unop, convert,
      truth, boolVal, arith, Ty.signed, Except.map, wrapTo_u64_small 1 (by decide) (by decide), wrapTo_u64_idem]
  simp only [LeafFns.stripbrackets]
  rw [hpre]
  -- does the string start with '[' and end with ']'?
  have hcond_iff : (s.head? = some 91 ∧ s.getLast? = some 93) ↔ (s[0]? = some 91 ∧ s[s.length - 1]? = some 93) := by
    rw [List.head?_eq_getElem?, List.getLast?_eq_getElem?]
  have e1 : wrapTo .u64 ((s.length : Int) - 1) = ((s.length - 1 : Nat) : Int) ∨ s.length = 0 := by
    by_cases h0 : s.length = 0
    · exact Or.inr h0
    · left; rw [wrapTo_u64_small _ (by omega) (by omega)]; omega
  -- value of the test
  have htest : testOf (some (.land (.bin .eq (.cast .i32 (.load (.deref (.load (.var 0) .ptr)) .i8)) (.lit 91 .i32) .i32)
      (.bin .eq (.cast .i32 (.load (.deref (.bin .add (.load (.var 0) .ptr) (.load (.var 3) .u64) .ptr)) .i8)) (.lit 93 .i32) .i32)))
      { mem := m, loc := [.ptr b 0, .ptr b 0, .ptr b 0, .int (wrapTo .u64 ((s.length : Int) - 1))] } =
      .ok (decide (s.head? = some 91 ∧ s.getLast? = some 93), { mem := m, loc := [.ptr b 0, .ptr b 0, .ptr b 0, .int (wrapTo .u64 ((s.length : Int) - 1))] }) := by
    have hdec : decide (s.head? = some 91 ∧ s.getLast? = some 93) = decide (s[0]? = some 91 ∧ s[s.length - 1]? = some 93) :=
      decide_eq_decide.2 hcond_iff
    rw [hdec]
    have h91' : sch 91 = 91 := by rw [sch_eq]; decide
    have w91 : wrapTo .i32 91 = 91 := wrapTo_i32 _ (by decide) (by decide)
    have w93 : wrapTo .i32 93 = 93 := wrapTo_i32 _ (by decide) (by decide)
    by_cases hp : 0 < s.length
    · have hb0 : (s ++ [0])[0]'(by simp) = s[0]'hp := by rw [List.getElem_append_left hp]
      rw [hb0] at hl0
      by_cases hc : s[0]'hp = 91
      · have hL : s.length - 1 < (s ++ [0]).length := by simp; omega
        have hld := h.load8 (s.length - 1) hL
        rw [List.getElem_append_left (by omega)] at hld
        have e : wrapTo .u64 ((s.length : Int) - 1) = ((s.length - 1 : Nat) : Int) := by
          rcases e1 with e | e
          · exact e
          · omega
        have h0 : (0 : Int) ≤ ((s.length - 1 : Nat) : Int) := by omega
        have hle : ((s.length - 1 : Nat) : Int) ≤ (blk.cells.length : Int) := by rw [hlen]; omega
        by_cases hlast : s[s.length - 1] = 93
        · have h93' : sch 93 = 93 := by rw [sch_eq]; decide
          have : (s[0]? = some 91 ∧ s[s.length - 1]? = some 93) := by
            rw [List.getElem?_eq_getElem hp, List.getElem?_eq_getElem (by omega), hc, hlast]; exact ⟨rfl, rfl⟩
          rw [hc] at hl0; rw [hlast] at hld
          simp [testOf, evalE, evalL, readPlace, bind, Except.bind, hl0, Except.map, convert, wrapTo_i32_sch, binop, cmpInt, boolVal, truth,
            h91', h93', w91, w93, e, ptrAdd, Mem.block, h1, h2, h0, hle, hld, this]
        · have hne : sch (s[s.length - 1]) ≠ 93 := fun hh => hlast (sch_inj _ 93 (by rw [hh, sch_eq]; decide))
          have : ¬ (s[0]? = some 91 ∧ s[s.length - 1]? = some 93) := by
            rw [List.getElem?_eq_getElem (show s.length - 1 < s.length by omega)]
            rintro ⟨_, h'⟩
            exact hlast (Option.some.inj h')
          rw [hc] at hl0
          simp [testOf, evalE, evalL, readPlace, bind, Except.bind, hl0, Except.map, convert, wrapTo_i32_sch, binop, cmpInt, boolVal, truth,
            h91', w91, e, ptrAdd, Mem.block, h1, h2, h0, hle, hld, hne, this]
      · have hne : sch s[0] ≠ 91 := fun hh => hc (sch_inj _ 91 (by rw [hh, sch_eq]; decide))
        have : ¬ (s[0]? = some 91 ∧ s[s.length - 1]? = some 93) := by
          rw [List.getElem?_eq_getElem hp]
          rintro ⟨h', _⟩
          exact hc (Option.some.inj h')
        simp [testOf, evalE, evalL, readPlace, bind, Except.bind, hl0, Except.map, convert, wrapTo_i32_sch, binop, cmpInt, boolVal, truth, hne, this]
    · have hnil : s = [] := List.eq_nil_of_length_eq_zero (by omega)
      subst hnil
      have h91 : sch 0 ≠ 91 := by rw [sch_eq]; decide
      simp [testOf, evalE, evalL, readPlace, bind, Except.bind, hl0, Except.map, convert, wrapTo_i32_sch, binop, cmpInt, boolVal, truth, h91]
  by_cases hcond : s.head? = some 91 ∧ s.getLast? = some 93
  · -- yes: the bytes behind the bracket are moved down until the first ']' is met, then the string is terminated
    have hc2 := hcond_iff.1 hcond
    have hp : 0 < s.length := by
      rcases Nat.eq_zero_or_pos s.length with h0 | h0
      · rw [List.getElem?_eq_none (by omega)] at hc2; exact absurd hc2.1 (by simp)
      · exact h0
    have hfirst : s[0] = 91 := by
      have := hc2.1; rw [List.getElem?_eq_getElem hp] at this; exact Option.some.inj this
    have hlast : s[s.length - 1] = 93 := by
      have := hc2.2; rw [List.getElem?_eq_getElem (by omega)] at this; exact Option.some.inj this
    have hL2 : 2 ≤ s.length := by
      rcases Nat.lt_or_ge s.length 2 with h1' | h1'
      · have : s.length - 1 = 0 := by omega
        simp only [this] at hlast
        rw [hfirst] at hlast; exact absurd hlast (by decide)
      · exact h1'
    -- q: number of bytes between the bracket and the first ']'
    generalize hq : span (fun c => c != 93) (s.drop 1) = q
    have hqle := span_le (fun c => c != 93) (s.drop 1)
    rw [hq] at hqle
    simp only [List.length_drop] at hqle
    have hqlt : q < s.length - 1 := by
      rcases Nat.lt_or_ge q (s.length - 1) with h' | h'
      · exact h'
      · exfalso
        have heq : span (fun c => c != 93) (s.drop 1) = (s.drop 1).length := by simp only [List.length_drop]; omega
        have hall := span_eq_length _ _ heq (s[s.length - 1]) (by
          have : s[s.length - 1] = (s.drop 1)[s.length - 2]'(by simp; omega) := by
            simp only [List.getElem_drop]; congr 1; omega
          rw [this]; exact List.getElem_mem _)
        rw [hlast] at hall; exact absurd hall (by decide)
    have hstopq : (s.drop 1)[q]'(by simp; omega) = 93 := by
      have := span_stop (fun c => c != 93) (s.drop 1) (by rw [hq]; simp; omega)
      simp only [hq] at this
      simpa using this
    have e : wrapTo .u64 ((s.length : Int) - 1) = ((s.length - 1 : Nat) : Int) := by
      rw [wrapTo_u64_small _ (by omega) (by omega)]; omega
    rw [e] at htest ⊢
    have hloop := loop_inv
      (testOf (some (.bin .ne (.cast .i32 (.load (.deref (.incdec (.var 0) true false .ptr)) .i8)) (.lit 93 .i32) .i32)))
      (exec fuel (.expr (.assign (.deref (.incdec (.var 2) true true .ptr)) (.load (.deref (.load (.var 0) .ptr)) .i8) .i8))) (stepOf none)
      (fun R => R.loc = [.ptr b (q + 1 : Nat), .ptr b 0, .ptr b (q : Nat), .int ((s.length - 1 : Nat) : Int)] ∧ MemBytes R.mem b (shifted s q) ∧
        R.mem.length = m.length ∧ ∀ b', b' ≠ b → R.mem[b']? = m[b']?)
      q
      (fun i st => st.loc = [.ptr b (i : Nat), .ptr b 0, .ptr b (i : Nat), .int ((s.length - 1 : Nat) : Int)] ∧ MemBytes st.mem b (shifted s i) ∧
        st.mem.length = m.length ∧ ∀ b', b' ≠ b → st.mem[b']? = m[b']?)
      ?_ ?_ { mem := m, loc := [.ptr b 0, .ptr b 0, .ptr b 0, .int ((s.length - 1 : Nat) : Int)] } fuel
      ⟨by simp, by rw [shifted_zero]; exact h, rfl, fun _ _ => rfl⟩ (by omega)
    · obtain ⟨R, hl, hloc, hmR, hlenR, hothR⟩ := hloop
      obtain ⟨Rm, Rl⟩ := R
      simp only at hloc hmR hlenR hothR
      subst hloc
      rw [← exec_while] at hl
      -- the terminator
      have hqlen : q < (shifted s q).length := by rw [shifted_length s q (by omega)]; omega
      obtain ⟨m', hst, hm', hlen', hoth'⟩ := hmR.store8 q hqlen 0
      have hz : sch 0 = 0 := by rw [sch_eq]; decide
      rw [hz] at hst
      obtain ⟨blkR, r1, r2, _, r3⟩ := hmR.blk
      refine ⟨m', [.ptr b (q + 1 : Nat), .ptr b 0, .ptr b (q : Nat), .int ((s.length - 1 : Nat) : Int)], ?_, ?_, hlen'.trans hlenR,
        fun b' hb' => by rw [hoth' b' hb', hothR b' hb']⟩
      · have ht := htest
        simp only [hcond, and_self, decide_true] at ht
        have hfin : exec fuel (.expr (.assign (.deref (.load (.var 2) .ptr)) (.cast .i8 (.lit 0 .i32)) .i8))
            { mem := Rm, loc := [.ptr b (q + 1 : Nat), .ptr b 0, .ptr b (q : Nat), .int ((s.length - 1 : Nat) : Int)] } =
            .normal { mem := m', loc := [.ptr b (q + 1 : Nat), .ptr b 0, .ptr b (q : Nat), .int ((s.length - 1 : Nat) : Int)] } := by
          simp [exec, evalE, evalL, readPlace, writePlace, convert, bind, Except.bind, Except.map, hst, wrapTo, Ty.bits, Ty.signed]
        rw [exec_seq_normal (by rw [exec_ite_true ht, exec_seq_normal hl, hfin])]
        simp [exec, evalE, evalL, readPlace, bind, Except.bind]
      · -- the string that is left
        have hsplit : (shifted s q).set q 0 = (s.drop 1).take q ++ 0 :: (s ++ [0]).drop (q + 1) := by
          have hlen0 : ((s.drop 1).take q).length = q := by simp; omega
          have h2 : (s ++ [0]).drop q = (s ++ [0])[q]'(by simp; omega) :: (s ++ [0]).drop (q + 1) := by
            rw [List.drop_eq_getElem_cons]
          simp only [shifted]
          rw [List.set_append_right _ _ (by omega), hlen0, Nat.sub_self, h2, List.set_cons_zero]
        rw [hsplit] at hm'
        have hnz : (0 : UInt8) ∉ (s.drop 1).take q := fun hm0 => hs (List.mem_of_mem_drop (List.mem_of_mem_take hm0))
        rw [hm'.cstr0 hnz]
        have : stripSpec s = (s.drop 1).take q := by
          simp only [stripSpec, hcond, and_self, if_true]
          rw [← hq, span]
          exact List.prefix_iff_eq_take.1 (List.takeWhile_prefix _)
        rw [this]
    · -- one round
      intro i st hi ⟨hloc, hmem, hlenst, hothst⟩
      obtain ⟨stm, stl⟩ := st
      simp only at hloc hmem hlenst hothst
      subst hloc
      have hi1 : i + 1 < s.length := by omega
      have hslen := shifted_length s i (by omega)
      obtain ⟨blki, i1, i2, _, i3⟩ := hmem.blk
      have hcl : blki.cells.length = s.length + 1 := by rw [i3]; simp [hslen]
      have hget : (shifted s i)[i + 1]'(by rw [hslen]; omega) = s[i + 1] := by
        rw [shifted_get_ge s i (i + 1) (by omega) (by omega) (by omega), List.getElem_append_left hi1]
      have hld := hmem.load8 (i + 1) (by rw [hslen]; omega)
      rw [hget] at hld
      have hne93 : s[i + 1] ≠ 93 := by
        obtain ⟨h', hp'⟩ := span_lt (fun c => c != 93) (s.drop 1) i (by rw [hq]; exact hi)
        simp only [List.getElem_drop] at hp'
        have : s[1 + i]'(by omega) = s[i + 1] := by congr 1; omega
        rw [this] at hp'
        simpa using hp'
      have hsne : sch s[i + 1] ≠ 93 := fun hh => hne93 (sch_inj _ 93 (by rw [hh, sch_eq]; decide))
      obtain ⟨m2, hst2, hm2, hlen2, hoth2⟩ := hmem.store8 i (by rw [hslen]; omega) (s[i + 1])
      rw [shifted_set s i hi1] at hm2
      have h0 : (0 : Int) ≤ (i : Int) + 1 := by omega
      have hle : (i : Int) + 1 ≤ (blki.cells.length : Int) := by rw [hcl]; omega
      simp only [Int.natCast_add, Int.natCast_one] at hld
      refine ⟨{ mem := stm, loc := [.ptr b (i + 1 : Nat), .ptr b 0, .ptr b (i : Nat), .int ((s.length - 1 : Nat) : Int)] },
        { mem := m2, loc := [.ptr b (i + 1 : Nat), .ptr b 0, .ptr b (i + 1 : Nat), .int ((s.length - 1 : Nat) : Int)] },
        { mem := m2, loc := [.ptr b (i + 1 : Nat), .ptr b 0, .ptr b (i + 1 : Nat), .int ((s.length - 1 : Nat) : Int)] },
        ?_, Or.inl ?_, by simp [stepOf], rfl, hm2, hlen2.trans hlenst, fun b' hb' => by rw [hoth2 b' hb', hothst b' hb']⟩
      · simp [testOf, evalE, evalL, readPlace, writePlace, bind, Except.bind, binop, ptrAdd, Mem.block, i1, i2, cmpInt, h0, hle,
          hld, convert, wrapTo_i32_sch, hsne, boolVal, truth, Except.map]
      · simp [exec, evalE, evalL, readPlace, writePlace, bind, Except.bind, binop, ptrAdd, Mem.block, i1, i2, cmpInt, h0, hle,
          hld, convert, wrapTo_i8_sch, hst2, Except.map, Ty.bits]
    · -- the end: the next byte is the first ']'
      intro st ⟨hloc, hmem, hlenst, hothst⟩
      obtain ⟨stm, stl⟩ := st
      simp only at hloc hmem hlenst hothst
      subst hloc
      have hslen := shifted_length s q (by omega)
      obtain ⟨blki, i1, i2, _, i3⟩ := hmem.blk
      have hcl : blki.cells.length = s.length + 1 := by rw [i3]; simp [hslen]
      have hget : (shifted s q)[q + 1]'(by rw [hslen]; omega) = 93 := by
        rw [shifted_get_ge s q (q + 1) (by omega) (by omega) (by omega), List.getElem_append_left (by omega)]
        have : s[q + 1]'(by omega) = (s.drop 1)[q]'(by simp; omega) := by
          simp only [List.getElem_drop]; congr 1; omega
        rw [this, hstopq]
      have hld := hmem.load8 (q + 1) (by rw [hslen]; omega)
      rw [hget] at hld
      have h93' : sch 93 = 93 := by rw [sch_eq]; decide
      have w93 : wrapTo .i32 93 = 93 := wrapTo_i32 _ (by decide) (by decide)
      have h0 : (0 : Int) ≤ (q : Int) + 1 := by omega
      have hle : (q : Int) + 1 ≤ (blki.cells.length : Int) := by rw [hcl]; omega
      simp only [Int.natCast_add, Int.natCast_one] at hld
      refine ⟨{ mem := stm, loc := [.ptr b (q + 1 : Nat), .ptr b 0, .ptr b (q : Nat), .int ((s.length - 1 : Nat) : Int)] }, ?_, rfl, hmem, hlenst, hothst⟩
      simp [testOf, evalE, evalL, readPlace, writePlace, bind, Except.bind, binop, ptrAdd, Mem.block, i1, i2, cmpInt, h0, hle,
        hld, convert, h93', w93, boolVal, truth, Except.map]
  · -- no: nothing is written
    refine ⟨m, [.ptr b 0, .ptr b 0, .ptr b 0, .int (wrapTo .u64 ((s.length : Int) - 1))], ?_, ?_, rfl, fun _ _ => rfl⟩
    · simp [exec, htest, hcond, evalE, evalL, readPlace, bind, Except.bind]
    · rw [show stripSpec s = s by simp [stripSpec, hcond]]
      exact hstr

/-! ## the specifications are the functions of the list-level model -/

theorem spc_eq (c : UInt8) : spc c = Econf.isSpace c := by
  have h : ∀ n : Fin 256, spc (UInt8.ofNat n.val) = Econf.isSpace (UInt8.ofNat n.val) := by decide +kernel
  have := h ⟨c.toNat, c.toNat_lt⟩
  simpa using this
theorem lw_eq (c : UInt8) : lw c = Econf.toLower c := by
  have h : ∀ n : Fin 256, lw (UInt8.ofNat n.val) = Econf.toLower (UInt8.ofNat n.val) := by decide +kernel
  have := h ⟨c.toNat, c.toNat_lt⟩
  simpa using this

theorem stripSpec_eq (s : List UInt8) : stripSpec s = Econf.stripBrackets s := by
  cases s with
  | nil => simp [stripSpec, Econf.stripBrackets]
  | cons c cs =>
    simp only [stripSpec, Econf.stripBrackets, List.head?_cons, Option.some.injEq, List.drop_succ_cons, List.drop_zero,
      Econf.LBR, Econf.RBR, Bool.and_eq_true, beq_iff_eq]

theorem dropWhile_eq_drop_span (p : UInt8 → Bool) : ∀ l : List UInt8, l.dropWhile p = l.drop (span p l)
  | [] => by simp [span]
  | a :: l => by
    by_cases h : p a = true
    · simp [span, List.dropWhile_cons, List.takeWhile_cons, h]
      simpa [span] using dropWhile_eq_drop_span p l
    · simp [span, List.dropWhile_cons, List.takeWhile_cons, h]

theorem dropLastWhile_eq_take (p : UInt8 → Bool) (l : List UInt8) :
    Econf.dropLastWhile p l = l.take (l.length - span p l.reverse) := by
  simp only [Econf.dropLastWhile, dropWhile_eq_drop_span]
  rw [List.drop_reverse]
  simp

/-- the list-level model's `trim` is what the translated `trim` leaves -/
theorem trim_eq (s : List UInt8) :
    Econf.trim s = (s.drop (span spc s)).take (s.length - span spc s - span spc (s.drop (span spc s)).reverse) := by
  have hf : Econf.isSpace = spc := funext (fun c => (spc_eq c).symm)
  simp only [Econf.trim, hf, dropWhile_eq_drop_span, dropLastWhile_eq_take, List.length_drop]

theorem lowered_closed (cells : List UInt8) : ∀ i, i ≤ cells.length →
    lowered cells 0 i = (cells.take i).map lw ++ cells.drop i
  | 0, _ => by simp [lowered]
  | i + 1, hi => by
    have ih := lowered_closed cells i (by omega)
    have hlen : ((cells.take i).map lw).length = i := by simp; omega
    have h2 : cells.drop i = cells[i] :: cells.drop (i + 1) := by rw [List.drop_eq_getElem_cons]
    have h1 : cells.take (i + 1) = cells.take i ++ [cells[i]] := by rw [List.take_succ_eq_append_getElem]
    simp only [lowered, Nat.zero_add, ih]
    rw [List.set_append_right _ _ (by omega), hlen, Nat.sub_self, h2, List.set_cons_zero, h1]
    have : cells.getD i 0 = cells[i] := by simp [List.getD_eq_getElem?_getD, List.getElem?_eq_getElem (show i < cells.length by omega)]
    rw [this]
    simp only [List.map_take, List.map_append, List.map_cons, List.map_nil, List.append_assoc, List.singleton_append]

theorem lowered_string (s : List UInt8) : lowered (s ++ [0]) 0 s.length = Econf.lower s ++ [0] := by
  rw [lowered_closed _ _ (by simp)]
  have hf : lw = Econf.toLower := funext lw_eq
  simp [Econf.lower, hf]

/-! ## what the callers get, in terms of the list-level model -/

theorem set_split (s : List UInt8) (j : Nat) (hj : j ≤ s.length) :
    (s ++ [0]).set j 0 = s.take j ++ 0 :: (s ++ [0]).drop (j + 1) := by
  have h1 : (s ++ [0]) = s.take j ++ (s ++ [0]).drop j := by
    have := List.take_append_drop j (s ++ [0])
    rw [List.take_append_of_le_length hj] at this
    exact this.symm
  have hlen : (s.take j).length = j := by simp; omega
  have h2 : (s ++ [0]).drop j = (s ++ [0])[j]'(by simp; omega) :: (s ++ [0]).drop (j + 1) := by rw [List.drop_eq_getElem_cons]
  conv => lhs; rw [h1]
  rw [List.set_append_right _ _ (by omega), hlen, Nat.sub_self, h2, List.set_cons_zero]

/-- `trim` (lib/libeconf_ext.c), for every string: no fault, the pointer returned is behind the leading blanks, and the C string
    there is the model's `trim` of the text -/
theorem C_trim (m : Mem) (b : Nat) (s : List UInt8) (h : MemBytes m b (s ++ [0])) (hs : (0 : UInt8) ∉ s)
    (fuel : Nat) (hf : s.length < fuel) :
    ∃ m' loc', exec fuel LeafFns.trim.body { mem := m, loc := [.ptr b 0, .undef, .undef] } =
        .ret (.ptr b ((s.takeWhile Econf.isSpace).length : Nat)) { mem := m', loc := loc' } ∧
      m'.cstr b ((s.takeWhile Econf.isSpace).length : Nat) = .ok (Econf.trim s) ∧
      m'.length = m.length ∧ ∀ b', b' ≠ b → m'[b']? = m[b']? := by
  obtain ⟨m', loc', hr, hm', hlen', hoth⟩ := trim_exec m b s h hs 0 (Nat.zero_le _) fuel hf
  have hf' : Econf.isSpace = spc := funext (fun c => (spc_eq c).symm)
  simp only [Nat.zero_add, List.drop_zero, Int.natCast_zero] at hr hm'
  have hls := span_le spc s
  generalize hlsd : span spc s = ls at hr hm' hls
  have hrs := span_le spc (s.drop ls).reverse
  simp only [List.length_reverse, List.length_drop] at hrs
  generalize hrsd : span spc (s.drop ls).reverse = rs at hm' hrs
  have hls' : (s.takeWhile spc).length = ls := hlsd
  refine ⟨m', loc', ?_, ?_, hlen', hoth⟩
  · rw [hf', hls']; exact hr
  · have hj : s.length - rs ≤ s.length := by omega
    rw [set_split s _ hj] at hm'
    have hsplit : s.take (s.length - rs) = s.take ls ++ (s.drop ls).take (s.length - ls - rs) := by
      have : s.length - rs = ls + (s.length - ls - rs) := by omega
      rw [this, List.take_add]
    rw [hsplit] at hm'
    have hnz : (0 : UInt8) ∉ (s.drop ls).take (s.length - ls - rs) := fun hm0 => hs (List.mem_of_mem_drop (List.mem_of_mem_take hm0))
    have := hm'.cstr_at hnz
    have hl : (s.take ls).length = ls := by simp; omega
    rw [hl] at this
    rw [hf', trim_eq, hlsd, hrsd, hls']
    exact this

/-- `toLowerCase` (lib/helpers.c): no fault, and the string is the model's `lower` of the text -/
theorem C_toLowerCase (m : Mem) (b : Nat) (s : List UInt8) (h : MemBytes m b (s ++ [0])) (hs : (0 : UInt8) ∉ s)
    (fuel : Nat) (hf : s.length < fuel) :
    ∃ m' loc', exec fuel LeafFns.toLowerCase.body { mem := m, loc := [.ptr b 0, .undef] } = .ret (.ptr b 0) { mem := m', loc := loc' } ∧
      m'.cstr b 0 = .ok (Econf.lower s) ∧ m'.length = m.length ∧ ∀ b', b' ≠ b → m'[b']? = m[b']? := by
  obtain ⟨m', loc', hr, hm', hlen', hoth⟩ := toLowerCase_exec m b s h hs 0 (Nat.zero_le _) fuel hf
  simp only [Nat.sub_zero, Int.natCast_zero] at hr hm'
  rw [lowered_string] at hm'
  refine ⟨m', loc', hr, ?_, hlen', hoth⟩
  have hnz : (0 : UInt8) ∉ Econf.lower s := by
    intro hm0
    obtain ⟨c, hc, hc0⟩ := List.mem_map.1 hm0
    have hcne : c ≠ 0 := fun h0 => hs (h0 ▸ hc)
    have h : ∀ n : Fin 256, Econf.toLower (UInt8.ofNat n.val) = 0 → UInt8.ofNat n.val = (0 : UInt8) := by decide +kernel
    have := h ⟨c.toNat, c.toNat_lt⟩ (by simpa using hc0)
    exact hcne (by simpa using this)
  have hm2 : MemBytes m' b (Econf.lower s ++ 0 :: []) := hm'
  exact hm2.cstr0 hnz

/-- `stripbrackets` (lib/helpers.c): no fault, and the string is the model's `stripBrackets` of the text -/
theorem C_stripbrackets (m : Mem) (b : Nat) (s : List UInt8) (h : MemBytes m b (s ++ [0])) (hs : (0 : UInt8) ∉ s)
    (hsmall : (s.length : Int) < 18446744073709551616) (fuel : Nat) (hf : s.length < fuel) :
    ∃ m' loc', exec fuel LeafFns.stripbrackets.body { mem := m, loc := [.ptr b 0, .undef, .undef, .undef] } =
        .ret (.ptr b 0) { mem := m', loc := loc' } ∧
      m'.cstr b 0 = .ok (Econf.stripBrackets s) ∧ m'.length = m.length ∧ ∀ b', b' ≠ b → m'[b']? = m[b']? := by
  have := stripbrackets_exec m b s h hs hsmall fuel hf
  rwa [stripSpec_eq] at this

/-- `ltrim` (lib/libeconf_ext.c): no fault, memory untouched, the pointer moves over exactly the leading blanks -/
theorem C_ltrim (m : Mem) (b : Nat) (s : List UInt8) (h : MemBytes m b (s ++ [0])) (fuel : Nat) (hf : s.length < fuel) :
    exec fuel LeafFns.ltrim.body { mem := m, loc := [.ptr b 0] } =
      .ret (.ptr b ((s.takeWhile Econf.isSpace).length : Nat)) { mem := m, loc := [.ptr b ((s.takeWhile Econf.isSpace).length : Nat)] } := by
  have hf' : Econf.isSpace = spc := funext (fun c => (spc_eq c).symm)
  have := ltrim_exec m b s h 0 (Nat.zero_le _) fuel hf
  rw [hf']
  simpa [span] using this

/-- number of rounds of `check_delim`'s loop: up to the first position where both kinds of byte have been seen -/
def stopIdx : List UInt8 → Bool → Bool → Nat
  | [], _, _ => 0
  | c :: cs, w, n => if w && n then 0 else 1 + stopIdx cs (w || spc c) (n || !spc c)

def anyW (l : List UInt8) : Bool := l.any spc
def anyN (l : List UInt8) : Bool := l.any (fun c => !spc c)

theorem stopIdx_le : ∀ (l : List UInt8) (w n : Bool), stopIdx l w n ≤ l.length
  | [], _, _ => by simp [stopIdx]
  | c :: cs, w, n => by
    simp only [stopIdx]
    split
    · simp
    · have := stopIdx_le cs (w || spc c) (n || !spc c); simp; omega

/-- before the stop index not both flags are set -/
theorem stopIdx_before : ∀ (l : List UInt8) (w n : Bool) (i : Nat), i < stopIdx l w n →
    ¬ ((w || anyW (l.take i)) = true ∧ (n || anyN (l.take i)) = true)
  | [], w, n, i, h => by simp [stopIdx] at h
  | c :: cs, w, n, i, h => by
    simp only [stopIdx] at h
    split at h
    · omega
    · rename_i hwn
      cases i with
      | zero => simpa [anyW, anyN] using hwn
      | succ i =>
        have := stopIdx_before cs (w || spc c) (n || !spc c) i (by omega)
        simpa [anyW, anyN, List.take_succ_cons, List.any_cons, Bool.or_assoc] using this

/-- at the stop index the string is used up or both flags are set; in both cases the flags have their final values -/
theorem stopIdx_at : ∀ (l : List UInt8) (w n : Bool),
    (stopIdx l w n = l.length ∨ ((w || anyW (l.take (stopIdx l w n))) = true ∧ (n || anyN (l.take (stopIdx l w n))) = true)) ∧
    (w || anyW (l.take (stopIdx l w n))) = (w || anyW l) ∧ (n || anyN (l.take (stopIdx l w n))) = (n || anyN l)
  | [], w, n => by simp [stopIdx, anyW, anyN]
  | c :: cs, w, n => by
    simp only [stopIdx]
    split
    · rename_i hwn
      simp only [Bool.and_eq_true] at hwn
      simp [hwn.1, hwn.2, anyW, anyN]
    · have ih := stopIdx_at cs (w || spc c) (n || !spc c)
      have e : 1 + stopIdx cs (w || spc c) (n || !spc c) = stopIdx cs (w || spc c) (n || !spc c) + 1 := by omega
      rw [e]
      simp only [List.take_succ_cons, List.length_cons, anyW, anyN, List.any_cons] at ih ⊢
      refine ⟨?_, ?_, ?_⟩
      · rcases ih.1 with h | h
        · left; omega
        · right; simpa [Bool.or_assoc] using h
      · simpa [Bool.or_assoc] using ih.2.1
      · simpa [Bool.or_assoc] using ih.2.2

def b2u (f : Bool) : UInt8 := if f then 1 else 0

theorem load_flag {m : Mem} {b : Nat} {f : Bool} (h : MemBytes m b [b2u f]) : m.load8 b 0 = .ok (if f then 1 else 0) := by
  have := h.load8 0 (by simp)
  simp only [Int.natCast_zero, List.getElem_cons_zero] at this
  rw [this]
  cases f <;> simp [b2u, sch_eq]

theorem wrapTo_i32_u32_sch (c : UInt8) : wrapTo .i32 (wrapTo .u32 (sch c)) = sch c := by
  have hr := sch_range c
  simp only [wrapTo, Ty.bits, Ty.signed, show (Ty.u32 == Ty.bool) = false from rfl, show (Ty.i32 == Ty.bool) = false from rfl,
    Bool.false_eq_true, if_false, Bool.false_and, Bool.true_and]
  have hp : ((2 : Int) ^ 32) = 4294967296 := by decide
  simp only [hp]
  by_cases hn : 0 ≤ sch c
  · have e1 : sch c % 4294967296 = sch c := Int.emod_eq_of_lt hn (by omega)
    rw [e1, e1]; simp; omega
  · have e1 : sch c % 4294967296 = sch c + 4294967296 := by
      have h3 : (sch c + 4294967296) % 4294967296 = sch c + 4294967296 := Int.emod_eq_of_lt (by omega) (by omega)
      rw [← h3]; simp
    have e2 : (sch c + 4294967296) % 4294967296 = sch c + 4294967296 := Int.emod_eq_of_lt (by omega) (by omega)
    rw [e1, e2]; simp; omega

theorem byteOf_zero : byteOf 0 = 0 := by decide
theorem byteOf_one : byteOf 1 = 1 := by decide

theorem anyW_take_succ (s : List UInt8) (i : Nat) (hi : i < s.length) : anyW (s.take (i + 1)) = (anyW (s.take i) || spc s[i]) := by
  rw [List.take_succ_eq_append_getElem hi]; simp only [anyW, List.any_append, List.any_cons, List.any_nil, Bool.or_false]
theorem anyN_take_succ (s : List UInt8) (i : Nat) (hi : i < s.length) : anyN (s.take (i + 1)) = (anyN (s.take i) || !spc s[i]) := by
  rw [List.take_succ_eq_append_getElem hi]; simp only [anyN, List.any_append, List.any_cons, List.any_nil, Bool.or_false]

theorem cd_test (m : Mem) (bs bw bn : Nat) (i : Int) (v : Int) (W N : Bool) (l0 : Val)
    (h1 : m.load8 bs i = .ok v) (hv : -128 ≤ v ∧ v < 128)
    (h2 : m.load8 bw 0 = .ok (if W then 1 else 0)) (h3 : m.load8 bn 0 = .ok (if N then 1 else 0)) :
    testOf (some (.land (.cast .i32 (.load (.deref (.load (.var 3) .ptr)) .i8)) (.un .lnot
        (.land (.cast .i32 (.load (.deref (.load (.var 1) .ptr)) .bool)) (.cast .i32 (.load (.deref (.load (.var 2) .ptr)) .bool))) .i32)))
        { mem := m, loc := [l0, .ptr bw 0, .ptr bn 0, .ptr bs i] } =
      .ok (decide (v ≠ 0) && !(W && N), { mem := m, loc := [l0, .ptr bw 0, .ptr bn 0, .ptr bs i] }) := by
  have hw32 : wrapTo .i32 v = v := wrapTo_i32 v (by omega) (by omega)
  have w0 : wrapTo .i32 0 = 0 := wrapTo_i32 0 (by decide) (by decide)
  have w1 : wrapTo .i32 1 = 1 := wrapTo_i32 1 (by decide) (by decide)
  have b0 : wrapTo .bool 0 = 0 := by simp [wrapTo]
  have b1 : wrapTo .bool 1 = 1 := by simp [wrapTo]
  by_cases hz : v = 0
  · subst hz
    simp [testOf, evalE, evalL, readPlace, bind, Except.bind, Except.map, h1, convert, w0, truth, boolVal]
  · cases W <;> cases N <;>
      simp [testOf, evalE, evalL, readPlace, bind, Except.bind, Except.map, h1, h2, h3, convert, hw32, hz, truth, boolVal, unop, w0, w1, b0, b1]

theorem check_delim_exec (m : Mem) (bs bw bn : Nat) (s : List UInt8) (h : MemBytes m bs (s ++ [0])) (hs : (0 : UInt8) ∉ s)
    (hw : MemCell m bw) (hn : MemCell m bn) (d1 : bs ≠ bw) (d2 : bs ≠ bn) (d3 : bw ≠ bn) (fuel : Nat) (hf : s.length < fuel) :
    ∃ m' loc', exec fuel LeafFns.check_delim.body { mem := m, loc := [.ptr bs 0, .ptr bw 0, .ptr bn 0, .undef] } =
        .normal { mem := m', loc := loc' } ∧
      MemBytes m' bw [b2u (s.any spc)] ∧ MemBytes m' bn [b2u (s.any (fun c => !spc c))] ∧ MemBytes m' bs (s ++ [0]) ∧
      m'.length = m.length ∧ ∀ b', b' ≠ bw → b' ≠ bn → m'[b']? = m[b']? := by
  -- the two flags are cleared
  obtain ⟨m1, hst1, hm1n, hl1, ho1⟩ := hn.store 0
  rw [byteOf_zero] at hm1n
  have hw1 : MemCell m1 bw := by
    obtain ⟨blk, a1, a2, a3, a4⟩ := hw
    exact ⟨blk, by rw [ho1 bw d3]; exact a1, a2, a3, a4⟩
  obtain ⟨m2, hst2, hm2w, hl2, ho2⟩ := hw1.store 0
  rw [byteOf_zero] at hm2w
  have hm2n : MemBytes m2 bn [b2u false] := hm1n.frame ho2 (Ne.symm d3)
  have hm2s : MemBytes m2 bs (s ++ [0]) := (h.frame ho1 d2).frame ho2 d1
  have hclr : exec fuel (.expr (.assign (.deref (.load (.var 1) .ptr)) (.assign (.deref (.load (.var 2) .ptr)) (.cast .bool (.lit 0 .i32)) .bool) .bool))
      { mem := m, loc := [.ptr bs 0, .ptr bw 0, .ptr bn 0, .undef] } = .normal { mem := m2, loc := [.ptr bs 0, .ptr bw 0, .ptr bn 0, .undef] } := by
    simp [exec, evalE, evalL, readPlace, writePlace, convert, bind, Except.bind, Except.map, wrapTo, hst1, hst2, Ty.bits]
  have hnull : exec fuel (.ite (.bin .eq (.load (.var 0) .ptr) .null .i32) (.ret none) .skip)
      { mem := m2, loc := [.ptr bs 0, .ptr bw 0, .ptr bn 0, .undef] } = .normal { mem := m2, loc := [.ptr bs 0, .ptr bw 0, .ptr bn 0, .undef] } := by
    simp [exec, testOf, evalE, evalL, readPlace, binop, boolVal, truth, bind, Except.bind]
  have hinit : exec fuel (.expr (.assign (.var 3) (.load (.var 0) .ptr) .ptr))
      { mem := m2, loc := [.ptr bs 0, .ptr bw 0, .ptr bn 0, .undef] } = .normal { mem := m2, loc := [.ptr bs 0, .ptr bw 0, .ptr bn 0, .ptr bs 0] } := by
    simp [exec, evalE, evalL, readPlace, writePlace, convert, bind, Except.bind]
  simp only [LeafFns.check_delim]
  rw [exec_seq_normal hclr, exec_seq_normal hnull, exec_seq_normal hinit, exec_for]
  have hstop := stopIdx_le s false false
  have hloop := loop_inv
    (testOf (some (.land (.cast .i32 (.load (.deref (.load (.var 3) .ptr)) .i8)) (.un .lnot
      (.land (.cast .i32 (.load (.deref (.load (.var 1) .ptr)) .bool)) (.cast .i32 (.load (.deref (.load (.var 2) .ptr)) .bool))) .i32))))
    (exec fuel (.ite (.call "isspace" (.cons (.cast .i32 (.cast .u32 (.load (.deref (.load (.var 3) .ptr)) .i8))) .nil))
      (.expr (.assign (.deref (.load (.var 1) .ptr)) (.cast .bool (.lit 1 .i32)) .bool))
      (.expr (.assign (.deref (.load (.var 2) .ptr)) (.cast .bool (.lit 1 .i32)) .bool))))
    (stepOf (some (.incdec (.var 3) true true .ptr)))
    (fun R => MemBytes R.mem bw [b2u (s.any spc)] ∧ MemBytes R.mem bn [b2u (s.any (fun c => !spc c))] ∧ MemBytes R.mem bs (s ++ [0]) ∧
      R.mem.length = m.length ∧ ∀ b', b' ≠ bw → b' ≠ bn → R.mem[b']? = m[b']?)
    (stopIdx s false false)
    (fun i st => st.loc = [.ptr bs 0, .ptr bw 0, .ptr bn 0, .ptr bs (i : Nat)] ∧ MemBytes st.mem bw [b2u (anyW (s.take i))] ∧
      MemBytes st.mem bn [b2u (anyN (s.take i))] ∧ MemBytes st.mem bs (s ++ [0]) ∧
      st.mem.length = m.length ∧ ∀ b', b' ≠ bw → b' ≠ bn → st.mem[b']? = m[b']?)
    ?_ ?_ { mem := m2, loc := [.ptr bs 0, .ptr bw 0, .ptr bn 0, .ptr bs 0] } fuel
    ⟨by simp, by simpa [anyW, b2u] using hm2w, by simpa [anyN, b2u] using hm2n, hm2s, by rw [hl2, hl1],
      fun b' h1 h2 => by rw [ho2 b' h1, ho1 b' h2]⟩ (by omega)
  · obtain ⟨R, hl, hR⟩ := hloop
    obtain ⟨Rm, Rl⟩ := R
    exact ⟨Rm, Rl, hl, hR⟩
  · -- one round
    intro i st hi ⟨hloc, hmw, hmn, hms, hlen, hoth⟩
    obtain ⟨stm, stl⟩ := st
    simp only at hloc hmw hmn hms hlen hoth
    subst hloc
    have hiL : i < s.length := by omega
    have hld := hms.load8 i (by simp; omega)
    rw [List.getElem_append_left hiL] at hld
    have hc0 : s[i] ≠ 0 := fun h0 => hs (h0 ▸ List.getElem_mem _)
    have hnz : sch s[i] ≠ 0 := fun h0 => hc0 ((sch_zero_iff _).1 h0)
    have hnb := stopIdx_before s false false i hi
    simp only [Bool.false_or] at hnb
    have hlw := load_flag hmw
    have hln := load_flag hmn
    obtain ⟨blks, s1, s2, _, s3⟩ := hms.blk
    have hcl : blks.cells.length = s.length + 1 := by rw [s3]; simp
    have h0 : (0 : Int) ≤ (i : Int) + 1 := by omega
    have hle : (i : Int) + 1 ≤ (blks.cells.length : Int) := by rw [hcl]; omega
    have htk : s.take (i + 1) = s.take i ++ [s[i]] := by rw [List.take_succ_eq_append_getElem hiL]
    have hnoteq : ¬ ((anyW (s.take i) = true) ∧ (anyN (s.take i) = true)) := hnb
    -- the test succeeds
    have htest := cd_test stm bs bw bn (i : Nat) (sch s[i]) (anyW (s.take i)) (anyN (s.take i)) (.ptr bs 0) hld (sch_range _) hlw hln
    have htrue : (decide (sch s[i] ≠ 0) && !(anyW (s.take i) && anyN (s.take i))) = true := by
      cases hW : anyW (s.take i) <;> cases hN : anyN (s.take i) <;> simp [hW, hN, hnz] at hnoteq ⊢
    rw [htrue] at htest
    by_cases hsp : spc s[i] = true
    · -- a blank: `*has_wsp = true`
      obtain ⟨m3, hst3, hm3w, hl3, ho3⟩ := hmw.toCell.store 1
      have hnew : MemBytes m3 bw [b2u (anyW (s.take (i + 1)))] := by
        have : anyW (s.take (i + 1)) = true := by rw [anyW_take_succ s i hiL, hsp]; simp
        rw [this]; rw [byteOf_one] at hm3w; exact hm3w
      have hN' : anyN (s.take (i + 1)) = anyN (s.take i) := by rw [anyN_take_succ s i hiL, hsp]; simp
      obtain ⟨blk3, t1, t2, _, t3⟩ := (hms.frame ho3 d1).blk
      have hcl3 : blk3.cells.length = s.length + 1 := by rw [t3]; simp
      have hle3 : (i : Int) + 1 ≤ (blk3.cells.length : Int) := by rw [hcl3]; omega
      refine ⟨_, { mem := m3, loc := [.ptr bs 0, .ptr bw 0, .ptr bn 0, .ptr bs (i : Nat)] },
        { mem := m3, loc := [.ptr bs 0, .ptr bw 0, .ptr bn 0, .ptr bs (i + 1 : Nat)] }, htest, Or.inl ?_, ?_, rfl, hnew,
        by rw [hN']; exact hmn.frame ho3 (Ne.symm d3), hms.frame ho3 d1, hl3.trans hlen,
        fun b' h1 h2 => by rw [ho3 b' h1, hoth b' h1 h2]⟩
      · have b1 : wrapTo .bool 1 = 1 := by simp [wrapTo]
        have hsp2 : isSpace (sch s[i]) = true := hsp
        simp [exec, testOf, evalE, evalL, evalArgs, readPlace, writePlace, builtin, bind, Except.bind, Except.map, hld, convert,
          wrapTo_i32_u32_sch, truth, truth_ite, hsp2, hst3, b1, Ty.bits]
      · simp [stepOf, evalE, evalL, readPlace, writePlace, binop, ptrAdd, Mem.block, t1, t2, h0, hle3, bind, Except.bind, Except.map, Int.natCast_add]
    · -- not a blank: `*has_nonwsp = true`
      have hsp' : spc s[i] = false := by simpa using hsp
      obtain ⟨m3, hst3, hm3n, hl3, ho3⟩ := hmn.toCell.store 1
      have hnew : MemBytes m3 bn [b2u (anyN (s.take (i + 1)))] := by
        have : anyN (s.take (i + 1)) = true := by rw [anyN_take_succ s i hiL, hsp']; simp
        rw [this]; rw [byteOf_one] at hm3n; exact hm3n
      have hW' : anyW (s.take (i + 1)) = anyW (s.take i) := by rw [anyW_take_succ s i hiL, hsp']; simp
      obtain ⟨blk3, t1, t2, _, t3⟩ := (hms.frame ho3 d2).blk
      have hcl3 : blk3.cells.length = s.length + 1 := by rw [t3]; simp
      have hle3 : (i : Int) + 1 ≤ (blk3.cells.length : Int) := by rw [hcl3]; omega
      refine ⟨_, { mem := m3, loc := [.ptr bs 0, .ptr bw 0, .ptr bn 0, .ptr bs (i : Nat)] },
        { mem := m3, loc := [.ptr bs 0, .ptr bw 0, .ptr bn 0, .ptr bs (i + 1 : Nat)] }, htest, Or.inl ?_, ?_, rfl,
        by rw [hW']; exact hmw.frame ho3 d3, hnew, hms.frame ho3 d2, hl3.trans hlen,
        fun b' h1 h2 => by rw [ho3 b' h2, hoth b' h1 h2]⟩
      · have b1 : wrapTo .bool 1 = 1 := by simp [wrapTo]
        have hsp2 : isSpace (sch s[i]) = false := hsp'
        simp [exec, testOf, evalE, evalL, evalArgs, readPlace, writePlace, builtin, bind, Except.bind, Except.map, hld, convert,
          wrapTo_i32_u32_sch, truth, truth_ite, hsp2, hst3, b1, Ty.bits]
      · simp [stepOf, evalE, evalL, readPlace, writePlace, binop, ptrAdd, Mem.block, t1, t2, h0, hle3, bind, Except.bind, Except.map, Int.natCast_add]
  · -- the end
    intro st ⟨hloc, hmw, hmn, hms, hlen, hoth⟩
    obtain ⟨stm, stl⟩ := st
    simp only at hloc hmw hmn hms hlen hoth
    subst hloc
    obtain ⟨hor, hWf, hNf⟩ := stopIdx_at s false false
    simp only [Bool.false_or] at hor hWf hNf
    refine ⟨{ mem := stm, loc := [.ptr bs 0, .ptr bw 0, .ptr bn 0, .ptr bs (stopIdx s false false : Nat)] }, ?_,
      by rw [← show anyW s = s.any spc from rfl, ← hWf]; exact hmw, by rw [← show anyN s = s.any (fun c => !spc c) from rfl, ← hNf]; exact hmn, hms, hlen, hoth⟩
    have hlw := load_flag hmw
    have hln := load_flag hmn
    have hiL : stopIdx s false false ≤ s.length := hstop
    have hld := hms.load8 (stopIdx s false false) (by simp; omega)
    have htest := cd_test stm bs bw bn (stopIdx s false false : Nat) _ (anyW (s.take (stopIdx s false false))) (anyN (s.take (stopIdx s false false)))
      (.ptr bs 0) hld (sch_range _) hlw hln
    rw [htest]
    congr 2
    rcases hor with hL | ⟨hW, hN⟩
    · have : (s ++ [0])[stopIdx s false false]'(by simp; omega) = 0 := by
        rw [List.getElem_append_right (by omega)]; simp [hL]
      rw [this]
      have hz : sch 0 = 0 := by rw [sch_eq]; decide
      simp [hz]
    · simp [hW, hN]

/-- `check_delim` (lib/getfilecontents.c): no fault, the string is left alone, and the two flags are the model's `hasWsp` / `hasNonWsp` -/
theorem C_check_delim (m : Mem) (bs bw bn : Nat) (s : List UInt8) (h : MemBytes m bs (s ++ [0])) (hs : (0 : UInt8) ∉ s)
    (hw : MemCell m bw) (hn : MemCell m bn) (d1 : bs ≠ bw) (d2 : bs ≠ bn) (d3 : bw ≠ bn) (fuel : Nat) (hf : s.length < fuel) :
    ∃ m' loc', exec fuel LeafFns.check_delim.body { mem := m, loc := [.ptr bs 0, .ptr bw 0, .ptr bn 0, .undef] } =
        .normal { mem := m', loc := loc' } ∧
      MemBytes m' bw [b2u (Econf.hasWsp s)] ∧ MemBytes m' bn [b2u (Econf.hasNonWsp s)] ∧ MemBytes m' bs (s ++ [0]) := by
  obtain ⟨m', loc', h1, h2, h3, h4, _, _⟩ := check_delim_exec m bs bw bn s h hs hw hn d1 d2 d3 fuel hf
  have hf' : Econf.isSpace = spc := funext (fun c => (spc_eq c).symm)
  refine ⟨m', loc', h1, ?_, ?_, h4⟩
  · simpa [Econf.hasWsp, hf'] using h2
  · simpa [Econf.hasNonWsp, hf'] using h3

/-! ## `hashstring` -/

def M64 : Int := 18446744073709551616

/-- one step of Bernstein's hash as the C code computes it in `size_t` -/
def djbStep (h : Int) (c : UInt8) : Int := (h * 33 + sch c) % M64

def djb2 (s : List UInt8) : Int := s.foldl djbStep 5381

theorem wrapTo_u64_eq (n : Int) : wrapTo .u64 n = n % M64 := by
  simp only [wrapTo, Ty.bits, Ty.signed, show (Ty.u64 == Ty.bool) = false from rfl, Bool.false_eq_true, if_false, Bool.false_and, M64]
  have hp : ((2 : Int) ^ 64) = 18446744073709551616 := by decide
  rw [hp]

theorem djb_arith (h c : Int) : ((h * 2 ^ 5 % M64 + h) % M64 + c % M64) % M64 = (h * 33 + c) % M64 := by
  have : (2 : Int) ^ 5 = 32 := by decide
  rw [this]
  simp only [M64]
  omega

theorem hashstring_exec (m : Mem) (b : Nat) (s : List UInt8) (h : MemBytes m b (s ++ [0])) (hs : (0 : UInt8) ∉ s)
    (fuel : Nat) (hf : s.length < fuel) :
    ∃ loc', exec fuel LeafFns.hashstring.body { mem := m, loc := [.ptr b 0, .undef, .undef] } = .ret (.int (djb2 s)) { mem := m, loc := loc' } := by
  obtain ⟨blk, h1, h2, _, h3⟩ := h.blk
  have hcl : blk.cells.length = s.length + 1 := by rw [h3]; simp
  have hinit : exec fuel (.expr (.assign (.var 1) (.cast .u64 (.lit 5381 .i32)) .u64)) { mem := m, loc := [.ptr b 0, .undef, .undef] } =
      .normal { mem := m, loc := [.ptr b 0, .int 5381, .undef] } := by
    have : wrapTo .u64 5381 = 5381 := by rw [wrapTo_u64_eq]; decide
    simp [exec, evalE, evalL, writePlace, convert, bind, Except.bind, this]
  simp only [LeafFns.hashstring]
  rw [exec_seq_normal hinit]
  have hloop := loop_inv
    (testOf (some (.assign (.var 2) (.load (.deref (.incdec (.var 0) true true .ptr)) .i8) .i8)))
    (exec fuel (.expr (.assign (.var 1) (.bin .add (.bin .add (.bin .shl (.load (.var 1) .u64) (.lit 5 .i32) .u64) (.load (.var 1) .u64) .u64)
      (.cast .u64 (.load (.var 2) .i8)) .u64) .u64))) (stepOf none)
    (fun R => R.mem = m ∧ R.loc = [.ptr b (s.length + 1 : Nat), .int (djb2 s), .int 0])
    s.length
    (fun i st => st.mem = m ∧ ∃ v2, st.loc = [.ptr b (i : Nat), .int (djb2 (s.take i)), v2])
    ?_ ?_ { mem := m, loc := [.ptr b 0, .int 5381, .undef] } fuel ⟨rfl, .undef, by simp [djb2]⟩ (by omega)
  · obtain ⟨R, hl, hm, hloc⟩ := hloop
    obtain ⟨Rm, Rl⟩ := R
    simp only at hm hloc
    subst hm; subst hloc
    rw [← exec_while] at hl
    rw [exec_seq_normal hl]
    exact ⟨[.ptr b (s.length + 1 : Nat), .int (djb2 s), .int 0], by simp [exec, evalE, evalL, readPlace, bind, Except.bind]⟩
  · intro i st hi ⟨hm, v2, hloc⟩
    obtain ⟨stm, stl⟩ := st
    simp only at hm hloc
    subst hm; subst hloc
    have hld := h.load8 i (by simp; omega)
    rw [List.getElem_append_left hi] at hld
    have hc0 : s[i] ≠ 0 := fun h0 => hs (h0 ▸ List.getElem_mem _)
    have hnz : sch s[i] ≠ 0 := fun h0 => hc0 ((sch_zero_iff _).1 h0)
    have h0 : (0 : Int) ≤ (i : Int) + 1 := by omega
    have hle : (i : Int) + 1 ≤ (blk.cells.length : Int) := by rw [hcl]; omega
    have hnext : djb2 (s.take (i + 1)) = djbStep (djb2 (s.take i)) s[i] := by
      rw [List.take_succ_eq_append_getElem hi]; simp only [djb2, List.foldl_append, List.foldl_cons, List.foldl_nil]
    refine ⟨{ mem := stm, loc := [.ptr b (i + 1 : Nat), .int (djb2 (s.take i)), .int (sch s[i])] },
      { mem := stm, loc := [.ptr b (i + 1 : Nat), .int (djb2 (s.take (i + 1))), .int (sch s[i])] },
      { mem := stm, loc := [.ptr b (i + 1 : Nat), .int (djb2 (s.take (i + 1))), .int (sch s[i])] }, ?_, Or.inl ?_, by simp [stepOf], rfl, _, rfl⟩
    · simp [testOf, evalE, evalL, readPlace, writePlace, binop, ptrAdd, Mem.block, h1, h2, h0, hle, hld, convert, wrapTo_i8_sch,
        bind, Except.bind, Except.map, truth, hnz, Int.natCast_add]
    · have h5 : (0 : Int) ≤ 5 ∧ (5 : Int) < 64 := by decide
      simp [exec, evalE, evalL, readPlace, writePlace, binop, cmpInt, arith, Ty.signed, Ty.bits, convert, wrapTo_u64_eq, bind, Except.bind,
        hnext, djbStep]
      simp only [M64]
      omega
  · intro st ⟨hm, v2, hloc⟩
    obtain ⟨stm, stl⟩ := st
    simp only at hm hloc
    subst hm; subst hloc
    have hld := h.load8 s.length (by simp)
    rw [List.getElem_append_right (by omega)] at hld
    simp only [Nat.sub_self, List.getElem_cons_zero] at hld
    have hz : sch 0 = 0 := by rw [sch_eq]; decide
    rw [hz] at hld
    have h0 : (0 : Int) ≤ (s.length : Int) + 1 := by omega
    have hle : (s.length : Int) + 1 ≤ (blk.cells.length : Int) := by rw [hcl]; omega
    have w0 : wrapTo .i8 0 = 0 := by rw [← hz, wrapTo_i8_sch]
    refine ⟨{ mem := stm, loc := [.ptr b (s.length + 1 : Nat), .int (djb2 s), .int 0] }, ?_, rfl, by simp⟩
    simp [testOf, evalE, evalL, readPlace, writePlace, binop, ptrAdd, Mem.block, h1, h2, h0, hle, hld, convert, w0,
      bind, Except.bind, Except.map, truth, Int.natCast_add, List.take_length]

/-! ## `addbrackets` -/

/-- what `addbrackets` returns: the text itself when it starts with `[` and ends with `]`, otherwise the text in brackets -/
def addSpec (s : List UInt8) : List UInt8 :=
  if s.head? = some 91 ∧ s.getLast? = some 93 then s else 91 :: s ++ [93]

theorem addbrackets_exec (m : Mem) (b : Nat) (s : List UInt8) (h : MemBytes m b (s ++ [0])) (hs : (0 : UInt8) ∉ s)
    (hsmall : (s.length : Int) + 3 < 18446744073709551616) (fuel : Nat) :
    ∃ m' loc', exec fuel LeafFns.addbrackets.body { mem := m, loc := [.ptr b 0, .undef, .undef, .undef] } =
        .ret (.ptr m.length 0) { mem := m', loc := loc' } ∧
      MemBytes m' m.length (addSpec s ++ [0]) ∧ m'.length = m.length + 1 ∧ ∀ b', b' < m.length → m'[b']? = m[b']? := by
  have hstr := h.cstr hs 0 (Nat.zero_le _)
  simp only [Int.natCast_zero, List.drop_zero] at hstr
  have hl0 := h.load8 0 (by simp)
  simp only [Int.natCast_zero] at hl0
  have hbm := h.lt_length
  obtain ⟨blk, h1, h2, hw, h3⟩ := h.blk
  have hlen : blk.cells.length = s.length + 1 := by rw [h3]; simp
  have wL : wrapTo .u64 (s.length : Int) = s.length := wrapTo_u64_small _ (by omega) (by omega)
  have hpre : ∀ rest : Stmt, exec fuel
      (.seq (.ite (.bin .eq (.load (.var 0) .ptr) .null .i32) (.ret (some .null)) .skip)
        (.seq (.expr (.assign (.var 1) (.call "strlen" (.cons (.load (.var 0) .ptr) .nil)) .u64)) rest))
      { mem := m, loc := [.ptr b 0, .undef, .undef, .undef] } =
      exec fuel rest { mem := m, loc := [.ptr b 0, .int (s.length : Nat), .undef, .undef] } := by
    intro rest
    simp [exec, testOf, evalE, evalL, evalArgs, readPlace, writePlace, builtin, hstr, bind, Except.bind, binop, convert, truth, boolVal, wL]
  simp only [LeafFns.addbrackets]
  rw [hpre]
  -- the test
  have hcond_iff : (s.head? = some 91 ∧ s.getLast? = some 93) ↔ (s[0]? = some 91 ∧ s[s.length - 1]? = some 93) := by
    rw [List.head?_eq_getElem?, List.getLast?_eq_getElem?]
  have htest : testOf (some (.un .lnot (.land (.bin .eq (.cast .i32 (.load (.deref (.load (.var 0) .ptr)) .i8)) (.lit 91 .i32) .i32)
      (.bin .eq (.cast .i32 (.load (.deref (.bin .add (.load (.var 0) .ptr) (.bin .sub (.load (.var 1) .u64) (.cast .u64 (.lit 1 .i32)) .u64) .ptr)) .i8))
        (.lit 93 .i32) .i32)) .i32))
      { mem := m, loc := [.ptr b 0, .int (s.length : Nat), .undef, .undef] } =
      .ok (!decide (s.head? = some 91 ∧ s.getLast? = some 93), { mem := m, loc := [.ptr b 0, .int (s.length : Nat), .undef, .undef] }) := by
    have hdec : decide (s.head? = some 91 ∧ s.getLast? = some 93) = decide (s[0]? = some 91 ∧ s[s.length - 1]? = some 93) :=
      decide_eq_decide.2 hcond_iff
    rw [hdec]
    have h91' : sch 91 = 91 := by rw [sch_eq]; decide
    have w91 : wrapTo .i32 91 = 91 := wrapTo_i32 _ (by decide) (by decide)
    have w93 : wrapTo .i32 93 = 93 := wrapTo_i32 _ (by decide) (by decide)
    have w1 : wrapTo .u64 1 = 1 := wrapTo_u64_small 1 (by decide) (by decide)
    by_cases hp : 0 < s.length
    · have hb0 : (s ++ [0])[0]'(by simp) = s[0]'hp := by rw [List.getElem_append_left hp]
      rw [hb0] at hl0
      by_cases hc : s[0]'hp = 91
      · have hL : s.length - 1 < (s ++ [0]).length := by simp; omega
        have hld := h.load8 (s.length - 1) hL
        rw [List.getElem_append_left (by omega)] at hld
        have e : wrapTo .u64 ((s.length : Int) - 1) = ((s.length - 1 : Nat) : Int) := by
          rw [wrapTo_u64_small _ (by omega) (by omega)]; omega
        have h0 : (0 : Int) ≤ ((s.length - 1 : Nat) : Int) := by omega
        have hle : ((s.length - 1 : Nat) : Int) ≤ (blk.cells.length : Int) := by rw [hlen]; omega
        by_cases hlast : s[s.length - 1] = 93
        · have h93' : sch 93 = 93 := by rw [sch_eq]; decide
          have : (s[0]? = some 91 ∧ s[s.length - 1]? = some 93) := by
            rw [List.getElem?_eq_getElem hp, List.getElem?_eq_getElem (by omega), hc, hlast]; exact ⟨rfl, rfl⟩
          rw [hc] at hl0; rw [hlast] at hld
          simp [testOf, evalE, evalL, readPlace, bind, Except.bind, hl0, Except.map, convert, wrapTo_i32_sch, binop, cmpInt, boolVal, truth, unop,
            arith, Ty.signed, h91', h93', w91, w93, w1, e, ptrAdd, Mem.block, h1, h2, h0, hle, hld, this]
        · have hne : sch (s[s.length - 1]) ≠ 93 := fun hh => hlast (sch_inj _ 93 (by rw [hh, sch_eq]; decide))
          have : ¬ (s[0]? = some 91 ∧ s[s.length - 1]? = some 93) := by
            rw [List.getElem?_eq_getElem (show s.length - 1 < s.length by omega)]
            rintro ⟨_, h'⟩
            exact hlast (Option.some.inj h')
          rw [hc] at hl0
          simp [testOf, evalE, evalL, readPlace, bind, Except.bind, hl0, Except.map, convert, wrapTo_i32_sch, binop, cmpInt, boolVal, truth, unop,
            arith, Ty.signed, h91', w91, w1, e, ptrAdd, Mem.block, h1, h2, h0, hle, hld, hne, this]
      · have hne : sch s[0] ≠ 91 := fun hh => hc (sch_inj _ 91 (by rw [hh, sch_eq]; decide))
        have : ¬ (s[0]? = some 91 ∧ s[s.length - 1]? = some 93) := by
          rw [List.getElem?_eq_getElem hp]
          rintro ⟨h', _⟩
          exact hc (Option.some.inj h')
        simp [testOf, evalE, evalL, readPlace, bind, Except.bind, hl0, Except.map, convert, wrapTo_i32_sch, binop, cmpInt, boolVal, truth, unop, hne, this]
    · have hnil : s = [] := List.eq_nil_of_length_eq_zero (by omega)
      subst hnil
      have h91 : sch 0 ≠ 91 := by rw [sch_eq]; decide
      simp [testOf, evalE, evalL, readPlace, bind, Except.bind, hl0, Except.map, convert, wrapTo_i32_sch, binop, cmpInt, boolVal, truth, unop, h91]
  by_cases hcond : s.head? = some 91 ∧ s.getLast? = some 93
  · -- already in brackets: a copy
    have ht := htest
    simp only [hcond, and_self, decide_true, Bool.not_true] at ht
    have hskip := exec_ite_false (fuel := fuel) (a := (.seq (.expr (.assign (.var 2) (.call "malloc" (.cons (.bin .add (.load (.var 1) .u64) (.cast .u64 (.lit 3 .i32)) .u64) .nil)) .ptr))
      (.seq (.ite (.bin .eq (.load (.var 2) .ptr) .null .i32) (.ret (some .null)) .skip)
        (.seq (.expr (.assign (.var 3) (.load (.var 2) .ptr) .ptr))
          (.seq (.expr (.assign (.deref (.incdec (.var 3) true true .ptr)) (.cast .i8 (.lit 91 .i32)) .i8))
            (.seq (.expr (.assign (.var 3) (.call "stpcpy" (.cons (.load (.var 3) .ptr) (.cons (.load (.var 0) .ptr) .nil))) .ptr))
              (.seq (.expr (.assign (.deref (.incdec (.var 3) true true .ptr)) (.cast .i8 (.lit 93 .i32)) .i8))
                (.seq (.expr (.assign (.deref (.load (.var 3) .ptr)) (.cast .i8 (.lit 0 .i32)) .i8)) (.ret (some (.load (.var 2) .ptr)))))))))))
      (b := .skip) ht
    have hskip2 : exec fuel .skip { mem := m, loc := [.ptr b 0, .int (s.length : Nat), .undef, .undef] } =
        .normal { mem := m, loc := [.ptr b 0, .int (s.length : Nat), .undef, .undef] } := by simp [exec]
    rw [hskip2] at hskip
    rw [exec_seq_normal hskip]
    obtain ⟨ha1, ha2, ha3, ha4⟩ := alloc_spec m (s.length + 1)
    have hp : MemPart (m.alloc (s.length + 1)).1 m.length [] ((s ++ [0]).length + 0) := by simpa using ha2
    obtain ⟨m', hst, hm', hl', ho'⟩ := hp.storeBytes (s ++ [0])
    simp only [List.length_nil, Int.natCast_zero, List.nil_append] at hst
    refine ⟨m', [.ptr b 0, .int (s.length : Nat), .undef, .undef], ?_, ?_, by rw [hl', ha3], fun b' hb' => by rw [ho' b' (by omega), ha4 b' hb']⟩
    · simp [exec, evalE, evalL, evalArgs, readPlace, builtin, hstr, bind, Except.bind, Mem.alloc] at hst ⊢
      simp [hst]
    · rw [show addSpec s = s by simp [addSpec, hcond]]
      exact hm'.toBytes
  · -- not in brackets: a new object of strlen + 3 bytes is filled with '[', the text, ']' and the terminator
    have ht := htest
    simp only [hcond, decide_false, Bool.not_false] at ht
    -- the object
    have wL3 : wrapTo .u64 ((s.length : Int) + 3) = ((s.length + 3 : Nat) : Int) := by
      rw [wrapTo_u64_small _ (by omega) (by omega)]; omega
    have w3 : wrapTo .u64 3 = 3 := wrapTo_u64_small 3 (by decide) (by decide)
    obtain ⟨ha1, ha2, ha3, ha4⟩ := alloc_spec m (s.length + 3)
    generalize hm1 : (m.alloc (s.length + 3)).1 = m1 at ha2 ha3 ha4
    have hnb : m.length ≠ b := by omega
    have hS1 : exec fuel (.expr (.assign (.var 2) (.call "malloc" (.cons (.bin .add (.load (.var 1) .u64) (.cast .u64 (.lit 3 .i32)) .u64) .nil)) .ptr))
        { mem := m, loc := [.ptr b 0, .int (s.length : Nat), .undef, .undef] } =
        .normal { mem := m1, loc := [.ptr b 0, .int (s.length : Nat), .ptr m.length 0, .undef] } := by
      simp [exec, evalE, evalL, evalArgs, readPlace, writePlace, builtin, bind, Except.bind, binop, cmpInt, arith, Ty.signed, convert, w3]
      rw [show (s.length : Int) + 3 = ((s.length + 3 : Nat) : Int) by omega] at wL3 ⊢
      rw [wL3]
      simp [Mem.alloc] at hm1 ⊢
      exact hm1
    have hS2 : exec fuel (.ite (.bin .eq (.load (.var 2) .ptr) .null .i32) (.ret (some .null)) .skip)
        { mem := m1, loc := [.ptr b 0, .int (s.length : Nat), .ptr m.length 0, .undef] } =
        .normal { mem := m1, loc := [.ptr b 0, .int (s.length : Nat), .ptr m.length 0, .undef] } := by
      simp [exec, testOf, evalE, evalL, readPlace, binop, boolVal, truth, bind, Except.bind]
    have hS3 : exec fuel (.expr (.assign (.var 3) (.load (.var 2) .ptr) .ptr))
        { mem := m1, loc := [.ptr b 0, .int (s.length : Nat), .ptr m.length 0, .undef] } =
        .normal { mem := m1, loc := [.ptr b 0, .int (s.length : Nat), .ptr m.length 0, .ptr m.length 0] } := by
      simp [exec, evalE, evalL, readPlace, writePlace, convert, bind, Except.bind]
    -- '['
    obtain ⟨blk1, b1, b2, _, b3⟩ := ha2.blk
    have hc1 : blk1.cells.length = s.length + 3 := by rw [b3]; simp
    have hp1 : MemPart m1 m.length [] ((s.length + 2) + 1) := by simpa using ha2
    obtain ⟨m2, hst2, hm2, hl2, ho2⟩ := hp1.store8 91
    have by91 : byteOf 91 = 91 := by decide
    rw [by91] at hm2
    simp only [List.length_nil, Int.natCast_zero, List.nil_append] at hst2 hm2
    have w91 : wrapTo .i8 91 = 91 := wrapTo_i8_of_range 91 (by decide) (by decide)
    have hS4 : exec fuel (.expr (.assign (.deref (.incdec (.var 3) true true .ptr)) (.cast .i8 (.lit 91 .i32)) .i8))
        { mem := m1, loc := [.ptr b 0, .int (s.length : Nat), .ptr m.length 0, .ptr m.length 0] } =
        .normal { mem := m2, loc := [.ptr b 0, .int (s.length : Nat), .ptr m.length 0, .ptr m.length 1] } := by
      have hle : (1 : Int) ≤ (blk1.cells.length : Int) := by rw [hc1]; omega
      simp [exec, evalE, evalL, readPlace, writePlace, binop, ptrAdd, Mem.block, b1, b2, hle, convert, w91, wrapTo_i8_idem, hst2, bind, Except.bind,
        Except.map, Ty.bits]
    -- the text and its terminator
    have hsrc : MemBytes m2 b (s ++ [0]) := (MemBytes.frame ⟨⟨blk, by rw [ha4 b hbm]; exact h1, h2, hw, h3⟩⟩ ho2 (Ne.symm hnb))
    have hstr2 := hsrc.cstr hs 0 (Nat.zero_le _)
    simp only [Int.natCast_zero, List.drop_zero] at hstr2
    have hp2 : MemPart m2 m.length [91] ((s ++ [0]).length + 1) := by simpa [Nat.add_comm, Nat.add_left_comm, Nat.add_assoc] using hm2
    obtain ⟨m3, hst3, hm3, hl3, ho3⟩ := hp2.storeBytes (s ++ [0])
    simp only [List.length_singleton, Int.natCast_one] at hst3
    have hS5 : exec fuel (.expr (.assign (.var 3) (.call "stpcpy" (.cons (.load (.var 3) .ptr) (.cons (.load (.var 0) .ptr) .nil))) .ptr))
        { mem := m2, loc := [.ptr b 0, .int (s.length : Nat), .ptr m.length 0, .ptr m.length 1] } =
        .normal { mem := m3, loc := [.ptr b 0, .int (s.length : Nat), .ptr m.length 0, .ptr m.length (1 + (s.length : Int))] } := by
      simp [exec, evalE, evalL, evalArgs, readPlace, writePlace, builtin, hstr2, hst3, convert, bind, Except.bind]
    -- ']' over the terminator, then the new terminator
    obtain ⟨m4, hst4, hm4, hl4, ho4⟩ := hm3.store8_at (1 + s.length) (by simp; omega) 93
    have by93 : byteOf 93 = 93 := by decide
    rw [by93] at hm4
    have hset : ([91] ++ (s ++ [0])).set (1 + s.length) 93 = 91 :: s ++ [93] := by
      have : (91 :: s).length = 1 + s.length := by simp; omega
      rw [show ([91] ++ (s ++ [0])) = (91 :: s) ++ [0] by simp, List.set_append_right _ _ (by omega), this, Nat.sub_self]
      simp
    rw [hset] at hm4
    have hp4 : MemPart m4 m.length (91 :: s ++ [93]) (0 + 1) := by simpa using hm4
    obtain ⟨m5, hst5, hm5, hl5, ho5⟩ := hp4.store8 0
    rw [byteOf_zero] at hm5
    obtain ⟨blk3, c1, c2, _, c3⟩ := hm3.blk
    have hc3 : blk3.cells.length = s.length + 3 := by rw [c3]; simp [Nat.add_comm, Nat.add_left_comm]
    obtain ⟨blk4, d1, d2, _, d3⟩ := hm4.blk
    have w93 : wrapTo .i8 93 = 93 := wrapTo_i8_of_range 93 (by decide) (by decide)
    have w0 : wrapTo .i8 0 = 0 := wrapTo_i8_of_range 0 (by decide) (by decide)
    have hS6 : exec fuel (.expr (.assign (.deref (.incdec (.var 3) true true .ptr)) (.cast .i8 (.lit 93 .i32)) .i8))
        { mem := m3, loc := [.ptr b 0, .int (s.length : Nat), .ptr m.length 0, .ptr m.length (1 + (s.length : Int))] } =
        .normal { mem := m4, loc := [.ptr b 0, .int (s.length : Nat), .ptr m.length 0, .ptr m.length (1 + (s.length : Int) + 1)] } := by
      have h0 : (0 : Int) ≤ 1 + (s.length : Int) + 1 := by omega
      have hle : 1 + (s.length : Int) + 1 ≤ (blk3.cells.length : Int) := by rw [hc3]; omega
      have e : ((1 + s.length : Nat) : Int) = 1 + (s.length : Int) := by omega
      rw [e] at hst4
      simp [exec, evalE, evalL, readPlace, writePlace, binop, ptrAdd, Mem.block, c1, c2, h0, hle, convert, w93, wrapTo_i8_idem, hst4, bind, Except.bind,
        Except.map, Ty.bits]
    have hS7 : exec fuel (.expr (.assign (.deref (.load (.var 3) .ptr)) (.cast .i8 (.lit 0 .i32)) .i8))
        { mem := m4, loc := [.ptr b 0, .int (s.length : Nat), .ptr m.length 0, .ptr m.length (1 + (s.length : Int) + 1)] } =
        .normal { mem := m5, loc := [.ptr b 0, .int (s.length : Nat), .ptr m.length 0, .ptr m.length (1 + (s.length : Int) + 1)] } := by
      have e : (((91 :: s ++ [93]).length : Nat) : Int) = 1 + (s.length : Int) + 1 := by simp; omega
      rw [e] at hst5
      simp [exec, evalE, evalL, readPlace, writePlace, convert, w0, wrapTo_i8_idem, hst5, bind, Except.bind, Except.map, Ty.bits]
    have hA := exec_ite_true (fuel := fuel) (a := (.seq (.expr (.assign (.var 2) (.call "malloc" (.cons (.bin .add (.load (.var 1) .u64) (.cast .u64 (.lit 3 .i32)) .u64) .nil)) .ptr))
      (.seq (.ite (.bin .eq (.load (.var 2) .ptr) .null .i32) (.ret (some .null)) .skip)
        (.seq (.expr (.assign (.var 3) (.load (.var 2) .ptr) .ptr))
          (.seq (.expr (.assign (.deref (.incdec (.var 3) true true .ptr)) (.cast .i8 (.lit 91 .i32)) .i8))
            (.seq (.expr (.assign (.var 3) (.call "stpcpy" (.cons (.load (.var 3) .ptr) (.cons (.load (.var 0) .ptr) .nil))) .ptr))
              (.seq (.expr (.assign (.deref (.incdec (.var 3) true true .ptr)) (.cast .i8 (.lit 93 .i32)) .i8))
                (.seq (.expr (.assign (.deref (.load (.var 3) .ptr)) (.cast .i8 (.lit 0 .i32)) .i8)) (.ret (some (.load (.var 2) .ptr)))))))))))
      (b := .skip) ht
    rw [exec_seq_normal hS1, exec_seq_normal hS2, exec_seq_normal hS3, exec_seq_normal hS4, exec_seq_normal hS5, exec_seq_normal hS6,
      exec_seq_normal hS7] at hA
    have hret : exec fuel (.ret (some (.load (.var 2) .ptr)))
        { mem := m5, loc := [.ptr b 0, .int (s.length : Nat), .ptr m.length 0, .ptr m.length (1 + (s.length : Int) + 1)] } =
        .ret (.ptr m.length 0) { mem := m5, loc := [.ptr b 0, .int (s.length : Nat), .ptr m.length 0, .ptr m.length (1 + (s.length : Int) + 1)] } := by
      simp [exec, evalE, evalL, readPlace, bind, Except.bind]
    rw [hret] at hA
    rw [exec_seq_ret hA]
    refine ⟨m5, _, rfl, ?_, by rw [hl5, hl4, hl3, hl2, ha3], fun b' hb' => ?_⟩
    · rw [show addSpec s = 91 :: s ++ [93] by simp [addSpec, hcond]]
      exact hm5.toBytes
    · have hne : b' ≠ m.length := by omega
      rw [ho5 b' hne, ho4 b' hne, ho3 b' hne, ho2 b' hne, ha4 b' hb']

theorem addSpec_eq (s : List UInt8) : addSpec s = Econf.addBrackets s := by
  simp only [addSpec, Econf.addBrackets, Econf.LBR, Econf.RBR, Bool.and_eq_true, beq_iff_eq]

/-- `addbrackets` (lib/helpers.c): no fault, the argument is left alone, and the new string is the model's `addBrackets` -/
theorem C_addbrackets (m : Mem) (b : Nat) (s : List UInt8) (h : MemBytes m b (s ++ [0])) (hs : (0 : UInt8) ∉ s)
    (hsmall : (s.length : Int) + 3 < 18446744073709551616) (fuel : Nat) :
    ∃ m' loc', exec fuel LeafFns.addbrackets.body { mem := m, loc := [.ptr b 0, .undef, .undef, .undef] } =
        .ret (.ptr m.length 0) { mem := m', loc := loc' } ∧
      MemBytes m' m.length (Econf.addBrackets s ++ [0]) ∧ m'.length = m.length + 1 ∧ ∀ b', b' < m.length → m'[b']? = m[b']? := by
  have := addbrackets_exec m b s h hs hsmall fuel
  rwa [addSpec_eq] at this



/-- what `replace_str` leaves: the first occurrence of `o` replaced by `r`, when `r` is not longer than `o` -/
def replaceSpec (s o r : List UInt8) : List UInt8 :=
  if o.length < r.length then s
  else match findSub o s 0 with
    | none => s
    | some i => s.take i ++ r ++ s.drop (i + o.length)

theorem drop_take_mid {α} (A T : List α) (z : α) (n : Nat) (h : A.length = n) :
    ((A ++ T ++ [z]).drop n).take (T.length + 1) = T ++ [z] := by
  subst h
  simp only [List.append_assoc, List.drop_left']
  rw [show T.length + 1 = (T ++ [z]).length by simp, List.take_length]

theorem take_front {α} (A F T : List α) (z : α) (n : Nat) (h : A.length = n) :
    (A ++ F ++ T ++ [z]).take n = A := by
  subst h; simp [List.append_assoc]

theorem replace_str_exec (m : Mem) (b0 b1 b2 : Nat) (s o r : List UInt8)
    (h0 : MemBytes m b0 (s ++ [0])) (h1 : MemBytes m b1 (o ++ [0])) (h2 : MemBytes m b2 (r ++ [0]))
    (hs : (0 : UInt8) ∉ s) (ho : (0 : UInt8) ∉ o) (hr : (0 : UInt8) ∉ r)
    (d01 : b0 ≠ b1) (d02 : b0 ≠ b2)
    (hsmall : (s.length : Int) + 1 < 18446744073709551616 ∧ (o.length : Int) < 18446744073709551616 ∧ (r.length : Int) < 18446744073709551616)
    (fuel : Nat) :
    ∃ m' loc', exec fuel LeafFns.replace_str.body { mem := m, loc := [.ptr b0 0, .ptr b1 0, .ptr b2 0, .undef, .undef, .undef] } =
        .ret (.ptr b0 0) { mem := m', loc := loc' } ∧
      m'.cstr b0 0 = .ok (replaceSpec s o r) ∧ m'.length = m.length ∧ ∀ b', b' ≠ b0 → m'[b']? = m[b']? := by
  have hstr0 := h0.cstr hs 0 (Nat.zero_le _)
  have hstr1 := h1.cstr ho 0 (Nat.zero_le _)
  have hstr2 := h2.cstr hr 0 (Nat.zero_le _)
  simp only [Int.natCast_zero, List.drop_zero] at hstr0 hstr1 hstr2
  have wo : wrapTo .u64 (o.length : Int) = o.length := wrapTo_u64_small _ (by omega) (by omega)
  have wr : wrapTo .u64 (r.length : Int) = r.length := wrapTo_u64_small _ (by omega) (by omega)
  have hpre : ∀ rest : Stmt, exec fuel
      (.seq (.expr (.assign (.var 4) (.call "strlen" (.cons (.load (.var 1) .ptr) .nil)) .u64))
        (.seq (.expr (.assign (.var 5) (.call "strlen" (.cons (.load (.var 2) .ptr) .nil)) .u64)) rest))
      { mem := m, loc := [.ptr b0 0, .ptr b1 0, .ptr b2 0, .undef, .undef, .undef] } =
      exec fuel rest { mem := m, loc := [.ptr b0 0, .ptr b1 0, .ptr b2 0, .undef, .int (o.length : Nat), .int (r.length : Nat)] } := by
    intro rest
    simp [exec, evalE, evalL, evalArgs, readPlace, writePlace, builtin, hstr1, hstr2, bind, Except.bind, convert, wo, wr]
  simp only [LeafFns.replace_str]
  rw [hpre]
  by_cases hlen : o.length < r.length
  · -- the replacement is longer: nothing happens
    refine ⟨m, [.ptr b0 0, .ptr b1 0, .ptr b2 0, .undef, .int (o.length : Nat), .int (r.length : Nat)], ?_, ?_, rfl, fun _ _ => rfl⟩
    · have : (o.length : Int) < (r.length : Int) := by omega
      simp [exec, testOf, evalE, evalL, readPlace, binop, cmpInt, boolVal, truth, bind, Except.bind, this]
    · simp [replaceSpec, hlen, hstr0]
  · cases hf : findSub o s 0 with
    | none =>
      refine ⟨m, [.ptr b0 0, .ptr b1 0, .ptr b2 0, .null, .int (o.length : Nat), .int (r.length : Nat)], ?_, ?_, rfl, fun _ _ => rfl⟩
      · have : ¬ (o.length : Int) < (r.length : Int) := by omega
        simp [exec, testOf, evalE, evalL, evalArgs, readPlace, writePlace, builtin, hstr0, hstr1, hf, binop, cmpInt, boolVal, truth, unop, convert,
          bind, Except.bind, Except.map, this]
      · simp [replaceSpec, hlen, hf, hstr0]
    | some i =>
      obtain ⟨_, hbnd⟩ := findSub_bound o s 0 i hf
      simp only [Nat.sub_zero] at hbnd
      have hrl : r.length ≤ o.length := by omega
      obtain ⟨blk, c1, c2, _, c3⟩ := h0.blk
      have hcl : blk.cells.length = s.length + 1 := by rw [c3]; simp
      -- the test lets us pass, `p` points at the occurrence
      have hcond : exec fuel (.ite (.lor (.bin .gt (.load (.var 5) .u64) (.load (.var 4) .u64) .i32)
          (.un .lnot (.assign (.var 3) (.call "strstr" (.cons (.load (.var 0) .ptr) (.cons (.load (.var 1) .ptr) .nil))) .ptr) .i32))
          (.ret (some (.load (.var 0) .ptr))) .skip)
          { mem := m, loc := [.ptr b0 0, .ptr b1 0, .ptr b2 0, .undef, .int (o.length : Nat), .int (r.length : Nat)] } =
          .normal { mem := m, loc := [.ptr b0 0, .ptr b1 0, .ptr b2 0, .ptr b0 (i : Nat), .int (o.length : Nat), .int (r.length : Nat)] } := by
        have : ¬ (o.length : Int) < (r.length : Int) := by omega
        simp [exec, testOf, evalE, evalL, evalArgs, readPlace, writePlace, builtin, hstr0, hstr1, hf, binop, cmpInt, boolVal, truth, unop, convert,
          bind, Except.bind, Except.map, this]
      -- memcpy(p, rep, rep_len)
      have hld := h2.loadBytes r.length 0 (by simp)
      simp only [Int.natCast_zero, List.drop_zero, List.take_left'] at hld
      have hld' : m.loadBytes b2 0 r.length = .ok r := by simpa using hld
      obtain ⟨m1, hst1, hm1, hl1, ho1⟩ := h0.storeBytes_at r i (by simp; omega)
      have hcpy : exec fuel (.expr (.call "memcpy" (.cons (.load (.var 3) .ptr) (.cons (.load (.var 2) .ptr) (.cons (.load (.var 5) .u64) .nil)))))
          { mem := m, loc := [.ptr b0 0, .ptr b1 0, .ptr b2 0, .ptr b0 (i : Nat), .int (o.length : Nat), .int (r.length : Nat)] } =
          .normal { mem := m1, loc := [.ptr b0 0, .ptr b1 0, .ptr b2 0, .ptr b0 (i : Nat), .int (o.length : Nat), .int (r.length : Nat)] } := by
        simp [exec, evalE, evalL, evalArgs, readPlace, builtin, hld', hst1, bind, Except.bind]
      -- the cells after the copy, seen as: [0, i+|r|) ++ filler ++ tail ++ NUL
      have hcells1 : (s ++ [0]).take i ++ r ++ (s ++ [0]).drop (i + r.length) =
          (s.take i ++ r ++ (s.drop (i + r.length)).take (o.length - r.length)) ++ s.drop (i + o.length) ++ 0 :: [] := by
        have e1 : (s ++ [0]).take i = s.take i := List.take_append_of_le_length (by omega)
        have e2 : (s ++ [0]).drop (i + r.length) = s.drop (i + r.length) ++ [0] := List.drop_append_of_le_length (by omega)
        have e3 : s.drop (i + r.length) = (s.drop (i + r.length)).take (o.length - r.length) ++ s.drop (i + o.length) := by
          conv => lhs; rw [← List.take_append_drop (o.length - r.length) (s.drop (i + r.length))]
          rw [List.drop_drop]
          congr 2; omega
        rw [e1, e2]
        conv => lhs; rw [e3]
        simp
      rw [hcells1] at hm1
      have hplen : (s.take i ++ r ++ (s.drop (i + r.length)).take (o.length - r.length)).length = i + o.length := by
        simp; omega
      have htail0 : (0 : UInt8) ∉ s.drop (i + o.length) := fun hm0 => hs (List.mem_of_mem_drop hm0)
      have hstrt := hm1.cstr_at htail0
      rw [hplen] at hstrt
      -- memmove(p + rep_len, p + orig_len, strlen(p + orig_len) + 1)
      obtain ⟨blk1, e1, e2, _, e3⟩ := hm1.blk
      have hcl1 : blk1.cells.length = s.length + 1 := by rw [e3]; simp; omega
      have hsrc := hm1.loadBytes ((s.drop (i + o.length)).length + 1) (i + o.length) (by simp; omega)
      have hsrcv : ((s.take i ++ r ++ (s.drop (i + r.length)).take (o.length - r.length) ++ s.drop (i + o.length) ++ 0 :: []).drop (i + o.length)).take
          ((s.drop (i + o.length)).length + 1) = s.drop (i + o.length) ++ [0] := by
        exact drop_take_mid _ _ _ _ hplen
      rw [hsrcv] at hsrc
      obtain ⟨m2, hst2, hm2, hl2, ho2⟩ := hm1.storeBytes_at (s.drop (i + o.length) ++ [0]) (i + r.length) (by simp; omega)
      have wt : wrapTo .u64 (((s.length - (i + o.length) : Nat) : Int) + 1) = ((s.length - (i + o.length) : Nat) : Int) + 1 :=
        wrapTo_u64_small _ (by omega) (by omega)
      have htl : (s.drop (i + o.length)).length = s.length - (i + o.length) := List.length_drop
      rw [htl] at hsrc
      have w1 : wrapTo .u64 1 = 1 := wrapTo_u64_small 1 (by decide) (by decide)
      have hmove : exec fuel (.expr (.call "memmove" (.cons (.bin .add (.load (.var 3) .ptr) (.load (.var 5) .u64) .ptr)
          (.cons (.bin .add (.load (.var 3) .ptr) (.load (.var 4) .u64) .ptr)
            (.cons (.bin .add (.call "strlen" (.cons (.bin .add (.load (.var 3) .ptr) (.load (.var 4) .u64) .ptr) .nil)) (.cast .u64 (.lit 1 .i32)) .u64) .nil)))))
          { mem := m1, loc := [.ptr b0 0, .ptr b1 0, .ptr b2 0, .ptr b0 (i : Nat), .int (o.length : Nat), .int (r.length : Nat)] } =
          .normal { mem := m2, loc := [.ptr b0 0, .ptr b1 0, .ptr b2 0, .ptr b0 (i : Nat), .int (o.length : Nat), .int (r.length : Nat)] } := by
        have a0 : (0 : Int) ≤ (i : Int) + (r.length : Int) := by omega
        have a1 : (i : Int) + (r.length : Int) ≤ (blk1.cells.length : Int) := by rw [hcl1]; omega
        have a2 : (0 : Int) ≤ (i : Int) + (o.length : Int) := by omega
        have a3 : (i : Int) + (o.length : Int) ≤ (blk1.cells.length : Int) := by rw [hcl1]; omega
        simp only [Int.natCast_add] at hstrt hsrc hst2 wt
        simp [exec, evalE, evalL, evalArgs, readPlace, builtin, binop, ptrAdd, Mem.block, e1, e2, a0, a1, a2, a3, hstrt, cmpInt, arith, Ty.signed,
          convert, w1, wt, hsrc, hst2, Int.toNat_natCast_add_one, bind, Except.bind]
      refine ⟨m2, [.ptr b0 0, .ptr b1 0, .ptr b2 0, .ptr b0 (i : Nat), .int (o.length : Nat), .int (r.length : Nat)], ?_, ?_, hl2.trans hl1,
        fun b' hb' => by rw [ho2 b' hb', ho1 b' hb']⟩
      · rw [exec_seq_normal hcond, exec_seq_normal hcpy, exec_seq_normal hmove]
        simp [exec, evalE, evalL, readPlace, bind, Except.bind]
      · -- the string that is left
        have hfin : (s.take i ++ r ++ (s.drop (i + r.length)).take (o.length - r.length) ++ s.drop (i + o.length) ++ 0 :: []).take (i + r.length) ++
            (s.drop (i + o.length) ++ [0]) ++
            (s.take i ++ r ++ (s.drop (i + r.length)).take (o.length - r.length) ++ s.drop (i + o.length) ++ 0 :: []).drop (i + r.length + (s.drop (i + o.length) ++ [0]).length) =
            (s.take i ++ r ++ s.drop (i + o.length)) ++ 0 :: ((s.take i ++ r ++ (s.drop (i + r.length)).take (o.length - r.length) ++ s.drop (i + o.length) ++ 0 :: []).drop (i + r.length + (s.drop (i + o.length) ++ [0]).length)) := by
          have hp2 : (s.take i ++ r).length = i + r.length := by simp; omega
          have : (s.take i ++ r ++ (s.drop (i + r.length)).take (o.length - r.length) ++ s.drop (i + o.length) ++ 0 :: []).take (i + r.length) = s.take i ++ r := by
            exact take_front _ _ _ _ _ hp2
          rw [this]
          simp
        rw [hfin] at hm2
        have hnz : (0 : UInt8) ∉ s.take i ++ r ++ s.drop (i + o.length) := by
          intro hm0
          rcases List.mem_append.1 hm0 with h | h
          · rcases List.mem_append.1 h with h | h
            · exact hs (List.mem_of_mem_take h)
            · exact hr h
          · exact hs (List.mem_of_mem_drop h)
        rw [hm2.cstr0 hnz]
        simp [replaceSpec, hlen, hf]

theorem replaceSpec_length (s o r : List UInt8) : (replaceSpec s o r).length ≤ s.length := by
  unfold replaceSpec
  split
  · exact Nat.le_refl _
  · split
    · exact Nat.le_refl _
    · rename_i i hf
      obtain ⟨_, hb⟩ := findSub_bound o s 0 i hf
      simp only [Nat.sub_zero] at hb
      simp only [List.length_append, List.length_take, List.length_drop]
      omega

/-- `replace_str` (util/econftool.c): for every source, search and replacement string the function runs without a fault – every
    access of `memcpy`, `memmove`, `strstr` and `strlen` stays inside the three strings –, returns its first argument, leaves every
    other block alone, and the string left in place is `replaceSpec`, which is never longer than the source. -/
theorem C_replace_str (m : Mem) (b0 b1 b2 : Nat) (s o r : List UInt8)
    (h0 : MemBytes m b0 (s ++ [0])) (h1 : MemBytes m b1 (o ++ [0])) (h2 : MemBytes m b2 (r ++ [0]))
    (hs : (0 : UInt8) ∉ s) (ho : (0 : UInt8) ∉ o) (hr : (0 : UInt8) ∉ r) (d01 : b0 ≠ b1) (d02 : b0 ≠ b2)
    (hsmall : (s.length : Int) + 1 < 18446744073709551616 ∧ (o.length : Int) < 18446744073709551616 ∧ (r.length : Int) < 18446744073709551616)
    (fuel : Nat) :
    ∃ m' loc' res, exec fuel LeafFns.replace_str.body { mem := m, loc := [.ptr b0 0, .ptr b1 0, .ptr b2 0, .undef, .undef, .undef] } =
        .ret (.ptr b0 0) { mem := m', loc := loc' } ∧
      m'.cstr b0 0 = .ok res ∧ res = replaceSpec s o r ∧ res.length ≤ s.length ∧ ∀ b', b' ≠ b0 → m'[b']? = m[b']? := by
  obtain ⟨m', loc', h, hc, _, hf⟩ := replace_str_exec m b0 b1 b2 s o r h0 h1 h2 hs ho hr d01 d02 hsmall fuel
  exact ⟨m', loc', _, h, hc, rfl, replaceSpec_length s o r, hf⟩

example : replaceSpec [97, 92, 116, 98] [92, 116] [9] = [97, 9, 98] := by decide

end Leaf
