import Econf.Parser
namespace Econf
end Econf
