import Econf.Lemmas.ParserLemmas

/-!
  C04 — no file content can corrupt memory, crash or hang the read.

  What is proved about the model: for EVERY byte sequence, delimiter set, comment set and option,
  the read terminates (all functions of `Econf/Parser.lean` are total: structural recursion
  accepted by Lean, no fuel, no `partial`) and returns either an object or one of the four
  documented parse errors together with the number of a line of the file.
  What is not proved: that the C pointer walks stay inside their buffers (the planned
  index-level "Low" model is not built).  That part of the property rests on the correspondence
  run of this check under AddressSanitizer/UBSan (exhaustive short inputs, mutated documents,
  long lines) — see DESIGN.md section 10.
-/

set_option linter.unusedSimpArgs false

namespace Econf

/-- the read of any content returns an object or a documented parse error naming an existing line -/
theorem C04_read_total (cfg : Cfg) (content : Str) :
    (∃ st, parseBytes cfg content = .ok st) ∨
    (∃ e n, parseBytes cfg content = .error (e, n) ∧ ParseErr e ∧ 1 ≤ n ∧ n ≤ lineCount content) := by
  unfold parseBytes
  simp only
  cases h : parseLines { cfg with comment := if cfg.comment.isEmpty then [0x23] else cfg.comment } {} (splitLines content) with
  | ok st => exact Or.inl ⟨_, rfl⟩
  | error en =>
    obtain ⟨e, n⟩ := en
    have := parseLines_err _ _ _ _ _ h
    simp at this
    exact Or.inr ⟨e, n, rfl, this.1, by omega, this.2.2⟩

/-- per line, for every parser state -/
theorem C04_line_total (cfg : Cfg) (st : PState) (raw : Str) :
    (∃ st', parseLine cfg st raw = .ok st') ∨ (∃ e, parseLine cfg st raw = .error e ∧ ParseErr e) := by
  cases h : parseLine cfg st raw with
  | ok st' => exact Or.inl ⟨st', rfl⟩
  | error e => exact Or.inr ⟨e, rfl, parseLine_err _ _ _ _ h⟩

/-- line splitting loses nothing: the lines concatenate to the content -/
theorem C04_split_lossless (content : Str) : (splitLines content).flatten = content := by
  induction content with
  | nil => rfl
  | cons x xs ih =>
    unfold splitLines
    split
    · rename_i hx
      simp only [List.flatten_cons, ih]
      simp at hx; simp [hx]
    · split
      · rename_i h0
        rw [h0] at ih
        simp at ih; simp [← ih]
      · rename_i l ls h0
        rw [h0] at ih
        simp only [List.flatten_cons] at ih ⊢
        rw [← ih]; rfl

end Econf
