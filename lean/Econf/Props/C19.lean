import Econf.Tool

/-!
  # C19 – econftool shows what an application would get

  `toolShow` is the model of `pr_key_file` (util/econftool.c), written over the same listing and
  getter models the library API has (`getGroups`, `getKeys`, `getExt`); the correspondence check
  compares it byte for byte with the stdout of the freshly built tool.  Theorems: every block the
  listing yields – the group-less one included – is part of the output (`C19_block_shown`), every
  key the listing yields has its line there (`C19_key_shown`) and that line carries the key, ` = `
  and the value lines of the first definition (`C19_key_line`); an object that has only group-less
  keys is not shown as empty (`C19_groupless_only`, the historical defect F18).
  Not covered by a theorem (correspondence check only): exit status of `syntax`, the file list of
  `cat`, the escape translation of `--delimiters`.
-/

set_option linter.unusedSimpArgs false

namespace Econf

/-- the groups `econftool show` iterates over: the group-less block, then `econf_getGroups` -/
def shownGroups (kf : KeyFile) : List (Option Str) :=
  none :: (match getGroups kf with
    | .ok gs => gs
    | .error _ => []).map some

theorem toolShow_eq (kf : KeyFile) : toolShow kf = ((shownGroups kf).map (toolGroup kf)).flatten := rfl

/-- every block – the group-less one and one per listed section – is printed -/
theorem C19_block_shown (kf : KeyFile) (g : Option Str) (hg : g ∈ shownGroups kf) :
    toolGroup kf g <:+: toolShow kf := by
  rw [toolShow_eq]
  exact List.infix_of_mem_flatten (List.mem_map.mpr ⟨g, hg, rfl⟩)

/-- every key the library lists for a block has its line in the block -/
theorem C19_key_in_block (kf : KeyFile) (g : Option Str) (ks : List Str) (k : Str)
    (hk : getKeys kf g = .ok ks) (hin : k ∈ ks) : toolKey kf g k <:+: toolGroup kf g := by
  unfold toolGroup
  rw [hk]
  simp only
  have h1 : toolKey kf g k <:+: (ks.map (toolKey kf g)).flatten :=
    List.infix_of_mem_flatten (List.mem_map.mpr ⟨k, hin, rfl⟩)
  have h2 : ∀ pre : Str, (ks.map (toolKey kf g)).flatten <:+: (pre ++ (ks.map (toolKey kf g)).flatten ++ [NL]) := by
    intro pre; rw [List.append_assoc]; exact List.infix_append' _ _ _
  exact h1.trans (h2 _)

/-- every key of every listed block is printed -/
theorem C19_key_shown (kf : KeyFile) (g : Option Str) (ks : List Str) (k : Str)
    (hg : g ∈ shownGroups kf) (hk : getKeys kf g = .ok ks) (hin : k ∈ ks) : toolKey kf g k <:+: toolShow kf :=
  (C19_key_in_block kf g ks k hk hin).trans (C19_block_shown kf g hg)

theorem findIdx?_of_mem {α} (p : α → Bool) (l : List α) (h : ∃ e ∈ l, p e = true) :
    ∃ i e, l.findIdx? p = some i ∧ l[i]? = some e ∧ p e = true := by
  induction l with
  | nil => obtain ⟨e, he, _⟩ := h; cases he
  | cons a as ih =>
    by_cases hpa : p a = true
    · exact ⟨0, a, by simp [List.findIdx?_cons, hpa], rfl, hpa⟩
    · obtain ⟨e, he, hpe⟩ := h
      have : ∃ e ∈ as, p e = true := by
        rcases List.mem_cons.mp he with rfl | he
        · exact absurd hpe hpa
        · exact ⟨e, he, hpe⟩
      obtain ⟨i, e', h1, h2, h3⟩ := ih this
      exact ⟨i + 1, e', by simp [List.findIdx?_cons, hpa, h1], by simpa using h2, h3⟩

/-- the line of a listed key: the key, ` = `, and the value lines of the first definition of that
    key in that block (nothing but the line break when it has no value) -/
theorem C19_key_line (kf : KeyFile) (g : Option Str) (ks : List Str) (k : Str)
    (hk : getKeys kf g = .ok ks) (hin : k ∈ ks) (hne : k ≠ []) :
    ∃ e ∈ kf.entries, e.group = rawGroup g ∧ e.key = k ∧
      toolKey kf g k = k ++ EQS ++ toolValueLines (extValues e.value) := by
  unfold getKeys at hk
  simp only at hk
  split at hk
  · cases hk
  · simp only [Except.ok.injEq] at hk
    subst hk
    obtain ⟨e0, he0, hk0⟩ := List.mem_map.mp hin
    have he0' := List.mem_filter.mp he0
    have hex : ∃ e ∈ kf.entries, (fun e : Entry => e.group == rawGroup g && e.key == k) e = true :=
      ⟨e0, he0'.1, by simp [he0'.2, hk0] ⟩
    obtain ⟨i, e, h1, h2, h3⟩ := findIdx?_of_mem _ _ hex
    have hmem : e ∈ kf.entries := List.mem_of_getElem? h2
    simp only [Bool.and_eq_true, beq_iff_eq] at h3
    refine ⟨e, hmem, h3.1, h3.2, ?_⟩
    have hke : k.isEmpty = false := by cases k with
      | nil => exact absurd rfl hne
      | cons a as => rfl
    unfold toolKey getExt findKey findIdx
    simp only [hke, Bool.false_eq_true, if_false, h1, h2]

/-- an object with group-less keys only (the most common kind of file) is not shown as empty:
    its first key line is part of the output -/
theorem C19_groupless_only (kf : KeyFile) (e : Entry) (he : e ∈ kf.entries) (hg : e.group = NONE) (hk : e.key ≠ []) :
    ∃ ks, getKeys kf none = .ok ks ∧ e.key ∈ ks ∧ toolKey kf none e.key <:+: toolShow kf ∧ toolKey kf none e.key ≠ [] := by
  have hmem : e.key ∈ (kf.entries.filter (fun x => x.group == NONE)).map (·.key) :=
    List.mem_map.mpr ⟨e, List.mem_filter.mpr ⟨he, by simp [hg]⟩, rfl⟩
  have hks : getKeys kf none = .ok ((kf.entries.filter (fun x => x.group == NONE)).map (·.key)) := by
    unfold getKeys rawGroup
    simp only
    split
    · rename_i hh
      have : (kf.entries.filter (fun x => x.group == NONE)).map (·.key) = [] := by simpa using hh
      rw [this] at hmem; cases hmem
    · rfl
  refine ⟨_, hks, hmem, C19_key_shown kf none _ _ (by simp [shownGroups]) hks hmem, ?_⟩
  obtain ⟨e', _, _, _, hline⟩ := C19_key_line kf none _ e.key hks hmem hk
  rw [hline]
  cases hkk : e.key with
  | nil => exact absurd hkk hk
  | cons a as => simp

/-- non-vacuity: `k=v` alone; the output is `k = v⏎⏎` -/
example : toolShow { entries := [{ group := NONE, key := [0x6b], value := some [0x76], cb := none, ca := none, line := 1, quotes := false }],
                     groups := [NONE] } = [0x6b, 0x20, 0x3d, 0x20, 0x76, 0x0a, 0x0a] := by decide

end Econf
