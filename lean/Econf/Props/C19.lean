import Econf.Tool
import Econf.Lemmas.GrammarLemmas

/-!
  # C19 – econftool shows what an application would get

  `toolShow` is the model of `pr_key_file` (util/econftool.c), written over the same listing and
  getter models the library API has (`getGroups`, `getKeys`, `getExt`); the correspondence check
  compares it byte for byte with the stdout of the freshly built tool.  Theorems: every block the
  listing yields – the group-less one included – is part of the output (`C19_block_shown`), every
  key the listing yields has its line there (`C19_key_shown`) and that line carries the key, ` = `
  and the value lines of the first definition (`C19_key_line`); an object that has only group-less
  keys is not shown as empty (`C19_groupless_only`, the historical defect F18).
  `C19_decode`: the output decodes to exactly the lines the listing calls for, in order – nothing else
  is printed.  Not covered by a theorem (correspondence check only): exit status of `syntax`, the file
  list of `cat`, the escape translation of `--delimiters`.
-/

set_option linter.unusedSimpArgs false

namespace Econf

/-- the groups `econftool show` iterates over: the group-less block, then `econf_getGroups` -/
def shownGroups (kf : KeyFile) : List (Option Str) :=
  none :: (match getGroups kf with
    | .ok gs => gs
    | .error _ => []).map some

theorem toolShow_eq (kf : KeyFile) : toolShow kf = ((shownGroups kf).map (toolGroup kf)).flatten := rfl

/-- every block – the group-less one and one per listed section – is printed -/
theorem C19_block_shown (kf : KeyFile) (g : Option Str) (hg : g ∈ shownGroups kf) :
    toolGroup kf g <:+: toolShow kf := by
  rw [toolShow_eq]
  exact List.infix_of_mem_flatten (List.mem_map.mpr ⟨g, hg, rfl⟩)

/-- every key the library lists for a block has its line in the block -/
theorem C19_key_in_block (kf : KeyFile) (g : Option Str) (ks : List Str) (k : Str)
    (hk : getKeys kf g = .ok ks) (hin : k ∈ ks) : toolKey kf g k <:+: toolGroup kf g := by
  unfold toolGroup
  rw [hk]
  simp only
  have h1 : toolKey kf g k <:+: (ks.map (toolKey kf g)).flatten :=
    List.infix_of_mem_flatten (List.mem_map.mpr ⟨k, hin, rfl⟩)
  have h2 : ∀ pre : Str, (ks.map (toolKey kf g)).flatten <:+: (pre ++ (ks.map (toolKey kf g)).flatten ++ [NL]) := by
    intro pre; rw [List.append_assoc]; exact List.infix_append' _ _ _
  exact h1.trans (h2 _)

/-- every key of every listed block is printed -/
theorem C19_key_shown (kf : KeyFile) (g : Option Str) (ks : List Str) (k : Str)
    (hg : g ∈ shownGroups kf) (hk : getKeys kf g = .ok ks) (hin : k ∈ ks) : toolKey kf g k <:+: toolShow kf :=
  (C19_key_in_block kf g ks k hk hin).trans (C19_block_shown kf g hg)

theorem findIdx?_of_mem {α} (p : α → Bool) (l : List α) (h : ∃ e ∈ l, p e = true) :
    ∃ i e, l.findIdx? p = some i ∧ l[i]? = some e ∧ p e = true := by
  induction l with
  | nil => obtain ⟨e, he, _⟩ := h; cases he
  | cons a as ih =>
    by_cases hpa : p a = true
    · exact ⟨0, a, by simp [List.findIdx?_cons, hpa], rfl, hpa⟩
    · obtain ⟨e, he, hpe⟩ := h
      have : ∃ e ∈ as, p e = true := by
        rcases List.mem_cons.mp he with rfl | he
        · exact absurd hpe hpa
        · exact ⟨e, he, hpe⟩
      obtain ⟨i, e', h1, h2, h3⟩ := ih this
      exact ⟨i + 1, e', by simp [List.findIdx?_cons, hpa, h1], by simpa using h2, h3⟩

/-- the line of a listed key: the key, ` = `, and the value lines of the first definition of that
    key in that block (nothing but the line break when it has no value) -/
theorem C19_key_line (kf : KeyFile) (g : Option Str) (ks : List Str) (k : Str)
    (hk : getKeys kf g = .ok ks) (hin : k ∈ ks) (hne : k ≠ []) :
    ∃ e ∈ kf.entries, e.group = rawGroup g ∧ e.key = k ∧
      toolKey kf g k = k ++ EQS ++ toolValueLines (extValues e.value) := by
  unfold getKeys at hk
  simp only at hk
  split at hk
  · cases hk
  · simp only [Except.ok.injEq] at hk
    subst hk
    obtain ⟨e0, he0, hk0⟩ := List.mem_map.mp hin
    have he0' := List.mem_filter.mp he0
    have hex : ∃ e ∈ kf.entries, (fun e : Entry => e.group == rawGroup g && e.key == k) e = true :=
      ⟨e0, he0'.1, by simp [he0'.2, hk0] ⟩
    obtain ⟨i, e, h1, h2, h3⟩ := findIdx?_of_mem _ _ hex
    have hmem : e ∈ kf.entries := List.mem_of_getElem? h2
    simp only [Bool.and_eq_true, beq_iff_eq] at h3
    refine ⟨e, hmem, h3.1, h3.2, ?_⟩
    have hke : k.isEmpty = false := by cases k with
      | nil => exact absurd rfl hne
      | cons a as => rfl
    unfold toolKey getExt findKey findIdx
    simp only [hke, Bool.false_eq_true, if_false, h1, h2]

/-- an object with group-less keys only (the most common kind of file) is not shown as empty:
    its first key line is part of the output -/
theorem C19_groupless_only (kf : KeyFile) (e : Entry) (he : e ∈ kf.entries) (hg : e.group = NONE) (hk : e.key ≠ []) :
    ∃ ks, getKeys kf none = .ok ks ∧ e.key ∈ ks ∧ toolKey kf none e.key <:+: toolShow kf ∧ toolKey kf none e.key ≠ [] := by
  have hmem : e.key ∈ (kf.entries.filter (fun x => x.group == NONE)).map (·.key) :=
    List.mem_map.mpr ⟨e, List.mem_filter.mpr ⟨he, by simp [hg]⟩, rfl⟩
  have hks : getKeys kf none = .ok ((kf.entries.filter (fun x => x.group == NONE)).map (·.key)) := by
    unfold getKeys rawGroup
    simp only
    split
    · rename_i hh
      have : (kf.entries.filter (fun x => x.group == NONE)).map (·.key) = [] := by simpa using hh
      rw [this] at hmem; cases hmem
    · rfl
  refine ⟨_, hks, hmem, C19_key_shown kf none _ _ (by simp [shownGroups]) hks hmem, ?_⟩
  obtain ⟨e', _, _, _, hline⟩ := C19_key_line kf none _ e.key hks hmem hk
  rw [hline]
  cases hkk : e.key with
  | nil => exact absurd hkk hk
  | cons a as => simp

/-- non-vacuity: `k=v` alone; the output is `k = v⏎⏎` -/
example : toolShow { entries := [{ group := NONE, key := [0x6b], value := some [0x76], cb := none, ca := none, line := 1, quotes := false }],
                     groups := [NONE] } = [0x6b, 0x20, 0x3d, 0x20, 0x76, 0x0a, 0x0a] := by decide



/-! ### the output read back: nothing else is printed

The output is a sequence of lines of four kinds; `showLines` says which lines the listing of the
object calls for, `toolShow_lines` that the output is exactly those lines, and `C19_decode` that the
lines – hence every section, key and value line, in order, and nothing else – can be read back from the
bytes of the output. -/

inductive ShowLine where
  | header (name : Str)
  | key (k v : Str)
  | cont (v : Str)
  | blank
  deriving DecidableEq, Repr

def ShowLine.text : ShowLine → Str
  | .header n => n
  | .key k v => k ++ EQS ++ v
  | .cont v => INDENT ++ v
  | .blank => []

def renderShow (ls : List ShowLine) : Str := (ls.map (fun l => l.text ++ [NL])).flatten

def valueShowLines (k : Str) : List Str → List ShowLine
  | [] => [.key k []]
  | v :: vs => .key k v :: vs.map .cont

theorem toolValueLines_show (k : Str) (vals : List Str) :
    k ++ EQS ++ toolValueLines vals = renderShow (valueShowLines k vals) := by
  cases vals with
  | nil => simp [toolValueLines, valueShowLines, renderShow, ShowLine.text]
  | cons v vs =>
    simp only [toolValueLines, valueShowLines, renderShow, ShowLine.text, List.map_cons, List.flatten_cons, List.map_map]
    simp only [List.append_assoc]
    congr 3

def keyShowLines (kf : KeyFile) (g : Option Str) (k : Str) : List ShowLine :=
  match getExt kf g (some k) with
  | .ok ev => valueShowLines k ev.values
  | .error _ => []

theorem toolKey_show (kf : KeyFile) (g : Option Str) (k : Str) : toolKey kf g k = renderShow (keyShowLines kf g k) := by
  unfold toolKey keyShowLines
  cases getExt kf g (some k) with
  | ok ev => exact toolValueLines_show k ev.values
  | error e => rfl

theorem renderShow_append (a b : List ShowLine) : renderShow (a ++ b) = renderShow a ++ renderShow b := by
  simp [renderShow]

theorem renderShow_flatMap {α} (f : α → List ShowLine) (l : List α) :
    renderShow (l.flatMap f) = (l.map (fun x => renderShow (f x))).flatten := by
  induction l with
  | nil => rfl
  | cons x xs ih => rw [List.flatMap_cons, renderShow_append, ih]; rfl

def blockShowLines (kf : KeyFile) (g : Option Str) : List ShowLine :=
  match getKeys kf g with
  | .error _ => (match g with
    | none => []
    | some name => [.header name, .blank])
  | .ok ks => (match g with
    | none => []
    | some name => [.header name]) ++ ks.flatMap (keyShowLines kf g) ++ [.blank]

theorem toolGroup_show (kf : KeyFile) (g : Option Str) : toolGroup kf g = renderShow (blockShowLines kf g) := by
  unfold toolGroup blockShowLines
  cases getKeys kf g with
  | error e => cases g <;> simp [renderShow, ShowLine.text]
  | ok ks =>
    simp only [renderShow_append, renderShow_flatMap]
    have : (ks.map (toolKey kf g)) = ks.map (fun x => renderShow (keyShowLines kf g x)) := by
      apply List.map_congr_left; intro k _; exact toolKey_show kf g k
    rw [this]
    cases g <;> simp [renderShow, ShowLine.text]

/-- the lines the listing of the object calls for -/
def showLines (kf : KeyFile) : List ShowLine := (shownGroups kf).flatMap (blockShowLines kf)

/-- **the output is exactly those lines** -/
theorem toolShow_lines (kf : KeyFile) : toolShow kf = renderShow (showLines kf) := by
  rw [toolShow_eq]
  unfold showLines
  rw [renderShow_flatMap]
  congr 1
  apply List.map_congr_left; intro g _; exact toolGroup_show kf g

/-! #### reading the lines back -/

/-- first occurrence of ` = ` -/
def cut3 : Str → Option (Str × Str)
  | [] => none
  | c :: cs => if startsWith (c :: cs) EQS then some ([], (c :: cs).drop 3) else (cut3 cs).map (fun p => (c :: p.1, p.2))

def classify (t : Str) : ShowLine :=
  if t.isEmpty then .blank
  else if startsWith t INDENT then .cont (t.drop 5)
  else match cut3 t with
    | some (k, v) => .key k v
    | none => .header t

/-- the lines of an output -/
def decodeShow (out : Str) : List ShowLine := (splitLines out).map (fun l => classify l.dropLast)

def ShowLine.WF : ShowLine → Prop
  | .header n => n ≠ [] ∧ texts n ∧ startsWith n INDENT = false ∧ cut3 n = none
  | .key k v => k ≠ [] ∧ (∀ c ∈ k, isText c = true ∧ c ≠ 0x20) ∧ texts v
  | .cont v => texts v
  | .blank => True

instance (l : ShowLine) : Decidable l.WF := by cases l <;> (unfold ShowLine.WF; infer_instance)

theorem cut3_key (k v : Str) (h : ∀ c ∈ k, c ≠ 0x20) : cut3 (k ++ EQS ++ v) = some (k, v) := by
  induction k with
  | nil => simp [cut3, EQS, startsWith]
  | cons a as ih =>
    have ha : a ≠ 0x20 := h a (by simp)
    have hs : startsWith (a :: (as ++ EQS ++ v)) EQS = false := by
      simp only [startsWith, EQS, List.length_cons, List.length_nil, List.take_succ_cons]
      simp [ha]
    simp only [List.cons_append, cut3, hs, Bool.false_eq_true, if_false]
    rw [ih (fun c hc => h c (List.mem_cons_of_mem _ hc))]; rfl

theorem classify_text (l : ShowLine) (h : l.WF) : classify l.text = l := by
  cases l with
  | blank => rfl
  | header n =>
    obtain ⟨hne, _, hi, hc⟩ := h
    have : n.isEmpty = false := by cases n <;> simp_all
    simp [classify, ShowLine.text, this, hi, hc]
  | cont v =>
    have h1 : (INDENT ++ v).isEmpty = false := by simp [INDENT]
    have h2 : startsWith (INDENT ++ v) INDENT = true := startsWith_append INDENT v
    have h3 : (INDENT ++ v).drop 5 = v := by simp [INDENT]
    simp only [classify, ShowLine.text, h1, h2, Bool.false_eq_true, if_false, if_true, h3]
  | key k v =>
    obtain ⟨hne, hk, _⟩ := h
    obtain ⟨k0, ks, rfl⟩ : ∃ k0 ks, k = k0 :: ks := by
      cases k with
      | nil => exact absurd rfl hne
      | cons a as => exact ⟨a, as, rfl⟩
    have hk0 : k0 ≠ 0x20 := (hk k0 (by simp)).2
    have h1 : ((k0 :: ks) ++ EQS ++ v).isEmpty = false := by simp
    have h2 : startsWith ((k0 :: ks) ++ EQS ++ v) INDENT = false := by
      simp only [startsWith, INDENT, List.cons_append, List.length_cons, List.length_nil, List.take_succ_cons]
      simp [hk0]
    simp only [classify, ShowLine.text, h1, h2, Bool.false_eq_true, if_false, cut3_key (k0 :: ks) v (fun c hc => (hk c hc).2)]

theorem showLine_isLine (l : ShowLine) (h : l.WF) : IsLine (l.text ++ [NL]) := by
  refine ⟨l.text, rfl, ?_⟩
  cases l with
  | blank => intro c hc; cases hc
  | header n => exact h.2.1
  | cont v =>
    exact texts_append (by intro c hc; simp only [INDENT, List.mem_cons, List.not_mem_nil, or_false] at hc; rcases hc with rfl | rfl | rfl | rfl | rfl <;> decide) h
  | key k v =>
    exact texts_append (texts_append (fun c hc => (h.2.1 c hc).1) (by intro c hc; simp only [EQS, List.mem_cons, List.not_mem_nil, or_false] at hc; rcases hc with rfl | rfl | rfl <;> decide)) h.2.2

/-- reading back what was rendered -/
theorem decode_render (ls : List ShowLine) (h : ∀ l ∈ ls, l.WF) : decodeShow (renderShow ls) = ls := by
  unfold decodeShow renderShow
  rw [splitLines_lines _ (by
    intro x hx
    obtain ⟨l, hl, rfl⟩ := List.mem_map.mp hx
    exact showLine_isLine l (h l hl))]
  rw [List.map_map]
  induction ls with
  | nil => rfl
  | cons l ls ih =>
    simp only [List.map_cons, Function.comp, List.dropLast_concat, classify_text l (h l (by simp))]
    congr 1
    exact ih (fun x hx => h x (List.mem_cons_of_mem _ hx))

/-- **C19, nothing else.**  When the names, keys and value lines of the object are printable on one
    line each (`ShowLine.WF`: no line break, keys without blanks, section names that do not look like a
    key or an indented line), the output of `econftool show` decodes to exactly the lines the listing
    calls for: one header per listed section, one line per listed key with its first value line, one
    indented line per further value line, one empty line per block – in that order, nothing else. -/
theorem C19_decode (kf : KeyFile) (h : ∀ l ∈ showLines kf, l.WF) : decodeShow (toolShow kf) = showLines kf := by
  rw [toolShow_lines]; exact decode_render _ h


/-- `g=0`, `[S]` with `x = a` / `b` (two value lines) and `y` without value -/
def exShowKf : KeyFile :=
  { entries := [⟨NONE, [0x67], some [0x30], none, none, 1, false⟩,
                ⟨[0x53], [0x78], some [0x61, 0x0a, 0x20, 0x62], none, none, 4, false⟩,
                ⟨[0x53], [0x79], none, none, none, 5, false⟩],
    groups := [NONE, [0x53]] }

example : decodeShow (toolShow exShowKf) =
    [.key [0x67] [0x30], .blank, .header [0x53], .key [0x78] [0x61], .cont [0x62], .key [0x79] [], .blank] := by
  rw [C19_decode exShowKf (by decide)]; decide

end Econf
