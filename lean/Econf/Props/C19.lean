import Econf.Tool
namespace Econf
end Econf
