import Econf.Lemmas.WriteLemmas

/-!
  # C07 – a written configuration reads back identically

  `WEntry`/`WVal` (in `Lemmas/WriteLemmas.lean`) are entries with an unambiguous textual form as
  DESIGN.md 5.4 defines it, given together with their spelling; `WEntry.WF d c` is the 5.4 predicate
  for delimiter character `d` and comment character `c`.  The theorems: the bytes the writer model
  produces (`writeSeq`/`writeBytes`, tied to `econf_writeFile` by the correspondence check) are a
  document of the conventional grammar, hence – by the C02 theorem – parse without error, and the
  result has the same entries section by section: same section, key, value (absent ≈ empty), quote
  flag, comment lines before, trailing comment; the same sections in order of first appearance.

  Delimiter characters covered by the proof: the non-blank ones (`TagsWF.dns`; `=` and `:` of the
  property's quantifier).  The blank delimiter (space) is decided by the correspondence check only.
-/

set_option linter.unusedSimpArgs false

namespace Econf

/-- **C07 (entry list).**  For every list of 5.4 entries in which group-less entries come first,
    parsing what the writer produces gives back the same entries, in the same order. -/
theorem C07_roundtrip (d c : Byte) (hT : TagsWF d c) (ws : List WEntry)
    (h : ∀ w ∈ ws, w.WF d c) (ho : Ordered none ws) :
    ∃ st, parseBytes (tagCfg d c) (writeSeq d c none (ws.map WEntry.toEntry)) = .ok st ∧
          st.entries.map Entry.content = ws.map (fun w => w.toEntry.content) ∧
          st.groups = (ws.map (·.group)).foldl addGroup [] := by
  have hwf := docOf_wf d c hT none ws h
  have hp := C02_parse_render_plain (tagCfg d c) (docOf d c none ws) (tagCfg_wf d c hT) hwf rfl
  rw [render_docOf d c none ws h] at hp
  refine ⟨_, hp, ?_⟩
  have := doc_reread d c hT ws none {} h ⟨rfl, rfl, rfl⟩ ho
  simpa [expDoc] using this

/-- **C07 (object).**  For every object whose entries have an unambiguous textual form – in any
    order, group-less entries after sectioned ones included: the writer emits the group-less entries
    first – the written file reads back with, for every section (and for the group-less part), the
    same keys in the same order with the same values, quote flags and comments. -/
theorem C07_object (kf : KeyFile) (ws : List WEntry) (hT : TagsWF kf.delim kf.comment)
    (hws : writeOrder kf.entries = ws.map WEntry.toEntry) (h : ∀ w ∈ ws, w.WF kf.delim kf.comment) :
    ∃ st, parseBytes (tagCfg kf.delim kf.comment) (writeBytes kf) = .ok st ∧
      st.entries.map Entry.content = (writeOrder kf.entries).map Entry.content ∧
      ∀ g, (st.entries.map Entry.content).filter (fun x => x.1 == g) =
           (kf.entries.map Entry.content).filter (fun x => x.1 == g) := by
  have ho : Ordered none ws := by
    have := ordered_writeOrder kf.entries
    rw [hws, List.map_map] at this
    exact this
  obtain ⟨st, hp, he, _⟩ := C07_roundtrip kf.delim kf.comment hT ws h ho
  refine ⟨st, ?_, ?_, ?_⟩
  · unfold writeBytes; rw [hws]; exact hp
  · rw [he, hws, List.map_map]; rfl
  · intro g
    have he' : List.map Entry.content st.entries = (writeOrder kf.entries).map Entry.content := by
      rw [he, hws, List.map_map]; rfl
    rw [he', List.filter_map, List.filter_map]
    have : ((fun x : Str × Str × Str × Bool × Str × Str => x.1 == g) ∘ Entry.content) = fun e => e.group == g := rfl
    rw [this, writeOrder_section]

/-! ### the hypotheses are satisfiable -/

/-- `[S] a="x y"` with two comment lines before, then a group-less `k` with a two-line value set
    *after* it, then `[S] b` without value and with a trailing comment -/
def exW : List WEntry :=
  [ { group := NONE, key := [0x6b], val := .plain [0x76] [{ indent := [0x20], text := [0x6d, 0x20, 0x6e], trail := [] }], cb := none, ca := none, line := 0 },
    { group := [0x53], key := [0x61], val := .quoted [0x78, 0x20, 0x79], cb := some [0x63, 0x31, 0x0a, 0x63, 0x32], ca := none, line := 0 },
    { group := [0x53], key := [0x62], val := .absent, cb := none, ca := some [0x74], line := 0 } ]

def exKf : KeyFile :=
  { entries := [exW[1].toEntry, exW[0].toEntry, exW[2].toEntry], delim := 0x3d, comment := 0x23 }

theorem exTags : TagsWF 0x3d 0x23 := ⟨by decide, by decide, by decide, by decide, by decide, by decide, by decide, by decide, by decide⟩

theorem exW_wf : ∀ w ∈ exW, w.WF 0x3d 0x23 := by
  intro w hw
  simp only [exW, List.mem_cons, List.not_mem_nil, or_false] at hw
  rcases hw with rfl | rfl | rfl
  · refine ⟨by decide, by decide, by decide, by decide, ?_, (by intro t ht; cases ht), (by intro t ht; cases ht)⟩
    refine ⟨by decide, by decide, by decide, by decide, by decide, ?_⟩
    intro l hl
    simp only [List.mem_singleton] at hl; subst hl
    exact ⟨by decide, by decide, by decide, by decide, by decide, by decide⟩
  · refine ⟨by decide, by decide, by decide, by decide, ?_, ?_, (by intro t ht; cases ht)⟩
    · show texts _; decide
    · intro t ht; simp only [Option.some.injEq] at ht; subst ht; decide
  · refine ⟨by decide, by decide, by decide, by decide, trivial, (by intro t ht; cases ht), ?_⟩
    intro t ht _; simp only [Option.some.injEq] at ht; subst ht
    exact ⟨by decide, by decide, by decide, rfl⟩

example : ∃ st, parseBytes (tagCfg 0x3d 0x23) (writeBytes exKf) = .ok st ∧
    st.entries.map Entry.content = (writeOrder exKf.entries).map Entry.content ∧
    ∀ g, (st.entries.map Entry.content).filter (fun x => x.1 == g) = (exKf.entries.map Entry.content).filter (fun x => x.1 == g) :=
  C07_object exKf exW exTags (by decide) exW_wf

/-- what is written: `k=v⏎ m n⏎⏎[S]⏎#c1⏎#c2⏎a="x y"⏎b= #t⏎⏎` -/
example : writeBytes exKf = [0x6b, 0x3d, 0x76, 0x0a, 0x20, 0x6d, 0x20, 0x6e, 0x0a, 0x0a, 0x5b, 0x53, 0x5d, 0x0a, 0x23, 0x63, 0x31, 0x0a, 0x23, 0x63, 0x32, 0x0a,
    0x61, 0x3d, 0x22, 0x78, 0x20, 0x79, 0x22, 0x0a, 0x62, 0x3d, 0x20, 0x23, 0x74, 0x0a, 0x0a] := by decide


end Econf
