import Econf.Lemmas.WriteLemmas
import Econf.KeyFileOps

/-!
  # C07 – a written configuration reads back identically

  `WEntry`/`WVal` (in `Lemmas/WriteLemmas.lean`) are entries with an unambiguous textual form as
  DESIGN.md 5.4 defines it, given together with their spelling; `WEntry.WF d c` is the 5.4 predicate
  for delimiter character `d` and comment character `c`.  The theorems: the bytes the writer model
  produces (`writeSeq`/`writeBytes`, tied to `econf_writeFile` by the correspondence check) are a
  document of the conventional grammar, hence – by the C02 theorem – parse without error, and the
  result has the same entries section by section: same section, key, value (absent ≈ empty), quote
  flag, comment lines before, trailing comment; the same sections in order of first appearance.

  Delimiter characters covered by the proof: every text byte other than the quote – `=`, `:` and the
  space of the property's quantifier included (`TagsWF`).
-/

set_option linter.unusedSimpArgs false

namespace Econf

/-- **C07 (entry list).**  For every list of 5.4 entries in which group-less entries come first,
    parsing what the writer produces gives back the same entries, in the same order. -/
theorem C07_roundtrip (d c : Byte) (hT : TagsWF d c) (ws : List WEntry)
    (h : ∀ w ∈ ws, w.WF d c) (ho : Ordered none ws) :
    ∃ st, parseBytes (tagCfg d c) (writeSeq d c none (ws.map WEntry.toEntry)) = .ok st ∧
          st.entries.map Entry.content = ws.map (fun w => w.toEntry.content) ∧
          st.groups = (ws.map (·.group)).foldl addGroup [] := by
  have hwf := docOf_wf d c hT none ws h
  have hp := C02_parse_render_plain (tagCfg d c) (docOf d c none ws) (tagCfg_wf d c hT) hwf rfl
  rw [render_docOf d c none ws h] at hp
  refine ⟨_, hp, ?_⟩
  have := doc_reread d c hT ws none {} h ⟨rfl, rfl, rfl⟩ ho
  simpa [expDoc] using this

/-- **C07 (object).**  For every object whose entries have an unambiguous textual form – in any
    order, group-less entries after sectioned ones included: the writer emits the group-less entries
    first – the written file reads back with, for every section (and for the group-less part), the
    same keys in the same order with the same values, quote flags and comments. -/
theorem C07_object (kf : KeyFile) (ws : List WEntry) (hT : TagsWF kf.delim kf.comment)
    (hws : writeOrder kf.entries = ws.map WEntry.toEntry) (h : ∀ w ∈ ws, w.WF kf.delim kf.comment) :
    ∃ st, parseBytes (tagCfg kf.delim kf.comment) (writeBytes kf) = .ok st ∧
      st.entries.map Entry.content = (writeOrder kf.entries).map Entry.content ∧
      ∀ g, (st.entries.map Entry.content).filter (fun x => x.1 == g) =
           (kf.entries.map Entry.content).filter (fun x => x.1 == g) := by
  have ho : Ordered none ws := by
    have := ordered_writeOrder kf.entries
    rw [hws, List.map_map] at this
    exact this
  obtain ⟨st, hp, he, _⟩ := C07_roundtrip kf.delim kf.comment hT ws h ho
  refine ⟨st, ?_, ?_, ?_⟩
  · unfold writeBytes; rw [hws]; exact hp
  · rw [he, hws, List.map_map]; rfl
  · intro g
    have he' : List.map Entry.content st.entries = (writeOrder kf.entries).map Entry.content := by
      rw [he, hws, List.map_map]; rfl
    rw [he', List.filter_map, List.filter_map]
    have : ((fun x : Str × Str × Str × Bool × Str × Str => x.1 == g) ∘ Entry.content) = fun e => e.group == g := rfl
    rw [this, writeOrder_section]

/-! ### the hypotheses are satisfiable -/

/-- `[S] a="x y"` with two comment lines before, then a group-less `k` with a two-line value set
    *after* it, then `[S] b` without value and with a trailing comment -/
def exW : List WEntry :=
  [ { group := NONE, key := [0x6b], val := .plain [0x76] [{ indent := [0x20], text := [0x6d, 0x20, 0x6e], trail := [] }], cb := none, ca := none, line := 0 },
    { group := [0x53], key := [0x61], val := .quoted [0x78, 0x20, 0x79], cb := some [0x63, 0x31, 0x0a, 0x63, 0x32], ca := none, line := 0 },
    { group := [0x53], key := [0x62], val := .absent, cb := none, ca := some [0x74], line := 0 } ]

def exKf : KeyFile :=
  { entries := [exW[1].toEntry, exW[0].toEntry, exW[2].toEntry], delim := 0x3d, comment := 0x23 }

theorem exTags : TagsWF 0x3d 0x23 := ⟨by decide, by decide, by decide, by decide, by decide, by decide, by decide, by decide⟩

theorem exW_wf : ∀ w ∈ exW, w.WF 0x3d 0x23 := by
  intro w hw
  simp only [exW, List.mem_cons, List.not_mem_nil, or_false] at hw
  rcases hw with rfl | rfl | rfl
  · refine ⟨by decide, by decide, by decide, by decide, ?_, (by intro t ht; cases ht), (by intro t ht; cases ht)⟩
    refine ⟨by decide, by decide, by decide, by decide, by decide, ?_⟩
    intro l hl
    simp only [List.mem_singleton] at hl; subst hl
    exact ⟨by decide, by decide, by decide, by decide, by decide, by decide, by decide⟩
  · refine ⟨by decide, by decide, by decide, by decide, ?_, ?_, (by intro t ht; cases ht)⟩
    · show texts _; decide
    · intro t ht; simp only [Option.some.injEq] at ht; subst ht; decide
  · refine ⟨by decide, by decide, by decide, by decide, trivial, (by intro t ht; cases ht), ?_⟩
    intro t ht _; simp only [Option.some.injEq] at ht; subst ht
    exact ⟨by decide, by decide, by decide, rfl⟩

example : ∃ st, parseBytes (tagCfg 0x3d 0x23) (writeBytes exKf) = .ok st ∧
    st.entries.map Entry.content = (writeOrder exKf.entries).map Entry.content ∧
    ∀ g, (st.entries.map Entry.content).filter (fun x => x.1 == g) = (exKf.entries.map Entry.content).filter (fun x => x.1 == g) :=
  C07_object exKf exW exTags (by decide) exW_wf

/-- what is written: `k=v⏎ m n⏎⏎[S]⏎#c1⏎#c2⏎a="x y"⏎b= #t⏎⏎` -/
example : writeBytes exKf = [0x6b, 0x3d, 0x76, 0x0a, 0x20, 0x6d, 0x20, 0x6e, 0x0a, 0x0a, 0x5b, 0x53, 0x5d, 0x0a, 0x23, 0x63, 0x31, 0x0a, 0x23, 0x63, 0x32, 0x0a,
    0x61, 0x3d, 0x22, 0x78, 0x20, 0x79, 0x22, 0x0a, 0x62, 0x3d, 0x20, 0x23, 0x74, 0x0a, 0x0a] := by decide




/-! ### objects built through the setters -/

/-- a key argument with an unambiguous textual form -/
def Key54 (d c : Byte) (k : Str) : Prop :=
  k ≠ [] ∧ (∀ ch ∈ k, isText ch = true ∧ isSpace ch = false ∧ ch ≠ d ∧ ch ≠ c ∧ ch ≠ QUOTE) ∧ k.head? ≠ some LBR

/-- a section as the setters store it (after `normGroup`) -/
def Group54 (c : Byte) (g : Str) : Prop :=
  g ≠ NONE → g ≠ [] ∧ (∀ ch ∈ g, isText ch = true ∧ ch ≠ c) ∧ ¬(g.head? = some LBR ∧ g.getLast? = some RBR)

/-- a value text with an unambiguous textual form: first line and indented delimiter-free lines -/
def Val54 (d c : Byte) (v : Str) : Prop :=
  ∃ (l0 : Str) (conts : List ContLine), v = l0 ++ conts.flatMap (fun l => NL :: l.render) ∧
    texts l0 ∧ c ∉ l0 ∧ (∀ ch, l0.head? = some ch → isSpace ch = false ∧ ch ≠ QUOTE) ∧
    (∀ ch, l0.getLast? = some ch → isSpace ch = false) ∧ (conts ≠ [] → l0 ≠ []) ∧
    ∀ l ∈ conts, l.WF { delim := [d], comment := [c] }

/-- the object is a list of 5.4 entries, none quoted, none with comments (what setters produce) -/
def Built (d c : Byte) (es : List Entry) : Prop :=
  ∃ ws : List WEntry, es = ws.map WEntry.toEntry ∧ ∀ w ∈ ws, w.WF d c ∧ w.val.quotes = false ∧ w.ca = none

instance (d c : Byte) (k : Str) : Decidable (Key54 d c k) := by unfold Key54; infer_instance
instance (c : Byte) (g : Str) : Decidable (Group54 c g) := by unfold Group54; infer_instance

theorem built_nil (d c : Byte) : Built d c [] := ⟨[], rfl, by intro w hw; cases hw⟩

theorem built_append (d c : Byte) (es : List Entry) (g k v : Str) (h : Built d c es)
    (hk : Key54 d c k) (hg : Group54 c g) (hv : Val54 d c v) :
    Built d c (es ++ [{ freshEntry g k with value := some v }]) := by
  obtain ⟨ws, rfl, hws⟩ := h
  obtain ⟨l0, conts, rfl, h1, h2, h3, h4, h5, h6⟩ := hv
  refine ⟨ws ++ [{ group := g, key := k, val := .plain l0 conts, cb := none, ca := none, line := 0 }], ?_, ?_⟩
  · simp [WEntry.toEntry, freshEntry, WVal.value, WVal.quotes]
  · intro w hw
    rcases List.mem_append.mp hw with hw | hw
    · exact hws w hw
    · simp only [List.mem_singleton] at hw; subst hw
      exact ⟨⟨hg, hk.1, hk.2.1, hk.2.2, ⟨h1, h2, h3, h4, h5, h6⟩, (by intro t ht; cases ht), (by intro t ht; cases ht)⟩, rfl, rfl⟩

theorem built_setFirst (d c : Byte) (es es' : List Entry) (g k v : Str) (h : Built d c es)
    (hv : Val54 d c v) (hs : setFirst g k v es = some es') : Built d c es' := by
  obtain ⟨ws, rfl, hws⟩ := h
  obtain ⟨l0, conts, rfl, h1, h2, h3, h4, h5, h6⟩ := hv
  induction ws generalizing es' with
  | nil => simp [setFirst] at hs
  | cons w ws ih =>
    simp only [List.map_cons, setFirst] at hs
    have hw := hws w (by simp)
    split at hs
    · simp only [Option.some.injEq] at hs
      subst hs
      refine ⟨{ w with val := .plain l0 conts } :: ws, ?_, ?_⟩
      · have hq : w.val.quotes = false := hw.2.1
        unfold WVal.quotes at hq
        simp [WEntry.toEntry, WVal.value, WVal.quotes, hq]
      · intro x hx
        rcases List.mem_cons.mp hx with rfl | hx
        · refine ⟨⟨hw.1.grp, hw.1.keyNe, hw.1.keyCh, hw.1.keyHead, ⟨h1, h2, h3, h4, h5, h6⟩, hw.1.cb, ?_⟩, rfl, hw.2.2⟩
          intro t ht
          have : w.ca = none := hw.2.2
          rw [this] at ht; cases ht
        · exact hws x (List.mem_cons_of_mem _ hx)
    · cases hr : setFirst g k (l0 ++ conts.flatMap (fun l => NL :: l.render)) (ws.map WEntry.toEntry) with
      | none => rw [hr] at hs; simp at hs
      | some r =>
        rw [hr] at hs
        simp only [Option.map_some, Option.some.injEq] at hs
        subst hs
        obtain ⟨ws', hr', hws'⟩ := ih r (fun x hx => hws x (List.mem_cons_of_mem _ hx)) hr
        exact ⟨w :: ws', by simp [hr'], by
          intro x hx
          rcases List.mem_cons.mp hx with rfl | hx
          · exact hw
          · exact hws' x hx⟩


/-- one setter call with 5.4 arguments keeps the object in 5.4 form (and its tags) -/
theorem C07_setter_step (d c : Byte) (kf : KeyFile) (g : Option Str) (k v : Str) (h : Built d c kf.entries)
    (hk : Key54 d c k) (hg : Group54 c (normGroup g)) (hv : Val54 d c v) :
    Built d c (setValue kf g (some k) (.ok v)).1.entries ∧
    (setValue kf g (some k) (.ok v)).1.delim = kf.delim ∧ (setValue kf g (some k) (.ok v)).1.comment = kf.comment := by
  unfold setValue
  have hke : k.isEmpty = false := by
    cases k with
    | nil => exact absurd rfl hk.1
    | cons a as => rfl
  simp only [hke, Bool.false_eq_true, if_false]
  split
  · refine ⟨?_, rfl, rfl⟩
    cases hs : setFirst (normGroup g) k v kf.entries with
    | none => simpa using h
    | some es' => simp only [Option.getD_some]; exact built_setFirst d c _ _ _ _ _ h hv hs
  · exact ⟨built_append d c _ _ _ _ h hk hg hv, rfl, rfl⟩

/-- a setter history: (section argument, key, value text) triples -/
def applySets (kf : KeyFile) (ops : List (Option Str × Str × Str)) : KeyFile :=
  ops.foldl (fun kf op => (setValue kf op.1 (some op.2.1) (.ok op.2.2)).1) kf

theorem C07_setters (d c : Byte) (kf : KeyFile) (ops : List (Option Str × Str × Str)) (h : Built d c kf.entries)
    (hops : ∀ op ∈ ops, Group54 c (normGroup op.1) ∧ Key54 d c op.2.1 ∧ Val54 d c op.2.2) :
    Built d c (applySets kf ops).entries ∧ (applySets kf ops).delim = kf.delim ∧ (applySets kf ops).comment = kf.comment := by
  induction ops generalizing kf with
  | nil => exact ⟨h, rfl, rfl⟩
  | cons op ops ih =>
    have ho := hops op (by simp)
    have h1 := C07_setter_step d c kf op.1 op.2.1 op.2.2 h ho.2.1 ho.1 ho.2.2
    have h2 := ih (setValue kf op.1 (some op.2.1) (.ok op.2.2)).1 h1.1 (fun x hx => hops x (List.mem_cons_of_mem _ hx))
    simp only [applySets, List.foldl_cons] at h2 ⊢
    exact ⟨h2.1, h2.2.1.trans h1.2.1, h2.2.2.trans h1.2.2⟩

theorem built_writeOrder (d c : Byte) (es : List Entry) (h : Built d c es) :
    ∃ ws : List WEntry, writeOrder es = ws.map WEntry.toEntry ∧ ∀ w ∈ ws, w.WF d c := by
  obtain ⟨ws, rfl, hws⟩ := h
  refine ⟨ws.filter (fun w => w.toEntry.group == NONE) ++ ws.filter (fun w => w.toEntry.group != NONE), ?_, ?_⟩
  · unfold writeOrder
    rw [List.map_append, List.filter_map, List.filter_map]
    rfl
  · intro w hw
    rcases List.mem_append.mp hw with hw | hw
    · exact (hws w (List.mem_filter.mp hw).1).1
    · exact (hws w (List.mem_filter.mp hw).1).1

/-- **C07 for setter histories.**  Any object built from `econf_newKeyFile(d, c)` by any sequence of
    setter calls whose arguments have an unambiguous textual form – group-less and sectioned keys
    interleaved in any order, sections re-opened, keys overwritten – is written and read back with, for
    every section, the same keys in the same order with the same values. -/
theorem C07_built_roundtrip (d c : Byte) (hT : TagsWF d c) (ops : List (Option Str × Str × Str))
    (hops : ∀ op ∈ ops, Group54 c (normGroup op.1) ∧ Key54 d c op.2.1 ∧ Val54 d c op.2.2) :
    ∃ st, parseBytes (tagCfg d c) (writeBytes (applySets (newKeyFile d c) ops)) = .ok st ∧
      ∀ g, (st.entries.map Entry.content).filter (fun x => x.1 == g) =
           ((applySets (newKeyFile d c) ops).entries.map Entry.content).filter (fun x => x.1 == g) := by
  have hb := C07_setters d c (newKeyFile d c) ops (built_nil d c) hops
  obtain ⟨ws, hws, hwf⟩ := built_writeOrder d c _ hb.1
  have hd : (applySets (newKeyFile d c) ops).delim = d := hb.2.1
  have hc : (applySets (newKeyFile d c) ops).comment = c := hb.2.2
  obtain ⟨st, hp, _, hsec⟩ := C07_object (applySets (newKeyFile d c) ops) ws (by rw [hd, hc]; exact hT) hws (by rw [hd, hc]; exact hwf)
  rw [hd, hc] at hp
  exact ⟨st, hp, hsec⟩


/-- non-vacuity: `set([S], a, 1)`, `set(NULL, k, "v⏎ m")`, `set(S, a, 2)` from `econf_newKeyFile('=', '#')` -/
example : ∃ st, parseBytes (tagCfg 0x3d 0x23) (writeBytes (applySets (newKeyFile 0x3d 0x23)
      [(some [0x5b, 0x53, 0x5d], [0x61], [0x31]), (none, [0x6b], [0x76, 0x0a, 0x20, 0x6d]), (some [0x53], [0x61], [0x32])])) = .ok st ∧
    ∀ g, (st.entries.map Entry.content).filter (fun x => x.1 == g) =
      ((applySets (newKeyFile 0x3d 0x23) [(some [0x5b, 0x53, 0x5d], [0x61], [0x31]), (none, [0x6b], [0x76, 0x0a, 0x20, 0x6d]),
        (some [0x53], [0x61], [0x32])]).entries.map Entry.content).filter (fun x => x.1 == g) := by
  apply C07_built_roundtrip 0x3d 0x23 exTags
  intro op hop
  simp only [List.mem_cons, List.not_mem_nil, or_false] at hop
  rcases hop with rfl | rfl | rfl
  · exact ⟨by decide, by decide, [0x31], [], rfl, by decide, by decide, by decide, by decide, by decide, (by intro l hl; cases hl)⟩
  · refine ⟨by decide, by decide, [0x76], [{ indent := [0x20], text := [0x6d], trail := [] }], rfl, by decide, by decide, by decide, by decide, by decide, ?_⟩
    intro l hl
    simp only [List.mem_singleton] at hl; subst hl
    exact ⟨by decide, by decide, by decide, by decide, by decide, by decide, by decide⟩
  · exact ⟨by decide, by decide, [0x32], [], rfl, by decide, by decide, by decide, by decide, by decide, (by intro l hl; cases hl)⟩

/-- the same object written with the space as delimiter and `;` as comment character -/
theorem exTagsSp : TagsWF 0x20 0x3b := ⟨by decide, by decide, by decide, by decide, by decide, by decide, by decide, by decide⟩

example : ∃ st, parseBytes (tagCfg 0x20 0x3b) (writeBytes (applySets (newKeyFile 0x20 0x3b)
      [(some [0x53], [0x61], [0x31, 0x20, 0x32]), (none, [0x6b], [])])) = .ok st ∧
    ∀ g, (st.entries.map Entry.content).filter (fun x => x.1 == g) =
      ((applySets (newKeyFile 0x20 0x3b) [(some [0x53], [0x61], [0x31, 0x20, 0x32]), (none, [0x6b], [])]).entries.map Entry.content).filter (fun x => x.1 == g) := by
  apply C07_built_roundtrip 0x20 0x3b exTagsSp
  intro op hop
  simp only [List.mem_cons, List.not_mem_nil, or_false] at hop
  rcases hop with rfl | rfl
  · exact ⟨by decide, by decide, [0x31, 0x20, 0x32], [], rfl, by decide, by decide, by decide, by decide, by decide, (by intro l hl; cases hl)⟩
  · exact ⟨by decide, by decide, [], [], rfl, by decide, by decide, by decide, by decide, by decide, (by intro l hl; cases hl)⟩

end Econf
