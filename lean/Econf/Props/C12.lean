import Econf.Lemmas.LayeredLemmas

/-!
  C12 — all layered-read entry points agree with each other and with the history.

  In the model the wrappers are separate functions mirroring their own argument marshalling
  (`readDirs` allocates a fresh object with the two directories, `readConfig` prepares the
  caller's object, `readDirsHistory` passes the process-wide drop-in list and no options), so
  the agreement below is not true by definition.
-/

set_option linter.unusedSimpArgs false

namespace Econf

def acceptAll : Callback := some (fun _ _ => true)

theorem accepts_acceptAll (k1 k2 : Nat) (p : Str) : accepts acceptAll k1 p = accepts none k2 p := rfl

/-- the history with an always-accepting callback is the history without callback -/
theorem C12_history_callback (fs : FS) (s : RdState) (usr etc name suffix : Option Str) (delim : Option Str) (comment : Str) :
    (readDirsHistory { fs := fs, cb := acceptAll } s usr etc name suffix delim comment).2 =
      (readDirsHistory { fs := fs, cb := none } s usr etc name suffix delim comment).2 := by
  unfold readDirsHistory
  exact (readHistory_sim fs acceptAll none accepts_acceptAll s s rfl _ _ _ _ _ _ _ _ (fun _ _ _ => rfl)).1

theorem readConfigCore_callback (fs : FS) (s : RdState) (kf : KeyFile) (name suffix : Option Str) (delim : Option Str) (comment : Str) :
    (readConfigCore { fs := fs, cb := acceptAll } s kf name suffix delim comment).2 =
      (readConfigCore { fs := fs, cb := none } s kf name suffix delim comment).2 := by
  unfold readConfigCore
  have h := (readHistory_sim fs acceptAll none accepts_acceptAll s s rfl kf.parseDirs name suffix delim comment kf.join kf.python
    (if kf.confDirs.isEmpty then s.g.confDirs else kf.confDirs) (fun _ _ _ => rfl)).1
  simp only
  generalize readHistory { fs := fs, cb := acceptAll } s kf.parseDirs name suffix delim comment kf.join kf.python _ = x1 at h
  generalize readHistory { fs := fs, cb := none } s kf.parseDirs name suffix delim comment kf.join kf.python _ = x2 at h
  obtain ⟨t1, r1⟩ := x1
  obtain ⟨t2, r2⟩ := x2
  simp only at h ⊢
  subst h
  cases r1 with
  | error e => rfl
  | ok files => simp only; split <;> rfl

/-- `econf_readDirsWithCallback` with an accepting callback = `econf_readDirs` -/
theorem C12_dirs_callback (fs : FS) (s : RdState) (usr etc name suffix : Option Str) (delim : Option Str) (comment : Str) :
    (readDirs { fs := fs, cb := acceptAll } s usr etc name suffix delim comment).2 =
      (readDirs { fs := fs, cb := none } s usr etc name suffix delim comment).2 := by
  unfold readDirs
  have h := readConfigCore_callback fs s { parseDirs := [usr.getD [], etc.getD []] } name suffix delim comment
  simp only
  generalize readConfigCore { fs := fs, cb := acceptAll } s _ name suffix delim comment = x1 at h
  generalize readConfigCore { fs := fs, cb := none } s _ name suffix delim comment = x2 at h
  obtain ⟨t1, r1⟩ := x1
  obtain ⟨t2, r2⟩ := x2
  simp only at h ⊢
  subst h
  cases r1 <;> rfl

/-- `econf_readConfigWithCallback` with an accepting callback = `econf_readConfig` -/
theorem C12_config_callback (fs : FS) (s : RdState) (slot : Option KeyFile) (project usrSubdir name suffix : Option Str)
    (delim : Option Str) (comment : Str) :
    (readConfig { fs := fs, cb := acceptAll } s slot project usrSubdir name suffix delim comment).2 =
      (readConfig { fs := fs, cb := none } s slot project usrSubdir name suffix delim comment).2 := by
  unfold readConfig
  simp only
  have h := readConfigCore_callback fs s (prepareConfig (slot.getD {}) project usrSubdir name).1
    (prepareConfig (slot.getD {}) project usrSubdir name).2 suffix delim comment
  generalize readConfigCore { fs := fs, cb := acceptAll } s _ _ suffix delim comment = x1 at h
  generalize readConfigCore { fs := fs, cb := none } s _ _ suffix delim comment = x2 at h
  obtain ⟨t1, r1⟩ := x1
  obtain ⟨t2, r2⟩ := x2
  simp only at h ⊢
  subst h
  cases r1 <;> rfl

/-- the layered read configured with the same two directories (option `PARSING_DIRS=<usr>:<etc>`,
    no other option) returns what the two-directory read returns, for a non-empty configuration name -/
theorem C12_dirs_config (ctx : RdCtx) (s : RdState) (kf0 : KeyFile) (usr etc : Str) (project usrSubdir : Option Str)
    (name : Str) (suffix : Option Str) (delim : Option Str) (comment : Str)
    (hn : name ≠ []) (hp : kf0.parseDirs = [usr, etc]) (hc : kf0.confDirs = []) (hj : kf0.join = false) (hy : kf0.python = false) :
    let a := readConfig ctx s (some kf0) project usrSubdir (some name) suffix delim comment
    let b := readDirs ctx s (some usr) (some etc) (some name) suffix delim comment
    a.2.1 = b.2.1 ∧
    (∀ m, (readConfigCore ctx s { parseDirs := [usr, etc] } (some name) suffix delim comment).2 = .ok m → a.2.2 = some m ∧ b.2.2 = some m) := by
  intro a b
  simp only [a, b]
  unfold readConfig readDirs
  have hne : name.isEmpty = false := by cases name <;> simp_all
  have hprep : prepareConfig kf0 project usrSubdir (some name) = (kf0, some name) := by
    unfold prepareConfig
    simp [hne, hp]
  simp only [Option.getD_some, hprep]
  have hcore : readConfigCore ctx s kf0 (some name) suffix delim comment =
      readConfigCore ctx s { parseDirs := [usr, etc] } (some name) suffix delim comment := by
    unfold readConfigCore
    simp only [hp, hc, hj, hy]
  rw [hcore]
  generalize readConfigCore ctx s { parseDirs := [usr, etc] } (some name) suffix delim comment = x
  obtain ⟨t, r⟩ := x
  cases r with
  | ok m => exact ⟨rfl, fun m' h => by cases h; exact ⟨rfl, rfl⟩⟩
  | error e => exact ⟨rfl, fun m h => by cases h⟩

theorem readHistory_nonempty (ctx : RdCtx) (s : RdState) (dirs : List Str) (name suffix delim : Option Str) (comment : Str)
    (join python : Bool) (confDirs : List Str) (files : List KeyFile)
    (h : (readHistory ctx s dirs name suffix delim comment join python confDirs).2 = .ok files) : files ≠ [] := by
  unfold readHistory at h
  cases delim with
  | none => cases h
  | some dl =>
    cases name with
    | none => cases h
    | some nm =>
      simp only at h
      generalize (if nm.isEmpty = true then (s, (Except.ok none : Except Err (Option KeyFile)))
        else readFirst ctx join python dl comment s (mainCandidates dirs nm (dotSuffix (some nm) suffix))) = x at h
      obtain ⟨t, m⟩ := x
      cases m with
      | error e => cases h
      | ok main =>
        simp only at h
        generalize readSeq ctx join python dl comment t _ = y at h
        obtain ⟨u, r⟩ := y
        cases r with
        | error e => cases h
        | ok drops =>
          simp only at h
          by_cases hd : (main.toList ++ drops).isEmpty = true
          · simp only [hd, if_true] at h; cases h
          · simp only [hd, Bool.false_eq_true, if_false, Except.ok.injEq] at h
            subst h
            intro hh; rw [hh] at hd; simp at hd

/-- the history variant lists the files that are merged: merging the history left to right,
    skipping a file when a later one has the same name, reproduces the result of the two-directory read -/
theorem C12_history (ctx : RdCtx) (s : RdState) (usr etc name suffix : Option Str) (delim : Option Str) (comment : Str) :
    (match (readDirsHistory ctx s usr etc name suffix delim comment).2 with
     | .ok files => (readDirs ctx s usr etc name suffix delim comment).2.2 = mergeHistory files ∧
                    (readDirs ctx s usr etc name suffix delim comment).2.1 = .success
     | .error (e, _) => (readDirs ctx s usr etc name suffix delim comment).2.1 = e) := by
  unfold readDirsHistory readDirs readConfigCore
  simp only [List.isEmpty_nil, if_true]
  have hnz := readHistory_nonempty ctx s [usr.getD [], etc.getD []] name suffix delim comment false false s.g.confDirs
  generalize readHistory ctx s [usr.getD [], etc.getD []] name suffix delim comment false false s.g.confDirs = x at hnz
  obtain ⟨t, r⟩ := x
  cases r with
  | error eb => obtain ⟨e, b⟩ := eb; rfl
  | ok files =>
    simp only
    cases files with
    | nil => exact absurd rfl (hnz [] rfl)
    | cons k ks => exact ⟨rfl, rfl⟩

end Econf
