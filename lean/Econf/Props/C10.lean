import Econf.KeyFileOps
import Econf.Writer
import Econf.Merge

/-!
  C10 — queries never change the configuration.

  In the model every read-only call is a function from the object to its answer; `queryStep`
  threads the object through such a call exactly as the API does (the object is an argument
  and stays the caller's), so that "the object afterwards" is defined for every call of the
  property's list.  `C10_readonly` is the induction over arbitrary call sequences.
  What the model cannot exhibit is a getter that writes through a shared pointer (the C
  functions receive the struct by value but share the entry array): that is what the
  correspondence run of this property checks on the real library (full dump, line numbers,
  written bytes before and after every sequence).
-/

namespace Econf

/-- the read-only calls of the property -/
inductive Query where
  | groups
  | keys (g : Option Str)
  | getString (g k : Option Str)
  | getInt32 (g k : Option Str) | getInt64 (g k : Option Str)
  | getUInt32 (g k : Option Str) | getUInt64 (g k : Option Str)
  | getBool (g k : Option Str)
  | getStringDef (g k : Option Str) (d : Option Str)
  | ext (g k : Option Str)
  | path
  | tags
  | write
  | mergeBase (other : KeyFile)
  | mergeOverride (other : KeyFile)

inductive Answer where
  | strs (r : Except Err (List Str))
  | str (r : Except Err (Option Str))
  | int (r : Except Err Int)
  | nat (r : Except Err Nat)
  | bool (r : Except Err Bool)
  | extv (r : Except Err ExtValue)
  | bytes (b : Str)
  | tags (d c : Byte)
  | obj (kf : KeyFile)

def answer (kf : KeyFile) : Query → Answer
  | .groups => .strs (getGroups kf)
  | .keys g => .strs (getKeys kf g)
  | .getString g k => .str (getString kf g k)
  | .getInt32 g k => .int (getTyped getInt32 kf g k)
  | .getInt64 g k => .int (getTyped getInt64 kf g k)
  | .getUInt32 g k => .nat (getTyped getUInt32 kf g k)
  | .getUInt64 g k => .nat (getTyped getUInt64 kf g k)
  | .getBool g k => .bool (getTyped getBool kf g k)
  | .getStringDef g k d => .str (match getString kf g k with
      | .error .nokey => .ok d
      | r => r)
  | .ext g k => .extv (getExt kf g k)
  | .path => .str (.ok kf.path)
  | .tags => .tags kf.delim kf.comment
  | .write => .bytes (writeBytes kf)
  | .mergeBase o => .obj (mergeFiles kf o)
  | .mergeOverride o => .obj (mergeFiles o kf)

/-- one read-only call: the object afterwards and the answer -/
def queryStep (kf : KeyFile) (q : Query) : KeyFile × Answer := (kf, answer kf q)

def runQueries (kf : KeyFile) : List Query → KeyFile × List Answer
  | [] => (kf, [])
  | q :: qs => let r := queryStep kf q; let rest := runQueries r.1 qs; (rest.1, r.2 :: rest.2)

/-- no sequence of read-only calls changes the object … -/
theorem C10_readonly (kf : KeyFile) (qs : List Query) : (runQueries kf qs).1 = kf := by
  induction qs with
  | nil => rfl
  | cons q qs ih => simpa [runQueries, queryStep] using ih

/-- … and therefore every later query, and a later write, gives the same answer as before -/
theorem C10_later_answers (kf : KeyFile) (qs : List Query) (q : Query) :
    answer (runQueries kf qs).1 q = answer kf q := by rw [C10_readonly]

theorem C10_later_write (kf : KeyFile) (qs : List Query) :
    writeBytes (runQueries kf qs).1 = writeBytes kf := by rw [C10_readonly]

/-- the boolean getter decides on a lower-cased copy: its answer for a mixed-case text exists and
    the stored text is still the mixed-case one (the witness of fixed finding F08) -/
example :
    let kf : KeyFile := { entries := [{ group := NONE, key := [0x6b], value := some [0x59, 0x65, 0x73], cb := none, ca := none, line := 1, quotes := false }] }
    (match getTyped getBool kf none (some [0x6b]) with
     | .ok b => b
     | .error _ => false) = true ∧
    (runQueries kf [.getBool none (some [0x6b])]).1.entries.map (·.value) = [some [0x59, 0x65, 0x73]] := by decide

end Econf
