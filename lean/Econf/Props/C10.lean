import Econf.KeyFileOps
namespace Econf
end Econf
