import Econf.Props.LeafMergeAll

/-!
  # `econf_mergeFiles` (lib/libeconf.c) on the generated term

  The caller of the three merge steps: it checks its arguments, allocates the merged object (`calloc`: every member zero, `groups == NULL`),
  copies delimiter and comment of the base, allocates the entry array for `etc->length + usr->length` entries, runs `insert_nogroup`,
  `merge_existing_groups`, `add_new_groups` (`C_merge3_fresh`), and stores count and array in the object.
-/
open MiniC Leaf LeafKf
set_option linter.unusedSimpArgs false
set_option linter.unusedVariables false
namespace LeafKf

def mfObj : Expr := .load (.slot (.load (.var 0) .ptr) 0) .ptr
def mfSet (k : Nat) (e : Expr) (ty : Ty) : Stmt := .expr (.assign (.slot mfObj k) e ty)
def mfZ (ty : Ty) : Expr := .cast ty (.lit 0 .i32)
def mfSize : Expr := .bin .mul (.bin .add (.load (.slot (.load (.var 2) .ptr) 1) .u64) (.load (.slot (.load (.var 1) .ptr) 1) .u64) .u64) (.lit 7 .u64) .u64
def mfArgs4 : Args := .cons mfObj (.cons (.load (.var 3) .ptr) (.cons (.load (.var 1) .ptr) (.cons (.load (.var 2) .ptr) .nil)))
def mfArgs5 : Args := .cons mfObj (.cons (.load (.var 3) .ptr) (.cons (.load (.var 1) .ptr) (.cons (.load (.var 2) .ptr) (.cons (.load (.var 4) .u64) .nil))))
def mfFree : Stmt := .seq (.expr (.call "free" (.cons mfObj .nil))) (.seq (.expr (.assign (.slot (.load (.var 0) .ptr) 0) .null .ptr)) (.ret (some (.cast .u32 (.lit 2 .i32)))))

/-- from the three calls to the end -/
def mfMerge : Stmt :=
  .seq (.inl (some (.var 4)) .u64 mfArgs4 9 LeafFns.insert_nogroup.body)
    (.seq (.inl (some (.var 4)) .u64 mfArgs5 15 LeafFns.merge_existing_groups.body)
      (.seq (.inl (some (.var 4)) .u64 mfArgs5 10 LeafFns.add_new_groups.body)
        (.seq (mfSet 1 (.load (.var 4) .u64) .u64) (.seq (mfSet 2 (.load (.var 4) .u64) .u64)
          (.seq (mfSet 0 (.load (.slot (.load (.var 3) .ptr) 0) .ptr) .ptr) (.ret (some (.cast .u32 (.lit 0 .i32)))))))))

/-- from the copy of delimiter and comment on -/
def mfFill : Stmt :=
  .seq (mfSet 3 (.load (.slot (.load (.var 1) .ptr) 3) .i8) .i8) (.seq (mfSet 4 (.load (.slot (.load (.var 1) .ptr) 4) .i8) .i8) (.seq (mfSet 6 .null .ptr)
    (.seq (.expr (.assign (.var 3) (.call "alloca_words" (.cons (.lit 1 .u64) .nil)) .ptr))
      (.seq (.expr (.assign (.slot (.load (.var 3) .ptr) 0) (.call "malloc_words" (.cons mfSize .nil)) .ptr))
        (.seq (.ite (.bin .eq (.load (.slot (.load (.var 3) .ptr) 0) .ptr) .null .i32) mfFree .skip)
          (.seq (.expr (.assign (.var 4) (.cast .u64 (.lit 0 .i32)) .u64)) mfMerge))))))

/-- the member-wise initialisation of the new object (`calloc`) -/
def mfZero (rest : Stmt) : Stmt :=
  .seq (mfSet 0 .null .ptr) (.seq (mfSet 1 (mfZ .u64) .u64) (.seq (mfSet 2 (mfZ .u64) .u64) (.seq (mfSet 3 (mfZ .i8) .i8) (.seq (mfSet 4 (mfZ .i8) .i8)
    (.seq (mfSet 5 (mfZ .bool) .bool) (.seq (mfSet 6 .null .ptr) (.seq (mfSet 7 (mfZ .bool) .bool) (.seq (mfSet 8 (mfZ .bool) .bool) (.seq (mfSet 9 .null .ptr)
      (.seq (mfSet 10 (mfZ .i32) .i32) (.seq (mfSet 11 .null .ptr) (.seq (mfSet 12 (mfZ .i32) .i32) (.seq (mfSet 13 .null .ptr) (.seq (mfSet 14 (mfZ .i32) .i32)
        (.seq (mfSet 15 .null .ptr) rest)))))))))))))))

theorem econf_mergeFiles_shape : LeafFns.econf_mergeFiles.body =
    .seq (.ite (.bin .eq (.load (.var 0) .ptr) .null .i32) (.ret (some (.cast .u32 (.lit 1 .i32)))) .skip)
      (.seq (.ite (.lor (.bin .eq (.load (.var 1) .ptr) .null .i32) (.bin .eq (.load (.var 2) .ptr) .null .i32))
          (.seq (.expr (.assign (.slot (.load (.var 0) .ptr) 0) .null .ptr)) (.ret (some (.cast .u32 (.lit 1 .i32))))) .skip)
        (.seq (.expr (.assign (.slot (.load (.var 0) .ptr) 0) (.call "malloc_words" (.cons (.lit 16 .u64) .nil)) .ptr))
          (mfZero (.seq (.ite (.bin .eq mfObj .null .i32) (.ret (some (.cast .u32 (.lit 2 .i32)))) .skip)
            (.seq (.dowhile .skip (.lit 0 .i32)) mfFill))))) := rfl


/-- `merged_file == NULL`: error code 1 (`ECONF_ERROR`), nothing is touched -/
theorem C_econf_mergeFiles_null_dest (fuel : Nat) (m : Mem) (a1 a2 a3 a4 : Val) :
    exec fuel LeafFns.econf_mergeFiles.body { mem := m, loc := [.null, a1, a2, a3, a4] } =
      .ret (.int 1) { mem := m, loc := [.null, a1, a2, a3, a4] } := by
  have w1 : wrapTo .u32 1 = 1 := by decide
  rw [econf_mergeFiles_shape]
  have ht : testOf (some (.bin .eq (.load (.var 0) .ptr) .null .i32)) { mem := m, loc := [.null, a1, a2, a3, a4] } =
      .ok (true, { mem := m, loc := [.null, a1, a2, a3, a4] }) := by
    simp [testOf, evalE, evalL, readPlace, binop, boolVal, truth, bind, Except.bind]
  have hr : exec fuel (.ite (.bin .eq (.load (.var 0) .ptr) .null .i32) (.ret (some (.cast .u32 (.lit 1 .i32)))) .skip) { mem := m, loc := [.null, a1, a2, a3, a4] } =
      .ret (.int 1) { mem := m, loc := [.null, a1, a2, a3, a4] } := by
    rw [exec_ite_true ht]; simp [exec, evalE, convert, w1, bind, Except.bind]
  rw [exec_seq_ret hr]

/-- `usr_file == NULL` or `etc_file == NULL`: `*merged_file = NULL`, error code 1 -/
theorem C_econf_mergeFiles_null (fuel : Nat) (m : Mem) (pr : Nat) (pblk : Block) (a1 a2 a3 a4 : Val)
    (hp1 : m[pr]? = some pblk) (hp2 : pblk.live = true) (hp3 : pblk.writable = true) (hp4 : 0 < pblk.slots.length)
    (h : a1 = .null ∨ (∃ b o, a1 = .ptr b o) ∧ a2 = .null) :
    exec fuel LeafFns.econf_mergeFiles.body { mem := m, loc := [.ptr pr 0, a1, a2, a3, a4] } =
      .ret (.int 1) { mem := m.set pr { pblk with slots := pblk.slots.set 0 .null }, loc := [.ptr pr 0, a1, a2, a3, a4] } := by
  have w1 : wrapTo .u32 1 = 1 := by decide
  rw [econf_mergeFiles_shape]
  have ht : testOf (some (.bin .eq (.load (.var 0) .ptr) .null .i32)) { mem := m, loc := [.ptr pr 0, a1, a2, a3, a4] } =
      .ok (false, { mem := m, loc := [.ptr pr 0, a1, a2, a3, a4] }) := by
    simp [testOf, evalE, evalL, readPlace, binop, boolVal, truth, bind, Except.bind]
  have hs : exec fuel (.ite (.bin .eq (.load (.var 0) .ptr) .null .i32) (.ret (some (.cast .u32 (.lit 1 .i32)))) .skip) { mem := m, loc := [.ptr pr 0, a1, a2, a3, a4] } =
      .normal { mem := m, loc := [.ptr pr 0, a1, a2, a3, a4] } := by
    rw [exec_ite_false ht]; simp [exec]
  rw [exec_seq_normal hs]
  have ht2 : testOf (some (.lor (.bin .eq (.load (.var 1) .ptr) .null .i32) (.bin .eq (.load (.var 2) .ptr) .null .i32))) { mem := m, loc := [.ptr pr 0, a1, a2, a3, a4] } =
      .ok (true, { mem := m, loc := [.ptr pr 0, a1, a2, a3, a4] }) := by
    rcases h with rfl | ⟨⟨b, o, rfl⟩, rfl⟩ <;>
      simp [testOf, evalE, evalL, readPlace, binop, boolVal, truth, bind, Except.bind]
  have hst := storeSlot_of (i := 0) .null hp1 hp2 hp3 hp4
  have hr : exec fuel (.ite (.lor (.bin .eq (.load (.var 1) .ptr) .null .i32) (.bin .eq (.load (.var 2) .ptr) .null .i32))
        (.seq (.expr (.assign (.slot (.load (.var 0) .ptr) 0) .null .ptr)) (.ret (some (.cast .u32 (.lit 1 .i32))))) .skip) { mem := m, loc := [.ptr pr 0, a1, a2, a3, a4] } =
      .ret (.int 1) { mem := m.set pr { pblk with slots := pblk.slots.set 0 .null }, loc := [.ptr pr 0, a1, a2, a3, a4] } := by
    rw [exec_ite_true ht2]
    have hS : exec fuel (.expr (.assign (.slot (.load (.var 0) .ptr) 0) .null .ptr)) { mem := m, loc := [.ptr pr 0, a1, a2, a3, a4] } =
        .normal { mem := m.set pr { pblk with slots := pblk.slots.set 0 .null }, loc := [.ptr pr 0, a1, a2, a3, a4] } := by
      have hst' : m.storeSlot pr 0 .null = .ok (m.set pr { pblk with slots := pblk.slots.set 0 .null }) := by simpa using hst
      simp [exec, evalE, evalL, readPlace, writePlace, convert, hst', bind, Except.bind, Except.map]
    rw [exec_seq_normal hS]
    simp [exec, evalE, convert, w1, bind, Except.bind]
  rw [exec_seq_ret hr]

/-- one member of the new object (the last block of the memory) is set -/
theorem mf_set (fuel : Nat) (a : Mem) (K : Block) (loc : List Val) (pr k : Nat) (e : Expr) (ty : Ty) (v0 v : Val)
    (hl0 : loc[0]? = some (.ptr pr 0)) (hpr : (a ++ [K]).loadSlot pr 0 = .ok (.ptr a.length 0))
    (hK : K.live = true) (hKw : K.writable = true) (hk : k < K.slots.length)
    (he : evalE e { mem := a ++ [K], loc := loc } = .ok (v0, { mem := a ++ [K], loc := loc })) (hc : convert ty v0 = .ok v) (hv : v ≠ .undef) :
    exec fuel (mfSet k e ty) { mem := a ++ [K], loc := loc } = .normal { mem := a ++ [{ K with slots := K.slots.set k v }], loc := loc } := by
  have hKat : (a ++ [K])[a.length]? = some K := by simp
  have hst := storeSlot_of (i := k) v hKat hK hKw hk
  have hset : (a ++ [K]).set a.length { K with slots := K.slots.set k v } = a ++ [{ K with slots := K.slots.set k v }] := by
    simp [List.set_append]
  rw [hset] at hst
  have hst' : (a ++ [K]).storeSlot a.length ((0 : Int) + (k : Int)) v = .ok (a ++ [{ K with slots := K.slots.set k v }]) := by simpa using hst
  have hobj : evalE mfObj { mem := a ++ [K], loc := loc } = .ok (.ptr a.length 0, { mem := a ++ [K], loc := loc }) := by
    simp [mfObj, evalE, evalL, readPlace, hl0, hpr, bind, Except.bind]
  unfold mfSet
  generalize mfObj = O at hobj ⊢
  simp only [exec, evalE, evalL, hobj, bind, Except.bind, he, hc]
  cases v with
  | undef => exact absurd rfl hv
  | int n => simp only [writePlace, hst', Except.map]
  | ptr b o => simp only [writePlace, hst', Except.map]
  | null => simp only [writePlace, hst', Except.map]


/-- a block of words -/
abbrev Kof (sl : List Val) : Block := { cells := [], slots := sl }

theorem mf_set_null (fuel : Nat) (a : Mem) (sl : List Val) (loc : List Val) (pr k : Nat)
    (hl0 : loc[0]? = some (.ptr pr 0)) (hpr : ∀ K, (a ++ [K]).loadSlot pr 0 = .ok (.ptr a.length 0)) (hk : k < sl.length) :
    exec fuel (mfSet k .null .ptr) { mem := a ++ [Kof sl], loc := loc } = .normal { mem := a ++ [Kof (sl.set k .null)], loc := loc } :=
  mf_set fuel a (Kof sl) loc pr k .null .ptr .null .null hl0 (hpr _) rfl rfl hk (by simp [evalE]) (by simp [convert]) (by simp)

theorem mf_set_zero (fuel : Nat) (a : Mem) (sl : List Val) (loc : List Val) (pr k : Nat) (ty : Ty)
    (hl0 : loc[0]? = some (.ptr pr 0)) (hpr : ∀ K, (a ++ [K]).loadSlot pr 0 = .ok (.ptr a.length 0)) (hk : k < sl.length)
    (hcv : convert ty (.int 0) = .ok (.int 0)) :
    exec fuel (mfSet k (mfZ ty) ty) { mem := a ++ [Kof sl], loc := loc } = .normal { mem := a ++ [Kof (sl.set k (.int 0))], loc := loc } :=
  mf_set fuel a (Kof sl) loc pr k (mfZ ty) ty (.int 0) (.int 0) hl0 (hpr _) rfl rfl hk (by simp [mfZ, evalE, hcv, bind, Except.bind]) hcv (by simp)

/-- the members of the object `calloc` returns -/
def mfZeroSlots : List Val := [.null, .int 0, .int 0, .int 0, .int 0, .int 0, .null, .int 0, .int 0, .null, .int 0, .null, .int 0, .null, .int 0, .null]

theorem mf_zero (fuel : Nat) (a : Mem) (loc : List Val) (pr : Nat) (rest : Stmt)
    (hl0 : loc[0]? = some (.ptr pr 0)) (hpr : ∀ K, (a ++ [K]).loadSlot pr 0 = .ok (.ptr a.length 0)) :
    exec fuel (mfZero rest) { mem := a ++ [Kof (List.replicate 16 .undef)], loc := loc } = exec fuel rest { mem := a ++ [Kof mfZeroSlots], loc := loc } := by
  have w64 : wrapTo .u64 0 = 0 := by decide
  have w8 : wrapTo .i8 0 = 0 := by decide
  have wb : wrapTo .bool 0 = 0 := by decide
  have w32 : wrapTo .i32 0 = 0 := by decide
  have c64 : convert .u64 (.int 0) = .ok (.int 0) := by simp [convert, w64]
  have c8 : convert .i8 (.int 0) = .ok (.int 0) := by simp [convert, w8]
  have cb : convert .bool (.int 0) = .ok (.int 0) := by simp [convert, wb]
  have c32 : convert .i32 (.int 0) = .ok (.int 0) := by simp [convert, w32]
  unfold mfZero
  rw [exec_seq_normal (mf_set_null fuel a _ loc pr 0 hl0 hpr (by simp)),
    exec_seq_normal (mf_set_zero fuel a _ loc pr 1 .u64 hl0 hpr (by simp) c64),
    exec_seq_normal (mf_set_zero fuel a _ loc pr 2 .u64 hl0 hpr (by simp) c64),
    exec_seq_normal (mf_set_zero fuel a _ loc pr 3 .i8 hl0 hpr (by simp) c8),
    exec_seq_normal (mf_set_zero fuel a _ loc pr 4 .i8 hl0 hpr (by simp) c8),
    exec_seq_normal (mf_set_zero fuel a _ loc pr 5 .bool hl0 hpr (by simp) cb),
    exec_seq_normal (mf_set_null fuel a _ loc pr 6 hl0 hpr (by simp)),
    exec_seq_normal (mf_set_zero fuel a _ loc pr 7 .bool hl0 hpr (by simp) cb),
    exec_seq_normal (mf_set_zero fuel a _ loc pr 8 .bool hl0 hpr (by simp) cb),
    exec_seq_normal (mf_set_null fuel a _ loc pr 9 hl0 hpr (by simp)),
    exec_seq_normal (mf_set_zero fuel a _ loc pr 10 .i32 hl0 hpr (by simp) c32),
    exec_seq_normal (mf_set_null fuel a _ loc pr 11 hl0 hpr (by simp)),
    exec_seq_normal (mf_set_zero fuel a _ loc pr 12 .i32 hl0 hpr (by simp) c32),
    exec_seq_normal (mf_set_null fuel a _ loc pr 13 hl0 hpr (by simp)),
    exec_seq_normal (mf_set_zero fuel a _ loc pr 14 .i32 hl0 hpr (by simp) c32),
    exec_seq_normal (mf_set_null fuel a _ loc pr 15 hl0 hpr (by simp))]
  rfl


/-- one member of the object the cell `*merged_file` points at is set, wherever the object lives -/
theorem mf_set_at (fuel : Nat) (mm : Mem) (loc : List Val) (pr bd k : Nat) (kb : Block) (e : Expr) (ty : Ty) (v0 v : Val)
    (hl0 : loc[0]? = some (.ptr pr 0)) (hpr : mm.loadSlot pr 0 = .ok (.ptr bd 0))
    (hb : mm[bd]? = some kb) (hK : kb.live = true) (hKw : kb.writable = true) (hk : k < kb.slots.length)
    (he : evalE e { mem := mm, loc := loc } = .ok (v0, { mem := mm, loc := loc })) (hc : convert ty v0 = .ok v) (hv : v ≠ .undef) :
    exec fuel (mfSet k e ty) { mem := mm, loc := loc } = .normal { mem := mm.set bd { kb with slots := kb.slots.set k v }, loc := loc } := by
  have hst := storeSlot_of (i := k) v hb hK hKw hk
  have hst' : mm.storeSlot bd ((0 : Int) + (k : Int)) v = .ok (mm.set bd { kb with slots := kb.slots.set k v }) := by simpa using hst
  have hobj : evalE mfObj { mem := mm, loc := loc } = .ok (.ptr bd 0, { mem := mm, loc := loc }) := by
    simp [mfObj, evalE, evalL, readPlace, hl0, hpr, bind, Except.bind]
  unfold mfSet
  generalize mfObj = O at hobj ⊢
  simp only [exec, evalE, evalL, hobj, bind, Except.bind, he, hc]
  cases v with
  | undef => exact absurd rfl hv
  | int n => simp only [writePlace, hst', Except.map]
  | ptr b o => simp only [writePlace, hst', Except.map]
  | null => simp only [writePlace, hst', Except.map]

/-- the strings of a memory do not depend on the words of its blocks -/
theorem cstr_set_slots {m : Mem} {b : Nat} {blk : Block} (hb : m[b]? = some blk) (sl : List Val) (b' : Nat) (o : Int) :
    Mem.cstr (m.set b { blk with slots := sl }) b' o = m.cstr b' o := by
  by_cases h : b' = b
  · subst h
    have hlt : b' < m.length := (List.getElem?_eq_some_iff.1 hb).1
    have hnew : (m.set b' { blk with slots := sl })[b']? = some { blk with slots := sl } := by simp [hlt]
    simp only [Mem.cstr, Mem.block, hb, hnew]
    cases blk.live <;> simp [bind, Except.bind]
  · exact cstr_congr (set_other h) o

/-- a member of the object other than `groups` and `group_count` is set: the group list stays -/
theorem GlMem.set_member {m : Mem} {bk bl : Nat} {gl : List (Nat × List UInt8)} (h : GlMem m bk bl gl) (hne : gl ≠ [] → bk ≠ bl)
    {kb : Block} (hk : m[bk]? = some kb) (k : Nat) (v : Val) (h13 : k ≠ 13) (h14 : k ≠ 14) :
    GlMem (m.set bk { kb with slots := kb.slots.set k v }) bk bl gl := by
  have hlt : bk < m.length := (List.getElem?_eq_some_iff.1 hk).1
  have hnew : (m.set bk { kb with slots := kb.slots.set k v })[bk]? = some { kb with slots := kb.slots.set k v } := by simp [hlt]
  rcases h with hA | ⟨hg, hb, nb, n1, n2, n3, n4⟩
  · have hbl : bk ≠ bl := hA.ne hne
    obtain ⟨kb', k1, k2, k3, k4⟩ := hA.kf
    rw [hk] at k1; injection k1 with k1; subst k1
    obtain ⟨gb, g1, g2, g3, g4⟩ := hA.arr
    refine Or.inl ⟨⟨_, hnew, k2, by simp [List.getElem?_set, k3, h13], by simp [List.getElem?_set, k4, h14]⟩,
      ⟨gb, by rw [set_other (Ne.symm hbl)]; exact g1, g2, g3, fun i hi => ⟨(g4 i hi).1, by rw [cstr_set_slots hk]; exact (g4 i hi).2⟩⟩⟩
  · rw [hk] at n1; injection n1 with n1; subst n1
    exact Or.inr ⟨hg, hb, _, hnew, n2, by simp [List.getElem?_set, n3, h13], by simp [List.getElem?_set, n4, h14]⟩


/-- the members of the new object before the three calls: delimiter and comment of the base, everything else zero -/
def mfSlots (dl cm : Int) : List Val := [.null, .int 0, .int 0, .int dl, .int cm, .int 0, .null, .int 0, .int 0, .null, .int 0, .null, .int 0, .null, .int 0, .null]

/-- the caller's cell `*merged_file` once it points at the object in block `L` -/
def mfCell (pblk : Block) (L : Nat) : Block := { pblk with slots := pblk.slots.set 0 (.ptr L 0) }

/-- the memory before the three calls: the caller's blocks (the cell updated), the new object, the local `fe`, the new entry array for `n` entries -/
def mfMem0 (m : Mem) (pr : Nat) (pblk : Block) (dl cm : Int) (n : Nat) : Mem :=
  m.set pr (mfCell pblk m.length) ++ [Kof (mfSlots dl cm)] ++ [Kof [.ptr (m.length + 2) 0]] ++ [Kof (List.replicate (7 * n) .undef)]

/-- `econf_mergeFiles` up to the three calls: the object is allocated (block `m.length`) and initialised, the cell `*merged_file` points
    at it, the local `fe` (block `m.length + 1`) points at the new entry array (block `m.length + 2`) -/
theorem mf_prefix (fuel : Nat) (hfuel : 0 < fuel) (m : Mem) (pr bu bua be bea : Nat) (us es : List Econf.Entry) (dl cm : Int)
    (pblk : Block) (hp1 : m[pr]? = some pblk) (hp2 : pblk.live = true) (hp3 : pblk.writable = true) (hp4 : 0 < pblk.slots.length)
    (hUs : SrcMem m bu bua us [pr]) (hEs : SrcMem m be bea es [pr])
    (hdl : m.loadSlot bu 3 = .ok (.int dl)) (hdlr : -128 ≤ dl ∧ dl < 128)
    (hcm : m.loadSlot bu 4 = .ok (.int cm)) (hcmr : -128 ≤ cm ∧ cm < 128)
    (hsz : ((es.length + us.length : Nat) : Int) * 7 < 18446744073709551616) :
    exec fuel LeafFns.econf_mergeFiles.body { mem := m, loc := [.ptr pr 0, .ptr bu 0, .ptr be 0, .undef, .undef] } =
      exec fuel mfMerge { mem := mfMem0 m pr pblk dl cm (es.length + us.length), loc := [.ptr pr 0, .ptr bu 0, .ptr be 0, .ptr (m.length + 1) 0, .int 0] } := by
  have hprlt : pr < m.length := (List.getElem?_eq_some_iff.1 hp1).1
  obtain ⟨ub, u1, u2, u3, u4⟩ := hUs.kf
  obtain ⟨eb, e1, e2, e3, e4⟩ := hEs.kf
  have hbult : bu < m.length := (List.getElem?_eq_some_iff.1 u1).1
  have hbelt : be < m.length := (List.getElem?_eq_some_iff.1 e1).1
  have hbupr : bu ≠ pr := by have := hUs.kfav; simpa using this
  have hbepr : be ≠ pr := by have := hEs.kfav; simpa using this
  have hul : m.loadSlot bu 1 = .ok (.int us.length) := by simpa using loadSlot_of (i := 1) u1 u2 u4 (by simp)
  have hel : m.loadSlot be 1 = .ok (.int es.length) := by simpa using loadSlot_of (i := 1) e1 e2 e4 (by simp)
  unfold mfMem0
  obtain ⟨a, ha⟩ : ∃ a : Mem, a = m.set pr (mfCell pblk m.length) := ⟨_, rfl⟩
  have halen : a.length = m.length := by rw [ha]; simp
  have hapr : a[pr]? = some (mfCell pblk m.length) := by rw [ha]; simp [hprlt]
  have haother : ∀ b, b ≠ pr → a[b]? = m[b]? := fun b hb => by rw [ha]; exact set_other hb
  rw [← ha]
  -- what every later memory `a ++ rest` keeps
  have hprK : ∀ rest : Mem, (a ++ rest).loadSlot pr 0 = .ok (.ptr a.length 0) := by
    intro rest
    have h1 : (a ++ rest)[pr]? = some (mfCell pblk m.length) := by
      rw [List.getElem?_append_left (by omega)]; exact hapr
    have h0 : (mfCell pblk m.length).slots[0]? = some (.ptr m.length 0) := by simp [mfCell, List.getElem?_set, hp4]
    have := loadSlot_of (i := 0) h1 hp2 h0 (by simp)
    rw [halen]; simpa using this
  have hold : ∀ (rest : Mem) (b : Nat), b < m.length → b ≠ pr → (a ++ rest)[b]? = m[b]? := by
    intro rest b hb hne
    rw [List.getElem?_append_left (by omega)]; exact haother b hne
  rw [econf_mergeFiles_shape]
  -- the two checks of the arguments
  have ht : testOf (some (.bin .eq (.load (.var 0) .ptr) .null .i32)) { mem := m, loc := [.ptr pr 0, .ptr bu 0, .ptr be 0, .undef, .undef] } =
      .ok (false, { mem := m, loc := [.ptr pr 0, .ptr bu 0, .ptr be 0, .undef, .undef] }) := by
    simp [testOf, evalE, evalL, readPlace, binop, boolVal, truth, bind, Except.bind]
  have hs : exec fuel (.ite (.bin .eq (.load (.var 0) .ptr) .null .i32) (.ret (some (.cast .u32 (.lit 1 .i32)))) .skip) { mem := m, loc := [.ptr pr 0, .ptr bu 0, .ptr be 0, .undef, .undef] } =
      .normal { mem := m, loc := [.ptr pr 0, .ptr bu 0, .ptr be 0, .undef, .undef] } := by
    rw [exec_ite_false ht]; simp [exec]
  rw [exec_seq_normal hs]
  have ht2 : testOf (some (.lor (.bin .eq (.load (.var 1) .ptr) .null .i32) (.bin .eq (.load (.var 2) .ptr) .null .i32))) { mem := m, loc := [.ptr pr 0, .ptr bu 0, .ptr be 0, .undef, .undef] } =
      .ok (false, { mem := m, loc := [.ptr pr 0, .ptr bu 0, .ptr be 0, .undef, .undef] }) := by
    simp [testOf, evalE, evalL, readPlace, binop, boolVal, truth, bind, Except.bind]
  have hs2 : exec fuel (.ite (.lor (.bin .eq (.load (.var 1) .ptr) .null .i32) (.bin .eq (.load (.var 2) .ptr) .null .i32))
        (.seq (.expr (.assign (.slot (.load (.var 0) .ptr) 0) .null .ptr)) (.ret (some (.cast .u32 (.lit 1 .i32))))) .skip) { mem := m, loc := [.ptr pr 0, .ptr bu 0, .ptr be 0, .undef, .undef] } =
      .normal { mem := m, loc := [.ptr pr 0, .ptr bu 0, .ptr be 0, .undef, .undef] } := by
    rw [exec_ite_false ht2]; simp [exec]
  rw [exec_seq_normal hs2]
  -- `calloc`
  have hmal : exec fuel (.expr (.assign (.slot (.load (.var 0) .ptr) 0) (.call "malloc_words" (.cons (.lit 16 .u64) .nil)) .ptr))
      { mem := m, loc := [.ptr pr 0, .ptr bu 0, .ptr be 0, .undef, .undef] } =
      .normal { mem := a ++ [Kof (List.replicate 16 .undef)], loc := [.ptr pr 0, .ptr bu 0, .ptr be 0, .undef, .undef] } := by
    have h1 : (m ++ [Kof (List.replicate 16 .undef)])[pr]? = some pblk := by rw [List.getElem?_append_left hprlt]; exact hp1
    have hst := storeSlot_of (i := 0) (.ptr m.length 0) h1 hp2 hp3 hp4
    have hset : (m ++ [Kof (List.replicate 16 .undef)]).set pr { pblk with slots := pblk.slots.set 0 (.ptr m.length 0) } = a ++ [Kof (List.replicate 16 .undef)] := by
      rw [ha, List.set_append_left _ _ hprlt]; rfl
    rw [hset] at hst
    have hst' : (m ++ [Kof (List.replicate 16 .undef)]).storeSlot pr 0 (.ptr m.length 0) = .ok (a ++ [Kof (List.replicate 16 .undef)]) := by simpa using hst
    simp only [Kof, List.replicate] at hst'
    simp [exec, evalE, evalL, evalArgs, readPlace, writePlace, builtin, Mem.allocWords, convert, hst', bind, Except.bind, Except.map]
  rw [exec_seq_normal hmal]
  rw [mf_zero fuel a _ pr _ rfl (fun K => hprK [K])]
  -- the allocation has not failed
  have hobj : ∀ (rest : Mem) (loc : List Val), loc[0]? = some (.ptr pr 0) →
      evalE mfObj { mem := a ++ rest, loc := loc } = .ok (.ptr a.length 0, { mem := a ++ rest, loc := loc }) := by
    intro rest loc hl0
    simp [mfObj, evalE, evalL, readPlace, hl0, hprK rest, bind, Except.bind]
  have hnn : exec fuel (.ite (.bin .eq mfObj .null .i32) (.ret (some (.cast .u32 (.lit 2 .i32)))) .skip)
      { mem := a ++ [Kof mfZeroSlots], loc := [.ptr pr 0, .ptr bu 0, .ptr be 0, .undef, .undef] } =
      .normal { mem := a ++ [Kof mfZeroSlots], loc := [.ptr pr 0, .ptr bu 0, .ptr be 0, .undef, .undef] } := by
    have ho := hobj [Kof mfZeroSlots] [.ptr pr 0, .ptr bu 0, .ptr be 0, .undef, .undef] rfl
    generalize mfObj = O at ho ⊢
    rw [exec_ite_false (st' := { mem := a ++ [Kof mfZeroSlots], loc := [.ptr pr 0, .ptr bu 0, .ptr be 0, .undef, .undef] })
      (by simp [testOf, evalE, ho, binop, boolVal, truth, bind, Except.bind])]
    simp [exec]
  rw [exec_seq_normal hnn]
  have hdw : exec fuel (.dowhile .skip (.lit 0 .i32)) { mem := a ++ [Kof mfZeroSlots], loc := [.ptr pr 0, .ptr bu 0, .ptr be 0, .undef, .undef] } =
      .normal { mem := a ++ [Kof mfZeroSlots], loc := [.ptr pr 0, .ptr bu 0, .ptr be 0, .undef, .undef] } := by
    obtain ⟨f, rfl⟩ : ∃ f, fuel = f + 1 := ⟨fuel - 1, by omega⟩
    simp [exec, loop, testOf, evalE, truth, bind, Except.bind]
  rw [exec_seq_normal hdw]
  unfold mfFill
  -- delimiter and comment of the base, the path
  have hld : ∀ (rest : Mem) (k : Int), (a ++ rest).loadSlot bu k = m.loadSlot bu k := fun rest k => loadSlot_congr (hold rest bu hbult hbupr) k
  have h3 := mf_set fuel a (Kof mfZeroSlots) [.ptr pr 0, .ptr bu 0, .ptr be 0, .undef, .undef] pr 3 (.load (.slot (.load (.var 1) .ptr) 3) .i8) .i8 (.int dl) (.int dl)
    rfl (hprK _) rfl rfl (by simp [mfZeroSlots])
    (by simp [evalE, evalL, readPlace, hld, hdl, bind, Except.bind]) (by simp [convert, wrapTo_i8_of_range dl hdlr.1 hdlr.2]) (by simp)
  rw [exec_seq_normal h3]
  have h4 := mf_set fuel a (Kof (mfZeroSlots.set 3 (.int dl))) [.ptr pr 0, .ptr bu 0, .ptr be 0, .undef, .undef] pr 4 (.load (.slot (.load (.var 1) .ptr) 4) .i8) .i8 (.int cm) (.int cm)
    rfl (hprK _) rfl rfl (by simp [mfZeroSlots])
    (by simp [evalE, evalL, readPlace, hld, hcm, bind, Except.bind]) (by simp [convert, wrapTo_i8_of_range cm hcmr.1 hcmr.2]) (by simp)
  rw [exec_seq_normal h4]
  have h6 := mf_set_null fuel a ((mfZeroSlots.set 3 (.int dl)).set 4 (.int cm)) [.ptr pr 0, .ptr bu 0, .ptr be 0, .undef, .undef] pr 6 rfl (fun K => hprK [K]) (by simp [mfZeroSlots])
  rw [exec_seq_normal h6]
  have hsl : ((mfZeroSlots.set 3 (.int dl)).set 4 (.int cm)).set 6 .null = mfSlots dl cm := rfl
  rw [hsl]
  -- the local `fe` and the array it points at
  have hal : exec fuel (.expr (.assign (.var 3) (.call "alloca_words" (.cons (.lit 1 .u64) .nil)) .ptr))
      { mem := a ++ [Kof (mfSlots dl cm)], loc := [.ptr pr 0, .ptr bu 0, .ptr be 0, .undef, .undef] } =
      .normal { mem := a ++ [Kof (mfSlots dl cm)] ++ [Kof [.undef]], loc := [.ptr pr 0, .ptr bu 0, .ptr be 0, .ptr (a.length + 1) 0, .undef] } := by
    simp [exec, evalE, evalL, evalArgs, writePlace, builtin, Mem.allocWords, convert, bind, Except.bind]
  rw [exec_seq_normal hal]
  obtain ⟨N, hN⟩ : ∃ N, N = es.length + us.length := ⟨_, rfl⟩
  rw [← hN] at hsz ⊢
  obtain ⟨M1, hM1⟩ : ∃ M1 : Mem, M1 = a ++ [Kof (mfSlots dl cm)] ++ [Kof [.undef]] := ⟨_, rfl⟩
  rw [← hM1]
  have hM1len : M1.length = a.length + 2 := by rw [hM1]; simp
  have hM1c : M1[a.length + 1]? = some (Kof [.undef]) := by rw [hM1]; simp
  have hM1be : M1.loadSlot be 1 = .ok (.int es.length) := by
    rw [hM1, List.append_assoc, loadSlot_congr (hold _ be hbelt hbepr)]; exact hel
  have hM1bu : M1.loadSlot bu 1 = .ok (.int us.length) := by
    rw [hM1, List.append_assoc, loadSlot_congr (hold _ bu hbult hbupr)]; exact hul
  have hsize : evalE mfSize { mem := M1, loc := [.ptr pr 0, .ptr bu 0, .ptr be 0, .ptr (a.length + 1) 0, .undef] } =
      .ok (.int ((7 * N : Nat) : Int), { mem := M1, loc := [.ptr pr 0, .ptr bu 0, .ptr be 0, .ptr (a.length + 1) 0, .undef] }) := by
    have w1 : wrapTo .u64 ((es.length : Int) + (us.length : Int)) = (N : Int) := by
      rw [wrapTo_u64_small _ (by omega) (by omega)]; omega
    have w2 : wrapTo .u64 ((N : Int) * 7) = ((7 * N : Nat) : Int) := by
      rw [wrapTo_u64_small _ (by omega) (by omega)]; omega
    simp [mfSize, evalE, evalL, readPlace, hM1be, hM1bu, binop, cmpInt, arith_u64, w1, w2, bind, Except.bind]
  have harr : exec fuel (.expr (.assign (.slot (.load (.var 3) .ptr) 0) (.call "malloc_words" (.cons mfSize .nil)) .ptr))
      { mem := M1, loc := [.ptr pr 0, .ptr bu 0, .ptr be 0, .ptr (a.length + 1) 0, .undef] } =
      .normal { mem := (M1 ++ [Kof (List.replicate (7 * N) .undef)]).set (a.length + 1) (Kof [.ptr (a.length + 2) 0]), loc := [.ptr pr 0, .ptr bu 0, .ptr be 0, .ptr (a.length + 1) 0, .undef] } := by
    have h1 : (M1 ++ [Kof (List.replicate (7 * N) .undef)])[a.length + 1]? = some (Kof [.undef]) := by
      rw [List.getElem?_append_left (by omega)]; exact hM1c
    have hst := storeSlot_of (i := 0) (.ptr (a.length + 2) 0) h1 rfl rfl (by simp)
    have hst' : (M1 ++ [Kof (List.replicate (7 * N) .undef)]).storeSlot (a.length + 1) 0 (.ptr (a.length + 2) 0) =
        .ok ((M1 ++ [Kof (List.replicate (7 * N) .undef)]).set (a.length + 1) (Kof [.ptr (a.length + 2) 0])) := by simpa using hst
    generalize mfSize = SZ at hsize ⊢
    simp only [exec, evalE, evalL, evalArgs, readPlace, hsize, bind, Except.bind, List.getElem?_cons_succ, List.getElem?_cons_zero]
    have hcast : ((7 : Int) * (N : Int)).toNat = 7 * N := by omega
    simp [builtin, Mem.allocWords, convert, writePlace, hM1len, hcast, hst', Except.map]
  rw [exec_seq_normal harr]
  have hM2 : (M1 ++ [Kof (List.replicate (7 * N) .undef)]).set (a.length + 1) (Kof [.ptr (a.length + 2) 0]) =
      a ++ [Kof (mfSlots dl cm)] ++ [Kof [.ptr (a.length + 2) 0]] ++ [Kof (List.replicate (7 * N) .undef)] := by
    rw [hM1, List.set_append_left _ _ (by simp)]
    congr 1
    have : a.length + 1 = (a ++ [Kof (mfSlots dl cm)]).length := by simp
    rw [this, List.set_append_right _ _ (Nat.le_refl _)]
    simp
  rw [hM2]
  obtain ⟨M2, hM2d⟩ : ∃ M2 : Mem, M2 = a ++ [Kof (mfSlots dl cm)] ++ [Kof [.ptr (a.length + 2) 0]] ++ [Kof (List.replicate (7 * N) .undef)] := ⟨_, rfl⟩
  rw [← hM2d]
  have hM2c : M2[a.length + 1]? = some (Kof [.ptr (a.length + 2) 0]) := by rw [hM2d]; simp
  have hcl : M2.loadSlot (a.length + 1) 0 = .ok (.ptr (a.length + 2) 0) := by
    have := loadSlot_of (i := 0) (v := .ptr (a.length + 2) 0) hM2c rfl (by simp) (by simp)
    simpa using this
  have hnn2 : exec fuel (.ite (.bin .eq (.load (.slot (.load (.var 3) .ptr) 0) .ptr) .null .i32) mfFree .skip)
      { mem := M2, loc := [.ptr pr 0, .ptr bu 0, .ptr be 0, .ptr (a.length + 1) 0, .undef] } =
      .normal { mem := M2, loc := [.ptr pr 0, .ptr bu 0, .ptr be 0, .ptr (a.length + 1) 0, .undef] } := by
    rw [exec_ite_false (st' := { mem := M2, loc := [.ptr pr 0, .ptr bu 0, .ptr be 0, .ptr (a.length + 1) 0, .undef] })
      (by simp [testOf, evalE, evalL, readPlace, hcl, binop, boolVal, truth, bind, Except.bind])]
    simp [exec]
  rw [exec_seq_normal hnn2]
  have w0 : wrapTo .u64 0 = 0 := by decide
  have hv4 : exec fuel (.expr (.assign (.var 4) (.cast .u64 (.lit 0 .i32)) .u64))
      { mem := M2, loc := [.ptr pr 0, .ptr bu 0, .ptr be 0, .ptr (a.length + 1) 0, .undef] } =
      .normal { mem := M2, loc := [.ptr pr 0, .ptr bu 0, .ptr be 0, .ptr (a.length + 1) 0, .int 0] } := by
    simp [exec, evalE, evalL, writePlace, convert, w0, bind, Except.bind]
  rw [exec_seq_normal hv4, hM2d, halen]


/-- **`econf_mergeFiles`** on the generated term, both files present: error code 0; the cell `*merged_file` points at a new object (block
    `m.length`) whose entry array holds exactly the model's `mergeEntries us es`, whose `length` and `alloc_length` are their number, whose
    delimiter and comment are those of the base `usr_file`, whose path is NULL and whose group list is the model's `groupsOf`; every block
    of the caller other than the cell is unchanged. -/
theorem C_econf_mergeFiles (m : Mem) (pr bu bua be bea : Nat) (us es : List Econf.Entry) (dl cm : Int)
    (pblk : Block) (hp1 : m[pr]? = some pblk) (hp2 : pblk.live = true) (hp3 : pblk.writable = true) (hp4 : 0 < pblk.slots.length)
    (hUs : SrcMem m bu bua us [pr]) (hEs : SrcMem m be bea es [pr])
    (hdl : m.loadSlot bu 3 = .ok (.int dl)) (hdlr : -128 ≤ dl ∧ dl < 128)
    (hcm : m.loadSlot bu 4 = .ok (.int cm)) (hcmr : -128 ≤ cm ∧ cm < 128)
    (hsmall : (us.length : Int) + 2 * es.length + 2 < 2147483648)
    (hlines : ∀ e ∈ es, (e.line : Int) < 18446744073709551616) (hulines : ∀ e ∈ us, (e.line : Int) < 18446744073709551616)
    (fuel : Nat) (hf : 2 * es.length + 2 * us.length + 4 < fuel) :
    ∃ m' loc' fa' bl' gl' kb,
      exec fuel LeafFns.econf_mergeFiles.body { mem := m, loc := [.ptr pr 0, .ptr bu 0, .ptr be 0, .undef, .undef] } =
        .ret (.int 0) { mem := m', loc := loc' } ∧
      m'[pr]? = some (mfCell pblk m.length) ∧
      m'[m.length]? = some kb ∧ kb.live = true ∧ kb.slots.length = 16 ∧
      kb.slots[0]? = some (.ptr fa' 0) ∧ kb.slots[1]? = some (.int (Econf.mergeEntries us es).length) ∧
      kb.slots[2]? = some (.int (Econf.mergeEntries us es).length) ∧
      kb.slots[3]? = some (.int dl) ∧ kb.slots[4]? = some (.int cm) ∧ kb.slots[6]? = some .null ∧
      (∀ i, 3 ≤ i → i ≠ 13 → i ≠ 14 → kb.slots[i]? = (mfSlots dl cm)[i]?) ∧
      GlMem m' m.length bl' gl' ∧ gl'.map (·.2) = Econf.groupsOf (Econf.mergeEntries us es) ∧
      (∀ j (h : j < (Econf.mergeEntries us es).length), EntMem m' fa' (7 * j) ((Econf.mergeEntries us es)[j]) [m.length, bl']) ∧
      (∀ b, b < m.length → b ≠ pr → m'[b]? = m[b]?) := by
  have hprlt : pr < m.length := (List.getElem?_eq_some_iff.1 hp1).1
  rw [mf_prefix fuel (by omega) m pr bu bua be bea us es dl cm pblk hp1 hp2 hp3 hp4 hUs hEs hdl hdlr hcm hcmr (by omega)]
  -- the memory before the three calls
  obtain ⟨M0, hM0⟩ : ∃ M0 : Mem, M0 = mfMem0 m pr pblk dl cm (es.length + us.length) := ⟨_, rfl⟩
  rw [← hM0]
  obtain ⟨L, hL⟩ : ∃ L, L = m.length := ⟨_, rfl⟩
  rw [← hL] at hprlt ⊢
  have hM0len : M0.length = L + 3 := by rw [hM0, hL]; simp [mfMem0]
  have hM0bd : M0[L]? = some (Kof (mfSlots dl cm)) := by rw [hM0, hL]; simp [mfMem0]
  have hM0c : M0[L + 1]? = some (Kof [.ptr (L + 2) 0]) := by rw [hM0, hL]; simp [mfMem0]
  have hM0a : M0[L + 2]? = some (Kof (List.replicate (7 * (es.length + us.length)) .undef)) := by rw [hM0, hL]; simp [mfMem0]
  have hM0lo : ∀ b, b < L → M0[b]? = (m.set pr (mfCell pblk L))[b]? := by
    intro b hb
    rw [hM0, hL]; unfold mfMem0
    rw [List.append_assoc, List.append_assoc, List.getElem?_append_left (by simp; omega)]
  have hM0pr : M0[pr]? = some (mfCell pblk L) := by rw [hM0lo pr hprlt]; simp [hL ▸ hprlt]
  have hM0old : ∀ b, b < L → b ≠ pr → M0[b]? = m[b]? := fun b hb hne => by rw [hM0lo b hb]; exact set_other hne
  -- the three calls
  have htr : ∀ b, b < m.length → b ∉ [pr] → M0[b]? = m[b]? := fun b hb hav => hM0old b (hL ▸ hb) (by simpa using hav)
  have hav : ∀ b, b < m.length → b ∉ [pr] → b ∉ [L, L + 2] := by
    intro b hb _
    simp only [List.mem_cons, List.not_mem_nil, or_false, not_or]
    omega
  have hb := Econf.C03_bound us es
  obtain ⟨m1, m2, m3, loc1, loc2, loc3, bl', gl', fa', n1, n2, h1, h2, h3, hG3, hn, ⟨cblk', hc1, hc2, hc3⟩, hE, hfr, hn1, hn2, hkeep, hne3, hd3, hfr1, hfr2⟩ :=
    C_merge3_fresh M0 L (L + 2) (L + 1) bu bua be bea us es (hUs.transfer htr hav) (hEs.transfer htr hav)
      (Kof [.ptr (L + 2) 0]) hM0c rfl rfl rfl rfl (by simp) (by omega) ⟨_, hM0bd, rfl, rfl, rfl⟩
      (fun blk hb => by rw [hM0bd] at hb; injection hb with hb; subst hb; rfl)
      (Kof (List.replicate (7 * (es.length + us.length)) .undef)) hM0a rfl rfl rfl (by simp) hsmall hlines hulines fuel hf
  subst hn1
  subst hn2
  have hE123 : (Econf.mergeEntries us es).length = (Econf.insertNoGroup us es).length + (Econf.mergeExisting us es).length + (Econf.addNewGroups us es).length := by
    simp [Econf.mergeEntries]; omega
  -- the cell `*merged_file` stays what it is through the calls
  have hprav : pr ∉ [L, L + 2] := by simp only [List.mem_cons, List.not_mem_nil, or_false, not_or]; omega
  have hpr1 : m1[pr]? = M0[pr]? := hfr1 pr (by omega) hprav
  have hpr2 : m2[pr]? = M0[pr]? := hfr2 pr (by omega) hprav
  have hpr3 : m3[pr]? = M0[pr]? := hfr pr (by omega) (by simp only [List.mem_cons, List.not_mem_nil, or_false, not_or]; omega)
  have hcell0 : (mfCell pblk L).slots[0]? = some (.ptr L 0) := by simp [mfCell, List.getElem?_set, hp4]
  have hlp : ∀ mm : Mem, mm[pr]? = M0[pr]? → mm.loadSlot pr 0 = .ok (.ptr L 0) := by
    intro mm hmm
    have := loadSlot_of (i := 0) (v := .ptr L 0) (hmm.trans hM0pr) hp2 hcell0 (by simp)
    simpa using this
  have hobj : ∀ (mm : Mem) (loc : List Val), mm[pr]? = M0[pr]? → loc[0]? = some (.ptr pr 0) →
      evalE mfObj { mem := mm, loc := loc } = .ok (.ptr L 0, { mem := mm, loc := loc }) := by
    intro mm loc hmm hl0
    simp [mfObj, evalE, evalL, readPlace, hl0, hlp mm hmm, bind, Except.bind]
  have hargs4 : evalArgs mfArgs4 { mem := M0, loc := [.ptr pr 0, .ptr bu 0, .ptr be 0, .ptr (L + 1) 0, .int 0] } =
      .ok ([.ptr L 0, .ptr (L + 1) 0, .ptr bu 0, .ptr be 0], { mem := M0, loc := [.ptr pr 0, .ptr bu 0, .ptr be 0, .ptr (L + 1) 0, .int 0] }) := by
    have ho := hobj M0 [.ptr pr 0, .ptr bu 0, .ptr be 0, .ptr (L + 1) 0, .int 0] rfl rfl
    unfold mfArgs4
    generalize mfObj = O at ho ⊢
    simp [evalArgs, ho, evalE, evalL, readPlace, bind, Except.bind]
  have hargs5 : ∀ (mm : Mem) (v4 : Int), mm[pr]? = M0[pr]? →
      evalArgs mfArgs5 { mem := mm, loc := [.ptr pr 0, .ptr bu 0, .ptr be 0, .ptr (L + 1) 0, .int v4] } =
      .ok ([.ptr L 0, .ptr (L + 1) 0, .ptr bu 0, .ptr be 0, .int v4], { mem := mm, loc := [.ptr pr 0, .ptr bu 0, .ptr be 0, .ptr (L + 1) 0, .int v4] }) := by
    intro mm v4 hmm
    have ho := hobj mm [.ptr pr 0, .ptr bu 0, .ptr be 0, .ptr (L + 1) 0, .int v4] hmm rfl
    unfold mfArgs5
    generalize mfObj = O at ho ⊢
    simp [evalArgs, ho, evalE, evalL, readPlace, bind, Except.bind]
  have hcv : ∀ n : Int, 0 ≤ n → n ≤ ((Econf.mergeEntries us es).length : Int) → convert .u64 (.int n) = .ok (.int n) := by
    intro n h0 hn
    have : wrapTo .u64 n = n := wrapTo_u64_small _ h0 (by omega)
    simp [convert, this]
  have hi1 := exec_inl_val (fuel := fuel) (nl := 9) (body := LeafFns.insert_nogroup.body) (i := 4) (dty := .u64) (v := .int ((Econf.insertNoGroup us es).length : Int)) (v' := .int ((Econf.insertNoGroup us es).length : Int))
    (st' := { mem := m1, loc := loc1 }) hargs4 (by simpa using h1) (hcv _ (by omega) (by omega)) (by simp)
  have hi2 := exec_inl_val (fuel := fuel) (nl := 15) (body := LeafFns.merge_existing_groups.body) (i := 4) (dty := .u64) (v := .int (((Econf.insertNoGroup us es).length : Int) + ((Econf.mergeExisting us es).length : Int))) (v' := .int (((Econf.insertNoGroup us es).length : Int) + ((Econf.mergeExisting us es).length : Int)))
    (st' := { mem := m2, loc := loc2 }) (hargs5 m1 _ hpr1) (by simpa using h2) (hcv _ (by omega) (by omega)) (by simp)
  have hi3 := exec_inl_val (fuel := fuel) (nl := 10) (body := LeafFns.add_new_groups.body) (i := 4) (dty := .u64) (v := .int ((Econf.mergeEntries us es).length : Int)) (v' := .int ((Econf.mergeEntries us es).length : Int))
    (st' := { mem := m3, loc := loc3 }) (hargs5 m2 _ hpr2) (by simpa using h3) (hcv _ (by omega) (Int.le_refl _)) (by simp)
  simp only [List.set_cons_succ, List.set_cons_zero] at hi1 hi2 hi3
  unfold mfMerge
  rw [exec_seq_normal hi1, exec_seq_normal hi2, exec_seq_normal hi3]
  -- the object after the calls: everything but `groups` and `group_count` as it was set up
  obtain ⟨kb3, hk3, hk3l, _, _⟩ := hG3.obj
  obtain ⟨kw, kc, klen, kother⟩ := hkeep _ kb3 hM0bd hk3
  have klen' : kb3.slots.length = 16 := by rw [klen]; rfl
  have hLlt3 : L < m3.length := (List.getElem?_eq_some_iff.1 hk3).1
  have hLpr : L ≠ pr := by omega
  -- `length`, `alloc_length`, `file_entry`
  have hv4 : ∀ mm : Mem, evalE (.load (.var 4) .u64) { mem := mm, loc := [.ptr pr 0, .ptr bu 0, .ptr be 0, .ptr (L + 1) 0, .int ((Econf.mergeEntries us es).length : Int)] } =
      .ok (.int ((Econf.mergeEntries us es).length : Int), { mem := mm, loc := [.ptr pr 0, .ptr bu 0, .ptr be 0, .ptr (L + 1) 0, .int ((Econf.mergeEntries us es).length : Int)] }) := by
    intro mm; simp [evalE, evalL, readPlace, bind, Except.bind]
  have hcn : convert .u64 (.int ((Econf.mergeEntries us es).length : Int)) = .ok (.int ((Econf.mergeEntries us es).length : Int)) := hcv _ (by omega) (by omega)
  obtain ⟨m4, hm4⟩ : ∃ m4 : Mem, m4 = m3.set L { kb3 with slots := kb3.slots.set 1 (.int ((Econf.mergeEntries us es).length : Int)) } := ⟨_, rfl⟩
  have hs1 := mf_set_at fuel m3 [.ptr pr 0, .ptr bu 0, .ptr be 0, .ptr (L + 1) 0, .int ((Econf.mergeEntries us es).length : Int)] pr L 1 kb3 (.load (.var 4) .u64) .u64 (.int ((Econf.mergeEntries us es).length : Int)) (.int ((Econf.mergeEntries us es).length : Int))
    rfl (hlp m3 hpr3) hk3 hk3l kw (by omega) (hv4 m3) hcn (by simp)
  rw [← hm4] at hs1
  have hk4 : m4[L]? = some { kb3 with slots := kb3.slots.set 1 (.int ((Econf.mergeEntries us es).length : Int)) } := by rw [hm4]; simp [hLlt3]
  have ho4 : ∀ b, b ≠ L → m4[b]? = m3[b]? := fun b hb => by rw [hm4]; exact set_other hb
  have hlen4 : m4.length = m3.length := by rw [hm4]; simp
  obtain ⟨m5, hm5⟩ : ∃ m5 : Mem, m5 = m4.set L { kb3 with slots := (kb3.slots.set 1 (.int ((Econf.mergeEntries us es).length : Int))).set 2 (.int ((Econf.mergeEntries us es).length : Int)) } := ⟨_, rfl⟩
  have hs2 := mf_set_at fuel m4 [.ptr pr 0, .ptr bu 0, .ptr be 0, .ptr (L + 1) 0, .int ((Econf.mergeEntries us es).length : Int)] pr L 2 _ (.load (.var 4) .u64) .u64 (.int ((Econf.mergeEntries us es).length : Int)) (.int ((Econf.mergeEntries us es).length : Int))
    rfl (hlp m4 ((ho4 pr (Ne.symm hLpr)).trans hpr3)) hk4 hk3l kw (by simp; omega) (hv4 m4) hcn (by simp)
  rw [← hm5] at hs2
  have hk5 : m5[L]? = some { kb3 with slots := (kb3.slots.set 1 (.int ((Econf.mergeEntries us es).length : Int))).set 2 (.int ((Econf.mergeEntries us es).length : Int)) } := by rw [hm5]; simp [hlen4, hLlt3]
  have ho5 : ∀ b, b ≠ L → m5[b]? = m3[b]? := fun b hb => by rw [hm5, set_other hb]; exact ho4 b hb
  have hlen5 : m5.length = m3.length := by rw [hm5]; simp [hlen4]
  obtain ⟨m6, hm6⟩ : ∃ m6 : Mem, m6 = m5.set L { kb3 with slots := ((kb3.slots.set 1 (.int ((Econf.mergeEntries us es).length : Int))).set 2 (.int ((Econf.mergeEntries us es).length : Int))).set 0 (.ptr fa' 0) } := ⟨_, rfl⟩
  have hfe : evalE (.load (.slot (.load (.var 3) .ptr) 0) .ptr) { mem := m5, loc := [.ptr pr 0, .ptr bu 0, .ptr be 0, .ptr (L + 1) 0, .int ((Econf.mergeEntries us es).length : Int)] } =
      .ok (.ptr fa' 0, { mem := m5, loc := [.ptr pr 0, .ptr bu 0, .ptr be 0, .ptr (L + 1) 0, .int ((Econf.mergeEntries us es).length : Int)] }) := by
    have hc5 : m5[L + 1]? = some cblk' := by rw [ho5 (L + 1) (by omega)]; exact hc1
    have := loadSlot_of (i := 0) (v := .ptr fa' 0) hc5 hc2 hc3 (by simp)
    have hl : m5.loadSlot (L + 1) 0 = .ok (.ptr fa' 0) := by simpa using this
    simp [evalE, evalL, readPlace, hl, bind, Except.bind]
  have hs3 := mf_set_at fuel m5 [.ptr pr 0, .ptr bu 0, .ptr be 0, .ptr (L + 1) 0, .int ((Econf.mergeEntries us es).length : Int)] pr L 0 _ (.load (.slot (.load (.var 3) .ptr) 0) .ptr) .ptr (.ptr fa' 0) (.ptr fa' 0)
    rfl (hlp m5 ((ho5 pr (Ne.symm hLpr)).trans hpr3)) hk5 hk3l kw (by simp; omega) hfe (by simp [convert]) (by simp)
  rw [← hm6] at hs3
  have hk6 : m6[L]? = some { kb3 with slots := ((kb3.slots.set 1 (.int ((Econf.mergeEntries us es).length : Int))).set 2 (.int ((Econf.mergeEntries us es).length : Int))).set 0 (.ptr fa' 0) } := by rw [hm6]; simp [hlen5, hLlt3]
  have ho6 : ∀ b, b ≠ L → m6[b]? = m3[b]? := fun b hb => by rw [hm6, set_other hb]; exact ho5 b hb
  rw [exec_seq_normal hs1, exec_seq_normal hs2, exec_seq_normal hs3]
  have w0 : wrapTo .u32 0 = 0 := by decide
  have hG6 : GlMem m6 L bl' gl' := by
    have g4 := hG3.set_member hne3 hk3 1 (.int ((Econf.mergeEntries us es).length : Int)) (by decide) (by decide)
    rw [← hm4] at g4
    have g5 := g4.set_member hne3 hk4 2 (.int ((Econf.mergeEntries us es).length : Int)) (by decide) (by decide)
    rw [← hm5] at g5
    have g6 := g5.set_member hne3 hk5 0 (.ptr fa' 0) (by decide) (by decide)
    rw [← hm6] at g6
    exact g6
  refine ⟨m6, [.ptr pr 0, .ptr bu 0, .ptr be 0, .ptr (L + 1) 0, .int ((Econf.mergeEntries us es).length : Int)], fa', bl', gl', _, by simp [exec, evalE, convert, w0, bind, Except.bind],
    by rw [ho6 pr (Ne.symm hLpr), hpr3]; exact hM0pr, hk6, hk3l, by simp [klen'], by simp [List.getElem?_set, klen'], ?_, ?_, ?_, ?_, ?_, ?_, hG6, hn, ?_, ?_⟩
  · simp [List.getElem?_set, klen']
  · simp [List.getElem?_set, klen']
  · show (((kb3.slots.set 1 (.int ((Econf.mergeEntries us es).length : Int))).set 2 (.int ((Econf.mergeEntries us es).length : Int))).set 0 (.ptr fa' 0))[3]? = _
    rw [List.getElem?_set_ne (by decide), List.getElem?_set_ne (by decide), List.getElem?_set_ne (by decide), kother 3 (by decide) (by decide)]; rfl
  · show (((kb3.slots.set 1 (.int ((Econf.mergeEntries us es).length : Int))).set 2 (.int ((Econf.mergeEntries us es).length : Int))).set 0 (.ptr fa' 0))[4]? = _
    rw [List.getElem?_set_ne (by decide), List.getElem?_set_ne (by decide), List.getElem?_set_ne (by decide), kother 4 (by decide) (by decide)]; rfl
  · show (((kb3.slots.set 1 (.int ((Econf.mergeEntries us es).length : Int))).set 2 (.int ((Econf.mergeEntries us es).length : Int))).set 0 (.ptr fa' 0))[6]? = _
    rw [List.getElem?_set_ne (by decide), List.getElem?_set_ne (by decide), List.getElem?_set_ne (by decide), kother 6 (by decide) (by decide)]; rfl
  · intro i h3 h13 h14
    show (((kb3.slots.set 1 (.int ((Econf.mergeEntries us es).length : Int))).set 2 (.int ((Econf.mergeEntries us es).length : Int))).set 0 (.ptr fa' 0))[i]? = _
    rw [List.getElem?_set_ne (by omega), List.getElem?_set_ne (by omega), List.getElem?_set_ne (by omega), kother i h13 h14]
  · intro j hj
    refine (hE j hj).mono (fun b hb hav => ho6 b ?_)
    simp only [List.mem_cons, List.not_mem_nil, or_false, not_or] at hav
    exact hav.1
  · intro b hb hne
    rw [ho6 b (by omega), hfr b (by omega) (by simp only [List.mem_cons, List.not_mem_nil, or_false, not_or]; omega)]
    exact hM0old b hb hne


end LeafKf

namespace LeafKf.Example

/-! The concrete memory of the earlier examples, with a caller's pointer variable `econf_file *merged` (block 20, not yet initialised)
    behind it: every hypothesis of `C_econf_mergeFiles` is met. -/

def memF : Mem := mem ++ [{ cells := [], slots := [.undef] }]

theorem memF_old : ∀ b, b < mem.length → b ∉ [0, 1, 3] → memF[b]? = mem[b]? := fun b hb _ => List.getElem?_append_left hb

theorem run_mergeFiles : ∃ m' loc' fa' bl' gl' kb,
    exec 20 LeafFns.econf_mergeFiles.body { mem := memF, loc := [.ptr 20 0, .ptr 4 0, .ptr 9 0, .undef, .undef] } = .ret (.int 0) { mem := m', loc := loc' } ∧
    m'[20]? = some { cells := [], slots := [.ptr 21 0] } ∧ m'[21]? = some kb ∧
    kb.slots[0]? = some (.ptr fa' 0) ∧ kb.slots[1]? = some (.int 3) ∧ kb.slots[2]? = some (.int 3) ∧ kb.slots[3]? = some (.int 61) ∧ kb.slots[4]? = some (.int 35) ∧
    GlMem m' 21 bl' gl' ∧ gl'.map (·.2) = [Econf.NONE, [65], [66]] ∧
    EntMem m' fa' 7 { group := [65], key := [107], value := some [49], cb := none, ca := none, line := 1, quotes := false } [21, bl'] := by
  have hav : ∀ b, b < mem.length → b ∉ [0, 1, 3] → b ∉ [20] := by
    intro b hb _
    have : mem.length = 20 := rfl
    simp only [List.mem_cons, List.not_mem_nil, or_false]
    omega
  obtain ⟨m', loc', fa', bl', gl', kb, hex, hp, hk, _, _, k0, k1, k2, k3, k4, _, _, hG, hn, hE, _⟩ :=
    C_econf_mergeFiles memF 20 4 5 9 10 us es 61 35 _ rfl rfl rfl (by decide) (base_full.transfer memF_old hav) (override_ok.transfer memF_old hav)
      rfl (by decide) rfl (by decide) (by decide)
      (fun e he => by simp [es] at he; rcases he with rfl | rfl | rfl <;> decide)
      (fun e he => by simp [us] at he; subst he; decide) 20 (by decide)
  have hlen : memF.length = 21 := rfl
  rw [hlen] at hp hk hG hE
  rw [model_merge] at k1 k2 hE
  have hg : Econf.groupsOf (Econf.mergeEntries us es) = [Econf.NONE, [65], [66]] := by rw [model_merge]; decide
  rw [hg] at hn
  exact ⟨m', loc', fa', bl', gl', kb, hex, hp, hk, k0, k1, k2, k3, k4, hG, hn, by simpa using hE 1 (by simp)⟩

end LeafKf.Example
