import Econf.Lemmas.LayeredLemmas

/-!
  C06 — every file passes the caller's check before use; one rejection yields nothing.

  `consultedPaths` is the list of all paths a layered read can consult, in processing order
  (main-file candidates from the highest layer down, then the drop-ins layer by layer in byte-wise
  name order).  For every tree, every parameter set and every callback `f`:
  * `C06_history_trace`: the callback is called with a sub-sequence of these paths, in this order;
    every file that is opened was accepted by the call directly before it (`traceOk`); after a
    rejecting call nothing follows; the call fails with the callback-failed code exactly when the
    last callback call rejected;
  * `C06_file`: per file, content reaches the result only through `[cb path, open path]`;
  * `C06_no_config` / `C06_no_history`: a failed read hands back no configuration / no history.
-/

set_option linter.unusedSimpArgs false

namespace Econf

/-- every path a history read may consult, in processing order -/
def consultedPaths (fs : FS) (dirs : List Str) (name : Str) (sfx : Str) (postfixes : List Str) : List Str :=
  (if name.isEmpty then [] else mainCandidates dirs name sfx) ++ dropinPaths fs dirs name sfx postfixes

def historyFailedCb : Except (Err × Bool) (List KeyFile) → Bool
  | .error (.parsingCallbackFailed, _) => true
  | _ => false

theorem C06_history_trace (fs : FS) (f : Nat → Str → Bool) (s : RdState) (dirs : List Str) (name : Str) (suffix : Option Str)
    (delim comment : Str) (join python : Bool) (confDirs : List Str) :
    let r := readHistory { fs := fs, cb := some f } s dirs (some name) suffix (some delim) comment join python confDirs
    let sfx := dotSuffix (some name) suffix
    let postfixes := if confDirs.isEmpty then [sfx ++ [0x2e, 0x64]] else confDirs
    SeqSpec fs f s r.1 (consultedPaths fs dirs name sfx postfixes) (historyFailedCb r.2) := by
  intro r sfx postfixes
  simp only [r, readHistory]
  by_cases hne : name.isEmpty = true
  · -- drop-ins only
    simp only [hne, if_true, consultedPaths, List.nil_append]
    have hseq := readSeq_spec fs f join python delim comment s (dropinPaths fs dirs name sfx postfixes)
    simp only at hseq
    cases hr : (readSeq { fs := fs, cb := some f } join python delim comment s (dropinPaths fs dirs name sfx postfixes)).2 with
    | error e =>
      rw [pair_eta _ _ hr]; rw [hr] at hseq
      simp only
      have : historyFailedCb (Except.error (e, true) : Except (Err × Bool) (List KeyFile)) = isCbFailed (Except.error e : Except Err (List KeyFile)) := by
        cases e <;> rfl
      rw [this]; exact hseq
    | ok drops =>
      rw [pair_eta _ _ hr]; rw [hr] at hseq
      simp only [Option.toList, List.nil_append]
      have hseq' := hseq
      simp only [isCbFailed] at hseq'
      by_cases hd : drops.isEmpty = true
      · simp only [hd, if_true, historyFailedCb]; exact hseq'
      · simp only [hd, if_false, historyFailedCb]; exact hseq'
  · have hne' : name.isEmpty = false := by simpa using hne
    simp only [hne', Bool.false_eq_true, if_false, consultedPaths]
    have hmain := readFirst_spec fs f join python delim comment s (mainCandidates dirs name sfx)
    simp only at hmain
    cases hm : (readFirst { fs := fs, cb := some f } join python delim comment s (mainCandidates dirs name sfx)).2 with
    | error e =>
      rw [pair_eta _ _ hm]; rw [hm] at hmain
      simp only
      have : historyFailedCb (Except.error (e, false) : Except (Err × Bool) (List KeyFile)) = isCbFailed (Except.error e : Except Err (Option KeyFile)) := by
        cases e <;> rfl
      rw [this]
      exact seqSpec_weaken _ _ _ _ _ _ _ hmain (List.sublist_append_left _ _)
    | ok main =>
      rw [pair_eta _ _ hm]; rw [hm] at hmain
      simp only
      have hmain' := hmain
      simp only [isCbFailed] at hmain'
      have hseq := readSeq_spec fs f join python delim comment
        (readFirst { fs := fs, cb := some f } join python delim comment s (mainCandidates dirs name sfx)).1
        (dropinPaths fs dirs name sfx postfixes)
      simp only at hseq
      have hcomb := seqSpec_trans fs f _ _ _ _ _ _ hmain' hseq
      cases hr : (readSeq { fs := fs, cb := some f } join python delim comment
          (readFirst { fs := fs, cb := some f } join python delim comment s (mainCandidates dirs name sfx)).1
          (dropinPaths fs dirs name sfx postfixes)).2 with
      | error e =>
        rw [pair_eta _ _ hr]; rw [hr] at hcomb
        simp only
        have : historyFailedCb (Except.error (e, true) : Except (Err × Bool) (List KeyFile)) = isCbFailed (Except.error e : Except Err (List KeyFile)) := by
          cases e <;> rfl
        rw [this]; exact hcomb
      | ok drops =>
        rw [pair_eta _ _ hr]; rw [hr] at hcomb
        simp only
        have hcomb' := hcomb
        simp only [isCbFailed] at hcomb'
        by_cases hd : (main.toList ++ drops).isEmpty = true
        · simp only [hd, if_true, historyFailedCb]; exact hcomb'
        · simp only [hd, if_false, historyFailedCb]; exact hcomb'

theorem ite_parseDirs (c : Prop) [Decidable c] (k : KeyFile) (d : List Str) :
    (if c then { k with parseDirs := d } else k).entries = k.entries ∧ (if c then { k with parseDirs := d } else k).groups = k.groups := by
  split <;> exact ⟨rfl, rfl⟩
theorem ite_confDirs (c : Prop) [Decidable c] (k : KeyFile) (d : List Str) :
    (if c then { k with confDirs := d } else k).entries = k.entries ∧ (if c then { k with confDirs := d } else k).groups = k.groups := by
  split <;> exact ⟨rfl, rfl⟩
theorem prepareConfig_entries (kf : KeyFile) (p u n : Option Str) :
    (prepareConfig kf p u n).1.entries = kf.entries ∧ (prepareConfig kf p u n).1.groups = kf.groups := by
  unfold prepareConfig
  simp only
  exact ⟨(ite_parseDirs _ _ _).1.trans (ite_confDirs _ _ _).1, (ite_parseDirs _ _ _).2.trans (ite_confDirs _ _ _).2⟩

/-- a failed layered read hands back no configuration: the caller's pointer is NULL, or still the
    caller's own object (whose entries the read did not touch) -/
theorem C06_no_config (ctx : RdCtx) (s : RdState) (slot : Option KeyFile)
    (project usrSubdir name suffix : Option Str) (delim : Option Str) (comment : Str) :
    let r := readConfig ctx s slot project usrSubdir name suffix delim comment
    r.2.1 ≠ .success →
      (slot = none ∧ r.2.2 = none) ∨ (∃ kf kf', slot = some kf ∧ r.2.2 = some kf' ∧ kf'.entries = kf.entries ∧ kf'.groups = kf.groups) := by
  intro r hne
  simp only [r] at hne ⊢
  unfold readConfig at hne ⊢
  simp only at hne ⊢
  split at hne
  · exact absurd rfl hne
  · rename_i e heq
    simp only [heq]
    cases slot with
    | none => left; exact ⟨rfl, rfl⟩
    | some kf =>
      right
      exact ⟨kf, _, rfl, rfl, (prepareConfig_entries kf _ _ _).1, (prepareConfig_entries kf _ _ _).2⟩

/-- the two-directory read hands back an object without any entry after a failure -/
theorem C06_no_config_dirs (ctx : RdCtx) (s : RdState) (usr etc name suffix : Option Str) (delim : Option Str) (comment : Str) :
    let r := readDirs ctx s usr etc name suffix delim comment
    r.2.1 ≠ .success → ∃ kf, r.2.2 = some kf ∧ kf.entries = [] := by
  intro r hne
  simp only [r] at hne ⊢
  unfold readDirs at hne ⊢
  simp only at hne ⊢
  split at hne
  · exact absurd rfl hne
  · rename_i e heq
    simp only [heq]
    exact ⟨_, rfl, rfl⟩

/-- a failed history read hands back no history (the result carries an error, never a list) -/
theorem C06_no_history (ctx : RdCtx) (s : RdState) (usr etc name suffix : Option Str) (delim : Option Str) (comment : Str)
    (e : Err) (b : Bool) (h : (readDirsHistory ctx s usr etc name suffix delim comment).2 = .error (e, b)) :
    ∀ l, (readDirsHistory ctx s usr etc name suffix delim comment).2 ≠ .ok l := by
  intro l hl; rw [h] at hl; cases hl

/-- non-vacuity: a tree with a main file and two drop-ins, the callback rejecting the second call -/
example :
    let fs : FS := (((({} : FS).add [0x2f,0x65,0x2f,0x63,0x2e,0x78] (.file [0x61,0x3d,0x31,0x0a] 0 0)).add
      [0x2f,0x65,0x2f,0x63,0x2e,0x78,0x2e,0x64,0x2f,0x31,0x2e,0x78] (.file [0x62,0x3d,0x31,0x0a] 0 0)).add
      [0x2f,0x65,0x2f,0x63,0x2e,0x78,0x2e,0x64,0x2f,0x32,0x2e,0x78] (.file [0x63,0x3d,0x31,0x0a] 0 0))
    let r := readHistory { fs := fs, cb := some (fun k _ => k != 1) } { g := {} } [[0x2f,0x65]] (some [0x63]) (some [0x78]) (some [0x3d]) [0x23] false false []
    cbPaths r.1.trace = [[0x2f,0x65,0x2f,0x63,0x2e,0x78], [0x2f,0x65,0x2f,0x63,0x2e,0x78,0x2e,0x64,0x2f,0x31,0x2e,0x78]] ∧
    historyFailedCb r.2 = true ∧ r.1.trace.length = 3 := by decide

end Econf
