import Econf.Props.LeafAddNew
open MiniC Leaf LeafKf
set_option linter.unusedSimpArgs false
set_option linter.unusedVariables false
namespace LeafKf

/-! ## `merge_existing_groups` -/

theorem loop_brk (test : St → R (Bool × St)) (body : St → Outcome) (step : St → R St) :
    ∀ (n : Nat) (P : Nat → St) (R : St),
    (∀ i, i < n → test (P i) = .ok (true, P i) ∧ ∃ Q, (body (P i) = .normal Q ∨ body (P i) = .cont Q) ∧ step Q = .ok (P (i + 1))) →
    test (P n) = .ok (true, P n) → body (P n) = .brk R → ∀ fuel, n < fuel → loop test body step fuel (P 0) = .normal R := by
  intro n
  induction n with
  | zero =>
    intro P R _ ht hb fuel hf
    obtain ⟨f, rfl⟩ : ∃ f, fuel = f + 1 := ⟨fuel - 1, by omega⟩
    simp [loop, ht, hb]
  | succ n ih =>
    intro P R hstep ht hb fuel hf
    obtain ⟨f, rfl⟩ : ∃ f, fuel = f + 1 := ⟨fuel - 1, by omega⟩
    obtain ⟨ht0, Q, hb0, hs⟩ := hstep 0 (by omega)
    have := ih (fun i => P (i + 1)) R (fun i hi => hstep (i + 1) (by omega)) ht hb f (by omega)
    rcases hb0 with hb0 | hb0 <;> simp [loop, ht0, hb0, hs, this]

/-- the address of entry `i` of the array of the object in variable `vk`, the counter in variable `vi` -/
theorem kf_src (vk vi : Nat) (mm : Mem) (loc : List Val) (be bea : Nat) (es : List Econf.Entry) (av : List Nat) (i : Nat)
    (hS : SrcMem mm be bea es av) (hi : i ≤ es.length) (hlk : loc[vk]? = some (.ptr be 0)) (hlv : loc[vi]? = some (.int (i : Int))) :
    evalE (.sidx (.load (.slot (.load (.var vk) .ptr) 0) .ptr) (.load (.var vi) .u64) 7) { mem := mm, loc := loc } =
      .ok (.ptr bea (((7 * i : Nat)) : Int), { mem := mm, loc := loc }) := by
  obtain ⟨kb, k1, k2, k3, k4⟩ := hS.kf
  obtain ⟨ab, a1, a2, a3⟩ := hS.arr
  have hl0 : mm.loadSlot be 0 = .ok (.ptr bea 0) := by simpa using loadSlot_of (i := 0) k1 k2 k3 (by simp)
  have hsx : slotAdd mm bea 0 ((i : Int) * 7) = .ok (.ptr bea ((i : Int) * 7)) := by
    have : (0 : Int) ≤ (i : Int) * 7 ∧ (i : Int) * 7 ≤ (ab.slots.length : Int) := by rw [a3]; omega
    simp [slotAdd, Mem.block, a1, a2, this, bind, Except.bind]
  have e : (((7 * i : Nat)) : Int) = (i : Int) * 7 := by omega
  rw [e]
  exact evalE_sidx _ _ _ _ bea 0 (i : Int) 7 _ (by simp [evalE, evalL, readPlace, hlk, hl0, bind, Except.bind])
    (by simp [evalE, evalL, readPlace, hlv, bind, Except.bind]) (by simpa using hsx)

/-- a pointer member (`group` 0, `key` 1) of entry `i` -/
theorem kf_member (vk vi : Nat) (mm : Mem) (loc : List Val) (be bea : Nat) (es : List Econf.Entry) (av : List Nat) (i : Nat) (k : Nat) (w : Val)
    (hS : SrcMem mm be bea es av) (hi : i < es.length) (hlk : loc[vk]? = some (.ptr be 0)) (hlv : loc[vi]? = some (.int (i : Int)))
    (hw : mm.loadSlot bea (((7 * i : Nat) : Int) + (k : Int)) = .ok w) (hwu : w ≠ .undef) :
    evalE (.load (.slot (.sidx (.load (.slot (.load (.var vk) .ptr) 0) .ptr) (.load (.var vi) .u64) 7) k) .ptr) { mem := mm, loc := loc } =
        .ok (w, { mem := mm, loc := loc }) := by
  have hsrc := kf_src vk vi mm loc be bea es av i hS (Nat.le_of_lt hi) hlk hlv
  generalize (Expr.sidx (.load (.slot (.load (.var vk) .ptr) 0) .ptr) (.load (.var vi) .u64) 7) = S at hsrc ⊢
  simp only [evalE, evalL, hsrc, bind, Except.bind, readPlace, hw]

/-- `v++` on a `size_t` variable, any frame -/
theorem incdec_u64_var (v : Nat) (mm : Mem) (loc : List Val) (j : Nat) (hv : v < loc.length) (hj : (j : Int) + 1 < 18446744073709551616) :
    stepOf (some (.incdec (.var v) true true .u64)) { mem := mm, loc := loc.set v (.int (j : Int)) } =
      .ok { mem := mm, loc := loc.set v (.int ((j + 1 : Nat) : Int)) } := by
  have : wrapTo .u64 ((j : Int) + 1) = (j : Int) + 1 := wrapTo_u64_small _ (by omega) (by omega)
  simp [stepOf, evalE, evalL, readPlace, writePlace, binop, cmpInt, arith, Ty.signed, convert, this, hv, bind, Except.bind, Except.map]

/-- `i < kf->length`, object in variable `vk`, counter in variable `vi` -/
theorem kf_test (vk vi : Nat) (mm : Mem) (loc : List Val) (be bea : Nat) (es : List Econf.Entry) (av : List Nat) (i : Nat)
    (hS : SrcMem mm be bea es av) (hlk : loc[vk]? = some (.ptr be 0)) (hlv : loc[vi]? = some (.int (i : Int))) :
    testOf (some (.bin .lt (.load (.var vi) .u64) (.load (.slot (.load (.var vk) .ptr) 1) .u64) .i32)) { mem := mm, loc := loc } =
      .ok (decide (i < es.length), { mem := mm, loc := loc }) := by
  obtain ⟨kb, k1, k2, k3, k4⟩ := hS.kf
  have hl1 : mm.loadSlot be 1 = .ok (.int es.length) := by simpa using loadSlot_of (i := 1) k1 k2 k4 (by simp)
  by_cases h : i < es.length
  · have : (i : Int) < (es.length : Int) := by omega
    simp [testOf, evalE, evalL, readPlace, hlk, hlv, hl1, binop, cmpInt, boolVal, truth, this, h, bind, Except.bind]
  · have : ¬ (i : Int) < (es.length : Int) := by omega
    simp [testOf, evalE, evalL, readPlace, hlk, hlv, hl1, binop, cmpInt, boolVal, truth, this, h, bind, Except.bind]

/-- `!strcmp(kf->file_entry[i].group, group)` with the group name in variable `vg` -/
theorem kf_group_eq (vk vi vg : Nat) (mm : Mem) (loc : List Val) (be bea bg : Nat) (es : List Econf.Entry) (av : List Nat) (i : Nat) (g : List UInt8)
    (hS : SrcMem mm be bea es av) (hi : i < es.length) (hlk : loc[vk]? = some (.ptr be 0)) (hlv : loc[vi]? = some (.int (i : Int)))
    (hlg : loc[vg]? = some (.ptr bg 0)) (hg : mm.cstr bg 0 = .ok g) :
    testOf (some (.un .lnot (.call "strcmp" (.cons (.load (.slot (.sidx (.load (.slot (.load (.var vk) .ptr) 0) .ptr) (.load (.var vi) .u64) 7) 0) .ptr)
        (.cons (.load (.var vg) .ptr) .nil))) .i32)) { mem := mm, loc := loc } =
      .ok (decide ((es[i]).group = g), { mem := mm, loc := loc }) := by
  obtain ⟨b1, g1, g2, _⟩ := (hS.ents i hi).grp
  have hld := kf_member vk vi mm loc be bea es av i 0 (.ptr b1 0) hS hi hlk hlv (by simpa using g1) (by simp)
  have z1 := cstr_nz g2
  have z2 := cstr_nz hg
  generalize (Expr.load (.slot (.sidx (.load (.slot (.load (.var vk) .ptr) 0) .ptr) (.load (.var vi) .u64) 7) 0) .ptr) = G at hld ⊢
  have hargs : evalArgs (.cons G (.cons (.load (.var vg) .ptr) .nil)) { mem := mm, loc := loc } = .ok ([.ptr b1 0, .ptr bg 0], { mem := mm, loc := loc }) := by
    have h2 : evalE (.load (.var vg) .ptr) { mem := mm, loc := loc } = .ok (.ptr bg 0, { mem := mm, loc := loc }) := by
      simp [evalE, evalL, readPlace, hlg, bind, Except.bind]
    simp only [evalArgs, hld, h2, bind, Except.bind]
  by_cases hq : (es[i]).group = g
  · have q1 : cmpBytes (es[i]).group g = 0 := (cmpBytes_eq_zero _ _ z1 z2).2 hq
    simp only [testOf, evalE, hargs, bind, Except.bind, builtin, g2, hg, q1, unop, truth, Except.map, boolVal]
    simp [hq]
  · have q1 : cmpBytes (es[i]).group g ≠ 0 := fun hh => hq ((cmpBytes_eq_zero _ _ z1 z2).1 hh)
    simp only [testOf, evalE, hargs, bind, Except.bind, builtin, g2, hg, unop, truth, Except.map, boolVal]
    simp [q1, hq]

def meLastTest : Expr := .bin .lt (.load (.var 11) .u64) (.load (.slot (.load (.var 2) .ptr) 1) .u64) .i32
def meLastBody : Stmt := .ite (.un .lnot (.call "strcmp" (.cons (.load (.slot (.sidx (.load (.slot (.load (.var 2) .ptr) 0) .ptr) (.load (.var 11) .u64) 7) 0) .ptr)
    (.cons (.load (.var 7) .ptr) .nil))) .i32) (.seq (.expr (.assign (.var 8) (.cast .bool (.lit 0 .i32)) .bool)) .brk) .skip
def meLastLoop : Stmt := .for (some meLastTest) (some (.incdec (.var 11) true true .u64)) meLastBody

/-- the search for a later entry of the same group: `last_of_group` is cleared iff the rest of the base has the group -/
theorem me_last (fuel : Nat) (mm : Mem) (loc : List Val) (bu bua bg : Nat) (us : List Econf.Entry) (av : List Nat) (g : List UInt8) (i : Nat)
    (hS : SrcMem mm bu bua us av) (hl2 : loc[2]? = some (.ptr bu 0)) (hl7 : loc[7]? = some (.ptr bg 0)) (hg : mm.cstr bg 0 = .ok g)
    (hlen : 12 ≤ loc.length) (hi : i < us.length) (hsmall : (us.length : Int) + 1 < 18446744073709551616) (hf : us.length < fuel) :
    ∃ k, exec fuel meLastLoop { mem := mm, loc := loc.set 11 (.int ((i + 1 : Nat) : Int)) } =
      .normal { mem := mm, loc := if Econf.hasGroup (us.drop (i + 1)) g then (loc.set 11 (.int (k : Int))).set 8 (.int 0) else loc.set 11 (.int (k : Int)) } := by
  let P : Nat → St := fun idx => { mem := mm, loc := loc.set 11 (.int ((i + 1 + idx : Nat) : Int)) }
  have hP2 : ∀ idx, (P idx).loc[2]? = some (.ptr bu 0) := fun idx => by simp [P, List.getElem?_set, hl2]
  have hP7 : ∀ idx, (P idx).loc[7]? = some (.ptr bg 0) := fun idx => by simp [P, List.getElem?_set, hl7]
  have hP11 : ∀ idx, (P idx).loc[11]? = some (.int ((i + 1 + idx : Nat) : Int)) := fun idx => by
    simp only [P, List.getElem?_set]; simp; omega
  have htest : ∀ idx, testOf (some meLastTest) (P idx) = .ok (decide (i + 1 + idx < us.length), P idx) := fun idx =>
    kf_test 2 11 mm _ bu bua us av (i + 1 + idx) hS (hP2 idx) (hP11 idx)
  have hcond : ∀ idx (h : i + 1 + idx < us.length), testOf (some (.un .lnot (.call "strcmp" (.cons (.load (.slot (.sidx (.load (.slot (.load (.var 2) .ptr) 0) .ptr)
      (.load (.var 11) .u64) 7) 0) .ptr) (.cons (.load (.var 7) .ptr) .nil))) .i32)) (P idx) = .ok (decide ((us[i + 1 + idx]).group = g), P idx) := fun idx h =>
    kf_group_eq 2 11 7 mm _ bu bua bg us av (i + 1 + idx) g hS h (hP2 idx) (hP11 idx) (hP7 idx) hg
  have hstep : ∀ idx, i + 1 + idx < us.length → stepOf (some (.incdec (.var 11) true true .u64)) (P idx) = .ok (P (idx + 1)) := fun idx h => by
    have := incdec_u64_var 11 mm loc (i + 1 + idx) (by omega) (by omega)
    simpa [P, Nat.add_assoc] using this
  have htl : (us.drop (i + 1)).length = us.length - (i + 1) := by simp
  have hEl : (entsOf (us.drop (i + 1))).length = us.length - (i + 1) := by simp [entsOf]
  have hEget : ∀ idx (h : idx < us.length - (i + 1)), ((entsOf (us.drop (i + 1)))[idx]'(by rw [hEl]; exact h)).1 = (us[i + 1 + idx]'(by omega)).group := by
    intro idx h; simp [entsOf]
  have hfle := firstG_le (entsOf (us.drop (i + 1))) g
  have hmodel := firstG_model (us.drop (i + 1)) g
  have hmiss : ∀ idx, idx < firstG (entsOf (us.drop (i + 1))) g →
      testOf (some meLastTest) (P idx) = .ok (true, P idx) ∧
      ∃ Q, (exec fuel meLastBody (P idx) = .normal Q ∨ exec fuel meLastBody (P idx) = .cont Q) ∧ stepOf (some (.incdec (.var 11) true true .u64)) Q = .ok (P (idx + 1)) := by
    intro idx hidx
    have hlt : i + 1 + idx < us.length := by omega
    have hne := firstG_before (entsOf (us.drop (i + 1))) g idx hidx
    rw [hEget idx (by omega)] at hne
    refine ⟨by simpa [hlt] using htest idx, P idx, Or.inl ?_, hstep idx hlt⟩
    unfold meLastBody
    rw [exec_ite_false (by simpa [hne] using hcond idx hlt)]; simp [exec]
  unfold meLastLoop
  rw [exec_for]
  by_cases hfound : firstG (entsOf (us.drop (i + 1))) g < us.length - (i + 1)
  · -- a later entry of the group: `last_of_group = false; break`
    have hhas : Econf.hasGroup (us.drop (i + 1)) g = true := by rw [← hmodel, htl]; simpa using hfound
    have hlt : i + 1 + firstG (entsOf (us.drop (i + 1))) g < us.length := by omega
    have hat := firstG_at (entsOf (us.drop (i + 1))) g (by rw [hEl]; exact hfound)
    rw [hEget _ hfound] at hat
    refine ⟨i + 1 + firstG (entsOf (us.drop (i + 1))) g, ?_⟩
    rw [hhas]; simp only [if_true]
    have hbrk : exec fuel meLastBody (P (firstG (entsOf (us.drop (i + 1))) g)) =
        .brk { mem := mm, loc := (loc.set 11 (.int ((i + 1 + firstG (entsOf (us.drop (i + 1))) g : Nat) : Int))).set 8 (.int 0) } := by
      unfold meLastBody
      rw [exec_ite_true (by simpa [hat] using hcond _ hlt)]
      have hw : wrapTo .bool 0 = 0 := by decide
      have h8 : 8 < loc.length := by omega
      simp [exec, evalE, evalL, writePlace, convert, hw, h8, P, bind, Except.bind]
    have := loop_brk _ _ _ (firstG (entsOf (us.drop (i + 1))) g) P _ hmiss (by simpa [hlt] using htest (firstG (entsOf (us.drop (i + 1))) g)) hbrk fuel (by omega)
    simpa [P] using this
  · -- none: the loop runs to the end
    have hfe : firstG (entsOf (us.drop (i + 1))) g = us.length - (i + 1) := by omega
    have hhas : Econf.hasGroup (us.drop (i + 1)) g = false := by
      rw [← hmodel, htl, hfe]; simp
    refine ⟨us.length, ?_⟩
    rw [hhas]; simp only [Bool.false_eq_true, if_false]
    have hend : testOf (some meLastTest) (P (us.length - (i + 1))) = .ok (false, P (us.length - (i + 1))) := by
      have := htest (us.length - (i + 1))
      have hnot : ¬ (i + 1 + (us.length - (i + 1)) < us.length) := by omega
      simpa [hnot] using this
    have := loop_count _ _ _ (us.length - (i + 1)) P _ (fun idx hidx => hmiss idx (by omega)) hend fuel (by omega)
    have hP : P (us.length - (i + 1)) = { mem := mm, loc := loc.set 11 (.int (us.length : Int)) } := by
      simp only [P]; congr 3; omega
    rw [hP] at this
    simpa [P] using this

def meSrc : Expr := .sidx (.load (.slot (.load (.var 2) .ptr) 0) .ptr) (.load (.var 6) .u64) 7
def meDst : Expr := .sidx (.load (.slot (.load (.var 1) .ptr) 0) .ptr) (.load (.var 5) .u64) 7
def meEtc (v : Nat) : Expr := .sidx (.load (.slot (.load (.var 3) .ptr) 0) .ptr) (.load (.var v) .u64) 7
/-- `(*fe)[merge_length] = cpy_file_entry(dest_kf, uf->file_entry[i])` -/
def meCopy : Stmt := .seq (.inl (some (.var 9)) .ptr (.cons (.load (.var 0) .ptr) (.cons meSrc .nil)) 3 LeafFns.cpy_file_entry.body)
  (.expr (.call "copy_words" (.cons meDst (.cons (.load (.var 9) .ptr) (.cons (.lit 7 .u64) .nil)))))
/-- `if (j < ef->length) { free(copy.value); copy.value = ef[j].value ? strdup(ef[j].value) : strdup(""); }` -/
def meOverride : Stmt := .ite (.bin .lt (.load (.var 10) .u64) (.load (.slot (.load (.var 3) .ptr) 1) .u64) .i32)
  (.seq (.expr (.call "free" (.cons (.load (.slot meDst 2) .ptr) .nil)))
    (.expr (.assign (.slot meDst 2) (.cond (.load (.slot (meEtc 10) 2) .ptr) (.call "strdup" (.cons (.load (.slot (meEtc 10) 2) .ptr) .nil))
      (.call "strdup" (.cons (.strlit []) .nil))) .ptr))) .skip
/-- the keys of this group that only the override defines -/
def meNewKeys : Stmt := .for (some (.bin .lt (.load (.var 10) .u64) (.load (.slot (.load (.var 3) .ptr) 1) .u64) .i32)) (some (.incdec (.var 10) true true .u64))
  (.ite (.un .lnot (.call "strcmp" (.cons (.load (.slot (meEtc 10) 0) .ptr) (.cons (.load (.var 7) .ptr) .nil))) .i32)
    (.seq (.inl (some (.var 14)) .bool (.cons (.load (.var 3) .ptr) (.cons (.load (.var 10) .u64) .nil)) 3 LeafFns.first_definition.body)
      (.ite (.cast .i32 (.load (.var 14) .bool))
        (.seq (.inl (some (.var 13)) .u64 (.cons (.load (.var 2) .ptr) (.cons (.load (.var 7) .ptr) (.cons (.load (.slot (meEtc 10) 1) .ptr) .nil))) 4 LeafFns.first_entry.body)
          (.ite (.bin .eq (.load (.var 13) .u64) (.load (.slot (.load (.var 2) .ptr) 1) .u64) .i32)
            (.seq (.inl (some (.var 12)) .ptr (.cons (.load (.var 0) .ptr) (.cons (meEtc 10) .nil)) 3 LeafFns.cpy_file_entry.body)
              (.expr (.call "copy_words" (.cons (.sidx (.load (.slot (.load (.var 1) .ptr) 0) .ptr) (.incdec (.var 5) true true .u64) 7)
                (.cons (.load (.var 12) .ptr) (.cons (.lit 7 .u64) .nil)))))) .skip)) .skip)) .skip)
/-- one round of the outer loop -/
def meRound : Stmt :=
  .seq (.expr (.assign (.var 7) (.load (.slot meSrc 0) .ptr) .ptr))
  (.seq (.expr (.assign (.var 8) (.cast .bool (.lit 1 .i32)) .bool))
  (.seq (.inl (some (.var 9)) .ptr (.cons (.load (.var 0) .ptr) (.cons meSrc .nil)) 3 LeafFns.cpy_file_entry.body)
  (.seq (.expr (.call "copy_words" (.cons meDst (.cons (.load (.var 9) .ptr) (.cons (.lit 7 .u64) .nil)))))
  (.seq (.inl (some (.var 10)) .u64 (.cons (.load (.var 3) .ptr) (.cons (.load (.var 7) .ptr) (.cons (.load (.slot meSrc 1) .ptr) .nil))) 4 LeafFns.first_entry.body)
  (.seq meOverride
  (.seq (.expr (.incdec (.var 5) true true .u64))
  (.seq (.expr (.assign (.var 11) (.bin .add (.load (.var 6) .u64) (.cast .u64 (.lit 1 .i32)) .u64) .u64))
  (.seq meLastLoop
  (.seq (.ite (.un .lnot (.load (.var 8) .bool) .i32) .cont .skip)
  (.seq (.expr (.assign (.var 10) (.cast .u64 (.lit 0 .i32)) .u64)) meNewKeys))))))))))

/-- `(a; b); c` runs like `a; (b; c)` -/
theorem exec_seq_assoc (fuel : Nat) (a b c : Stmt) (st : St) : exec fuel (.seq a (.seq b c)) st = exec fuel (.seq (.seq a b) c) st := by
  simp only [exec]
  cases exec fuel a st <;> simp

/-- the generated `merge_existing_groups` is these pieces (so `me_last` is about a part of it) -/
theorem merge_existing_groups_shape : LeafFns.merge_existing_groups.body =
    .seq (.expr (.assign (.var 5) (.load (.var 4) .u64) .u64))
      (.seq (.ite (.land (.load (.var 2) .ptr) (.load (.var 3) .ptr))
          (.seq (.expr (.assign (.var 6) (.cast .u64 (.lit 0 .i32)) .u64))
            (.for (some (.bin .lt (.load (.var 6) .u64) (.load (.slot (.load (.var 2) .ptr) 1) .u64) .i32)) (some (.incdec (.var 6) true true .u64)) meRound)) .skip)
        (.ret (some (.load (.var 5) .u64)))) := rfl

/-- `insert_nogroup` without a base or without an override: nothing is read or written, 0 is returned -/
theorem insert_nogroup_null (fuel : Nat) (m : Mem) (a0 a1 a2 a3 : Val) (h : a2 = .null ∨ (∃ b, a2 = .ptr b 0) ∧ a3 = .null) :
    exec fuel LeafFns.insert_nogroup.body { mem := m, loc := [a0, a1, a2, a3, .undef, .undef, .undef, .undef, .undef] } =
      .ret (.int 0) { mem := m, loc := [a0, a1, a2, a3, .int 0, .undef, .undef, .undef, .undef] } := by
  have w0 : wrapTo .u64 0 = 0 := wrapTo_u64_small 0 (by decide) (by decide)
  rw [insert_nogroup_shape]
  rcases h with rfl | ⟨⟨b, rfl⟩, rfl⟩ <;>
    simp [exec, testOf, evalE, evalL, readPlace, writePlace, convert, w0, truth, bind, Except.bind, Except.map]

/-- `add_new_groups` without a base or without an override: the count handed in is returned, the array is not touched
    (not even cut to size) -/
theorem add_new_groups_null (fuel : Nat) (m : Mem) (a0 a1 a2 a3 : Val) (start : Nat) (hs : (start : Int) < 18446744073709551616)
    (h : a2 = .null ∨ (∃ b, a2 = .ptr b 0) ∧ a3 = .null) :
    exec fuel LeafFns.add_new_groups.body { mem := m, loc := [a0, a1, a2, a3, .int (start : Int), .undef, .undef, .undef, .undef, .undef] } =
      .ret (.int (start : Int)) { mem := m, loc := [a0, a1, a2, a3, .int (start : Int), .int (start : Int), .undef, .undef, .undef, .undef] } := by
  have wS : wrapTo .u64 (start : Int) = (start : Int) := wrapTo_u64_small _ (by omega) hs
  rw [add_new_groups_shape]
  rcases h with rfl | ⟨⟨b, rfl⟩, rfl⟩ <;>
    simp [exec, testOf, evalE, evalL, readPlace, writePlace, convert, wS, truth, boolVal, bind, Except.bind, Except.map]

/-- `merge_existing_groups` without a base or without an override: likewise -/
theorem merge_existing_groups_null (fuel : Nat) (m : Mem) (a0 a1 a2 a3 : Val) (start : Nat) (hs : (start : Int) < 18446744073709551616)
    (h : a2 = .null ∨ (∃ b, a2 = .ptr b 0) ∧ a3 = .null) :
    exec fuel LeafFns.merge_existing_groups.body { mem := m, loc := [a0, a1, a2, a3, .int (start : Int)] ++ List.replicate 10 .undef } =
      .ret (.int (start : Int)) { mem := m, loc := [a0, a1, a2, a3, .int (start : Int), .int (start : Int)] ++ List.replicate 9 .undef } := by
  have wS : wrapTo .u64 (start : Int) = (start : Int) := wrapTo_u64_small _ (by omega) hs
  rw [merge_existing_groups_shape]
  rcases h with rfl | ⟨⟨b, rfl⟩, rfl⟩ <;>
    simp [exec, testOf, evalE, evalL, readPlace, writePlace, convert, wS, truth, boolVal, bind, Except.bind, Except.map]

/-- the array under construction, whatever the frame of the loop that fills it: `start` entries were there, the copies of `sel`
    stand behind them, the destination lists their groups, everything else of the memory `m0` is as it was -/
structure ArrInv (m0 : Mem) (bk bl0 fa : Nat) (names0 : List (List UInt8)) (gl0len cap start : Nat) (ablk0 : Block)
    (sel : List Econf.Entry) (mem : Mem) : Prop where
  agree : ∀ b, b < m0.length → b ∉ [bk, bl0, fa] → mem[b]? = m0[b]?
  grows : m0.length ≤ mem.length
  dest : ∃ bl' gl', GlMem mem bk bl' gl' ∧ (bl' = bl0 ∨ m0.length ≤ bl') ∧ (∀ blk, mem[bk]? = some blk → blk.writable = true) ∧ bk ≠ bl' ∧
      (∀ x, x ∈ gl' → x.1 ≠ bk ∧ x.1 ≠ bl') ∧ gl'.length ≤ gl0len + sel.length ∧
      gl'.map (·.2) = (sel.map (·.group)).foldl Econf.addGroup names0 ∧
      ∀ j (h : j < sel.length), EntMem mem fa (7 * (start + j)) (Econf.cpyEntry (sel[j])) [bk, bl']
  arr : ∃ ablk, mem[fa]? = some ablk ∧ ablk.live = true ∧ ablk.writable = true ∧ ablk.cells = [] ∧ ablk.slots.length = 7 * cap ∧
      ∀ k, k < 7 * start → ablk.slots[k]? = ablk0.slots[k]?

theorem ArrInv.frame {m0 : Mem} {bk bl0 fa : Nat} {names0 : List (List UInt8)} {gl0len cap start : Nat} {ablk0 : Block} {sel : List Econf.Entry} {mem : Mem}
    (h : ArrInv m0 bk bl0 fa names0 gl0len cap start ablk0 sel mem) (mem' : Mem)
    (hm : ∀ b, b < mem.length → mem'[b]? = mem[b]?) (hlen : mem.length ≤ mem'.length) (hfa : fa < m0.length) (hbk : bk < m0.length) :
    ArrInv m0 bk bl0 fa names0 gl0len cap start ablk0 sel mem' := by
  obtain ⟨bl', gl', d1, d2, d3, d4, d5, d6, d7, d8⟩ := h.dest
  obtain ⟨ablk, a1, a2, a3, a4, a5, a6⟩ := h.arr
  have hg := h.grows
  refine ⟨fun b hb hav => by rw [hm b (by omega)]; exact h.agree b hb hav, by omega, ?_, ⟨ablk, by rw [hm fa (by omega)]; exact a1, a2, a3, a4, a5, a6⟩⟩
  have hG' : GlMem mem' bk bl' gl' := d1.mono_of (hm bk (by omega)) (hm bl' (by obtain ⟨g, g1, _⟩ := d1.arr; exact (List.getElem?_eq_some_iff.1 g1).1))
    (fun b str hc _ => hm b (cstr_lt hc))
  exact ⟨bl', gl', hG', d2, fun blk hb => d3 blk (by rw [← hm bk (by omega)]; exact hb), d4, d5, d6, d7, fun j hj => (d8 j hj).mono (fun b hb _ => hm b hb)⟩

/-- what the three loops share about their surroundings -/
structure ArrCtx (m0 : Mem) (bk bl0 fa cell : Nat) (gl0len cap : Nat) : Prop where
  cellb : ∃ cblk, m0[cell]? = some cblk ∧ cblk.live = true ∧ cblk.slots[0]? = some (.ptr fa 0)
  cellav : cell ∉ [bk, bl0, fa]
  fa_lt : fa < m0.length
  bk_lt : bk < m0.length
  bl_lt : bl0 < m0.length
  fa_ne : fa ≠ bk ∧ fa ≠ bl0

/-- the append step in any frame: `(*fe)[start + |sel|] = cpy_file_entry(dest_kf, src)` extends the invariant by the source entry -/
theorem ArrInv.append {m0 : Mem} {bk bl0 fa cell : Nat} {names0 : List (List UInt8)} {gl0len cap start : Nat} {ablk0 : Block} {sel : List Econf.Entry} {M : Mem}
    (h : ArrInv m0 bk bl0 fa names0 gl0len cap start ablk0 sel M) (C : ArrCtx m0 bk bl0 fa cell gl0len cap)
    (bs os : Nat) (e : Econf.Entry) (hE0 : EntMem m0 bs os e [bk, bl0, fa])
    (loc loc2 : List Val) (srcE idxE : Expr) (t : Nat)
    (hroom : start + sel.length < cap) (hsmall : (gl0len : Int) + sel.length + 2 < 2147483648) (hline : (e.line : Int) < 18446744073709551616)
    (fuel : Nat) (hf : gl0len + sel.length + 1 < fuel)
    (hl0 : loc[0]? = some (.ptr bk 0)) (hl1 : loc[1]? = some (.ptr cell 0)) (ht : t < loc.length) (ht1 : t ≠ 1)
    (hsrc : evalE srcE { mem := M, loc := loc } = .ok (.ptr bs (os : Int), { mem := M, loc := loc }))
    (hidx : ∀ mm, evalE idxE { mem := mm, loc := loc.set t (.ptr M.length 0) } = .ok (.int ((start + sel.length : Nat) : Int), { mem := mm, loc := loc2 }))
    (hl2t : loc2[t]? = some (.ptr M.length 0)) :
    ∃ m', exec fuel (.seq (.inl (some (.var t)) .ptr (.cons (.load (.var 0) .ptr) (.cons srcE .nil)) 3 LeafFns.cpy_file_entry.body)
          (.expr (.call "copy_words" (.cons (.sidx (.load (.slot (.load (.var 1) .ptr) 0) .ptr) idxE 7) (.cons (.load (.var t) .ptr) (.cons (.lit 7 .u64) .nil))))))
        { mem := M, loc := loc } = .normal { mem := m', loc := loc2 } ∧
      ArrInv m0 bk bl0 fa names0 gl0len cap start ablk0 (sel ++ [e]) m' ∧ M.length ≤ m'.length := by
  obtain ⟨bl', gl', d1, d2, d3, d4, d5, d6, d7, d8⟩ := h.dest
  obtain ⟨ablk, a1, a2, a3, a4, a5, a6⟩ := h.arr
  obtain ⟨cblk, c1, c2, c3⟩ := C.cellb
  have hclt : cell < m0.length := (List.getElem?_eq_some_iff.1 c1).1
  have hcM : M[cell]? = some cblk := by rw [h.agree cell hclt C.cellav]; exact c1
  have hbl'ne : ∀ b, b < m0.length → b ≠ bl0 → b ≠ bl' := by
    intro b hb hne
    rcases d2 with e | e
    · rw [e]; exact hne
    · omega
  have hcav := C.cellav
  simp only [List.mem_cons, List.not_mem_nil, or_false, not_or] at hcav
  have hE : EntMem M bs os e [bk, bl'] := hE0.transfer h.agree (fun b hb hav => by
    simp only [List.mem_cons, List.not_mem_nil, or_false, not_or] at hav ⊢
    exact ⟨hav.1, hbl'ne b hb hav.2.1⟩)
  have hfalt := C.fa_lt
  have hgrow : m0.length ≤ M.length := h.grows
  obtain ⟨m', bl'', gl'', hex, hEnt, hG', hnames, hfr, ⟨ablk', b1, b2, b3, b4, b5, b6⟩, hlen', hblor, hkw', hne', hd', hgll⟩ :=
    C_fe_append M bk bl' cell fa bs os gl' e loc loc2 srcE idxE t (start + sel.length) cap
      d1 hE d3 d4 d5 (by omega) hline fuel (by omega) hl0 hl1 ht ht1 hsrc hidx hl2t
      cblk hcM c2 c3 ⟨hcav.1, hbl'ne cell hclt hcav.2.1⟩ ablk a1 a2 a3 a5 a4 ⟨C.fa_ne.1, hbl'ne fa C.fa_lt C.fa_ne.2⟩ hroom
  refine ⟨m', hex, ?_, hlen'⟩
  have hbl''ne : ∀ b, b < M.length → b ≠ bl' → b ≠ bl'' := by
    intro b hb hne
    rcases hblor with e | e
    · rw [e]; exact hne
    · omega
  refine ⟨?_, by omega, ?_, ⟨ablk', b1, b2, b3, b4, b5, fun k hk => by rw [b6 k (Or.inl (by omega))]; exact a6 k hk⟩⟩
  · intro b hb hav
    simp only [List.mem_cons, List.not_mem_nil, or_false, not_or] at hav
    rw [hfr b (by omega) hav.1 (hbl'ne b hb hav.2.1) hav.2.2]
    exact h.agree b hb (by simp [hav])
  · refine ⟨bl'', gl'', hG', ?_, hkw', hne', hd', by simp; omega, ?_, ?_⟩
    · rcases hblor with e | e
      · rw [e]; exact d2
      · right; omega
    · rw [hnames, d7]
      simp [List.map_append, List.foldl_append]
    · intro j hj
      by_cases hja : j < sel.length
      · rw [List.getElem_append_left hja]
        exact (d8 j hja).keep_in_array a1 b1 b2 (fun k hk => b6 (7 * (start + j) + k) (Or.inl (by omega)))
          (fun b hb hav hne => by
            simp only [List.mem_cons, List.not_mem_nil, or_false, not_or] at hav
            exact hfr b hb hav.1 hav.2 hne) (no_cstr a1 a4)
          (fun b hb hav => by
            simp only [List.mem_cons, List.not_mem_nil, or_false, not_or] at hav ⊢
            exact ⟨hav.1, hbl''ne b hb hav.2⟩)
          (by simp only [List.mem_cons, List.not_mem_nil, or_false, not_or]
              exact ⟨C.fa_ne.1, hbl''ne fa (by omega) (hbl'ne fa C.fa_lt C.fa_ne.2)⟩)
      · have hje : j = sel.length := by simp at hj; omega
        subst hje
        simpa using hEnt

theorem firstIdx_eq_length_iff (es : List Econf.Entry) (g k : List UInt8) :
    firstIdx (entsOf es) g k = es.length ↔ Econf.defines es g k = false := by
  have hl : (entsOf es).length = es.length := by simp [entsOf]
  have hget : ∀ i (h : i < es.length), (entsOf es)[i]'(by rw [hl]; exact h) = ((es[i]).group, (es[i]).key) := by
    intro i h; simp [entsOf]
  constructor
  · intro hf
    cases hd : Econf.defines es g k with
    | false => rfl
    | true =>
      simp only [Econf.defines, List.any_eq_true, Bool.and_eq_true, beq_iff_eq] at hd
      obtain ⟨x, hx, h1, h2⟩ := hd
      obtain ⟨i, hi, rfl⟩ := List.getElem_of_mem hx
      have := firstIdx_before (entsOf es) g k i (by rw [hf]; exact hi)
      rw [hget i hi] at this
      exact absurd ⟨h1, h2⟩ this
  · intro hd
    have hle := firstIdx_le (entsOf es) g k
    by_cases hlt : firstIdx (entsOf es) g k < es.length
    · have hat := firstIdx_at (entsOf es) g k (by rw [hl]; exact hlt)
      rw [hget _ hlt] at hat
      have : Econf.defines es g k = true := by
        simp only [Econf.defines, List.any_eq_true, Bool.and_eq_true, beq_iff_eq]
        exact ⟨_, List.getElem_mem hlt, hat.1, hat.2⟩
      rw [hd] at this; exact absurd this (by simp)
    · omega

/-- which entries of the override the inner loop of `merge_existing_groups` copies for group `g` -/
def mnP (us : List Econf.Entry) (g : List UInt8) (e : Econf.Entry) : Bool := e.group == g && !Econf.defines us g e.key

theorem mnSel_model (us es : List Econf.Entry) (g : List UInt8) : (selBy (mnP us g) es es.length).map Econf.cpyEntry = Econf.newKeysOf us es g := by
  unfold Econf.newKeysOf
  rw [selBy_model]
  rfl

abbrev meLoc (bk cell bu be start cnt i bg : Nat) (v8 v9 : Val) (j : Nat) (v11 v12 v13 v14 : Val) : List Val :=
  [.ptr bk 0, .ptr cell 0, .ptr bu 0, .ptr be 0, .int (start : Int), .int (cnt : Int), .int (i : Int), .ptr bg 0, v8, v9, .int (j : Int), v11, v12, v13, v14]

/-- what the inner loop needs from its surroundings -/
structure MnCtx (m0 : Mem) (bk bl0 fa cell bu bua be bea bg : Nat) (us es : List Econf.Entry) (g : List UInt8) (gl0len cap cnt0 : Nat) : Prop where
  arr : ArrCtx m0 bk bl0 fa cell gl0len cap
  src : SrcMem m0 be bea es [bk, bl0, fa]
  usr : SrcMem m0 bu bua us [bk, bl0, fa]
  grp : m0.cstr bg 0 = .ok g
  grpav : bg ∉ [bk, bl0, fa]
  room : cnt0 + es.length ≤ cap
  small : (gl0len : Int) + es.length + 2 < 2147483648
  usmall : (us.length : Int) + 1 < 18446744073709551616
  ssmall : (cnt0 : Int) + es.length + 1 < 18446744073709551616
  lines : ∀ e ∈ es, (e.line : Int) < 18446744073709551616

def mnTest : Expr := .bin .lt (.load (.var 10) .u64) (.load (.slot (.load (.var 3) .ptr) 1) .u64) .i32
def mnAppend : Stmt := .seq (.inl (some (.var 12)) .ptr (.cons (.load (.var 0) .ptr) (.cons (meEtc 10) .nil)) 3 LeafFns.cpy_file_entry.body)
  (.expr (.call "copy_words" (.cons (.sidx (.load (.slot (.load (.var 1) .ptr) 0) .ptr) (.incdec (.var 5) true true .u64) 7)
    (.cons (.load (.var 12) .ptr) (.cons (.lit 7 .u64) .nil)))))
def mnInner2 : Stmt := .seq (.inl (some (.var 13)) .u64 (.cons (.load (.var 2) .ptr) (.cons (.load (.var 7) .ptr) (.cons (.load (.slot (meEtc 10) 1) .ptr) .nil))) 4 LeafFns.first_entry.body)
  (.ite (.bin .eq (.load (.var 13) .u64) (.load (.slot (.load (.var 2) .ptr) 1) .u64) .i32) mnAppend .skip)
def mnInner1 : Stmt := .seq (.inl (some (.var 14)) .bool (.cons (.load (.var 3) .ptr) (.cons (.load (.var 10) .u64) .nil)) 3 LeafFns.first_definition.body)
  (.ite (.cast .i32 (.load (.var 14) .bool)) mnInner2 .skip)
def mnBody : Stmt := .ite (.un .lnot (.call "strcmp" (.cons (.load (.slot (meEtc 10) 0) .ptr) (.cons (.load (.var 7) .ptr) .nil))) .i32) mnInner1 .skip

theorem meNewKeys_shape : meNewKeys = .for (some mnTest) (some (.incdec (.var 10) true true .u64)) mnBody := rfl

/-- the state of the inner loop before round `j` -/
def MnInv (m0 : Mem) (bk bl0 fa cell bu be bg : Nat) (names0 : List (List UInt8)) (gl0len cap cnt0 : Nat) (ablk0 : Block) (start i : Nat) (v8 v9 v11 : Val)
    (sel : List Econf.Entry) (j : Nat) (st : St) : Prop :=
  (∃ v12 v13 v14, st.loc = meLoc bk cell bu be start (cnt0 + sel.length) i bg v8 v9 j v11 v12 v13 v14) ∧
  ArrInv m0 bk bl0 fa names0 gl0len cap cnt0 ablk0 sel st.mem

/-- `j++` (variable 10 of fifteen) -/
theorem mn_step (mm : Mem) (a0 a1 a2 a3 a4 a5 a6 a7 a8 a9 a11 a12 a13 a14 : Val) (j : Nat) (hj : (j : Int) + 1 < 18446744073709551616) :
    stepOf (some (.incdec (.var 10) true true .u64)) { mem := mm, loc := [a0, a1, a2, a3, a4, a5, a6, a7, a8, a9, .int (j : Int), a11, a12, a13, a14] } =
      .ok { mem := mm, loc := [a0, a1, a2, a3, a4, a5, a6, a7, a8, a9, .int ((j + 1 : Nat) : Int), a11, a12, a13, a14] } := by
  have : wrapTo .u64 ((j : Int) + 1) = (j : Int) + 1 := wrapTo_u64_small _ (by omega) (by omega)
  simp [stepOf, evalE, evalL, readPlace, writePlace, binop, cmpInt, arith, Ty.signed, convert, this, bind, Except.bind, Except.map]

/-- `merge_length++` as an index (variable 5 of fifteen) -/
theorem mn_idx (mm : Mem) (a0 a1 a2 a3 a4 a6 a7 a8 a9 a10 a11 a12 a13 a14 : Val) (a : Nat) (ha : (a : Int) + 1 < 18446744073709551616) :
    evalE (.incdec (.var 5) true true .u64) { mem := mm, loc := [a0, a1, a2, a3, a4, .int (a : Int), a6, a7, a8, a9, a10, a11, a12, a13, a14] } =
      .ok (.int (a : Int), { mem := mm, loc := [a0, a1, a2, a3, a4, .int ((a + 1 : Nat) : Int), a6, a7, a8, a9, a10, a11, a12, a13, a14] }) := by
  have : wrapTo .u64 ((a : Int) + 1) = (a : Int) + 1 := wrapTo_u64_small _ (by omega) (by omega)
  simp [evalE, evalL, readPlace, writePlace, binop, cmpInt, arith, Ty.signed, convert, this, bind, Except.bind, Except.map]

theorem mn_round {m0 : Mem} {bk bl0 fa cell bu bua be bea bg : Nat} {us es : List Econf.Entry} {g : List UInt8} {names0 : List (List UInt8)} {gl0len cap cnt0 : Nat}
    {ablk0 : Block} {start i : Nat} {v8 v9 v11 : Val}
    (C : MnCtx m0 bk bl0 fa cell bu bua be bea bg us es g gl0len cap cnt0) (fuel : Nat) (hf : gl0len + es.length + us.length + 2 < fuel)
    (j : Nat) (hj : j < es.length) (st : St) (h : MnInv m0 bk bl0 fa cell bu be bg names0 gl0len cap cnt0 ablk0 start i v8 v9 v11 (selBy (mnP us g) es j) j st) :
    ∃ T Q st', testOf (some mnTest) st = .ok (true, T) ∧ (exec fuel mnBody T = .normal Q ∨ exec fuel mnBody T = .cont Q) ∧
      stepOf (some (.incdec (.var 10) true true .u64)) Q = .ok st' ∧
      MnInv m0 bk bl0 fa cell bu be bg names0 gl0len cap cnt0 ablk0 start i v8 v9 v11 (selBy (mnP us g) es (j + 1)) (j + 1) st' := by
  obtain ⟨⟨v12, v13, v14, hloc⟩, hA⟩ := h
  obtain ⟨mem, loc⟩ := st
  simp only at hloc hA; subst hloc
  have hfa := C.arr.fa_lt
  have hbk := C.arr.bk_lt
  have hS : SrcMem mem be bea es [bk, bl0, fa] := C.src.mono hA.agree
  have hU : SrcMem mem bu bua us [bk, bl0, fa] := C.usr.mono hA.agree
  have hbglt : bg < m0.length := cstr_lt C.grp
  have hgm : mem.cstr bg 0 = .ok g := by rw [cstr_congr (hA.agree bg hbglt C.grpav)]; exact C.grp
  have ha_le : (selBy (mnP us g) es j).length ≤ j := selBy_length_le _ es j
  have htest := kf_test 3 10 mem (meLoc bk cell bu be start (cnt0 + (selBy (mnP us g) es j).length) i bg v8 v9 j v11 v12 v13 v14) be bea es _ j hS rfl rfl
  simp only [hj, decide_true] at htest
  have hcond := kf_group_eq 3 10 7 mem (meLoc bk cell bu be start (cnt0 + (selBy (mnP us g) es j).length) i bg v8 v9 j v11 v12 v13 v14) be bea bg es _ j g hS hj rfl rfl rfl hgm
  have hsmallstep : (j : Int) + 1 < 18446744073709551616 := by have := C.ssmall; omega
  have hw0 : wrapTo .i32 0 = 0 := by decide
  have hw1 : wrapTo .i32 1 = 1 := by decide
  have keep : ∀ (w12 w13 w14 : Val), (mnP us g es[j] && (firstIdx (entsOf es) (es[j]).group (es[j]).key == j)) = false →
      MnInv m0 bk bl0 fa cell bu be bg names0 gl0len cap cnt0 ablk0 start i v8 v9 v11 (selBy (mnP us g) es (j + 1)) (j + 1)
        { mem := mem, loc := meLoc bk cell bu be start (cnt0 + (selBy (mnP us g) es j).length) i bg v8 v9 (j + 1) v11 w12 w13 w14 } := by
    intro w12 w13 w14 hsel
    rw [selBy_succ _ es j hj, hsel]
    simp only [Bool.false_eq_true, if_false, List.append_nil]
    exact ⟨⟨w12, w13, w14, rfl⟩, hA⟩
  by_cases hg : (es[j]).group = g
  · have hcT : exec fuel mnBody { mem := mem, loc := meLoc bk cell bu be start (cnt0 + (selBy (mnP us g) es j).length) i bg v8 v9 j v11 v12 v13 v14 } = exec fuel mnInner1 { mem := mem, loc := meLoc bk cell bu be start (cnt0 + (selBy (mnP us g) es j).length) i bg v8 v9 j v11 v12 v13 v14 } := by
      unfold mnBody meEtc
      rw [exec_ite_true (by simpa [hg] using hcond)]
    have hel : (entsOf es).length = es.length := by simp [entsOf]
    have hsm := C.small
    obtain ⟨loc', hfd⟩ := first_definition_exec mem be bea (entsOf es) j (by rw [hel]; exact hj) hS.toKf (by rw [hel]; omega) fuel (by rw [hel]; omega)
    have hent : (entsOf es)[j]'(by rw [hel]; exact hj) = ((es[j]).group, (es[j]).key) := by simp [entsOf]
    rw [hent] at hfd
    have hargs : evalArgs (.cons (.load (.var 3) .ptr) (.cons (.load (.var 10) .u64) .nil)) { mem := mem, loc := meLoc bk cell bu be start (cnt0 + (selBy (mnP us g) es j).length) i bg v8 v9 j v11 v12 v13 v14 } =
        .ok ([.ptr be 0, .int (j : Int)], { mem := mem, loc := meLoc bk cell bu be start (cnt0 + (selBy (mnP us g) es j).length) i bg v8 v9 j v11 v12 v13 v14 }) := by
      simp [evalArgs, evalE, evalL, readPlace, bind, Except.bind]
    by_cases hfirst : firstIdx (entsOf es) (es[j]).group (es[j]).key = j
    · simp only [hfirst, if_true] at hfd
      have hinl14 : exec fuel (.inl (some (.var 14)) .bool (.cons (.load (.var 3) .ptr) (.cons (.load (.var 10) .u64) .nil)) 3 LeafFns.first_definition.body)
          { mem := mem, loc := meLoc bk cell bu be start (cnt0 + (selBy (mnP us g) es j).length) i bg v8 v9 j v11 v12 v13 v14 } = .normal { mem := mem, loc := meLoc bk cell bu be start (cnt0 + (selBy (mnP us g) es j).length) i bg v8 v9 j v11 v12 v13 (.int 1) } :=
        exec_inl_val (fuel := fuel) (nl := 3) (body := LeafFns.first_definition.body) (i := 14) (dty := .bool) (v := .int 1) (v' := .int 1)
          (st' := { mem := mem, loc := loc' }) hargs (by simpa using hfd) (by simp [convert, wrapTo]) (by simp)
      have ht14 : testOf (some (.cast .i32 (.load (.var 14) .bool))) { mem := mem, loc := meLoc bk cell bu be start (cnt0 + (selBy (mnP us g) es j).length) i bg v8 v9 j v11 v12 v13 (.int 1) } = .ok (true, { mem := mem, loc := meLoc bk cell bu be start (cnt0 + (selBy (mnP us g) es j).length) i bg v8 v9 j v11 v12 v13 (.int 1) }) := by
        simp [testOf, evalE, evalL, readPlace, convert, hw1, truth, bind, Except.bind, Except.map]
      -- `first_entry(uf, group, ef->file_entry[j].key)`
      obtain ⟨bq, q1, q2, _⟩ := (hS.ents j hj).key
      have hkey := kf_member 3 10 mem (meLoc bk cell bu be start (cnt0 + (selBy (mnP us g) es j).length) i bg v8 v9 j v11 v12 v13 (.int 1)) be bea es _ j 1 (.ptr bq 0) hS hj rfl rfl (by simpa using q1) (by simp)
      have hargs3 : evalArgs (.cons (.load (.var 2) .ptr) (.cons (.load (.var 7) .ptr) (.cons (.load (.slot (meEtc 10) 1) .ptr) .nil))) { mem := mem, loc := meLoc bk cell bu be start (cnt0 + (selBy (mnP us g) es j).length) i bg v8 v9 j v11 v12 v13 (.int 1) } =
          .ok ([.ptr bu 0, .ptr bg 0, .ptr bq 0], { mem := mem, loc := meLoc bk cell bu be start (cnt0 + (selBy (mnP us g) es j).length) i bg v8 v9 j v11 v12 v13 (.int 1) }) := by
        have h2 : evalE (.load (.var 2) .ptr) { mem := mem, loc := meLoc bk cell bu be start (cnt0 + (selBy (mnP us g) es j).length) i bg v8 v9 j v11 v12 v13 (.int 1) } = .ok (.ptr bu 0, { mem := mem, loc := meLoc bk cell bu be start (cnt0 + (selBy (mnP us g) es j).length) i bg v8 v9 j v11 v12 v13 (.int 1) }) := by
          simp [evalE, evalL, readPlace, bind, Except.bind]
        have h7 : evalE (.load (.var 7) .ptr) { mem := mem, loc := meLoc bk cell bu be start (cnt0 + (selBy (mnP us g) es j).length) i bg v8 v9 j v11 v12 v13 (.int 1) } = .ok (.ptr bg 0, { mem := mem, loc := meLoc bk cell bu be start (cnt0 + (selBy (mnP us g) es j).length) i bg v8 v9 j v11 v12 v13 (.int 1) }) := by
          simp [evalE, evalL, readPlace, bind, Except.bind]
        unfold meEtc
        generalize (Expr.load (.slot (.sidx (.load (.slot (.load (.var 3) .ptr) 0) .ptr) (.load (.var 10) .u64) 7) 1) .ptr) = K at hkey ⊢
        simp only [evalArgs, h2, h7, hkey, bind, Except.bind]
      have hul : (entsOf us).length = us.length := by simp [entsOf]
      have hus := C.usmall
      have hfe := first_entry_exec mem bu bua bg bq (entsOf us) g (es[j]).key hU.toKf hgm q2 (by rw [hul]; exact hus) fuel (by rw [hul]; omega)
      have hfile := firstIdx_le (entsOf us) g (es[j]).key
      have hwf : wrapTo .u64 ((firstIdx (entsOf us) g (es[j]).key) : Int) = ((firstIdx (entsOf us) g (es[j]).key) : Int) := wrapTo_u64_small _ (by omega) (by omega)
      have hinl13 : exec fuel (.inl (some (.var 13)) .u64 (.cons (.load (.var 2) .ptr) (.cons (.load (.var 7) .ptr) (.cons (.load (.slot (meEtc 10) 1) .ptr) .nil))) 4 LeafFns.first_entry.body)
          { mem := mem, loc := meLoc bk cell bu be start (cnt0 + (selBy (mnP us g) es j).length) i bg v8 v9 j v11 v12 v13 (.int 1) } = .normal { mem := mem, loc := meLoc bk cell bu be start (cnt0 + (selBy (mnP us g) es j).length) i bg v8 v9 j v11 v12 (.int ((firstIdx (entsOf us) g (es[j]).key) : Int)) (.int 1) } :=
        exec_inl_val (fuel := fuel) (nl := 4) (body := LeafFns.first_entry.body) (i := 13) (dty := .u64) (v := .int ((firstIdx (entsOf us) g (es[j]).key) : Int)) (v' := .int ((firstIdx (entsOf us) g (es[j]).key) : Int))
          (st' := { mem := mem, loc := [.ptr bu 0, .ptr bg 0, .ptr bq 0, .int ((firstIdx (entsOf us) g (es[j]).key) : Int)] }) hargs3 (by simpa using hfe) (by simp [convert, hwf]) (by simp)
      have hU1 : mem.loadSlot bu 1 = .ok (.int us.length) := by
        obtain ⟨kb, k1, k2, k3, k4⟩ := hU.kf
        simpa using loadSlot_of (i := 1) k1 k2 k4 (by simp)
      have hteq : testOf (some (.bin .eq (.load (.var 13) .u64) (.load (.slot (.load (.var 2) .ptr) 1) .u64) .i32)) { mem := mem, loc := meLoc bk cell bu be start (cnt0 + (selBy (mnP us g) es j).length) i bg v8 v9 j v11 v12 (.int ((firstIdx (entsOf us) g (es[j]).key) : Int)) (.int 1) } =
          .ok (decide ((firstIdx (entsOf us) g (es[j]).key) = us.length), { mem := mem, loc := meLoc bk cell bu be start (cnt0 + (selBy (mnP us g) es j).length) i bg v8 v9 j v11 v12 (.int ((firstIdx (entsOf us) g (es[j]).key) : Int)) (.int 1) }) := by
        by_cases hq : (firstIdx (entsOf us) g (es[j]).key) = us.length
        · simp [testOf, evalE, evalL, readPlace, hU1, binop, cmpInt, boolVal, truth, hq, bind, Except.bind]
        · have : ¬ (((firstIdx (entsOf us) g (es[j]).key) : Int) = (us.length : Int)) := by omega
          simp [testOf, evalE, evalL, readPlace, hU1, binop, cmpInt, boolVal, truth, hq, this, bind, Except.bind]
      have hdef := firstIdx_eq_length_iff us g (es[j]).key
      by_cases hnew : (firstIdx (entsOf us) g (es[j]).key) = us.length
      · -- a key of this group that only the override defines: copied
        have hdf : Econf.defines us g (es[j]).key = false := hdef.1 hnew
        have hfirst' := hfirst
        rw [hg] at hfirst'
        have hsel : (mnP us g es[j] && (firstIdx (entsOf es) (es[j]).group (es[j]).key == j)) = true := by simp [mnP, hg, hdf, hfirst']
        have hsrc := kf_src 3 10 mem (meLoc bk cell bu be start (cnt0 + (selBy (mnP us g) es j).length) i bg v8 v9 j v11 v12 (.int ((firstIdx (entsOf us) g (es[j]).key) : Int)) (.int 1)) be bea es _ j hS (Nat.le_of_lt hj) rfl rfl
        have hss := C.ssmall
        have hidx : ∀ mm, evalE (.incdec (.var 5) true true .u64) { mem := mm, loc := List.set (meLoc bk cell bu be start (cnt0 + (selBy (mnP us g) es j).length) i bg v8 v9 j v11 v12 (.int ((firstIdx (entsOf us) g (es[j]).key) : Int)) (.int 1)) 12 (.ptr mem.length 0) } =
            .ok (.int ((cnt0 + (selBy (mnP us g) es j).length : Nat) : Int), { mem := mm, loc := meLoc bk cell bu be start (cnt0 + (selBy (mnP us g) es j).length + 1) i bg v8 v9 j v11 (.ptr mem.length 0) (.int ((firstIdx (entsOf us) g (es[j]).key) : Int)) (.int 1) }) := fun mm => by
          simpa [meLoc] using mn_idx mm (.ptr bk 0) (.ptr cell 0) (.ptr bu 0) (.ptr be 0) (.int (start : Int)) (.int (i : Int)) (.ptr bg 0) v8 v9 (.int (j : Int)) v11
            (.ptr mem.length 0) (.int ((firstIdx (entsOf us) g (es[j]).key) : Int)) (.int 1) (cnt0 + (selBy (mnP us g) es j).length) (by omega)
        have hroom := C.room
        obtain ⟨m', hex, hA', hlen'⟩ := hA.append C.arr bea (7 * j) es[j] (C.src.ents j hj) (meLoc bk cell bu be start (cnt0 + (selBy (mnP us g) es j).length) i bg v8 v9 j v11 v12 (.int ((firstIdx (entsOf us) g (es[j]).key) : Int)) (.int 1)) (meLoc bk cell bu be start (cnt0 + (selBy (mnP us g) es j).length + 1) i bg v8 v9 j v11 (.ptr mem.length 0) (.int ((firstIdx (entsOf us) g (es[j]).key) : Int)) (.int 1)) (meEtc 10) (.incdec (.var 5) true true .u64) 12
          (by omega) (by omega) (C.lines _ (List.getElem_mem hj)) fuel (by omega) rfl rfl (by simp) (by decide) (by unfold meEtc; exact hsrc) hidx rfl
        refine ⟨_, { mem := m', loc := meLoc bk cell bu be start (cnt0 + (selBy (mnP us g) es j).length + 1) i bg v8 v9 j v11 (.ptr mem.length 0) (.int ((firstIdx (entsOf us) g (es[j]).key) : Int)) (.int 1) }, _, htest, Or.inl ?_, mn_step m' _ _ _ _ _ _ _ _ _ _ _ _ _ _ j hsmallstep, ?_⟩
        · rw [hcT]; unfold mnInner1
          rw [exec_seq_normal hinl14, exec_ite_true ht14]; unfold mnInner2
          rw [exec_seq_normal hinl13, exec_ite_true (by rw [hteq, decide_eq_true hnew])]
          exact hex
        · rw [selBy_succ _ es j hj, hsel]
          simp only [if_true]
          exact ⟨⟨.ptr mem.length 0, .int ((firstIdx (entsOf us) g (es[j]).key) : Int), .int 1, by simp [meLoc]; omega⟩, hA'⟩
      · -- the base defines this key in the group: its entry has taken the value already
        have hdt : Econf.defines us g (es[j]).key = true := by
          cases hd : Econf.defines us g (es[j]).key with
          | true => rfl
          | false => exact absurd (hdef.2 hd) hnew
        have hsel : (mnP us g es[j] && (firstIdx (entsOf es) (es[j]).group (es[j]).key == j)) = false := by simp [mnP, hdt]
        refine ⟨_, { mem := mem, loc := meLoc bk cell bu be start (cnt0 + (selBy (mnP us g) es j).length) i bg v8 v9 j v11 v12 (.int ((firstIdx (entsOf us) g (es[j]).key) : Int)) (.int 1) }, _, htest, Or.inl ?_, mn_step mem _ _ _ _ _ _ _ _ _ _ _ _ _ _ j hsmallstep, keep _ _ _ hsel⟩
        rw [hcT]; unfold mnInner1
        rw [exec_seq_normal hinl14, exec_ite_true ht14]; unfold mnInner2
        rw [exec_seq_normal hinl13, exec_ite_false (by rw [hteq, decide_eq_false hnew])]; simp [exec]
    · -- a later definition of the key
      have hsel : (mnP us g es[j] && (firstIdx (entsOf es) (es[j]).group (es[j]).key == j)) = false := by simp [hfirst]
      simp only [hfirst, if_false] at hfd
      have hinl14 : exec fuel (.inl (some (.var 14)) .bool (.cons (.load (.var 3) .ptr) (.cons (.load (.var 10) .u64) .nil)) 3 LeafFns.first_definition.body)
          { mem := mem, loc := meLoc bk cell bu be start (cnt0 + (selBy (mnP us g) es j).length) i bg v8 v9 j v11 v12 v13 v14 } = .normal { mem := mem, loc := meLoc bk cell bu be start (cnt0 + (selBy (mnP us g) es j).length) i bg v8 v9 j v11 v12 v13 (.int 0) } :=
        exec_inl_val (fuel := fuel) (nl := 3) (body := LeafFns.first_definition.body) (i := 14) (dty := .bool) (v := .int 0) (v' := .int 0)
          (st' := { mem := mem, loc := loc' }) hargs (by simpa using hfd) (by simp [convert, wrapTo]) (by simp)
      refine ⟨_, { mem := mem, loc := meLoc bk cell bu be start (cnt0 + (selBy (mnP us g) es j).length) i bg v8 v9 j v11 v12 v13 (.int 0) }, _, htest, Or.inl ?_, mn_step mem _ _ _ _ _ _ _ _ _ _ _ _ _ _ j hsmallstep, keep _ _ _ hsel⟩
      rw [hcT]; unfold mnInner1
      rw [exec_seq_normal hinl14]
      rw [exec_ite_false (st' := { mem := mem, loc := meLoc bk cell bu be start (cnt0 + (selBy (mnP us g) es j).length) i bg v8 v9 j v11 v12 v13 (.int 0) })
        (by simp [testOf, evalE, evalL, readPlace, convert, hw0, truth, bind, Except.bind, Except.map])]
      simp [exec]
  · -- an entry of another group
    have hsel : (mnP us g es[j] && (firstIdx (entsOf es) (es[j]).group (es[j]).key == j)) = false := by simp [mnP, hg]
    refine ⟨_, { mem := mem, loc := meLoc bk cell bu be start (cnt0 + (selBy (mnP us g) es j).length) i bg v8 v9 j v11 v12 v13 v14 }, _, htest, Or.inl ?_, mn_step mem _ _ _ _ _ _ _ _ _ _ _ _ _ _ j hsmallstep, keep v12 v13 v14 hsel⟩
    unfold mnBody meEtc
    rw [exec_ite_false (by simpa [hg] using hcond)]; simp [exec]

/-- the inner loop of `merge_existing_groups` that appends, behind the last entry of a group of the base, the keys of that group which only
    the override defines: on the generated term, from any state of the array (`ArrInv … [] mem`: `cnt0` entries so far), it appends exactly the
    model's `newKeysOf us es g`, counts them into `merge_length`, adds nothing else to the group list than their group, and leaves the rest
    of the caller's memory as it was -/
theorem C_me_newkeys {m0 : Mem} {bk bl0 fa cell bu bua be bea bg : Nat} {us es : List Econf.Entry} {g : List UInt8} {names0 : List (List UInt8)} {gl0len cap cnt0 : Nat}
    {ablk0 : Block} (start i : Nat) (v8 v9 v11 v12 v13 v14 : Val)
    (C : MnCtx m0 bk bl0 fa cell bu bua be bea bg us es g gl0len cap cnt0) (fuel : Nat) (hf : gl0len + es.length + us.length + 2 < fuel)
    (mem : Mem) (h : ArrInv m0 bk bl0 fa names0 gl0len cap cnt0 ablk0 [] mem) :
    ∃ mem' w12 w13 w14, exec fuel meNewKeys { mem := mem, loc := meLoc bk cell bu be start cnt0 i bg v8 v9 0 v11 v12 v13 v14 } =
        .normal { mem := mem', loc := meLoc bk cell bu be start (cnt0 + (Econf.newKeysOf us es g).length) i bg v8 v9 es.length v11 w12 w13 w14 } ∧
      (∃ bl' gl', GlMem mem' bk bl' gl' ∧
        gl'.map (·.2) = ((Econf.newKeysOf us es g).map (·.group)).foldl Econf.addGroup names0 ∧
        ∀ j (hj : j < (Econf.newKeysOf us es g).length), EntMem mem' fa (7 * (cnt0 + j)) ((Econf.newKeysOf us es g)[j]) [bk, bl']) ∧
      (∃ ablk, mem'[fa]? = some ablk ∧ ablk.live = true ∧ ∀ k, k < 7 * cnt0 → ablk.slots[k]? = ablk0.slots[k]?) ∧
      (∀ b, b < m0.length → b ∉ [bk, bl0, fa] → mem'[b]? = m0[b]?) := by
  have hsel0 : selBy (mnP us g) es 0 = [] := by simp [selBy]
  have h0 : MnInv m0 bk bl0 fa cell bu be bg names0 gl0len cap cnt0 ablk0 start i v8 v9 v11 (selBy (mnP us g) es 0) 0
      { mem := mem, loc := meLoc bk cell bu be start cnt0 i bg v8 v9 0 v11 v12 v13 v14 } := by
    rw [hsel0]; exact ⟨⟨v12, v13, v14, by simp⟩, h⟩
  rw [meNewKeys_shape, exec_for]
  obtain ⟨R, hloop, ⟨w12, w13, w14, hlocR⟩, hAR⟩ := loop_inv _ _ _
    (fun st => MnInv m0 bk bl0 fa cell bu be bg names0 gl0len cap cnt0 ablk0 start i v8 v9 v11 (selBy (mnP us g) es es.length) es.length st) es.length
    (fun j st => MnInv m0 bk bl0 fa cell bu be bg names0 gl0len cap cnt0 ablk0 start i v8 v9 v11 (selBy (mnP us g) es j) j st)
    (fun j st hj hinv => mn_round C fuel hf j hj st hinv)
    (fun st hinv => by
      obtain ⟨⟨x12, x13, x14, hloc⟩, hA⟩ := hinv
      obtain ⟨mm, loc⟩ := st
      simp only at hloc hA; subst hloc
      have hS : SrcMem mm be bea es [bk, bl0, fa] := C.src.mono hA.agree
      have htest := kf_test 3 10 mm (meLoc bk cell bu be start (cnt0 + (selBy (mnP us g) es es.length).length) i bg v8 v9 es.length v11 x12 x13 x14) be bea es _ es.length hS rfl rfl
      simp only [Nat.lt_irrefl, decide_false] at htest
      exact ⟨_, htest, ⟨⟨x12, x13, x14, rfl⟩, hA⟩⟩)
    _ fuel h0 (by omega)
  obtain ⟨memR, locR⟩ := R
  simp only at hlocR hAR; subst hlocR
  have hm := mnSel_model us es g
  have hlen : (Econf.newKeysOf us es g).length = (selBy (mnP us g) es es.length).length := by rw [← hm]; simp
  have hgrp : (Econf.newKeysOf us es g).map (·.group) = (selBy (mnP us g) es es.length).map (·.group) := by
    rw [← hm, List.map_map]
    apply List.map_congr_left
    intro e _
    simp [Econf.cpyEntry]
  obtain ⟨bl', gl', d1, d2, d3, d4, d5, d6, d7, d8⟩ := hAR.dest
  obtain ⟨ablk, a1, a2, a3, a4, a5, a6⟩ := hAR.arr
  refine ⟨memR, w12, w13, w14, by rw [hlen]; exact hloop, ⟨bl', gl', d1, by rw [hgrp]; exact d7, ?_⟩, ⟨ablk, a1, a2, a6⟩, hAR.agree⟩
  intro j hj
  have hj' : j < (selBy (mnP us g) es es.length).length := by omega
  have : (Econf.newKeysOf us es g)[j] = Econf.cpyEntry ((selBy (mnP us g) es es.length)[j]) := by simp [← hm]
  rw [this]; exact d8 j hj'

end LeafKf
